// C06 demonstration on the REAL code: the idle fast-forward delays an interrupt that was latched by the last tick of the cycle in which the
// idle self-branch first executed.  Program: `brr -1` at 0; nops from the interrupt-0 vector (0x0006) on.  A timer (auto-restart, period 50)
// fires on the very first tick.  Stepping cycle by cycle takes the interrupt in cycle 2; one call Run(N) skips ahead first.
//   exit 0: Run(N) == N x Run(1);  exit 1: they differ (prints both).
#include <cstdio>
#include "core_timing.h"
#include "interpreter.h"
#include "memory_interface.h"
#include "shared_memory.h"
#include "timer.h"
#include "teakra/impl/register.h"
using namespace Teakra;
struct Machine {
    CoreTiming ct; RegisterState regs; SharedMemory shm; MemoryInterfaceUnit miu; MemoryInterface mi{shm, miu};
    Interpreter interp{ct, regs, mi}; Timer timer{ct};
    Machine() {
        regs.Reset(); timer.Reset();
        mi.ProgramWrite(0, 0x57F0);                       // brr -1 (always): idle loop
        for (u32 a = 6; a < 0x40; a++) mi.ProgramWrite(a, 0x0000);   // interrupt 0 handler: nops
        regs.pc = 0; regs.ie = 1; regs.im[0] = 1; regs.sp = 0x500;
        timer.SetInterruptHandler([this]() { interp.SignalInterrupt(0); });
        timer.count_mode = Timer::CountMode::AutoRestart; timer.start_low = 50; timer.start_high = 0; timer.pause = 0;
        timer.counter = 1;                                // expires on the first tick
    }
};
int main()
{
    int bad = 0;
    for (unsigned n = 2; n <= 60; n++) {
        Machine a, b;
        a.interp.Run(n);
        for (unsigned i = 0; i < n; i++) b.interp.Run(1);
        if (a.regs.pc != b.regs.pc || a.regs.ie != b.regs.ie || a.regs.sp != b.regs.sp || a.timer.counter != b.timer.counter) {
            if (bad < 5) std::printf("n=%u: Run(n): pc=%05X ie=%u sp=%04X timer=%u   n x Run(1): pc=%05X ie=%u sp=%04X timer=%u\n", n, a.regs.pc, a.regs.ie, a.regs.sp, a.timer.counter, b.regs.pc, b.regs.ie, b.regs.sp, b.timer.counter);
            bad++;
        }
    }
    std::printf(bad ? "%d cycle budgets for which Run(n) differs from n single steps\n" : "Run(n) equals n single steps for every budget tried\n", bad);
    return bad ? 1 : 0;
}
