// Demonstration of the two C18 known findings on the REAL code (build: see findings/build.sh; run under AddressSanitizer).
//   ./c18_fetch_oob prpage     -> heap-buffer-overflow in SharedMemory::ReadWord: fetch with prpage = 1
//   ./c18_fetch_oob lastword   -> heap-buffer-overflow: operand fetch of a two-word instruction at pc = 0x3FFFF
#include <cstdio>
#include <cstring>
#include "core_timing.h"
#include "interpreter.h"
#include "memory_interface.h"
#include "shared_memory.h"
#include "teakra/impl/register.h"
int main(int argc, char **argv)
{
    using namespace Teakra;
    CoreTiming ct; RegisterState regs; SharedMemory shm; MemoryInterfaceUnit miu; MemoryInterface mi(shm, miu);
    Interpreter interp(ct, regs, mi);
    regs.Reset();
    if (argc > 1 && !strcmp(argv[1], "prpage")) { regs.prpage = 1; regs.pc = 0; }
    else { regs.prpage = 0; regs.pc = 0x3FFFF; mi.ProgramWrite(0x3FFFF, 0x5E00); /* mov ##imm16, r0: two words */ }
    interp.Run(1);
    std::printf("no out-of-bounds access detected (pc now %05X)\n", regs.pc);
    return 0;
}
