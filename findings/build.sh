#!/bin/sh
# builds the finding demonstrations against /repo's current sources with AddressSanitizer; usage: findings/build.sh <outdir>
set -e
OUT=${1:-/tmp/findings_build}; mkdir -p $OUT
g++ -std=c++17 -g -fsanitize=address -I/repo/src -I/repo/include -I/repo/include/teakra/impl /verif/findings/c18_fetch_oob.cpp /repo/src/memory_interface.cpp /repo/src/mmio.cpp /repo/src/timer.cpp /repo/src/btdmp.cpp /repo/src/apbp.cpp /repo/src/dma.cpp /repo/src/ahbm.cpp -o $OUT/c18_fetch_oob 2>&1 | tail -5
echo built $OUT/c18_fetch_oob
g++ -std=c++17 -g -fsanitize=address -I/repo/src -I/repo/include -I/repo/include/teakra/impl /verif/findings/c18_dma_channel_oob.cpp /repo/src/memory_interface.cpp /repo/src/mmio.cpp /repo/src/timer.cpp /repo/src/btdmp.cpp /repo/src/apbp.cpp /repo/src/dma.cpp /repo/src/ahbm.cpp -o $OUT/c18_dma_channel_oob 2>&1 | tail -5
echo built $OUT/c18_dma_channel_oob
