// Demonstration (real code, AddressSanitizer) of the C18 defect fixed by "fix: DMA channel select keeps the documented 3-bit field":
// a guest write of 8 (or any value above 7) to MMIO offset 0x1BE selected channels[8] of a std::array<Channel, 8>; the next access to the
// channel window (0x1C0..0x1DE) read or wrote past the array.  Exit 0 = no out-of-bounds access (repaired tree), ASan abort otherwise.
#include <array>
#include <cstdio>
#include "ahbm.h"
#include "apbp.h"
#include "btdmp.h"
#include "dma.h"
#include "icu.h"
#include "memory_interface.h"
#include "mmio.h"
#include "shared_memory.h"
#include "timer.h"
int main()
{
    using namespace Teakra;
    CoreTiming ct; SharedMemory shm; MemoryInterfaceUnit miu; ICU icu; Apbp a, b; Ahbm ahbm; Dma dma(shm, ahbm);
    std::array<Timer, 2> timer{{{ct}, {ct}}}; std::array<Btdmp, 2> btdmp{{{ct}, {ct}}};
    MMIORegion mmio(miu, icu, a, b, timer, dma, ahbm, btdmp);
    mmio.Write(0x1BE, 0x0FFF);        // CHANNEL := 0xFFF
    mmio.Write(0x1C0, 0xBEEF);        // SRC_ADDR_LOW of "channel 0xFFF"
    std::printf("channel select reads %04X; no out-of-bounds access detected\n", mmio.Read(0x1BE));
    return 0;
}
