/* C04 harnesses: multiplier and barrel shifter (src/interpreter.h) */
#include "proc_types.h"
#include "proc_eq.h"
#include "mul_spec.h"
#include "alu_contracts.h"
#include "mul_contracts.h"
#include "common.h"
#include "spec_touch.h"
int verif_outcome;
#include "absmem.h"
#ifdef VERIF_REAL
#include "proc_protos.h"
#else
#include "proc_funcs.c"
#endif
#include "interp_rig.h"

HARNESS(h_DoMultiplication)
{
    INTERP_RIG(it, st); NONDET(u32, unit); NONDET(bool, xs); NONDET(bool, ys); NORM_BOOL(xs); NORM_BOOL(ys);
    NATIVE_ONLY(unit &= 1;) ASSUME(unit < 2);
    NATIVE_ONLY(RegisterState old = st;)
    Interpreter_DoMultiplication(&it, unit, xs, ys);
    NATIVE_ONLY(spec_prod_t r = spec_product33(old.x.e[unit], old.y.e[unit], xs, ys, old.hwm, unit); CHECK(st.p.e[unit] == r.p && st.pe.e[unit] == r.pe, "Interpreter_DoMultiplication.postcondition");)
    OUT(st.p); OUT(st.pe); CANARY();
}
HARNESS(h_ProductToBus40)
{
    INTERP_RIG(it, st); Px reg; NONDET(u16, u); reg.base_0.storage = u & 1;
    u64 r = Interpreter_ProductToBus40(&it, reg);
    NATIVE_ONLY(CHECK(r == spec_product_bus40(st.p.e[u & 1], st.pe.e[u & 1], st.ps.e[u & 1]) && is_sx40(r), "Interpreter_ProductToBus40.postcondition");)
    OUT(r); CANARY();
}
HARNESS(h_ProductFromBus32)
{
    INTERP_RIG(it, st); Px reg; NONDET(u16, u); reg.base_0.storage = u & 1; NONDET(u32, v);
    Interpreter_ProductFromBus32(&it, reg, v);
    NATIVE_ONLY(CHECK(st.p.e[u & 1] == v && st.pe.e[u & 1] == (v >> 31), "Interpreter_ProductFromBus32.postcondition");)
    OUT(st.p); OUT(st.pe); CANARY();
}
HARNESS(h_MulGeneric)
{
    INTERP_RIG(it, st); NONDET(u16, op); Ax a; FIELD(a, a, 1);
    NATIVE_ONLY(op &= 7;) ASSUME(op < 8);
    NATIVE_ONLY(RegisterState old = st;)
    Interpreter_MulGeneric(&it, (MulOp)op, a);
    CHECK_ST(st, spec_mul_generic(old, (MulOp)op, ax_fam(a)), "Interpreter_MulGeneric");
    OUT(st); CANARY();
}
HARNESS(h_ShiftBus40)
{
    INTERP_RIG(it, st); NONDET(u64, v); NONDET(u16, sv); NONDET(u16, fam); NATIVE_ONLY(fam &= 3;) ASSUME(fam < 4);
    REGION_HOOK();
    NATIVE_ONLY(RegisterState old = st;)
    Interpreter_ShiftBus40(&it, v, sv, (RegName)(fam * 4));
    CHECK_ST(st, spec_shift40(old, v, sv, fam), "Interpreter_ShiftBus40");
    OUT(st); CANARY();
}
HARNESS(h_Exp)
{
    INTERP_RIG(it, st); NONDET(u64, v);
    u16 r = Interpreter_Exp(&it, v);
    NATIVE_ONLY(CHECK(r == spec_exp(v), "Interpreter_Exp.postcondition");)
    OUT(r); CANARY();
}
HARNESS(h_Moda_shift)
{
    INTERP_RIG(it, st); NONDET(u16, op); NONDET(u16, fam); EnumAllOperand_CondValue cond; NONDET(u16, cv); cond.base_0.storage = cv & 15;
    NATIVE_ONLY(op %= 16; if (!moda_in_c04((ModaOp)op)) op = 0; fam %= 4;) ASSUME(op < 16 && moda_in_c04((ModaOp)op) && fam < 4);
    NATIVE_ONLY(RegisterState old = st;)
    Interpreter_Moda(&it, (ModaOp)op, (RegName)(fam * 4), cond);
    CHECK_ST(st, spec_cond(old, (CondValue)(cv & 15)) ? spec_moda_shift(old, (ModaOp)op, fam) : old, "Interpreter_Moda(shift)");
    OUT(st); CANARY();
}
#define MUL3DECL EnumOperand_MulOp_0_1_2_3_4_5_6_7 op; NONDET(u16, op_v); OPV1(op) = op_v & 7
FORM_HARNESS(h_mul_y0_r6, Interpreter_mul_y0_r6(&it, op, a), spec_mul_generic(spec_set_x0(old, old.r.e[6]), (MulOp)(op_v & 7), ax_fam(a)), MUL3DECL; Ax a; FIELD(a, a, 1), "Interpreter_mul_y0_r6")
FORM_HARNESS(h_mpyi, Interpreter_mpyi(&it, x), spec_do_mul(spec_set_x0(old, (u16)spec_imms(IMMV(x), 8)), 0, true, true), Imm8s x; NONDET(u16, imm); IMMV(x) = imm & 0xFF, "Interpreter_mpyi")
FORM_HARNESS(h_mac_x1to0, Interpreter_mac_x1to0(&it, a), spec_mac_x1to0(old, ax_fam(a)), Ax a; FIELD(a, a, 1), "Interpreter_mac_x1to0")
FORM_HARNESS(h_shfi, Interpreter_shfi(&it, a, b, s), spec_shfi(old, ab_fam(a), ab_fam(b), (u16)spec_imms(IMMV(s), 6)), Ab a; FIELD(a, a, 2); Ab b; FIELD(b, b, 2); Imm6s s; NONDET(u16, imm); IMMV(s) = imm & 63, "Interpreter_shfi")
FORM_HARNESS(h_movs_r6_to, Interpreter_movs_r6_to(&it, b), spec_shift40(old, sx16_64(old.r.e[6]), old.sv, ax_fam(b)), Ax b; FIELD(b, b, 1), "Interpreter_movs_r6_to")
FORM_HARNESS(h_exp_bx, Interpreter_exp__Bx(&it, a), spec_exp_to_sv(old, bx_fam(a)), Bx a; FIELD(a, a, 1), "Interpreter_exp__Bx")
FORM_HARNESS(h_exp_bx_ax, Interpreter_exp__Bx_Ax(&it, a, b), spec_exp_store(spec_exp_to_sv(old, bx_fam(a)), ax_fam(b)), Bx a; FIELD(a, a, 1); Ax b; FIELD(b, b, 1), "Interpreter_exp__Bx_Ax")
HARNESS(h_shfc)
{
    INTERP_RIG(it, st); Ab a; FIELD(a, a, 2); Ab b; FIELD(b, b, 2); EnumAllOperand_CondValue cond; NONDET(u16, cv); cond.base_0.storage = cv & 15;
    NATIVE_ONLY(RegisterState old = st;)
    Interpreter_shfc(&it, a, b, cond);
    CHECK_ST(st, spec_cond(old, (CondValue)(cv & 15)) ? spec_shfc_do(old, ab_fam(a), ab_fam(b)) : old, "Interpreter_shfc");
    OUT(st); CANARY();
}

#ifndef VERIF_CBMC
/* Bounded stand-in for the multiplier lemma (no installed back end decides a 16x16 -> 33-bit product equivalence, DESIGN.md C04):
 * native enumeration of the extracted Interpreter::DoMultiplication over index = combo(5 bits: x_sign, y_sign, hwm, unit) | x(16) | y(16),
 * 2^37 cases in all, against the EXACT 64-bit product of the selected factors.  The 32-bit restatement used by the CBMC-side contract
 * (spec_product33) is checked against the same exact product in the same loop. */
unsigned long verif_exh_DoMultiplication(unsigned long start, unsigned long count, unsigned long *first_fail)
{
    static RegisterState st; static CoreTiming ct; static MemoryInterface mem;
    Interpreter it; memset(&it, 0, sizeof it); it.core_timing = &ct; it.regs = &st; it.mem = &mem;
    unsigned long fails = 0;
    for (unsigned long i = start; i < start + count; i++) {
        u64 k = i * 0x9E3779B97F4A7C15ull;                    /* a bijection of the index space: every slice sees all combos */
        k &= (1ull << 37) - 1;
        u16 y = (u16)k, x = (u16)(k >> 16); unsigned combo = (unsigned)(k >> 32) & 31;
        bool xs = combo & 1, ys = (combo >> 1) & 1; u16 hwm = (combo >> 2) & 3; u32 unit = (combo >> 4) & 1;
        st.x.e[unit] = x; st.y.e[unit] = y; st.hwm = hwm; verif_outcome = 0;
        Interpreter_DoMultiplication(&it, unit, xs, ys);
        u16 yh = spec_hwm_y(y, hwm, unit);
        s64 exact = (xs ? (s64)(s16)x : (s64)x) * (ys ? (s64)(s16)yh : (s64)yh);
        spec_prod_t sp = spec_product33(x, y, xs, ys, hwm, unit);
        bool ok = st.p.e[unit] == (u32)(u64)exact && st.pe.e[unit] == (u16)(((u64)exact >> 32) & 1) && sp.p == (u32)(u64)exact && sp.pe == (u16)(((u64)exact >> 32) & 1);
        if (!ok) { if (!fails) *first_fail = i; fails++; }
    }
    return fails;
}
#endif
