/* C06 harnesses: Run(n) equals n single-cycle steps however it is sliced (src/interpreter.h Run, src/core_timing.h).
 * The peripherals behind CoreTiming are abstract here: each is the state machine that C15 (Timer) and C16 (Btdmp) prove their
 * Tick / GetMaxSkip / Skip to be -- a countdown c to the tick that fires the event:  Tick: c == 0 ? fire, reload : c-1;
 * GetMaxSkip() = c;  Skip(k), k <= c: c -= k  (Skip(k) == Tick^k without event is C15/C16's lemma, proved there for all k).
 * With that contract assumed for the callbacks, the obligations here are about Run itself: the idle fast-forward and the slicing.
 * BOUNDED: the cycle budget is at most C06_N (Run's cycle loop is unwound; its index is a local, so no loop contract can be attached
 * from outside); the fast-forward compresses any number of idle cycles into one iteration, so small budgets reach every branch of Run. */
#ifndef C06_N
#define C06_N 4
#endif
#define BRR_SELF 0x57F0u            /* brr -1, always: the one-word self-branch that sets idle */
#define CAT_(a, b) a##b
#define CAT(a, b) CAT_(a, b)
#define vdec_Interpreter_call_BRR CAT(vdec_Interpreter_call_, C06_BRR_ENTRY)
#ifdef VERIF_CBMC
/* program words are constrained to nop / brr-self; the dispatch calls the real brr handler for the latter */
#define VERIF_DECODER_CALL(d, self, op, ex) ((op) == BRR_SELF ? vdec_Interpreter_call_BRR((self), (op), (ex)) : (void)0)
#endif
struct CoreTiming_Callbacks;
static void abs_tick(struct CoreTiming_Callbacks *self); static unsigned long long abs_max_skip(const struct CoreTiming_Callbacks *self); static void abs_skip(struct CoreTiming_Callbacks *self, unsigned long long k);
#define VERIF_ABSTRACT_CoreTiming_Callbacks_Tick(self) abs_tick(self)
#define VERIF_ABSTRACT_CoreTiming_Callbacks_GetMaxSkip(self) abs_max_skip(self)
#define VERIF_ABSTRACT_CoreTiming_Callbacks_Skip(self, k) abs_skip(self, k)
#include "proc_types.h"
#include "proc_eq.h"
#include "regs_spec.h"
#include "common.h"
#include "spec_touch.h"
int verif_outcome;
#include "absmem.h"
#include "proc_funcs.c"
#include "interp_rig.h"

/* the abstract peripheral: first member is the base object CoreTiming holds a pointer to */
typedef struct { CoreTiming_Callbacks base; u64 c; u64 reload; u32 line; u32 vaddr; bool vctx; u64 ticks; u32 fired; u64 fire_at[C06_N + 2]; Interpreter *cpu; } abs_periph;
static void abs_tick(CoreTiming_Callbacks *self)
{
    abs_periph *p = (abs_periph *)self;
    p->ticks++;
    if (p->c == 0) { if (p->fired < C06_N + 2) p->fire_at[p->fired] = p->ticks; p->fired++; p->c = p->reload; if (p->line < 3) Interpreter_SignalInterrupt(p->cpu, p->line); else Interpreter_SignalVectoredInterrupt(p->cpu, p->vaddr, p->vctx); }   /* line 3 = the vectored line */
    else p->c--;
}
static unsigned long long abs_max_skip(const CoreTiming_Callbacks *self) { return ((const abs_periph *)self)->c; }
static void abs_skip(CoreTiming_Callbacks *self, unsigned long long k)
{
    abs_periph *p = (abs_periph *)self;
    CHECK(k <= p->c, "CoreTiming::Skip never skips a peripheral past its next event (precondition of the callbacks' Skip contract)");
    p->c -= k; p->ticks += k;
}
static inline bool periph_same(const abs_periph *a, const abs_periph *b)
{
    bool r = a->c == b->c && a->ticks == b->ticks && a->fired == b->fired;
    for (int i = 0; i < C06_N + 2; i++) r = r && (i >= (int)a->fired || a->fire_at[i] == b->fire_at[i]);
    return r;
}
#define MACHINE(it, st, ct, p1, p2) \
    Interpreter it; memset(&it, 0, sizeof it); CoreTiming ct; memset(&ct, 0, sizeof ct); abs_periph p1, p2; memset(&p1, 0, sizeof p1); memset(&p2, 0, sizeof p2); \
    it.core_timing = &ct; it.regs = &st; it.mem = &g_mem; \
    p1.base.verif_tag = 1000; p2.base.verif_tag = 1001; p1.cpu = p2.cpu = &it; \
    ct.registered_callbacks.e[0] = &p1; ct.registered_callbacks.e[1] = &p2; ct.registered_callbacks.len = 2

HARNESS(h_slicing)
{
    /* registers the instruction stream (nops, idle self-branches, interrupt entry) reads are symbolic; the others are zero in both machines */
    RegisterState st0; memset(&st0, 0, sizeof st0); verif_outcome = 0;
    NONDET(u32, s_pc); NONDET(u16, s_sp); NONDET(u16, s_ie); NONDET(u16, s_imv); NONDET(u16, s_ipv); NONDET(u16, s_cpc); NONDET_ARR(u16, s_im, 3); NONDET_ARR(u16, s_ip, 3); NONDET_ARR(u16, s_ic, 3);
    st0.pc = s_pc; st0.sp = s_sp; st0.ie = s_ie & 1; st0.imv = s_imv & 1; st0.ipv = s_ipv & 1; st0.cpc = s_cpc & 1;
    for (int i = 0; i < 3; i++) { st0.im.e[i] = s_im[i] & 1; st0.ip.e[i] = s_ip[i] & 1; st0.ic.e[i] = s_ic[i] & 1; }
    ASSUME(wf_regs(&st0));
    ABSMEM_SETUP();
    for (int i = 0; i < AM_PCELLS; i++) ASSUME(am_pval[i] == 0 || am_pval[i] == BRR_SELF);          /* program: nops and idle self-branches */
    ASSUME(st0.pc + C06_N + 8 < 0x40000 && st0.prpage == 0 && !st0.rep && !st0.lp);                 /* straight-line code; loops are C09 */
    NONDET(u64, n); NONDET(u64, a); NONDET(u64, c1); NONDET(u64, c2); NONDET(u64, r1); NONDET(u64, r2); NONDET(u32, l1); NONDET(u32, l2); NONDET(u32, va); NONDET(bool, vc); NORM_BOOL(vc); NONDET(bool, vpend); NORM_BOOL(vpend);
#ifdef C06_A     /* case split of the CBMC obligation: budget and slice point fixed per obligation */
    ASSUME(n == C06_N && a == C06_A);
#endif
    ASSUME(n <= C06_N && a <= n && l1 < 4 && l2 < 4 && r1 >= 1 && r2 >= 1 && va + C06_N + 8 < 0x40000);
    NONDET_ARR(bool, ipend, 3);
    /* machine A: one call */
    RegisterState sa = st0; MACHINE(ia, sa, cta, pa1, pa2);
    pa1.c = c1; pa1.reload = r1; pa1.line = l1; pa2.c = c2; pa2.reload = r2; pa2.line = l2; pa1.vaddr = pa2.vaddr = va; pa1.vctx = pa2.vctx = vc; ia.vinterrupt_pending = vpend; ia.vinterrupt_address = va; ia.vinterrupt_context_switch = vc;
    for (int i = 0; i < 3; i++) { NORM_BOOL(ipend[i]); ia.interrupt_pending.e[i] = ipend[i]; }
    /* machine B: two calls whose budgets sum to the same */
    RegisterState sb = st0; MACHINE(ib, sb, ctb, pb1, pb2);
    pb1.c = c1; pb1.reload = r1; pb1.line = l1; pb2.c = c2; pb2.reload = r2; pb2.line = l2; pb1.vaddr = pb2.vaddr = va; pb1.vctx = pb2.vctx = vc; ib.vinterrupt_pending = vpend; ib.vinterrupt_address = va; ib.vinterrupt_context_switch = vc;
    for (int i = 0; i < 3; i++) ib.interrupt_pending.e[i] = ipend[i];
    u16 dcopy[AM_CELLS]; for (int i = 0; i < AM_CELLS; i++) dcopy[i] = am_dval[i];
    Interpreter_Run(&ia, n);
    u16 da[AM_CELLS]; for (int i = 0; i < AM_CELLS; i++) { da[i] = am_dval[i]; am_dval[i] = dcopy[i]; }
    Interpreter_Run(&ib, a);
    Interpreter_Run(&ib, n - a);
    CHECK(eq_RegisterState(&sa, &sb), "registers after Run(n) equal registers after Run(a); Run(n-a)");
    bool mem = 1; for (int i = 0; i < AM_CELLS; i++) mem = mem && da[i] == am_dval[i];
    CHECK(mem, "data memory equal");
    CHECK(periph_same(&pa1, &pb1) && periph_same(&pa2, &pb2), "peripheral time state and the ordered interrupt events (tick numbers) equal");
    CHECK(pa1.ticks == n && pa2.ticks == n, "every peripheral saw exactly n ticks: the idle fast-forward is unobservable in time");
    CHECK(ia.interrupt_pending.e[0] == ib.interrupt_pending.e[0] && ia.interrupt_pending.e[1] == ib.interrupt_pending.e[1] && ia.interrupt_pending.e[2] == ib.interrupt_pending.e[2] && ia.vinterrupt_pending == ib.vinterrupt_pending, "interrupt latches (three lines and the vectored line) equal");
    CANARY();
}
