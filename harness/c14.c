/* C14 harnesses: APBP mailboxes and semaphores (src/apbp.cpp) */
#include "apbp_types.h"
#include "apbp_spec.h"
#include "apbp_contracts.h"
#include "common.h"
#include "spec_touch.h"
int verif_outcome;
int ghost_data_irq[3];
int ghost_sem_irq;
#ifdef VERIF_REAL
#include "apbp_protos.h"
#else
#include "apbp_funcs.c"
#endif
static Apbp_Impl *cur_impl;
/* the peer's interrupt entry points (user code behind std::function): counted per source */
void CB_DataChannel_handler(DataChannel *self) { for (int i = 0; i < 3; i++) if (self == &cur_impl->data_channels.e[i]) ghost_data_irq[i]++; }
void CB_Apbp_Impl_semaphore_handler(Apbp_Impl *self) { (void)self; ghost_sem_irq++; }

#define APBP_INPUT(a, st) NONDET(Apbp_Impl, st); Apbp a; a.impl = &st; cur_impl = &st; \
    for (int i_ = 0; i_ < 3; i_++) { NORM_BOOL(st.data_channels.e[i_].ready); NORM_BOOL(st.data_channels.e[i_].handler.set); ghost_data_irq[i_] = 0; } \
    NORM_BOOL(st.semaphore_master_signal); NORM_BOOL(st.semaphore_handler.set); ghost_sem_irq = 0; verif_outcome = 0

#define SEM_INPUT(a, st) APBP_INPUT(a, st); NATIVE_ONLY(st.semaphore_master_signal = spec_sem_signal(st.semaphore, st.semaphore_mask);) ASSUME(wf_apbp(&st)); REGION_HOOK()

HARNESS(h_SendData)
{
    SEM_INPUT(a, st); NONDET(unsigned, ch); NONDET(u16, v);
    NATIVE_ONLY(ch %= 3;) ASSUME(ch < 3);
    NATIVE_ONLY(Apbp_Impl old = st;)
    Apbp_SendData(&a, ch, v);
    NATIVE_ONLY(CHECK(wf_apbp(&st) && post_SendData(old, st, ch, v, 0, 0, 0, ghost_data_irq[0], ghost_data_irq[1], ghost_data_irq[2], 0, ghost_sem_irq), "Apbp_SendData.postcondition");)
    OUT(st.data_channels); OUT(ghost_data_irq);
    CANARY();
}
HARNESS(h_RecvData)
{
    SEM_INPUT(a, st); NONDET(unsigned, ch);
    NATIVE_ONLY(ch %= 3;) ASSUME(ch < 3);
    NATIVE_ONLY(Apbp_Impl old = st;)
    u16 r = Apbp_RecvData(&a, ch);
    NATIVE_ONLY(CHECK(wf_apbp(&st) && post_RecvData(old, st, ch, r), "Apbp_RecvData.postcondition");)
    OUT(st.data_channels); OUT(r);
    CANARY();
}
HARNESS(h_PeekData)     /* peeking neither clears the flag nor interrupts */
{
    SEM_INPUT(a, st); NONDET(unsigned, ch);
    NATIVE_ONLY(ch %= 3;) ASSUME(ch < 3);
    Apbp_Impl old = st;
    u16 r = Apbp_PeekData(&a, ch);
    bool rdy = Apbp_IsDataReady(&a, ch);
    CHECK(r == old.data_channels.e[ch].data && rdy == old.data_channels.e[ch].ready, "Peek/IsReady report the channel");
    CHECK(apbp_eq(&old, &st) && ghost_data_irq[0] + ghost_data_irq[1] + ghost_data_irq[2] + ghost_sem_irq == 0, "Peek/IsReady change nothing");
    OUT(r); OUT(rdy);
    CANARY();
}
HARNESS(h_send_recv_roundtrip)      /* lemma over contracts: the receiver reads the value last written, exactly once ready */
{
    SEM_INPUT(a, st); NONDET(unsigned, ch); NONDET(u16, v1); NONDET(u16, v2);
    NATIVE_ONLY(ch %= 3;) ASSUME(ch < 3);
    Apbp_SendData(&a, ch, v1);
    Apbp_SendData(&a, ch, v2);
    bool r1 = Apbp_IsDataReady(&a, ch);
    u16 p = Apbp_PeekData(&a, ch);
    u16 r = Apbp_RecvData(&a, ch);
    bool r2 = Apbp_IsDataReady(&a, ch);
    CHECK(r1 && p == v2 && r == v2 && !r2, "send;send;peek;recv: last value, ready then cleared");
    OUT(r); OUT(p);
    CANARY();
}
HARNESS(h_SetSemaphore)
{
    SEM_INPUT(a, st); NONDET(u16, bits);
    NATIVE_ONLY(Apbp_Impl old = st;)
    Apbp_SetSemaphore(&a, bits);
    NATIVE_ONLY(CHECK(wf_apbp(&st) && post_SetSemaphore(old, st, bits, 0, ghost_sem_irq), "Apbp_SetSemaphore.postcondition");)
    OUT(st.semaphore); OUT(st.semaphore_master_signal); OUT(ghost_sem_irq);
    CANARY();
}
HARNESS(h_ClearSemaphore)
{
    SEM_INPUT(a, st); NONDET(u16, bits);
    NATIVE_ONLY(Apbp_Impl old = st;)
    Apbp_ClearSemaphore(&a, bits);
    NATIVE_ONLY(CHECK(wf_apbp(&st) && post_ClearSemaphore(old, st, bits, 0, ghost_sem_irq), "Apbp_ClearSemaphore.postcondition");)
    OUT(st.semaphore); OUT(st.semaphore_master_signal); OUT(ghost_sem_irq);
    CANARY();
}
HARNESS(h_MaskSemaphore)
{
    SEM_INPUT(a, st); NONDET(u16, bits);
    NATIVE_ONLY(Apbp_Impl old = st;)
    Apbp_MaskSemaphore(&a, bits);
    NATIVE_ONLY(CHECK(wf_apbp(&st) && post_MaskSemaphore(old, st, bits, 0, ghost_sem_irq), "Apbp_MaskSemaphore.postcondition");)
    OUT(st.semaphore_mask); OUT(st.semaphore_master_signal); OUT(ghost_sem_irq);
    CANARY();
}
HARNESS(h_semaphore_getters)
{
    SEM_INPUT(a, st);
    bool s = Apbp_IsSemaphoreSignaled(&a); u16 g = Apbp_GetSemaphore(&a), m = Apbp_GetSemaphoreMask(&a);
    CHECK(s == spec_sem_signal(st.semaphore, st.semaphore_mask) && g == st.semaphore && m == st.semaphore_mask, "status reports the signal flag, semaphore and mask");
    OUT(s); OUT(g); OUT(m);
    CANARY();
}
HARNESS(h_Apbp_Reset)
{
    APBP_INPUT(a, st);
    NATIVE_ONLY(Apbp_Impl old = st;)
    Apbp_Reset(&a);
    NATIVE_ONLY(CHECK(wf_apbp(&st) && post_Apbp_Reset(old, st), "Apbp_Reset.postcondition");)
    OUT(st.semaphore); OUT(st.data_channels);
    CANARY();
}
