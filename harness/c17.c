/* C17 harnesses: Reset() determines the whole modelled state of every component, i.e. after Reset() two instances with the same
 * callbacks installed are indistinguishable whatever their histories were (so a used-and-reset machine equals a fresh-and-reset one).
 * Stated per component over its extracted Reset(); the facade Teakra::Impl::Reset calls exactly these (src/teakra.cpp). */
#include "res_types.h"
#include "res_eq.h"
#include "common.h"
#include "spec_touch.h"
int verif_outcome;
#ifdef VERIF_REAL
#include "res_protos.h"
#else
#include "res_funcs.c"
#endif
/* the container members are not part of the generated eq_<T> (library types): compared here by contents */
#define QUEUE_SAME(qa, qb) ((qa).len == (qb).len && ((qa).len == 0 || ((qa).head == (qb).head)))
#define AHBM_SAME() do { b.read_external8 = a.read_external8; b.write_external8 = a.write_external8; b.read_external16 = a.read_external16; b.write_external16 = a.write_external16; \
    b.read_external32 = a.read_external32; b.write_external32 = a.write_external32; } while (0)
#define APBP_SAME() do { ib.semaphore_handler = ia.semaphore_handler; for (int i = 0; i < 3; i++) ib.data_channels.e[i].handler = ia.data_channels.e[i].handler; } while (0)
/* same configuration (callbacks installed, wiring) in both instances: these are not state */
#define RESET_DETERMINES(hname, T, resetfn, same_config, label) \
HARNESS(hname) { NONDET(T, a); NONDET(T, b); verif_outcome = 0; same_config; resetfn(&a); resetfn(&b); \
    CHECK(eq_##T(&a, &b), label ": after Reset() nothing of the earlier history is observable"); OUT(a); CANARY(); }
RESET_DETERMINES(h_reset_Timer, Timer, Timer_Reset, b.base_0 = a.base_0; b.interrupt_handler = a.interrupt_handler, "Timer")
HARNESS(h_reset_Btdmp) { NONDET(Btdmp, a); NONDET(Btdmp, b); verif_outcome = 0; b.base_0 = a.base_0; b.audio_callback = a.audio_callback; b.interrupt_handler = a.interrupt_handler;
    ASSUME(a.transmit_queue.head < VERIF_QCAP && a.transmit_queue.len <= VERIF_QCAP && b.transmit_queue.head < VERIF_QCAP && b.transmit_queue.len <= VERIF_QCAP);
    Btdmp_Reset(&a); Btdmp_Reset(&b);
    CHECK(eq_Btdmp(&a, &b) && a.transmit_queue.len == 0 && b.transmit_queue.len == 0, "Btdmp: after Reset() nothing of the earlier history is observable (registers equal, transmit queue empty)"); OUT(a.transmit_period); CANARY(); }
RESET_DETERMINES(h_reset_Dma, Dma, Dma_Reset, b.shared_memory = a.shared_memory; b.ahbm = a.ahbm; b.interrupt_handler = a.interrupt_handler, "Dma")
RESET_DETERMINES(h_reset_Ahbm, Ahbm, Ahbm_Reset, AHBM_SAME(), "Ahbm")
RESET_DETERMINES(h_reset_Miu, MemoryInterfaceUnit, MemoryInterfaceUnit_Reset, (void)0, "MemoryInterfaceUnit")
HARNESS(h_reset_Apbp)
{
    NONDET(Apbp_Impl, ia); NONDET(Apbp_Impl, ib); verif_outcome = 0;
    APBP_SAME();
    Apbp a; a.impl = &ia; Apbp b; b.impl = &ib;
    Apbp_Reset(&a); Apbp_Reset(&b);
    CHECK(eq_Apbp_Impl(&ia, &ib), "Apbp: after Reset() nothing of the earlier history is observable");
    OUT(ia); CANARY();
}
/* the processor: registers AND the interpreter's own state (idle flag, interrupt latches, vectored-interrupt parameters) */
HARNESS(h_reset_Processor)
{
    NONDET(Processor_Impl, ia); NONDET(Processor_Impl, ib); verif_outcome = 0;
    ib.core_timing = ia.core_timing; ia.interpreter.core_timing = ib.interpreter.core_timing = ia.core_timing;
    ia.interpreter.regs = &ia.regs; ib.interpreter.regs = &ib.regs; ib.interpreter.mem = ia.interpreter.mem;
    Processor a; a.impl = &ia; Processor b; b.impl = &ib;
    Processor_Reset(&a); Processor_Reset(&b);
    CHECK(eq_RegisterState(&ia.regs, &ib.regs), "Processor: the register file after Reset() does not depend on the history");
    CHECK(ia.interpreter.idle == ib.interpreter.idle && ia.interpreter.interrupt_pending.e[0] == ib.interpreter.interrupt_pending.e[0] && ia.interpreter.interrupt_pending.e[1] == ib.interpreter.interrupt_pending.e[1] &&
          ia.interpreter.interrupt_pending.e[2] == ib.interpreter.interrupt_pending.e[2] && ia.interpreter.vinterrupt_pending == ib.interpreter.vinterrupt_pending &&
          (!ia.interpreter.vinterrupt_pending || (ia.interpreter.vinterrupt_address == ib.interpreter.vinterrupt_address && ia.interpreter.vinterrupt_context_switch == ib.interpreter.vinterrupt_context_switch)),
          "Processor: the interpreter's interrupt latches after Reset() do not depend on the history");
    OUT(ia.regs); CANARY();
}
