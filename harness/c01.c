/* C01 harness: one cycle of the interpreter (fetch + the instruction + loop/interrupt bookkeeping) against the hardware-validated
 * REFERENCE: the same function extracted by the same extractor from the pinned commit's sources kept in /verif/reference (symbols
 * prefixed ref_).  For every opcode of one decode-table entry (-DENTRY=k), every second word and every well-formed state on which the
 * reference completes, the current code must complete (no ASSERT abort, no UnimplementedException) with the same registers, flags, pc
 * and data memory.  Order of the two runs: reference first, in CUT mode (paths on which it aborts vanish -- "on which the reference
 * completes"), then the code under test in PROVE mode (an abort is a failed obligation). */
#define CAT_(a, b) a##b
#define CAT(a, b) CAT_(a, b)
#if defined(VERIF_CBMC) && defined(C01_UF_MUL)
unsigned long long __CPROVER_uninterpreted_mul64(unsigned long long, unsigned long long);
#  define VERIF_MUL(T, a, b) ((T)__CPROVER_uninterpreted_mul64((unsigned long long)(long long)(a), (unsigned long long)(long long)(b)))
#endif
#ifdef VERIF_CBMC
#  ifndef ENTRY
#    error "C01 CBMC obligations are per decode-table entry: -DENTRY=k"
#  endif
#  define VERIF_ABORT_PROVE 1
   /* Run is compared as a skeleton (ENTRY < 0): the fetched instruction is a no-op in both copies, its length comes from each copy's own table */
#  define VERIF_DECODER_NEED_EXPANSION(d) vdec_Interpreter_need_expansion(d)
#  define VERIF_DECODER_CALL(d, self, op, ex) ((void)0)
#endif
#include "proc_types.h"
#include "proc_eq.h"
#include "regs_spec.h"
#include "common.h"
#include "spec_touch.h"
int verif_outcome;
#include "absmem.h"
#ifdef VERIF_REAL
#include "proc_protos.h"
#else
#include "proc_funcs.c"
#endif
#include "interp_rig.h"

/* ---------------- the reference copy ---------------- */
#undef VERIF_DECODER_NEED_EXPANSION
#undef VERIF_DECODER_CALL
#ifdef VERIF_CBMC
#  define VERIF_DECODER_NEED_EXPANSION(d) ref_vdec_Interpreter_need_expansion(d)
#  define VERIF_DECODER_CALL(d, self, op, ex) ((void)0)
#  undef VERIF_ASSERT
#  undef VERIF_THROW
#  define VERIF_ASSERT(c, msg, line) ((c) ? (void)0 : (verif_outcome = VERIF_ABORT, __CPROVER_assume(0)))
#  define VERIF_THROW() (verif_outcome = VERIF_UNIMPL, __CPROVER_assume(0))
#else
#  define VERIF_DECODER_NEED_EXPANSION(d) ref_vdec_Interpreter_need_expansion(d)
#  define VERIF_DECODER_CALL(d, self, op, ex) ref_vdec_Interpreter_call(self, op, ex)
#endif
/* the reference's memory: a second copy of the same footprint (same addresses, same initial contents) */
u32 ram_reads, ram_writes, ram_preads;
#ifdef VERIF_CBMC
u16 ram_dval[AM_CELLS], ram_pval[AM_PCELLS];
#define RAM_DATA(a) ram_dval[am_dcell(a)]
#define RAM_PROG(a) ram_pval[am_pcell(a)]
#else
static u16 ram_data_store[0x10000]; static u16 ram_prog_store[0x40000];
#define RAM_DATA(a) ram_data_store[(u16)(a)]
#define RAM_PROG(a) ram_prog_store[(a) & 0x3FFFF]
#endif
u16 ref_MemoryInterface_DataRead(MemoryInterface *self, u16 address, bool bypass_mmio) { (void)self; (void)bypass_mmio; ram_reads++; return RAM_DATA(address); }
void ref_MemoryInterface_DataWrite(MemoryInterface *self, u16 address, u16 value, bool bypass_mmio) { (void)self; (void)bypass_mmio; ram_writes++; RAM_DATA(address) = value; }
u16 ref_MemoryInterface_ProgramRead(const MemoryInterface *self, u32 address) { (void)self; ram_preads++; return RAM_PROG(address); }
void ref_MemoryInterface_ProgramWrite(MemoryInterface *self, u32 address, u16 value) { (void)self; RAM_PROG(address) = value; }
#include "ref_globals.h"
#include "ref_funcs.c"
#ifndef VERIF_CBMC
extern int verif_expect_no_abort;
#endif

#define REF_COPY() RegisterState st2 = st; Interpreter it2 = it; it2.regs = &st2; ram_reads = ram_writes = ram_preads = 0; REF_MEM_COPY()
#ifdef VERIF_CBMC
#define REF_MEM_COPY() do { for (int i_ = 0; i_ < AM_CELLS; i_++) ram_dval[i_] = am_dval[i_]; for (int i_ = 0; i_ < AM_PCELLS; i_++) ram_pval[i_] = am_pval[i_]; } while (0)
static inline bool mem_same(void) { bool r = am_reads == ram_reads && am_writes == ram_writes && am_preads == ram_preads;
    for (int i = 0; i < AM_CELLS; i++) r = r && am_dval[i] == ram_dval[i]; for (int i = 0; i < AM_PCELLS; i++) r = r && am_pval[i] == ram_pval[i]; return r; }
#else
#define REF_MEM_COPY() do { memcpy(ram_data_store, am_data_store, sizeof ram_data_store); memcpy(ram_prog_store, am_prog_store, sizeof ram_prog_store); } while (0)
static inline bool mem_same(void) { return am_reads == ram_reads && am_writes == ram_writes && am_preads == ram_preads && !memcmp(ram_data_store, am_data_store, sizeof ram_data_store) && !memcmp(ram_prog_store, am_prog_store, sizeof ram_prog_store); }
#endif
#define LATCHES() NONDET_ARR(bool, ipend, 3); NONDET(bool, vpend); NONDET(u32, vaddr); NONDET(bool, vctx); \
    for (int i = 0; i < 3; i++) { NORM_BOOL(ipend[i]); it.interrupt_pending.e[i] = ipend[i]; } \
    NORM_BOOL(vpend); NORM_BOOL(vctx); it.vinterrupt_pending = vpend; it.vinterrupt_address = vaddr & 0x3FFFF; it.vinterrupt_context_switch = vctx
#define SAME_LATCHES() (it.idle == it2.idle && it.interrupt_pending.e[0] == it2.interrupt_pending.e[0] && it.interrupt_pending.e[1] == it2.interrupt_pending.e[1] && it.interrupt_pending.e[2] == it2.interrupt_pending.e[2] && it.vinterrupt_pending == it2.vinterrupt_pending)

/* one instruction: entry ENTRY of the decode table, all of its opcodes, all second words, all states.
 * CBMC: the entry's handler is called directly in both copies (state as the handler sees it: pc already past the instruction).
 * native (fidelity, replay): the same inputs are put through one full cycle -- the REAL Interpreter::Run against the reference's. */
HARNESS(h_entry_equiv)
{
    INTERP_RIG(it, st); ABSMEM_SETUP(); NONDET(u16, op); NONDET(u16, ex);
    for (int i = 0; i < 3; i++) it.interrupt_pending.e[i] = 0;
    it.vinterrupt_pending = 0; it.vinterrupt_address = 0; it.vinterrupt_context_switch = 0;
    NATIVE_ONLY(st.rep = 0;)
    ASSUME(!st.rep && st.pc >= 2 && !(st.lp && st.bkrep_stack.e[st.bcn - 1].end + 1 == st.pc));     /* Run's own loop bookkeeping is the skeleton obligation's subject */
#ifdef VERIF_CBMC
    ASSUME(CAT(vdec_Interpreter_match_, ENTRY)(op));
    REF_COPY();
    CAT(ref_vdec_Interpreter_call_, ENTRY)(&it2, op, ex);
    CAT(vdec_Interpreter_call_, ENTRY)(&it, op, ex);
#else
    {   /* lay the instruction out in front of pc and run one cycle */
        u32 len = 1u + ref_vdec_Interpreter_need_expansion(op), page = (u32)st.prpage << 18;
        st.pc -= len;
        am_prog_store[(st.pc | page) & 0x3FFFF] = op; if (len == 2) am_prog_store[((st.pc + 1) | page) & 0x3FFFF] = ex;
        st.ie = 0;
    }
    REF_COPY();
    ref_Interpreter_Run(&it2, 1);
    verif_expect_no_abort = 1;
    Interpreter_Run(&it, 1);
    verif_expect_no_abort = 0;
#endif
    CHECK(eq_RegisterState(&st, &st2), "registers, flags, program counter and loop state equal the reference's");
    CHECK(mem_same(), "data-memory writes (and the number of memory accesses) equal the reference's");
    OUT(op); OUT(ex); OUT(st); NATIVE_ONLY(OUT(st2);) ABSMEM_OUT(); CANARY();
}
/* the cycle around the instruction (fetch, repeat / block-repeat bookkeeping, interrupt entry, tick), instruction abstracted to a no-op */
HARNESS(h_run_skeleton_equiv)
{
    INTERP_RIG(it, st); ABSMEM_SETUP(); LATCHES();
    ASSUME(st.pc + 2 < 0x40000);
    NATIVE_ONLY(ASSUME(am_ppeek(st.pc | ((u32)st.prpage << 18)) == 0);)      /* natively the no-op is a real nop */
    REF_COPY();
    ref_Interpreter_Run(&it2, 1);
    NATIVE_ONLY(verif_expect_no_abort = 1;)
    Interpreter_Run(&it, 1);
    NATIVE_ONLY(verif_expect_no_abort = 0;)
    CHECK(eq_RegisterState(&st, &st2), "registers, flags, program counter and loop state equal the reference's");
    CHECK(mem_same(), "memory accesses equal the reference's");
    CHECK(SAME_LATCHES(), "idle flag and interrupt latches equal the reference's");
    OUT(st); ABSMEM_OUT(); CANARY();
}
