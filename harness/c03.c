/* C03 harnesses: accumulator add/subtract/compare/logic (src/interpreter.h) */
#include "proc_types.h"
#include "proc_eq.h"
#include "alu_spec.h"
#include "alu_contracts.h"
#include "common.h"
#include "spec_touch.h"
int verif_outcome;
#include "absmem.h"
#ifdef VERIF_REAL
#include "proc_protos.h"
#else
#include "proc_funcs.c"
#endif

#include "interp_rig.h"

HARNESS(h_AddSub)
{
    INTERP_RIG(it, st); NONDET(u64, a); NONDET(u64, b); NONDET(bool, sub); NORM_BOOL(sub);
    NATIVE_ONLY(RegisterState old = st;)
    u64 r = Interpreter_AddSub(&it, a, b, sub);
    NATIVE_ONLY(spec_as_t o = spec_addsub40(a, b, sub); CHECK(r == o.r && st.fc0 == o.c && st.fv == o.v && st.fvl == (old.fvl | o.v), "Interpreter_AddSub.postcondition");)
    OUT(r); OUT(st.fc0); OUT(st.fv); OUT(st.fvl); CANARY();
}
HARNESS(h_SetAccFlag)
{
    INTERP_RIG(it, st); NONDET(u64, v); NATIVE_ONLY(v = (u64)sx40(v);) ASSUME(is_sx40(v));
    Interpreter_SetAccFlag(&it, v);
    NATIVE_ONLY(spec_flags_t f = spec_flags40(v); CHECK(st.fz == f.z && st.fm == f.m && st.fe == f.e && st.fn == f.n, "Interpreter_SetAccFlag.postcondition");)
    OUT(st.fz); OUT(st.fm); OUT(st.fe); OUT(st.fn); CANARY();
}
HARNESS(h_SaturateAcc)
{
    INTERP_RIG(it, st); NONDET(u64, v); NATIVE_ONLY(v = (u64)sx40(v);) ASSUME(is_sx40(v));
    NATIVE_ONLY(u16 flm = st.flm;)
    u64 r = Interpreter_SaturateAcc(&it, v);
    NATIVE_ONLY(CHECK(r == spec_sat32(v) && st.flm == (flm | !fits32(v)), "Interpreter_SaturateAcc.postcondition");)
    OUT(r); OUT(st.flm); CANARY();
}
HARNESS(h_SatAndSetAccAndFlag)
{
    INTERP_RIG(it, st); NONDET(u64, v); NONDET(u16, nm); NATIVE_ONLY(v = (u64)sx40(v); nm %= 16;) ASSUME(is_sx40(v) && nm < 16);
    NATIVE_ONLY(RegisterState old = st;)
    Interpreter_SatAndSetAccAndFlag(&it, (RegName)nm, v);
    CHECK_ST(st, spec_sat_write(old, acc_family((RegName)nm), v), "Interpreter_SatAndSetAccAndFlag");
    OUT(st); CANARY();
}
HARNESS(h_SetAccAndFlag)
{
    INTERP_RIG(it, st); NONDET(u64, v); NONDET(u16, nm); NATIVE_ONLY(v = (u64)sx40(v); nm %= 16;) ASSUME(is_sx40(v) && nm < 16);
    NATIVE_ONLY(RegisterState old = st;)
    Interpreter_SetAccAndFlag(&it, (RegName)nm, v);
    CHECK_ST(st, spec_nosat_write(old, acc_family((RegName)nm), v), "Interpreter_SetAccAndFlag");
    OUT(st); CANARY();
}
HARNESS(h_ExtendOperandForAlm)
{
    INTERP_RIG(it, st); NONDET(u16, op); NONDET(u16, v); NATIVE_ONLY(op %= 17;) ASSUME(op <= 16);
    u64 r = Interpreter_ExtendOperandForAlm(&it, (AlmOp)op, v);
    NATIVE_ONLY(CHECK(r == spec_extend((AlmOp)op, v), "Interpreter_ExtendOperandForAlm.postcondition");)
    OUT(r); CANARY();
}
HARNESS(h_AlmGeneric)
{
    INTERP_RIG(it, st); NONDET(u16, op); NONDET(u64, a); Ax b; FIELD(b, b, 1);
    NATIVE_ONLY(op %= 16; if (!alm_in_c03((AlmOp)op)) op = 3;) ASSUME(op < 16 && alm_in_c03((AlmOp)op));
    NATIVE_ONLY(RegisterState old = st;)
    Interpreter_AlmGeneric(&it, (AlmOp)op, a, b);
    CHECK_ST(st, spec_alm(old, (AlmOp)op, a, ax_fam(b)), "Interpreter_AlmGeneric");
    OUT(st); CANARY();
}
HARNESS(h_Moda)
{
    INTERP_RIG(it, st); NONDET(u16, op); NONDET(u16, fam); EnumAllOperand_CondValue cond; NONDET(u16, cv); cond.base_0.storage = cv & 15;
    NATIVE_ONLY(op %= 16; if (!moda_in_c03((ModaOp)op)) op = 13; fam %= 4; if (op == ModaOp_Copy) fam %= 2;)
    ASSUME(op < 16 && moda_in_c03((ModaOp)op) && fam < 4 && (op != ModaOp_Copy || fam < 2));
    NATIVE_ONLY(RegisterState old = st;)
    Interpreter_Moda(&it, (ModaOp)op, (RegName)(fam * 4), cond);
    CHECK_ST(st, spec_cond(old, (CondValue)(cv & 15)) ? spec_moda(old, (ModaOp)op, fam) : old, "Interpreter_Moda");
    OUT(st); CANARY();
}
#define ALMOPDECL EnumOperand_AlmOp_0_1_2_3_4_5_6_7_8_9_10_11_12_13_14_15 op; NONDET(u16, op_v); NATIVE_ONLY(op_v %= 16; if (!alm_in_c03((AlmOp)op_v)) op_v = 7;) ASSUME(op_v < 16 && alm_in_c03((AlmOp)op_v)); OPV1(op) = op_v
#define ALUOPDECL EnumOperand_AlmOp_0_1_2_3_16_16_6_7 op; NONDET(u16, op_v); NATIVE_ONLY(op_v %= 8; if (op_v == 4 || op_v == 5) op_v = 1;) ASSUME(op_v < 8 && op_v != 4 && op_v != 5); OPV1(op) = op_v
FORM_HARNESS(h_alm_r6, Interpreter_alm_r6(&it, op, b), spec_alm(old, (AlmOp)op_v, spec_extend((AlmOp)op_v, old.r.e[6]), ax_fam(b)), ALMOPDECL; Ax b; FIELD(b, b, 1), "Interpreter_alm_r6")
FORM_HARNESS(h_alu_imm16, Interpreter_alu__Alu_Imm16_Ax(&it, op, a, b), spec_alm(old, alu_op_name(op_v), spec_extend(alu_op_name(op_v), IMMV(a)), ax_fam(b)), ALUOPDECL; Imm16 a; NONDET(u16, imm); IMMV(a) = imm; Ax b; FIELD(b, b, 1), "Interpreter_alu__Alu_Imm16_Ax")
FORM_HARNESS(h_alu_imm8, Interpreter_alu__Alu_Imm8_Ax(&it, op, a, b), spec_alu_imm8(old, alu_op_name(op_v), IMMV(a), ax_fam(b)), ALUOPDECL; Imm8 a; NONDET(u16, imm); IMMV(a) = imm & 0xFF; Ax b; FIELD(b, b, 1), "Interpreter_alu__Alu_Imm8_Ax")
FORM_HARNESS(h_add_ab_bx, Interpreter_add__Ab_Bx(&it, a, b), spec_addsub_regs(old, ab_fam(a), bx_fam(b), false, false), Ab a; FIELD(a, a, 2); Bx b; FIELD(b, b, 1), "Interpreter_add__Ab_Bx")
FORM_HARNESS(h_add_bx_ax, Interpreter_add__Bx_Ax(&it, a, b), spec_addsub_regs(old, bx_fam(a), ax_fam(b), false, false), Bx a; FIELD(a, a, 1); Ax b; FIELD(b, b, 1), "Interpreter_add__Bx_Ax")
FORM_HARNESS(h_sub_ab_bx, Interpreter_sub__Ab_Bx(&it, a, b), spec_addsub_regs(old, ab_fam(a), bx_fam(b), true, false), Ab a; FIELD(a, a, 2); Bx b; FIELD(b, b, 1), "Interpreter_sub__Ab_Bx")
FORM_HARNESS(h_sub_bx_ax, Interpreter_sub__Bx_Ax(&it, a, b), spec_addsub_regs(old, bx_fam(a), ax_fam(b), true, false), Bx a; FIELD(a, a, 1); Ax b; FIELD(b, b, 1), "Interpreter_sub__Bx_Ax")
FORM_HARNESS(h_cmp_ax_bx, Interpreter_cmp__Ax_Bx(&it, a, b), spec_addsub_regs(old, ax_fam(a), bx_fam(b), true, true), Ax a; FIELD(a, a, 1); Bx b; FIELD(b, b, 1), "Interpreter_cmp__Ax_Bx")
FORM_HARNESS(h_cmp_bx_ax, Interpreter_cmp__Bx_Ax(&it, a, b), spec_addsub_regs(old, bx_fam(a), ax_fam(b), true, true), Bx a; FIELD(a, a, 1); Ax b; FIELD(b, b, 1), "Interpreter_cmp__Bx_Ax")
FORM_HARNESS(h_cmp_b0_b1, Interpreter_cmp_b0_b1(&it), spec_addsub_regs(old, 2, 3, true, true), (void)0, "Interpreter_cmp_b0_b1")
FORM_HARNESS(h_cmp_b1_b0, Interpreter_cmp_b1_b0(&it), spec_addsub_regs(old, 3, 2, true, true), (void)0, "Interpreter_cmp_b1_b0")
FORM_HARNESS(h_or_ab_ax_ax, Interpreter_or__Ab_Ax_Ax(&it, a, b, c), spec_logic3(old, ab_fam(a), ax_fam(b), ax_fam(c), true), Ab a; FIELD(a, a, 2); Ax b; FIELD(b, b, 1); Ax c; FIELD(c, c, 1), "Interpreter_or__Ab_Ax_Ax")
FORM_HARNESS(h_or_ax_bx_ax, Interpreter_or__Ax_Bx_Ax(&it, a, b, c), spec_logic3(old, ax_fam(a), bx_fam(b), ax_fam(c), true), Ax a; FIELD(a, a, 1); Bx b; FIELD(b, b, 1); Ax c; FIELD(c, c, 1), "Interpreter_or__Ax_Bx_Ax")
FORM_HARNESS(h_or_bx_bx_ax, Interpreter_or__Bx_Bx_Ax(&it, a, b, c), spec_logic3(old, bx_fam(a), bx_fam(b), ax_fam(c), true), Bx a; FIELD(a, a, 1); Bx b; FIELD(b, b, 1); Ax c; FIELD(c, c, 1), "Interpreter_or__Bx_Bx_Ax")
FORM_HARNESS(h_and, Interpreter_and(&it, a, b, c), spec_logic3(old, ab_fam(a), ab_fam(b), ax_fam(c), false), Ab a; FIELD(a, a, 2); Ab b; FIELD(b, b, 2); Ax c; FIELD(c, c, 1), "Interpreter_and")
FORM_HARNESS(h_clr, Interpreter_clr(&it, a, b), spec_clr2(old, ab_fam(a), ab_fam(b), 0), Ab a; FIELD(a, a, 2); Ab b; FIELD(b, b, 2), "Interpreter_clr")
FORM_HARNESS(h_clrr, Interpreter_clrr(&it, a, b), spec_clr2(old, ab_fam(a), ab_fam(b), 0x8000), Ab a; FIELD(a, a, 2); Ab b; FIELD(b, b, 2), "Interpreter_clrr")
HARNESS(h_moda4)
{
    INTERP_RIG(it, st); EnumOperand_ModaOp_0_1_2_3_4_5_6_7_8_9_10_11_12_13_14_15 op; NONDET(u16, op_v); Ax a; FIELD(a, a, 1); EnumAllOperand_CondValue cond; NONDET(u16, cv); cond.base_0.storage = cv & 15;
    NATIVE_ONLY(op_v %= 16; if (!moda_in_c03((ModaOp)op_v)) op_v = 14;) ASSUME(op_v < 16 && moda_in_c03((ModaOp)op_v)); OPV1(op) = op_v;
    NATIVE_ONLY(RegisterState old = st;)
    Interpreter_moda4(&it, op, a, cond);
    CHECK_ST(st, spec_cond(old, (CondValue)(cv & 15)) ? spec_moda(old, (ModaOp)op_v, ax_fam(a)) : old, "Interpreter_moda4");
    OUT(st); CANARY();
}
