/* C16 harnesses: audio port (src/btdmp.cpp, src/btdmp.h) */
#include "btdmp_types.h"
#include "btdmp_spec.h"
#include "btdmp_contracts.h"
#include "common.h"
#include "spec_touch.h"
int verif_outcome;
int ghost_btdmp_irq;
u64 ghost_audio_count, ghost_audio_watch;
s16 ghost_audio_frame[2];
u32 ghost_j;
#ifdef VERIF_CBMC
u64 verif_dm_n, verif_dm_d, verif_dm_q, verif_dm_r; bool verif_dm_valid;
#endif
#ifdef VERIF_REAL
#include "btdmp_protos.h"
#else
#include "btdmp_funcs.c"
#endif

/* environment: the two callbacks are user code behind std::function; their model records what the property observes */
void CB_Btdmp_interrupt_handler(Btdmp *self) { (void)self; ghost_btdmp_irq++; }
void CB_Btdmp_audio_callback(Btdmp *self, arr_s16_2 a0)
{
    (void)self;
    if (ghost_audio_count == ghost_audio_watch) { ghost_audio_frame[0] = a0.e[0]; ghost_audio_frame[1] = a0.e[1]; }
    ghost_audio_count++;
}

#define BTDMP_INPUT(s) NONDET(Btdmp, s); NONDET(u64, watch); NONDET(u32, gj); \
    s.base_0.verif_tag = VERIF_TAG_Btdmp; s.interrupt_handler.set = 1; NORM_BOOL(s.audio_callback.set); NORM_BOOL(s.transmit_empty); NORM_BOOL(s.transmit_full); \
    ghost_btdmp_irq = 0; ghost_audio_count = 0; ghost_audio_frame[0] = ghost_audio_frame[1] = 0x5A5A; ghost_audio_watch = watch; ghost_j = gj; verif_outcome = 0; CBMC_ONLY(verif_dm_valid = 0;) \
    NATIVE_ONLY(s.transmit_queue.head %= VERIF_QCAP; s.transmit_queue.len %= 17; s.transmit_full = (s.transmit_queue.len == 16); s.transmit_empty = (s.transmit_queue.len == 0); \
                if (s.transmit_period == 0) s.transmit_period = 1; if (s.transmit_timer == 0xFFFF) s.transmit_timer = 0;) \
    ASSUME(wf_btdmp(&s))

HARNESS(h_Btdmp_Tick)
{
    BTDMP_INPUT(s);
    NATIVE_ONLY(Btdmp old = s;)
    Btdmp_Tick(&s);
    NATIVE_ONLY(CHECK(wf_btdmp(&s) && post_Btdmp_Tick(old, s, 0, ghost_btdmp_irq, 0, ghost_audio_count, ghost_j, 0x5A5A, 0x5A5A), "Btdmp_Tick.postcondition");)
    OUT(s.transmit_timer); OUT(s.transmit_queue.len); OUT(ghost_btdmp_irq); OUT(ghost_audio_count); OUT(ghost_audio_frame);
    CANARY();
}
HARNESS(h_Btdmp_Send)
{
    BTDMP_INPUT(s);
    NONDET(u16, v);
    NATIVE_ONLY(Btdmp old = s;)
    Btdmp_Send(&s, v);
    NATIVE_ONLY(CHECK(wf_btdmp(&s) && post_Btdmp_Send(old, s, v, ghost_j), "Btdmp_Send.postcondition");)
    OUT(s.transmit_queue.len); OUT(s.transmit_full); OUT(s.transmit_empty);
    CANARY();
}
HARNESS(h_Btdmp_Flush)
{
    BTDMP_INPUT(s);
    NONDET(u16, v);
    NATIVE_ONLY(Btdmp old = s;)
    Btdmp_SetTransmitFlush(&s, v);
    NATIVE_ONLY(CHECK(wf_btdmp(&s) && post_Btdmp_Flush(old, s, 0, ghost_btdmp_irq, 0, ghost_audio_count), "Btdmp_SetTransmitFlush.postcondition");)
    OUT(s.transmit_queue.len); OUT(s.transmit_full); OUT(s.transmit_empty);
    CANARY();
}
HARNESS(h_Btdmp_Reset)
{
    BTDMP_INPUT(s);
    Btdmp_Reset(&s);
    NATIVE_ONLY(CHECK(wf_btdmp(&s) && post_Btdmp_Reset(s), "Btdmp_Reset.postcondition");)
    OUT(s.transmit_period); OUT(s.transmit_queue.len);
    CANARY();
}
HARNESS(h_Btdmp_GetMaxSkip)
{
    BTDMP_INPUT(s);
    u64 r = Btdmp_GetMaxSkip(&s);
    NATIVE_ONLY(CHECK(r <= spec_btdmp_horizon(&s), "Btdmp_GetMaxSkip.postcondition");)
    OUT(r);
    CANARY();
}
HARNESS(h_Btdmp_flags)
{
    BTDMP_INPUT(s);
    u16 e = Btdmp_GetTransmitEmpty(&s), f = Btdmp_GetTransmitFull(&s);
    CHECK(e == (s.transmit_queue.len == 0) && f == (s.transmit_queue.len == 16), "full/empty flags are exact");
    OUT(e); OUT(f);
    CANARY();
}

/* ---- fast-forward: base + step, as for the timer (C15).  Tick through its proved contract; Skip inlined. */
HARNESS(h_lemma_skip_base)
{
    BTDMP_INPUT(s);
    REGION_HOOK();
    Btdmp old = s;
    Btdmp_Skip(&s, 0);
    CHECK(btdmp_eq_at(&old, &s, ghost_j), "lemma_skip_base: Skip(0) is the identity");
    CHECK(ghost_btdmp_irq == 0 && ghost_audio_count == 0, "lemma_skip_base: Skip(0) emits nothing");
    OUT(s.transmit_timer); OUT(s.transmit_queue.len);
    CANARY();
}
/* non-empty queue: inside the horizon at most 7 frames are due, so the frame loop is closed by unwinding (complete) */
HARNESS(h_lemma_skip_step_queued)
{
    BTDMP_INPUT(s);
    NONDET(u64, k);
    ASSUME(s.transmit_enable != 0 && s.transmit_queue.len >= 1);
    REGION_HOOK();
    u64 horizon = Btdmp_GetMaxSkip(&s);
    ASSUME(k < horizon && k < (1ull << 40));
    Btdmp a = s, b = s;
    Btdmp_Skip(&a, k);
    u64 cnt_mid = ghost_audio_count; s16 f0 = ghost_audio_frame[0], f1 = ghost_audio_frame[1];
    Btdmp_Tick(&a);
    int irq_a = ghost_btdmp_irq; u64 cnt_a = ghost_audio_count; s16 fa0 = ghost_audio_frame[0], fa1 = ghost_audio_frame[1];
    ghost_audio_count = 0; ghost_audio_frame[0] = ghost_audio_frame[1] = 0x5A5A; ghost_btdmp_irq = 0;
    Btdmp_Skip(&b, k + 1);
    CHECK(irq_a == 0 && ghost_btdmp_irq == 0, "lemma_skip_step: no interrupt inside the horizon");
    CHECK(cnt_a == ghost_audio_count && fa0 == ghost_audio_frame[0] && fa1 == ghost_audio_frame[1], "lemma_skip_step: same frames, in order");
    CHECK(btdmp_eq_at(&a, &b, ghost_j), "lemma_skip_step: Skip(k);Tick == Skip(k+1)");
    (void)cnt_mid; (void)f0; (void)f1;
    OUT(a.transmit_timer); OUT(b.transmit_timer); OUT(a.transmit_queue.len); OUT(b.transmit_queue.len); OUT(ghost_audio_count);
    CANARY();
}

/* empty queue: the horizon is unlimited and so is the number of (all-zero) frames; the frame loop carries a loop contract */
HARNESS(h_lemma_skip_step_empty)
{
    BTDMP_INPUT(s);
    NONDET(u64, k);
    NATIVE_ONLY(k %= 200000;)      /* native sampling only: keep the real frame loop short */
    ASSUME(s.transmit_enable != 0 && s.transmit_queue.len == 0 && k < (1ull << 40));
    Btdmp a = s, b = s;
    Btdmp_Skip(&a, k);
    Btdmp_Tick(&a);
    int irq_a = ghost_btdmp_irq; u64 cnt_a = ghost_audio_count; s16 fa0 = ghost_audio_frame[0], fa1 = ghost_audio_frame[1];
    ghost_audio_count = 0; ghost_audio_frame[0] = ghost_audio_frame[1] = 0x5A5A; ghost_btdmp_irq = 0;
    Btdmp_Skip(&b, k + 1);
    CHECK(irq_a == 0 && ghost_btdmp_irq == 0, "lemma_skip_step_empty: no interrupt");
    CHECK(cnt_a == ghost_audio_count && fa0 == ghost_audio_frame[0] && fa1 == ghost_audio_frame[1], "lemma_skip_step_empty: same (zero) frames");
    CHECK(btdmp_eq_at(&a, &b, ghost_j), "lemma_skip_step_empty: Skip(k);Tick == Skip(k+1)");
    OUT(a.transmit_timer); OUT(b.transmit_timer); OUT(ghost_audio_count);
    CANARY();
}

/* safety of Skip for every period the MMIO register can hold, including 0 (C18 obligation: REPO-DIV) */
HARNESS(h_Btdmp_Skip_safety)
{
    NONDET(Btdmp, s); NONDET(u64, k);
    s.base_0.verif_tag = VERIF_TAG_Btdmp; s.interrupt_handler.set = 1; NORM_BOOL(s.audio_callback.set); NORM_BOOL(s.transmit_empty); NORM_BOOL(s.transmit_full);
    ghost_btdmp_irq = 0; ghost_audio_count = 0; verif_outcome = 0; CBMC_ONLY(verif_dm_valid = 0;)
    NATIVE_ONLY(s.transmit_queue.head %= VERIF_QCAP; s.transmit_queue.len %= 17;)
    ASSUME(s.transmit_queue.len <= 16 && s.transmit_queue.head < VERIF_QCAP && s.transmit_queue.len == 0 && k <= 2);
    Btdmp_Skip(&s, k);
    NATIVE_ONLY(CHECK(verif_outcome == 0, "Skip exits normally");)
    OUT(s.transmit_timer);
    CANARY();
}

/* sanity of the division model's successor rule, on real machine division, exhaustively for 12-bit operands (bounded stand-in:
 * the rule itself is elementary arithmetic and is listed under trusted_base) */
HARNESS(h_udivmod_successor_rule)
{
    NONDET(u16, n); NONDET(u16, d);
    ASSUME(d != 0 && d < 4096 && n < 4095);
    u16 q = n / d, r = n % d;
    CHECK((u16)(n + 1) / d == (r + 1 < d ? q : q + 1) && (u16)(n + 1) % d == (r + 1 < d ? r + 1 : 0), "successor rule of Euclidean division");
    CHECK(r < d && q <= n && q * d + r == n, "division theorem");
    OUT(q); OUT(r);
    CANARY();
}
