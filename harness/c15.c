/* C15 harnesses: timer (src/timer.cpp).  See plans/c15.py for how each is run. */
#include "timer_types.h"
#include "timer_spec.h"
#include "timer_contracts.h"
#include "common.h"
#include "spec_touch.h"
int verif_outcome;
int ghost_timer_irq;
#ifdef VERIF_REAL
#include "timer_protos.h"       /* calls go to replay/bridge_timer.cpp = the real C++ code */
#else
#include "timer_funcs.c"        /* extracted C */
#endif

#ifndef VERIF_CBMC
void CB_Timer_interrupt_handler(Timer *self) { (void)self; ghost_timer_irq++; }
#endif

#define TIMER_INPUT(s) NONDET(Timer, s); s.base_0.verif_tag = VERIF_TAG_Timer; s.interrupt_handler.set = 1; ghost_timer_irq = 0; verif_outcome = 0

/* ---- function contracts: the call is checked against CONTRACT_<f> by --enforce-contract; natively the same predicate is evaluated */
HARNESS(h_Timer_Tick)
{
    TIMER_INPUT(s);
    NATIVE_ONLY(Timer old = s;)
    Timer_Tick(&s);
    NATIVE_ONLY(CHECK(post_Timer_Tick(old, s, 0, ghost_timer_irq), "Timer_Tick.postcondition");)
    OUT(s); OUT(ghost_timer_irq);
    CANARY();
}
HARNESS(h_Timer_TickEvent)
{
    TIMER_INPUT(s);
    NATIVE_ONLY(Timer old = s;)
    Timer_TickEvent(&s);
    NATIVE_ONLY(CHECK(post_Timer_TickEvent(old, s, 0, ghost_timer_irq), "Timer_TickEvent.postcondition");)
    OUT(s); OUT(ghost_timer_irq);
    CANARY();
}
HARNESS(h_Timer_Restart)
{
    TIMER_INPUT(s);
    NATIVE_ONLY(Timer old = s;)
    Timer_Restart(&s);
    NATIVE_ONLY(CHECK(post_Timer_Restart(old, s, 0, ghost_timer_irq), "Timer_Restart.postcondition");)
    OUT(s); OUT(ghost_timer_irq);
    CANARY();
}
HARNESS(h_Timer_Reset)
{
    TIMER_INPUT(s);
    Timer_Reset(&s);
    NATIVE_ONLY(CHECK(post_Timer_Reset(s), "Timer_Reset.postcondition");)
    OUT(s);
    CANARY();
}
HARNESS(h_Timer_UpdateMMIO)
{
    TIMER_INPUT(s);
    NATIVE_ONLY(Timer old = s;)
    Timer_UpdateMMIO(&s);
    NATIVE_ONLY(CHECK(timer_mirror_ok(&old, &s, 1) && s.counter == old.counter, "Timer_UpdateMMIO.postcondition");)
    OUT(s);
    CANARY();
}
HARNESS(h_Timer_GetMaxSkip)
{
    TIMER_INPUT(s);
    u64 r = Timer_GetMaxSkip(&s);
    NATIVE_ONLY(CHECK(r <= spec_timer_horizon(&s), "Timer_GetMaxSkip.postcondition");)
    OUT(r);
    CANARY();
}

/* ---- fast-forward lemmas.  Skip is inlined (it is the function the lemma is about); Tick and GetMaxSkip are used
 *      through their contracts.  Induction on k (base + step) gives Skip(k) == Tick^k and no interrupt for all k <= GetMaxSkip(). */
HARNESS(h_lemma_skip_base)          /* Skip(0) changes nothing */
{
    TIMER_INPUT(s);
    ASSUME(wf_timer(&s));
    REGION_HOOK();
    Timer old = s;
    Timer_Skip(&s, 0);
    CHECK(timer_eq(&old, &s), "lemma_skip_base: Skip(0) is the identity");
    CHECK(ghost_timer_irq == 0, "lemma_skip_base: Skip(0) raises no interrupt");
    OUT(s); OUT(ghost_timer_irq);
    CANARY();
}
HARNESS(h_lemma_skip_step)          /* Skip(k); Tick == Skip(k+1), and that Tick raises no interrupt, for k < GetMaxSkip() */
{
    TIMER_INPUT(s);
    NONDET(u64, k);
    ASSUME(wf_timer(&s) && s.scale == 0);
    u64 horizon = Timer_GetMaxSkip(&s);
    ASSUME(k < horizon);
    Timer a = s, b = s;
    Timer_Skip(&a, k);
    Timer_Tick(&a);
    int irq_a = ghost_timer_irq;
    Timer_Skip(&b, k + 1);
    CHECK(irq_a == 0 && ghost_timer_irq == 0, "lemma_skip_step: no interrupt inside the horizon");
    CHECK(timer_eq(&a, &b), "lemma_skip_step: Skip(k);Tick == Skip(k+1)");
    OUT(a); OUT(b); OUT(ghost_timer_irq);
    CANARY();
}
/* mirror coherence is part of the state compared above; this lemma pins the horizon itself: after Skip(GetMaxSkip()) the very next Tick
 * is the one that may fire -- i.e. the horizon is not short of an interrupt that a longer skip would have jumped over (safety side only). */
HARNESS(h_lemma_horizon_sound)
{
    TIMER_INPUT(s);
    ASSUME(wf_timer(&s) && s.scale == 0);
    u64 horizon = Timer_GetMaxSkip(&s);
    CHECK(horizon <= spec_timer_horizon(&s), "lemma_horizon_sound: reported horizon never exceeds the first interrupt");
    OUT(horizon);
    CANARY();
}
