/* Abstract data/program memory behind the interpreter's MemoryInterface& (the memory interface itself is C11's subject).
 * CBMC: footprint abstraction -- AM_CELLS data words and AM_PCELLS program words at arbitrary addresses with arbitrary contents;
 * an access outside the footprint ends the path (every execution touching at most that many distinct words is covered by some
 * choice).  Native: full arrays, zero background plus the same cells.  Included after the extracted types. */
#ifndef VERIF_ABSMEM_H
#define VERIF_ABSMEM_H
#ifndef AM_CELLS
#define AM_CELLS 6
#endif
#ifndef AM_PCELLS
#define AM_PCELLS 3
#endif
u16 am_daddr[AM_CELLS], am_dval[AM_CELLS]; u32 am_paddr[AM_PCELLS]; u16 am_pval[AM_PCELLS];
u32 am_reads, am_writes, am_preads;
#ifdef VERIF_CBMC
static inline unsigned am_dcell(u16 a) { unsigned k = AM_CELLS; for (unsigned i = 0; i < AM_CELLS; i++) if (k == AM_CELLS && am_daddr[i] == a) k = i; __CPROVER_assume(k < AM_CELLS); return k; }
static inline unsigned am_pcell(u32 a) { unsigned k = AM_PCELLS; for (unsigned i = 0; i < AM_PCELLS; i++) if (k == AM_PCELLS && am_paddr[i] == a) k = i; __CPROVER_assume(k < AM_PCELLS); return k; }
#define AM_DATA(a) am_dval[am_dcell(a)]
#define AM_PROG(a) am_pval[am_pcell(a)]
#define AM_FRAME __CPROVER_object_whole(am_dval), __CPROVER_object_whole(am_pval), am_reads, am_writes, am_preads
#else
static u16 am_data_store[0x10000]; static u16 am_prog_store[0x40000];
#define AM_DATA(a) am_data_store[(u16)(a)]
#define AM_PROG(a) am_prog_store[(a) & 0x3FFFF]
#endif
u16 MemoryInterface_DataRead(MemoryInterface *self, u16 address, bool bypass_mmio) { (void)self; (void)bypass_mmio; am_reads++; return AM_DATA(address); }
void MemoryInterface_DataWrite(MemoryInterface *self, u16 address, u16 value, bool bypass_mmio) { (void)self; (void)bypass_mmio; am_writes++; AM_DATA(address) = value; }
#ifndef AM_PROG_CHECK
#define AM_PROG_CHECK(address) ((void)0)     /* C18 turns the program-memory address into an obligation */
#endif
u16 MemoryInterface_ProgramRead(const MemoryInterface *self, u32 address) { (void)self; AM_PROG_CHECK(address); am_preads++; return AM_PROG(address); }
void MemoryInterface_ProgramWrite(MemoryInterface *self, u32 address, u16 value) { (void)self; AM_PROG_CHECK(address); AM_PROG(address) = value; }
/* spec-side readers (no counters) */
static inline u16 am_peek(u16 a) { return AM_DATA(a); }
static inline u16 am_ppeek(u32 a) { return AM_PROG(a); }
#ifdef VERIF_CBMC
#define ABSMEM_SETUP() NONDET_ARR(u16, cell_da, AM_CELLS); NONDET_ARR(u16, cell_dv, AM_CELLS); NONDET_ARR(u32, cell_pa, AM_PCELLS); NONDET_ARR(u16, cell_pv, AM_PCELLS); \
    for (int i_ = 0; i_ < AM_CELLS; i_++) { am_daddr[i_] = cell_da[i_]; am_dval[i_] = cell_dv[i_]; } for (int i_ = 0; i_ < AM_PCELLS; i_++) { am_paddr[i_] = cell_pa[i_]; am_pval[i_] = cell_pv[i_]; } am_reads = am_writes = am_preads = 0
#define ABSMEM_OUT()
#else
#define ABSMEM_SETUP() NONDET_ARR(u16, cell_da, AM_CELLS); NONDET_ARR(u16, cell_dv, AM_CELLS); NONDET_ARR(u32, cell_pa, AM_PCELLS); NONDET_ARR(u16, cell_pv, AM_PCELLS); \
    memset(am_data_store, 0, sizeof am_data_store); memset(am_prog_store, 0, sizeof am_prog_store); \
    for (int i_ = AM_CELLS - 1; i_ >= 0; i_--) { am_daddr[i_] = cell_da[i_]; AM_DATA(cell_da[i_]) = cell_dv[i_]; } for (int i_ = AM_PCELLS - 1; i_ >= 0; i_--) { am_paddr[i_] = cell_pa[i_] & 0x3FFFF; AM_PROG(cell_pa[i_]) = cell_pv[i_]; } am_reads = am_writes = am_preads = 0
#define ABSMEM_OUT() do { for (int i_ = 0; i_ < AM_CELLS; i_++) { u16 v_ = AM_DATA(am_daddr[i_]); verif_output("dcell", &v_, 2); } OUT(am_reads); OUT(am_writes); } while (0)
#endif
#endif
