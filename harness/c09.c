/* C09 harnesses: hardware loops (rep, bkrep) execute their body count+1 times (src/interpreter.h Run / Repeat / BlockRepeat / break_ /
 * StoreBlockRepeat / RestoreBlockRepeat).  The count is an induction over cycles; the obligations below are its base (the loop
 * instruction's handler), its step and its exit (one cycle of Run from an ARBITRARY state satisfying the loop invariant), each proved for
 * all counts 0..65535, all nesting depths and both instruction lengths.  DESIGN.md 4/C09 spells out the induction.
 * Under CBMC the instruction in the loop body is a stub that counts executions and touches no loop-control state (a straight-line
 * instruction); natively the body instruction is a nop run through the real decode table. */
#ifdef VERIF_CBMC
typedef struct { unsigned calls; unsigned short opcode, expansion; unsigned pc; } c09_rec_t;
c09_rec_t c09_rec;
#define VERIF_DECODER_CALL(d, self, op, ex) (c09_rec.calls++, c09_rec.opcode = (op), c09_rec.expansion = (ex), c09_rec.pc = (self)->regs->pc)
#endif
#include "proc_types.h"
#include "proc_eq.h"
#include "regs_spec.h"
#include "common.h"
#include "spec_touch.h"
int verif_outcome;
#include "absmem.h"
#ifdef VERIF_REAL
#include "proc_protos.h"
#else
#include "proc_funcs.c"
#endif
static inline bool eqv_regs(RegisterState a, RegisterState b) { return eq_RegisterState(&a, &b); }
#include "interp_rig.h"
#define OPV(x) ((x).base_0.base_0.storage)
#define OPV1(x) ((x).base_0.storage)
#define IMMV(a) ((a).base_0.base_0.storage)
#define QUIET_IRQ() do { for (int i_ = 0; i_ < 3; i_++) it.interrupt_pending.e[i_] = 0; it.vinterrupt_pending = 0; st.ie = 0; } while (0)   /* interrupt entry is C08/C06 */
#define FETCH_RIG() INTERP_RIG(it, st); ABSMEM_SETUP(); QUIET_IRQ(); NATIVE_ONLY(st.pc &= 0x3FFF0;) ASSUME(st.pc + 2 < 0x40000); \
    u32 page = (u32)st.prpage << 18; NATIVE_ONLY(ASSUME(am_ppeek(st.pc | page) == 0);) u16 w0 = am_ppeek(st.pc | page); \
    bool two = vdec_need(w0); CBMC_ONLY(c09_rec.calls = 0;) RegisterState old = st
#ifdef VERIF_REAL
static bool vdec_need(u16 w) { (void)w; return 0; }    /* native runs use a nop body */
#else
#define vdec_need(w) vdec_Interpreter_need_expansion(w)
#endif
/* loop-control part of the state: what a straight-line body instruction must not touch */
static inline bool same_loop_frames(const RegisterState *a, const RegisterState *b)
{
    bool r = a->bcn == b->bcn && a->lp == b->lp;
    for (int i = 0; i < 4; i++) r = r && a->bkrep_stack.e[i].start == b->bkrep_stack.e[i].start && a->bkrep_stack.e[i].end == b->bkrep_stack.e[i].end && a->bkrep_stack.e[i].lc == b->bkrep_stack.e[i].lc;
    return r;
}

/* ---- single-instruction repeat ---- */
HARNESS(h_rep_base)         /* rep N: the repeat flag is set with counter N (all three ways to supply N) */
{
    INTERP_RIG(it, st); NONDET(u16, n); NONDET(u16, form); NONDET(u16, sel);
    NATIVE_ONLY(st.lp = 0; st.bcn = 0; st.sat = st.sata = 1;)
    RegisterState old = st; u16 want;
    if (form % 3 == 0) { Imm8 a; IMMV(a) = n & 0xFF; want = n & 0xFF; Interpreter_rep__Imm8(&it, a); }
    else if (form % 3 == 1) { Register a; OPV(a) = sel & 31; want = Interpreter_RegToBus16(&it, Register_GetName(&a), 0); Interpreter_rep__Register(&it, a); }
    else { want = st.r.e[6]; Interpreter_rep_r6(&it); }
    RegisterState exp = old; exp.rep = 1; exp.repc = want;
    CHECK(st.rep && st.repc == want, "rep N sets the repeat flag and the counter to N");
    CHECK(eqv_regs(st, exp), "and nothing else");
    OUT(st); CANARY();
}
HARNESS(h_rep_step)         /* one cycle with the repeat active: the instruction at pc executes once; counter > 0 => counter-1 and pc stays; counter == 0 => repeat ends, pc moves on */
{
    FETCH_RIG();
    NATIVE_ONLY(st.rep = 1; st.lp = 0; st.bcn = 0; old = st;)
    ASSUME(st.rep && !st.lp && !two);                      /* the repeated instruction is one word (the statement's scope) */
    Interpreter_Run(&it, 1);
    CBMC_ONLY(CHECK(c09_rec.calls == 1 && c09_rec.opcode == w0, "the instruction after rep executes exactly once per cycle");)
    if (old.repc != 0) CHECK(st.rep && st.repc == (u16)(old.repc - 1) && st.pc == old.pc, "counter > 0: counts down once and the same instruction is fetched again");
    else CHECK(!st.rep && st.repc == 0 && st.pc == old.pc + 1, "counter == 0: last execution, the repeat flag clears and pc moves past the instruction");
    RegisterState exp = old; exp.rep = st.rep; exp.repc = st.repc; exp.pc = st.pc;
    CHECK(eqv_regs(st, exp), "the repeat machinery itself changes nothing else");
    OUT(st); CANARY();
}
/* ---- block repeat ---- */
HARNESS(h_bkrep_base)       /* bkrep N, end: pushes the frame (start = next instruction, end, N); four deep */
{
    INTERP_RIG(it, st); NONDET(u16, n); NONDET(u16, form); NONDET(u16, sel); NONDET(u16, lo); NONDET(u16, hi);
    NATIVE_ONLY(st.bcn %= 4; st.lp = st.bcn != 0; st.sat = st.sata = 1;)
    ASSUME(st.bcn <= 3);
    RegisterState old = st; u16 want; u32 end;
    Address18_16 al; OPV1(al) = lo; Address18_2 ah; OPV1(ah) = hi & 3;
    if (form % 3 == 0) { Imm8 a; IMMV(a) = n & 0xFF; want = n & 0xFF; Address16 ad; OPV1(ad) = lo; end = lo | (old.pc & 0x30000); Interpreter_bkrep__Imm8_Address16(&it, a, ad); }
    else if (form % 3 == 1) { Register a; OPV(a) = sel & 31; want = Interpreter_RegToBus16(&it, Register_GetName(&a), 0); end = lo | ((u32)(hi & 3) << 16); Interpreter_bkrep__Register_Address18_16_Address18_2(&it, a, al, ah); }
    else { want = st.r.e[6]; end = lo | ((u32)(hi & 3) << 16); Interpreter_bkrep_r6(&it, al, ah); }
    RegisterState exp = old; exp.lp = 1; exp.bcn = old.bcn + 1; exp.bkrep_stack.e[old.bcn].start = old.pc; exp.bkrep_stack.e[old.bcn].end = end; exp.bkrep_stack.e[old.bcn].lc = want;
    CHECK(st.lp == 1 && st.bcn == old.bcn + 1 && st.bkrep_stack.e[old.bcn].lc == want && st.bkrep_stack.e[old.bcn].start == old.pc && st.bkrep_stack.e[old.bcn].end == end, "bkrep pushes the frame (start, end, count) one level deeper");
    CHECK(eqv_regs(st, exp), "the outer frames and every other register are unchanged");
    OUT(st); CANARY();
}
HARNESS(h_bkrep_depth)      /* a fifth nested bkrep is refused (deliberate assertion), never a write past the four frames */
{
    INTERP_RIG(it, st); NONDET(u16, n);
    NATIVE_ONLY(st.bcn = 4; st.lp = 1;)
    ASSUME(st.bcn == 4);
    Interpreter_BlockRepeat(&it, n, st.pc);
    CHECK(0, "BlockRepeat at depth 4 must not return");
    OUT(st);
}
HARNESS(h_bkrep_step)       /* one cycle inside a block, with or without a single-instruction repeat active on the fetched instruction */
{
    FETCH_RIG();
    NATIVE_ONLY(if (!st.lp) { st.lp = 1; st.bcn = 1; } old = st;)
    ASSUME(st.lp && st.bcn >= 1 && !(st.rep && two));    /* a repeated instruction is one word (the statement's scope) */
    unsigned top = st.bcn - 1;
    u32 after = old.pc + 1 + two;                          /* pc after the fetch: one or two words */
    /* the repeat bookkeeping comes first: while the repeat goes on, pc is put back onto the repeated instruction */
    bool rep_on = old.rep && old.repc != 0;
    u32 cur = rep_on ? after - 1 : after;
    bool at_end = old.bkrep_stack.e[top].end + 1 == cur;  /* so a block's last instruction that is being repeated ends the pass only on its final repetition */
    Interpreter_Run(&it, 1);
    CBMC_ONLY(CHECK(c09_rec.calls == 1 && c09_rec.opcode == w0, "every instruction of the block executes exactly once per cycle");)
    CHECK(st.rep == rep_on && st.repc == (rep_on ? (u16)(old.repc - 1) : old.repc), "the repeat counter counts down while the repeat is active and the flag clears after the last repetition");
    if (!at_end) CHECK(same_loop_frames(&st, &old) && st.pc == cur, "inside the block: loop state untouched, pc advances by the instruction length (or stays on a repeated instruction)");
    else if (old.bkrep_stack.e[top].lc != 0) {
        RegisterState exp = old; exp.bkrep_stack.e[top].lc = old.bkrep_stack.e[top].lc - 1;
        CHECK(same_loop_frames(&st, &exp) && st.pc == old.bkrep_stack.e[top].start, "last instruction of the block with count > 0: the visible counter counts down once and the block restarts");
    } else {
        RegisterState exp = old; exp.bcn = old.bcn - 1; exp.lp = exp.bcn != 0;
        CHECK(same_loop_frames(&st, &exp) && st.pc == cur, "last instruction with count 0: the frame is popped, the in-loop flag clears with the outermost frame, execution falls through");
    }
    RegisterState exp2 = st; exp2.pc = old.pc; exp2.bcn = old.bcn; exp2.lp = old.lp; exp2.bkrep_stack = old.bkrep_stack; exp2.rep = old.rep; exp2.repc = old.repc;
    CHECK(eqv_regs(exp2, old), "the loop machinery itself changes nothing else");
    u16 lc_view = Interpreter_RegToBus16(&it, RegName_lc, 0);
    CHECK(!st.lp || lc_view == st.bkrep_stack.e[st.bcn - 1].lc, "the program-visible loop counter is the innermost frame's count");
    OUT(st); OUT(lc_view); CANARY();
}
HARNESS(h_break)            /* break: leaves the innermost loop's bookkeeping */
{
    INTERP_RIG(it, st);
    NATIVE_ONLY(if (!st.lp) { st.lp = 1; st.bcn = 1; })
    ASSUME(st.lp);
    RegisterState old = st;
    Interpreter_break(&it);
    RegisterState exp = old; exp.bcn = old.bcn - 1; exp.lp = exp.bcn != 0;
    CHECK(eqv_regs(st, exp), "break pops one nesting level and clears the in-loop flag with the last one");
    OUT(st); CANARY();
}
/* ---- loop frame save / restore ---- */
HARNESS(h_frame_roundtrip)
{
    INTERP_RIG(it, st); ABSMEM_SETUP(); NONDET(bool, via_sp); NORM_BOOL(via_sp); NONDET(u16, ar);
#ifdef FRAME_VIA_SP      /* case split of the CBMC obligation */
    ASSUME(via_sp == FRAME_VIA_SP);
#endif
#ifdef FRAME_DEPTH
    ASSUME(st.bcn == FRAME_DEPTH);
#endif
    RegisterState old = st;
    ArRn2 a; OPV(a) = ar & 3;
    if (via_sp) Interpreter_bkrepsto_memsp(&it); else Interpreter_bkrepsto(&it, a);
    RegisterState mid = st;
    if (via_sp) Interpreter_bkreprst_memsp(&it); else Interpreter_bkreprst(&it, a);
    CHECK(old.lp ? (mid.bcn == old.bcn - 1 && mid.lp == (mid.bcn != 0)) : (mid.bcn == old.bcn && mid.lp == 0), "saving a frame pops it from the hardware stack");
    CHECK(via_sp ? mid.sp == (u16)(old.sp - 4) : 1, "a frame is four words");
    CHECK(eqv_regs(st, old), "saving then restoring a loop frame round-trips exactly (frames, depth, in-loop flag, address register)");
    OUT(st); OUT(mid); ABSMEM_OUT(); CANARY();
}
