/* C11 harnesses: DSP-side and host-side views of memory (shared_memory.h, memory_interface.*, teakra.cpp accessors) */
#define VERIF_MEM_CELLS 5     /* one access touches 2 bytes; the frame check one more; the views lemma 2 */
#include "mem_types.h"
#include "mem_spec.h"
#include "mem_contracts.h"
#include "common.h"
#include "spec_touch.h"
int verif_outcome;
u64 ghost_g; u8 ghost_g_old;
u32 ghost_mmio_reads, ghost_mmio_writes; u16 ghost_mmio_addr, ghost_mmio_wval, ghost_mmio_rval;
#ifdef VERIF_CBMC
u32 verif_mem_addr[VERIF_MEM_CELLS]; u8 verif_mem_val[VERIF_MEM_CELLS];
static u8 mem_dummy[1];
#define MEM_SETUP(mem) u8 *mem = mem_dummy; for (int h_ = 0; h_ < VERIF_MEM_CELLS; h_++) { verif_mem_addr[h_] = (u32)cell_addr[h_]; verif_mem_val[h_] = cell_val[h_]; }
#else
static u8 mem_storage[0x80000];
#define MEM_SETUP(mem) u8 *mem = mem_storage; memset(mem_storage, 0, sizeof mem_storage); for (int h_ = VERIF_MEM_CELLS - 1; h_ >= 0; h_--) { cell_addr[h_] &= 0x7FFFF; mem[cell_addr[h_]] = cell_val[h_]; }
#endif
#ifdef VERIF_REAL
#include "mem_protos.h"
#else
#include "mem_funcs.c"
#endif
/* the MMIO region behind the window is checked in C12; here it is an observer: which offset was reached, with which value */
u16 MMIORegion_Read(MMIORegion *self, u16 addr) { (void)self; ghost_mmio_reads++; ghost_mmio_addr = addr; return ghost_mmio_rval; }
void MMIORegion_Write(MMIORegion *self, u16 addr, u16 value) { (void)self; ghost_mmio_writes++; ghost_mmio_addr = addr; ghost_mmio_wval = value; }

static inline u16 hword(u8 *mem, u32 w) { return (u16)(VERIF_RAW_PEEK(mem, (u64)w * 2) | (VERIF_RAW_PEEK(mem, (u64)w * 2 + 1) << 8)); }

#define MI_RIG(mem, mi) \
    NONDET_ARR(u64, cell_addr, VERIF_MEM_CELLS); NONDET_ARR(u8, cell_val, VERIF_MEM_CELLS); MEM_SETUP(mem); \
    SharedMemory shm; shm.own_memory = 0; shm.raw = mem; NONDET(MemoryInterfaceUnit, miu); MMIORegion region; region.impl = 0; \
    MemoryInterface mi; mi.shared_memory = &shm; mi.memory_interface_unit = &miu; mi.mmio = &region; \
    NONDET(u64, gg); NONDET(u16, rval); ghost_g = gg % 0x80000; ghost_mmio_rval = rval; ghost_mmio_reads = ghost_mmio_writes = 0; ghost_mmio_addr = ghost_mmio_wval = 0; verif_outcome = 0; ghost_g_old = VERIF_RAW_PEEK(mem, ghost_g)

HARNESS(h_ReadWord)
{
    MI_RIG(mem, mi); NONDET(u32, w);
    NATIVE_ONLY(w &= 0x3FFFF;)
    u16 r = SharedMemory_ReadWord(&shm, w);
    NATIVE_ONLY(CHECK(r == hword(mem, w), "SharedMemory_ReadWord.postcondition");)
    OUT(r); CANARY();
}
HARNESS(h_WriteWord)
{
    MI_RIG(mem, mi); NONDET(u32, w); NONDET(u16, v);
    NATIVE_ONLY(w &= 0x3FFFF;)
    NATIVE_ONLY(u8 g_old = VERIF_RAW_PEEK(mem, ghost_g);)
    SharedMemory_WriteWord(&shm, w, v);
    NATIVE_ONLY(CHECK(hword(mem, w) == v && (ghost_g == (u64)w * 2 || ghost_g == (u64)w * 2 + 1 || VERIF_RAW_PEEK(mem, ghost_g) == g_old), "SharedMemory_WriteWord.postcondition");)
    u16 back = hword(mem, w); OUT(back); CANARY();
}
#define RD_HARNESS(name, fn, argdecl, call, nativefix, expect) \
HARNESS(name) { MI_RIG(mem, mi); argdecl; nativefix; u16 r = call; NATIVE_ONLY(CHECK(r == (expect), #fn ".postcondition");) OUT(r); OUT(ghost_mmio_reads); OUT(ghost_mmio_addr); CANARY(); }
RD_HARNESS(h_ProgramRead, MemoryInterface_ProgramRead, NONDET(u32, a), MemoryInterface_ProgramRead(&mi, a), NATIVE_ONLY(a &= 0x3FFFF;), hword(mem, a))
RD_HARNESS(h_DataReadA32, MemoryInterface_DataReadA32, NONDET(u32, a), MemoryInterface_DataReadA32(&mi, a), (void)0, hword(mem, spec_data_word_a32(a)))
RD_HARNESS(h_MMIORead, MemoryInterface_MMIORead, NONDET(u16, a), MemoryInterface_MMIORead(&mi, a), (void)0, (ghost_mmio_reads == 1 && ghost_mmio_addr == (a & 0x7FF)) ? ghost_mmio_rval : (u16)~ghost_mmio_rval)
HARNESS(h_DataRead)
{
    MI_RIG(mem, mi); NONDET(u16, a); NONDET(bool, bypass); NORM_BOOL(bypass);
    NATIVE_ONLY(miu.page_mode = 0; miu.z_page &= 1;) ASSUME(miu.page_mode == 0);
    u16 r = MemoryInterface_DataRead(&mi, a, bypass);
    NATIVE_ONLY(CHECK((spec_in_mmio(a, miu.mmio_base) && !bypass) ? (ghost_mmio_reads == 1 && ghost_mmio_addr == spec_mmio_offset(a, miu.mmio_base) && r == ghost_mmio_rval)
                                                                  : (ghost_mmio_reads == 0 && r == hword(mem, spec_data_word(a, miu.z_page))), "MemoryInterface_DataRead.postcondition");)
    OUT(r); OUT(ghost_mmio_reads); OUT(ghost_mmio_addr); CANARY();
}
HARNESS(h_DataWrite)
{
    MI_RIG(mem, mi); NONDET(u16, a); NONDET(u16, v); NONDET(bool, bypass); NORM_BOOL(bypass);
    NATIVE_ONLY(miu.page_mode = 0; miu.z_page &= 1;) ASSUME(miu.page_mode == 0);
    NATIVE_ONLY(u8 g_old = VERIF_RAW_PEEK(mem, ghost_g);)
    MemoryInterface_DataWrite(&mi, a, v, bypass);
    NATIVE_ONLY(u32 w = spec_data_word(a, miu.z_page);
        CHECK((spec_in_mmio(a, miu.mmio_base) && !bypass) ? (ghost_mmio_writes == 1 && ghost_mmio_addr == spec_mmio_offset(a, miu.mmio_base) && ghost_mmio_wval == v && VERIF_RAW_PEEK(mem, ghost_g) == g_old)
              : (ghost_mmio_writes == 0 && hword(mem, w) == v && (ghost_g == (u64)w * 2 || ghost_g == (u64)w * 2 + 1 || VERIF_RAW_PEEK(mem, ghost_g) == g_old)), "MemoryInterface_DataWrite.postcondition");)
    OUT(ghost_mmio_writes); OUT(ghost_mmio_addr); OUT(ghost_mmio_wval); CANARY();
}
HARNESS(h_ProgramWrite)
{
    MI_RIG(mem, mi); NONDET(u32, a); NONDET(u16, v);
    NATIVE_ONLY(a &= 0x3FFFF;)
    MemoryInterface_ProgramWrite(&mi, a, v);
    NATIVE_ONLY(CHECK(hword(mem, a) == v, "MemoryInterface_ProgramWrite.postcondition");)
    u16 back = hword(mem, a); OUT(back); CANARY();
}
HARNESS(h_DataWriteA32)
{
    MI_RIG(mem, mi); NONDET(u32, a); NONDET(u16, v);
    MemoryInterface_DataWriteA32(&mi, a, v);
    NATIVE_ONLY(CHECK(hword(mem, spec_data_word_a32(a)) == v, "MemoryInterface_DataWriteA32.postcondition");)
    u16 back = hword(mem, spec_data_word_a32(a)); OUT(back); CANARY();
}
HARNESS(h_MMIOWrite)
{
    MI_RIG(mem, mi); NONDET(u16, a); NONDET(u16, v);
    MemoryInterface_MMIOWrite(&mi, a, v);
    NATIVE_ONLY(CHECK(ghost_mmio_writes == 1 && ghost_mmio_addr == (a & 0x7FF) && ghost_mmio_wval == v, "MemoryInterface_MMIOWrite.postcondition");)
    OUT(ghost_mmio_writes); OUT(ghost_mmio_addr); OUT(ghost_mmio_wval); CANARY();
}
/* lemma over contracts: every view of the same cell agrees -- a store through the DSP data path is what the host's 32-bit-address
 * accessor, the 16-bit accessor and the raw bytes all read back (default paging mode, outside the MMIO window) */
HARNESS(h_views_agree)
{
    MI_RIG(mem, mi); NONDET(u16, a); NONDET(u16, v);
    NATIVE_ONLY(miu.page_mode = 0; miu.z_page &= 1;)
    ASSUME(miu.page_mode == 0 && miu.z_page < 2 && !spec_in_mmio(a, miu.mmio_base));
    MemoryInterface_DataWrite(&mi, a, v, false);
    ghost_g_old = VERIF_RAW_PEEK(mem, ghost_g);
    u16 r16 = MemoryInterface_DataRead(&mi, a, false);
    u16 r32 = MemoryInterface_DataReadA32(&mi, (u32)a + 0x10000u * miu.z_page);
    u16 rp = MemoryInterface_ProgramRead(&mi, spec_data_word(a, miu.z_page));
    u32 w = spec_data_word(a, miu.z_page);
    CHECK(r16 == v && r32 == v && rp == v && VERIF_RAW_PEEK(mem, (u64)w * 2) == (u8)v && VERIF_RAW_PEEK(mem, (u64)w * 2 + 1) == (u8)(v >> 8), "all views of one data cell agree");
    OUT(r16); OUT(r32); OUT(rp); CANARY();
}
#ifdef VERIF_CBMC
/* host accessors of teakra.cpp: each forwards to the memory interface with the same arguments (contracts of the callees replace them) */
#define TK_RIG(mem, tk) MI_RIG(mem, mi); static Teakra_Impl impl; TeakraObj tk; tk.impl = &impl; impl.shared_memory = shm; impl.miu = miu; impl.mmio = region; \
    impl.memory_interface.shared_memory = &impl.shared_memory; impl.memory_interface.memory_interface_unit = &impl.miu; impl.memory_interface.mmio = &impl.mmio
HARNESS(h_host_accessors)
{
    TK_RIG(mem, tk); NONDET(u16, a); NONDET(u32, a32); NONDET(u16, v); NONDET(bool, bypass);
    ASSUME(impl.miu.page_mode == 0 && impl.miu.z_page < 2);
    u16 p = Teakra_ProgramRead(&tk, a32);
    CHECK(p == hword(mem, a32), "Teakra::ProgramRead reads program word p = bytes 2p, 2p+1");
    u16 d = Teakra_DataRead(&tk, a, bypass);
    CHECK((spec_in_mmio(a, impl.miu.mmio_base) && !bypass) ? (ghost_mmio_reads == 1 && d == ghost_mmio_rval) : d == hword(mem, spec_data_word(a, impl.miu.z_page)), "Teakra::DataRead");
    u16 d32 = Teakra_DataReadA32(&tk, a32);
    CHECK(d32 == hword(mem, spec_data_word_a32(a32)), "Teakra::DataReadA32");
    CHECK(Teakra_GetDspMemory__(&tk) == mem, "Teakra::GetDspMemory returns the raw pointer of the same memory");
    CANARY();
}
HARNESS(h_host_writers)
{
    TK_RIG(mem, tk); NONDET(u16, a); NONDET(u32, a32); NONDET(u16, v); NONDET(bool, bypass); NONDET(int, which);
    ASSUME(impl.miu.page_mode == 0 && impl.miu.z_page < 2);
    if (which == 0) { Teakra_ProgramWrite(&tk, a32, v); CHECK(hword(mem, a32) == v, "Teakra::ProgramWrite"); }
    else if (which == 1) { Teakra_DataWriteA32(&tk, a32, v); CHECK(hword(mem, spec_data_word_a32(a32)) == v, "Teakra::DataWriteA32"); }
    else if (which == 2) { Teakra_DataWrite(&tk, a, v, bypass);
        CHECK((spec_in_mmio(a, impl.miu.mmio_base) && !bypass) ? (ghost_mmio_writes == 1 && ghost_mmio_wval == v && ghost_mmio_addr == spec_mmio_offset(a, impl.miu.mmio_base)) : hword(mem, spec_data_word(a, impl.miu.z_page)) == v, "Teakra::DataWrite"); }
    else if (which == 3) { Teakra_MMIOWrite(&tk, a, v); CHECK(ghost_mmio_writes == 1 && ghost_mmio_addr == (a & 0x7FF) && ghost_mmio_wval == v, "Teakra::MMIOWrite"); }
    else { u16 r = Teakra_MMIORead(&tk, a); CHECK(ghost_mmio_reads == 1 && ghost_mmio_addr == (a & 0x7FF) && r == ghost_mmio_rval, "Teakra::MMIORead"); }
    CANARY();
}
#endif
