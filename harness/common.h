/* Harness mini-language.  One harness source serves three builds:
 *   VERIF_CBMC            : CBMC proof harness (inputs nondet, contracts enforced by goto-instrument --dfcc)
 *   native, VERIF_REPLAY  : inputs from replay_inputs.h (a CBMC counterexample), calls go to the REAL C++ code via the bridge
 *   native, fidelity      : inputs random (VERIF_SEED); built twice (extracted C / real C++ bridge); outputs must agree
 */
#ifndef VERIF_HARNESS_COMMON_H
#define VERIF_HARNESS_COMMON_H
#ifdef VERIF_CBMC
int verif_touch_flag;     /* nondeterministic (dfcc havocs statics); never assigned */
#endif

#ifdef VERIF_CBMC
#  define NONDET(T, name) T name
#  define NONDET_ARR(T, name, n) T name[n]
#  define ASSUME(c) __CPROVER_assume(c)
#  define CHECK(c, msg) __CPROVER_assert((c), msg)
#  define NATIVE_ONLY(x)
#  define CBMC_ONLY(x) x
   /* the dead-end touch keeps dfcc's instrumentation of spec functions uniform (bin/vcheck write_spec_touch); it is reachability only */
#  define CANARY() do { if (verif_touch_flag) { __CPROVER_assume(0); VERIF_TOUCH_CALL; } __CPROVER_assert(0, "canary"); } while (0)
#  define VERIF_TOUCH_CALL verif_spec_touch()      /* defined by the generated spec_touch.h, which every harness includes after its spec headers */
#  define HARNESS(name) void name(void)
#  define OUT(x)
   /* known-findings split (DESIGN.md 2.5): the driver defines VERIF_REGION_EXPR from KNOWN_FINDINGS.txt */
#  ifdef VERIF_REGION_EXPR
#    define REGION_HOOK() __CPROVER_assume(VERIF_REGION_EXPR)
#  else
#    define REGION_HOOK()
#  endif
#else
#  include <stdio.h>
#  include <string.h>
#  include <stdlib.h>
void verif_input(const char *name, void *p, size_t n);
void verif_output(const char *name, const void *p, size_t n);
void verif_check(int ok, const char *msg);
void verif_reject(void);
#  ifdef VERIF_REPLAY
#    include "replay_inputs.h"
#    define NONDET(T, name) T name = REPLAY_VALUE_##name
#    define NONDET_ARR(T, name, n) T name[n] = REPLAY_VALUE_##name
#  else
#    define NONDET(T, name) T name; verif_input(#name, &name, sizeof(name))
#    define NONDET_ARR(T, name, n) T name[n]; verif_input(#name, name, sizeof(name))
#  endif
#  define ASSUME(c) do { if (!(c)) verif_reject(); } while (0)
#  define CHECK(c, msg) verif_check((c) ? 1 : 0, msg)
#  define NATIVE_ONLY(x) x
#  define CBMC_ONLY(x)
#  define CANARY()
#  define HARNESS(name) void name(void)
#  define OUT(x) verif_output(#x, &(x), sizeof(x))
#  define REGION_HOOK()
#endif
/* random bytes in a _Bool are not a bool: normalise (natively through memory) */
#ifdef VERIF_CBMC
#  define NORM_BOOL(lv) ((lv) = ((lv) ? 1 : 0))      /* CBMC's nondet _Bool is a byte: any non-zero value is true, but arithmetic on it sees the byte */
#else
#  define NORM_BOOL(lv) do { unsigned char vb_; memcpy(&vb_, &(lv), 1); vb_ = (vb_ != 0); memcpy(&(lv), &vb_, 1); } while (0)
#endif

#endif
