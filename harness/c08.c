/* C08 harnesses: calls/returns, push/pop, interrupt entry/exit, context store/restore and bank exchange restore state exactly
 * (src/interpreter.h, include/teakra/impl/register.h).  Round-trip lemmas stated from the property, run on the extracted code for every
 * well-formed state (loop-free: complete); memory behind the stack pointer is the footprint abstraction of harness/absmem.h. */
#ifdef VERIF_CBMC
/* Run's dispatch under CBMC: the fetched instruction is constrained to `nop` (word 0x0000) and executes as such */
#define VERIF_DECODER_CALL(d, self, op, ex) ((void)0)
#endif
#include "proc_types.h"
#include "proc_eq.h"
#include "regs_spec.h"
#include "common.h"
#include "spec_touch.h"
int verif_outcome;
#include "absmem.h"
#ifdef VERIF_REAL
#include "proc_protos.h"
#else
#include "proc_funcs.c"
#endif
static inline bool eqv_regs(RegisterState a, RegisterState b) { return eq_RegisterState(&a, &b); }
#include "interp_rig.h"
#define OPV(x) ((x).base_0.base_0.storage)
#define OPV1(x) ((x).base_0.storage)
#define COND_TRUE(c) EnumAllOperand_CondValue c; OPV1(c) = 0            /* CondValue::True */
#define STACK_RIG() INTERP_RIG(it, st); ABSMEM_SETUP(); RegisterState old = st
#define SAT_OFF() ASSUME(st.sat == 1 && st.sata == 1 && st.lp == 0 && !st.rep)   /* "with saturation disabled and no hardware loop active" */
#define NATIVE_SAT_OFF() NATIVE_ONLY(st.sat = st.sata = 1; st.lp = 0; st.bcn = 0; st.rep = 0;)

/* ---- call / return ---- */
HARNESS(h_call_ret)
{
    INTERP_RIG(it, st); ABSMEM_SETUP(); NONDET(u16, lo); NONDET(u16, hi); NONDET(u16, cv); NONDET(u16, cpc);
    st.cpc = cpc & 1;                                   /* both program-counter word orders */
    RegisterState old = st;
    Address18_16 al; OPV1(al) = lo; Address18_2 ah; OPV1(ah) = hi & 3; EnumAllOperand_CondValue c; OPV1(c) = cv & 15; COND_TRUE(t);
    bool pass = RegisterState_ConditionPass(&st, c);
    Interpreter_call(&it, al, ah, c);
    if (!pass) CHECK(eqv_regs(st, old), "call with a failing condition changes nothing");
    else {
        CHECK(st.pc == ((u32)lo | ((u32)(hi & 3) << 16)) && st.sp == (u16)(old.sp - 2), "call jumps to the 18-bit target with two words pushed");
        Interpreter_ret(&it, t);
        CHECK(st.pc == old.pc && st.sp == old.sp, "the matching return resumes after the call with the stack pointer restored");
        CHECK(eqv_regs(st, old), "call + return leaves every register as it was");
    }
    OUT(st); ABSMEM_OUT(); CANARY();
}
HARNESS(h_callr_ret)
{
    INTERP_RIG(it, st); ABSMEM_SETUP(); NONDET(u16, rel); NONDET(u16, cv); NONDET(u16, cpc);
    st.cpc = cpc & 1;
    RegisterState old = st;
    RelAddr7 ra; OPV1(ra) = rel & 0x7F; EnumAllOperand_CondValue c; OPV1(c) = cv & 15; COND_TRUE(t);
    bool pass = RegisterState_ConditionPass(&st, c);
    Interpreter_callr(&it, ra, c);
    if (!pass) CHECK(eqv_regs(st, old), "callr with a failing condition changes nothing");
    else {
        CHECK(st.sp == (u16)(old.sp - 2), "callr pushes two words");
        ASSUME(st.pc < 0x40000);                        /* a relative call past the end of program space is C18's subject */
        Interpreter_ret(&it, t);
        CHECK(st.pc == old.pc && st.sp == old.sp && eqv_regs(st, old), "callr + return resumes after the call, stack pointer and registers restored");
    }
    OUT(st); ABSMEM_OUT(); CANARY();
}
HARNESS(h_calla_ret)
{
    INTERP_RIG(it, st); ABSMEM_SETUP(); NONDET(u16, av); NONDET(u16, cpc); NONDET(bool, whole); NORM_BOOL(whole);
    st.cpc = cpc & 1;
    RegisterState old = st;
    COND_TRUE(t);
    if (whole) { Ax a; OPV(a) = av & 1; Interpreter_calla__Ax(&it, a); } else { Axl a; OPV(a) = av & 1; Interpreter_calla__Axl(&it, a); }
    CHECK(st.sp == (u16)(old.sp - 2), "calla pushes two words");
    Interpreter_ret(&it, t);
    CHECK(st.pc == old.pc && st.sp == old.sp && eqv_regs(st, old), "calla + return resumes after the call, stack pointer and registers restored");
    OUT(st); ABSMEM_OUT(); CANARY();
}
HARNESS(h_ret_cond)
{
    INTERP_RIG(it, st); ABSMEM_SETUP(); NONDET(u16, cv);
    RegisterState old = st;
    EnumAllOperand_CondValue c; OPV1(c) = cv & 15;
    bool pass = RegisterState_ConditionPass(&st, c);
    Interpreter_ret(&it, c);
    if (!pass) CHECK(eqv_regs(st, old), "ret with a failing condition changes nothing");
    else CHECK(st.sp == (u16)(old.sp + 2), "ret pops two words");
    OUT(st); CANARY();
}

/* ---- push / pop of 16-bit views ----  push a; (the register is overwritten through the bus); pop a  =>  a reads the pushed value, sp restored */
#define PUSH_POP_VIEW(hname, T, mask, pushfn, popfn, extra_assume) \
HARNESS(hname) \
{ \
    INTERP_RIG(it, st); ABSMEM_SETUP(); NONDET(u16, sel); NONDET(u16, junk); NATIVE_SAT_OFF(); SAT_OFF(); \
    T a; OPV(a) = sel & (mask); RegName name = T##_GetName(&a); extra_assume; \
    RegisterState old = st; \
    u16 view = Interpreter_RegToBus16(&it, name, 1); \
    pushfn(&it, a); \
    CHECK(st.sp == (u16)(old.sp - 1) && am_peek(st.sp) == view, "push writes the register's bus value below the stack pointer"); \
    Interpreter_RegFromBus16(&it, name, junk); \
    popfn(&it, a); \
    CHECK(st.sp == old.sp, "pop restores the stack pointer"); \
    u16 back = Interpreter_RegToBus16(&it, name, 1); \
    CHECK(back == view, "pop restores the pushed value"); \
    OUT(st); OUT(back); ABSMEM_OUT(); CANARY(); \
}
/* the product register read as a 16-bit register goes through the output shifter: neutral shifter assumed (see plan assumptions) */
PUSH_POP_VIEW(h_push_pop_Register, Register, 31, Interpreter_push__Register, Interpreter_pop__Register, ASSUME(st.ps.e[0] == 0 && name != RegName_pc && name != RegName_sp))
PUSH_POP_VIEW(h_push_pop_ArArpSttMod, ArArpSttMod, 15, Interpreter_push__ArArpSttMod, Interpreter_pop__ArArpSttMod, (void)0)
/* sp itself: the pushed value is the stack pointer before the push, and pop puts it back */
HARNESS(h_push_pop_sp)
{
    INTERP_RIG(it, st); ABSMEM_SETUP(); NONDET(u16, sel); NATIVE_SAT_OFF(); SAT_OFF();
    Register a; OPV(a) = sel & 31; ASSUME(Register_GetName(&a) == RegName_sp);
    RegisterState old = st;
    Interpreter_push__Register(&it, a);
    CHECK(st.sp == (u16)(old.sp - 1) && am_peek(st.sp) == old.sp, "push sp writes the stack pointer's value before the push");
    Interpreter_pop__Register(&it, a);
    CHECK(st.sp == old.sp && eqv_regs(st, old), "pop sp restores it");
    OUT(st); ABSMEM_OUT(); CANARY();
}
/* accumulator extension parts */
HARNESS(h_push_pop_Abe)
{
    INTERP_RIG(it, st); ABSMEM_SETUP(); NONDET(u16, sel); NONDET(u64, junk); NATIVE_SAT_OFF(); SAT_OFF();
    Abe a; OPV(a) = sel & 3; RegName name = Abe_GetName(&a);
    RegisterState old = st;
    u64 acc0 = Interpreter_GetAcc(&it, name);
    Interpreter_push__Abe(&it, a);
    CHECK(st.sp == (u16)(old.sp - 1) && am_peek(st.sp) == (u16)((acc0 >> 32) & 0xFFFF), "push writes the accumulator's extension word");
    Interpreter_SetAcc(&it, name, (u64)sx40((acc0 & 0xFFFFFFFFull) | ((junk & 0xFF) << 32)));       /* clobber the extension */
    Interpreter_pop__Abe(&it, a);
    CHECK(st.sp == old.sp && Interpreter_GetAcc(&it, name) == acc0, "pop restores the extension (and leaves the low 32 bits alone)");
    OUT(st); ABSMEM_OUT(); CANARY();
}
/* whole accumulators through pusha / popa: the 32-bit part; together with the extension pair the full 40 bits */
HARNESS(h_pusha_popa)
{
    INTERP_RIG(it, st); ABSMEM_SETUP(); NONDET(u16, sel); NONDET(u64, junk); NATIVE_SAT_OFF(); SAT_OFF();
    Ab ab; OPV(ab) = sel & 3; RegName name = Ab_GetName(&ab);
    RegisterState old = st;
    u64 acc0 = Interpreter_GetAcc(&it, name);
    if (sel & 2) { Ax a; OPV(a) = sel & 1; ASSUME(Ax_GetName(&a) == name); Interpreter_pusha__Ax(&it, a); }
    else { Bx b; OPV(b) = sel & 1; ASSUME(Bx_GetName(&b) == name); Interpreter_pusha__Bx(&it, b); }
    CHECK(st.sp == (u16)(old.sp - 2) && am_peek(st.sp) == (u16)(acc0 >> 16) && am_peek((u16)(st.sp + 1)) == (u16)acc0, "pusha writes the low 32 bits, high word at the lower address");
    Interpreter_SetAcc(&it, name, (u64)sx40(junk));
    Interpreter_popa(&it, ab);
    u64 acc1 = Interpreter_GetAcc(&it, name);
    CHECK(st.sp == old.sp && (u32)acc1 == (u32)acc0 && acc1 == (u64)sx32_64((u32)acc0), "popa restores the 32-bit value, sign-extended, and the stack pointer");
    CHECK(acc0 != (u64)sx32_64((u32)acc0) || acc1 == acc0, "an accumulator holding a 32-bit value is restored exactly");
    OUT(st); ABSMEM_OUT(); CANARY();
}
HARNESS(h_push_pop_acc40)      /* push ae; pusha a; popa a; pop ae  restores all 40 bits */
{
    INTERP_RIG(it, st); ABSMEM_SETUP(); NONDET(u16, sel); NONDET(u64, junk); NATIVE_SAT_OFF(); SAT_OFF();
    Ab ab; OPV(ab) = sel & 3; RegName name = Ab_GetName(&ab);
    Abe e; NONDET(u16, esel); OPV(e) = esel & 3; ASSUME(acc_family(Abe_GetName(&e)) == acc_family(name));
    RegisterState old = st;
    u64 acc0 = Interpreter_GetAcc(&it, name);
    Interpreter_push__Abe(&it, e);
    if (sel & 2) { Ax a; OPV(a) = sel & 1; ASSUME(Ax_GetName(&a) == name); Interpreter_pusha__Ax(&it, a); }
    else { Bx b; OPV(b) = sel & 1; ASSUME(Bx_GetName(&b) == name); Interpreter_pusha__Bx(&it, b); }
    Interpreter_SetAcc(&it, name, (u64)sx40(junk));
    Interpreter_popa(&it, ab);
    Interpreter_pop__Abe(&it, e);
    CHECK(st.sp == old.sp && Interpreter_GetAcc(&it, name) == acc0, "extension pair around pusha/popa restores the whole 40-bit accumulator");
    OUT(st); ABSMEM_OUT(); CANARY();
}
/* products through their two-word pair */
HARNESS(h_push_pop_Px)
{
    INTERP_RIG(it, st); ABSMEM_SETUP(); NONDET(u16, sel); NONDET(u32, junk); NATIVE_SAT_OFF(); SAT_OFF();
    Px p; OPV1(p) = sel & 1; unsigned i = sel & 1;
    ASSUME(st.ps.e[i] == 0);                              /* neutral product shifter: push reads the product through it, pop writes it raw */
    RegisterState old = st;
    Interpreter_push__Px(&it, p);
    CHECK(st.sp == (u16)(old.sp - 2) && am_peek(st.sp) == (u16)(old.p.e[i] >> 16) && am_peek((u16)(st.sp + 1)) == (u16)old.p.e[i], "push p writes the 32-bit product, high word at the lower address");
    st.p.e[i] = junk; st.pe.e[i] ^= 1;
    Interpreter_pop__Px(&it, p);
    CHECK(st.sp == old.sp && st.p.e[i] == old.p.e[i], "pop p restores the product and the stack pointer");
    CHECK(st.pe.e[i] == (u16)(old.p.e[i] >> 31), "pop p sets the product's extension bit to its sign");
    OUT(st); ABSMEM_OUT(); CANARY();
}
/* single registers with dedicated forms: exact round trip of the whole state */
#define PUSH_POP_EXACT(hname, pushfn, popfn, field) \
HARNESS(hname) \
{ \
    INTERP_RIG(it, st); ABSMEM_SETUP(); NONDET(u16, junk); \
    RegisterState old = st; \
    pushfn(&it); \
    CHECK(st.sp == (u16)(old.sp - 1) && am_peek(st.sp) == old.field, "push writes the register below the stack pointer"); \
    st.field = junk; \
    popfn(&it); \
    CHECK(eqv_regs(st, old), "push then pop leaves every register, and the stack pointer, as it was"); \
    OUT(st); ABSMEM_OUT(); CANARY(); \
}
PUSH_POP_EXACT(h_push_pop_r6, Interpreter_push_r6, Interpreter_pop_r6, r.e[6])
PUSH_POP_EXACT(h_push_pop_repc, Interpreter_push_repc, Interpreter_pop_repc, repc)
PUSH_POP_EXACT(h_push_pop_x0, Interpreter_push_x0, Interpreter_pop_x0, x.e[0])
PUSH_POP_EXACT(h_push_pop_x1, Interpreter_push_x1, Interpreter_pop_x1, x.e[1])
PUSH_POP_EXACT(h_push_pop_y1, Interpreter_push_y1, Interpreter_pop_y1, y.e[1])
PUSH_POP_EXACT(h_push_pop_prpage, Interpreter_push_prpage, Interpreter_pop_prpage, prpage)

/* ---- context store / restore ---- */
#define SH(k) shadow_registers.base_##k.shadow
static inline bool hidden_slots_took(const RegisterState *st, const RegisterState *old)
{
    return st->SH(0) == old->flm && st->SH(1) == old->fvl && st->SH(2) == old->fe && st->SH(3) == old->fc0 && st->SH(4) == old->fc1 && st->SH(5) == old->fv &&
           st->SH(6) == old->fn && st->SH(7) == old->fm && st->SH(8) == old->fz && st->SH(9) == old->fr &&
           st->repcs == (old->crep ? old->repcs : old->repc) && st->a1s == (old->ccnta ? old->a1s : old->a.e[1]) && st->b1s == (old->ccnta ? old->b1s : old->b.e[1]);
}
/* everything except the hidden one-way save slots (flag shadows, repcs, a1s, b1s) */
static inline bool same_but_hidden(RegisterState st, RegisterState old)
{
    old.shadow_registers = st.shadow_registers; old.repcs = st.repcs; old.a1s = st.a1s; old.b1s = st.b1s;
    return eq_RegisterState(&st, &old);
}
HARNESS(h_context_roundtrip)
{
    INTERP_RIG(it, st); NONDET(bool, via_insn); NORM_BOOL(via_insn);
    RegisterState old = st;
    if (via_insn) Interpreter_cntx_s(&it); else Interpreter_ContextStore(&it);
    CHECK(hidden_slots_took(&st, &old), "context store puts the saved values into the hidden one-way slots");
    if (via_insn) Interpreter_cntx_r(&it); else Interpreter_ContextRestore(&it);
    CHECK(same_but_hidden(st, old), "context store + restore leaves every program-visible register and every two-way bank as it was");
    CHECK(hidden_slots_took(&st, &old), "only the hidden one-way save slots keep the saved values");
    OUT(st); CANARY();
}
/* ---- bank exchange applied twice ---- */
HARNESS(h_banke_twice)
{
    INTERP_RIG(it, st); NONDET(u16, fl);
    RegisterState old = st; BankFlags f; OPV1(f) = fl & 0x3F;
    Interpreter_banke(&it, f);
    RegisterState mid = st;
    Interpreter_banke(&it, f);
    CHECK(eqv_regs(st, old), "banke applied twice is the identity");
    CHECK((fl & 0x3F) == 0 ? eqv_regs(mid, old) : 1, "banke with no flag changes nothing");
    OUT(st); OUT(mid); CANARY();
}
HARNESS(h_bankr_twice)
{
    INTERP_RIG(it, st); NONDET(u16, form); NONDET(u16, ai); NONDET(u16, pi);
    RegisterState old = st; Ar a; OPV(a) = ai & 1; Arp p; OPV(p) = pi & 3;
    for (int k = 0; k < 2; k++) {
        switch (form & 3) {
        case 0: Interpreter_bankr__(&it); break;
        case 1: Interpreter_bankr__Ar(&it, a); break;
        case 2: Interpreter_bankr__Ar_Arp(&it, a, p); break;
        default: Interpreter_bankr__Arp(&it, p); break;
        }
    }
    CHECK(eqv_regs(st, old), "bankr applied twice is the identity");
    OUT(st); CANARY();
}
/* ---- interrupt entry (in Run, after a nop) followed by return-from-interrupt ---- */
HARNESS(h_interrupt_roundtrip)
{
    INTERP_RIG(it, st); ABSMEM_SETUP(); NONDET(u16, line); NONDET(u16, cpc); NONDET(u32, vaddr); NONDET(bool, vctx); NORM_BOOL(vctx); NONDET(bool, vectored); NORM_BOOL(vectored);
#ifdef IRQ_VECTORED      /* case split of the CBMC obligation (the four cases together cover the harness) */
    ASSUME(vectored == IRQ_VECTORED);
#endif
    NATIVE_ONLY(st.rep = 0; st.lp = 0; st.bcn = 0; st.ie = 1; line %= 3; vaddr &= 0x3FFFF; st.pc &= 0x3FFF0;)
    st.cpc = cpc & 1;
    ASSUME(line < 3 && vaddr < 0x40000 && !st.rep && !st.lp && st.ie == 1 && st.pc + 1 < 0x40000);
    for (int i = 0; i < 3; i++) { it.interrupt_pending.e[i] = 0; st.ip.e[i] = 0; }
    it.vinterrupt_pending = 0; st.ipv = 0; it.vinterrupt_address = vaddr; it.vinterrupt_context_switch = vctx;
    bool ctx;
    if (vectored) { it.vinterrupt_pending = 1; st.imv = 1; ctx = vctx; }
    else { it.interrupt_pending.e[line] = 1; st.im.e[line] = 1; ctx = st.ic.e[line] != 0; }
#ifdef IRQ_CTX
    ASSUME(ctx == IRQ_CTX);
#endif
    ASSUME(am_ppeek(st.pc | ((u32)st.prpage << 18)) == 0);          /* the interrupted instruction stream: a nop at pc */
    RegisterState old = st;
    Interpreter_Run(&it, 1);
    CHECK(st.ie == 0 && st.sp == (u16)(old.sp - 2) && st.pc == (vectored ? vaddr : 0x0006u + line * 8u), "interrupt entry: interrupts off, return address pushed, pc at the vector");
    CHECK(vectored ? st.ipv == 0 : st.ip.e[line] == 0, "the pending flag is consumed");
    COND_TRUE(t);
    if (ctx) Interpreter_retic(&it, t); else Interpreter_reti(&it, t);
    CHECK(st.pc == old.pc + 1 && st.sp == old.sp && st.ie == 1, "return-from-interrupt resumes the interrupted stream (after the nop) with interrupts re-enabled");
    RegisterState want = old; want.pc = old.pc + 1;
    CHECK(ctx ? same_but_hidden(st, want) : eqv_regs(st, want), "entry + exit leaves every program-visible register and two-way bank as it was");
    OUT(st); ABSMEM_OUT(); CANARY();
}
