/* C05 harness: C binding of the disassembler (src/disassembler_c.cpp).  Only the buffer contract is within reach (DESIGN.md C05). */
#include "dc_types.h"
#include "common.h"
#include "spec_touch.h"
int verif_outcome;
const char *ghost_text; u64 ghost_text_len; u64 ghost_j;
#include "disasm_c_contracts.h"
#ifdef VERIF_REAL
#include "dc_protos.h"
#else
#include "dc_funcs.c"
#endif
/* Teakra::Disassembler::Do is string-building code outside any contract here: it returns an arbitrary text (the harness's) */
verif_string Disassembler_Do(u16 opcode, u16 expansion, verif_optional ar_arp) { (void)opcode; (void)expansion; (void)ar_arp; return (verif_string){ghost_text, ghost_text_len}; }
bool Disassembler_NeedExpansion(u16 opcode) { return (opcode & 1) != 0; }
#ifdef VERIF_CBMC
void *malloc(__CPROVER_size_t);
#endif
HARNESS(h_Disasm_Do)
{
    NONDET(u64, dstlen); NONDET(u64, tlen); NONDET(bool, give_null); NONDET(u16, op); NONDET(u16, ex); NONDET(u64, gj);
    NORM_BOOL(give_null);
#if !defined(VERIF_CBMC) && !defined(VERIF_REPLAY)
    dstlen %= 96; tlen %= 80;      /* random sampling: small buffers; a replayed counterexample keeps its sizes */
#endif
    ASSUME(dstlen < (1ull << 16) && tlen < (1ull << 16));
    REGION_HOOK();
#ifdef VERIF_CBMC
    char *text = malloc(tlen + 1); char *buf = malloc(dstlen);
    __CPROVER_assume(text != 0 && buf != 0);
#else
    char *text = malloc(tlen + 1), *bufstore = malloc(dstlen + tlen + 64); char *buf = bufstore + 16;   /* guard zones wide enough to absorb an overrun */
    for (u64 k = 0; k <= tlen; k++) text[k] = (char)('a' + (k * 7 + op) % 26);
    memset(bufstore, 0x7E, dstlen + tlen + 64);
#endif
    ghost_text = text; ghost_text_len = tlen; ghost_j = gj; verif_outcome = 0;
    char *dst = give_null ? 0 : buf;
    u64 r = Teakra_Disasm_Do(dst, dstlen, op, ex);
    NATIVE_ONLY(u64 lim = dstlen - 1 < tlen ? dstlen - 1 : tlen;
                CHECK(r == tlen && (dst == 0 || dstlen == 0 || (dst[lim] == 0 && memcmp(dst, text, lim) == 0)), "Teakra_Disasm_Do.postcondition");
                CHECK(dst == 0 || (bufstore[15] == 0x7E && buf[dstlen] == 0x7E), "nothing written outside the caller's buffer");
                verif_output("bufstore", bufstore, dstlen + tlen + 64); free(text); free(bufstore);)
    OUT(r);
    CANARY();
}
