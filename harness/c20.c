/* C20 harnesses: status/config words as bit-field views (include/teakra/impl/register.h) */
#include "proc_types.h"
#include "proc_eq.h"
#include "pseudo_spec.h"
#include "pseudo_contracts.h"
#include "common.h"
#include "spec_touch.h"
int verif_outcome;
#include "absmem.h"
#ifdef VERIF_REAL
#include "proc_protos.h"
#else
#include "proc_funcs.c"
#endif
#define eqv_regs eqv_regs3
#include "interp_rig.h"

HARNESS(h_Get_cfgi) { INTERP_RIG(it, st); u16 r = RegisterState_Get__cfgi(&st); NATIVE_ONLY(CHECK(r == spec_get_cfgi(&st), "RegisterState_Get__cfgi.postcondition");) OUT(r); CANARY(); }
HARNESS(h_Set_cfgi) { INTERP_RIG(it, st); NONDET(u16, v); NATIVE_ONLY(RegisterState old = st;) RegisterState_Set__cfgi(&st, v); NATIVE_ONLY(CHECK(eqv_regs3(st, spec_set_cfgi(old, v)) && wf_regs(&st), "RegisterState_Set__cfgi.postcondition");) OUT(st); CANARY(); }
HARNESS(h_rw_cfgi) { INTERP_RIG(it, st); NONDET(u16, v); u16 before = RegisterState_Get__cfgi(&st); RegisterState_Set__cfgi(&st, v); u16 after = RegisterState_Get__cfgi(&st);
    CHECK((after & spec_wmask_cfgi()) == (v & spec_wmask_cfgi()), "cfgi: writing then reading returns the written value on all writable bits");
    CHECK((after & spec_romask_cfgi()) == (before & spec_romask_cfgi()), "cfgi: read-only bits read as before");
    CHECK((after & (u16)~(spec_wmask_cfgi() | spec_romask_cfgi() | 0u)) == 0, "cfgi: undefined bits read as zero"); OUT(after); CANARY(); }
HARNESS(h_Get_cfgj) { INTERP_RIG(it, st); u16 r = RegisterState_Get__cfgj(&st); NATIVE_ONLY(CHECK(r == spec_get_cfgj(&st), "RegisterState_Get__cfgj.postcondition");) OUT(r); CANARY(); }
HARNESS(h_Set_cfgj) { INTERP_RIG(it, st); NONDET(u16, v); NATIVE_ONLY(RegisterState old = st;) RegisterState_Set__cfgj(&st, v); NATIVE_ONLY(CHECK(eqv_regs3(st, spec_set_cfgj(old, v)) && wf_regs(&st), "RegisterState_Set__cfgj.postcondition");) OUT(st); CANARY(); }
HARNESS(h_rw_cfgj) { INTERP_RIG(it, st); NONDET(u16, v); u16 before = RegisterState_Get__cfgj(&st); RegisterState_Set__cfgj(&st, v); u16 after = RegisterState_Get__cfgj(&st);
    CHECK((after & spec_wmask_cfgj()) == (v & spec_wmask_cfgj()), "cfgj: writing then reading returns the written value on all writable bits");
    CHECK((after & spec_romask_cfgj()) == (before & spec_romask_cfgj()), "cfgj: read-only bits read as before");
    CHECK((after & (u16)~(spec_wmask_cfgj() | spec_romask_cfgj() | 0u)) == 0, "cfgj: undefined bits read as zero"); OUT(after); CANARY(); }
HARNESS(h_Get_stt0) { INTERP_RIG(it, st); u16 r = RegisterState_Get__stt0(&st); NATIVE_ONLY(CHECK(r == spec_get_stt0(&st), "RegisterState_Get__stt0.postcondition");) OUT(r); CANARY(); }
HARNESS(h_Set_stt0) { INTERP_RIG(it, st); NONDET(u16, v); NATIVE_ONLY(RegisterState old = st;) RegisterState_Set__stt0(&st, v); NATIVE_ONLY(CHECK(eqv_regs3(st, spec_set_stt0(old, v)) && wf_regs(&st), "RegisterState_Set__stt0.postcondition");) OUT(st); CANARY(); }
HARNESS(h_rw_stt0) { INTERP_RIG(it, st); NONDET(u16, v); u16 before = RegisterState_Get__stt0(&st); RegisterState_Set__stt0(&st, v); u16 after = RegisterState_Get__stt0(&st);
    CHECK((after & spec_wmask_stt0()) == (v & spec_wmask_stt0()), "stt0: writing then reading returns the written value on all writable bits");
    CHECK((after & spec_romask_stt0()) == (before & spec_romask_stt0()), "stt0: read-only bits read as before");
    CHECK((after & (u16)~(spec_wmask_stt0() | spec_romask_stt0() | 0u)) == 0, "stt0: undefined bits read as zero"); OUT(after); CANARY(); }
HARNESS(h_Get_stt1) { INTERP_RIG(it, st); u16 r = RegisterState_Get__stt1(&st); NATIVE_ONLY(CHECK(r == spec_get_stt1(&st), "RegisterState_Get__stt1.postcondition");) OUT(r); CANARY(); }
HARNESS(h_Set_stt1) { INTERP_RIG(it, st); NONDET(u16, v); NATIVE_ONLY(RegisterState old = st;) RegisterState_Set__stt1(&st, v); NATIVE_ONLY(CHECK(eqv_regs3(st, spec_set_stt1(old, v)) && wf_regs(&st), "RegisterState_Set__stt1.postcondition");) OUT(st); CANARY(); }
HARNESS(h_rw_stt1) { INTERP_RIG(it, st); NONDET(u16, v); u16 before = RegisterState_Get__stt1(&st); RegisterState_Set__stt1(&st, v); u16 after = RegisterState_Get__stt1(&st);
    CHECK((after & spec_wmask_stt1()) == (v & spec_wmask_stt1()), "stt1: writing then reading returns the written value on all writable bits");
    CHECK((after & spec_romask_stt1()) == (before & spec_romask_stt1()), "stt1: read-only bits read as before");
    CHECK((after & (u16)~(spec_wmask_stt1() | spec_romask_stt1() | 0u)) == 0, "stt1: undefined bits read as zero"); OUT(after); CANARY(); }
HARNESS(h_Get_stt2) { INTERP_RIG(it, st); u16 r = RegisterState_Get__stt2(&st); NATIVE_ONLY(CHECK(r == spec_get_stt2(&st), "RegisterState_Get__stt2.postcondition");) OUT(r); CANARY(); }
HARNESS(h_Set_stt2) { INTERP_RIG(it, st); NONDET(u16, v); NATIVE_ONLY(RegisterState old = st;) RegisterState_Set__stt2(&st, v); NATIVE_ONLY(CHECK(eqv_regs3(st, spec_set_stt2(old, v)) && wf_regs(&st), "RegisterState_Set__stt2.postcondition");) OUT(st); CANARY(); }
HARNESS(h_rw_stt2) { INTERP_RIG(it, st); NONDET(u16, v); u16 before = RegisterState_Get__stt2(&st); RegisterState_Set__stt2(&st, v); u16 after = RegisterState_Get__stt2(&st);
    CHECK((after & spec_wmask_stt2()) == (v & spec_wmask_stt2()), "stt2: writing then reading returns the written value on all writable bits");
    { u16 rom = (v & 0x8000u) ? (u16)(spec_romask_stt2() & ~0x7000u) : spec_romask_stt2();  /* writing 1 to bit 15 clears lp and, with it, the nesting count */
    CHECK((after & rom) == (before & rom), "stt2: read-only bits read as before"); }
    CHECK((after & (u16)~(spec_wmask_stt2() | spec_romask_stt2() | 0x8000u)) == 0, "stt2: undefined bits read as zero"); OUT(after); CANARY(); }
HARNESS(h_Get_mod0) { INTERP_RIG(it, st); u16 r = RegisterState_Get__mod0(&st); NATIVE_ONLY(CHECK(r == spec_get_mod0(&st), "RegisterState_Get__mod0.postcondition");) OUT(r); CANARY(); }
HARNESS(h_Set_mod0) { INTERP_RIG(it, st); NONDET(u16, v); NATIVE_ONLY(RegisterState old = st;) RegisterState_Set__mod0(&st, v); NATIVE_ONLY(CHECK(eqv_regs3(st, spec_set_mod0(old, v)) && wf_regs(&st), "RegisterState_Set__mod0.postcondition");) OUT(st); CANARY(); }
HARNESS(h_rw_mod0) { INTERP_RIG(it, st); NONDET(u16, v); u16 before = RegisterState_Get__mod0(&st); RegisterState_Set__mod0(&st, v); u16 after = RegisterState_Get__mod0(&st);
    CHECK((after & spec_wmask_mod0()) == (v & spec_wmask_mod0()), "mod0: writing then reading returns the written value on all writable bits");
    CHECK((after & spec_romask_mod0()) == (before & spec_romask_mod0()), "mod0: read-only bits read as before");
    CHECK((after & (u16)~(spec_wmask_mod0() | spec_romask_mod0() | 0u)) == 0, "mod0: undefined bits read as zero"); OUT(after); CANARY(); }
HARNESS(h_Get_mod1) { INTERP_RIG(it, st); u16 r = RegisterState_Get__mod1(&st); NATIVE_ONLY(CHECK(r == spec_get_mod1(&st), "RegisterState_Get__mod1.postcondition");) OUT(r); CANARY(); }
HARNESS(h_Set_mod1) { INTERP_RIG(it, st); NONDET(u16, v); NATIVE_ONLY(RegisterState old = st;) RegisterState_Set__mod1(&st, v); NATIVE_ONLY(CHECK(eqv_regs3(st, spec_set_mod1(old, v)) && wf_regs(&st), "RegisterState_Set__mod1.postcondition");) OUT(st); CANARY(); }
HARNESS(h_rw_mod1) { INTERP_RIG(it, st); NONDET(u16, v); u16 before = RegisterState_Get__mod1(&st); RegisterState_Set__mod1(&st, v); u16 after = RegisterState_Get__mod1(&st);
    CHECK((after & spec_wmask_mod1()) == (v & spec_wmask_mod1()), "mod1: writing then reading returns the written value on all writable bits");
    CHECK((after & spec_romask_mod1()) == (before & spec_romask_mod1()), "mod1: read-only bits read as before");
    CHECK((after & (u16)~(spec_wmask_mod1() | spec_romask_mod1() | 0u)) == 0, "mod1: undefined bits read as zero"); OUT(after); CANARY(); }
HARNESS(h_Get_mod2) { INTERP_RIG(it, st); u16 r = RegisterState_Get__mod2(&st); NATIVE_ONLY(CHECK(r == spec_get_mod2(&st), "RegisterState_Get__mod2.postcondition");) OUT(r); CANARY(); }
HARNESS(h_Set_mod2) { INTERP_RIG(it, st); NONDET(u16, v); NATIVE_ONLY(RegisterState old = st;) RegisterState_Set__mod2(&st, v); NATIVE_ONLY(CHECK(eqv_regs3(st, spec_set_mod2(old, v)) && wf_regs(&st), "RegisterState_Set__mod2.postcondition");) OUT(st); CANARY(); }
HARNESS(h_rw_mod2) { INTERP_RIG(it, st); NONDET(u16, v); u16 before = RegisterState_Get__mod2(&st); RegisterState_Set__mod2(&st, v); u16 after = RegisterState_Get__mod2(&st);
    CHECK((after & spec_wmask_mod2()) == (v & spec_wmask_mod2()), "mod2: writing then reading returns the written value on all writable bits");
    CHECK((after & spec_romask_mod2()) == (before & spec_romask_mod2()), "mod2: read-only bits read as before");
    CHECK((after & (u16)~(spec_wmask_mod2() | spec_romask_mod2() | 0u)) == 0, "mod2: undefined bits read as zero"); OUT(after); CANARY(); }
HARNESS(h_Get_mod3) { INTERP_RIG(it, st); u16 r = RegisterState_Get__mod3(&st); NATIVE_ONLY(CHECK(r == spec_get_mod3(&st), "RegisterState_Get__mod3.postcondition");) OUT(r); CANARY(); }
HARNESS(h_Set_mod3) { INTERP_RIG(it, st); NONDET(u16, v); NATIVE_ONLY(RegisterState old = st;) RegisterState_Set__mod3(&st, v); NATIVE_ONLY(CHECK(eqv_regs3(st, spec_set_mod3(old, v)) && wf_regs(&st), "RegisterState_Set__mod3.postcondition");) OUT(st); CANARY(); }
HARNESS(h_rw_mod3) { INTERP_RIG(it, st); NONDET(u16, v); u16 before = RegisterState_Get__mod3(&st); RegisterState_Set__mod3(&st, v); u16 after = RegisterState_Get__mod3(&st);
    CHECK((after & spec_wmask_mod3()) == (v & spec_wmask_mod3()), "mod3: writing then reading returns the written value on all writable bits");
    CHECK((after & spec_romask_mod3()) == (before & spec_romask_mod3()), "mod3: read-only bits read as before");
    CHECK((after & (u16)~(spec_wmask_mod3() | spec_romask_mod3() | 0u)) == 0, "mod3: undefined bits read as zero"); OUT(after); CANARY(); }
HARNESS(h_Get_st0) { INTERP_RIG(it, st); u16 r = RegisterState_Get__st0(&st); NATIVE_ONLY(CHECK(r == spec_get_st0(&st), "RegisterState_Get__st0.postcondition");) OUT(r); CANARY(); }
HARNESS(h_Set_st0) { INTERP_RIG(it, st); NONDET(u16, v); NATIVE_ONLY(RegisterState old = st;) RegisterState_Set__st0(&st, v); NATIVE_ONLY(CHECK(eqv_regs3(st, spec_set_st0(old, v)) && wf_regs(&st), "RegisterState_Set__st0.postcondition");) OUT(st); CANARY(); }
HARNESS(h_rw_st0) { INTERP_RIG(it, st); NONDET(u16, v); u16 before = RegisterState_Get__st0(&st); RegisterState_Set__st0(&st, v); u16 after = RegisterState_Get__st0(&st);
    CHECK((after & spec_wmask_st0()) == (v & spec_wmask_st0()), "st0: writing then reading returns the written value on all writable bits");
    CHECK((after & spec_romask_st0()) == (before & spec_romask_st0()), "st0: read-only bits read as before");
    CHECK((after & (u16)~(spec_wmask_st0() | spec_romask_st0() | 0u)) == 0, "st0: undefined bits read as zero"); OUT(after); CANARY(); }
HARNESS(h_Get_st1) { INTERP_RIG(it, st); u16 r = RegisterState_Get__st1(&st); NATIVE_ONLY(CHECK(r == spec_get_st1(&st), "RegisterState_Get__st1.postcondition");) OUT(r); CANARY(); }
HARNESS(h_Set_st1) { INTERP_RIG(it, st); NONDET(u16, v); NATIVE_ONLY(RegisterState old = st;) RegisterState_Set__st1(&st, v); NATIVE_ONLY(CHECK(eqv_regs3(st, spec_set_st1(old, v)) && wf_regs(&st), "RegisterState_Set__st1.postcondition");) OUT(st); CANARY(); }
HARNESS(h_rw_st1) { INTERP_RIG(it, st); NONDET(u16, v); u16 before = RegisterState_Get__st1(&st); RegisterState_Set__st1(&st, v); u16 after = RegisterState_Get__st1(&st);
    CHECK((after & spec_wmask_st1()) == (v & spec_wmask_st1()), "st1: writing then reading returns the written value on all writable bits");
    CHECK((after & spec_romask_st1()) == (before & spec_romask_st1()), "st1: read-only bits read as before");
    CHECK((after & (u16)~(spec_wmask_st1() | spec_romask_st1() | 0u)) == 0, "st1: undefined bits read as zero"); OUT(after); CANARY(); }
HARNESS(h_Get_st2) { INTERP_RIG(it, st); u16 r = RegisterState_Get__st2(&st); NATIVE_ONLY(CHECK(r == spec_get_st2(&st), "RegisterState_Get__st2.postcondition");) OUT(r); CANARY(); }
HARNESS(h_Set_st2) { INTERP_RIG(it, st); NONDET(u16, v); NATIVE_ONLY(RegisterState old = st;) RegisterState_Set__st2(&st, v); NATIVE_ONLY(CHECK(eqv_regs3(st, spec_set_st2(old, v)) && wf_regs(&st), "RegisterState_Set__st2.postcondition");) OUT(st); CANARY(); }
HARNESS(h_rw_st2) { INTERP_RIG(it, st); NONDET(u16, v); u16 before = RegisterState_Get__st2(&st); RegisterState_Set__st2(&st, v); u16 after = RegisterState_Get__st2(&st);
    CHECK((after & spec_wmask_st2()) == (v & spec_wmask_st2()), "st2: writing then reading returns the written value on all writable bits");
    CHECK((after & spec_romask_st2()) == (before & spec_romask_st2()), "st2: read-only bits read as before");
    CHECK((after & (u16)~(spec_wmask_st2() | spec_romask_st2() | 0u)) == 0, "st2: undefined bits read as zero"); OUT(after); CANARY(); }
HARNESS(h_Get_ar0) { INTERP_RIG(it, st); u16 r = RegisterState_Get__ar0(&st); NATIVE_ONLY(CHECK(r == spec_get_ar0(&st), "RegisterState_Get__ar0.postcondition");) OUT(r); CANARY(); }
HARNESS(h_Set_ar0) { INTERP_RIG(it, st); NONDET(u16, v); NATIVE_ONLY(RegisterState old = st;) RegisterState_Set__ar0(&st, v); NATIVE_ONLY(CHECK(eqv_regs3(st, spec_set_ar0(old, v)) && wf_regs(&st), "RegisterState_Set__ar0.postcondition");) OUT(st); CANARY(); }
HARNESS(h_rw_ar0) { INTERP_RIG(it, st); NONDET(u16, v); u16 before = RegisterState_Get__ar0(&st); RegisterState_Set__ar0(&st, v); u16 after = RegisterState_Get__ar0(&st);
    CHECK((after & spec_wmask_ar0()) == (v & spec_wmask_ar0()), "ar0: writing then reading returns the written value on all writable bits");
    CHECK((after & spec_romask_ar0()) == (before & spec_romask_ar0()), "ar0: read-only bits read as before");
    CHECK((after & (u16)~(spec_wmask_ar0() | spec_romask_ar0() | 0u)) == 0, "ar0: undefined bits read as zero"); OUT(after); CANARY(); }
HARNESS(h_Get_ar1) { INTERP_RIG(it, st); u16 r = RegisterState_Get__ar1(&st); NATIVE_ONLY(CHECK(r == spec_get_ar1(&st), "RegisterState_Get__ar1.postcondition");) OUT(r); CANARY(); }
HARNESS(h_Set_ar1) { INTERP_RIG(it, st); NONDET(u16, v); NATIVE_ONLY(RegisterState old = st;) RegisterState_Set__ar1(&st, v); NATIVE_ONLY(CHECK(eqv_regs3(st, spec_set_ar1(old, v)) && wf_regs(&st), "RegisterState_Set__ar1.postcondition");) OUT(st); CANARY(); }
HARNESS(h_rw_ar1) { INTERP_RIG(it, st); NONDET(u16, v); u16 before = RegisterState_Get__ar1(&st); RegisterState_Set__ar1(&st, v); u16 after = RegisterState_Get__ar1(&st);
    CHECK((after & spec_wmask_ar1()) == (v & spec_wmask_ar1()), "ar1: writing then reading returns the written value on all writable bits");
    CHECK((after & spec_romask_ar1()) == (before & spec_romask_ar1()), "ar1: read-only bits read as before");
    CHECK((after & (u16)~(spec_wmask_ar1() | spec_romask_ar1() | 0u)) == 0, "ar1: undefined bits read as zero"); OUT(after); CANARY(); }
HARNESS(h_Get_arp0) { INTERP_RIG(it, st); u16 r = RegisterState_Get__arp0(&st); NATIVE_ONLY(CHECK(r == spec_get_arp0(&st), "RegisterState_Get__arp0.postcondition");) OUT(r); CANARY(); }
HARNESS(h_Set_arp0) { INTERP_RIG(it, st); NONDET(u16, v); NATIVE_ONLY(RegisterState old = st;) RegisterState_Set__arp0(&st, v); NATIVE_ONLY(CHECK(eqv_regs3(st, spec_set_arp0(old, v)) && wf_regs(&st), "RegisterState_Set__arp0.postcondition");) OUT(st); CANARY(); }
HARNESS(h_rw_arp0) { INTERP_RIG(it, st); NONDET(u16, v); u16 before = RegisterState_Get__arp0(&st); RegisterState_Set__arp0(&st, v); u16 after = RegisterState_Get__arp0(&st);
    CHECK((after & spec_wmask_arp0()) == (v & spec_wmask_arp0()), "arp0: writing then reading returns the written value on all writable bits");
    CHECK((after & spec_romask_arp0()) == (before & spec_romask_arp0()), "arp0: read-only bits read as before");
    CHECK((after & (u16)~(spec_wmask_arp0() | spec_romask_arp0() | 0u)) == 0, "arp0: undefined bits read as zero"); OUT(after); CANARY(); }
HARNESS(h_Get_arp1) { INTERP_RIG(it, st); u16 r = RegisterState_Get__arp1(&st); NATIVE_ONLY(CHECK(r == spec_get_arp1(&st), "RegisterState_Get__arp1.postcondition");) OUT(r); CANARY(); }
HARNESS(h_Set_arp1) { INTERP_RIG(it, st); NONDET(u16, v); NATIVE_ONLY(RegisterState old = st;) RegisterState_Set__arp1(&st, v); NATIVE_ONLY(CHECK(eqv_regs3(st, spec_set_arp1(old, v)) && wf_regs(&st), "RegisterState_Set__arp1.postcondition");) OUT(st); CANARY(); }
HARNESS(h_rw_arp1) { INTERP_RIG(it, st); NONDET(u16, v); u16 before = RegisterState_Get__arp1(&st); RegisterState_Set__arp1(&st, v); u16 after = RegisterState_Get__arp1(&st);
    CHECK((after & spec_wmask_arp1()) == (v & spec_wmask_arp1()), "arp1: writing then reading returns the written value on all writable bits");
    CHECK((after & spec_romask_arp1()) == (before & spec_romask_arp1()), "arp1: read-only bits read as before");
    CHECK((after & (u16)~(spec_wmask_arp1() | spec_romask_arp1() | 0u)) == 0, "arp1: undefined bits read as zero"); OUT(after); CANARY(); }
HARNESS(h_Get_arp2) { INTERP_RIG(it, st); u16 r = RegisterState_Get__arp2(&st); NATIVE_ONLY(CHECK(r == spec_get_arp2(&st), "RegisterState_Get__arp2.postcondition");) OUT(r); CANARY(); }
HARNESS(h_Set_arp2) { INTERP_RIG(it, st); NONDET(u16, v); NATIVE_ONLY(RegisterState old = st;) RegisterState_Set__arp2(&st, v); NATIVE_ONLY(CHECK(eqv_regs3(st, spec_set_arp2(old, v)) && wf_regs(&st), "RegisterState_Set__arp2.postcondition");) OUT(st); CANARY(); }
HARNESS(h_rw_arp2) { INTERP_RIG(it, st); NONDET(u16, v); u16 before = RegisterState_Get__arp2(&st); RegisterState_Set__arp2(&st, v); u16 after = RegisterState_Get__arp2(&st);
    CHECK((after & spec_wmask_arp2()) == (v & spec_wmask_arp2()), "arp2: writing then reading returns the written value on all writable bits");
    CHECK((after & spec_romask_arp2()) == (before & spec_romask_arp2()), "arp2: read-only bits read as before");
    CHECK((after & (u16)~(spec_wmask_arp2() | spec_romask_arp2() | 0u)) == 0, "arp2: undefined bits read as zero"); OUT(after); CANARY(); }
HARNESS(h_Get_arp3) { INTERP_RIG(it, st); u16 r = RegisterState_Get__arp3(&st); NATIVE_ONLY(CHECK(r == spec_get_arp3(&st), "RegisterState_Get__arp3.postcondition");) OUT(r); CANARY(); }
HARNESS(h_Set_arp3) { INTERP_RIG(it, st); NONDET(u16, v); NATIVE_ONLY(RegisterState old = st;) RegisterState_Set__arp3(&st, v); NATIVE_ONLY(CHECK(eqv_regs3(st, spec_set_arp3(old, v)) && wf_regs(&st), "RegisterState_Set__arp3.postcondition");) OUT(st); CANARY(); }
HARNESS(h_rw_arp3) { INTERP_RIG(it, st); NONDET(u16, v); u16 before = RegisterState_Get__arp3(&st); RegisterState_Set__arp3(&st, v); u16 after = RegisterState_Get__arp3(&st);
    CHECK((after & spec_wmask_arp3()) == (v & spec_wmask_arp3()), "arp3: writing then reading returns the written value on all writable bits");
    CHECK((after & spec_romask_arp3()) == (before & spec_romask_arp3()), "arp3: read-only bits read as before");
    CHECK((after & (u16)~(spec_wmask_arp3() | spec_romask_arp3() | 0u)) == 0, "arp3: undefined bits read as zero"); OUT(after); CANARY(); }

/* a field visible in both the TeakLite-compatible word (st0..st2) and the Teak-native word reads the same in both; the TeakLite limit
 * flag is the OR of the two Teak limit flags.  Through the Get contracts, for every well-formed state. */
#define BIT(w, n) (((w) >> (n)) & 1)
HARNESS(h_views_agree)
{
    INTERP_RIG(it, st);
    u16 st0 = RegisterState_Get__st0(&st), st1 = RegisterState_Get__st1(&st), st2 = RegisterState_Get__st2(&st);
    u16 stt0 = RegisterState_Get__stt0(&st), stt1 = RegisterState_Get__stt1(&st), stt2 = RegisterState_Get__stt2(&st);
    u16 mod0 = RegisterState_Get__mod0(&st), mod1 = RegisterState_Get__mod1(&st), mod2 = RegisterState_Get__mod2(&st), mod3 = RegisterState_Get__mod3(&st);
    CHECK(BIT(st0, 0) == BIT(mod0, 0) && BIT(st0, 1) == BIT(mod3, 7) && BIT(st0, 2) == BIT(mod3, 8) && BIT(st0, 3) == BIT(mod3, 9) && BIT(st0, 4) == BIT(stt1, 4), "st0 sat/ie/im0/im1/fr views");
    CHECK(BIT(st0, 5) == (BIT(stt0, 0) | BIT(stt0, 1)), "the TeakLite limit flag is the OR of the two Teak limit flags");
    CHECK(BIT(st0, 6) == BIT(stt0, 2) && BIT(st0, 7) == BIT(stt0, 3) && BIT(st0, 8) == BIT(stt0, 4) && BIT(st0, 9) == BIT(stt0, 5) && BIT(st0, 10) == BIT(stt0, 6) && BIT(st0, 11) == BIT(stt0, 7), "st0 flag views");
    CHECK((st1 & 0xFF) == (mod1 & 0xFF) && ((st1 >> 10) & 3) == ((mod0 >> 10) & 3), "st1 page/ps views");
    CHECK((st2 & 0x3F) == (mod2 & 0x3F) && BIT(st2, 6) == BIT(mod3, 10) && BIT(st2, 7) == BIT(mod0, 7) && BIT(st2, 8) == BIT(mod0, 8) && BIT(st2, 9) == BIT(mod0, 9), "st2 m/im2/s/ou views");
    CHECK(BIT(st2, 10) == BIT(stt1, 10) && BIT(st2, 11) == BIT(stt1, 11) && BIT(st2, 13) == BIT(stt2, 2) && BIT(st2, 14) == BIT(stt2, 0) && BIT(st2, 15) == BIT(stt2, 1), "st2 iu/ip views");
    OUT(st0); OUT(st1); OUT(st2); CANARY();
}
/* writing through one view is seen through the other: st0 := v, then the Teak-native words show it */
HARNESS(h_views_write_through)
{
    INTERP_RIG(it, st); NONDET(u16, v);
    RegisterState_Set__st0(&st, v);
    u16 stt0 = RegisterState_Get__stt0(&st), mod0 = RegisterState_Get__mod0(&st), mod3 = RegisterState_Get__mod3(&st);
    CHECK(BIT(mod0, 0) == BIT(v, 0) && BIT(mod3, 7) == BIT(v, 1) && BIT(mod3, 8) == BIT(v, 2) && BIT(mod3, 9) == BIT(v, 3), "st0 write seen in mod0/mod3");
    CHECK(BIT(stt0, 0) == BIT(v, 5) && BIT(stt0, 1) == BIT(v, 5) && BIT(stt0, 2) == BIT(v, 6) && BIT(stt0, 7) == BIT(v, 11), "st0 write seen in stt0 (both limit flags follow the TeakLite bit)");
    OUT(stt0); CANARY();
}
/* special slots */
HARNESS(h_special_slots)
{
    INTERP_RIG(it, st); NONDET(u16, v);
    RegisterState old = st;
    RegisterState_Set__stt2(&st, v);
    CHECK((BIT(v, 15) ? (st.lp == 0 && st.bcn == 0) : (st.lp == old.lp && st.bcn == old.bcn)), "stt2 bit 15 is write-one-to-clear for lp (and clears bcn)");
    RegisterState s2 = old;
    RegisterState_Set__st0(&s2, v);
    CHECK(is_sx40(s2.a.e[0]) && ((s2.a.e[0] >> 32) & 0xF) == ((v >> 12) & 0xF) && (u32)s2.a.e[0] == (u32)old.a.e[0], "st0 bits 12-15 are the sign-extending extension nibble of a0; its low 32 bits are untouched");
    OUT(st.lp); OUT(s2.a.e[0]); CANARY();
}
/* cross-check of the layout oracle against the independent symbol strings of src/test_verifier/main.cpp (defined bits per word) */
HARNESS(h_layout_strings)
{
    verif_outcome = 0;
#define STR_CHECK(w, sym) CHECK(spec_wmask_##w() == spec_string_mask(sym), #w ": writable bits match the test_verifier string " sym)
    STR_CHECK(cfgi, "mmmmmmmmmsssssss"); STR_CHECK(cfgj, "mmmmmmmmmsssssss"); STR_CHECK(stt0, "####C###ZMNVCELL"); STR_CHECK(stt1, "QP#########R####");
    STR_CHECK(mod0, "#QQ#PPooSYY###SS"); STR_CHECK(mod2, "7654321m7654321M");
    STR_CHECK(ar0, "RRRRRRoosssoosss"); STR_CHECK(ar1, "RRRRRRoosssoosss"); STR_CHECK(arp0, "#RR#RRjjjjjiiiii"); STR_CHECK(arp1, "#RR#RRjjjjjiiiii"); STR_CHECK(arp2, "#RR#RRjjjjjiiiii"); STR_CHECK(arp3, "#RR#RRjjjjjiiiii");
    CANARY();
}

