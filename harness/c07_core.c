/* C07 harnesses, processor-core half (src/interpreter.h: the latch + priority scan + entry sequence of Interpreter::Run, SignalInterrupt,
 * SignalVectoredInterrupt).  Stated from the property: a latched request causes entry at the first instruction boundary where the global and
 * the line enable are set and no single-instruction repeat is running; once per request; int0 > int1 > int2 > vectored; the address of the
 * next unexecuted instruction on the stack; global enable cleared; context store iff configured; masked / disabled requests stay latched and
 * change nothing else.  Loop-free over a fully symbolic well-formed register state (complete). */
#ifdef VERIF_CBMC
/* Run's dispatch under CBMC: the fetched instruction is constrained to `nop` (word 0x0000) and executes as such */
#define VERIF_DECODER_CALL(d, self, op, ex) ((void)0)
#endif
#include "proc_types.h"
#include "proc_eq.h"
#include "regs_spec.h"
#include "common.h"
#include "spec_touch.h"
int verif_outcome;
#include "absmem.h"
#ifdef VERIF_REAL
#include "proc_protos.h"
#else
#include "proc_funcs.c"
#endif
static inline bool eqv_regs(RegisterState a, RegisterState b) { return eq_RegisterState(&a, &b); }
#include "interp_rig.h"

#define IRQ_RIG() INTERP_RIG(it, st); ABSMEM_SETUP(); NONDET(u16, cpc); NONDET(u32, vaddr); NONDET(bool, vctx); NORM_BOOL(vctx); NONDET_ARR(bool, pend, 3); NONDET(bool, vpend); NORM_BOOL(vpend); \
    NATIVE_ONLY(st.lp = 0; st.bcn = 0; vaddr &= 0x3FFFF; st.pc &= 0x3FFF0; st.prpage = 0;) \
    st.cpc = cpc & 1; \
    ASSUME(vaddr < 0x40000 && !st.lp && st.prpage == 0 && st.pc + 1 < 0x40000); \
    for (int i = 0; i < 3; i++) { NORM_BOOL(pend[i]); it.interrupt_pending.e[i] = pend[i]; } \
    it.vinterrupt_pending = vpend; it.vinterrupt_address = vaddr; it.vinterrupt_context_switch = vctx

/* the line the statement says must be entered from state `old` with the latches `pend`/`vpend` arriving: 0..2, 3 = vectored, -1 = none */
static inline int spec_irq_line(const RegisterState *old, const bool *pend, bool vpend, bool rep_after)
{
    if (!old->ie || rep_after) return -1;
    for (int i = 0; i < 3; i++) if (old->im.e[i] && (old->ip.e[i] || pend[i])) return i;
    if (old->imv && (old->ipv || vpend)) return 3;
    return -1;
}

/* one instruction boundary, everything symbolic */
HARNESS(h_irq_dispatch)
{
    IRQ_RIG();
    ASSUME(am_ppeek(st.pc) == 0);                                   /* the instruction at pc: a nop */
    RegisterState old = st;
    Interpreter_Run(&it, 1);
    bool rep_after = old.rep && old.repc != 0;                      /* a single-instruction repeat still running after this execution */
    int line = spec_irq_line(&old, pend, vpend, rep_after);
    u32 next = rep_after ? old.pc : old.pc + 1;                     /* the next unexecuted instruction */
    RegisterState want = old; want.pc = next;
    if (old.rep) { if (old.repc == 0) want.rep = 0; else want.repc = (u16)(old.repc - 1); }
    for (int i = 0; i < 3; i++) want.ip.e[i] = (u16)(old.ip.e[i] | pend[i]);
    want.ipv = (u16)(old.ipv | vpend);
    CHECK(!it.interrupt_pending.e[0] && !it.interrupt_pending.e[1] && !it.interrupt_pending.e[2] && !it.vinterrupt_pending, "every latch set by the controller is moved into ip/ipv exactly once (latches clear after the cycle)");
    if (line < 0) {
        CHECK(eqv_regs(st, want), "no entry: a request that is masked, or arrives with interrupts disabled or during a repeat, stays latched in ip/ipv and changes nothing else");
    } else {
        bool ctx = line < 3 ? old.ic.e[line] != 0 : vctx;
        if (line < 3) want.ip.e[line] = 0; else want.ipv = 0;
        want.ie = 0; want.sp = (u16)(old.sp - 2); want.pc = line < 3 ? 0x0006u + (u32)line * 8u : vaddr;
        CHECK(st.pc == want.pc && st.ie == 0 && st.sp == want.sp, "entry: highest-priority enabled pending line (int0 > int1 > int2 > vectored), pc at its vector, global enable cleared, two words pushed");
        u16 lo = (u16)(next & 0xFFFF), hi = (u16)(next >> 16);
        CHECK(old.cpc == 1 ? (am_peek((u16)(old.sp - 1)) == hi && am_peek((u16)(old.sp - 2)) == lo) : (am_peek((u16)(old.sp - 1)) == lo && am_peek((u16)(old.sp - 2)) == hi),
              "the address of the next unexecuted instruction is on the stack, in the word order cpc selects");
        if (ctx) { Interpreter it2 = it; it2.regs = &want; Interpreter_ContextStore(&it2); }
        CHECK(eqv_regs(st, want), "entry consumes exactly the entered line's pending flag; other requests stay latched; context store iff configured for the line; nothing else changes");
    }
    OUT(st); ABSMEM_OUT(); CANARY();
}

/* once per latched request: after an entry, with the handler's first instruction a nop and interrupts re-enabled, the same request does not enter again */
HARNESS(h_irq_once)
{
    IRQ_RIG();
    ASSUME(am_ppeek(st.pc) == 0 && !st.rep);
    RegisterState old = st;
    int line = spec_irq_line(&old, pend, vpend, 0);
    ASSUME(line >= 0);
    Interpreter_Run(&it, 1);
    u32 vec = line < 3 ? 0x0006u + (u32)line * 8u : vaddr;
    CHECK(st.pc == vec, "first boundary: the request is entered");
    ASSUME(vec + 1 < 0x40000 && am_ppeek(vec) == 0);              /* the handler starts with a nop */
    st.ie = 1;                                                      /* as the handler (or its reti) would */
    u16 sp1 = st.sp;
    Interpreter_Run(&it, 1);
    CHECK(line < 3 ? st.ip.e[line] == 0 : st.ipv == 0, "the consumed request is not pending again");
    CHECK(!(st.pc == vec && st.sp == (u16)(sp1 - 2)), "no second entry for a request that was latched once");
    CHECK(st.pc == vec + 1 ? st.sp == sp1 : (st.sp == (u16)(sp1 - 2) && st.ie == 0), "the second boundary either continues the handler or enters a different pending line");
    OUT(st); ABSMEM_OUT(); CANARY();
}

/* the controller-facing entry points set exactly their latch */
HARNESS(h_signal)
{
    INTERP_RIG(it, st); NONDET(u32, i); NONDET(u32, addr); NONDET(bool, cs); NORM_BOOL(cs); NONDET(bool, vec); NORM_BOOL(vec);
    NONDET_ARR(bool, pend, 3); NONDET(bool, vpend); NORM_BOOL(vpend); NONDET(u32, va0); NONDET(bool, vc0); NORM_BOOL(vc0); NONDET(bool, idle0); NORM_BOOL(idle0);
    NATIVE_ONLY(i %= 3;) ASSUME(i < 3);
    for (int k = 0; k < 3; k++) { NORM_BOOL(pend[k]); it.interrupt_pending.e[k] = pend[k]; }
    it.vinterrupt_pending = vpend; it.vinterrupt_address = va0; it.vinterrupt_context_switch = vc0; it.idle = idle0;
    RegisterState old = st;
    if (vec) Interpreter_SignalVectoredInterrupt(&it, addr, cs); else Interpreter_SignalInterrupt(&it, i);
    CHECK(eqv_regs(st, old) && it.idle == idle0, "signalling an interrupt touches no register: it is taken at an instruction boundary");
    for (int k = 0; k < 3; k++) CHECK(it.interrupt_pending.e[k] == ((!vec && (u32)k == i) ? 1 : pend[k]), "SignalInterrupt(i) latches line i and no other line");
    CHECK(vec ? (it.vinterrupt_pending && it.vinterrupt_address == addr && it.vinterrupt_context_switch == cs) : (it.vinterrupt_pending == vpend && it.vinterrupt_address == va0 && it.vinterrupt_context_switch == vc0),
          "SignalVectoredInterrupt latches the vectored request with its address and context-switch bit; SignalInterrupt leaves them");
    OUT(it.interrupt_pending); OUT(it.vinterrupt_pending); OUT(it.vinterrupt_address); OUT(it.vinterrupt_context_switch); CANARY();
}
