/* Shared rig of the interpreter harnesses: a symbolic, well-formed register state behind an Interpreter object. */
#ifndef VERIF_INTERP_RIG_H
#define VERIF_INTERP_RIG_H
static CoreTiming g_ct; static MemoryInterface g_mem;
#define INTERP_RIG(it, st) NONDET(RegisterState, st); Interpreter it; memset(&it, 0, sizeof it); it.core_timing = &g_ct; it.regs = &st; it.mem = &g_mem; verif_outcome = 0; \
    NATIVE_ONLY(regs_make_wf(&st);) CBMC_ONLY(st.rep = st.rep ? 1 : 0;) ASSUME(wf_regs(&st))
#ifndef VERIF_CBMC
/* native sampling: push random bytes into the hardware widths so that wf_regs accepts them */
static void regs_make_wf(RegisterState *r)
{
    u64 *acc[6] = {&r->a.e[0], &r->a.e[1], &r->b.e[0], &r->b.e[1], &r->a1s, &r->b1s};
    for (int i = 0; i < 6; i++) *acc[i] = (u64)sx40(*acc[i]);
    u16 *f1[] = {&r->fz, &r->fm, &r->fn, &r->fv, &r->fe, &r->fc0, &r->fc1, &r->flm, &r->fvl, &r->fr, &r->sat, &r->sata, &r->s, &r->pe.e[0], &r->pe.e[1], &r->cpc, &r->crep, &r->ccnta,
                 &r->stp16, &r->cmd, &r->epi, &r->epj, &r->ipv, &r->imv, &r->nimc, &r->ie, &r->iu.e[0], &r->iu.e[1]};
    for (unsigned i = 0; i < sizeof f1 / sizeof f1[0]; i++) *f1[i] &= 1;
    r->hwm &= 3; r->ps.e[0] &= 3; r->ps.e[1] &= 3; r->pc &= 0x3FFFF; r->prpage &= 15; r->pcmhi &= 3; r->page &= 0xFF; r->bcn %= 5; r->lp = r->bcn != 0; NORM_BOOL(r->rep);
    for (int i = 0; i < 4; i++) {   /* also clears the struct's padding bytes: outputs are compared as raw bytes and the bridge converts field by field */
        u32 s_ = r->bkrep_stack.e[i].start & 0x3FFFF, e_ = r->bkrep_stack.e[i].end & 0x3FFFF; u16 l_ = r->bkrep_stack.e[i].lc;
        memset(&r->bkrep_stack.e[i], 0, sizeof r->bkrep_stack.e[i]); r->bkrep_stack.e[i].start = s_; r->bkrep_stack.e[i].end = e_; r->bkrep_stack.e[i].lc = l_;
    }
    r->stepi &= 0x7F; r->stepj &= 0x7F; r->modi &= 0x1FF; r->modj &= 0x1FF; r->stepib &= 0x7F; r->stepjb &= 0x7F; r->modib &= 0x1FF; r->modjb &= 0x1FF;
    for (int i = 0; i < 8; i++) { r->m.e[i] &= 1; r->br.e[i] &= 1; }
    for (int i = 0; i < 4; i++) { r->arstep.e[i] &= 7; r->arpstepi.e[i] &= 7; r->arpstepj.e[i] &= 7; r->aroffset.e[i] &= 3; r->arpoffseti.e[i] &= 3; r->arpoffsetj.e[i] &= 3; r->arrn.e[i] &= 7; r->arprni.e[i] &= 3; r->arprnj.e[i] &= 3; }
    for (int i = 0; i < 3; i++) { r->ip.e[i] &= 1; r->im.e[i] &= 1; r->ic.e[i] &= 1; }
    for (int i = 0; i < 5; i++) r->ou.e[i] &= 1;
    r->mod0_unk_const &= 7;
    /* two-way and one-way banks within the same widths */
#define MK_ARX(f, m) do { r->f.rni &= (m); r->f.rnj &= (m); r->f.stepi &= 7; r->f.stepj &= 7; r->f.offseti &= 3; r->f.offsetj &= 3; } while (0)
    MK_ARX(shadow_swap_ar0, 7); MK_ARX(shadow_swap_ar1, 7); MK_ARX(shadow_swap_arp0, 3); MK_ARX(shadow_swap_arp1, 3); MK_ARX(shadow_swap_arp2, 3); MK_ARX(shadow_swap_arp3, 3);
    r->shadow_swap_registers.base_0.shadow &= 3; r->shadow_swap_registers.base_1.shadow &= 1; r->shadow_swap_registers.base_2.shadow &= 1; r->shadow_swap_registers.base_3.shadow &= 3; r->shadow_swap_registers.base_4.shadow &= 1;
    r->shadow_swap_registers.base_5.shadow.e[0] &= 3; r->shadow_swap_registers.base_5.shadow.e[1] &= 3; r->shadow_swap_registers.base_6.shadow &= 0xFF; r->shadow_swap_registers.base_7.shadow &= 1; r->shadow_swap_registers.base_8.shadow &= 1;
    for (int i = 0; i < 8; i++) { r->shadow_swap_registers.base_9.shadow.e[i] &= 1; r->shadow_swap_registers.base_10.shadow.e[i] &= 1; }
    for (int i = 0; i < 3; i++) r->shadow_swap_registers.base_11.shadow.e[i] &= 1;
    r->shadow_swap_registers.base_12.shadow &= 1; r->shadow_swap_registers.base_13.shadow &= 1; r->shadow_swap_registers.base_14.shadow &= 1;
    r->shadow_registers.base_0.shadow &= 1; r->shadow_registers.base_1.shadow &= 1; r->shadow_registers.base_2.shadow &= 1; r->shadow_registers.base_3.shadow &= 1; r->shadow_registers.base_4.shadow &= 1;
    r->shadow_registers.base_5.shadow &= 1; r->shadow_registers.base_6.shadow &= 1; r->shadow_registers.base_7.shadow &= 1; r->shadow_registers.base_8.shadow &= 1; r->shadow_registers.base_9.shadow &= 1;
}
#endif
#define CHECK_ST(st, expr, name) NATIVE_ONLY(CHECK(eqv_regs(st, (expr)) && wf_regs(&st), name ".postcondition");)
#define FIELD(x, n, bits) NONDET(u16, n##_v); OPV(x) = (u16)(n##_v & ((1u << (bits)) - 1))

#define FORM_HARNESS(hname, call, specexpr, decls, cname) HARNESS(hname) { INTERP_RIG(it, st); decls; NATIVE_ONLY(RegisterState old = st;) call; CHECK_ST(st, specexpr, cname); OUT(st); CANARY(); }
#endif
