/* C10 harnesses: address unit (src/interpreter.h) */
#include "proc_types.h"
#include "proc_eq.h"
#include "addr_spec.h"
#include "addr_contracts.h"
#include "common.h"
#include "spec_touch.h"
int verif_outcome;
#include "absmem.h"
#ifdef VERIF_REAL
#include "proc_protos.h"
#else
#include "proc_funcs.c"
#endif
#define eqv_regs eqv_regs2
#include "interp_rig.h"

#define STEP_IN(unit, step, dmod) NONDET(u32, unit); NONDET(u16, step##_v); NONDET(bool, dmod); NORM_BOOL(dmod); NATIVE_ONLY(unit &= 7; step##_v &= 7; if (!spec_step_in_statement(&st, unit, (StepValue)step##_v, dmod)) step##_v = 1;) \
    StepValue step = (StepValue)step##_v; ASSUME(unit < 8 && step##_v < 8 && spec_step_in_statement(&st, unit, step, dmod))

HARNESS(h_BitReverse)
{
    NONDET(u16, v); verif_outcome = 0;
    u16 r = BitReverse(v);
    NATIVE_ONLY(CHECK(r == spec_bitrev16(v), "BitReverse.postcondition");)
    OUT(r); CANARY();
}
HARNESS(h_StepAddress)
{
    INTERP_RIG(it, st); NONDET(u16, addr); STEP_IN(unit, step, dmod);
    u16 r = Interpreter_StepAddress(&it, unit, addr, step, dmod);
    NATIVE_ONLY(CHECK(r == spec_step(&st, unit, addr, step, dmod), "Interpreter_StepAddress.postcondition");)
    OUT(r); CANARY();
}
HARNESS(h_RnAndModify)
{
    INTERP_RIG(it, st); STEP_IN(unit, step, dmod);
    NATIVE_ONLY(RegisterState old = st;)
    u16 r = Interpreter_RnAndModify(&it, unit, step, dmod);
    NATIVE_ONLY(spec_rn_t o = spec_rn_and_modify(old, unit, step, dmod); CHECK(r == o.ret && eqv_regs2(st, o.s), "Interpreter_RnAndModify.postcondition");)
    OUT(r); OUT(st.r); CANARY();
}
HARNESS(h_RnAddress)
{
    INTERP_RIG(it, st); NONDET(u32, unit); NONDET(u32, v); NATIVE_ONLY(unit &= 7;) ASSUME(unit < 8);
    u16 r = Interpreter_RnAddress(&it, unit, v);
    NATIVE_ONLY(CHECK(r == spec_rn_address(&st, unit, (u16)v), "Interpreter_RnAddress.postcondition");)
    OUT(r); CANARY();
}
HARNESS(h_RnAddressAndModify)
{
    INTERP_RIG(it, st); STEP_IN(unit, step, dmod);
    NATIVE_ONLY(RegisterState old = st;)
    u16 r = Interpreter_RnAddressAndModify(&it, unit, step, dmod);
    NATIVE_ONLY(spec_rn_t o = spec_rn_and_modify(old, unit, step, dmod); CHECK(r == spec_rn_address(&old, unit, o.ret) && eqv_regs2(st, o.s), "Interpreter_RnAddressAndModify.postcondition");)
    OUT(r); OUT(st.r); CANARY();
}
HARNESS(h_OffsetAddress)
{
    INTERP_RIG(it, st); NONDET(u32, unit); NONDET(u16, addr); NONDET(u16, off); NONDET(bool, dmod); NORM_BOOL(dmod);
    NATIVE_ONLY(unit &= 7; off &= 3; if (off == 2 && st.m.e[unit] && !st.br.e[unit] && !dmod) off = 1;)
    ASSUME(unit < 8 && off < 4 && !(off == 2 && st.m.e[unit] && !st.br.e[unit] && !dmod));
    u16 r = Interpreter_OffsetAddress(&it, unit, addr, (Interpreter_OffsetValue)off, dmod);
    NATIVE_ONLY(CHECK(r == spec_offset(&st, unit, addr, off, dmod), "Interpreter_OffsetAddress.postcondition");)
    OUT(r); CANARY();
}
/* lemma from the statement: with modulo on, stepping +1 then -1 (or -1 then +1) inside the buffer returns to the start, and walking +1
 * from the top wraps to the base: the walk is cyclic over [base, base + mod] */
HARNESS(h_lemma_cyclic)
{
    INTERP_RIG(it, st); NONDET(u32, unit); NONDET(u16, addr); NATIVE_ONLY(unit &= 7; st.m.e[unit] = 1; st.br.e[unit] = 0;)
    ASSUME(unit < 8 && st.m.e[unit] == 1 && st.br.e[unit] == 0);
    u16 mod = spec_modv(&st, unit), mask = spec_cover_mask(mod);
    NATIVE_ONLY(addr = (addr & ~mask) | ((addr & mask) % (mod + 1u));)
    ASSUME((addr & mask) <= mod);
    u16 up = Interpreter_StepAddress(&it, unit, addr, StepValue_Increase, false);
    u16 back = Interpreter_StepAddress(&it, unit, up, StepValue_Decrease, false);
    CHECK(back == addr, "modulo +1 then -1 is the identity inside the buffer");
    CHECK((up & (u16)~mask) == (addr & (u16)~mask) && (up & mask) <= mod, "the step stays inside the aligned buffer");
    CHECK(((addr & mask) == mod) == ((up & mask) == 0) || mod == 0, "+1 wraps exactly at the top of the buffer");
    OUT(up); OUT(back); CANARY();
}
FORM_HARNESS(h_modr, Interpreter_modr(&it, a, as), spec_modr(old, OPV(a), (StepValue)OPV1(as), false), Rn a; FIELD(a, a, 3); EnumOperand_StepValue_0_1_2_3 as; NONDET(u16, as_v); OPV1(as) = as_v & 3; NATIVE_ONLY(if (!spec_step_in_statement(&st, OPV(a), (StepValue)OPV1(as), false)) OPV1(as) = 1;) ASSUME(spec_step_in_statement(&st, OPV(a), (StepValue)OPV1(as), false)), "Interpreter_modr")
FORM_HARNESS(h_modr_dmod, Interpreter_modr_dmod(&it, a, as), spec_modr(old, OPV(a), (StepValue)OPV1(as), true), Rn a; FIELD(a, a, 3); EnumOperand_StepValue_0_1_2_3 as; NONDET(u16, as_v); OPV1(as) = as_v & 3, "Interpreter_modr_dmod")
