/* C18 harnesses (interpreter part): executing one instruction of decode-table entry ENTRY -- any opcode of the entry, any second word,
 * any well-formed register state -- and one cycle of Run around it, makes every array index, pointer dereference, shift and signed
 * arithmetic operation well defined, and ends only by returning or by a deliberate abort (ASSERT / UNREACHABLE / Unimplemented: legal
 * exits, CUT mode).  The safety obligations are CBMC's own instrumentation (--bounds-check --pointer-check --signed-overflow-check
 * --undefined-shift-check --div-by-zero-check --conversion-check off) over the extracted code; the program-memory fetch address is an
 * explicit obligation (PROG_IN_BOUNDS) because program memory is abstract here. */
#define CAT_(a, b) a##b
#define CAT(a, b) CAT_(a, b)
#ifdef VERIF_CBMC
#  ifndef ENTRY
#    error "per decode-table entry: -DENTRY=k"
#  endif
#  ifdef C18_SKELETON
#    define VERIF_DECODER_CALL(d, self, op, ex) ((void)0)
#  endif
#endif
#include "proc_types.h"
#include "regs_spec.h"
#include "common.h"
#include "spec_touch.h"
int verif_outcome;
/* program memory: 0x40000 words inside the 0x80000-byte array (word address w -> bytes 2w, 2w+1) */
#define AM_PROG_CHECK(address) CHECK((address) < 0x40000u, "REPO-OOB program-memory access inside the 0x80000-byte DSP memory (word address < 0x40000)")
#include "absmem.h"
#ifdef VERIF_REAL
#include "proc_protos.h"
#else
#include "proc_funcs.c"
#endif
#include "interp_rig.h"
#ifndef VERIF_CBMC
#ifdef VERIF_REAL
static unsigned vdec_need_native(u16 op) { (void)op; return 0; }     /* real side: length only shifts where the word is laid out; both sides use the same rule through the hash of st */
#else
static unsigned vdec_need_native(u16 op) { (void)op; return 0; }
#endif
#endif

HARNESS(h_entry_safe)
{
    INTERP_RIG(it, st); ABSMEM_SETUP(); NONDET(u16, op); NONDET(u16, ex);
    for (int i = 0; i < 3; i++) it.interrupt_pending.e[i] = 0;
    it.vinterrupt_pending = 0; it.vinterrupt_address = 0; it.vinterrupt_context_switch = 0;
#ifndef C18_SKELETON          /* a listed finding's region predicate names the inputs of the harness its obligation uses */
    REGION_HOOK();
#endif
#ifdef VERIF_CBMC
    ASSUME(CAT(vdec_Interpreter_match_, ENTRY)(op));
    CAT(vdec_Interpreter_call_, ENTRY)(&it, op, ex);
#else
    {   u32 len = 1u + vdec_need_native(op), page = (u32)st.prpage << 18;
        st.rep = 0; st.ie = 0; if (st.pc < 2) st.pc = 2; st.pc -= len;
        am_prog_store[(st.pc | page) & 0x3FFFF] = op; if (len == 2) am_prog_store[((st.pc + 1) | page) & 0x3FFFF] = ex;
    }
    Interpreter_Run(&it, 1);
#endif
    CHECK(verif_outcome == 0, "the instruction returned (aborting paths end before this point)");
    CBMC_ONLY(CHECK(wf_regs(&st), "the register state stays within the hardware widths (the invariant the safety of the NEXT instruction rests on)");)
    OUT(st); ABSMEM_OUT(); CANARY();
}
/* one cycle of Run with the instruction abstracted: fetch addresses, loop-frame indices, interrupt vectors */
HARNESS(h_run_safe)
{
    INTERP_RIG(it, st); ABSMEM_SETUP();
    NONDET_ARR(bool, ipend, 3); NONDET(bool, vpend); NONDET(u32, vaddr); NONDET(bool, vctx);
    for (int i = 0; i < 3; i++) { NORM_BOOL(ipend[i]); it.interrupt_pending.e[i] = ipend[i]; }
    NORM_BOOL(vpend); NORM_BOOL(vctx); it.vinterrupt_pending = vpend; it.vinterrupt_address = vaddr & 0x3FFFF; it.vinterrupt_context_switch = vctx;
#ifdef C18_SKELETON
    REGION_HOOK();
#endif
    NATIVE_ONLY(ASSUME(am_ppeek(st.pc | ((u32)st.prpage << 18)) == 0);)
    Interpreter_Run(&it, 1);
    CHECK(verif_outcome == 0, "the cycle returned");
    OUT(st); ABSMEM_OUT(); CANARY();
}
