/* C12 harnesses (and the MMIO part of C18): the MMIO binding table of src/mmio.cpp, partially evaluated by extract/mmio_table.py into
 * vmmio_write / vmmio_read over the extracted peripheral setters and getters.  All peripherals, all backing words, the offset(s) and the value
 * are symbolic; every harness is loop-free apart from constant-bound loops (complete for all inputs). */
#include <string.h>
#include "mmio_types.h"
#include "mmio_eq.h"
#include "timer_spec.h"
#include "btdmp_spec.h"
#include "mmio_layout.h"
#include "common.h"
#include "spec_touch.h"
int verif_outcome;
u32 ghost_cb_calls;
#ifdef VERIF_REAL
#include "mmio_protos.h"
#else
#include "mmio_funcs.c"
#endif
/* user code behind std::function (interrupt lines, host handlers, external memory): call recorders; external reads return arbitrary values */
void CB_Timer_interrupt_handler(Timer *self) { (void)self; ghost_cb_calls++; }
void CB_Apbp_Impl_semaphore_handler(Apbp_Impl *self) { (void)self; ghost_cb_calls++; }
void CB_ICU_on_interrupt(ICU *self, u32 a0) { (void)self; (void)a0; ghost_cb_calls++; }
void CB_ICU_on_vectored_interrupt(ICU *self, u32 a0, bool a1) { (void)self; (void)a0; (void)a1; ghost_cb_calls++; }
void CB_DataChannel_handler(DataChannel *self) { (void)self; ghost_cb_calls++; }
void CB_Dma_interrupt_handler(Dma *self) { (void)self; ghost_cb_calls++; }
#ifdef VERIF_CBMC
u8 nondet_u8_(void); u16 nondet_u16_(void); u32 nondet_u32_(void);
#define EXT(T, f) f()
#else
#define EXT(T, f) ((T)0)
static u8 nondet_u8_(void) { return 0; } static u16 nondet_u16_(void) { return 0; } static u32 nondet_u32_(void) { return 0; }
#endif
u8 CB_Ahbm_read_external8(Ahbm *self, u32 a0) { (void)self; (void)a0; return nondet_u8_(); }
u16 CB_Ahbm_read_external16(Ahbm *self, u32 a0) { (void)self; (void)a0; return nondet_u16_(); }
u32 CB_Ahbm_read_external32(Ahbm *self, u32 a0) { (void)self; (void)a0; return nondet_u32_(); }
void CB_Ahbm_write_external8(Ahbm *self, u32 a0, u8 a1) { (void)self; (void)a0; (void)a1; }
void CB_Ahbm_write_external16(Ahbm *self, u32 a0, u16 a1) { (void)self; (void)a0; (void)a1; }
void CB_Ahbm_write_external32(Ahbm *self, u32 a0, u32 a1) { (void)self; (void)a0; (void)a1; }

static u8 g_raw[16];      /* DSP memory is not reached by these obligations (DMA start is excluded / C13's subject); a stand-in object for the pointer */
/* well-formed peripheral state: what the constructors establish and every register write preserves (the preservation is an obligation of h_mmio_safe) */
static inline bool wf_mmio(const VMMIO *m)
{
    if (!(m->dma->active_channel < 8)) return 0;
    for (int i = 0; i < 2; i++) if (!wf_btdmp(&m->btdmp->e[i])) return 0;
    return 1;       /* the timer's count mode is NOT part of it: modes 4..7 are writable and make Timer::Tick / Restart abort deliberately (ASSERT), a legal exit */
}
#define MMIO_RIG() \
    NONDET(MemoryInterfaceUnit, miu); NONDET(ICU, icu); NONDET(Apbp_Impl, ai_cpu); NONDET(Apbp_Impl, ai_dsp); NONDET(arr_Timer_2, timer); NONDET(Dma, dma); NONDET(Ahbm, ahbm); NONDET(arr_Btdmp_2, btdmp); \
    NONDET(VMMIO, m); \
    Apbp a_cpu; a_cpu.impl = &ai_cpu; Apbp a_dsp; a_dsp.impl = &ai_dsp; SharedMemory shm; shm.own_memory = 0; shm.raw = g_raw; dma.shared_memory = &shm; dma.ahbm = &ahbm; \
    dma.interrupt_handler.set = 1; ahbm.read_external8.set = ahbm.read_external16.set = ahbm.read_external32.set = ahbm.write_external8.set = ahbm.write_external16.set = ahbm.write_external32.set = 1; \
    icu.on_interrupt.set = icu.on_vectored_interrupt.set = 1; ai_cpu.semaphore_handler.set = ai_dsp.semaphore_handler.set = 1; \
    for (int i_ = 0; i_ < 3; i_++) { ai_cpu.data_channels.e[i_].handler.set = 1; ai_dsp.data_channels.e[i_].handler.set = 1; } \
    for (int i_ = 0; i_ < 2; i_++) { timer.e[i_].interrupt_handler.set = 1; btdmp.e[i_].interrupt_handler.set = 1; btdmp.e[i_].audio_callback.set = 1; NATIVE_ONLY(mmio_make_wf(&timer.e[i_], &btdmp.e[i_]);) } \
    NATIVE_ONLY(dma.active_channel &= 7;) \
    m.miu = &miu; m.icu = &icu; m.apbp_from_cpu = &a_cpu; m.apbp_from_dsp = &a_dsp; m.timer = &timer; m.dma = &dma; m.ahbm = &ahbm; m.btdmp = &btdmp; \
    verif_outcome = 0; ghost_cb_calls = 0; ASSUME(wf_mmio(&m))
#ifndef VERIF_CBMC
static void mmio_make_wf(Timer *t, Btdmp *b)
{
    t->count_mode &= 3; NORM_BOOL(b->transmit_empty); NORM_BOOL(b->transmit_full);
    b->transmit_queue.len %= 17; b->transmit_queue.head %= 17; b->transmit_full = b->transmit_queue.len == 16; b->transmit_empty = b->transmit_queue.len == 0;
    if (b->transmit_period == 0) b->transmit_period = 1;
}
#endif

/* the peripheral group an offset belongs to (mmio.md): 0 timer, 1 APBP, 2 AHBM, 3 MIU, 4 DMA, 5 ICU, 6 audio port */
static inline int mmio_group(u16 a) { return a < 0x0C0 ? 0 : a < 0x0E0 ? 1 : a < 0x100 ? 2 : a < 0x180 ? 3 : a < 0x200 ? 4 : a < 0x280 ? 5 : 6; }
#define SNAPSHOT() MemoryInterfaceUnit miu0 = miu; ICU icu0 = icu; Apbp_Impl ai_cpu0 = ai_cpu; Apbp_Impl ai_dsp0 = ai_dsp; arr_Timer_2 timer0 = timer; Dma dma0 = dma; Ahbm ahbm0 = ahbm; arr_Btdmp_2 btdmp0 = btdmp
static inline bool eq_timers(const arr_Timer_2 *x, const arr_Timer_2 *y) { return eq_Timer(&x->e[0], &y->e[0]) && eq_Timer(&x->e[1], &y->e[1]); }
static inline bool eq_btdmps(const arr_Btdmp_2 *x, const arr_Btdmp_2 *y) { return eq_Btdmp(&x->e[0], &y->e[0]) && eq_Btdmp(&x->e[1], &y->e[1]); }
/* one written offset (a constant per obligation: every offset the constructor binds, and one obligation for all the unbound ones together):
 * read-back of its documented fields; every other register of the same peripheral reads as before unless coupled; every other peripheral and
 * every other backing word is untouched (so, with h_mmio_read_dep, no register of another peripheral changes its read-back) */
HARNESS(h_mmio_cell)
{
    MMIO_RIG(); NONDET(u16, v); NONDET(u16, b); NONDET(u16, k);
#ifdef CELL_A
    const u16 a = CELL_A;
#else
    NONDET(u16, a);
    NATIVE_ONLY(a &= 0x7FF;)
    ASSUME(a < VMMIO_CELLS && !vmmio_is_bound(a));
#endif
    NATIVE_ONLY(b &= 0x7FF; k &= 0x7FF;)
    ASSUME(!(a == 0x1DE && v == 0x40C0));                           /* DMA start: a transfer (C13), documented side effect */
    ASSUME(b < VMMIO_CELLS && b != a && mmio_group(b) == mmio_group(a) && !mmio_read_has_effect(b));
    ASSUME(k < VMMIO_CELLS && k != a);
    SNAPSHOT(); u16 stk0 = m.st[k];
    u16 r0 = vmmio_read(&m, b);
    vmmio_write(&m, a, v);
    u16 r1 = vmmio_read(&m, b);
    CHECK(r0 == r1 || mmio_coupled(a, v, b), "a write to one register leaves every other register of the same peripheral reading as before, except through the documented couplings");
    int g = mmio_group(a);
    CHECK((g == 0 || eq_timers(&timer0, &timer)) && (g == 1 || (eq_Apbp_Impl(&ai_cpu0, &ai_cpu) && eq_Apbp_Impl(&ai_dsp0, &ai_dsp))) && (g == 2 || eq_Ahbm(&ahbm0, &ahbm)) &&
          (g == 3 || eq_MemoryInterfaceUnit(&miu0, &miu)) && (g == 4 || eq_Dma(&dma0, &dma)) && (g == 5 || eq_ICU(&icu0, &icu)) && (g == 6 || eq_btdmps(&btdmp0, &btdmp)),
          "a register write changes no state of any other peripheral");
    CHECK(m.st[k] == stk0, "a register write changes no other register's backing word");
    u16 r = vmmio_read(&m, a);
    CHECK(((r ^ v) & mmio_rw_mask(a)) == 0, "a documented read/write field reads back the last value written to it");
    OUT(r0); OUT(r1); OUT(r); CANARY();
}
#ifndef DEP_GROUP
#define DEP_GROUP 0     /* the plan compiles one obligation per group */
#endif
/* what a register reads depends only on its own peripheral and its own backing word: two machines that agree on those read the same */
HARNESS(h_mmio_read_dep)
{
    MMIO_RIG(); NONDET(u16, b);
    NONDET(MemoryInterfaceUnit, miu2); NONDET(ICU, icu2); NONDET(Apbp_Impl, ai_cpu2); NONDET(Apbp_Impl, ai_dsp2); NONDET(arr_Timer_2, timer2); NONDET(Dma, dma2); NONDET(Ahbm, ahbm2); NONDET(arr_Btdmp_2, btdmp2); NONDET(VMMIO, m2);
    NATIVE_ONLY(b &= 0x7FF;)
    ASSUME(b < VMMIO_CELLS && mmio_group(b) == DEP_GROUP && !mmio_read_has_effect(b));
    int g = DEP_GROUP;
    Apbp a_cpu2; a_cpu2.impl = g == 1 ? &ai_cpu : &ai_cpu2; Apbp a_dsp2; a_dsp2.impl = g == 1 ? &ai_dsp : &ai_dsp2; dma2.shared_memory = &shm; dma2.ahbm = &ahbm2;
    m2.miu = g == 3 ? &miu : &miu2; m2.icu = g == 5 ? &icu : &icu2; m2.apbp_from_cpu = &a_cpu2; m2.apbp_from_dsp = &a_dsp2; m2.timer = g == 0 ? &timer : &timer2; m2.dma = g == 4 ? &dma : &dma2;
    m2.ahbm = g == 2 ? &ahbm : &ahbm2; m2.btdmp = g == 6 ? &btdmp : &btdmp2;
    ASSUME(m2.st[b] == m.st[b] && m2.dma->active_channel < 8);
    u16 r1 = vmmio_read(&m, b);
    u16 r2 = vmmio_read(&m2, b);
    CHECK(r1 == r2, "a register's read-back depends only on its own peripheral's state and its own backing word");
    OUT(r1); CANARY();
}
/* the DMA channel window: eight independent copies */
HARNESS(h_mmio_dma_window)
{
    MMIO_RIG(); NONDET(u16, c1); NONDET(u16, c2); NONDET(u16, v); NONDET(u16, w);
#ifndef WIN_REG
#define WIN_REG 0x1C0      /* the plan compiles one obligation per window register 0x1C0 .. 0x1DC */
#endif
    const u16 reg = WIN_REG;
    NATIVE_ONLY(c1 &= 7; c2 &= 7; if (c1 == c2) c2 = (c1 + 1) & 7;)
    ASSUME(c1 < 8 && c2 < 8 && c1 != c2);
    vmmio_write(&m, 0x1BE, c1); vmmio_write(&m, reg, v);
    vmmio_write(&m, 0x1BE, c2); vmmio_write(&m, reg, w);
    u16 r2 = vmmio_read(&m, reg);
    vmmio_write(&m, 0x1BE, c1);
    u16 r1 = vmmio_read(&m, reg);
    CHECK(vmmio_read(&m, 0x1BE) == c1, "the channel select register reads back the selected channel");
    CHECK(((r1 ^ v) & mmio_rw_mask(reg)) == 0 && ((r2 ^ w) & mmio_rw_mask(reg)) == 0, "each of the eight DMA channels keeps its own copy of the window registers");
    OUT(r1); OUT(r2); CANARY();
}
/* C18, MMIO part: any 16-bit value written to, or a read of, any offset is memory-safe and keeps the peripheral state well-formed */
HARNESS(h_mmio_safe)
{
    MMIO_RIG(); NONDET(u16, v); NONDET(bool, rd); NORM_BOOL(rd);
#ifdef CELL_A
    const u16 a = CELL_A;
#else
    NONDET(u16, a);
    NATIVE_ONLY(a &= 0x7FF;)
    ASSUME(a < VMMIO_CELLS && !vmmio_is_bound(a));                  /* both callers reduce the offset first (C11: MMIORead/MMIOWrite mask with 0x7FF, ToMMIO) */
#endif
    ASSUME(!(a == 0x1DE && v == 0x40C0));                           /* DMA start runs a transfer: its address safety is the DMA part of this check */
    REGION_HOOK();
    u16 r = 0;
    if (rd) r = vmmio_read(&m, a); else vmmio_write(&m, a, v);
    CHECK(wf_mmio(&m), "register access keeps every peripheral index and width invariant (DMA channel select < 8, FIFO bounds and flags)");
    OUT(r); CANARY();
}
