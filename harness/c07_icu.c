/* C07 harnesses, interrupt-controller half (src/icu.h) */
#include "icu_types.h"
#include "icu_spec.h"
#include "icu_contracts.h"
#include "common.h"
#include "spec_touch.h"
int verif_outcome;
int ghost_line_calls[3]; u32 ghost_line_bad; u32 ghost_vec_n; u32 ghost_vec_addr[16]; bool ghost_vec_ctx[16]; u32 ghost_irq;
#ifdef VERIF_REAL
#include "icu_protos.h"
#else
#include "icu_funcs.c"
#endif
/* the core's interrupt lines (Processor::SignalInterrupt / SignalVectoredInterrupt behind std::function): delivery recorders */
void CB_ICU_on_interrupt(ICU *self, u32 a0) { (void)self; if (a0 < 3) ghost_line_calls[a0]++; else ghost_line_bad++; }
void CB_ICU_on_vectored_interrupt(ICU *self, u32 a0, bool a1) { (void)self; if (ghost_vec_n < 16) { ghost_vec_addr[ghost_vec_n] = a0; ghost_vec_ctx[ghost_vec_n] = a1; } ghost_vec_n++; }

#define ICU_INPUT(c) NONDET(ICU, c); NONDET(u32, gi); c.on_interrupt.set = 1; c.on_vectored_interrupt.set = 1; ghost_irq = gi; \
    ghost_line_calls[0] = ghost_line_calls[1] = ghost_line_calls[2] = 0; ghost_line_bad = 0; ghost_vec_n = 0; verif_outcome = 0

HARNESS(h_ICU_Trigger)
{
    ICU_INPUT(c); NONDET(u16, bits);
    NATIVE_ONLY(ICU old = c;)
    ICU_Trigger(&c, bits);
    NATIVE_ONLY(CHECK(post_ICU_Trigger(old, c, bits, ghost_line_calls[0], ghost_line_calls[1], ghost_line_calls[2], ghost_irq), "ICU_Trigger.postcondition");)
    OUT(c.request); OUT(ghost_line_calls); OUT(ghost_vec_n); NATIVE_ONLY(verif_output("vec_addr", ghost_vec_addr, 4 * (ghost_vec_n < 16 ? ghost_vec_n : 16));)
    CANARY();
}
HARNESS(h_ICU_TriggerSingle)
{
    ICU_INPUT(c); NONDET(u32, irq);
    NATIVE_ONLY(irq %= 16;) ASSUME(irq < 16);
    NATIVE_ONLY(ICU old = c;)
    ICU_TriggerSingle(&c, irq);
    NATIVE_ONLY(CHECK(post_ICU_Trigger(old, c, (u16)(1u << irq), ghost_line_calls[0], ghost_line_calls[1], ghost_line_calls[2], ghost_irq), "ICU_TriggerSingle.postcondition");)
    OUT(c.request); OUT(ghost_line_calls); OUT(ghost_vec_n);
    CANARY();
}
HARNESS(h_ICU_Acknowledge)
{
    ICU_INPUT(c); NONDET(u16, bits);
    NATIVE_ONLY(ICU old = c;)
    ICU_Acknowledge(&c, bits);
    NATIVE_ONLY(CHECK(post_ICU_Acknowledge(old, c, bits), "ICU_Acknowledge.postcondition");)
    OUT(c.request);
    CANARY();
}
HARNESS(h_ICU_SetEnable)
{
    ICU_INPUT(c); NONDET(u32, line); NONDET(u16, bits);
    NATIVE_ONLY(line %= 3;) ASSUME(line < 3);
    ICU old = c;
    ICU_SetEnable(&c, line, bits);
    u16 back = ICU_GetEnable(&c, line);
    CHECK(back == bits && c.enabled.e[(line + 1) % 3] == old.enabled.e[(line + 1) % 3] && c.enabled.e[(line + 2) % 3] == old.enabled.e[(line + 2) % 3] && c.request == old.request && c.vectored_enabled == old.vectored_enabled,
          "SetEnable writes exactly one line's routing mask; GetEnable reads it back");
    OUT(back);
    CANARY();
}
HARNESS(h_ICU_SetEnableVectored)
{
    ICU_INPUT(c); NONDET(u16, bits);
    ICU old = c;
    ICU_SetEnableVectored(&c, bits);
    u16 back = ICU_GetEnableVectored(&c); u16 rq = ICU_GetRequest(&c);
    CHECK(back == bits && rq == old.request && c.enabled.e[0] == old.enabled.e[0] && c.enabled.e[1] == old.enabled.e[1] && c.enabled.e[2] == old.enabled.e[2], "SetEnableVectored writes only the vectored mask");
    OUT(back); OUT(rq);
    CANARY();
}
/* lemma over contracts: pending bits stay set until exactly those bits are acknowledged; a trigger while unrouted delivers nothing */
HARNESS(h_lemma_pending)
{
    ICU_INPUT(c); NONDET(u16, t); NONDET(u16, a);
    ICU_Trigger(&c, t);
    u16 r1 = ICU_GetRequest(&c);
    ICU_Acknowledge(&c, a);
    u16 r2 = ICU_GetRequest(&c);
    CHECK((r1 & t) == t && r2 == (u16)(r1 & ~a), "triggered bits are pending; acknowledge clears exactly the acknowledged bits");
    OUT(r1); OUT(r2);
    CANARY();
}
