/* C13 harnesses: DMA engine and AHBM port (src/dma.cpp, src/dma.h, src/ahbm.cpp) */
#include "dma_types.h"
#include "dma_spec.h"
#include "dma_contracts.h"
#include "common.h"
#include "spec_touch.h"
int verif_outcome;
ext_access ghost_ext_log[EXT_LOG];
u32 ghost_ext_n;
const u32 *ghost_ext_in;
int ghost_dma_irq;
u64 ghost_g;
#ifdef VERIF_REAL
#include "dma_protos.h"
#else
#include "dma_funcs.c"
#endif

/* ---- environment: the external-memory callbacks are user code; the model logs every access (unit, address, value) */
static u32 ext_read(u8 unit, u32 addr)
{
    u32 v = 0;
    if (ghost_ext_n < EXT_LOG) { v = ghost_ext_in[ghost_ext_n]; ghost_ext_log[ghost_ext_n] = (ext_access){0, unit, addr, v}; }
    ghost_ext_n++;
    return v;
}
static void ext_write(u8 unit, u32 addr, u32 value)
{
    if (ghost_ext_n < EXT_LOG) ghost_ext_log[ghost_ext_n] = (ext_access){1, unit, addr, value};
    ghost_ext_n++;
}
u8 CB_Ahbm_read_external8(Ahbm *self, u32 a0) { (void)self; return (u8)ext_read(1, a0); }
u16 CB_Ahbm_read_external16(Ahbm *self, u32 a0) { (void)self; return (u16)ext_read(2, a0); }
u32 CB_Ahbm_read_external32(Ahbm *self, u32 a0) { (void)self; return ext_read(4, a0); }
void CB_Ahbm_write_external8(Ahbm *self, u32 a0, u8 a1) { (void)self; ext_write(1, a0, a1); }
void CB_Ahbm_write_external16(Ahbm *self, u32 a0, u16 a1) { (void)self; ext_write(2, a0, a1); }
void CB_Ahbm_write_external32(Ahbm *self, u32 a0, u32 a1) { (void)self; ext_write(4, a0, a1); }
#ifndef VERIF_CBMC
void CB_Dma_interrupt_handler(Dma *self) { (void)self; ghost_dma_irq++; }
#endif

/* DSP memory.  CBMC: the footprint abstraction of extract/stdmodels.h (12 byte cells at arbitrary addresses with arbitrary contents;
 * one Tick touches at most 8 bytes, the frame check one more).  Native: a real 0x80000-byte array, zero background plus the same cells. */
#ifdef VERIF_CBMC
u32 verif_mem_addr[VERIF_MEM_CELLS]; u8 verif_mem_val[VERIF_MEM_CELLS];
static u8 mem_dummy[1];
#define MEM_SETUP(mem) u8 *mem = mem_dummy; for (int h_ = 0; h_ < VERIF_MEM_CELLS; h_++) { verif_mem_addr[h_] = (u32)cell_addr[h_]; verif_mem_val[h_] = cell_val[h_]; }
#else
static u8 mem_storage[0x80000];
#define MEM_SETUP(mem) u8 *mem = mem_storage; memset(mem_storage, 0, sizeof mem_storage); for (int h_ = 11; h_ >= 0; h_--) { cell_addr[h_] &= 0x7FFFF; mem[cell_addr[h_]] = cell_val[h_]; }
#endif
typedef struct { u16 enable_channel, active_channel; } Dma_small;   /* Tick reads nothing of its parent but the memory and AHBM links */
#define MEMB(mem, i) VERIF_RAW_READ(mem, (i))
static inline u16 hmem_word(u8 *mem, u32 word) { return (u16)(MEMB(mem, (u64)word * 2) | (MEMB(mem, (u64)word * 2 + 1) << 8)); }
#define DMA_RIG(mem, shm, ahbm, dma) \
    NONDET_ARR(u64, cell_addr, 12); NONDET_ARR(u8, cell_val, 12); MEM_SETUP(mem); \
    SharedMemory shm; shm.own_memory = 0; shm.raw = mem; \
    NONDET(Ahbm, ahbm); NONDET(Dma_small, dma_in); Dma dma; dma.enable_channel = dma_in.enable_channel; dma.active_channel = dma_in.active_channel; dma.shared_memory = &shm; dma.ahbm = &ahbm; dma.interrupt_handler.set = 1; \
    ahbm.read_external8.set = ahbm.write_external8.set = ahbm.read_external16.set = ahbm.write_external16.set = ahbm.read_external32.set = ahbm.write_external32.set = 1; \
    for (int c_ = 0; c_ < 3; c_++) { NATIVE_ONLY(ahbm.channels.e[c_].burst_queue.head %= VERIF_QCAP; ahbm.channels.e[c_].burst_queue.len = 0;) \
        ASSUME(ahbm.channels.e[c_].burst_queue.len == 0 && ahbm.channels.e[c_].burst_queue.head < VERIF_QCAP); } \
    NONDET_ARR(u32, ext_in, EXT_LOG); ghost_ext_in = ext_in; \
    ghost_ext_n = 0; ghost_dma_irq = 0; verif_outcome = 0; NONDET(u64, gg); ghost_g = gg % 0x80000

HARNESS(h_Start)
{
    NONDET(Dma_Channel, ch);
    NATIVE_ONLY(Dma_Channel old = ch;)
    Dma_Channel_Start(&ch);
    NATIVE_ONLY(CHECK(post_Start(old, ch), "Dma_Channel_Start.postcondition");)
    OUT(ch);
    CANARY();
}

/* cursor recurrence + frame (contract), any spaces; AHBM at burst x1 so that one Tick is at most one external access per side */
HARNESS(h_Tick_cursor)
{
    DMA_RIG(mem, shm, ahbm, dma);
    NONDET(Dma_Channel, ch);
    NATIVE_ONLY(ch.running = 1; ch.ahbm_channel %= 3; if (ch.dword_mode) ch.counter0 &= ~1; ch.counter0 %= (ch.size0 ? ch.size0 : 1); ch.counter1 %= (ch.size1 ? ch.size1 : 1); ch.counter2 %= (ch.size2 ? ch.size2 : 1); if (ch.dword_mode) ch.counter0 &= ~1;)
    NATIVE_ONLY(ch.current_src &= 0x1FFFF; ch.current_dst &= 0x1FFFF; ahbm.channels.e[ch.ahbm_channel].burst_size = 0;)   /* native sampling stays inside DSP memory: outside it the real code has undefined behaviour */
    ASSUME(wf_dma_running(&ch) && ch.ahbm_channel < 3 && ahbm.channels.e[ch.ahbm_channel].burst_size == Ahbm_BurstSize_X1);
    REGION_HOOK();
    NATIVE_ONLY(Dma_Channel old = ch;)
    Dma_Channel_Tick(&ch, &dma);
    NATIVE_ONLY(CHECK(post_Tick_cursor(old, ch), "Dma_Channel_Tick.postcondition");)
    OUT(ch);
    CANARY();
}

/* the element moved, DSP memory -> DSP memory, single word: exactly src -> dst, nothing else */
HARNESS(h_Tick_word_mem)
{
    DMA_RIG(mem, shm, ahbm, dma);
    NONDET(Dma_Channel, ch);
    NATIVE_ONLY(ch.running = 1; ch.dword_mode = 0; ch.src_space = ch.dst_space = 0; ch.current_src &= 0x1FFFF; ch.current_dst &= 0x1FFFF; ch.ahbm_channel %= 3; ch.counter0 %= (ch.size0 ? ch.size0 : 1); ch.counter1 %= (ch.size1 ? ch.size1 : 1); ch.counter2 %= (ch.size2 ? ch.size2 : 1);)
    ASSUME(wf_dma_running(&ch) && ch.dword_mode == 0 && ch.src_space == 0 && ch.dst_space == 0 && ch.current_src < 0x20000 && ch.current_dst < 0x20000 && ch.ahbm_channel < 3);
    u32 s = DMA_DATA_OFFSET + ch.current_src, d = DMA_DATA_OFFSET + ch.current_dst;
    u16 src_word = hmem_word(mem, s);
    u8 g_old = MEMB(mem, ghost_g);
    Dma_Channel_Tick(&ch, &dma);
    CHECK(hmem_word(mem, d) == src_word, "one 16-bit element: destination word == source word");
    CHECK(ghost_g == (u64)d * 2 || ghost_g == (u64)d * 2 + 1 || MEMB(mem, ghost_g) == g_old, "no other memory changes");
    CHECK(ghost_ext_n == 0, "no external access for DSP-memory spaces");
    u16 dst_word = hmem_word(mem, d); OUT(dst_word); OUT(ch);
    CANARY();
}
/* double-word element: both addresses aligned down to 32 bits */
HARNESS(h_Tick_dword_mem)
{
    DMA_RIG(mem, shm, ahbm, dma);
    NONDET(Dma_Channel, ch);
    NATIVE_ONLY(ch.running = 1; ch.dword_mode = 1; ch.src_space = ch.dst_space = 0; ch.current_src &= 0x1FFFF; ch.current_dst &= 0x1FFFF; ch.ahbm_channel %= 3; ch.counter0 %= (ch.size0 ? ch.size0 : 1); ch.counter0 &= ~1; ch.counter1 %= (ch.size1 ? ch.size1 : 1); ch.counter2 %= (ch.size2 ? ch.size2 : 1);)
    ASSUME(wf_dma_running(&ch) && ch.dword_mode != 0 && ch.src_space == 0 && ch.dst_space == 0 && ch.current_src < 0x20000 && ch.current_dst < 0x20000 && ch.ahbm_channel < 3);
    u32 s = DMA_DATA_OFFSET + (ch.current_src & ~1u), d = DMA_DATA_OFFSET + (ch.current_dst & ~1u);
    u16 lo = hmem_word(mem, s), hi = hmem_word(mem, s + 1);
    u8 g_old = MEMB(mem, ghost_g);
    Dma_Channel_Tick(&ch, &dma);
    /* overlapping source and destination: the element is read in full before it is written */
    CHECK(hmem_word(mem, d) == lo && hmem_word(mem, d + 1) == hi, "one 32-bit element: aligned destination dword == aligned source dword");
    CHECK((ghost_g >= (u64)d * 2 && ghost_g < (u64)d * 2 + 4) || MEMB(mem, ghost_g) == g_old, "no other memory changes");
    u16 d0 = hmem_word(mem, d), d1 = hmem_word(mem, d + 1); OUT(d0); OUT(d1); OUT(ch);
    CANARY();
}
#ifndef EXT_DW
#define EXT_DW 0
#endif
/* external memory on one side (AHBM channel at burst x1, unit matching the element size, naturally aligned address):
 * exactly one external access of exactly that unit at exactly that address */
HARNESS(h_Tick_ext_to_mem)
{
    DMA_RIG(mem, shm, ahbm, dma);
    NONDET(Dma_Channel, ch);
    NATIVE_ONLY(ch.running = 1; ch.dword_mode = !!ch.dword_mode; ch.src_space = 7; ch.dst_space = 0; ch.current_dst &= 0x1FFFF; ch.ahbm_channel %= 3; ch.counter0 %= (ch.size0 ? ch.size0 : 1); if (ch.dword_mode) ch.counter0 &= ~1; ch.counter1 %= (ch.size1 ? ch.size1 : 1); ch.counter2 %= (ch.size2 ? ch.size2 : 1);
                ahbm.channels.e[ch.ahbm_channel].burst_size = 0; ahbm.channels.e[ch.ahbm_channel].unit_size = ch.dword_mode ? 2 : 1; ch.current_src &= ch.dword_mode ? ~3u : ~1u;)
    ASSUME(wf_dma_running(&ch) && ch.src_space == 7 && ch.dst_space == 0 && ch.current_dst < 0x20000 && ch.ahbm_channel < 3);
    CBMC_ONLY(ASSUME((ch.dword_mode != 0) == EXT_DW);)     /* one instance per element width (-DEXT_DW=0|1) */
    Ahbm_Channel *ac = &ahbm.channels.e[ch.ahbm_channel];
    ASSUME(ac->burst_size == Ahbm_BurstSize_X1 && ac->unit_size == (ch.dword_mode ? Ahbm_UnitSize_U32 : Ahbm_UnitSize_U16) && (ch.current_src & (ch.dword_mode ? 3 : 1)) == 0);
    u32 src = ch.current_src, d = DMA_DATA_OFFSET + (ch.dword_mode ? (ch.current_dst & ~1u) : ch.current_dst);
    bool dw = ch.dword_mode != 0;
    Dma_Channel_Tick(&ch, &dma);
    CHECK(ghost_ext_n == 1 && ghost_ext_log[0].write == 0 && ghost_ext_log[0].unit == (dw ? 4 : 2) && ghost_ext_log[0].addr == src, "exactly one external read of the unit at the source address");
    CHECK(dw ? (hmem_word(mem, d) == (u16)ghost_ext_in[0] && hmem_word(mem, d + 1) == (u16)(ghost_ext_in[0] >> 16)) : hmem_word(mem, d) == (u16)ghost_ext_in[0], "the unit read is what lands in DSP memory");
    OUT(ghost_ext_n); OUT(ghost_ext_log[0]); OUT(ch);
    CANARY();
}
HARNESS(h_Tick_mem_to_ext)
{
    DMA_RIG(mem, shm, ahbm, dma);
    NONDET(Dma_Channel, ch);
    NATIVE_ONLY(ch.running = 1; ch.dword_mode = !!ch.dword_mode; ch.src_space = 0; ch.dst_space = 7; ch.current_src &= 0x1FFFF; ch.ahbm_channel %= 3; ch.counter0 %= (ch.size0 ? ch.size0 : 1); if (ch.dword_mode) ch.counter0 &= ~1; ch.counter1 %= (ch.size1 ? ch.size1 : 1); ch.counter2 %= (ch.size2 ? ch.size2 : 1);
                ahbm.channels.e[ch.ahbm_channel].burst_size = 0; ahbm.channels.e[ch.ahbm_channel].unit_size = ch.dword_mode ? 2 : 1; ch.current_dst &= ch.dword_mode ? ~3u : ~1u;)
    ASSUME(wf_dma_running(&ch) && ch.src_space == 0 && ch.dst_space == 7 && ch.current_src < 0x20000 && ch.ahbm_channel < 3);
    CBMC_ONLY(ASSUME((ch.dword_mode != 0) == EXT_DW);)
    Ahbm_Channel *ac = &ahbm.channels.e[ch.ahbm_channel];
    ASSUME(ac->burst_size == Ahbm_BurstSize_X1 && ac->unit_size == (ch.dword_mode ? Ahbm_UnitSize_U32 : Ahbm_UnitSize_U16) && (ch.current_dst & (ch.dword_mode ? 3 : 1)) == 0);
    bool dw = ch.dword_mode != 0;
    u32 dst = ch.current_dst, s = DMA_DATA_OFFSET + (dw ? (ch.current_src & ~1u) : ch.current_src);
    u32 val = dw ? (hmem_word(mem, s) | ((u32)hmem_word(mem, s + 1) << 16)) : hmem_word(mem, s);
    u8 g_old = MEMB(mem, ghost_g);
    Dma_Channel_Tick(&ch, &dma);
    CHECK(ghost_ext_n == 1 && ghost_ext_log[0].write == 1 && ghost_ext_log[0].unit == (dw ? 4 : 2) && ghost_ext_log[0].addr == dst && ghost_ext_log[0].value == val, "exactly one external write of the unit, at the destination address, with the source value");
    CHECK(MEMB(mem, ghost_g) == g_old, "DSP memory unchanged");
    OUT(ghost_ext_n); OUT(ghost_ext_log[0]); OUT(ch);
    CANARY();
}

/* ---- the transfer as a whole: terminates, ends not running, raises the DMA interrupt exactly once (loop contract on the real loop) */
HARNESS(h_DoDma)
{
    DMA_RIG(mem, shm, ahbm, dma0);
    NONDET(Dma, dma); dma.shared_memory = &shm; dma.ahbm = &ahbm; dma.interrupt_handler.set = 1;
    NONDET(u16, channel);
    NATIVE_ONLY(channel %= 8; Dma_Channel *c = &dma.channels.e[channel]; c->size0 %= 5; c->size1 %= 4; c->size2 %= 3; c->src_space = c->dst_space = 0; c->addr_src_high = c->addr_dst_high = 0; c->addr_src_low &= 0xFFF; c->addr_dst_low &= 0xFFF; c->src_step0 &= 7; c->src_step1 &= 7; c->src_step2 &= 7; c->dst_step0 &= 7; c->dst_step1 &= 7; c->dst_step2 &= 7;)
    ASSUME(channel < 8);
    REGION_HOOK();
    Dma_DoDma(&dma, channel);
    NATIVE_ONLY(CHECK(dma.channels.e[channel].running == 0 && ghost_dma_irq == 1, "Dma_DoDma.postcondition");)
    OUT(ghost_dma_irq); OUT(dma.channels.e[channel].running);
    CANARY();
}
HARNESS(h_GetChannelForDma)
{
    NONDET(Ahbm, ahbm); NONDET(u16, dc);
    NATIVE_ONLY(dc %= 16;) ASSUME(dc < 16);
    u16 r = Ahbm_GetChannelForDma(&ahbm, dc);
    NATIVE_ONLY(CHECK(r == spec_ahbm_channel_for(&ahbm, dc) && r < 3, "Ahbm_GetChannelForDma.postcondition");)
    OUT(r);
    CANARY();
}

/* ---- AHBM bursts: B consecutive DMA accesses stepping by the unit size hit exactly the B consecutive external addresses */
#define AHBM_RIG(ahbm, chn, unit_bytes, burst) \
    NONDET(Ahbm, ahbm); NONDET(u16, chn); NONDET(u32, base); const bool wide = AHBM_WIDE; \
    ahbm.read_external8.set = ahbm.write_external8.set = ahbm.read_external16.set = ahbm.write_external16.set = ahbm.read_external32.set = ahbm.write_external32.set = 1; \
    NATIVE_ONLY(chn %= 3; ahbm.channels.e[chn].burst_size = AHBM_BURST; ahbm.channels.e[chn].unit_size = wide ? 2 : 1; ahbm.channels.e[chn].burst_queue.len = 0; ahbm.channels.e[chn].burst_queue.head %= VERIF_QCAP; base &= wide ? 0x0FFFFFFC : 0x0FFFFFFE;) \
    ASSUME(chn < 3 && ahbm.channels.e[chn].burst_size == AHBM_BURST && ahbm.channels.e[chn].unit_size == (wide ? Ahbm_UnitSize_U32 : Ahbm_UnitSize_U16)); \
    ASSUME(ahbm.channels.e[chn].burst_queue.len == 0 && ahbm.channels.e[chn].burst_queue.head < VERIF_QCAP && base < 0x10000000 && (base & (wide ? 3 : 1)) == 0); \
    const u32 unit_bytes = wide ? 4 : 2; const u32 burst = (AHBM_BURST == 1 ? 4 : AHBM_BURST == 2 ? 8 : 1); \
    NONDET_ARR(u32, ext_in, EXT_LOG); ghost_ext_in = ext_in; ghost_ext_n = 0; verif_outcome = 0

/* one instance per (burst code, unit width): -DAHBM_BURST=0|1|2 -DAHBM_WIDE=0|1 (the burst length is then a constant for the solver) */
#ifndef AHBM_BURST
#define AHBM_BURST 2
#define AHBM_WIDE 1
#endif
HARNESS(h_ahbm_read_burst)
{
    AHBM_RIG(ahbm, chn, ub, burst);
    u32 got[8]; bool ok = true;
    for (u32 i = 0; i < 8; i++) {
        if (i >= burst) break;
        got[i] = wide ? Ahbm_Read32(&ahbm, chn, base + i * ub) : Ahbm_Read16(&ahbm, chn, base + i * ub);
    }
    CHECK(ghost_ext_n == burst, "a burst of B reads makes exactly B external reads");
    for (u32 i = 0; i < 8; i++) {
        if (i >= burst) break;
        ok = ok && ghost_ext_log[i].write == 0 && ghost_ext_log[i].unit == ub && ghost_ext_log[i].addr == base + i * ub && got[i] == (wide ? ghost_ext_in[i] : (u16)ghost_ext_in[i]);
    }
    CHECK(ok, "the i-th access returns exactly the unit at base + i*unit");
    CHECK(ahbm.channels.e[chn].burst_queue.len == 0, "the burst queue is drained after B accesses");
    OUT(ghost_ext_n); OUT(ok);
    CANARY();
}
HARNESS(h_ahbm_write_burst)
{
    AHBM_RIG(ahbm, chn, ub, burst);
    NONDET_ARR(u32, vals, 8);
    bool ok = true;
    for (u32 i = 0; i < 8; i++) {
        if (i >= burst) break;
        if (wide) Ahbm_Write32(&ahbm, chn, base + i * ub, vals[i]); else Ahbm_Write16(&ahbm, chn, base + i * ub, (u16)vals[i]);
    }
    CHECK(ghost_ext_n == burst, "a burst of B writes makes exactly B external writes");
    for (u32 i = 0; i < 8; i++) {
        if (i >= burst) break;
        ok = ok && ghost_ext_log[i].write == 1 && ghost_ext_log[i].unit == ub && ghost_ext_log[i].addr == base + i * ub && ghost_ext_log[i].value == (wide ? vals[i] : (u16)vals[i]);
    }
    CHECK(ok, "the i-th value is written as exactly one unit at base + i*unit");
    CHECK(ahbm.channels.e[chn].burst_queue.len == 0, "the burst queue is drained after B accesses");
    OUT(ghost_ext_n); OUT(ok);
    CANARY();
}

/* ---- C18, AHBM part: any access through a channel whose registers hold any value the MMIO fields can hold (TYPE and BURST are 2-bit fields,
 * so the undocumented codes 3 are reachable) is memory-safe and keeps the burst queue within its 8 entries */
HARNESS(h_ahbm_access_safe)
{
    NONDET(Ahbm, ahbm); NONDET(u16, chn); NONDET(u32, addr); NONDET(u32, val); NONDET(u16, op);
    ahbm.read_external8.set = ahbm.write_external8.set = ahbm.read_external16.set = ahbm.write_external16.set = ahbm.read_external32.set = ahbm.write_external32.set = 1;
    NATIVE_ONLY(chn %= 3; ahbm.channels.e[chn].burst_size &= 3; ahbm.channels.e[chn].unit_size &= 3; ahbm.channels.e[chn].direction &= 1; ahbm.channels.e[chn].burst_queue.len %= 9; ahbm.channels.e[chn].burst_queue.head %= VERIF_QCAP;)
    ASSUME(chn < 3 && ahbm.channels.e[chn].burst_size < 4 && ahbm.channels.e[chn].unit_size < 4 && ahbm.channels.e[chn].direction < 2);
    ASSUME(ahbm.channels.e[chn].burst_queue.len <= 8 && ahbm.channels.e[chn].burst_queue.head < VERIF_QCAP);
    NONDET_ARR(u32, ext_in, EXT_LOG); ghost_ext_in = ext_in; ghost_ext_n = 0; verif_outcome = 0;
    u32 r = 0;
    switch (op & 3) {
    case 0: r = Ahbm_Read16(&ahbm, chn, addr); break;
    case 1: r = Ahbm_Read32(&ahbm, chn, addr); break;
    case 2: Ahbm_Write16(&ahbm, chn, addr, (u16)val); break;
    default: Ahbm_Write32(&ahbm, chn, addr, val); break;
    }
    CHECK(ahbm.channels.e[chn].burst_queue.len <= 8 && ahbm.channels.e[chn].burst_queue.head < VERIF_QCAP, "the burst queue stays within its 8 entries");
    OUT(r); OUT(ghost_ext_n); CANARY();
}
