/* C02 harnesses: every opcode decodes one way; consumers agree on form and length (src/decoder.h, src/matcher.h, Interpreter::Run) */
#ifdef VERIF_CBMC
/* instruction stub: Run's dispatch records what it was handed (the handlers are the subject of C01/C03/C04/...) */
typedef struct { unsigned short opcode, expansion; unsigned pc; unsigned calls; } c02_rec_t;
c02_rec_t c02_rec;
#define VERIF_DECODER_CALL(d, self, op, ex) (c02_rec.opcode = (op), c02_rec.expansion = (ex), c02_rec.pc = (self)->regs->pc, c02_rec.calls++)
#endif
#include "proc_types.h"
#include "proc_eq.h"
#include "regs_spec.h"
#include "common.h"
#include "spec_touch.h"
int verif_outcome;
#include "absmem.h"
#ifdef VERIF_REAL
#include "proc_protos.h"
#else
#include "proc_funcs.c"
#endif
#include "interp_rig.h"
/* the decode table as the DISASSEMBLER instantiates it (GetDecodeTable<Disassembler>, extracted from src/disassembler.cpp) */
#include "dis_types.h"
#include "dis_funcs.c"
#define c02_dis_first vdec_Disassembler_first
#define c02_dis_last vdec_Disassembler_last
#define c02_dis_need_expansion vdec_Disassembler_need_expansion

#ifndef VERIF_REAL
/* each 16-bit word selects at most one instruction form (Decode's single-match ASSERT, for all 65536 words) */
HARNESS(h_decode_unique)
{
    NONDET(u16, op); verif_outcome = 0;
    NATIVE_ONLY(int c = vdec_Interpreter_count(op);) int f = vdec_Interpreter_first(op);
    CHECK(f == vdec_Interpreter_last(op), "at most one table entry matches the word (first match == last match)"); NATIVE_ONLY(CHECK(c <= 1, "count");)
    CHECK(f < VDEC_INTERPRETER_ENTRIES && f >= -1, "entry index in range");
    CHECK(f < 0 || vdec_Interpreter_match_0(op) == (f == 0), "entry 0 (nop) is selected only by its own word");
    OUT(f); CANARY();
}
/* interpreter and disassembler see the same form (same table entry) and the same length for every word */
HARNESS(h_decode_agree)
{
    NONDET(u16, op); verif_outcome = 0;
    int a = vdec_Interpreter_first(op), b = c02_dis_first(op);
    CHECK(a == b, "interpreter and disassembler select the same table entry");
    CHECK(b == c02_dis_last(op), "at most one disassembler entry matches the word");
    CHECK(vdec_Interpreter_need_expansion(op) == c02_dis_need_expansion(op), "interpreter and disassembler agree on whether the word needs a second word");
    NATIVE_ONLY(CHECK(VDEC_DISASSEMBLER_ENTRIES == VDEC_INTERPRETER_ENTRIES && (a < 0 || a != b || !strcmp(vdec_Disassembler_names[b], vdec_Interpreter_names[a])), "same instruction name at the same table index");)
    OUT(a); OUT(b); CANARY();
}
/* bits the encoding marks Unused<> never reach the handler: flipping one selects the same entry and hands over the same operands */
HARNESS(h_unused_bits)
{
    NONDET(u16, op); NONDET(u16, ex); NONDET(u16, bit); verif_outcome = 0;
    NATIVE_ONLY(bit &= 15;)
    ASSUME(bit < 16);
    int k = vdec_Interpreter_first(op);
    u16 um = vdec_Interpreter_unused(k);
    ASSUME((um >> bit) & 1);
    u16 op2 = (u16)(op ^ (1u << bit));
    CHECK(vdec_Interpreter_first(op2) == k, "flipping an unused bit selects the same form");
    u64 a[VDEC_INTERPRETER_MAXARGS], b[VDEC_INTERPRETER_MAXARGS];
    for (int j = 0; j < VDEC_INTERPRETER_MAXARGS; j++) a[j] = b[j] = 0;
    unsigned n = vdec_Interpreter_args(k, op, ex, a), n2 = vdec_Interpreter_args(k, op2, ex, b);
    bool same = n == n2;
    for (int j = 0; j < VDEC_INTERPRETER_MAXARGS; j++) same = same && a[j] == b[j];
    CHECK(same, "flipping an unused bit hands the same operands to the handler");
    CHECK(vdec_Interpreter_need_expansion(op2) == vdec_Interpreter_need_expansion(op), "flipping an unused bit keeps the instruction length");
    OUT(k); OUT(same); CANARY();
}
#endif

/* Run(1): the fetch reads the second program word exactly when the form needs one (as the disassembler reports), hands it to the
 * handler as the expansion, and leaves pc after it -- the operand word is never fetched as an instruction. */
HARNESS(h_run_fetch)
{
    INTERP_RIG(it, st); ABSMEM_SETUP();
    NONDET_ARR(bool, ipend, 3); NONDET(bool, vpend); NONDET(u32, vaddr); NONDET(bool, vctx);
    for (int i = 0; i < 3; i++) { NORM_BOOL(ipend[i]); it.interrupt_pending.e[i] = ipend[i]; }
    NORM_BOOL(vpend); NORM_BOOL(vctx); it.vinterrupt_pending = vpend; it.vinterrupt_address = vaddr & 0x3FFFF; it.vinterrupt_context_switch = vctx;
    CBMC_ONLY(c02_rec.calls = 0; ASSUME(!st.rep && !st.lp && !st.ie);)          /* no hardware loop, no interrupt entry: the plain fetch path */
    u32 pc0 = st.pc, page = (u32)st.prpage << 18;
    CBMC_ONLY(u16 w0 = am_ppeek(pc0 | page);)
    Interpreter_Run(&it, 1);
#ifdef VERIF_CBMC
    bool need = c02_dis_need_expansion(w0);
    CHECK(c02_rec.calls == 1 && c02_rec.opcode == w0, "exactly one instruction is dispatched: the word at pc");
    CHECK(am_preads == 1u + need, "the second word is fetched exactly when the disassembler says the opcode needs one");
    CHECK(c02_rec.expansion == (need ? am_ppeek((pc0 + 1) | page) : 0), "the second word is handed to the handler as its operand");
    CHECK(c02_rec.pc == pc0 + 1 + need && st.pc == pc0 + 1 + need, "pc is past the operand word when the handler runs and when the cycle ends");
#endif
    OUT(st); ABSMEM_OUT(); OUT(verif_outcome); CANARY();
}

/* the same fetch facts on two concrete straight-line instructions, stated over registers only, so that a counterexample replays on the
 * real interpreter: nop (one word) and `mov ##imm16, r0` (two words: word 0x5E00 + operand). */
HARNESS(h_run_fetch_concrete)
{
    INTERP_RIG(it, st); ABSMEM_SETUP(); NONDET(bool, two); NORM_BOOL(two);
    for (int i = 0; i < 3; i++) it.interrupt_pending.e[i] = 0;
    it.vinterrupt_pending = 0; it.vinterrupt_address = 0; it.vinterrupt_context_switch = 0;
    NATIVE_ONLY(st.rep = 0; st.lp = 0; st.bcn = 0; st.ie = 0; st.pc &= 0x3FFFF;)
    ASSUME(!st.rep && !st.lp && !st.ie && st.pc + 2 < 0x40000);
    u32 pc0 = st.pc, page = (u32)st.prpage << 18;
    NATIVE_ONLY(am_prog_store[(pc0 | page) & 0x3FFFF] = two ? 0x5E00 : 0x0000;)
    ASSUME(am_ppeek(pc0 | page) == (two ? 0x5E00 : 0x0000));
    u16 operand = am_ppeek((pc0 + 1) | page);
    Interpreter_Run(&it, 1);
    CHECK(st.pc == pc0 + 1 + two, "pc advances by the instruction's length (1 for nop, 2 for mov ##imm16, r0)");
    CBMC_ONLY(CHECK(c02_rec.calls == 1 && c02_rec.expansion == (two ? operand : 0), "the operand word is what the handler receives");)
    NATIVE_ONLY(CHECK(!two || st.r.e[0] == operand, "mov ##imm16, r0 loads the word after the opcode");)
    OUT(st); CANARY();
}
