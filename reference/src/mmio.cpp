#include <functional>
#include <string>
#include <type_traits>
#include <vector>
#include "ahbm.h"
#include "apbp.h"
#include "btdmp.h"
#include "dma.h"
#include "memory_interface.h"
#include "mmio.h"
#include "timer.h"

namespace Teakra {

auto NoSet(const std::string& debug_string) {
    return [debug_string](u16) { printf("Warning: NoSet on %s\n", debug_string.data()); };
}
auto NoGet(const std::string& debug_string) {
    return [debug_string]() -> u16 {
        printf("Warning: NoGet on %s\n", debug_string.data());
        return 0;
    };
}

struct BitFieldSlot {
    unsigned pos;
    unsigned length;
    std::function<void(u16)> set;
    std::function<u16(void)> get;

    template <typename T>
    static BitFieldSlot RefSlot(unsigned pos, unsigned length, T& var) {
        static_assert(
            std::is_same_v<u16,
                           typename std::conditional_t<std::is_enum_v<T>, std::underlying_type<T>,
                                                       std::enable_if<true, T>>::type>);
        BitFieldSlot slot{pos, length, {}, {}};
        slot.set = [&var](u16 value) { var = static_cast<T>(value); };
        slot.get = [&var]() -> u16 { return static_cast<u16>(var); };
        return slot;
    }
};

struct Cell {
    std::function<void(u16)> set;
    std::function<u16(void)> get;
    u16 index = 0;

    Cell(std::function<void(u16)> set, std::function<u16(void)> get)
        : set(std::move(set)), get(std::move(get)) {}
    Cell() {
        std::shared_ptr<u16> storage = std::make_shared<u16>(0);
        set = [storage, this](u16 value) {
            *storage = value;
            std::printf("MMIO: cell %04X set = %04X\n", index, value);
        };
        get = [storage, this]() -> u16 {
            std::printf("MMIO: cell %04X get\n", index);
            return *storage;
        };
    }
    static Cell ConstCell(u16 constant) {
        Cell cell({}, {});
        cell.set = NoSet("");
        cell.get = [constant]() -> u16 { return constant; };
        return cell;
    }
    static Cell RefCell(u16& var) {
        Cell cell({}, {});
        cell.set = [&var](u16 value) { var = value; };
        cell.get = [&var]() -> u16 { return var; };
        return cell;
    }

    static Cell MirrorCell(Cell* mirror) {
        Cell cell({}, {});
        cell.set = [mirror](u16 value) { mirror->set(value); };
        cell.get = [mirror]() -> u16 { return mirror->get(); };
        return cell;
    }

    static Cell BitFieldCell(const std::vector<BitFieldSlot>& slots) {
        Cell cell({}, {});
        std::shared_ptr<u16> storage = std::make_shared<u16>(0);
        cell.set = [storage, slots](u16 value) {
            for (const auto& slot : slots) {
                if (slot.set) {
                    slot.set((value >> slot.pos) & ((1 << slot.length) - 1));
                }
            }
            *storage = value;
        };
        cell.get = [storage, slots]() -> u16 {
            u16 value = *storage;
            for (const auto& slot : slots) {
                if (slot.get) {
                    value &= ~(((1 << slot.length) - 1) << slot.pos);
                    value |= slot.get() << slot.pos;
                }
            }
            return value;
        };
        return cell;
    }
};

class MMIORegion::Impl {
public:
    std::array<Cell, 0x800> cells{};
    Impl() {
        for (std::size_t i = 0; i < cells.size(); ++i) {
            cells[i].index = (u16)i;
        }
    }
};

MMIORegion::MMIORegion(MemoryInterfaceUnit& miu, ICU& icu, Apbp& apbp_from_cpu, Apbp& apbp_from_dsp,
                       std::array<Timer, 2>& timer, Dma& dma, Ahbm& ahbm,
                       std::array<Btdmp, 2>& btdmp)
    : impl(new Impl) {
    using namespace std::placeholders;

    impl->cells[0x01A] = Cell::ConstCell(0xC902); // chip detect

    // Timer
    for (unsigned i = 0; i < 2; ++i) {
        impl->cells[0x20 + i * 0x10] = Cell::BitFieldCell({
            // TIMERx_CFG
            BitFieldSlot::RefSlot(0, 2, timer[i].scale),       // TS
            BitFieldSlot::RefSlot(2, 3, timer[i].count_mode),  // CM
            BitFieldSlot{6, 1, {}, {}},                        // TP
            BitFieldSlot{7, 1, {}, {}},                        // CT
            BitFieldSlot::RefSlot(8, 1, timer[i].pause),       // PC
            BitFieldSlot::RefSlot(9, 1, timer[i].update_mmio), // MU
            BitFieldSlot{10, 1,
                         [&timer, i](u16 v) {
                             if (v)
                                 timer[i].Restart();
                         },
                         []() -> u16 { return 0; }}, // RES
            BitFieldSlot{11, 1, {}, {}},             // BP
            BitFieldSlot{12, 1, {}, {}},             // CS
            BitFieldSlot{13, 1, {}, {}},             // GP
            BitFieldSlot{14, 2, {}, {}},             // TM
        });

        impl->cells[0x22 + i * 0x10].set = [&timer, i](u16 v) {
            if (v)
                timer[i].TickEvent();
        }; // TIMERx_EW
        impl->cells[0x22 + i * 0x10].get = []() -> u16 { return 0; };
        impl->cells[0x24 + i * 0x10] = Cell::RefCell(timer[i].start_low);    // TIMERx_SCL
        impl->cells[0x26 + i * 0x10] = Cell::RefCell(timer[i].start_high);   // TIMERx_SCH
        impl->cells[0x28 + i * 0x10] = Cell::RefCell(timer[i].counter_low);  // TIMERx_CCL
        impl->cells[0x2A + i * 0x10] = Cell::RefCell(timer[i].counter_high); // TIMERx_CCH
        impl->cells[0x2C + i * 0x10] = Cell();                               // TIMERx_SPWMCL
        impl->cells[0x2E + i * 0x10] = Cell();                               // TIMERx_SPWMCH
    }

    // APBP
    for (unsigned i = 0; i < 3; ++i) {
        impl->cells[0x0C0 + i * 4].set = std::bind(&Apbp::SendData, &apbp_from_dsp, i, _1);
        impl->cells[0x0C0 + i * 4].get = std::bind(&Apbp::PeekData, &apbp_from_dsp, i);
        impl->cells[0x0C2 + i * 4].set = [](u16) {};
        impl->cells[0x0C2 + i * 4].get = std::bind(&Apbp::RecvData, &apbp_from_cpu, i);
    }
    impl->cells[0x0CC].set = std::bind(&Apbp::SetSemaphore, &apbp_from_dsp, _1);
    impl->cells[0x0CC].get = std::bind(&Apbp::GetSemaphore, &apbp_from_dsp);
    impl->cells[0x0CE].set = std::bind(&Apbp::MaskSemaphore, &apbp_from_cpu, _1);
    impl->cells[0x0CE].get = std::bind(&Apbp::GetSemaphoreMask, &apbp_from_cpu);
    impl->cells[0x0D0].set = std::bind(&Apbp::ClearSemaphore, &apbp_from_cpu, _1);
    impl->cells[0x0D0].get = []() -> u16 { return 0; };
    impl->cells[0x0D2].set = [](u16) {};
    impl->cells[0x0D2].get = std::bind(&Apbp::GetSemaphore, &apbp_from_cpu);
    impl->cells[0x0D4] = Cell::BitFieldCell({
        BitFieldSlot{2, 1, {}, {}}, // ARM side endianness flag
        BitFieldSlot{8, 1,
                     [&apbp_from_cpu](u16 v) { return apbp_from_cpu.SetDisableInterrupt(0, v); },
                     [&apbp_from_cpu]() -> u16 { return apbp_from_cpu.GetDisableInterrupt(0); }},
        BitFieldSlot{12, 1,
                     [&apbp_from_cpu](u16 v) { return apbp_from_cpu.SetDisableInterrupt(1, v); },
                     [&apbp_from_cpu]() -> u16 { return apbp_from_cpu.GetDisableInterrupt(1); }},
        BitFieldSlot{13, 1,
                     [&apbp_from_cpu](u16 v) { return apbp_from_cpu.SetDisableInterrupt(2, v); },
                     [&apbp_from_cpu]() -> u16 { return apbp_from_cpu.GetDisableInterrupt(2); }},
    });
    impl->cells[0x0D6] = Cell::BitFieldCell({
        BitFieldSlot{5, 1, {}, [&apbp_from_dsp]() -> u16 { return apbp_from_dsp.IsDataReady(0); }},
        BitFieldSlot{6, 1, {}, [&apbp_from_dsp]() -> u16 { return apbp_from_dsp.IsDataReady(1); }},
        BitFieldSlot{7, 1, {}, [&apbp_from_dsp]() -> u16 { return apbp_from_dsp.IsDataReady(2); }},
        BitFieldSlot{8, 1, {}, [&apbp_from_cpu]() -> u16 { return apbp_from_cpu.IsDataReady(0); }},
        BitFieldSlot{
            9, 1, {}, [&apbp_from_cpu]() -> u16 { return apbp_from_cpu.IsSemaphoreSignaled(); }},
        BitFieldSlot{12, 1, {}, [&apbp_from_cpu]() -> u16 { return apbp_from_cpu.IsDataReady(1); }},
        BitFieldSlot{13, 1, {}, [&apbp_from_cpu]() -> u16 { return apbp_from_cpu.IsDataReady(2); }},
    });

    // This register is a mirror of CPU side register DSP_PSTS
    impl->cells[0x0D8] = Cell::BitFieldCell({
        BitFieldSlot{
            9, 1, {}, [&apbp_from_cpu]() -> u16 { return apbp_from_cpu.IsSemaphoreSignaled(); }},
        BitFieldSlot{10, 1, {}, [&apbp_from_dsp]() -> u16 { return apbp_from_dsp.IsDataReady(0); }},
        BitFieldSlot{11, 1, {}, [&apbp_from_dsp]() -> u16 { return apbp_from_dsp.IsDataReady(1); }},
        BitFieldSlot{12, 1, {}, [&apbp_from_dsp]() -> u16 { return apbp_from_dsp.IsDataReady(2); }},
        BitFieldSlot{13, 1, {}, [&apbp_from_cpu]() -> u16 { return apbp_from_cpu.IsDataReady(0); }},
        BitFieldSlot{14, 1, {}, [&apbp_from_cpu]() -> u16 { return apbp_from_cpu.IsDataReady(1); }},
        BitFieldSlot{15, 1, {}, [&apbp_from_cpu]() -> u16 { return apbp_from_cpu.IsDataReady(2); }},
    });

    // AHBM
    impl->cells[0x0E0].set = NoSet("AHBM::BusyFlag");
    impl->cells[0x0E0].get = std::bind(&Ahbm::GetBusyFlag, &ahbm);
    for (u16 i = 0; i < 3; ++i) {
        impl->cells[0x0E2 + i * 6] = Cell::BitFieldCell({
            // BitFieldSlot{0, 1, ?, ?},
            BitFieldSlot{1, 2, std::bind(&Ahbm::SetBurstSize, &ahbm, i, _1),
                         std::bind(&Ahbm::GetBurstSize, &ahbm, i)},
            BitFieldSlot{4, 2, std::bind(&Ahbm::SetUnitSize, &ahbm, i, _1),
                         std::bind(&Ahbm::GetUnitSize, &ahbm, i)},
        });
        impl->cells[0x0E4 + i * 6] = Cell::BitFieldCell({
            BitFieldSlot{8, 1, std::bind(&Ahbm::SetDirection, &ahbm, i, _1),
                         std::bind(&Ahbm::GetDirection, &ahbm, i)},
            // BitFieldSlot{9, 1, ?, ?},
        });
        impl->cells[0x0E6 + i * 6].set = std::bind(&Ahbm::SetDmaChannel, &ahbm, i, _1);
        impl->cells[0x0E6 + i * 6].get = std::bind(&Ahbm::GetDmaChannel, &ahbm, i);
    }

    // MIU
    // impl->cells[0x100]; // MIU_WSCFG0
    // impl->cells[0x102]; // MIU_WSCFG1
    // impl->cells[0x104]; // MIU_Z0WSCFG
    // impl->cells[0x106]; // MIU_Z1WSCFG
    // impl->cells[0x108]; // MIU_Z2WSCFG
    // impl->cells[0x10C]; // MIU_Z3WSCFG
    impl->cells[0x10E] = Cell::RefCell(miu.x_page); // MIU_XPAGE
    impl->cells[0x110] = Cell::RefCell(miu.y_page); // MIU_YPAGE
    impl->cells[0x112] = Cell::RefCell(miu.z_page); // MIU_ZPAGE
    impl->cells[0x114] = Cell::BitFieldCell({
        // MIU_PAGE0CFG
        BitFieldSlot::RefSlot(0, 6, miu.x_size[0]),
        BitFieldSlot::RefSlot(8, 6, miu.y_size[0]),
    });
    impl->cells[0x116] = Cell::BitFieldCell({
        // MIU_PAGE1CFG
        BitFieldSlot::RefSlot(0, 6, miu.x_size[1]),
        BitFieldSlot::RefSlot(8, 6, miu.y_size[1]),
    });
    // impl->cells[0x118]; // MIU_OFFPAGECFG
    impl->cells[0x11A] = Cell::BitFieldCell({
        BitFieldSlot{0, 1, {}, {}},                 // PP
        BitFieldSlot{1, 1, {}, {}},                 // TESTP
        BitFieldSlot{2, 1, {}, {}},                 // INTP
        BitFieldSlot{4, 1, {}, {}},                 // ZSINGLEP
        BitFieldSlot::RefSlot(6, 1, miu.page_mode), // PAGEMODE
    });
    // impl->cells[0x11C]; // MIU_DLCFG
    impl->cells[0x11E] = Cell::RefCell(miu.mmio_base); // MIU_MMIOBASE
    // impl->cells[0x120]; // MIU_OBSCFG
    // impl->cells[0x122]; // MIU_POLARITY

    // DMA
    impl->cells[0x184].set = std::bind(&Dma::EnableChannel, &dma, _1);
    impl->cells[0x184].get = std::bind(&Dma::GetChannelEnabled, &dma);

    impl->cells[0x18C].get = []() -> u16 { return 0xFFFF; }; // SEOX ?

    impl->cells[0x1BE].set = std::bind(&Dma::ActivateChannel, &dma, _1);
    impl->cells[0x1BE].get = std::bind(&Dma::GetActiveChannel, &dma);
    impl->cells[0x1C0].set = std::bind(&Dma::SetAddrSrcLow, &dma, _1);
    impl->cells[0x1C0].get = std::bind(&Dma::GetAddrSrcLow, &dma);
    impl->cells[0x1C2].set = std::bind(&Dma::SetAddrSrcHigh, &dma, _1);
    impl->cells[0x1C2].get = std::bind(&Dma::GetAddrSrcHigh, &dma);
    impl->cells[0x1C4].set = std::bind(&Dma::SetAddrDstLow, &dma, _1);
    impl->cells[0x1C4].get = std::bind(&Dma::GetAddrDstLow, &dma);
    impl->cells[0x1C6].set = std::bind(&Dma::SetAddrDstHigh, &dma, _1);
    impl->cells[0x1C6].get = std::bind(&Dma::GetAddrDstHigh, &dma);
    impl->cells[0x1C8].set = std::bind(&Dma::SetSize0, &dma, _1);
    impl->cells[0x1C8].get = std::bind(&Dma::GetSize0, &dma);
    impl->cells[0x1CA].set = std::bind(&Dma::SetSize1, &dma, _1);
    impl->cells[0x1CA].get = std::bind(&Dma::GetSize1, &dma);
    impl->cells[0x1CC].set = std::bind(&Dma::SetSize2, &dma, _1);
    impl->cells[0x1CC].get = std::bind(&Dma::GetSize2, &dma);
    impl->cells[0x1CE].set = std::bind(&Dma::SetSrcStep0, &dma, _1);
    impl->cells[0x1CE].get = std::bind(&Dma::GetSrcStep0, &dma);
    impl->cells[0x1D0].set = std::bind(&Dma::SetDstStep0, &dma, _1);
    impl->cells[0x1D0].get = std::bind(&Dma::GetDstStep0, &dma);
    impl->cells[0x1D2].set = std::bind(&Dma::SetSrcStep1, &dma, _1);
    impl->cells[0x1D2].get = std::bind(&Dma::GetSrcStep1, &dma);
    impl->cells[0x1D4].set = std::bind(&Dma::SetDstStep1, &dma, _1);
    impl->cells[0x1D4].get = std::bind(&Dma::GetDstStep1, &dma);
    impl->cells[0x1D6].set = std::bind(&Dma::SetSrcStep2, &dma, _1);
    impl->cells[0x1D6].get = std::bind(&Dma::GetSrcStep2, &dma);
    impl->cells[0x1D8].set = std::bind(&Dma::SetDstStep2, &dma, _1);
    impl->cells[0x1D8].get = std::bind(&Dma::GetDstStep2, &dma);
    impl->cells[0x1DA] = Cell::BitFieldCell({
        BitFieldSlot{0, 4, std::bind(&Dma::SetSrcSpace, &dma, _1),
                     std::bind(&Dma::GetSrcSpace, &dma)},
        BitFieldSlot{4, 4, std::bind(&Dma::SetDstSpace, &dma, _1),
                     std::bind(&Dma::GetDstSpace, &dma)},
        // BitFieldSlot{9, 1, ?, ?},
        BitFieldSlot{10, 1, std::bind(&Dma::SetDwordMode, &dma, _1),
                     std::bind(&Dma::GetDwordMode, &dma)},
    });
    impl->cells[0x1DC].set = std::bind(&Dma::SetY, &dma, _1);
    impl->cells[0x1DC].get = std::bind(&Dma::GetY, &dma);
    impl->cells[0x1DE].set = std::bind(&Dma::SetZ, &dma, _1);
    impl->cells[0x1DE].get = std::bind(&Dma::GetZ, &dma);

    // ICU
    impl->cells[0x200].set = NoSet("ICU::GetRequest");
    impl->cells[0x200].get = std::bind(&ICU::GetRequest, &icu);
    impl->cells[0x202].set = std::bind(&ICU::Acknowledge, &icu, _1);
    impl->cells[0x202].get = std::bind(&ICU::GetAcknowledge, &icu);
    impl->cells[0x204].set = std::bind(&ICU::Trigger, &icu, _1);
    impl->cells[0x204].get = std::bind(&ICU::GetTrigger, &icu);
    impl->cells[0x206].set = std::bind(&ICU::SetEnable, &icu, 0, _1);
    impl->cells[0x206].get = std::bind(&ICU::GetEnable, &icu, 0);
    impl->cells[0x208].set = std::bind(&ICU::SetEnable, &icu, 1, _1);
    impl->cells[0x208].get = std::bind(&ICU::GetEnable, &icu, 1);
    impl->cells[0x20A].set = std::bind(&ICU::SetEnable, &icu, 2, _1);
    impl->cells[0x20A].get = std::bind(&ICU::GetEnable, &icu, 2);
    impl->cells[0x20C].set = std::bind(&ICU::SetEnableVectored, &icu, _1);
    impl->cells[0x20C].get = std::bind(&ICU::GetEnableVectored, &icu);
    // impl->cells[0x20E]; // polarity for each interrupt?
    // impl->cells[0x210]; // source type for each interrupt?
    for (unsigned i = 0; i < 16; ++i) {
        impl->cells[0x212 + i * 4] = Cell::BitFieldCell({
            BitFieldSlot::RefSlot(0, 2, icu.vector_high[i]),
            BitFieldSlot::RefSlot(15, 1, icu.vector_context_switch[i]),
        });
        impl->cells[0x214 + i * 4] = Cell::RefCell(icu.vector_low[i]);
    }

    // BTDMP
    for (u16 i = 0; i < 2; ++i) {
        impl->cells[0x2A2 + i * 0x80].set = std::bind(&Btdmp::SetTransmitClockConfig, &btdmp[i], _1);
        impl->cells[0x2A2 + i * 0x80].get = std::bind(&Btdmp::GetTransmitClockConfig, &btdmp[i]);
        impl->cells[0x2BE + i * 0x80].set = std::bind(&Btdmp::SetTransmitEnable, &btdmp[i], _1);
        impl->cells[0x2BE + i * 0x80].get = std::bind(&Btdmp::GetTransmitEnable, &btdmp[i]);
        impl->cells[0x2C2 + i * 0x80] = Cell::BitFieldCell({
            BitFieldSlot{3, 1, {}, std::bind(&Btdmp::GetTransmitFull, &btdmp[i])},
            BitFieldSlot{4, 1, {}, std::bind(&Btdmp::GetTransmitEmpty, &btdmp[i])},
        });
        impl->cells[0x2C6 + i * 0x80].set = std::bind(&Btdmp::Send, &btdmp[i], _1);
        impl->cells[0x2CA + i * 0x80].set = std::bind(&Btdmp::SetTransmitFlush, &btdmp[i], _1);
        impl->cells[0x2CA + i * 0x80].get = std::bind(&Btdmp::GetTransmitFlush, &btdmp[i]);
    }
}

MMIORegion::~MMIORegion() = default;

u16 MMIORegion::Read(u16 addr) {
    u16 value = impl->cells[addr].get();
    return value;
}
void MMIORegion::Write(u16 addr, u16 value) {
    impl->cells[addr].set(value);
}
} // namespace Teakra
