#pragma once
#include <atomic>
#include <stdexcept>
#include <tuple>
#include <type_traits>
#include <unordered_map>
#include <unordered_set>
#include <utility>
#include "bit.h"
#include "core_timing.h"
#include "crash.h"
#include "decoder.h"
#include "memory_interface.h"
#include "operand.h"
#include "register.h"

namespace Teakra {

class UnimplementedException : public std::runtime_error {
public:
    UnimplementedException() : std::runtime_error("unimplemented") {}
};

class Interpreter {
public:
    Interpreter(CoreTiming& core_timing, RegisterState& regs, MemoryInterface& mem)
        : core_timing(core_timing), regs(regs), mem(mem) {}

    void PushPC() {
        u16 l = (u16)(regs.pc & 0xFFFF);
        u16 h = (u16)(regs.pc >> 16);
        if (regs.cpc == 1) {
            mem.DataWrite(--regs.sp, h);
            mem.DataWrite(--regs.sp, l);
        } else {
            mem.DataWrite(--regs.sp, l);
            mem.DataWrite(--regs.sp, h);
        }
    }

    void PopPC() {
        u16 h, l;
        if (regs.cpc == 1) {
            l = mem.DataRead(regs.sp++);
            h = mem.DataRead(regs.sp++);
        } else {
            h = mem.DataRead(regs.sp++);
            l = mem.DataRead(regs.sp++);
        }
        SetPC(l | ((u32)h << 16));
    }

    void SetPC(u32 new_pc) {
        ASSERT(new_pc < 0x40000);
        regs.pc = new_pc;
    }

    void undefined(u16 opcode) {
        UNREACHABLE();
    }

    void Run(u64 cycles) {
        idle = false;
        for (u64 i = 0; i < cycles; ++i) {
            if (idle) {
                u64 skipped = core_timing.Skip(cycles - i - 1);
                i += skipped;

                // Skip additional tick so to let components fire interrupts
                if (i < cycles - 1) {
                    ++i;
                    core_timing.Tick();
                }
            }

            for (std::size_t i = 0; i < 3; ++i) {
                if (interrupt_pending[i].exchange(false)) {
                    regs.ip[i] = 1;
                }
            }

            if (vinterrupt_pending.exchange(false)) {
                regs.ipv = 1;
            }

            u16 opcode = mem.ProgramRead((regs.pc++) | (regs.prpage << 18));
            auto& decoder = decoders[opcode];
            u16 expand_value = 0;
            if (decoder.NeedExpansion()) {
                expand_value = mem.ProgramRead((regs.pc++) | (regs.prpage << 18));
            }

            if (regs.rep) {
                if (regs.repc == 0) {
                    regs.rep = false;
                } else {
                    --regs.repc;
                    --regs.pc;
                }
            }

            if (regs.lp && regs.bkrep_stack[regs.bcn - 1].end + 1 == regs.pc) {
                if (regs.bkrep_stack[regs.bcn - 1].lc == 0) {
                    --regs.bcn;
                    regs.lp = regs.bcn != 0;
                } else {
                    --regs.bkrep_stack[regs.bcn - 1].lc;
                    regs.pc = regs.bkrep_stack[regs.bcn - 1].start;
                }
            }

            decoder.call(*this, opcode, expand_value);

            // I am not sure if a single-instruction loop is interruptable and how it is handled,
            // so just disable interrupt for it for now.
            if (regs.ie && !regs.rep) {
                bool interrupt_handled = false;
                for (u32 i = 0; i < regs.im.size(); ++i) {
                    if (regs.im[i] && regs.ip[i]) {
                        regs.ip[i] = 0;
                        regs.ie = 0;
                        PushPC();
                        regs.pc = 0x0006 + i * 8;
                        idle = false;
                        interrupt_handled = true;
                        if (regs.ic[i]) {
                            ContextStore();
                        }
                        break;
                    }
                }
                if (!interrupt_handled && regs.imv && regs.ipv) {
                    regs.ipv = 0;
                    regs.ie = 0;
                    PushPC();
                    regs.pc = vinterrupt_address;
                    idle = false;
                    if (vinterrupt_context_switch) {
                        ContextStore();
                    }
                }
            }

            core_timing.Tick();
        }
    }

    void SignalInterrupt(u32 i) {
        interrupt_pending[i] = true;
    }
    void SignalVectoredInterrupt(u32 address, bool context_switch) {
        vinterrupt_address = address;
        vinterrupt_pending = true;
        vinterrupt_context_switch = context_switch;
    }

    using instruction_return_type = void;

    void nop() {
        // literally nothing
    }

    void norm(Ax a, Rn b, StepZIDS bs) {
        if (regs.fn == 0) {
            u64 value = GetAcc(a.GetName());
            regs.fv = value != SignExtend<39>(value);
            if (regs.fv) {
                regs.fvl = 1;
            }
            value <<= 1;
            regs.fc0 = (value & ((u64)1 << 40)) != 0;
            value = SignExtend<40>(value);
            SetAccAndFlag(a.GetName(), value);
            u32 unit = b.Index();
            RnAndModify(unit, bs.GetName());
            regs.fr = regs.r[unit] == 0;
        }
    }
    void swap(SwapType swap) {
        RegName s0, d0, s1, d1;
        u64 u, v;
        switch (swap.GetName()) {
        case SwapTypeValue::a0b0:
            s0 = d1 = RegName::a0;
            s1 = d0 = RegName::b0;
            break;
        case SwapTypeValue::a0b1:
            s0 = d1 = RegName::a0;
            s1 = d0 = RegName::b1;
            break;
        case SwapTypeValue::a1b0:
            s0 = d1 = RegName::a1;
            s1 = d0 = RegName::b0;
            break;
        case SwapTypeValue::a1b1:
            s0 = d1 = RegName::a1;
            s1 = d0 = RegName::b1;
            break;
        case SwapTypeValue::a0b0a1b1:
            u = GetAcc(RegName::a1);
            v = GetAcc(RegName::b1);
            SatAndSetAccAndFlag(RegName::a1, v);
            SatAndSetAccAndFlag(RegName::b1, u);
            s0 = d1 = RegName::a0;
            s1 = d0 = RegName::b0;
            break;
        case SwapTypeValue::a0b1a1b0:
            u = GetAcc(RegName::a1);
            v = GetAcc(RegName::b0);
            SatAndSetAccAndFlag(RegName::a1, v);
            SatAndSetAccAndFlag(RegName::b0, u);
            s0 = d1 = RegName::a0;
            s1 = d0 = RegName::b1;
            break;
        case SwapTypeValue::a0b0a1:
            s0 = RegName::a0;
            d0 = s1 = RegName::b0;
            d1 = RegName::a1;
            break;
        case SwapTypeValue::a0b1a1:
            s0 = RegName::a0;
            d0 = s1 = RegName::b1;
            d1 = RegName::a1;
            break;
        case SwapTypeValue::a1b0a0:
            s0 = RegName::a1;
            d0 = s1 = RegName::b0;
            d1 = RegName::a0;
            break;
        case SwapTypeValue::a1b1a0:
            s0 = RegName::a1;
            d0 = s1 = RegName::b1;
            d1 = RegName::a0;
            break;
        case SwapTypeValue::b0a0b1:
            s0 = d1 = RegName::a0;
            d0 = RegName::b1;
            s1 = RegName::b0;
            break;
        case SwapTypeValue::b0a1b1:
            s0 = d1 = RegName::a1;
            d0 = RegName::b1;
            s1 = RegName::b0;
            break;
        case SwapTypeValue::b1a0b0:
            s0 = d1 = RegName::a0;
            d0 = RegName::b0;
            s1 = RegName::b1;
            break;
        case SwapTypeValue::b1a1b0:
            s0 = d1 = RegName::a1;
            d0 = RegName::b0;
            s1 = RegName::b1;
            break;
        default:
            UNREACHABLE();
        }
        u = GetAcc(s0);
        v = GetAcc(s1);
        SatAndSetAccAndFlag(d0, u);
        SatAndSetAccAndFlag(d1, v); // only this one affects flags (except for fl)
    }
    void trap() {
        throw UnimplementedException();
    }

    void DoMultiplication(u32 unit, bool x_sign, bool y_sign) {
        u32 x = regs.x[unit];
        u32 y = regs.y[unit];
        if (regs.hwm == 1 || (regs.hwm == 3 && unit == 0)) {
            y >>= 8;
        } else if (regs.hwm == 2 || (regs.hwm == 3 && unit == 1)) {
            y &= 0xFF;
        }
        if (x_sign)
            x = SignExtend<16>(x);
        if (y_sign)
            y = SignExtend<16>(y);
        regs.p[unit] = x * y;
        if (x_sign || y_sign)
            regs.pe[unit] = regs.p[unit] >> 31;
        else
            regs.pe[unit] = 0;
    }

    u64 AddSub(u64 a, u64 b, bool sub) {
        a &= 0xFF'FFFF'FFFF;
        b &= 0xFF'FFFF'FFFF;
        u64 result = sub ? a - b : a + b;
        regs.fc0 = (result >> 40) & 1;
        if (sub)
            b = ~b;
        regs.fv = ((~(a ^ b) & (a ^ result)) >> 39) & 1;
        if (regs.fv) {
            regs.fvl = 1;
        }
        return SignExtend<40>(result);
    }

    void ProductSum(SumBase base, RegName acc, bool sub_p0, bool p0_align, bool sub_p1,
                    bool p1_align) {
        u64 value_a = ProductToBus40(Px{0});
        u64 value_b = ProductToBus40(Px{1});
        if (p0_align) {
            value_a = SignExtend<24>(value_a >> 16);
        }
        if (p1_align) {
            value_b = SignExtend<24>(value_b >> 16);
        }
        u64 value_c;
        switch (base) {
        case SumBase::Zero:
            value_c = 0;
            break;
        case SumBase::Acc:
            value_c = GetAcc(acc);
            break;
        case SumBase::Sv:
            value_c = SignExtend<32, u64>((u64)regs.sv << 16);
            break;
        case SumBase::SvRnd:
            value_c = SignExtend<32, u64>((u64)regs.sv << 16) | 0x8000;
            break;
        default:
            UNREACHABLE();
        }
        u64 result = AddSub(value_c, value_a, sub_p0);
        u16 temp_c = regs.fc0;
        u16 temp_v = regs.fv;
        result = AddSub(result, value_b, sub_p1);
        // Is this correct?
        if (sub_p0 == sub_p1) {
            regs.fc0 |= temp_c;
            regs.fv |= temp_v;
        } else {
            regs.fc0 ^= temp_c;
            regs.fv ^= temp_v;
        }
        SatAndSetAccAndFlag(acc, result);
    }

    void AlmGeneric(AlmOp op, u64 a, Ax b) {
        switch (op) {
        case AlmOp::Or: {
            u64 value = GetAcc(b.GetName());
            value |= a;
            value = SignExtend<40>(value);
            SetAccAndFlag(b.GetName(), value);
            break;
        }
        case AlmOp::And: {
            u64 value = GetAcc(b.GetName());
            value &= a;
            value = SignExtend<40>(value);
            SetAccAndFlag(b.GetName(), value);
            break;
        }
        case AlmOp::Xor: {
            u64 value = GetAcc(b.GetName());
            value ^= a;
            value = SignExtend<40>(value);
            SetAccAndFlag(b.GetName(), value);
            break;
        }
        case AlmOp::Tst0: {
            u64 value = GetAcc(b.GetName()) & 0xFFFF;
            regs.fz = (value & a) == 0;
            break;
        }
        case AlmOp::Tst1: {
            u64 value = GetAcc(b.GetName()) & 0xFFFF;
            regs.fz = (value & ~a) == 0;
            break;
        }
        case AlmOp::Cmp:
        case AlmOp::Cmpu:
        case AlmOp::Sub:
        case AlmOp::Subl:
        case AlmOp::Subh:
        case AlmOp::Add:
        case AlmOp::Addl:
        case AlmOp::Addh: {
            u64 value = GetAcc(b.GetName());
            bool sub = !(op == AlmOp::Add || op == AlmOp::Addl || op == AlmOp::Addh);
            u64 result = AddSub(value, a, sub);
            if (op == AlmOp::Cmp || op == AlmOp::Cmpu) {
                SetAccFlag(result);
            } else {
                SatAndSetAccAndFlag(b.GetName(), result);
            }
            break;
        }
        case AlmOp::Msu: {
            u64 value = GetAcc(b.GetName());
            u64 product = ProductToBus40(Px{0});
            u64 result = AddSub(value, product, true);
            SatAndSetAccAndFlag(b.GetName(), result);

            regs.x[0] = a & 0xFFFF;
            DoMultiplication(0, true, true);
            break;
        }
        case AlmOp::Sqra: {
            u64 value = GetAcc(b.GetName());
            u64 product = ProductToBus40(Px{0});
            u64 result = AddSub(value, product, false);
            SatAndSetAccAndFlag(b.GetName(), result);
        }
            [[fallthrough]];
        case AlmOp::Sqr: {
            regs.y[0] = regs.x[0] = a & 0xFFFF;
            DoMultiplication(0, true, true);
            break;
        }

        default:
            UNREACHABLE();
        }
    }

    u64 ExtendOperandForAlm(AlmOp op, u16 a) {
        switch (op) {
        case AlmOp::Cmp:
        case AlmOp::Sub:
        case AlmOp::Add:
            return SignExtend<16, u64>(a);
        case AlmOp::Addh:
        case AlmOp::Subh:
            return SignExtend<32, u64>((u64)a << 16);
        default:
            return a;
        }
    }

    void alm(Alm op, MemImm8 a, Ax b) {
        u16 value = LoadFromMemory(a);
        AlmGeneric(op.GetName(), ExtendOperandForAlm(op.GetName(), value), b);
    }
    void alm(Alm op, Rn a, StepZIDS as, Ax b) {
        u16 address = RnAddressAndModify(a.Index(), as.GetName());
        u16 value = mem.DataRead(address);
        AlmGeneric(op.GetName(), ExtendOperandForAlm(op.GetName(), value), b);
    }
    void alm(Alm op, Register a, Ax b) {
        u64 value;
        auto CheckBus40OperandAllowed = [op] {
            static const std::unordered_set<AlmOp> allowed_instruction{
                AlmOp::Or, AlmOp::And, AlmOp::Xor, AlmOp::Add, AlmOp::Cmp, AlmOp::Sub,
            };
            if (allowed_instruction.count(op.GetName()) == 0)
                throw UnimplementedException(); // weird effect. probably undefined
        };
        switch (a.GetName()) {
        // need more test
        case RegName::p:
            CheckBus40OperandAllowed();
            value = ProductToBus40(Px{0});
            break;
        case RegName::a0:
        case RegName::a1:
            CheckBus40OperandAllowed();
            value = GetAcc(a.GetName());
            break;
        default:
            value = ExtendOperandForAlm(op.GetName(), RegToBus16(a.GetName()));
            break;
        }
        AlmGeneric(op.GetName(), value, b);
    }
    void alm_r6(Alm op, Ax b) {
        u16 value = regs.r[6];
        AlmGeneric(op.GetName(), ExtendOperandForAlm(op.GetName(), value), b);
    }

    void alu(Alu op, MemImm16 a, Ax b) {
        u16 value = LoadFromMemory(a);
        AlmGeneric(op.GetName(), ExtendOperandForAlm(op.GetName(), value), b);
    }
    void alu(Alu op, MemR7Imm16 a, Ax b) {
        u16 value = LoadFromMemory(a);
        AlmGeneric(op.GetName(), ExtendOperandForAlm(op.GetName(), value), b);
    }
    void alu(Alu op, Imm16 a, Ax b) {
        u16 value = a.Unsigned16();
        AlmGeneric(op.GetName(), ExtendOperandForAlm(op.GetName(), value), b);
    }
    void alu(Alu op, Imm8 a, Ax b) {
        u16 value = a.Unsigned16();
        u64 and_backup = 0;
        if (op.GetName() == AlmOp::And) {
            // AND instruction has a special treatment:
            // bit 8~15 are unaffected in the accumulator, but the flags are set as if they are
            // affected
            and_backup = GetAcc(b.GetName()) & 0xFF00;
        }
        AlmGeneric(op.GetName(), ExtendOperandForAlm(op.GetName(), value), b);
        if (op.GetName() == AlmOp::And) {
            u64 and_new = GetAcc(b.GetName()) & 0xFFFF'FFFF'FFFF'00FF;
            SetAcc(b.GetName(), and_backup | and_new);
        }
    }
    void alu(Alu op, MemR7Imm7s a, Ax b) {
        u16 value = LoadFromMemory(a);
        AlmGeneric(op.GetName(), ExtendOperandForAlm(op.GetName(), value), b);
    }

    void or_(Ab a, Ax b, Ax c) {
        u64 value = GetAcc(a.GetName()) | GetAcc(b.GetName());
        SetAccAndFlag(c.GetName(), value);
    }
    void or_(Ax a, Bx b, Ax c) {
        u64 value = GetAcc(a.GetName()) | GetAcc(b.GetName());
        SetAccAndFlag(c.GetName(), value);
    }
    void or_(Bx a, Bx b, Ax c) {
        u64 value = GetAcc(a.GetName()) | GetAcc(b.GetName());
        SetAccAndFlag(c.GetName(), value);
    }

    u16 GenericAlb(Alb op, u16 a, u16 b) {
        u16 result;
        switch (op.GetName()) {
        case AlbOp::Set: {
            result = a | b;
            regs.fm = result >> 15;
            break;
        }
        case AlbOp::Rst: {
            result = ~a & b;
            regs.fm = result >> 15;
            break;
        }
        case AlbOp::Chng: {
            result = a ^ b;
            regs.fm = result >> 15;
            break;
        }
        case AlbOp::Addv: {
            u32 r = a + b;
            regs.fc0 = (r >> 16) != 0;
            regs.fm = (SignExtend<16, u32>(b) + SignExtend<16, u32>(a)) >> 31; // !
            result = r & 0xFFFF;
            break;
        }
        case AlbOp::Tst0: {
            result = (a & b) != 0;
            break;
        }
        case AlbOp::Tst1: {
            result = (a & ~b) != 0;
            break;
        }
        case AlbOp::Cmpv:
        case AlbOp::Subv: {
            u32 r = b - a;
            regs.fc0 = (r >> 16) != 0;
            regs.fm = (SignExtend<16, u32>(b) - SignExtend<16, u32>(a)) >> 31; // !
            result = r & 0xFFFF;
            break;
        }
        default:
            UNREACHABLE();
        }
        regs.fz = result == 0;
        return result;
    }

    static bool IsAlbModifying(Alb op) {
        switch (op.GetName()) {
        case AlbOp::Set:
        case AlbOp::Rst:
        case AlbOp::Chng:
        case AlbOp::Addv:
        case AlbOp::Subv:
            return true;
        case AlbOp::Tst0:
        case AlbOp::Tst1:
        case AlbOp::Cmpv:
            return false;
        default:
            UNREACHABLE();
        }
    }

    void alb(Alb op, Imm16 a, MemImm8 b) {
        u16 bv = LoadFromMemory(b);
        u16 result = GenericAlb(op, a.Unsigned16(), bv);
        if (IsAlbModifying(op))
            StoreToMemory(b, result);
    }
    void alb(Alb op, Imm16 a, Rn b, StepZIDS bs) {
        u16 address = RnAddressAndModify(b.Index(), bs.GetName());
        u16 bv = mem.DataRead(address);
        u16 result = GenericAlb(op, a.Unsigned16(), bv);
        if (IsAlbModifying(op))
            mem.DataWrite(address, result);
    }
    void alb(Alb op, Imm16 a, Register b) {
        u16 bv;
        if (b.GetName() == RegName::p) {
            bv = (u16)(ProductToBus40(Px{0}) >> 16);
        } else if (b.GetName() == RegName::a0 || b.GetName() == RegName::a1) {
            throw UnimplementedException(); // weird effect;
        } else {
            bv = RegToBus16(b.GetName());
        }
        u16 result = GenericAlb(op, a.Unsigned16(), bv);
        if (IsAlbModifying(op)) {
            switch (b.GetName()) {
            case RegName::a0:
            case RegName::a1:
                UNREACHABLE();
            // operation on accumulators doesn't go through regular bus with flag and saturation
            case RegName::a0l:
                regs.a[0] = (regs.a[0] & 0xFFFF'FFFF'FFFF'0000) | result;
                break;
            case RegName::a1l:
                regs.a[1] = (regs.a[1] & 0xFFFF'FFFF'FFFF'0000) | result;
                break;
            case RegName::b0l:
                regs.b[0] = (regs.b[0] & 0xFFFF'FFFF'FFFF'0000) | result;
                break;
            case RegName::b1l:
                regs.b[1] = (regs.b[1] & 0xFFFF'FFFF'FFFF'0000) | result;
                break;
            case RegName::a0h:
                regs.a[0] = (regs.a[0] & 0xFFFF'FFFF'0000'FFFF) | ((u64)result << 16);
                break;
            case RegName::a1h:
                regs.a[1] = (regs.a[1] & 0xFFFF'FFFF'0000'FFFF) | ((u64)result << 16);
                break;
            case RegName::b0h:
                regs.b[0] = (regs.b[0] & 0xFFFF'FFFF'0000'FFFF) | ((u64)result << 16);
                break;
            case RegName::b1h:
                regs.b[1] = (regs.b[1] & 0xFFFF'FFFF'0000'FFFF) | ((u64)result << 16);
                break;
            default:
                RegFromBus16(b.GetName(), result); // including RegName:p (p0h)
            }
        }
    }
    void alb_r6(Alb op, Imm16 a) {
        u16 bv = regs.r[6];
        u16 result = GenericAlb(op, a.Unsigned16(), bv);
        if (IsAlbModifying(op))
            regs.r[6] = result;
    }
    void alb(Alb op, Imm16 a, SttMod b) {
        u16 bv = RegToBus16(b.GetName());
        u16 result = GenericAlb(op, a.Unsigned16(), bv);
        if (IsAlbModifying(op))
            RegFromBus16(b.GetName(), result);
    }

    void add(Ab a, Bx b) {
        u64 value_a = GetAcc(a.GetName());
        u64 value_b = GetAcc(b.GetName());
        u64 result = AddSub(value_b, value_a, false);
        SatAndSetAccAndFlag(b.GetName(), result);
    }
    void add(Bx a, Ax b) {
        u64 value_a = GetAcc(a.GetName());
        u64 value_b = GetAcc(b.GetName());
        u64 result = AddSub(value_b, value_a, false);
        SatAndSetAccAndFlag(b.GetName(), result);
    }
    void add_p1(Ax b) {
        u64 value_a = ProductToBus40(Px{1});
        u64 value_b = GetAcc(b.GetName());
        u64 result = AddSub(value_b, value_a, false);
        SatAndSetAccAndFlag(b.GetName(), result);
    }
    void add(Px a, Bx b) {
        u64 value_a = ProductToBus40(a);
        u64 value_b = GetAcc(b.GetName());
        u64 result = AddSub(value_b, value_a, false);
        SatAndSetAccAndFlag(b.GetName(), result);
    }

    void sub(Ab a, Bx b) {
        u64 value_a = GetAcc(a.GetName());
        u64 value_b = GetAcc(b.GetName());
        u64 result = AddSub(value_b, value_a, true);
        SatAndSetAccAndFlag(b.GetName(), result);
    }
    void sub(Bx a, Ax b) {
        u64 value_a = GetAcc(a.GetName());
        u64 value_b = GetAcc(b.GetName());
        u64 result = AddSub(value_b, value_a, true);
        SatAndSetAccAndFlag(b.GetName(), result);
    }
    void sub_p1(Ax b) {
        u64 value_a = ProductToBus40(Px{1});
        u64 value_b = GetAcc(b.GetName());
        u64 result = AddSub(value_b, value_a, true);
        SatAndSetAccAndFlag(b.GetName(), result);
    }
    void sub(Px a, Bx b) {
        u64 value_a = ProductToBus40(a);
        u64 value_b = GetAcc(b.GetName());
        u64 result = AddSub(value_b, value_a, true);
        SatAndSetAccAndFlag(b.GetName(), result);
    }

    void app(Ab c, SumBase base, bool sub_p0, bool p0_align, bool sub_p1, bool p1_align) {
        ProductSum(base, c.GetName(), sub_p0, p0_align, sub_p1, p1_align);
    }

    void add_add(ArpRn1 a, ArpStep1 asi, ArpStep1 asj, Ab b) {
        auto [ui, uj] = GetArpRnUnit(a);
        auto [si, sj] = GetArpStep(asi, asj);
        auto [oi, oj] = GetArpOffset(asi, asj);
        u16 i = RnAddressAndModify(ui, si);
        u16 j = RnAddressAndModify(uj, sj);
        u64 high = SignExtend<16, u64>(mem.DataRead(j)) + SignExtend<16, u64>(mem.DataRead(i));
        u16 low = mem.DataRead(OffsetAddress(uj, j, oj)) + mem.DataRead(OffsetAddress(ui, i, oi));
        u64 result = (high << 16) | low;
        SetAcc(b.GetName(), result);
    }
    void add_sub(ArpRn1 a, ArpStep1 asi, ArpStep1 asj, Ab b) {
        auto [ui, uj] = GetArpRnUnit(a);
        auto [si, sj] = GetArpStep(asi, asj);
        auto [oi, oj] = GetArpOffset(asi, asj);
        u16 i = RnAddressAndModify(ui, si);
        u16 j = RnAddressAndModify(uj, sj);
        u64 high = SignExtend<16, u64>(mem.DataRead(j)) + SignExtend<16, u64>(mem.DataRead(i));
        u16 low = mem.DataRead(OffsetAddress(uj, j, oj)) - mem.DataRead(OffsetAddress(ui, i, oi));
        u64 result = (high << 16) | low;
        SetAcc(b.GetName(), result);
    }
    void sub_add(ArpRn1 a, ArpStep1 asi, ArpStep1 asj, Ab b) {
        auto [ui, uj] = GetArpRnUnit(a);
        auto [si, sj] = GetArpStep(asi, asj);
        auto [oi, oj] = GetArpOffset(asi, asj);
        u16 i = RnAddressAndModify(ui, si);
        u16 j = RnAddressAndModify(uj, sj);
        u64 high = SignExtend<16, u64>(mem.DataRead(j)) - SignExtend<16, u64>(mem.DataRead(i));
        u16 low = mem.DataRead(OffsetAddress(uj, j, oj)) + mem.DataRead(OffsetAddress(ui, i, oi));
        u64 result = (high << 16) | low;
        SetAcc(b.GetName(), result);
    }
    void sub_sub(ArpRn1 a, ArpStep1 asi, ArpStep1 asj, Ab b) {
        auto [ui, uj] = GetArpRnUnit(a);
        auto [si, sj] = GetArpStep(asi, asj);
        auto [oi, oj] = GetArpOffset(asi, asj);
        u16 i = RnAddressAndModify(ui, si);
        u16 j = RnAddressAndModify(uj, sj);
        u64 high = SignExtend<16, u64>(mem.DataRead(j)) - SignExtend<16, u64>(mem.DataRead(i));
        u16 low = mem.DataRead(OffsetAddress(uj, j, oj)) - mem.DataRead(OffsetAddress(ui, i, oi));
        u64 result = (high << 16) | low;
        SetAcc(b.GetName(), result);
    }
    void add_sub_sv(ArRn1 a, ArStep1 as, Ab b) {
        u16 u = GetArRnUnit(a);
        auto s = GetArStep(as);
        auto o = GetArOffset(as);
        u16 address = RnAddressAndModify(u, s);
        u64 high = SignExtend<16, u64>(mem.DataRead(address)) + SignExtend<16, u64>(regs.sv);
        u16 low = mem.DataRead(OffsetAddress(u, address, o)) - regs.sv;
        u64 result = (high << 16) | low;
        SetAcc(b.GetName(), result);
    }
    void sub_add_sv(ArRn1 a, ArStep1 as, Ab b) {
        u16 u = GetArRnUnit(a);
        auto s = GetArStep(as);
        auto o = GetArOffset(as);
        u16 address = RnAddressAndModify(u, s);
        u64 high = SignExtend<16, u64>(mem.DataRead(address)) - SignExtend<16, u64>(regs.sv);
        u16 low = mem.DataRead(OffsetAddress(u, address, o)) + regs.sv;
        u64 result = (high << 16) | low;
        SetAcc(b.GetName(), result);
    }
    void sub_add_i_mov_j_sv(ArpRn1 a, ArpStep1 asi, ArpStep1 asj, Ab b) {
        auto [ui, uj] = GetArpRnUnit(a);
        auto [si, sj] = GetArpStep(asi, asj);
        OffsetValue oi;
        std::tie(oi, std::ignore) = GetArpOffset(asi, asj);
        u16 i = RnAddressAndModify(ui, si);
        u16 j = RnAddressAndModify(uj, sj);
        u64 high = SignExtend<16, u64>(mem.DataRead(i)) - SignExtend<16, u64>(regs.sv);
        u16 low = mem.DataRead(OffsetAddress(ui, i, oi)) + regs.sv;
        u64 result = (high << 16) | low;
        SetAcc(b.GetName(), result);
        regs.sv = mem.DataRead(j);
    }
    void sub_add_j_mov_i_sv(ArpRn1 a, ArpStep1 asi, ArpStep1 asj, Ab b) {
        auto [ui, uj] = GetArpRnUnit(a);
        auto [si, sj] = GetArpStep(asi, asj);
        OffsetValue oj;
        std::tie(std::ignore, oj) = GetArpOffset(asi, asj);
        u16 i = RnAddressAndModify(ui, si);
        u16 j = RnAddressAndModify(uj, sj);
        u64 high = SignExtend<16, u64>(mem.DataRead(j)) - SignExtend<16, u64>(regs.sv);
        u16 low = mem.DataRead(OffsetAddress(uj, j, oj)) + regs.sv;
        u64 result = (high << 16) | low;
        SetAcc(b.GetName(), result);
        regs.sv = mem.DataRead(i);
    }
    void add_sub_i_mov_j(ArpRn1 a, ArpStep1 asi, ArpStep1 asj, Ab b) {
        auto [ui, uj] = GetArpRnUnit(a);
        auto [si, sj] = GetArpStep(asi, asj);
        OffsetValue oi;
        std::tie(oi, std::ignore) = GetArpOffset(asi, asj);
        u16 i = RnAddressAndModify(ui, si);
        u16 j = RnAddressAndModify(uj, sj);
        u64 high = SignExtend<16, u64>(mem.DataRead(i)) + SignExtend<16, u64>(regs.sv);
        u16 low = mem.DataRead(OffsetAddress(ui, i, oi)) - regs.sv;
        u64 result = (high << 16) | low;
        u16 exchange = (u16)(GetAndSatAccNoFlag(b.GetName()) & 0xFFFF);
        SetAcc(b.GetName(), result);
        mem.DataWrite(j, exchange);
    }
    void add_sub_j_mov_i(ArpRn1 a, ArpStep1 asi, ArpStep1 asj, Ab b) {
        auto [ui, uj] = GetArpRnUnit(a);
        auto [si, sj] = GetArpStep(asi, asj);
        OffsetValue oj;
        std::tie(std::ignore, oj) = GetArpOffset(asi, asj);
        u16 i = RnAddressAndModify(ui, si);
        u16 j = RnAddressAndModify(uj, sj);
        u64 high = SignExtend<16, u64>(mem.DataRead(j)) + SignExtend<16, u64>(regs.sv);
        u16 low = mem.DataRead(OffsetAddress(uj, j, oj)) - regs.sv;
        u64 result = (high << 16) | low;
        u16 exchange = (u16)(GetAndSatAccNoFlag(b.GetName()) & 0xFFFF);
        SetAcc(b.GetName(), result);
        mem.DataWrite(i, exchange);
    }

    void Moda(ModaOp op, RegName a, Cond cond) {
        if (regs.ConditionPass(cond)) {
            switch (op) {
            case ModaOp::Shr: {
                ShiftBus40(GetAcc(a), 0xFFFF, a);
                break;
            }
            case ModaOp::Shr4: {
                ShiftBus40(GetAcc(a), 0xFFFC, a);
                break;
            }
            case ModaOp::Shl: {
                ShiftBus40(GetAcc(a), 1, a);
                break;
            }
            case ModaOp::Shl4: {
                ShiftBus40(GetAcc(a), 4, a);
                break;
            }
            case ModaOp::Ror: {
                u64 value = GetAcc(a) & 0xFF'FFFF'FFFF;
                u16 old_fc = regs.fc0;
                regs.fc0 = value & 1;
                value >>= 1;
                value |= (u64)old_fc << 39;
                value = SignExtend<40>(value);
                SetAccAndFlag(a, value);
                break;
            }
            case ModaOp::Rol: {
                u64 value = GetAcc(a);
                u16 old_fc = regs.fc0;
                regs.fc0 = (value >> 39) & 1;
                value <<= 1;
                value |= old_fc;
                value = SignExtend<40>(value);
                SetAccAndFlag(a, value);
                break;
            }
            case ModaOp::Clr: {
                SatAndSetAccAndFlag(a, 0);
                break;
            }
            case ModaOp::Not: {
                u64 result = ~GetAcc(a);
                SetAccAndFlag(a, result);
                break;
            }
            case ModaOp::Neg: {
                u64 value = GetAcc(a);
                regs.fc0 = value != 0;                    // ?
                regs.fv = value == 0xFFFF'FF80'0000'0000; // ?
                if (regs.fv)
                    regs.fvl = 1;
                u64 result = SignExtend<40, u64>(~GetAcc(a) + 1);
                SatAndSetAccAndFlag(a, result);
                break;
            }
            case ModaOp::Rnd: {
                u64 value = GetAcc(a);
                u64 result = AddSub(value, 0x8000, false);
                SatAndSetAccAndFlag(a, result);
                break;
            }
            case ModaOp::Pacr: {
                u64 value = ProductToBus40(Px{0});
                u64 result = AddSub(value, 0x8000, false);
                SatAndSetAccAndFlag(a, result);
                break;
            }
            case ModaOp::Clrr: {
                SatAndSetAccAndFlag(a, 0x8000);
                break;
            }
            case ModaOp::Inc: {
                u64 value = GetAcc(a);
                u64 result = AddSub(value, 1, false);
                SatAndSetAccAndFlag(a, result);
                break;
            }
            case ModaOp::Dec: {
                u64 value = GetAcc(a);
                u64 result = AddSub(value, 1, true);
                SatAndSetAccAndFlag(a, result);
                break;
            }
            case ModaOp::Copy: {
                // note: bX doesn't support
                u64 value = GetAcc(a == RegName::a0 ? RegName::a1 : RegName::a0);
                SatAndSetAccAndFlag(a, value);
                break;
            }
            default:
                UNREACHABLE();
            }
        }
    }

    void moda4(Moda4 op, Ax a, Cond cond) {
        Moda(op.GetName(), a.GetName(), cond);
    }

    void moda3(Moda3 op, Bx a, Cond cond) {
        Moda(op.GetName(), a.GetName(), cond);
    }

    void pacr1(Ax a) {
        u64 value = ProductToBus40(Px{1});
        u64 result = AddSub(value, 0x8000, false);
        SatAndSetAccAndFlag(a.GetName(), result);
    }

    void FilterDoubleClr(RegName& a, RegName& b) {
        if (a == RegName::b0) {
            b = RegName::b1;
        } else if (a == RegName::b1) {
            b = RegName::b0;
        } else if (a == RegName::a0) {
            if (b == RegName::a0)
                b = RegName::a1;
        } else
            b = b == RegName::b1 ? RegName::b1 : RegName::b0;
    }

    void clr(Ab a, Ab b) {
        RegName a_name = a.GetName();
        RegName b_name = b.GetName();
        FilterDoubleClr(a_name, b_name);
        SatAndSetAccAndFlag(a_name, 0);
        SatAndSetAccAndFlag(b_name, 0);
    }
    void clrr(Ab a, Ab b) {
        RegName a_name = a.GetName();
        RegName b_name = b.GetName();
        FilterDoubleClr(a_name, b_name);
        SatAndSetAccAndFlag(a_name, 0x8000);
        SatAndSetAccAndFlag(b_name, 0x8000);
    }

    void BlockRepeat(u16 lc, u32 address) {
        ASSERT(regs.bcn <= 3);
        regs.bkrep_stack[regs.bcn].start = regs.pc;
        regs.bkrep_stack[regs.bcn].end = address;
        regs.bkrep_stack[regs.bcn].lc = lc;
        regs.lp = 1;
        ++regs.bcn;
    }

    void bkrep(Imm8 a, Address16 addr) {
        u16 lc = a.Unsigned16();
        u32 address = addr.Address32() | (regs.pc & 0x30000);
        BlockRepeat(lc, address);
    }
    void bkrep(Register a, Address18_16 addr_low, Address18_2 addr_high) {
        u16 lc = RegToBus16(a.GetName());
        u32 address = Address32(addr_low, addr_high);
        BlockRepeat(lc, address);
    }
    void bkrep_r6(Address18_16 addr_low, Address18_2 addr_high) {
        u16 lc = regs.r[6];
        u32 address = Address32(addr_low, addr_high);
        BlockRepeat(lc, address);
    }

    void RestoreBlockRepeat(u16& address_reg) {
        if (regs.lp) {
            ASSERT(regs.bcn <= 3);
            std::copy_backward(regs.bkrep_stack.begin(), regs.bkrep_stack.begin() + regs.bcn,
                               regs.bkrep_stack.begin() + regs.bcn + 1);
            ++regs.bcn;
        }
        u32 flag = mem.DataRead(address_reg++);
        u16 valid = flag >> 15;
        if (regs.lp) {
            ASSERT(valid);
        } else {
            if (valid)
                regs.lp = regs.bcn = 1;
        }
        regs.bkrep_stack[0].end = mem.DataRead(address_reg++) | (((flag >> 8) & 3) << 16);
        regs.bkrep_stack[0].start = mem.DataRead(address_reg++) | ((flag & 3) << 16);
        regs.bkrep_stack[0].lc = mem.DataRead(address_reg++);
    }
    void StoreBlockRepeat(u16& address_reg) {
        mem.DataWrite(--address_reg, regs.bkrep_stack[0].lc);
        mem.DataWrite(--address_reg, regs.bkrep_stack[0].start & 0xFFFF);
        mem.DataWrite(--address_reg, regs.bkrep_stack[0].end & 0xFFFF);
        u16 flag = regs.lp << 15;
        flag |= regs.bkrep_stack[0].start >> 16;
        flag |= (regs.bkrep_stack[0].end >> 16) << 8;
        mem.DataWrite(--address_reg, flag);
        if (regs.lp) {
            std::copy(regs.bkrep_stack.begin() + 1, regs.bkrep_stack.begin() + regs.bcn,
                      regs.bkrep_stack.begin());
            --regs.bcn;
            if (regs.bcn == 0)
                regs.lp = 0;
        }
    }
    void bkreprst(ArRn2 a) {
        RestoreBlockRepeat(regs.r[GetArRnUnit(a)]);
    }
    void bkreprst_memsp() {
        RestoreBlockRepeat(regs.sp);
    }
    void bkrepsto(ArRn2 a) {
        StoreBlockRepeat(regs.r[GetArRnUnit(a)]);
    }
    void bkrepsto_memsp() {
        StoreBlockRepeat(regs.sp);
    }

    void banke(BankFlags flags) {
        if (flags.Cfgi()) {
            std::swap(regs.stepi, regs.stepib);
            std::swap(regs.modi, regs.modib);
            if (regs.stp16)
                std::swap(regs.stepi0, regs.stepi0b);
        }
        if (flags.R4()) {
            std::swap(regs.r[4], regs.r4b);
        }
        if (flags.R1()) {
            std::swap(regs.r[1], regs.r1b);
        }
        if (flags.R0()) {
            std::swap(regs.r[0], regs.r0b);
        }
        if (flags.R7()) {
            std::swap(regs.r[7], regs.r7b);
        }
        if (flags.Cfgj()) {
            std::swap(regs.stepj, regs.stepjb);
            std::swap(regs.modj, regs.modjb);
            if (regs.stp16)
                std::swap(regs.stepj0, regs.stepj0b);
        }
    }
    void bankr() {
        regs.SwapAllArArp();
    }
    void bankr(Ar a) {
        regs.SwapAr(a.Index());
    }
    void bankr(Ar a, Arp b) {
        regs.SwapAr(a.Index());
        regs.SwapArp(b.Index());
    }
    void bankr(Arp a) {
        regs.SwapArp(a.Index());
    }

    void bitrev(Rn a) {
        u32 unit = a.Index();
        regs.r[unit] = BitReverse(regs.r[unit]);
    }
    void bitrev_dbrv(Rn a) {
        u32 unit = a.Index();
        regs.r[unit] = BitReverse(regs.r[unit]);
        regs.br[unit] = 0;
    }
    void bitrev_ebrv(Rn a) {
        u32 unit = a.Index();
        regs.r[unit] = BitReverse(regs.r[unit]);
        regs.br[unit] = 1;
    }

    void br(Address18_16 addr_low, Address18_2 addr_high, Cond cond) {
        if (regs.ConditionPass(cond)) {
            SetPC(Address32(addr_low, addr_high));
        }
    }

    void brr(RelAddr7 addr, Cond cond) {
        if (regs.ConditionPass(cond)) {
            regs.pc += addr.Relative32(); // note: pc is the address of the NEXT instruction
            if (addr.Relative32() == 0xFFFFFFFF) {
                idle = true;
            }
        }
    }

    void break_() {
        ASSERT(regs.lp);
        --regs.bcn;
        regs.lp = regs.bcn != 0;
        // Note: unlike one would expect, the "break" instruction doesn't jump out of the block
    }

    void call(Address18_16 addr_low, Address18_2 addr_high, Cond cond) {
        if (regs.ConditionPass(cond)) {
            PushPC();
            SetPC(Address32(addr_low, addr_high));
        }
    }
    void calla(Axl a) {
        PushPC();
        SetPC(RegToBus16(a.GetName())); // use pcmhi?
    }
    void calla(Ax a) {
        PushPC();
        SetPC(GetAcc(a.GetName()) & 0x3FFFF); // no saturation ?
    }
    void callr(RelAddr7 addr, Cond cond) {
        if (regs.ConditionPass(cond)) {
            PushPC();
            regs.pc += addr.Relative32();
        }
    }

    void ContextStore() {
        regs.ShadowStore();
        regs.ShadowSwap();
        if (!regs.crep) {
            regs.repcs = regs.repc;
        }
        if (!regs.ccnta) {
            regs.a1s = regs.a[1];
            regs.b1s = regs.b[1];
        } else {
            u64 a = regs.a[1];
            u64 b = regs.b[1];
            regs.b[1] = a;
            SetAccAndFlag(RegName::a1, b); // Flag set on b1->a1
        }
    }

    void ContextRestore() {
        regs.ShadowRestore();
        regs.ShadowSwap();
        if (!regs.crep) {
            regs.repc = regs.repcs;
        }
        if (!regs.ccnta) {
            regs.a[1] = regs.a1s;
            regs.b[1] = regs.b1s;
        } else {
            std::swap(regs.a[1], regs.b[1]);
        }
    }

    void cntx_s() {
        ContextStore();
    }
    void cntx_r() {
        ContextRestore();
    }

    void ret(Cond c) {
        if (regs.ConditionPass(c)) {
            PopPC();
        }
    }
    void retd() {
        throw UnimplementedException();
    }
    void reti(Cond c) {
        if (regs.ConditionPass(c)) {
            PopPC();
            regs.ie = 1;
        }
    }
    void retic(Cond c) {
        if (regs.ConditionPass(c)) {
            PopPC();
            regs.ie = 1;
            ContextRestore();
        }
    }
    void retid() {
        UNREACHABLE();
    }
    void retidc() {
        UNREACHABLE();
    }
    void rets(Imm8 a) {
        PopPC();
        regs.sp += a.Unsigned16();
    }

    void load_ps(Imm2 a) {
        regs.ps[0] = a.Unsigned16();
    }
    void load_stepi(Imm7s a) {
        // Although this is signed, we still only store the lower 7 bits
        regs.stepi = a.Signed16() & 0x7F;
    }
    void load_stepj(Imm7s a) {
        regs.stepj = a.Signed16() & 0x7F;
    }
    void load_page(Imm8 a) {
        regs.page = a.Unsigned16();
    }
    void load_modi(Imm9 a) {
        regs.modi = a.Unsigned16();
    }
    void load_modj(Imm9 a) {
        regs.modj = a.Unsigned16();
    }
    void load_movpd(Imm2 a) {
        regs.pcmhi = a.Unsigned16();
    }
    void load_ps01(Imm4 a) {
        regs.ps[0] = a.Unsigned16() & 3;
        regs.ps[1] = a.Unsigned16() >> 2;
    }

    void push(Imm16 a) {
        mem.DataWrite(--regs.sp, a.Unsigned16());
    }
    void push(Register a) {
        u16 value = RegToBus16(a.GetName(), true);
        mem.DataWrite(--regs.sp, value);
    }
    void push(Abe a) {
        u16 value = (GetAndSatAcc(a.GetName()) >> 32) & 0xFFFF;
        mem.DataWrite(--regs.sp, value);
    }
    void push(ArArpSttMod a) {
        u16 value = RegToBus16(a.GetName());
        mem.DataWrite(--regs.sp, value);
    }
    void push_prpage() {
        mem.DataWrite(--regs.sp, regs.prpage);
    }
    void push(Px a) {
        u32 value = (u32)ProductToBus40(a);
        u16 h = value >> 16;
        u16 l = value & 0xFFFF;
        mem.DataWrite(--regs.sp, l);
        mem.DataWrite(--regs.sp, h);
    }
    void push_r6() {
        u16 value = regs.r[6];
        mem.DataWrite(--regs.sp, value);
    }
    void push_repc() {
        u16 value = regs.repc;
        mem.DataWrite(--regs.sp, value);
    }
    void push_x0() {
        u16 value = regs.x[0];
        mem.DataWrite(--regs.sp, value);
    }
    void push_x1() {
        u16 value = regs.x[1];
        mem.DataWrite(--regs.sp, value);
    }
    void push_y1() {
        u16 value = regs.y[1];
        mem.DataWrite(--regs.sp, value);
    }
    void pusha(Ax a) {
        u32 value = GetAndSatAcc(a.GetName()) & 0xFFFF'FFFF;
        u16 h = value >> 16;
        u16 l = value & 0xFFFF;
        mem.DataWrite(--regs.sp, l);
        mem.DataWrite(--regs.sp, h);
    }
    void pusha(Bx a) {
        u32 value = GetAndSatAcc(a.GetName()) & 0xFFFF'FFFF;
        u16 h = value >> 16;
        u16 l = value & 0xFFFF;
        mem.DataWrite(--regs.sp, l);
        mem.DataWrite(--regs.sp, h);
    }

    void pop(Register a) {
        u16 value = mem.DataRead(regs.sp++);
        RegFromBus16(a.GetName(), value);
    }
    void pop(Abe a) {
        u32 value32 = SignExtend<8, u32>(mem.DataRead(regs.sp++) & 0xFF);
        u64 acc = GetAcc(a.GetName());
        SetAccAndFlag(a.GetName(), (acc & 0xFFFFFFFF) | (u64)value32 << 32);
    }
    void pop(ArArpSttMod a) {
        u16 value = mem.DataRead(regs.sp++);
        RegFromBus16(a.GetName(), value);
    }
    void pop(Bx a) {
        u16 value = mem.DataRead(regs.sp++);
        RegFromBus16(a.GetName(), value);
    }
    void pop_prpage() {
        regs.prpage = mem.DataRead(regs.sp++);
    }
    void pop(Px a) {
        u16 h = mem.DataRead(regs.sp++);
        u16 l = mem.DataRead(regs.sp++);
        u32 value = ((u32)h << 16) | l;
        ProductFromBus32(a, value);
    }
    void pop_r6() {
        u16 value = mem.DataRead(regs.sp++);
        regs.r[6] = value;
    }
    void pop_repc() {
        u16 value = mem.DataRead(regs.sp++);
        regs.repc = value;
    }
    void pop_x0() {
        u16 value = mem.DataRead(regs.sp++);
        regs.x[0] = value;
    }
    void pop_x1() {
        u16 value = mem.DataRead(regs.sp++);
        regs.x[1] = value;
    }
    void pop_y1() {
        u16 value = mem.DataRead(regs.sp++);
        regs.y[1] = value;
    }
    void popa(Ab a) {
        u16 h = mem.DataRead(regs.sp++);
        u16 l = mem.DataRead(regs.sp++);
        u64 value = SignExtend<32, u64>(((u64)h << 16) | l);
        SetAccAndFlag(a.GetName(), value);
    }

    void Repeat(u16 repc) {
        regs.repc = repc;
        regs.rep = true;
    }

    void rep(Imm8 a) {
        Repeat(a.Unsigned16());
    }
    void rep(Register a) {
        Repeat(RegToBus16(a.GetName()));
    }
    void rep_r6() {
        Repeat(regs.r[6]);
    }

    void shfc(Ab a, Ab b, Cond cond) {
        if (regs.ConditionPass(cond)) {
            u64 value = GetAcc(a.GetName());
            u16 sv = regs.sv;
            ShiftBus40(value, sv, b.GetName());
        }
    }
    void shfi(Ab a, Ab b, Imm6s s) {
        u64 value = GetAcc(a.GetName());
        u16 sv = s.Signed16();
        ShiftBus40(value, sv, b.GetName());
    }

    void tst4b(ArRn2 b, ArStep2 bs) {
        u16 address = RnAddressAndModify(GetArRnUnit(b), GetArStep(bs));
        u16 value = mem.DataRead(address);
        u64 bit = GetAcc(RegName::a0) & 0xF;
        // Is this correct? an why?
        regs.fz = regs.fc0 = (value >> bit) & 1;
    }
    void tst4b(ArRn2 b, ArStep2 bs, Ax c) {
        u64 a = GetAcc(RegName::a0);
        u64 bit = a & 0xF;
        u16 fv = regs.fv;
        u16 fvl = regs.fvl;
        u16 fm = regs.fm;
        u16 fn = regs.fn;
        u16 fe = regs.fe;
        u16 sv = regs.sv;
        ShiftBus40(a, sv, c.GetName());
        regs.fc1 = regs.fc0;
        regs.fv = fv;
        regs.fvl = fvl;
        regs.fm = fm;
        regs.fn = fn;
        regs.fe = fe;
        u16 address = RnAddressAndModify(GetArRnUnit(b), GetArStep(bs));
        u16 value = mem.DataRead(address);
        regs.fz = regs.fc0 = (value >> bit) & 1;
    }
    void tstb(MemImm8 a, Imm4 b) {
        u16 value = LoadFromMemory(a);
        regs.fz = (value >> b.Unsigned16()) & 1;
    }
    void tstb(Rn a, StepZIDS as, Imm4 b) {
        u16 address = RnAddressAndModify(a.Index(), as.GetName());
        u16 value = mem.DataRead(address);
        regs.fz = (value >> b.Unsigned16()) & 1;
    }
    void tstb(Register a, Imm4 b) {
        u16 value = RegToBus16(a.GetName());
        regs.fz = (value >> b.Unsigned16()) & 1;
    }
    void tstb_r6(Imm4 b) {
        u16 value = regs.r[6];
        regs.fz = (value >> b.Unsigned16()) & 1;
    }
    void tstb(SttMod a, Imm16 b) {
        u16 value = RegToBus16(a.GetName());
        regs.fz = (value >> b.Unsigned16()) & 1;
    }

    void and_(Ab a, Ab b, Ax c) {
        u64 value = GetAcc(a.GetName()) & GetAcc(b.GetName());
        SetAccAndFlag(c.GetName(), value);
    }

    void dint() {
        regs.ie = 0;
    }
    void eint() {
        regs.ie = 1;
    }

    void MulGeneric(MulOp op, Ax a) {
        if (op != MulOp::Mpy && op != MulOp::Mpysu) {
            u64 value = GetAcc(a.GetName());
            u64 product = ProductToBus40(Px{0});
            if (op == MulOp::Maa || op == MulOp::Maasu) {
                product >>= 16;
                product = SignExtend<24>(product);
            }
            u64 result = AddSub(value, product, false);
            SatAndSetAccAndFlag(a.GetName(), result);
        }

        switch (op) {
        case MulOp::Mpy:
        case MulOp::Mac:
        case MulOp::Maa:
            DoMultiplication(0, true, true);
            break;
        case MulOp::Mpysu:
        case MulOp::Macsu:
        case MulOp::Maasu:
            // Note: the naming conventin of "mpysu" is "multiply signed *y* by unsigned *x*"
            DoMultiplication(0, false, true);
            break;
        case MulOp::Macus:
            DoMultiplication(0, true, false);
            break;
        case MulOp::Macuu:
            DoMultiplication(0, false, false);
            break;
        }
    }

    void mul(Mul3 op, Rn y, StepZIDS ys, Imm16 x, Ax a) {
        u16 address = RnAddressAndModify(y.Index(), ys.GetName());
        regs.y[0] = mem.DataRead(address);
        regs.x[0] = x.Unsigned16();
        MulGeneric(op.GetName(), a);
    }
    void mul_y0(Mul3 op, Rn x, StepZIDS xs, Ax a) {
        u16 address = RnAddressAndModify(x.Index(), xs.GetName());
        regs.x[0] = mem.DataRead(address);
        MulGeneric(op.GetName(), a);
    }
    void mul_y0(Mul3 op, Register x, Ax a) {
        regs.x[0] = RegToBus16(x.GetName());
        MulGeneric(op.GetName(), a);
    }
    void mul(Mul3 op, R45 y, StepZIDS ys, R0123 x, StepZIDS xs, Ax a) {
        u16 address_y = RnAddressAndModify(y.Index(), ys.GetName());
        u16 address_x = RnAddressAndModify(x.Index(), xs.GetName());
        regs.y[0] = mem.DataRead(address_y);
        regs.x[0] = mem.DataRead(address_x);
        MulGeneric(op.GetName(), a);
    }
    void mul_y0_r6(Mul3 op, Ax a) {
        regs.x[0] = regs.r[6];
        MulGeneric(op.GetName(), a);
    }
    void mul_y0(Mul2 op, MemImm8 x, Ax a) {
        regs.x[0] = LoadFromMemory(x);
        MulGeneric(op.GetName(), a);
    }

    void mpyi(Imm8s x) {
        regs.x[0] = x.Signed16();
        DoMultiplication(0, true, true);
    }

    void msu(R45 y, StepZIDS ys, R0123 x, StepZIDS xs, Ax a) {
        u16 yi = RnAddressAndModify(y.Index(), ys.GetName());
        u16 xi = RnAddressAndModify(x.Index(), xs.GetName());
        u64 value = GetAcc(a.GetName());
        u64 product = ProductToBus40(Px{0});
        u64 result = AddSub(value, product, true);
        SatAndSetAccAndFlag(a.GetName(), result);
        regs.y[0] = mem.DataRead(yi);
        regs.x[0] = mem.DataRead(xi);
        DoMultiplication(0, true, true);
    }
    void msu(Rn y, StepZIDS ys, Imm16 x, Ax a) {
        u16 yi = RnAddressAndModify(y.Index(), ys.GetName());
        u64 value = GetAcc(a.GetName());
        u64 product = ProductToBus40(Px{0});
        u64 result = AddSub(value, product, true);
        SatAndSetAccAndFlag(a.GetName(), result);
        regs.y[0] = mem.DataRead(yi);
        regs.x[0] = x.Unsigned16();
        DoMultiplication(0, true, true);
    }
    void msusu(ArRn2 x, ArStep2 xs, Ax a) {
        u16 xi = RnAddressAndModify(GetArRnUnit(x), GetArStep(xs));
        u64 value = GetAcc(a.GetName());
        u64 product = ProductToBus40(Px{0});
        u64 result = AddSub(value, product, true);
        SatAndSetAccAndFlag(a.GetName(), result);
        regs.x[0] = mem.DataRead(xi);
        DoMultiplication(0, false, true);
    }
    void mac_x1to0(Ax a) {
        u64 value = GetAcc(a.GetName());
        u64 product = ProductToBus40(Px{0});
        u64 result = AddSub(value, product, false);
        SatAndSetAccAndFlag(a.GetName(), result);
        regs.x[0] = regs.x[1];
        DoMultiplication(0, true, true);
    }
    void mac1(ArpRn1 xy, ArpStep1 xis, ArpStep1 yjs, Ax a) {
        auto [ui, uj] = GetArpRnUnit(xy);
        auto [si, sj] = GetArpStep(xis, yjs);
        u16 i = RnAddressAndModify(ui, si);
        u16 j = RnAddressAndModify(uj, sj);
        u64 value = GetAcc(a.GetName());
        u64 product = ProductToBus40(Px{1});
        u64 result = AddSub(value, product, false);
        SatAndSetAccAndFlag(a.GetName(), result);
        regs.x[1] = mem.DataRead(i);
        regs.y[1] = mem.DataRead(j);
        DoMultiplication(1, true, true);
    }

    void modr(Rn a, StepZIDS as) {
        u32 unit = a.Index();
        RnAndModify(unit, as.GetName());
        regs.fr = regs.r[unit] == 0;
    }
    void modr_dmod(Rn a, StepZIDS as) {
        u32 unit = a.Index();
        RnAndModify(unit, as.GetName(), true);
        regs.fr = regs.r[unit] == 0;
    }
    void modr_i2(Rn a) {
        u32 unit = a.Index();
        RnAndModify(unit, StepValue::Increase2Mode1);
        regs.fr = regs.r[unit] == 0;
    }
    void modr_i2_dmod(Rn a) {
        u32 unit = a.Index();
        RnAndModify(unit, StepValue::Increase2Mode1, true);
        regs.fr = regs.r[unit] == 0;
    }
    void modr_d2(Rn a) {
        u32 unit = a.Index();
        RnAndModify(unit, StepValue::Decrease2Mode1);
        regs.fr = regs.r[unit] == 0;
    }
    void modr_d2_dmod(Rn a) {
        u32 unit = a.Index();
        RnAndModify(unit, StepValue::Decrease2Mode1, true);
        regs.fr = regs.r[unit] == 0;
    }
    void modr_eemod(ArpRn2 a, ArpStep2 asi, ArpStep2 asj) {
        u32 uniti, unitj;
        StepValue stepi, stepj;
        std::tie(uniti, unitj) = GetArpRnUnit(a);
        std::tie(stepi, stepj) = GetArpStep(asi, asj);
        RnAndModify(uniti, stepi);
        RnAndModify(unitj, stepj);
    }
    void modr_edmod(ArpRn2 a, ArpStep2 asi, ArpStep2 asj) {
        u32 uniti, unitj;
        StepValue stepi, stepj;
        std::tie(uniti, unitj) = GetArpRnUnit(a);
        std::tie(stepi, stepj) = GetArpStep(asi, asj);
        RnAndModify(uniti, stepi);
        RnAndModify(unitj, stepj, true);
    }
    void modr_demod(ArpRn2 a, ArpStep2 asi, ArpStep2 asj) {
        u32 uniti, unitj;
        StepValue stepi, stepj;
        std::tie(uniti, unitj) = GetArpRnUnit(a);
        std::tie(stepi, stepj) = GetArpStep(asi, asj);
        RnAndModify(uniti, stepi, true);
        RnAndModify(unitj, stepj);
    }
    void modr_ddmod(ArpRn2 a, ArpStep2 asi, ArpStep2 asj) {
        u32 uniti, unitj;
        StepValue stepi, stepj;
        std::tie(uniti, unitj) = GetArpRnUnit(a);
        std::tie(stepi, stepj) = GetArpStep(asi, asj);
        RnAndModify(uniti, stepi, true);
        RnAndModify(unitj, stepj, true);
    }

    void movd(R0123 a, StepZIDS as, R45 b, StepZIDS bs) {
        u16 address_s = RnAddressAndModify(a.Index(), as.GetName());
        u32 address_d = RnAddressAndModify(b.Index(), bs.GetName());
        address_d |= (u32)regs.pcmhi << 16;
        mem.ProgramWrite(address_d, mem.DataRead(address_s));
    }
    void movp(Axl a, Register b) {
        u32 address = RegToBus16(a.GetName());
        address |= (u32)regs.pcmhi << 16;
        u16 value = mem.ProgramRead(address);
        RegFromBus16(b.GetName(), value);
    }
    void movp(Ax a, Register b) {
        u32 address = GetAcc(a.GetName()) & 0x3FFFF; // no saturation
        u16 value = mem.ProgramRead(address);
        RegFromBus16(b.GetName(), value);
    }
    void movp(Rn a, StepZIDS as, R0123 b, StepZIDS bs) {
        u32 address_s = RnAddressAndModify(a.Index(), as.GetName());
        u16 address_d = RnAddressAndModify(b.Index(), bs.GetName());
        address_s |= (u32)regs.pcmhi << 16;
        mem.DataWrite(address_d, mem.ProgramRead(address_s));
    }
    void movpdw(Ax a) {
        u32 address = GetAcc(a.GetName()) & 0x3FFFF; // no saturation
        // the endianess doesn't seem to be affected by regs.cpc
        u16 h = mem.ProgramRead(address);
        u16 l = mem.ProgramRead(address + 1);
        SetPC(l | ((u32)h << 16));
    }

    void mov(Ab a, Ab b) {
        u64 value = GetAcc(a.GetName());
        SatAndSetAccAndFlag(b.GetName(), value);
    }
    void mov_dvm(Abl a) {
        UNREACHABLE();
    }
    void mov_x0(Abl a) {
        u16 value16 = RegToBus16(a.GetName(), true);
        regs.x[0] = value16;
    }
    void mov_x1(Abl a) {
        u16 value16 = RegToBus16(a.GetName(), true);
        regs.x[1] = value16;
    }
    void mov_y1(Abl a) {
        u16 value16 = RegToBus16(a.GetName(), true);
        regs.y[1] = value16;
    }

    void StoreToMemory(MemImm8 addr, u16 value) {
        mem.DataWrite(addr.Unsigned16() + (regs.page << 8), value);
    }
    void StoreToMemory(MemImm16 addr, u16 value) {
        mem.DataWrite(addr.Unsigned16(), value);
    }
    void StoreToMemory(MemR7Imm16 addr, u16 value) {
        mem.DataWrite(addr.Unsigned16() + regs.r[7], value);
    }
    void StoreToMemory(MemR7Imm7s addr, u16 value) {
        mem.DataWrite(addr.Signed16() + regs.r[7], value);
    }

    void mov(Ablh a, MemImm8 b) {
        u16 value16 = RegToBus16(a.GetName(), true);
        StoreToMemory(b, value16);
    }
    void mov(Axl a, MemImm16 b) {
        u16 value16 = RegToBus16(a.GetName(), true);
        StoreToMemory(b, value16);
    }
    void mov(Axl a, MemR7Imm16 b) {
        u16 value16 = RegToBus16(a.GetName(), true);
        StoreToMemory(b, value16);
    }
    void mov(Axl a, MemR7Imm7s b) {
        u16 value16 = RegToBus16(a.GetName(), true);
        StoreToMemory(b, value16);
    }

    u16 LoadFromMemory(MemImm8 addr) {
        return mem.DataRead(addr.Unsigned16() + (regs.page << 8));
    }
    u16 LoadFromMemory(MemImm16 addr) {
        return mem.DataRead(addr.Unsigned16());
    }
    u16 LoadFromMemory(MemR7Imm16 addr) {
        return mem.DataRead(addr.Unsigned16() + regs.r[7]);
    }
    u16 LoadFromMemory(MemR7Imm7s addr) {
        return mem.DataRead(addr.Signed16() + regs.r[7]);
    }

    void mov(MemImm16 a, Ax b) {
        u16 value = LoadFromMemory(a);
        RegFromBus16(b.GetName(), value);
    }
    void mov(MemImm8 a, Ab b) {
        u16 value = LoadFromMemory(a);
        RegFromBus16(b.GetName(), value);
    }
    void mov(MemImm8 a, Ablh b) {
        u16 value = LoadFromMemory(a);
        RegFromBus16(b.GetName(), value);
    }
    void mov_eu(MemImm8 a, Axh b) {
        u16 value = LoadFromMemory(a);
        u64 acc = GetAcc(b.GetName());
        acc &= 0xFFFF'FFFF'0000'0000;
        acc |= (u64)value << 16;
        SetAccAndFlag(b.GetName(), acc); // ?
    }
    void mov(MemImm8 a, RnOld b) {
        u16 value = LoadFromMemory(a);
        RegFromBus16(b.GetName(), value);
    }
    void mov_sv(MemImm8 a) {
        u16 value = LoadFromMemory(a);
        regs.sv = value;
    }
    void mov_dvm_to(Ab b) {
        UNREACHABLE();
    }
    void mov_icr_to(Ab b) {
        u16 value = regs.Get<icr>();
        RegFromBus16(b.GetName(), value);
    }
    void mov(Imm16 a, Bx b) {
        u16 value = a.Unsigned16();
        RegFromBus16(b.GetName(), value);
    }
    void mov(Imm16 a, Register b) {
        u16 value = a.Unsigned16();
        RegFromBus16(b.GetName(), value);
    }
    void mov_icr(Imm5 a) {
        u16 value = regs.Get<icr>();
        value &= ~0x1F;
        value |= a.Unsigned16();
        regs.Set<icr>(value);
    }
    void mov(Imm8s a, Axh b) {
        u16 value = a.Signed16();
        RegFromBus16(b.GetName(), value);
    }
    void mov(Imm8s a, RnOld b) {
        u16 value = a.Signed16();
        RegFromBus16(b.GetName(), value);
    }
    void mov_sv(Imm8s a) {
        u16 value = a.Signed16();
        regs.sv = value;
    }
    void mov(Imm8 a, Axl b) {
        u16 value = a.Unsigned16();
        RegFromBus16(b.GetName(), value);
    }
    void mov(MemR7Imm16 a, Ax b) {
        u16 value = LoadFromMemory(a);
        RegFromBus16(b.GetName(), value);
    }
    void mov(MemR7Imm7s a, Ax b) {
        u16 value = LoadFromMemory(a);
        RegFromBus16(b.GetName(), value);
    }
    void mov(Rn a, StepZIDS as, Bx b) {
        u16 address = RnAddressAndModify(a.Index(), as.GetName());
        u16 value = mem.DataRead(address);
        RegFromBus16(b.GetName(), value);
    }
    void mov(Rn a, StepZIDS as, Register b) {
        u16 address = RnAddressAndModify(a.Index(), as.GetName());
        u16 value = mem.DataRead(address);
        RegFromBus16(b.GetName(), value);
    }
    void mov_memsp_to(Register b) {
        u16 value = mem.DataRead(regs.sp);
        RegFromBus16(b.GetName(), value);
    }
    void mov_mixp_to(Register b) {
        u16 value = regs.mixp;
        RegFromBus16(b.GetName(), value);
    }
    void mov(RnOld a, MemImm8 b) {
        u16 value = RegToBus16(a.GetName());
        StoreToMemory(b, value);
    }
    void mov_icr(Register a) {
        u16 value = RegToBus16(a.GetName(), true);
        regs.Set<icr>(value);
    }
    void mov_mixp(Register a) {
        u16 value = RegToBus16(a.GetName(), true);
        regs.mixp = value;
    }
    void mov(Register a, Rn b, StepZIDS bs) {
        // a = a0 or a1 is overrided
        u16 value = RegToBus16(a.GetName(), true);
        u16 address = RnAddressAndModify(b.Index(), bs.GetName());
        mem.DataWrite(address, value);
    }
    void mov(Register a, Bx b) {
        if (a.GetName() == RegName::p) {
            u64 value = ProductToBus40(Px{0});
            SatAndSetAccAndFlag(b.GetName(), value);
        } else if (a.GetName() == RegName::a0 || a.GetName() == RegName::a1) {
            // Is there any difference from the mov(Ab, Ab) instruction?
            u64 value = GetAcc(a.GetName());
            SatAndSetAccAndFlag(b.GetName(), value);
        } else {
            u16 value = RegToBus16(a.GetName(), true);
            RegFromBus16(b.GetName(), value);
        }
    }
    void mov(Register a, Register b) {
        // a = a0 or a1 is overrided
        if (a.GetName() == RegName::p) {
            // b loses its typical meaning in this case
            RegName b_name = b.GetNameForMovFromP();
            u64 value = ProductToBus40(Px{0});
            SatAndSetAccAndFlag(b_name, value);
        } else if (a.GetName() == RegName::pc) {
            if (b.GetName() == RegName::a0 || b.GetName() == RegName::a1) {
                SatAndSetAccAndFlag(b.GetName(), regs.pc);
            } else {
                RegFromBus16(b.GetName(), regs.pc & 0xFFFF);
            }
        } else {
            u16 value = RegToBus16(a.GetName(), true);
            RegFromBus16(b.GetName(), value);
        }
    }
    void mov_repc_to(Ab b) {
        u16 value = regs.repc;
        RegFromBus16(b.GetName(), value);
    }
    void mov_sv_to(MemImm8 b) {
        u16 value = regs.sv;
        StoreToMemory(b, value);
    }
    void mov_x0_to(Ab b) {
        u16 value = regs.x[0];
        RegFromBus16(b.GetName(), value);
    }
    void mov_x1_to(Ab b) {
        u16 value = regs.x[1];
        RegFromBus16(b.GetName(), value);
    }
    void mov_y1_to(Ab b) {
        u16 value = regs.y[1];
        RegFromBus16(b.GetName(), value);
    }
    void mov(Imm16 a, ArArp b) {
        u16 value = a.Unsigned16();
        RegFromBus16(b.GetName(), value);
    }
    void mov_r6(Imm16 a) {
        u16 value = a.Unsigned16();
        regs.r[6] = value;
    }
    void mov_repc(Imm16 a) {
        u16 value = a.Unsigned16();
        regs.repc = value;
    }
    void mov_stepi0(Imm16 a) {
        u16 value = a.Unsigned16();
        regs.stepi0 = value;
    }
    void mov_stepj0(Imm16 a) {
        u16 value = a.Unsigned16();
        regs.stepj0 = value;
    }
    void mov(Imm16 a, SttMod b) {
        u16 value = a.Unsigned16();
        RegFromBus16(b.GetName(), value);
    }
    void mov_prpage(Imm4 a) {
        regs.prpage = a.Unsigned16();
    }

    void mov_a0h_stepi0() {
        u16 value = RegToBus16(RegName::a0h, true);
        regs.stepi0 = value;
    }
    void mov_a0h_stepj0() {
        u16 value = RegToBus16(RegName::a0h, true);
        regs.stepj0 = value;
    }
    void mov_stepi0_a0h() {
        u16 value = regs.stepi0;
        RegFromBus16(RegName::a0h, value);
    }
    void mov_stepj0_a0h() {
        u16 value = regs.stepj0;
        RegFromBus16(RegName::a0h, value);
    }

    void mov_prpage(Abl a) {
        regs.prpage = (u16)(GetAcc(a.GetName()) & 0xF); // ?
    }
    void mov_repc(Abl a) {
        u16 value = RegToBus16(a.GetName(), true);
        regs.repc = value;
    }
    void mov(Abl a, ArArp b) {
        u16 value = RegToBus16(a.GetName(), true);
        RegFromBus16(b.GetName(), value);
    }
    void mov(Abl a, SttMod b) {
        u16 value = RegToBus16(a.GetName(), true);
        RegFromBus16(b.GetName(), value);
    }

    void mov_prpage_to(Abl b) {
        RegFromBus16(b.GetName(), regs.prpage); // ?
    }
    void mov_repc_to(Abl b) {
        u16 value = regs.repc;
        RegFromBus16(b.GetName(), value);
    }
    void mov(ArArp a, Abl b) {
        u16 value = RegToBus16(a.GetName());
        RegFromBus16(b.GetName(), value);
    }
    void mov(SttMod a, Abl b) {
        u16 value = RegToBus16(a.GetName());
        RegFromBus16(b.GetName(), value);
    }

    void mov_repc_to(ArRn1 b, ArStep1 bs) {
        u16 address = RnAddressAndModify(GetArRnUnit(b), GetArStep(bs));
        u16 value = regs.repc;
        mem.DataWrite(address, value);
    }
    void mov(ArArp a, ArRn1 b, ArStep1 bs) {
        u16 address = RnAddressAndModify(GetArRnUnit(b), GetArStep(bs));
        u16 value = RegToBus16(a.GetName());
        mem.DataWrite(address, value);
    }
    void mov(SttMod a, ArRn1 b, ArStep1 bs) {
        u16 address = RnAddressAndModify(GetArRnUnit(b), GetArStep(bs));
        u16 value = RegToBus16(a.GetName());
        mem.DataWrite(address, value);
    }

    void mov_repc(ArRn1 a, ArStep1 as) {
        u16 address = RnAddressAndModify(GetArRnUnit(a), GetArStep(as));
        u16 value = mem.DataRead(address);
        regs.repc = value;
    }
    void mov(ArRn1 a, ArStep1 as, ArArp b) {
        u16 address = RnAddressAndModify(GetArRnUnit(a), GetArStep(as));
        u16 value = mem.DataRead(address);
        RegFromBus16(b.GetName(), value);
    }
    void mov(ArRn1 a, ArStep1 as, SttMod b) {
        u16 address = RnAddressAndModify(GetArRnUnit(a), GetArStep(as));
        u16 value = mem.DataRead(address);
        RegFromBus16(b.GetName(), value);
    }

    void mov_repc_to(MemR7Imm16 b) {
        u16 value = regs.repc;
        StoreToMemory(b, value);
    }
    void mov(ArArpSttMod a, MemR7Imm16 b) {
        u16 value = RegToBus16(a.GetName());
        StoreToMemory(b, value);
    }

    void mov_repc(MemR7Imm16 a) {
        u16 value = LoadFromMemory(a);
        regs.repc = value;
    }
    void mov(MemR7Imm16 a, ArArpSttMod b) {
        u16 value = LoadFromMemory(a);
        RegFromBus16(b.GetName(), value);
    }

    void mov_pc(Ax a) {
        u64 value = GetAcc(a.GetName());
        SetPC(value & 0xFFFFFFFF);
    }
    void mov_pc(Bx a) {
        u64 value = GetAcc(a.GetName());
        SetPC(value & 0xFFFFFFFF);
    }

    void mov_mixp_to(Bx b) {
        u16 value = regs.mixp;
        RegFromBus16(b.GetName(), value);
    }
    void mov_mixp_r6() {
        u16 value = regs.mixp;
        regs.r[6] = value;
    }
    void mov_p0h_to(Bx b) {
        u16 value = (ProductToBus40(Px{0}) >> 16) & 0xFFFF;
        RegFromBus16(b.GetName(), value);
    }
    void mov_p0h_r6() {
        u16 value = (ProductToBus40(Px{0}) >> 16) & 0xFFFF;
        regs.r[6] = value;
    }
    void mov_p0h_to(Register b) {
        u16 value = (ProductToBus40(Px{0}) >> 16) & 0xFFFF;
        RegFromBus16(b.GetName(), value);
    }
    void mov_p0(Ab a) {
        u32 value = GetAndSatAcc(a.GetName()) & 0xFFFFFFFF;
        ProductFromBus32(Px{0}, value);
    }
    void mov_p1_to(Ab b) {
        u64 value = ProductToBus40(Px{1});
        SatAndSetAccAndFlag(b.GetName(), value);
    }

    void mov2(Px a, ArRn2 b, ArStep2 bs) {
        u32 value = ProductToBus32_NoShift(a);
        u16 l = value & 0xFFFF;
        u16 h = (value >> 16) & 0xFFFF;
        u16 unit = GetArRnUnit(b);
        u16 address = RnAddressAndModify(unit, GetArStep(bs));
        u16 address2 = OffsetAddress(unit, address, GetArOffset(bs));
        // NOTE: keep the write order exactly like this.
        mem.DataWrite(address2, l);
        mem.DataWrite(address, h);
    }
    void mov2s(Px a, ArRn2 b, ArStep2 bs) {
        u64 value = ProductToBus40(a);
        u16 l = value & 0xFFFF;
        u16 h = (value >> 16) & 0xFFFF;
        u16 unit = GetArRnUnit(b);
        u16 address = RnAddressAndModify(unit, GetArStep(bs));
        u16 address2 = OffsetAddress(unit, address, GetArOffset(bs));
        // NOTE: keep the write order exactly like this.
        mem.DataWrite(address2, l);
        mem.DataWrite(address, h);
    }
    void mov2(ArRn2 a, ArStep2 as, Px b) {
        u16 unit = GetArRnUnit(a);
        u16 address = RnAddressAndModify(unit, GetArStep(as));
        u16 address2 = OffsetAddress(unit, address, GetArOffset(as));
        u16 l = mem.DataRead(address2);
        u16 h = mem.DataRead(address);
        u32 value = ((u32)h << 16) | l;
        ProductFromBus32(b, value);
    }
    void mova(Ab a, ArRn2 b, ArStep2 bs) {
        u64 value = GetAndSatAcc(a.GetName());
        u16 l = value & 0xFFFF;
        u16 h = (value >> 16) & 0xFFFF;
        u16 unit = GetArRnUnit(b);
        u16 address = RnAddressAndModify(unit, GetArStep(bs));
        u16 address2 = OffsetAddress(unit, address, GetArOffset(bs));
        // NOTE: keep the write order exactly like this. The second one overrides the first one if
        // the offset is zero.
        mem.DataWrite(address2, l);
        mem.DataWrite(address, h);
    }
    void mova(ArRn2 a, ArStep2 as, Ab b) {
        u16 unit = GetArRnUnit(a);
        u16 address = RnAddressAndModify(unit, GetArStep(as));
        u16 address2 = OffsetAddress(unit, address, GetArOffset(as));
        u16 l = mem.DataRead(address2);
        u16 h = mem.DataRead(address);
        u64 value = SignExtend<32, u64>(((u64)h << 16) | l);
        SatAndSetAccAndFlag(b.GetName(), value);
    }

    void mov_r6_to(Bx b) {
        u16 value = regs.r[6];
        RegFromBus16(b.GetName(), value);
    }
    void mov_r6_mixp() {
        u16 value = regs.r[6];
        regs.mixp = value;
    }
    void mov_r6_to(Register b) {
        u16 value = regs.r[6];
        RegFromBus16(b.GetName(), value);
    }
    void mov_r6(Register a) {
        u16 value = RegToBus16(a.GetName(), true);
        regs.r[6] = value;
    }
    void mov_memsp_r6() {
        u16 value = mem.DataRead(regs.sp);
        regs.r[6] = value;
    }
    void mov_r6_to(Rn b, StepZIDS bs) {
        u16 value = regs.r[6];
        u16 address = RnAddressAndModify(b.Index(), bs.GetName());
        mem.DataWrite(address, value);
    }
    void mov_r6(Rn a, StepZIDS as) {
        u16 address = RnAddressAndModify(a.Index(), as.GetName());
        u16 value = mem.DataRead(address);
        regs.r[6] = value;
    }

    void mov2_axh_m_y0_m(Axh a, ArRn2 b, ArStep2 bs) {
        u16 u = (u16)((GetAndSatAccNoFlag(a.GetName()) >> 16) & 0xFFFF);
        u16 v = regs.y[0];
        u16 unit = GetArRnUnit(b);
        u16 ua = RnAddressAndModify(unit, GetArStep(bs));
        u16 va = OffsetAddress(unit, ua, GetArOffset(bs));
        // keep the order
        mem.DataWrite(va, v);
        mem.DataWrite(ua, u);
    }

    void mov2_ax_mij(Ab a, ArpRn1 b, ArpStep1 bsi, ArpStep1 bsj) {
        auto [ui, uj] = GetArpRnUnit(b);
        auto [si, sj] = GetArpStep(bsi, bsj);
        u16 i = RnAddressAndModify(ui, si);
        u16 j = RnAddressAndModify(uj, sj);
        u64 value = GetAndSatAccNoFlag(a.GetName());
        mem.DataWrite(i, (u16)((value >> 16) & 0xFFFF));
        mem.DataWrite(j, (u16)(value & 0xFFFF));
    }
    void mov2_ax_mji(Ab a, ArpRn1 b, ArpStep1 bsi, ArpStep1 bsj) {
        auto [ui, uj] = GetArpRnUnit(b);
        auto [si, sj] = GetArpStep(bsi, bsj);
        u16 i = RnAddressAndModify(ui, si);
        u16 j = RnAddressAndModify(uj, sj);
        u64 value = GetAndSatAccNoFlag(a.GetName());
        mem.DataWrite(j, (u16)((value >> 16) & 0xFFFF));
        mem.DataWrite(i, (u16)(value & 0xFFFF));
    }
    void mov2_mij_ax(ArpRn1 a, ArpStep1 asi, ArpStep1 asj, Ab b) {
        auto [ui, uj] = GetArpRnUnit(a);
        auto [si, sj] = GetArpStep(asi, asj);
        u16 h = mem.DataRead(RnAddressAndModify(ui, si));
        u16 l = mem.DataRead(RnAddressAndModify(uj, sj));
        u64 value = SignExtend<32, u64>(((u64)h << 16) | l);
        SetAcc(b.GetName(), value);
    }
    void mov2_mji_ax(ArpRn1 a, ArpStep1 asi, ArpStep1 asj, Ab b) {
        auto [ui, uj] = GetArpRnUnit(a);
        auto [si, sj] = GetArpStep(asi, asj);
        u16 l = mem.DataRead(RnAddressAndModify(ui, si));
        u16 h = mem.DataRead(RnAddressAndModify(uj, sj));
        u64 value = SignExtend<32, u64>(((u64)h << 16) | l);
        SetAcc(b.GetName(), value);
    }
    void mov2_abh_m(Abh ax, Abh ay, ArRn1 b, ArStep1 bs) {
        u16 u = (u16)((GetAndSatAccNoFlag(ax.GetName()) >> 16) & 0xFFFF);
        u16 v = (u16)((GetAndSatAccNoFlag(ay.GetName()) >> 16) & 0xFFFF);
        u16 unit = GetArRnUnit(b);
        u16 ua = RnAddressAndModify(unit, GetArStep(bs));
        u16 va = OffsetAddress(unit, ua, GetArOffset(bs));
        // keep the order
        mem.DataWrite(va, v);
        mem.DataWrite(ua, u);
    }
    void exchange_iaj(Axh a, ArpRn2 b, ArpStep2 bsi, ArpStep2 bsj) {
        auto [ui, uj] = GetArpRnUnit(b);
        auto [si, sj] = GetArpStep(bsi, bsj);
        u16 i = RnAddressAndModify(ui, si);
        u16 j = RnAddressAndModify(uj, sj);
        u64 value = GetAndSatAccNoFlag(a.GetName());
        mem.DataWrite(j, (u16)((value >> 16) & 0xFFFF));
        value = SignExtend<32, u64>((u64)mem.DataRead(i) << 16);
        SetAcc(a.GetName(), value);
    }
    void exchange_riaj(Axh a, ArpRn2 b, ArpStep2 bsi, ArpStep2 bsj) {
        auto [ui, uj] = GetArpRnUnit(b);
        auto [si, sj] = GetArpStep(bsi, bsj);
        u16 i = RnAddressAndModify(ui, si);
        u16 j = RnAddressAndModify(uj, sj);
        u64 value = GetAndSatAccNoFlag(a.GetName());
        mem.DataWrite(j, (u16)((value >> 16) & 0xFFFF));
        value = SignExtend<32, u64>(((u64)mem.DataRead(i) << 16) | 0x8000);
        SetAcc(a.GetName(), value);
    }
    void exchange_jai(Axh a, ArpRn2 b, ArpStep2 bsi, ArpStep2 bsj) {
        auto [ui, uj] = GetArpRnUnit(b);
        auto [si, sj] = GetArpStep(bsi, bsj);
        u16 i = RnAddressAndModify(ui, si);
        u16 j = RnAddressAndModify(uj, sj);
        u64 value = GetAndSatAccNoFlag(a.GetName());
        mem.DataWrite(i, (u16)((value >> 16) & 0xFFFF));
        value = SignExtend<32, u64>((u64)mem.DataRead(j) << 16);
        SetAcc(a.GetName(), value);
    }
    void exchange_rjai(Axh a, ArpRn2 b, ArpStep2 bsi, ArpStep2 bsj) {
        auto [ui, uj] = GetArpRnUnit(b);
        auto [si, sj] = GetArpStep(bsi, bsj);
        u16 i = RnAddressAndModify(ui, si);
        u16 j = RnAddressAndModify(uj, sj);
        u64 value = GetAndSatAccNoFlag(a.GetName());
        mem.DataWrite(i, (u16)((value >> 16) & 0xFFFF));
        value = SignExtend<32, u64>(((u64)mem.DataRead(j) << 16) | 0x8000);
        SetAcc(a.GetName(), value);
    }

    void ShiftBus40(u64 value, u16 sv, RegName dest) {
        value &= 0xFF'FFFF'FFFF;
        u64 original_sign = value >> 39;
        if ((sv >> 15) == 0) {
            // left shift
            if (sv >= 40) {
                if (regs.s == 0) {
                    regs.fv = value != 0;
                    if (regs.fv) {
                        regs.fvl = 1;
                    }
                }
                value = 0;
                regs.fc0 = 0;
            } else {
                if (regs.s == 0) {
                    regs.fv = SignExtend<40>(value) != SignExtend(value, 40 - sv);
                    if (regs.fv) {
                        regs.fvl = 1;
                    }
                }
                value <<= sv;
                regs.fc0 = (value & ((u64)1 << 40)) != 0;
            }
        } else {
            // right shift
            u16 nsv = ~sv + 1;
            if (nsv >= 40) {
                if (regs.s == 0) {
                    regs.fc0 = (value >> 39) & 1;
                    value = regs.fc0 ? 0xFF'FFFF'FFFF : 0;
                } else {
                    value = 0;
                    regs.fc0 = 0;
                }
            } else {
                regs.fc0 = (value & ((u64)1 << (nsv - 1))) != 0;
                value >>= nsv;
                if (regs.s == 0) {
                    value = SignExtend(value, 40 - nsv);
                }
            }

            if (regs.s == 0) {
                regs.fv = 0;
            }
        }

        value = SignExtend<40>(value);
        SetAccFlag(value);
        if (regs.s == 0 && regs.sata == 0) {
            if (regs.fv || SignExtend<32>(value) != value) {
                regs.flm = 1;
                value = original_sign == 1 ? 0xFFFF'FFFF'8000'0000 : 0x7FFF'FFFF;
            }
        }
        SetAcc(dest, value);
    }

    void movs(MemImm8 a, Ab b) {
        u64 value = SignExtend<16, u64>(LoadFromMemory(a));
        u16 sv = regs.sv;
        ShiftBus40(value, sv, b.GetName());
    }
    void movs(Rn a, StepZIDS as, Ab b) {
        u16 address = RnAddressAndModify(a.Index(), as.GetName());
        u64 value = SignExtend<16, u64>(mem.DataRead(address));
        u16 sv = regs.sv;
        ShiftBus40(value, sv, b.GetName());
    }
    void movs(Register a, Ab b) {
        u64 value = SignExtend<16, u64>(RegToBus16(a.GetName()));
        u16 sv = regs.sv;
        ShiftBus40(value, sv, b.GetName());
    }
    void movs_r6_to(Ax b) {
        u64 value = SignExtend<16, u64>(regs.r[6]);
        u16 sv = regs.sv;
        ShiftBus40(value, sv, b.GetName());
    }
    void movsi(RnOld a, Ab b, Imm5s s) {
        u64 value = SignExtend<16, u64>(RegToBus16(a.GetName()));
        u16 sv = s.Signed16();
        ShiftBus40(value, sv, b.GetName());
    }

    void movr(ArRn2 a, ArStep2 as, Abh b) {
        u16 value16 = mem.DataRead(RnAddressAndModify(GetArRnUnit(a), GetArStep(as)));
        u64 value = SignExtend<32, u64>((u64)value16 << 16);
        u64 result = AddSub(value, 0x8000, false);
        SatAndSetAccAndFlag(b.GetName(), result);
    }
    void movr(Rn a, StepZIDS as, Ax b) {
        u16 value16 = mem.DataRead(RnAddressAndModify(a.Index(), as.GetName()));
        // Do 16-bit arithmetic. Flag C is set according to bit 16 but Flag V is always cleared
        // Looks like a hardware bug to me
        u64 result = (u64)value16 + 0x8000;
        regs.fc0 = (u16)(result >> 16);
        regs.fv = 0;
        result &= 0xFFFF;
        SatAndSetAccAndFlag(b.GetName(), result);
    }
    void movr(Register a, Ax b) {
        u64 result;
        if (a.GetName() == RegName::a0 || a.GetName() == RegName::a1) {
            u64 value = GetAcc(a.GetName());
            result = AddSub(value, 0x8000, false);
        } else if (a.GetName() == RegName::p) {
            u64 value = ProductToBus40(Px{0});
            result = AddSub(value, 0x8000, false);
        } else {
            u16 value16 = RegToBus16(a.GetName());
            result = (u64)value16 + 0x8000;
            regs.fc0 = (u16)(result >> 16);
            regs.fv = 0;
            result &= 0xFFFF;
        }
        SatAndSetAccAndFlag(b.GetName(), result);
    }
    void movr(Bx a, Ax b) {
        u64 value = GetAcc(a.GetName());
        u64 result = AddSub(value, 0x8000, false);
        SatAndSetAccAndFlag(b.GetName(), result);
    }
    void movr_r6_to(Ax b) {
        u16 value16 = regs.r[6];
        u64 result = (u64)value16 + 0x8000;
        regs.fc0 = (u16)(result >> 16);
        regs.fv = 0;
        result &= 0xFFFF;
        SatAndSetAccAndFlag(b.GetName(), result);
    }

    u16 Exp(u64 value) {
        u64 sign = (value >> 39) & 1;
        u16 bit = 38, count = 0;
        while (true) {
            if (((value >> bit) & 1) != sign)
                break;
            ++count;
            if (bit == 0)
                break;
            --bit;
        }
        return count - 8;
    }

    void ExpStore(Ax b) {
        SetAcc(b.GetName(), SignExtend<16, u64>(regs.sv));
    }

    void exp(Bx a) {
        u64 value = GetAcc(a.GetName());
        regs.sv = Exp(value);
    }
    void exp(Bx a, Ax b) {
        exp(a);
        ExpStore(b);
    }
    void exp(Rn a, StepZIDS as) {
        u16 address = RnAddressAndModify(a.Index(), as.GetName());
        u64 value = SignExtend<32>((u64)mem.DataRead(address) << 16);
        regs.sv = Exp(value);
    }
    void exp(Rn a, StepZIDS as, Ax b) {
        exp(a, as);
        ExpStore(b);
    }
    void exp(Register a) {
        u64 value;
        if (a.GetName() == RegName::a0 || a.GetName() == RegName::a1) {
            value = GetAcc(a.GetName());
        } else {
            // RegName::p follows the usual rule
            value = SignExtend<32>((u64)RegToBus16(a.GetName()) << 16);
        }
        regs.sv = Exp(value);
    }
    void exp(Register a, Ax b) {
        exp(a);
        ExpStore(b);
    }
    void exp_r6() {
        u64 value = SignExtend<32>((u64)RegToBus16(RegName::r6) << 16);
        regs.sv = Exp(value);
    }
    void exp_r6(Ax b) {
        exp_r6();
        ExpStore(b);
    }

    void lim(Ax a, Ax b) {
        u64 value = GetAcc(a.GetName());
        value = SaturateAcc(value);
        SetAccAndFlag(b.GetName(), value);
    }

    void vtrclr0() {
        regs.vtr0 = 0;
    }
    void vtrclr1() {
        regs.vtr1 = 0;
    }
    void vtrclr() {
        regs.vtr0 = 0;
        regs.vtr1 = 0;
    }
    void vtrmov0(Axl a) {
        SatAndSetAccAndFlag(a.GetName(), regs.vtr0);
    }
    void vtrmov1(Axl a) {
        SatAndSetAccAndFlag(a.GetName(), regs.vtr1);
    }
    void vtrmov(Axl a) {
        SatAndSetAccAndFlag(a.GetName(), (regs.vtr1 & 0xFF00) | (regs.vtr0 >> 8));
    }
    void vtrshr() {
        // TODO: This instruction has one cycle delay on vtr0, but not on vtr1
        regs.vtr0 = (regs.vtr0 >> 1) | (regs.fc0 << 15);
        regs.vtr1 = (regs.vtr1 >> 1) | (regs.fc1 << 15);
    }

    void clrp0() {
        ProductFromBus32(Px{0}, 0);
    }
    void clrp1() {
        ProductFromBus32(Px{1}, 0);
    }
    void clrp() {
        ProductFromBus32(Px{0}, 0);
        ProductFromBus32(Px{1}, 0);
    }

    void max_ge(Ax a, StepZIDS bs) {
        u64 u = GetAcc(a.GetName());
        u64 v = GetAcc(CounterAcc(a.GetName()));
        u64 d = v - u;
        u16 r0 = RnAndModify(0, bs.GetName());
        if (((d >> 63) & 1) == 0) {
            regs.fm = 1;
            regs.mixp = r0;
            SetAcc(a.GetName(), v);
        } else {
            regs.fm = 0;
        }
    }
    void max_gt(Ax a, StepZIDS bs) {
        u64 u = GetAcc(a.GetName());
        u64 v = GetAcc(CounterAcc(a.GetName()));
        u64 d = v - u;
        u16 r0 = RnAndModify(0, bs.GetName());
        if (((d >> 63) & 1) == 0 && d != 0) {
            regs.fm = 1;
            regs.mixp = r0;
            SetAcc(a.GetName(), v);
        } else {
            regs.fm = 0;
        }
    }
    void min_le(Ax a, StepZIDS bs) {
        u64 u = GetAcc(a.GetName());
        u64 v = GetAcc(CounterAcc(a.GetName()));
        u64 d = v - u;
        u16 r0 = RnAndModify(0, bs.GetName());
        if (((d >> 63) & 1) == 1 || d == 0) {
            regs.fm = 1;
            regs.mixp = r0;
            SetAcc(a.GetName(), v);
        } else {
            regs.fm = 0;
        }
    }
    void min_lt(Ax a, StepZIDS bs) {
        u64 u = GetAcc(a.GetName());
        u64 v = GetAcc(CounterAcc(a.GetName()));
        u64 d = v - u;
        u16 r0 = RnAndModify(0, bs.GetName());
        if (((d >> 63) & 1) == 1) {
            regs.fm = 1;
            regs.mixp = r0;
            SetAcc(a.GetName(), v);
        } else {
            regs.fm = 0;
        }
    }

    void max_ge_r0(Ax a, StepZIDS bs) {
        u64 u = GetAcc(a.GetName());
        u16 r0 = RnAndModify(0, bs.GetName());
        u64 v = SignExtend<16, u64>(mem.DataRead(RnAddress(0, r0)));
        u64 d = v - u;
        if (((d >> 63) & 1) == 0) {
            regs.fm = 1;
            regs.mixp = r0;
            SetAcc(a.GetName(), v);
        } else {
            regs.fm = 0;
        }
    }
    void max_gt_r0(Ax a, StepZIDS bs) {
        u64 u = GetAcc(a.GetName());
        u16 r0 = RnAndModify(0, bs.GetName());
        u64 v = SignExtend<16, u64>(mem.DataRead(RnAddress(0, r0)));
        u64 d = v - u;
        if (((d >> 63) & 1) == 0 && d != 0) {
            regs.fm = 1;
            regs.mixp = r0;
            SetAcc(a.GetName(), v);
        } else {
            regs.fm = 0;
        }
    }
    void min_le_r0(Ax a, StepZIDS bs) {
        u64 u = GetAcc(a.GetName());
        u16 r0 = RnAndModify(0, bs.GetName());
        u64 v = SignExtend<16, u64>(mem.DataRead(RnAddress(0, r0)));
        u64 d = v - u;
        if (((d >> 63) & 1) == 1 || d == 0) {
            regs.fm = 1;
            regs.mixp = r0;
            SetAcc(a.GetName(), v);
        } else {
            regs.fm = 0;
        }
    }
    void min_lt_r0(Ax a, StepZIDS bs) {
        u64 u = GetAcc(a.GetName());
        u16 r0 = RnAndModify(0, bs.GetName());
        u64 v = SignExtend<16, u64>(mem.DataRead(RnAddress(0, r0)));
        u64 d = v - u;
        if (((d >> 63) & 1) == 1) {
            regs.fm = 1;
            regs.mixp = r0;
            SetAcc(a.GetName(), v);
        } else {
            regs.fm = 0;
        }
    }

    void divs(MemImm8 a, Ax b) {
        u16 da = LoadFromMemory(a);
        u64 db = GetAcc(b.GetName());
        u64 value = db - ((u64)da << 15);
        if (value >> 63) {
            SetAccAndFlag(b.GetName(), SignExtend<40>(db << 1));
        } else {
            SetAccAndFlag(b.GetName(), SignExtend<40>((value << 1) + 1));
        }
    }

    void sqr_sqr_add3(Ab a, Ab b) {
        u64 value = GetAcc(a.GetName());
        app(b, SumBase::Acc, false, false, false, false);
        regs.x[0] = regs.y[0] = (u16)((value >> 16) & 0xFFFF);
        regs.x[1] = regs.y[1] = (u16)(value & 0xFFFF);
        DoMultiplication(0, true, true);
        DoMultiplication(1, true, true);
    }

    void sqr_sqr_add3(ArRn2 a, ArStep2 as, Ab b) {
        app(b, SumBase::Acc, false, false, false, false);
        u16 unit = GetArRnUnit(a);
        u16 address0 = RnAddressAndModify(unit, GetArStep(as));
        u16 address1 = OffsetAddress(unit, address0, GetArOffset(as));
        regs.x[0] = regs.y[0] = mem.DataRead(address0);
        regs.x[1] = regs.y[1] = mem.DataRead(address1);
        DoMultiplication(0, true, true);
        DoMultiplication(1, true, true);
    }

    void sqr_mpysu_add3a(Ab a, Ab b) {
        u64 value = GetAcc(a.GetName());
        app(b, SumBase::Acc, false, false, false, true);
        regs.x[0] = regs.y[0] = regs.y[1] = (u16)((value >> 16) & 0xFFFF);
        regs.x[1] = (u16)(value & 0xFFFF);
        DoMultiplication(0, true, true);
        DoMultiplication(1, false, true);
    }

    void cmp(Ax a, Bx b) {
        u64 va = GetAcc(a.GetName());
        u64 vb = GetAcc(b.GetName());
        SetAccFlag(AddSub(vb, va, true));
    }
    void cmp_b0_b1() {
        u64 va = GetAcc(RegName::b0);
        u64 vb = GetAcc(RegName::b1);
        SetAccFlag(AddSub(vb, va, true));
    }
    void cmp_b1_b0() {
        u64 va = GetAcc(RegName::b1);
        u64 vb = GetAcc(RegName::b0);
        SetAccFlag(AddSub(vb, va, true));
    }
    void cmp(Bx a, Ax b) {
        u64 va = GetAcc(a.GetName());
        u64 vb = GetAcc(b.GetName());
        SetAccFlag(AddSub(vb, va, true));
    }
    void cmp_p1_to(Ax b) {
        u64 va = ProductToBus40(Px{1});
        u64 vb = GetAcc(b.GetName());
        SetAccFlag(AddSub(vb, va, true));
    }

    void MinMaxVtr(RegName a, RegName b, bool min) {
        u64 u = GetAcc(a);
        u64 v = GetAcc(b);
        u64 uh = SignExtend<24, u64>(u >> 16);
        u64 ul = SignExtend<16, u64>(u & 0xFFFF);
        u64 vh = SignExtend<24, u64>(v >> 16);
        u64 vl = SignExtend<16, u64>(v & 0xFFFF);
        u64 wh = min ? uh - vh : vh - uh;
        u64 wl = min ? ul - vl : vl - ul;

        regs.fc0 = !(wh >> 63);
        regs.fc1 = !(wl >> 63);

        wh = regs.fc0 != 0 ? vh : uh;
        wl = regs.fc1 != 0 ? vl : ul;

        u64 w = (wh << 16) | (wl & 0xFFFF);
        SetAcc(a, w);
        vtrshr();
    }

    void max2_vtr(Ax a) {
        MinMaxVtr(a.GetName(), CounterAcc(a.GetName()), false);
    }
    void min2_vtr(Ax a) {
        MinMaxVtr(a.GetName(), CounterAcc(a.GetName()), true);
    }
    void max2_vtr(Ax a, Bx b) {
        MinMaxVtr(a.GetName(), b.GetName(), false);
    }
    void min2_vtr(Ax a, Bx b) {
        MinMaxVtr(a.GetName(), b.GetName(), true);
    }
    void max2_vtr_movl(Ax a, Bx b, ArRn1 c, ArStep1 cs) {
        MinMaxVtr(a.GetName(), b.GetName(), false);
        u64 value = GetAndSatAccNoFlag(CounterAcc(a.GetName()));
        u16 address = RnAddressAndModify(GetArRnUnit(c), GetArStep(cs));
        u16 value16 = (u16)(value & 0xFFFF);
        mem.DataWrite(address, value16);
    }
    void max2_vtr_movh(Ax a, Bx b, ArRn1 c, ArStep1 cs) {
        MinMaxVtr(a.GetName(), b.GetName(), false);
        u64 value = GetAndSatAccNoFlag(CounterAcc(a.GetName()));
        u16 address = RnAddressAndModify(GetArRnUnit(c), GetArStep(cs));
        u16 value16 = (u16)((value >> 16) & 0xFFFF);
        mem.DataWrite(address, value16);
    }
    void max2_vtr_movl(Bx a, Ax b, ArRn1 c, ArStep1 cs) {
        MinMaxVtr(a.GetName(), b.GetName(), false);
        u64 value = GetAndSatAccNoFlag(CounterAcc(a.GetName()));
        u16 address = RnAddressAndModify(GetArRnUnit(c), GetArStep(cs));
        u16 value16 = (u16)(value & 0xFFFF);
        mem.DataWrite(address, value16);
    }
    void max2_vtr_movh(Bx a, Ax b, ArRn1 c, ArStep1 cs) {
        MinMaxVtr(a.GetName(), b.GetName(), false);
        u64 value = GetAndSatAccNoFlag(CounterAcc(a.GetName()));
        u16 address = RnAddressAndModify(GetArRnUnit(c), GetArStep(cs));
        u16 value16 = (u16)((value >> 16) & 0xFFFF);
        mem.DataWrite(address, value16);
    }
    void min2_vtr_movl(Ax a, Bx b, ArRn1 c, ArStep1 cs) {
        MinMaxVtr(a.GetName(), b.GetName(), true);
        u64 value = GetAndSatAccNoFlag(CounterAcc(a.GetName()));
        u16 address = RnAddressAndModify(GetArRnUnit(c), GetArStep(cs));
        u16 value16 = (u16)(value & 0xFFFF);
        mem.DataWrite(address, value16);
    }
    void min2_vtr_movh(Ax a, Bx b, ArRn1 c, ArStep1 cs) {
        MinMaxVtr(a.GetName(), b.GetName(), true);
        u64 value = GetAndSatAccNoFlag(CounterAcc(a.GetName()));
        u16 address = RnAddressAndModify(GetArRnUnit(c), GetArStep(cs));
        u16 value16 = (u16)((value >> 16) & 0xFFFF);
        mem.DataWrite(address, value16);
    }
    void min2_vtr_movl(Bx a, Ax b, ArRn1 c, ArStep1 cs) {
        MinMaxVtr(a.GetName(), b.GetName(), true);
        u64 value = GetAndSatAccNoFlag(CounterAcc(a.GetName()));
        u16 address = RnAddressAndModify(GetArRnUnit(c), GetArStep(cs));
        u16 value16 = (u16)(value & 0xFFFF);
        mem.DataWrite(address, value16);
    }
    void min2_vtr_movh(Bx a, Ax b, ArRn1 c, ArStep1 cs) {
        MinMaxVtr(a.GetName(), b.GetName(), true);
        u64 value = GetAndSatAccNoFlag(CounterAcc(a.GetName()));
        u16 address = RnAddressAndModify(GetArRnUnit(c), GetArStep(cs));
        u16 value16 = (u16)((value >> 16) & 0xFFFF);
        mem.DataWrite(address, value16);
    }
    void max2_vtr_movij(Ax a, Bx b, ArpRn1 c, ArpStep1 csi, ArpStep1 csj) {
        MinMaxVtr(a.GetName(), b.GetName(), false);
        u64 value = GetAndSatAccNoFlag(CounterAcc(a.GetName()));
        u16 h = (u16)((value >> 16) & 0xFFFF);
        u16 l = (u16)(value & 0xFFFF);
        auto [ui, uj] = GetArpRnUnit(c);
        auto [si, sj] = GetArpStep(csi, csj);
        u16 i = RnAddressAndModify(ui, si);
        u16 j = RnAddressAndModify(uj, sj);
        mem.DataWrite(i, h);
        mem.DataWrite(j, l);
    }
    void max2_vtr_movji(Ax a, Bx b, ArpRn1 c, ArpStep1 csi, ArpStep1 csj) {
        MinMaxVtr(a.GetName(), b.GetName(), false);
        u64 value = GetAndSatAccNoFlag(CounterAcc(a.GetName()));
        u16 h = (u16)((value >> 16) & 0xFFFF);
        u16 l = (u16)(value & 0xFFFF);
        auto [ui, uj] = GetArpRnUnit(c);
        auto [si, sj] = GetArpStep(csi, csj);
        u16 i = RnAddressAndModify(ui, si);
        u16 j = RnAddressAndModify(uj, sj);
        mem.DataWrite(i, l);
        mem.DataWrite(j, h);
    }
    void min2_vtr_movij(Ax a, Bx b, ArpRn1 c, ArpStep1 csi, ArpStep1 csj) {
        MinMaxVtr(a.GetName(), b.GetName(), true);
        u64 value = GetAndSatAccNoFlag(CounterAcc(a.GetName()));
        u16 h = (u16)((value >> 16) & 0xFFFF);
        u16 l = (u16)(value & 0xFFFF);
        auto [ui, uj] = GetArpRnUnit(c);
        auto [si, sj] = GetArpStep(csi, csj);
        u16 i = RnAddressAndModify(ui, si);
        u16 j = RnAddressAndModify(uj, sj);
        mem.DataWrite(i, h);
        mem.DataWrite(j, l);
    }
    void min2_vtr_movji(Ax a, Bx b, ArpRn1 c, ArpStep1 csi, ArpStep1 csj) {
        MinMaxVtr(a.GetName(), b.GetName(), true);
        u64 value = GetAndSatAccNoFlag(CounterAcc(a.GetName()));
        u16 h = (u16)((value >> 16) & 0xFFFF);
        u16 l = (u16)(value & 0xFFFF);
        auto [ui, uj] = GetArpRnUnit(c);
        auto [si, sj] = GetArpStep(csi, csj);
        u16 i = RnAddressAndModify(ui, si);
        u16 j = RnAddressAndModify(uj, sj);
        mem.DataWrite(i, l);
        mem.DataWrite(j, h);
    }

    template <typename ArpStepX>
    void mov_sv_app(ArRn1 a, ArpStepX as, Bx b, SumBase base, bool sub_p0, bool p0_align,
                    bool sub_p1, bool p1_align) {
        regs.sv = mem.DataRead(RnAddressAndModify(GetArRnUnit(a), GetArStep(as)));
        ProductSum(base, b.GetName(), sub_p0, p0_align, sub_p1, p1_align);
    }

    void CodebookSearch(u16 u, u16 v, u16 r, CbsCond c) {
        u64 diff = ProductToBus40(Px{0}) - ProductToBus40(Px{1});
        bool cond;
        switch (c.GetName()) {
        case CbsCondValue::Ge:
            cond = !(diff >> 63);
            break;
        case CbsCondValue::Gt:
            cond = !(diff >> 63) && diff != 0;
            break;
        default:
            UNREACHABLE();
        }
        if (cond) {
            regs.x[1] = regs.p0h_cbs;
            regs.x[0] = regs.y[1];
            regs.mixp = r;
        }
        regs.y[0] = u;
        u16 x0 = std::exchange(regs.x[0], regs.y[0]);
        DoMultiplication(0, true, true);
        regs.p0h_cbs = regs.y[0] = (u16)((ProductToBus40(Px{0}) >> 16) & 0xFFFF);
        regs.x[0] = x0;
        regs.y[1] = v;
        DoMultiplication(0, true, true);
        DoMultiplication(1, true, true);
    }

    void cbs(Axh a, CbsCond c) {
        u16 u = (u16)((GetAcc(a.GetName()) >> 16) & 0xFFFF);
        u16 v = (u16)((GetAcc(CounterAcc(a.GetName())) >> 16) & 0xFFFF);
        u16 r = regs.r[0];
        CodebookSearch(u, v, r, c);
    }
    void cbs(Axh a, Bxh b, CbsCond c) {
        u16 u = (u16)((GetAcc(a.GetName()) >> 16) & 0xFFFF);
        u16 v = (u16)((GetAcc(b.GetName()) >> 16) & 0xFFFF);
        u16 r = regs.r[0];
        CodebookSearch(u, v, r, c);
    }
    void cbs(ArpRn1 a, ArpStep1 asi, ArpStep1 asj, CbsCond c) {
        auto [ui, uj] = GetArpRnUnit(a);
        auto [si, sj] = GetArpStep(asi, asj);
        u16 aip = RnAndModify(ui, si);
        u16 ai = RnAddress(ui, aip);
        u16 aj = RnAddressAndModify(uj, sj);
        u16 u = mem.DataRead(ai);
        u16 v = mem.DataRead(aj);
        u16 r = aip;
        CodebookSearch(u, v, r, c);
    }

    void mma(RegName a, bool x0_sign, bool y0_sign, bool x1_sign, bool y1_sign, SumBase base,
             bool sub_p0, bool p0_align, bool sub_p1, bool p1_align) {
        ProductSum(base, a, sub_p0, p0_align, sub_p1, p1_align);
        std::swap(regs.x[0], regs.x[1]);
        DoMultiplication(0, x0_sign, y0_sign);
        DoMultiplication(1, x1_sign, y1_sign);
    }

    template <typename ArpRnX, typename ArpStepX>
    void mma(ArpRnX xy, ArpStepX i, ArpStepX j, bool dmodi, bool dmodj, RegName a, bool x0_sign,
             bool y0_sign, bool x1_sign, bool y1_sign, SumBase base, bool sub_p0, bool p0_align,
             bool sub_p1, bool p1_align) {
        ProductSum(base, a, sub_p0, p0_align, sub_p1, p1_align);
        auto [ui, uj] = GetArpRnUnit(xy);
        auto [si, sj] = GetArpStep(i, j);
        auto [oi, oj] = GetArpOffset(i, j);
        u16 x = RnAddressAndModify(ui, si, dmodi);
        u16 y = RnAddressAndModify(uj, sj, dmodj);
        regs.x[0] = mem.DataRead(x);
        regs.y[0] = mem.DataRead(y);
        regs.x[1] = mem.DataRead(OffsetAddress(ui, x, oi, dmodi));
        regs.y[1] = mem.DataRead(OffsetAddress(uj, y, oj, dmodj));
        DoMultiplication(0, x0_sign, y0_sign);
        DoMultiplication(1, x1_sign, y1_sign);
    }

    void mma_mx_xy(ArRn1 y, ArStep1 ys, RegName a, bool x0_sign, bool y0_sign, bool x1_sign,
                   bool y1_sign, SumBase base, bool sub_p0, bool p0_align, bool sub_p1,
                   bool p1_align) {
        ProductSum(base, a, sub_p0, p0_align, sub_p1, p1_align);
        std::swap(regs.x[0], regs.x[1]);
        regs.y[0] = mem.DataRead(RnAddressAndModify(GetArRnUnit(y), GetArStep(ys)));
        DoMultiplication(0, x0_sign, y0_sign);
        DoMultiplication(1, x1_sign, y1_sign);
    }

    void mma_xy_mx(ArRn1 y, ArStep1 ys, RegName a, bool x0_sign, bool y0_sign, bool x1_sign,
                   bool y1_sign, SumBase base, bool sub_p0, bool p0_align, bool sub_p1,
                   bool p1_align) {
        ProductSum(base, a, sub_p0, p0_align, sub_p1, p1_align);
        std::swap(regs.x[0], regs.x[1]);
        regs.y[1] = mem.DataRead(RnAddressAndModify(GetArRnUnit(y), GetArStep(ys)));
        DoMultiplication(0, x0_sign, y0_sign);
        DoMultiplication(1, x1_sign, y1_sign);
    }

    void mma_my_my(ArRn1 x, ArStep1 xs, RegName a, bool x0_sign, bool y0_sign, bool x1_sign,
                   bool y1_sign, SumBase base, bool sub_p0, bool p0_align, bool sub_p1,
                   bool p1_align) {
        ProductSum(base, a, sub_p0, p0_align, sub_p1, p1_align);
        u16 unit = GetArRnUnit(x);
        u16 address = RnAddressAndModify(unit, GetArStep(xs));
        regs.x[0] = mem.DataRead(address);
        regs.x[1] = mem.DataRead(OffsetAddress(unit, address, GetArOffset(xs)));
        DoMultiplication(0, x0_sign, y0_sign);
        DoMultiplication(1, x1_sign, y1_sign);
    }

    void mma_mov(Axh u, Bxh v, ArRn1 w, ArStep1 ws, RegName a, bool x0_sign, bool y0_sign,
                 bool x1_sign, bool y1_sign, SumBase base, bool sub_p0, bool p0_align, bool sub_p1,
                 bool p1_align) {
        u16 unit = GetArRnUnit(w);
        u16 address = RnAddressAndModify(unit, GetArStep(ws));
        u16 u_value = (u16)((GetAndSatAccNoFlag(u.GetName()) >> 16) & 0xFFFF);
        u16 v_value = (u16)((GetAndSatAccNoFlag(v.GetName()) >> 16) & 0xFFFF);
        // keep the order like this
        mem.DataWrite(OffsetAddress(unit, address, GetArOffset(ws)), v_value);
        mem.DataWrite(address, u_value);
        ProductSum(base, a, sub_p0, p0_align, sub_p1, p1_align);
        std::swap(regs.x[0], regs.x[1]);
        DoMultiplication(0, x0_sign, y0_sign);
        DoMultiplication(1, x1_sign, y1_sign);
    }

    void mma_mov(ArRn2 w, ArStep1 ws, RegName a, bool x0_sign, bool y0_sign, bool x1_sign,
                 bool y1_sign, SumBase base, bool sub_p0, bool p0_align, bool sub_p1,
                 bool p1_align) {
        u16 unit = GetArRnUnit(w);
        u16 address = RnAddressAndModify(unit, GetArStep(ws));
        u16 u_value = (u16)((GetAndSatAccNoFlag(a) >> 16) & 0xFFFF);
        u16 v_value = (u16)((GetAndSatAccNoFlag(CounterAcc(a)) >> 16) & 0xFFFF);
        // keep the order like this
        mem.DataWrite(OffsetAddress(unit, address, GetArOffset(ws)), v_value);
        mem.DataWrite(address, u_value);
        ProductSum(base, a, sub_p0, p0_align, sub_p1, p1_align);
        std::swap(regs.x[0], regs.x[1]);
        DoMultiplication(0, x0_sign, y0_sign);
        DoMultiplication(1, x1_sign, y1_sign);
    }

    void addhp(ArRn2 a, ArStep2 as, Px b, Ax c) {
        u16 address = RnAddressAndModify(GetArRnUnit(a), GetArStep(as));
        u64 value = SignExtend<32, u64>(((u64)mem.DataRead(address) << 16) | 0x8000);
        u64 p = ProductToBus40(b);
        u64 result = AddSub(value, p, false);
        SatAndSetAccAndFlag(c.GetName(), result);
    }

    void mov_ext0(Imm8s a) {
        regs.ext[0] = a.Signed16();
    }
    void mov_ext1(Imm8s a) {
        regs.ext[1] = a.Signed16();
    }
    void mov_ext2(Imm8s a) {
        regs.ext[2] = a.Signed16();
    }
    void mov_ext3(Imm8s a) {
        regs.ext[3] = a.Signed16();
    }

private:
    CoreTiming& core_timing;
    RegisterState& regs;
    MemoryInterface& mem;

    std::array<std::atomic<bool>, 3> interrupt_pending{{false, false, false}};
    std::atomic<bool> vinterrupt_pending{false};
    std::atomic<bool> vinterrupt_context_switch;
    std::atomic<u32> vinterrupt_address;

    bool idle = false;

    u64 GetAcc(RegName name) const {
        switch (name) {
        case RegName::a0:
        case RegName::a0h:
        case RegName::a0l:
        case RegName::a0e:
            return regs.a[0];
        case RegName::a1:
        case RegName::a1h:
        case RegName::a1l:
        case RegName::a1e:
            return regs.a[1];
        case RegName::b0:
        case RegName::b0h:
        case RegName::b0l:
        case RegName::b0e:
            return regs.b[0];
        case RegName::b1:
        case RegName::b1h:
        case RegName::b1l:
        case RegName::b1e:
            return regs.b[1];
        default:
            UNREACHABLE();
        }
    }

    u64 SaturateAccNoFlag(u64 value) const {
        if (value != SignExtend<32>(value)) {
            if ((value >> 39) != 0)
                return 0xFFFF'FFFF'8000'0000;
            else
                return 0x0000'0000'7FFF'FFFF;
        }
        return value;
    }

    u64 SaturateAcc(u64 value) {
        if (value != SignExtend<32>(value)) {
            regs.flm = 1;
            if ((value >> 39) != 0)
                return 0xFFFF'FFFF'8000'0000;
            else
                return 0x0000'0000'7FFF'FFFF;
        }
        // note: flm doesn't change value otherwise
        return value;
    }

    u64 GetAndSatAcc(RegName name) {
        u64 value = GetAcc(name);
        if (!regs.sat) {
            return SaturateAcc(value);
        }
        return value;
    }

    u64 GetAndSatAccNoFlag(RegName name) const {
        u64 value = GetAcc(name);
        if (!regs.sat) {
            return SaturateAccNoFlag(value);
        }
        return value;
    }

    u16 RegToBus16(RegName reg, bool enable_sat_for_mov = false) {
        switch (reg) {
        case RegName::a0:
        case RegName::a1:
        case RegName::b0:
        case RegName::b1:
            // get aXl, but unlike using RegName::aXl, this does never saturate.
            // This only happen to insturctions using "Register" operand,
            // and doesn't apply to all instructions. Need test and special check.
            return GetAcc(reg) & 0xFFFF;
        case RegName::a0l:
        case RegName::a1l:
        case RegName::b0l:
        case RegName::b1l:
            if (enable_sat_for_mov) {
                return GetAndSatAcc(reg) & 0xFFFF;
            }
            return GetAcc(reg) & 0xFFFF;
        case RegName::a0h:
        case RegName::a1h:
        case RegName::b0h:
        case RegName::b1h:
            if (enable_sat_for_mov) {
                return (GetAndSatAcc(reg) >> 16) & 0xFFFF;
            }
            return (GetAcc(reg) >> 16) & 0xFFFF;
        case RegName::a0e:
        case RegName::a1e:
        case RegName::b0e:
        case RegName::b1e:
            UNREACHABLE();

        case RegName::r0:
            return regs.r[0];
        case RegName::r1:
            return regs.r[1];
        case RegName::r2:
            return regs.r[2];
        case RegName::r3:
            return regs.r[3];
        case RegName::r4:
            return regs.r[4];
        case RegName::r5:
            return regs.r[5];
        case RegName::r6:
            return regs.r[6];
        case RegName::r7:
            return regs.r[7];

        case RegName::y0:
            return regs.y[0];
        case RegName::p:
            // This only happen to insturctions using "Register" operand,
            // and doesn't apply to all instructions. Need test and special check.
            return (ProductToBus40(Px{0}) >> 16) & 0xFFFF;

        case RegName::pc:
            UNREACHABLE();
        case RegName::sp:
            return regs.sp;
        case RegName::sv:
            return regs.sv;
        case RegName::lc:
            return regs.Lc();

        case RegName::ar0:
            return regs.Get<ar0>();
        case RegName::ar1:
            return regs.Get<ar1>();

        case RegName::arp0:
            return regs.Get<arp0>();
        case RegName::arp1:
            return regs.Get<arp1>();
        case RegName::arp2:
            return regs.Get<arp2>();
        case RegName::arp3:
            return regs.Get<arp3>();

        case RegName::ext0:
            return regs.ext[0];
        case RegName::ext1:
            return regs.ext[1];
        case RegName::ext2:
            return regs.ext[2];
        case RegName::ext3:
            return regs.ext[3];

        case RegName::stt0:
            return regs.Get<stt0>();
        case RegName::stt1:
            return regs.Get<stt1>();
        case RegName::stt2:
            return regs.Get<stt2>();

        case RegName::st0:
            return regs.Get<st0>();
        case RegName::st1:
            return regs.Get<st1>();
        case RegName::st2:
            return regs.Get<st2>();

        case RegName::cfgi:
            return regs.Get<cfgi>();
        case RegName::cfgj:
            return regs.Get<cfgj>();

        case RegName::mod0:
            return regs.Get<mod0>();
        case RegName::mod1:
            return regs.Get<mod1>();
        case RegName::mod2:
            return regs.Get<mod2>();
        case RegName::mod3:
            return regs.Get<mod3>();
        default:
            UNREACHABLE();
        }
    }

    void SetAccFlag(u64 value) {
        regs.fz = value == 0;
        regs.fm = (value >> 39) != 0;
        regs.fe = value != SignExtend<32>(value);
        u64 bit31 = (value >> 31) & 1;
        u64 bit30 = (value >> 30) & 1;
        regs.fn = regs.fz || (!regs.fe && (bit31 ^ bit30) != 0);
    }

    void SetAcc(RegName name, u64 value) {
        switch (name) {
        case RegName::a0:
        case RegName::a0h:
        case RegName::a0l:
        case RegName::a0e:
            regs.a[0] = value;
            break;
        case RegName::a1:
        case RegName::a1h:
        case RegName::a1l:
        case RegName::a1e:
            regs.a[1] = value;
            break;
        case RegName::b0:
        case RegName::b0h:
        case RegName::b0l:
        case RegName::b0e:
            regs.b[0] = value;
            break;
        case RegName::b1:
        case RegName::b1h:
        case RegName::b1l:
        case RegName::b1e:
            regs.b[1] = value;
            break;
        default:
            UNREACHABLE();
        }
    }

    void SatAndSetAccAndFlag(RegName name, u64 value) {
        SetAccFlag(value);
        if (!regs.sata) {
            value = SaturateAcc(value);
        }
        SetAcc(name, value);
    }

    void SetAccAndFlag(RegName name, u64 value) {
        SetAccFlag(value);
        SetAcc(name, value);
    }

    void RegFromBus16(RegName reg, u16 value) {
        switch (reg) {
        case RegName::a0:
        case RegName::a1:
        case RegName::b0:
        case RegName::b1:
            SatAndSetAccAndFlag(reg, SignExtend<16, u64>(value));
            break;
        case RegName::a0l:
        case RegName::a1l:
        case RegName::b0l:
        case RegName::b1l:
            SatAndSetAccAndFlag(reg, (u64)value);
            break;
        case RegName::a0h:
        case RegName::a1h:
        case RegName::b0h:
        case RegName::b1h:
            SatAndSetAccAndFlag(reg, SignExtend<32, u64>(value << 16));
            break;
        case RegName::a0e:
        case RegName::a1e:
        case RegName::b0e:
        case RegName::b1e:
            UNREACHABLE();

        case RegName::r0:
            regs.r[0] = value;
            break;
        case RegName::r1:
            regs.r[1] = value;
            break;
        case RegName::r2:
            regs.r[2] = value;
            break;
        case RegName::r3:
            regs.r[3] = value;
            break;
        case RegName::r4:
            regs.r[4] = value;
            break;
        case RegName::r5:
            regs.r[5] = value;
            break;
        case RegName::r6:
            regs.r[6] = value;
            break;
        case RegName::r7:
            regs.r[7] = value;
            break;

        case RegName::y0:
            regs.y[0] = value;
            break;
        case RegName::p: // p0h
            regs.pe[0] = value > 0x7FFF;
            regs.p[0] = (regs.p[0] & 0xFFFF) | (value << 16);
            break;

        case RegName::pc:
            UNREACHABLE();
        case RegName::sp:
            regs.sp = value;
            break;
        case RegName::sv:
            regs.sv = value;
            break;
        case RegName::lc:
            regs.Lc() = value;
            break;

        case RegName::ar0:
            regs.Set<ar0>(value);
            break;
        case RegName::ar1:
            regs.Set<ar1>(value);
            break;

        case RegName::arp0:
            regs.Set<arp0>(value);
            break;
        case RegName::arp1:
            regs.Set<arp1>(value);
            break;
        case RegName::arp2:
            regs.Set<arp2>(value);
            break;
        case RegName::arp3:
            regs.Set<arp3>(value);
            break;

        case RegName::ext0:
            regs.ext[0] = value;
            break;
        case RegName::ext1:
            regs.ext[1] = value;
            break;
        case RegName::ext2:
            regs.ext[2] = value;
            break;
        case RegName::ext3:
            regs.ext[3] = value;
            break;

        case RegName::stt0:
            regs.Set<stt0>(value);
            break;
        case RegName::stt1:
            regs.Set<stt1>(value);
            break;
        case RegName::stt2:
            regs.Set<stt2>(value);
            break;

        case RegName::st0:
            regs.Set<st0>(value);
            break;
        case RegName::st1:
            regs.Set<st1>(value);
            break;
        case RegName::st2:
            regs.Set<st2>(value);
            break;

        case RegName::cfgi:
            regs.Set<cfgi>(value);
            break;
        case RegName::cfgj:
            regs.Set<cfgj>(value);
            break;

        case RegName::mod0:
            regs.Set<mod0>(value);
            break;
        case RegName::mod1:
            regs.Set<mod1>(value);
            break;
        case RegName::mod2:
            regs.Set<mod2>(value);
            break;
        case RegName::mod3:
            regs.Set<mod3>(value);
            break;
        default:
            UNREACHABLE();
        }
    }

    template <typename ArRnX>
    u16 GetArRnUnit(ArRnX arrn) const {
        static_assert(std::is_same_v<ArRnX, ArRn1> || std::is_same_v<ArRnX, ArRn2>);
        return regs.arrn[arrn.Index()];
    }

    template <typename ArpRnX>
    std::tuple<u16, u16> GetArpRnUnit(ArpRnX arprn) const {
        static_assert(std::is_same_v<ArpRnX, ArpRn1> || std::is_same_v<ArpRnX, ArpRn2>);
        return std::make_tuple(regs.arprni[arprn.Index()], regs.arprnj[arprn.Index()] + 4);
    }

    static StepValue ConvertArStep(u16 arvalue) {
        switch (arvalue) {
        case 0:
            return StepValue::Zero;
        case 1:
            return StepValue::Increase;
        case 2:
            return StepValue::Decrease;
        case 3:
            return StepValue::PlusStep;
        case 4:
            return StepValue::Increase2Mode1;
        case 5:
            return StepValue::Decrease2Mode1;
        case 6:
            return StepValue::Increase2Mode2;
        case 7:
            return StepValue::Decrease2Mode2;
        default:
            UNREACHABLE();
        }
    }

    template <typename ArStepX>
    StepValue GetArStep(ArStepX arstep) const {
        static_assert(std::is_same_v<ArStepX, ArStep1> || std::is_same_v<ArStepX, ArStep1Alt> ||
                      std::is_same_v<ArStepX, ArStep2>);
        return ConvertArStep(regs.arstep[arstep.Index()]);
    }

    template <typename ArpStepX>
    std::tuple<StepValue, StepValue> GetArpStep(ArpStepX arpstepi, ArpStepX arpstepj) const {
        static_assert(std::is_same_v<ArpStepX, ArpStep1> || std::is_same_v<ArpStepX, ArpStep2>);
        return std::make_tuple(ConvertArStep(regs.arpstepi[arpstepi.Index()]),
                               ConvertArStep(regs.arpstepj[arpstepj.Index()]));
    }

    enum class OffsetValue : u16 {
        Zero = 0,
        PlusOne = 1,
        MinusOne = 2,
        MinusOneDmod = 3,
    };

    template <typename ArStepX>
    OffsetValue GetArOffset(ArStepX arstep) const {
        static_assert(std::is_same_v<ArStepX, ArStep1> || std::is_same_v<ArStepX, ArStep2>);
        return (OffsetValue)regs.aroffset[arstep.Index()];
    }

    template <typename ArpStepX>
    std::tuple<OffsetValue, OffsetValue> GetArpOffset(ArpStepX arpstepi, ArpStepX arpstepj) const {
        static_assert(std::is_same_v<ArpStepX, ArpStep1> || std::is_same_v<ArpStepX, ArpStep2>);
        return std::make_tuple((OffsetValue)regs.arpoffseti[arpstepi.Index()],
                               (OffsetValue)regs.arpoffsetj[arpstepj.Index()]);
    }

    u16 RnAddress(unsigned unit, unsigned value) {
        u16 ret = value;
        if (regs.br[unit] && !regs.m[unit]) {
            ret = BitReverse(ret);
        }
        return ret;
    }

    u16 RnAddressAndModify(unsigned unit, StepValue step, bool dmod = false) {
        return RnAddress(unit, RnAndModify(unit, step, dmod));
    }

    u16 OffsetAddress(unsigned unit, u16 address, OffsetValue offset, bool dmod = false) {
        if (offset == OffsetValue::Zero)
            return address;
        if (offset == OffsetValue::MinusOneDmod) {
            return address - 1;
        }
        bool emod = regs.m[unit] & !regs.br[unit] & !dmod;
        u16 mod = unit < 4 ? regs.modi : regs.modj;
        u16 mask = 1; // mod = 0 still have one bit mask
        for (unsigned i = 0; i < 9; ++i) {
            mask |= mod >> i;
        }
        if (offset == OffsetValue::PlusOne) {
            if (!emod)
                return address + 1;
            if ((address & mask) == mod)
                return address & ~mask;
            return address + 1;
        } else { // OffsetValue::MinusOne
            if (!emod)
                return address - 1;
            throw UnimplementedException();
            // TODO: sometimes this would return two addresses,
            // neither of which is the original Rn value.
            // This only happens for memory writing, but not for memory reading.
            // Might be some undefined behaviour.
            if ((address & mask) == 0)
                return address | mod;
            return address - 1;
        }
    }

    u16 StepAddress(unsigned unit, u16 address, StepValue step, bool dmod = false) {
        u16 s;
        bool legacy = regs.cmd;
        bool step2_mode1 = false;
        bool step2_mode2 = false;
        switch (step) {
        case StepValue::Zero:
            s = 0;
            break;
        case StepValue::Increase:
            s = 1;
            break;
        case StepValue::Decrease:
            s = 0xFFFF;
            break;
        // TODO: Increase/Decrease2Mode1/2 sometimes have wrong result if Offset=+/-1.
        // This however never happens with modr instruction.
        case StepValue::Increase2Mode1:
            s = 2;
            step2_mode1 = !legacy;
            break;
        case StepValue::Decrease2Mode1:
            s = 0xFFFE;
            step2_mode1 = !legacy;
            break;
        case StepValue::Increase2Mode2:
            s = 2;
            step2_mode2 = !legacy;
            break;
        case StepValue::Decrease2Mode2:
            s = 0xFFFE;
            step2_mode2 = !legacy;
            break;
        case StepValue::PlusStep: {
            if (regs.br[unit] && !regs.m[unit]) {
                s = unit < 4 ? regs.stepi0 : regs.stepj0;
            } else {
                s = unit < 4 ? regs.stepi : regs.stepj;
                s = SignExtend<7>(s);
            }
            if (regs.stp16 == 1 && !legacy) {
                s = unit < 4 ? regs.stepi0 : regs.stepj0;
                if (regs.m[unit]) {
                    s = SignExtend<9>(s);
                }
            }
            break;
        }
        default:
            UNREACHABLE();
        }

        if (s == 0)
            return address;

        if (!dmod && !regs.br[unit] && regs.m[unit]) {
            u16 mod = unit < 4 ? regs.modi : regs.modj;

            if (mod == 0) {
                return address;
            }

            if (mod == 1 && step2_mode2) {
                return address;
            }

            unsigned iteration = 1;
            if (step2_mode1) {
                iteration = 2;
                s = SignExtend<15, u16>(s >> 1);
            }

            for (unsigned i = 0; i < iteration; ++i) {
                if (legacy || step2_mode2) {
                    bool negative = false;
                    u16 m = mod;
                    if (s >> 15) {
                        negative = true;
                        m |= ~s;
                    } else {
                        m |= s;
                    }

                    u16 mask = (1 << std20::log2p1(m)) - 1;
                    u16 next;
                    if (!negative) {
                        if ((address & mask) == mod && (!step2_mode2 || mod != mask)) {
                            next = 0;
                        } else {
                            next = (address + s) & mask;
                        }
                    } else {
                        if ((address & mask) == 0 && (!step2_mode2 || mod != mask)) {
                            next = mod;
                        } else {
                            next = (address + s) & mask;
                        }
                    }
                    address &= ~mask;
                    address |= next;
                } else {
                    u16 mask = (1 << std20::log2p1(mod)) - 1;
                    u16 next;
                    if (s < 0x8000) {
                        next = (address + s) & mask;
                        if (next == ((mod + 1) & mask)) {
                            next = 0;
                        }
                    } else {
                        next = address & mask;
                        if (next == 0) {
                            next = mod + 1;
                        }
                        next += s;
                        next &= mask;
                    }
                    address &= ~mask;
                    address |= next;
                }
            }
        } else {
            address += s;
        }
        return address;
    }

    u16 RnAndModify(unsigned unit, StepValue step, bool dmod = false) {
        u16 ret = regs.r[unit];
        if ((unit == 3 && regs.epi) || (unit == 7 && regs.epj)) {
            if (step != StepValue::Increase2Mode1 && step != StepValue::Decrease2Mode1 &&
                step != StepValue::Increase2Mode2 && step != StepValue::Decrease2Mode2) {
                regs.r[unit] = 0;
                return ret;
            }
        }
        regs.r[unit] = StepAddress(unit, regs.r[unit], step, dmod);
        return ret;
    }

    u32 ProductToBus32_NoShift(Px reg) const {
        return regs.p[reg.Index()];
    }

    u64 ProductToBus40(Px reg) const {
        u16 unit = reg.Index();
        u64 value = regs.p[unit] | ((u64)regs.pe[unit] << 32);
        switch (regs.ps[unit]) {
        case 0:
            value = SignExtend<33>(value);
            break;
        case 1:
            value >>= 1;
            value = SignExtend<32>(value);
            break;
        case 2:
            value <<= 1;
            value = SignExtend<34>(value);
            break;
        case 3:
            value <<= 2;
            value = SignExtend<35>(value);
            break;
        }
        return value;
    }

    void ProductFromBus32(Px reg, u32 value) {
        u16 unit = reg.Index();
        regs.p[unit] = value;
        regs.pe[unit] = value >> 31;
    }

    static RegName CounterAcc(RegName in) {
        static std::unordered_map<RegName, RegName> map{
            {RegName::a0, RegName::a1},   {RegName::a1, RegName::a0},
            {RegName::b0, RegName::b1},   {RegName::b1, RegName::b0},
            {RegName::a0l, RegName::a1l}, {RegName::a1l, RegName::a0l},
            {RegName::b0l, RegName::b1l}, {RegName::b1l, RegName::b0l},
            {RegName::a0h, RegName::a1h}, {RegName::a1h, RegName::a0h},
            {RegName::b0h, RegName::b1h}, {RegName::b1h, RegName::b0h},
            {RegName::a0e, RegName::a1e}, {RegName::a1e, RegName::a0e},
            {RegName::b0e, RegName::b1e}, {RegName::b1e, RegName::b0e},
        };
        return map.at(in);
    }

    const std::vector<Matcher<Interpreter>> decoders = GetDecoderTable<Interpreter>();
};

} // namespace Teakra
