#include "teakra/disassembler.h"
#include "teakra/disassembler_c.h"

extern "C" {
	bool Teakra_Disasm_NeedExpansion(uint16_t opcode) {
		return Teakra::Disassembler::NeedExpansion(opcode);
	}

	size_t Teakra_Disasm_Do(char* dst, size_t dstlen,
			uint16_t opcode, uint16_t expansion /*= 0*/) {
		std::string r = Teakra::Disassembler::Do(opcode, expansion);

		if (dst) {
			size_t i = 0;
			for (; i < (dstlen-1) && i < r.length(); ++i) {
				dst[i] = r[i];
			}
			dst[dstlen-1] = '\0';
		}

		return r.length();
	}
}
