#include <algorithm>
#include <array>
#include <cstdio>
#include <memory>
#include <random>
#include <unordered_set>
#include "common_types.h"
#include "decoder.h"
#include "operand.h"
#include "test.h"

namespace Teakra::Test {

enum class RegConfig { Any = 0, Memory = 1 };

enum class ExpandConfig {
    None = 0, // or Zero
    Any = 1,
    Memory = 2,
};

namespace Random {
namespace {
std::mt19937 gen(std::random_device{}());

u64 uniform(u64 a, u64 b) {
    std::uniform_int_distribution<u64> dist(a, b);
    return dist(gen);
}

u64 bit40() {
    static std::uniform_int_distribution<u64> dist(0, 0xFF'FFFF'FFFF);
    static std::uniform_int_distribution<int> dist2(0, 4);
    u64 v = dist(gen);
    switch (dist2(gen)) {
    case 0:
        v = SignExtend<40>(v);
        break;
    case 1:
        v &= 0xFFFF;
        break;
    case 2:
        v &= 0xFFFF'FFFF;
        break;
    case 3:
        v = SignExtend<32>(v);
        break;
    case 4:
        v = SignExtend<16>(v);
        break;
    }
    return v;
}

u32 bit32() {
    static std::uniform_int_distribution<u32> dist;
    return dist(gen);
}

u16 bit16() {
    static std::uniform_int_distribution<u16> dist;
    return dist(gen);
}
} // Anonymous namespace
} // namespace Random

namespace {
struct Config {
    bool enable = false;
    bool lock_page = false;
    bool lock_r7 = false;
    std::array<RegConfig, 8> r{};
    std::array<RegConfig, 4> ar{};
    std::array<RegConfig, 4> arp{};

    ExpandConfig expand = ExpandConfig::None;

    Config WithAnyExpand() {
        Config copy = *this;
        copy.expand = ExpandConfig::Any;
        return copy;
    }

    Config WithMemoryExpand() {
        Config copy = *this;
        copy.expand = ExpandConfig::Memory;
        return copy;
    }

    State GenerateRandomState() {
        State state;
        state.stepi0 = Random::bit16();
        state.stepj0 = Random::bit16();
        state.mixp = Random::bit16();
        state.sv = Random::bit16();
        if (Random::uniform(0, 1) == 1) {
            state.sv &= 128;
            state.sv = SignExtend<7>(state.sv);
        }
        state.repc = Random::bit16();
        state.lc = Random::bit16();
        state.cfgi = Random::bit16();
        state.cfgj = Random::bit16();
        state.stt0 = Random::bit16();
        state.stt1 = Random::bit16();
        state.stt2 = Random::bit16();
        state.mod0 = Random::bit16();
        state.mod1 = Random::bit16();
        state.mod2 = Random::bit16();
        if (lock_page) {
            state.mod1 &= 0xFF00;
            state.mod1 |= TestSpaceX >> 8;
        }
        std::generate(state.ar.begin(), state.ar.end(), Random::bit16);
        std::generate(state.arp.begin(), state.arp.end(), Random::bit16);
        std::generate(state.x.begin(), state.x.end(), Random::bit16);
        std::generate(state.y.begin(), state.y.end(), Random::bit16);
        std::generate(state.p.begin(), state.p.end(), Random::bit32);
        std::generate(state.a.begin(), state.a.end(), Random::bit40);
        std::generate(state.b.begin(), state.b.end(), Random::bit40);
        std::generate(state.r.begin(), state.r.end(), Random::bit16);
        std::generate(state.test_space_x.begin(), state.test_space_x.end(), Random::bit16);
        std::generate(state.test_space_y.begin(), state.test_space_y.end(), Random::bit16);

        auto rp = r;
        for (std::size_t i = 0; i < ar.size(); ++i) {
            if (ar[i] == RegConfig::Memory) {
                rp[(state.ar[i / 2] >> (13 - 3 * (i % 2))) & 7] = RegConfig::Memory;
            }
        }
        for (std::size_t i = 0; i < arp.size(); ++i) {
            if (arp[i] == RegConfig::Memory) {
                rp[(state.arp[i] >> 10) & 3] = RegConfig::Memory;
                rp[((state.arp[i] >> 13) & 3) + 4] = RegConfig::Memory;
            }
        }
        for (std::size_t i = 0; i < rp.size(); ++i) {
            if (rp[i] == RegConfig::Memory) {
                state.r[i] = (i < 4 ? TestSpaceX : TestSpaceY) +
                             (u16)Random::uniform(10, TestSpaceSize - 10);
                if (!((state.mod2 >> i) & 1) && (((state.mod2 >> (i + 8)) & 1))) {
                    state.r[i] = BitReverse(state.r[i]);
                }
            }
        }
        if (lock_r7) {
            state.r[7] = TestSpaceY + (u16)Random::uniform(10, TestSpaceSize - 10);
        }
        return state;
    }
};

Config DisabledConfig{false};
Config AnyConfig{true};

Config ConfigWithAddress(Rn r) {
    Config config{true};
    config.r[r.Index()] = RegConfig::Memory;
    return config;
}

template <typename ArRnX>
Config ConfigWithArAddress(ArRnX r) {
    static_assert(std::is_same_v<ArRnX, ArRn1> || std::is_same_v<ArRnX, ArRn2>);
    Config config{true};
    config.ar[r.Index()] = RegConfig::Memory;
    return config;
}

template <typename ArpRnX>
Config ConfigWithArpAddress(ArpRnX r) {
    static_assert(std::is_same_v<ArpRnX, ArpRn1> || std::is_same_v<ArpRnX, ArpRn2>);
    Config config{true};
    config.arp[r.Index()] = RegConfig::Memory;
    return config;
}

Config ConfigWithImm8(Imm8 imm) {
    std::unordered_set<u16> random_pos = {
        0,
        35,
        0xE3,
    };
    if (random_pos.count(imm.Unsigned16())) {
        return AnyConfig;
    } else {
        return DisabledConfig;
    }
}

Config ConfigWithMemImm8(MemImm8 mem) {
    std::unordered_set<u16> random_pos = {
        0,
        0x88,
        0xFF,
    };
    if (random_pos.count(mem.Unsigned16())) {
        Config c = AnyConfig;
        c.lock_page = true;
        return c;
    } else {
        return DisabledConfig;
    }
}

Config ConfigWithMemR7Imm16() {
    Config c = AnyConfig;
    c.lock_r7 = true;
    return c;
}

Config ConfigWithMemR7Imm7s(MemR7Imm7s mem) {
    std::unordered_set<u16> random_pos = {
        0,
        4,
        0xFFFE,
    };
    if (random_pos.count(mem.Signed16())) {
        Config c = AnyConfig;
        c.lock_r7 = true;
        return c;
    } else {
        return DisabledConfig;
    }
}

class TestGenerator {
public:
    bool IsUnimplementedRegister(RegName r) {
        return r == RegName::pc || r == RegName::undefine || r == RegName::st0 ||
               r == RegName::st1 || r == RegName::st2 || r == RegName::stt2 || r == RegName::ext0 ||
               r == RegName::ext1 || r == RegName::ext2 || r == RegName::ext3 ||
               r == RegName::mod3 || r == RegName::sp;
    }

    using instruction_return_type = Config;

    Config undefined(u16 opcode) {
        return DisabledConfig;
    }

    Config nop() {
        return DisabledConfig;
    }

    Config norm(Ax a, Rn b, StepZIDS bs) {
        return AnyConfig;
    }
    Config swap(SwapType swap) {
        if (swap.GetName() == SwapTypeValue::reserved0 ||
            swap.GetName() == SwapTypeValue::reserved1)
            return DisabledConfig;
        return AnyConfig;
    }
    Config trap() {
        return DisabledConfig;
    }

    Config alm(Alm op, MemImm8 a, Ax b) {
        if (op.GetName() == AlmOp::Sqr && b.GetName() != RegName::a0) {
            return DisabledConfig;
        }
        return ConfigWithMemImm8(a);
    }
    Config alm(Alm op, Rn a, StepZIDS as, Ax b) {
        if (op.GetName() == AlmOp::Sqr && b.GetName() != RegName::a0) {
            return DisabledConfig;
        }
        return ConfigWithAddress(a);
    }
    Config alm(Alm op, Register a, Ax b) {
        if (op.GetName() == AlmOp::Sqr && b.GetName() != RegName::a0) {
            return DisabledConfig;
        }

        if (IsUnimplementedRegister(a.GetName())) {
            return DisabledConfig;
        }

        switch (a.GetName()) {
        case RegName::p:
        case RegName::a0:
        case RegName::a1: {
            static const std::unordered_set<AlmOp> allowed_instruction{
                AlmOp::Or, AlmOp::And, AlmOp::Xor, AlmOp::Add, AlmOp::Cmp, AlmOp::Sub,
            };
            if (allowed_instruction.count(op.GetName()) != 0)
                return AnyConfig;
            else
                return DisabledConfig;
        }
        default:
            return AnyConfig;
        }
    }
    Config alm_r6(Alm op, Ax b) {
        // op = sqr, b = a1 is excluded by decoder
        return AnyConfig;
    }

    Config alu(Alu op, MemImm16 a, Ax b) {
        // reserved op excluded by decoder
        return AnyConfig.WithMemoryExpand();
    }
    Config alu(Alu op, MemR7Imm16 a, Ax b) {
        return ConfigWithMemR7Imm16();
    }
    Config alu(Alu op, Imm16 a, Ax b) {
        return AnyConfig.WithAnyExpand();
    }
    Config alu(Alu op, Imm8 a, Ax b) {
        return ConfigWithImm8(a);
    }
    Config alu(Alu op, MemR7Imm7s a, Ax b) {
        return ConfigWithMemR7Imm7s(a);
    }

    Config or_(Ab a, Ax b, Ax c) {
        return AnyConfig;
    }
    Config or_(Ax a, Bx b, Ax c) {
        return AnyConfig;
    }
    Config or_(Bx a, Bx b, Ax c) {
        return AnyConfig;
    }

    Config alb(Alb op, Imm16 a, MemImm8 b) {
        return ConfigWithMemImm8(b).WithAnyExpand();
    }
    Config alb(Alb op, Imm16 a, Rn b, StepZIDS bs) {
        return ConfigWithAddress(b).WithAnyExpand();
    }
    Config alb(Alb op, Imm16 a, Register b) {
        if (IsUnimplementedRegister(b.GetName())) {
            return DisabledConfig;
        }
        switch (b.GetName()) {
        case RegName::a0:
        case RegName::a1:
            return DisabledConfig;
        default:
            return AnyConfig.WithAnyExpand();
        }
    }
    Config alb_r6(Alb op, Imm16 a) {
        return AnyConfig.WithAnyExpand();
    }
    Config alb(Alb op, Imm16 a, SttMod b) {
        if (IsUnimplementedRegister(b.GetName())) {
            return DisabledConfig;
        }
        return AnyConfig.WithAnyExpand();
    }

    Config add(Ab a, Bx b) {
        return AnyConfig;
    }
    Config add(Bx a, Ax b) {
        return AnyConfig;
    }
    Config add_p1(Ax b) {
        return AnyConfig;
    }
    Config add(Px a, Bx b) {
        return AnyConfig;
    }

    Config sub(Ab a, Bx b) {
        return AnyConfig;
    }
    Config sub(Bx a, Ax b) {
        return AnyConfig;
    }
    Config sub_p1(Ax b) {
        return AnyConfig;
    }
    Config sub(Px a, Bx b) {
        return AnyConfig;
    }

    Config app(Ab c, SumBase base, bool sub_p0, bool p0_align, bool sub_p1, bool p1_align) {
        return AnyConfig;
    }

    Config add_add(ArpRn1 a, ArpStep1 asi, ArpStep1 asj, Ab b) {
        return ConfigWithArpAddress(a);
    }
    Config add_sub(ArpRn1 a, ArpStep1 asi, ArpStep1 asj, Ab b) {
        return ConfigWithArpAddress(a);
    }
    Config sub_add(ArpRn1 a, ArpStep1 asi, ArpStep1 asj, Ab b) {
        return ConfigWithArpAddress(a);
    }
    Config sub_sub(ArpRn1 a, ArpStep1 asi, ArpStep1 asj, Ab b) {
        return ConfigWithArpAddress(a);
    }

    Config add_sub_sv(ArRn1 a, ArStep1 as, Ab b) {
        return ConfigWithArAddress(a);
    }
    Config sub_add_sv(ArRn1 a, ArStep1 as, Ab b) {
        return ConfigWithArAddress(a);
    }

    Config sub_add_i_mov_j_sv(ArpRn1 a, ArpStep1 asi, ArpStep1 asj, Ab b) {
        return ConfigWithArpAddress(a);
    }
    Config sub_add_j_mov_i_sv(ArpRn1 a, ArpStep1 asi, ArpStep1 asj, Ab b) {
        return ConfigWithArpAddress(a);
    }
    Config add_sub_i_mov_j(ArpRn1 a, ArpStep1 asi, ArpStep1 asj, Ab b) {
        return ConfigWithArpAddress(a);
    }
    Config add_sub_j_mov_i(ArpRn1 a, ArpStep1 asi, ArpStep1 asj, Ab b) {
        return ConfigWithArpAddress(a);
    }

    Config moda4(Moda4 op, Ax a, Cond cond) {
        // reserved op excluded by decoder
        return AnyConfig;
    }

    Config moda3(Moda3 op, Bx a, Cond cond) {
        return AnyConfig;
    }

    Config pacr1(Ax a) {
        return AnyConfig;
    }
    Config clr(Ab a, Ab b) {
        return AnyConfig;
    }
    Config clrr(Ab a, Ab b) {
        return AnyConfig;
    }

    Config bkrep(Imm8 a, Address16 addr) {
        return DisabledConfig;
    }
    Config bkrep(Register a, Address18_16 addr_low, Address18_2 addr_high) {
        return DisabledConfig;
    }
    Config bkrep_r6(Address18_16 addr_low, Address18_2 addr_high) {
        return DisabledConfig;
    }
    Config bkreprst(ArRn2 a) {
        return DisabledConfig;
    }
    Config bkreprst_memsp() {
        return DisabledConfig;
    }
    Config bkrepsto(ArRn2 a) {
        return DisabledConfig;
    }
    Config bkrepsto_memsp() {
        return DisabledConfig;
    }

    Config banke(BankFlags flags) {
        return DisabledConfig;
    }
    Config bankr() {
        return DisabledConfig;
    }
    Config bankr(Ar a) {
        return DisabledConfig;
    }
    Config bankr(Ar a, Arp b) {
        return DisabledConfig;
    }
    Config bankr(Arp a) {
        return DisabledConfig;
    }

    Config bitrev(Rn a) {
        return AnyConfig;
    }
    Config bitrev_dbrv(Rn a) {
        return AnyConfig;
    }
    Config bitrev_ebrv(Rn a) {
        return AnyConfig;
    }

    Config br(Address18_16 addr_low, Address18_2 addr_high, Cond cond) {
        return DisabledConfig;
    }

    Config brr(RelAddr7 addr, Cond cond) {
        return DisabledConfig;
    }

    Config break_() {
        return DisabledConfig;
    }

    Config call(Address18_16 addr_low, Address18_2 addr_high, Cond cond) {
        return DisabledConfig;
    }
    Config calla(Axl a) {
        return DisabledConfig;
    }
    Config calla(Ax a) {
        return DisabledConfig;
    }
    Config callr(RelAddr7 addr, Cond cond) {
        return DisabledConfig;
    }

    Config cntx_s() {
        return DisabledConfig;
    }
    Config cntx_r() {
        return DisabledConfig;
    }

    Config ret(Cond c) {
        return DisabledConfig;
    }
    Config retd() {
        return DisabledConfig;
    }
    Config reti(Cond c) {
        return DisabledConfig;
    }
    Config retic(Cond c) {
        return DisabledConfig;
    }
    Config retid() {
        return DisabledConfig;
    }
    Config retidc() {
        return DisabledConfig;
    }
    Config rets(Imm8 a) {
        return DisabledConfig;
    }

    Config load_ps(Imm2 a) {
        return AnyConfig;
    }
    Config load_stepi(Imm7s a) {
        return AnyConfig;
    }
    Config load_stepj(Imm7s a) {
        return AnyConfig;
    }
    Config load_page(Imm8 a) {
        return AnyConfig;
    }
    Config load_modi(Imm9 a) {
        return AnyConfig;
    }
    Config load_modj(Imm9 a) {
        return AnyConfig;
    }
    Config load_movpd(Imm2 a) {
        return DisabledConfig;
    }
    Config load_ps01(Imm4 a) {
        return AnyConfig;
    }

    Config push(Imm16 a) {
        return DisabledConfig;
    }
    Config push(Register a) {
        return DisabledConfig;
    }
    Config push(Abe a) {
        return DisabledConfig;
    }
    Config push(ArArpSttMod a) {
        return DisabledConfig;
    }
    Config push_prpage() {
        return DisabledConfig;
    }
    Config push(Px a) {
        return DisabledConfig;
    }
    Config push_r6() {
        return DisabledConfig;
    }
    Config push_repc() {
        return DisabledConfig;
    }
    Config push_x0() {
        return DisabledConfig;
    }
    Config push_x1() {
        return DisabledConfig;
    }
    Config push_y1() {
        return DisabledConfig;
    }
    Config pusha(Ax a) {
        return DisabledConfig;
    }
    Config pusha(Bx a) {
        return DisabledConfig;
    }

    Config pop(Register a) {
        return DisabledConfig;
    }
    Config pop(Abe a) {
        return DisabledConfig;
    }
    Config pop(ArArpSttMod a) {
        return DisabledConfig;
    }
    Config pop(Bx a) {
        return DisabledConfig;
    }
    Config pop_prpage() {
        return DisabledConfig;
    }
    Config pop(Px a) {
        return DisabledConfig;
    }
    Config pop_r6() {
        return DisabledConfig;
    }
    Config pop_repc() {
        return DisabledConfig;
    }
    Config pop_x0() {
        return DisabledConfig;
    }
    Config pop_x1() {
        return DisabledConfig;
    }
    Config pop_y1() {
        return DisabledConfig;
    }
    Config popa(Ab a) {
        return DisabledConfig;
    }

    Config rep(Imm8 a) {
        return DisabledConfig;
    }
    Config rep(Register a) {
        return DisabledConfig;
    }
    Config rep_r6() {
        return DisabledConfig;
    }

    Config shfc(Ab a, Ab b, Cond cond) {
        return AnyConfig;
    }
    Config shfi(Ab a, Ab b, Imm6s s) {
        return AnyConfig;
    }

    Config tst4b(ArRn2 b, ArStep2 bs) {
        return ConfigWithArAddress(b);
    }
    Config tst4b(ArRn2 b, ArStep2 bs, Ax c) {
        return ConfigWithArAddress(b);
    }
    Config tstb(MemImm8 a, Imm4 b) {
        return ConfigWithMemImm8(a);
    }
    Config tstb(Rn a, StepZIDS as, Imm4 b) {
        return ConfigWithAddress(a);
    }
    Config tstb(Register a, Imm4 b) {
        if (IsUnimplementedRegister(a.GetName()))
            return DisabledConfig;
        return AnyConfig;
    }
    Config tstb_r6(Imm4 b) {
        return AnyConfig;
    }
    Config tstb(SttMod a, Imm16 b) {
        // TODO deal with the expansion
        return DisabledConfig;
    }

    Config and_(Ab a, Ab b, Ax c) {
        return AnyConfig;
    }

    Config dint() {
        return DisabledConfig;
    }
    Config eint() {
        return DisabledConfig;
    }

    Config mul(Mul3 op, Rn y, StepZIDS ys, Imm16 x, Ax a) {
        return ConfigWithAddress(y);
    }
    Config mul_y0(Mul3 op, Rn x, StepZIDS xs, Ax a) {
        return ConfigWithAddress(x);
    }
    Config mul_y0(Mul3 op, Register x, Ax a) {
        if (IsUnimplementedRegister(x.GetName()))
            return DisabledConfig;
        return AnyConfig;
    }
    Config mul(Mul3 op, R45 y, StepZIDS ys, R0123 x, StepZIDS xs, Ax a) {
        return DisabledConfig;
    }
    Config mul_y0_r6(Mul3 op, Ax a) {
        return AnyConfig;
    }
    Config mul_y0(Mul2 op, MemImm8 x, Ax a) {
        return ConfigWithMemImm8(x);
    }

    Config mpyi(Imm8s x) {
        return AnyConfig;
    }

    Config msu(R45 y, StepZIDS ys, R0123 x, StepZIDS xs, Ax a) {
        return DisabledConfig;
    }
    Config msu(Rn y, StepZIDS ys, Imm16 x, Ax a) {
        return ConfigWithAddress(y).WithAnyExpand();
    }
    Config msusu(ArRn2 x, ArStep2 xs, Ax a) {
        return ConfigWithArAddress(x);
    }
    Config mac_x1to0(Ax a) {
        return AnyConfig;
    }
    Config mac1(ArpRn1 xy, ArpStep1 xis, ArpStep1 yjs, Ax a) {
        return ConfigWithArpAddress(xy);
    }

    Config modr(Rn a, StepZIDS as) {
        return AnyConfig;
    }
    Config modr_dmod(Rn a, StepZIDS as) {
        return AnyConfig;
    }
    Config modr_i2(Rn a) {
        return AnyConfig;
    }
    Config modr_i2_dmod(Rn a) {
        return AnyConfig;
    }
    Config modr_d2(Rn a) {
        return AnyConfig;
    }
    Config modr_d2_dmod(Rn a) {
        return AnyConfig;
    }
    Config modr_eemod(ArpRn2 a, ArpStep2 asi, ArpStep2 asj) {
        return AnyConfig;
    }
    Config modr_edmod(ArpRn2 a, ArpStep2 asi, ArpStep2 asj) {
        return AnyConfig;
    }
    Config modr_demod(ArpRn2 a, ArpStep2 asi, ArpStep2 asj) {
        return AnyConfig;
    }
    Config modr_ddmod(ArpRn2 a, ArpStep2 asi, ArpStep2 asj) {
        return AnyConfig;
    }

    Config movd(R0123 a, StepZIDS as, R45 b, StepZIDS bs) {
        return DisabledConfig;
    }
    Config movp(Axl a, Register b) {
        return DisabledConfig;
    }
    Config movp(Ax a, Register b) {
        return DisabledConfig;
    }
    Config movp(Rn a, StepZIDS as, R0123 b, StepZIDS bs) {
        return DisabledConfig;
    }
    Config movpdw(Ax a) {
        return DisabledConfig;
    }

    Config mov(Ab a, Ab b) {
        return AnyConfig;
    }
    Config mov_dvm(Abl a) {
        return DisabledConfig;
    }
    Config mov_x0(Abl a) {
        return AnyConfig;
    }
    Config mov_x1(Abl a) {
        return AnyConfig;
    }
    Config mov_y1(Abl a) {
        return AnyConfig;
    }
    Config mov(Ablh a, MemImm8 b) {
        return ConfigWithMemImm8(b);
    }
    Config mov(Axl a, MemImm16 b) {
        return AnyConfig.WithMemoryExpand();
    }
    Config mov(Axl a, MemR7Imm16 b) {
        return ConfigWithMemR7Imm16();
    }
    Config mov(Axl a, MemR7Imm7s b) {
        return ConfigWithMemR7Imm7s(b);
    }
    Config mov(MemImm16 a, Ax b) {
        return AnyConfig.WithMemoryExpand();
    }
    Config mov(MemImm8 a, Ab b) {
        return ConfigWithMemImm8(a);
    }
    Config mov(MemImm8 a, Ablh b) {
        return ConfigWithMemImm8(a);
    }
    Config mov_eu(MemImm8 a, Axh b) {
        return DisabledConfig;
    }
    Config mov(MemImm8 a, RnOld b) {
        return ConfigWithMemImm8(a);
    }
    Config mov_sv(MemImm8 a) {
        return ConfigWithMemImm8(a);
    }
    Config mov_dvm_to(Ab b) {
        return DisabledConfig;
    }
    Config mov_icr_to(Ab b) {
        return DisabledConfig;
    }
    Config mov(Imm16 a, Bx b) {
        return AnyConfig.WithAnyExpand();
    }
    Config mov(Imm16 a, Register b) {
        if (IsUnimplementedRegister(b.GetName()))
            return DisabledConfig;
        return AnyConfig.WithAnyExpand();
    }
    Config mov_icr(Imm5 a) {
        return DisabledConfig;
    }
    Config mov(Imm8s a, Axh b) {
        return AnyConfig;
    }
    Config mov(Imm8s a, RnOld b) {
        return AnyConfig;
    }
    Config mov_sv(Imm8s a) {
        return AnyConfig;
    }
    Config mov(Imm8 a, Axl b) {
        return AnyConfig;
    }
    Config mov(MemR7Imm16 a, Ax b) {
        return ConfigWithMemR7Imm16();
    }
    Config mov(MemR7Imm7s a, Ax b) {
        return ConfigWithMemR7Imm7s(a);
    }
    Config mov(Rn a, StepZIDS as, Bx b) {
        return ConfigWithAddress(a);
    }
    Config mov(Rn a, StepZIDS as, Register b) {
        if (IsUnimplementedRegister(b.GetName()))
            return DisabledConfig;
        return ConfigWithAddress(a);
    }
    Config mov_memsp_to(Register b) {
        return DisabledConfig;
    }
    Config mov_mixp_to(Register b) {
        if (IsUnimplementedRegister(b.GetName()))
            return DisabledConfig;
        return AnyConfig;
    }
    Config mov(RnOld a, MemImm8 b) {
        return ConfigWithMemImm8(b);
    }
    Config mov_icr(Register a) {
        return DisabledConfig;
    }
    Config mov_mixp(Register a) {
        if (IsUnimplementedRegister(a.GetName()))
            return DisabledConfig;
        return AnyConfig;
    }
    Config mov(Register a, Rn b, StepZIDS bs) {
        if (IsUnimplementedRegister(a.GetName()))
            return DisabledConfig;
        return ConfigWithAddress(b);
    }
    Config mov(Register a, Bx b) {
        if (IsUnimplementedRegister(a.GetName()))
            return DisabledConfig;
        return AnyConfig;
    }
    Config mov(Register a, Register b) {
        if (IsUnimplementedRegister(a.GetName()))
            return DisabledConfig;
        if (IsUnimplementedRegister(b.GetName()))
            return DisabledConfig;
        return AnyConfig;
    }
    Config mov_repc_to(Ab b) {
        return AnyConfig;
    }
    Config mov_sv_to(MemImm8 b) {
        return ConfigWithMemImm8(b);
    }
    Config mov_x0_to(Ab b) {
        return AnyConfig;
    }
    Config mov_x1_to(Ab b) {
        return AnyConfig;
    }
    Config mov_y1_to(Ab b) {
        return AnyConfig;
    }
    Config mov(Imm16 a, ArArp b) {
        if (IsUnimplementedRegister(b.GetName())) {
            return DisabledConfig;
        }
        return AnyConfig.WithAnyExpand();
    }
    Config mov_r6(Imm16 a) {
        return AnyConfig.WithAnyExpand();
    }
    Config mov_repc(Imm16 a) {
        return AnyConfig.WithAnyExpand();
    }
    Config mov_stepi0(Imm16 a) {
        return AnyConfig.WithAnyExpand();
    }
    Config mov_stepj0(Imm16 a) {
        return AnyConfig.WithAnyExpand();
    }
    Config mov(Imm16 a, SttMod b) {
        if (IsUnimplementedRegister(b.GetName())) {
            return DisabledConfig;
        }
        return AnyConfig.WithAnyExpand();
    }
    Config mov_prpage(Imm4 a) {
        return DisabledConfig;
    }

    Config mov_a0h_stepi0() {
        return AnyConfig;
    }
    Config mov_a0h_stepj0() {
        return AnyConfig;
    }
    Config mov_stepi0_a0h() {
        return AnyConfig;
    }
    Config mov_stepj0_a0h() {
        return AnyConfig;
    }

    Config mov_prpage(Abl a) {
        return DisabledConfig;
    }
    Config mov_repc(Abl a) {
        return AnyConfig;
    }
    Config mov(Abl a, ArArp b) {
        if (IsUnimplementedRegister(b.GetName())) {
            return DisabledConfig;
        }
        return AnyConfig;
    }
    Config mov(Abl a, SttMod b) {
        if (IsUnimplementedRegister(b.GetName())) {
            return DisabledConfig;
        }
        return AnyConfig;
    }

    Config mov_prpage_to(Abl b) {
        return DisabledConfig;
    }
    Config mov_repc_to(Abl b) {
        return AnyConfig;
    }
    Config mov(ArArp a, Abl b) {
        if (IsUnimplementedRegister(a.GetName())) {
            return DisabledConfig;
        }
        return AnyConfig;
    }
    Config mov(SttMod a, Abl b) {
        if (IsUnimplementedRegister(a.GetName())) {
            return DisabledConfig;
        }
        return AnyConfig;
    }

    Config mov_repc_to(ArRn1 b, ArStep1 bs) {
        return ConfigWithArAddress(b);
    }
    Config mov(ArArp a, ArRn1 b, ArStep1 bs) {
        if (IsUnimplementedRegister(a.GetName())) {
            return DisabledConfig;
        }
        return ConfigWithArAddress(b);
    }
    Config mov(SttMod a, ArRn1 b, ArStep1 bs) {
        if (IsUnimplementedRegister(a.GetName())) {
            return DisabledConfig;
        }
        return ConfigWithArAddress(b);
    }

    Config mov_repc(ArRn1 a, ArStep1 as) {
        return ConfigWithArAddress(a);
    }
    Config mov(ArRn1 a, ArStep1 as, ArArp b) {
        if (IsUnimplementedRegister(b.GetName())) {
            return DisabledConfig;
        }
        return ConfigWithArAddress(a);
    }
    Config mov(ArRn1 a, ArStep1 as, SttMod b) {
        if (IsUnimplementedRegister(b.GetName())) {
            return DisabledConfig;
        }
        return ConfigWithArAddress(a);
    }

    Config mov_repc_to(MemR7Imm16 b) {
        return ConfigWithMemR7Imm16();
    }
    Config mov(ArArpSttMod a, MemR7Imm16 b) {
        if (IsUnimplementedRegister(a.GetName())) {
            return DisabledConfig;
        }
        return ConfigWithMemR7Imm16();
    }

    Config mov_repc(MemR7Imm16 a) {
        return ConfigWithMemR7Imm16();
    }
    Config mov(MemR7Imm16 a, ArArpSttMod b) {
        if (IsUnimplementedRegister(b.GetName())) {
            return DisabledConfig;
        }
        return ConfigWithMemR7Imm16();
    }

    Config mov_pc(Ax a) {
        return DisabledConfig;
    }
    Config mov_pc(Bx a) {
        return DisabledConfig;
    }

    Config mov_mixp_to(Bx b) {
        return AnyConfig;
    }
    Config mov_mixp_r6() {
        return AnyConfig;
    }
    Config mov_p0h_to(Bx b) {
        return AnyConfig;
    }
    Config mov_p0h_r6() {
        return AnyConfig;
    }
    Config mov_p0h_to(Register b) {
        if (IsUnimplementedRegister(b.GetName()))
            return DisabledConfig;
        return AnyConfig;
    }
    Config mov_p0(Ab a) {
        return AnyConfig;
    }
    Config mov_p1_to(Ab b) {
        return AnyConfig;
    }

    Config mov2(Px a, ArRn2 b, ArStep2 bs) {
        return ConfigWithArAddress(b);
    }
    Config mov2s(Px a, ArRn2 b, ArStep2 bs) {
        return ConfigWithArAddress(b);
    }
    Config mov2(ArRn2 a, ArStep2 as, Px b) {
        return ConfigWithArAddress(a);
    }
    Config mova(Ab a, ArRn2 b, ArStep2 bs) {
        return ConfigWithArAddress(b);
    }
    Config mova(ArRn2 a, ArStep2 as, Ab b) {
        return ConfigWithArAddress(a);
    }

    Config mov_r6_to(Bx b) {
        return AnyConfig;
    }
    Config mov_r6_mixp() {
        return AnyConfig;
    }
    Config mov_r6_to(Register b) {
        if (IsUnimplementedRegister(b.GetName()))
            return DisabledConfig;
        return AnyConfig;
    }
    Config mov_r6(Register a) {
        if (IsUnimplementedRegister(a.GetName()))
            return DisabledConfig;
        return AnyConfig;
    }
    Config mov_memsp_r6() {
        return DisabledConfig;
    }
    Config mov_r6_to(Rn b, StepZIDS bs) {
        return ConfigWithAddress(b);
    }
    Config mov_r6(Rn a, StepZIDS as) {
        return ConfigWithAddress(a);
    }

    Config movs(MemImm8 a, Ab b) {
        return ConfigWithMemImm8(a);
    }
    Config movs(Rn a, StepZIDS as, Ab b) {
        return ConfigWithAddress(a);
    }
    Config movs(Register a, Ab b) {
        if (IsUnimplementedRegister(a.GetName()))
            return DisabledConfig;
        return AnyConfig;
    }
    Config movs_r6_to(Ax b) {
        return AnyConfig;
    }
    Config movsi(RnOld a, Ab b, Imm5s s) {
        return AnyConfig;
    }

    Config mov2_axh_m_y0_m(Axh a, ArRn2 b, ArStep2 bs) {
        return ConfigWithArAddress(b);
    }
    Config mov2_ax_mij(Ab a, ArpRn1 b, ArpStep1 bsi, ArpStep1 bsj) {
        return ConfigWithArpAddress(b);
    }
    Config mov2_ax_mji(Ab a, ArpRn1 b, ArpStep1 bsi, ArpStep1 bsj) {
        return ConfigWithArpAddress(b);
    }
    Config mov2_mij_ax(ArpRn1 a, ArpStep1 asi, ArpStep1 asj, Ab b) {
        return ConfigWithArpAddress(a);
    }
    Config mov2_mji_ax(ArpRn1 a, ArpStep1 asi, ArpStep1 asj, Ab b) {
        return ConfigWithArpAddress(a);
    }
    Config mov2_abh_m(Abh ax, Abh ay, ArRn1 b, ArStep1 bs) {
        return ConfigWithArAddress(b);
    }
    Config exchange_iaj(Axh a, ArpRn2 b, ArpStep2 bsi, ArpStep2 bsj) {
        return ConfigWithArpAddress(b);
    }
    Config exchange_riaj(Axh a, ArpRn2 b, ArpStep2 bsi, ArpStep2 bsj) {
        return ConfigWithArpAddress(b);
    }
    Config exchange_jai(Axh a, ArpRn2 b, ArpStep2 bsi, ArpStep2 bsj) {
        return ConfigWithArpAddress(b);
    }
    Config exchange_rjai(Axh a, ArpRn2 b, ArpStep2 bsi, ArpStep2 bsj) {
        return ConfigWithArpAddress(b);
    }

    Config movr(ArRn2 a, ArStep2 as, Abh b) {
        return ConfigWithArAddress(a);
    }
    Config movr(Rn a, StepZIDS as, Ax b) {
        return ConfigWithAddress(a);
    }
    Config movr(Register a, Ax b) {
        if (IsUnimplementedRegister(a.GetName()))
            return DisabledConfig;
        return AnyConfig;
    }
    Config movr(Bx a, Ax b) {
        return AnyConfig;
    }
    Config movr_r6_to(Ax b) {
        return AnyConfig;
    }

    Config exp(Bx a) {
        return AnyConfig;
    }
    Config exp(Bx a, Ax b) {
        return AnyConfig;
    }
    Config exp(Rn a, StepZIDS as) {
        return ConfigWithAddress(a);
    }
    Config exp(Rn a, StepZIDS as, Ax b) {
        return ConfigWithAddress(a);
    }
    Config exp(Register a) {
        if (IsUnimplementedRegister(a.GetName()))
            return DisabledConfig;
        return AnyConfig;
    }
    Config exp(Register a, Ax b) {
        if (IsUnimplementedRegister(a.GetName()))
            return DisabledConfig;
        return AnyConfig;
    }
    Config exp_r6() {
        return AnyConfig;
    }
    Config exp_r6(Ax b) {
        return AnyConfig;
    }

    Config lim(Ax a, Ax b) {
        return AnyConfig;
    }

    Config vtrclr0() {
        return DisabledConfig;
    }
    Config vtrclr1() {
        return DisabledConfig;
    }
    Config vtrclr() {
        return DisabledConfig;
    }
    Config vtrmov0(Axl a) {
        return DisabledConfig;
    }
    Config vtrmov1(Axl a) {
        return DisabledConfig;
    }
    Config vtrmov(Axl a) {
        return DisabledConfig;
    }
    Config vtrshr() {
        return DisabledConfig;
    }

    Config clrp0() {
        return AnyConfig;
    }
    Config clrp1() {
        return AnyConfig;
    }
    Config clrp() {
        return AnyConfig;
    }

    Config max_ge(Ax a, StepZIDS bs) {
        return AnyConfig;
    }
    Config max_gt(Ax a, StepZIDS bs) {
        return AnyConfig;
    }
    Config min_le(Ax a, StepZIDS bs) {
        return AnyConfig;
    }
    Config min_lt(Ax a, StepZIDS bs) {
        return AnyConfig;
    }

    Config max_ge_r0(Ax a, StepZIDS bs) {
        return ConfigWithAddress(Rn{0});
    }
    Config max_gt_r0(Ax a, StepZIDS bs) {
        return ConfigWithAddress(Rn{0});
    }
    Config min_le_r0(Ax a, StepZIDS bs) {
        return ConfigWithAddress(Rn{0});
    }
    Config min_lt_r0(Ax a, StepZIDS bs) {
        return ConfigWithAddress(Rn{0});
    }
    Config divs(MemImm8 a, Ax b) {
        return ConfigWithMemImm8(a);
    }

    Config sqr_sqr_add3(Ab a, Ab b) {
        return AnyConfig;
    }
    Config sqr_sqr_add3(ArRn2 a, ArStep2 as, Ab b) {
        return ConfigWithArAddress(a);
    }
    Config sqr_mpysu_add3a(Ab a, Ab b) {
        return AnyConfig;
    }

    Config cmp(Ax a, Bx b) {
        return AnyConfig;
    }
    Config cmp_b0_b1() {
        return AnyConfig;
    }
    Config cmp_b1_b0() {
        return AnyConfig;
    }
    Config cmp(Bx a, Ax b) {
        return AnyConfig;
    }
    Config cmp_p1_to(Ax b) {
        return AnyConfig;
    }

    Config max2_vtr(Ax a) {
        return AnyConfig;
    }
    Config min2_vtr(Ax a) {
        return AnyConfig;
    }
    Config max2_vtr(Ax a, Bx b) {
        return AnyConfig;
    }
    Config min2_vtr(Ax a, Bx b) {
        return AnyConfig;
    }
    Config max2_vtr_movl(Ax a, Bx b, ArRn1 c, ArStep1 cs) {
        return ConfigWithArAddress(c);
    }
    Config max2_vtr_movh(Ax a, Bx b, ArRn1 c, ArStep1 cs) {
        return ConfigWithArAddress(c);
    }
    Config max2_vtr_movl(Bx a, Ax b, ArRn1 c, ArStep1 cs) {
        return ConfigWithArAddress(c);
    }
    Config max2_vtr_movh(Bx a, Ax b, ArRn1 c, ArStep1 cs) {
        return ConfigWithArAddress(c);
    }
    Config min2_vtr_movl(Ax a, Bx b, ArRn1 c, ArStep1 cs) {
        return ConfigWithArAddress(c);
    }
    Config min2_vtr_movh(Ax a, Bx b, ArRn1 c, ArStep1 cs) {
        return ConfigWithArAddress(c);
    }
    Config min2_vtr_movl(Bx a, Ax b, ArRn1 c, ArStep1 cs) {
        return ConfigWithArAddress(c);
    }
    Config min2_vtr_movh(Bx a, Ax b, ArRn1 c, ArStep1 cs) {
        return ConfigWithArAddress(c);
    }
    Config max2_vtr_movij(Ax a, Bx b, ArpRn1 c, ArpStep1 csi, ArpStep1 csj) {
        return ConfigWithArpAddress(c);
    }
    Config max2_vtr_movji(Ax a, Bx b, ArpRn1 c, ArpStep1 csi, ArpStep1 csj) {
        return ConfigWithArpAddress(c);
    }
    Config min2_vtr_movij(Ax a, Bx b, ArpRn1 c, ArpStep1 csi, ArpStep1 csj) {
        return ConfigWithArpAddress(c);
    }
    Config min2_vtr_movji(Ax a, Bx b, ArpRn1 c, ArpStep1 csi, ArpStep1 csj) {
        return ConfigWithArpAddress(c);
    }

    template <typename ArpStepX>
    Config mov_sv_app(ArRn1 a, ArpStepX as, Bx b, SumBase base, bool sub_p0, bool p0_align,
                      bool sub_p1, bool p1_align) {
        return ConfigWithArAddress(a);
    }

    Config cbs(Axh a, CbsCond c) {
        // return AnyConfig;
        return DisabledConfig;
    }
    Config cbs(Axh a, Bxh b, CbsCond c) {
        // return AnyConfig;
        return DisabledConfig;
    }
    Config cbs(ArpRn1 a, ArpStep1 asi, ArpStep1 asj, CbsCond c) {
        // return ConfigWithArpAddress(a);
        return DisabledConfig;
    }

    Config mma(RegName a, bool x0_sign, bool y0_sign, bool x1_sign, bool y1_sign, SumBase base,
               bool sub_p0, bool p0_align, bool sub_p1, bool p1_align) {
        return AnyConfig;
    }

    template <typename ArpRnX, typename ArpStepX>
    Config mma(ArpRnX xy, ArpStepX i, ArpStepX j, bool dmodi, bool dmodj, RegName a, bool x0_sign,
               bool y0_sign, bool x1_sign, bool y1_sign, SumBase base, bool sub_p0, bool p0_align,
               bool sub_p1, bool p1_align) {
        return ConfigWithArpAddress(xy);
    }

    Config mma_mx_xy(ArRn1 y, ArStep1 ys, RegName a, bool x0_sign, bool y0_sign, bool x1_sign,
                     bool y1_sign, SumBase base, bool sub_p0, bool p0_align, bool sub_p1,
                     bool p1_align) {
        return ConfigWithArAddress(y);
    }

    Config mma_xy_mx(ArRn1 y, ArStep1 ys, RegName a, bool x0_sign, bool y0_sign, bool x1_sign,
                     bool y1_sign, SumBase base, bool sub_p0, bool p0_align, bool sub_p1,
                     bool p1_align) {
        return ConfigWithArAddress(y);
    }

    Config mma_my_my(ArRn1 x, ArStep1 xs, RegName a, bool x0_sign, bool y0_sign, bool x1_sign,
                     bool y1_sign, SumBase base, bool sub_p0, bool p0_align, bool sub_p1,
                     bool p1_align) {
        return ConfigWithArAddress(x);
    }

    Config mma_mov(Axh u, Bxh v, ArRn1 w, ArStep1 ws, RegName a, bool x0_sign, bool y0_sign,
                   bool x1_sign, bool y1_sign, SumBase base, bool sub_p0, bool p0_align,
                   bool sub_p1, bool p1_align) {
        return ConfigWithArAddress(w);
    }

    Config mma_mov(ArRn2 w, ArStep1 ws, RegName a, bool x0_sign, bool y0_sign, bool x1_sign,
                   bool y1_sign, SumBase base, bool sub_p0, bool p0_align, bool sub_p1,
                   bool p1_align) {
        return ConfigWithArAddress(w);
    }

    Config addhp(ArRn2 a, ArStep2 as, Px b, Ax c) {
        return ConfigWithArAddress(a);
    }

    Config mov_ext0(Imm8s a) {
        return DisabledConfig;
    }
    Config mov_ext1(Imm8s a) {
        return DisabledConfig;
    }
    Config mov_ext2(Imm8s a) {
        return DisabledConfig;
    }
    Config mov_ext3(Imm8s a) {
        return DisabledConfig;
    }
};
} // Anonymous namespace

bool GenerateTestCasesToFile(const char* path) {
    std::unique_ptr<std::FILE, fclose_deleter> f{std::fopen(path, "wb")};
    if (!f) {
        return false;
    }

    TestGenerator generator;
    for (u32 i = 0; i < 0x10000; ++i) {
        u16 opcode = (u16)i;
        auto decoded = Decode<TestGenerator>(opcode);
        Config config = decoded.call(generator, opcode, 0);
        if (!config.enable)
            continue;

        for (int j = 0; j < 4; ++j) {
            TestCase test_case{};
            test_case.before = config.GenerateRandomState();
            test_case.opcode = opcode;

            switch (config.expand) {
            case ExpandConfig::None:
                test_case.expand = 0;
                break;
            case ExpandConfig::Any:
                test_case.expand = Random::bit16();
                break;
            case ExpandConfig::Memory:
                test_case.expand = TestSpaceX + (u16)Random::uniform(10, TestSpaceSize - 10);
                break;
            }

            if (std::fwrite(&test_case, sizeof(test_case), 1, f.get()) == 0) {
                return false;
            }
        }
    }

    return true;
}

} // namespace Teakra::Test
