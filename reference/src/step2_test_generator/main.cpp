#include <cstdio>
#include <memory>
#include "../test.h"

int main(int argc, char** argv) {
    if (argc < 2) {
        std::fprintf(stderr, "A file path argument must be specified. Exiting...\n");
        return -1;
    }

    std::unique_ptr<std::FILE, fclose_deleter> f{std::fopen(argv[1], "wb")};
    if (!f) {
        std::fprintf(stderr, "Unable to open file %s. Exiting...\n", argv[1]);
        return -2;
    }

    TestCase test_case{};
    u16 r0base = 0x4839;
    test_case.opcode = 0xDFE9; // modr r0+arps0
    test_case.expand = 0;
    test_case.before.mod2 = 1; // enable mod for r0;

    for (u16 legacy = 0; legacy < 2; ++legacy) {
        test_case.before.mod1 = legacy << 13;
        for (u16 step = 4; step < 8; ++step) {
            test_case.before.arp[0] = step;
            for (u16 mod = 0; mod < 0x200; ++mod) {
                test_case.before.cfgi = mod << 7;
                for (u16 r = 0; r < 0x20; ++r) {
                    test_case.before.r[0] = r + r0base;
                    if (std::fwrite(&test_case, sizeof(test_case), 1, f.get()) == 0) {
                        std::fprintf(stderr, "Unable to completely write test case. Exiting...\n");
                        return -3;
                    }
                }
            }
        }
    }

    return 0;
}
