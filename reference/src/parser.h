#pragma once
#include <memory>
#include <string>
#include <vector>
#include "common_types.h"

namespace Teakra {

class Parser {
public:
    virtual ~Parser() = default;
    struct Opcode {
        enum {
            Invalid,
            Valid,
            ValidWithExpansion,
        } status = Invalid;
        u16 opcode = 0;
    };

    virtual Opcode Parse(const std::vector<std::string>& tokens) = 0;
};

std::unique_ptr<Parser> GenerateParser();

} // namespace Teakra
