/*********************************************************************
 * Filename:   sha256.h
 * Author:     Brad Conte (brad AT bradconte.com)
 * Copyright:
 * Disclaimer: This code is presented "as is" without any guarantees.
 * Details:    Defines the API for the corresponding SHA1 implementation.
 *********************************************************************/

#ifndef SHA256_H
#define SHA256_H

/*************************** HEADER FILES ***************************/
#include <stddef.h>

/****************************** MACROS ******************************/
#define SHA256_BLOCK_SIZE 32 // SHA256 outputs a 32 byte digest

/**************************** DATA TYPES ****************************/
typedef unsigned char BYTE; // 8-bit byte
typedef unsigned int WORD;  // 32-bit word, change to "long" for 16-bit machines

typedef struct {
    BYTE data[64];
    WORD datalen;
    unsigned long long bitlen;
    WORD state[8];
} SHA256_CTX;

/*********************** FUNCTION DECLARATIONS **********************/
void sha256_init(SHA256_CTX* ctx);
void sha256_update(SHA256_CTX* ctx, const BYTE data[], size_t len);
void sha256_final(SHA256_CTX* ctx, BYTE hash[]);

#endif // SHA256_H
