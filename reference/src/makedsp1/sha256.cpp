/*********************************************************************
* Filename:   sha256.c
* Author:     Brad Conte (brad AT bradconte.com)
* Copyright:
* Disclaimer: This code is presented "as is" without any guarantees.
* Details:    Implementation of the SHA-256 hashing algorithm.
              SHA-256 is one of the three algorithms in the SHA2
              specification. The others, SHA-384 and SHA-512, are not
              offered in this implementation.
              Algorithm specification can be found here:
               * http://csrc.nist.gov/publications/fips/fips180-2/fips180-2withchangenotice.pdf
              This implementation uses little endian byte order.
*********************************************************************/

/*************************** HEADER FILES ***************************/
#include <memory.h>
#include <stdlib.h>
#include "sha256.h"

/****************************** MACROS ******************************/
#define ROTLEFT(a, b) (((a) << (b)) | ((a) >> (32 - (b))))
#define ROTRIGHT(a, b) (((a) >> (b)) | ((a) << (32 - (b))))

#define CH(x, y, z) (((x) & (y)) ^ (~(x) & (z)))
#define MAJ(x, y, z) (((x) & (y)) ^ ((x) & (z)) ^ ((y) & (z)))
#define EP0(x) (ROTRIGHT(x, 2) ^ ROTRIGHT(x, 13) ^ ROTRIGHT(x, 22))
#define EP1(x) (ROTRIGHT(x, 6) ^ ROTRIGHT(x, 11) ^ ROTRIGHT(x, 25))
#define SIG0(x) (ROTRIGHT(x, 7) ^ ROTRIGHT(x, 18) ^ ((x) >> 3))
#define SIG1(x) (ROTRIGHT(x, 17) ^ ROTRIGHT(x, 19) ^ ((x) >> 10))

/**************************** VARIABLES *****************************/
static const WORD k[64] = {
    0x428a2f98, 0x71374491, 0xb5c0fbcf, 0xe9b5dba5, 0x3956c25b, 0x59f111f1, 0x923f82a4, 0xab1c5ed5,
    0xd807aa98, 0x12835b01, 0x243185be, 0x550c7dc3, 0x72be5d74, 0x80deb1fe, 0x9bdc06a7, 0xc19bf174,
    0xe49b69c1, 0xefbe4786, 0x0fc19dc6, 0x240ca1cc, 0x2de92c6f, 0x4a7484aa, 0x5cb0a9dc, 0x76f988da,
    0x983e5152, 0xa831c66d, 0xb00327c8, 0xbf597fc7, 0xc6e00bf3, 0xd5a79147, 0x06ca6351, 0x14292967,
    0x27b70a85, 0x2e1b2138, 0x4d2c6dfc, 0x53380d13, 0x650a7354, 0x766a0abb, 0x81c2c92e, 0x92722c85,
    0xa2bfe8a1, 0xa81a664b, 0xc24b8b70, 0xc76c51a3, 0xd192e819, 0xd6990624, 0xf40e3585, 0x106aa070,
    0x19a4c116, 0x1e376c08, 0x2748774c, 0x34b0bcb5, 0x391c0cb3, 0x4ed8aa4a, 0x5b9cca4f, 0x682e6ff3,
    0x748f82ee, 0x78a5636f, 0x84c87814, 0x8cc70208, 0x90befffa, 0xa4506ceb, 0xbef9a3f7, 0xc67178f2};

/*********************** FUNCTION DEFINITIONS ***********************/
void sha256_transform(SHA256_CTX* ctx, const BYTE data[]) {
    WORD a, b, c, d, e, f, g, h, i, j, t1, t2, m[64];

    for (i = 0, j = 0; i < 16; ++i, j += 4)
        m[i] = (data[j] << 24) | (data[j + 1] << 16) | (data[j + 2] << 8) | (data[j + 3]);
    for (; i < 64; ++i)
        m[i] = SIG1(m[i - 2]) + m[i - 7] + SIG0(m[i - 15]) + m[i - 16];

    a = ctx->state[0];
    b = ctx->state[1];
    c = ctx->state[2];
    d = ctx->state[3];
    e = ctx->state[4];
    f = ctx->state[5];
    g = ctx->state[6];
    h = ctx->state[7];

    for (i = 0; i < 64; ++i) {
        t1 = h + EP1(e) + CH(e, f, g) + k[i] + m[i];
        t2 = EP0(a) + MAJ(a, b, c);
        h = g;
        g = f;
        f = e;
        e = d + t1;
        d = c;
        c = b;
        b = a;
        a = t1 + t2;
    }

    ctx->state[0] += a;
    ctx->state[1] += b;
    ctx->state[2] += c;
    ctx->state[3] += d;
    ctx->state[4] += e;
    ctx->state[5] += f;
    ctx->state[6] += g;
    ctx->state[7] += h;
}

void sha256_init(SHA256_CTX* ctx) {
    ctx->datalen = 0;
    ctx->bitlen = 0;
    ctx->state[0] = 0x6a09e667;
    ctx->state[1] = 0xbb67ae85;
    ctx->state[2] = 0x3c6ef372;
    ctx->state[3] = 0xa54ff53a;
    ctx->state[4] = 0x510e527f;
    ctx->state[5] = 0x9b05688c;
    ctx->state[6] = 0x1f83d9ab;
    ctx->state[7] = 0x5be0cd19;
}

void sha256_update(SHA256_CTX* ctx, const BYTE data[], size_t len) {
    WORD i;

    for (i = 0; i < len; ++i) {
        ctx->data[ctx->datalen] = data[i];
        ctx->datalen++;
        if (ctx->datalen == 64) {
            sha256_transform(ctx, ctx->data);
            ctx->bitlen += 512;
            ctx->datalen = 0;
        }
    }
}

void sha256_final(SHA256_CTX* ctx, BYTE hash[]) {
    WORD i;

    i = ctx->datalen;

    // Pad whatever data is left in the buffer.
    if (ctx->datalen < 56) {
        ctx->data[i++] = 0x80;
        while (i < 56)
            ctx->data[i++] = 0x00;
    } else {
        ctx->data[i++] = 0x80;
        while (i < 64)
            ctx->data[i++] = 0x00;
        sha256_transform(ctx, ctx->data);
        memset(ctx->data, 0, 56);
    }

    // Append to the padding the total message's length in bits and transform.
    ctx->bitlen += ctx->datalen * 8;
    ctx->data[63] = (BYTE)ctx->bitlen;
    ctx->data[62] = (BYTE)(ctx->bitlen >> 8);
    ctx->data[61] = (BYTE)(ctx->bitlen >> 16);
    ctx->data[60] = (BYTE)(ctx->bitlen >> 24);
    ctx->data[59] = (BYTE)(ctx->bitlen >> 32);
    ctx->data[58] = (BYTE)(ctx->bitlen >> 40);
    ctx->data[57] = (BYTE)(ctx->bitlen >> 48);
    ctx->data[56] = (BYTE)(ctx->bitlen >> 56);
    sha256_transform(ctx, ctx->data);

    // Since this implementation uses little endian byte ordering and SHA uses big endian,
    // reverse all the bytes when copying the final state to the output hash.
    for (i = 0; i < 4; ++i) {
        hash[i] = (ctx->state[0] >> (24 - i * 8)) & 0x000000ff;
        hash[i + 4] = (ctx->state[1] >> (24 - i * 8)) & 0x000000ff;
        hash[i + 8] = (ctx->state[2] >> (24 - i * 8)) & 0x000000ff;
        hash[i + 12] = (ctx->state[3] >> (24 - i * 8)) & 0x000000ff;
        hash[i + 16] = (ctx->state[4] >> (24 - i * 8)) & 0x000000ff;
        hash[i + 20] = (ctx->state[5] >> (24 - i * 8)) & 0x000000ff;
        hash[i + 24] = (ctx->state[6] >> (24 - i * 8)) & 0x000000ff;
        hash[i + 28] = (ctx->state[7] >> (24 - i * 8)) & 0x000000ff;
    }
}
