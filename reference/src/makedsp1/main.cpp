#include <cstdio>
#include <fstream>
#include <iostream>
#include <string>
#include "../common_types.h"
#include "../parser.h"
#include "sha256.h"

template <typename T>
std::vector<u8> Sha256(const std::vector<T>& data) {
    SHA256_CTX ctx;
    sha256_init(&ctx);
    sha256_update(&ctx, (const BYTE*)data.data(), data.size() * sizeof(T));
    std::vector<u8> result(0x20);
    sha256_final(&ctx, result.data());
    return result;
}

struct Segment {
    std::vector<u16> data;
    u8 memory_type;
    u32 target;
};

std::vector<std::string> StringToTokens(const std::string& in) {
    std::vector<std::string> out;
    bool need_new = true;
    for (char c : in) {
        if (c == ' ' || c == '\t') {
            need_new = true;
        } else {
            if (need_new) {
                need_new = false;
                out.push_back("");
            }
            out.back() += c;
        }
    }
    return out;
}

int main(int argc, char** argv) {
    auto parser = Teakra::GenerateParser();

    if (argc < 3) {
        printf("Not enough parameters\n");
        return -1;
    }

    std::ifstream in(argv[1]);
    if (!in.is_open()) {
        printf("Failed to open input file\n");
        return -1;
    }

    std::string line;
    std::vector<Segment> segments;
    int line_number = 0;
    while (std::getline(in, line)) {
        ++line_number;
        auto comment_pos = line.find("//");
        if (comment_pos != std::string::npos) {
            line.erase(comment_pos);
        }

        auto expansion_pos = line.find("$");
        bool has_expansion = expansion_pos != std::string::npos;
        u16 expansion_data;
        if (has_expansion) {
            if (line.size() - expansion_pos < 5) {
                printf("%d: unexpected line break in expansion data\n", line_number);
                return -1;
            }
            expansion_data = (u16)std::stoi(line.substr(expansion_pos + 1, 4), 0, 16);
            line = line.substr(0, expansion_pos) + "0000" + line.substr(expansion_pos + 5);
        }

        auto tokens = StringToTokens(line);
        if (tokens.size() == 0)
            continue;

        if (tokens[0] == "segment") {
            if (tokens.size() != 3) {
                printf("%d: Wrong parameter count for 'segment'\n", line_number);
                return -1;
            }
            Segment s;
            if (tokens[1] == "p") {
                s.memory_type = 0;
            } else if (tokens[1] == "d") {
                s.memory_type = 2;
            } else {
                printf("%d: Unknown segment type %s\n", line_number, tokens[1].c_str());
                return -1;
            }

            s.target = std::stoi(tokens[2], 0, 16);
            segments.push_back(s);
        } else {
            u16 v;
            if (tokens[0] == "data") {
                if (tokens.size() != 2) {
                    printf("%d: Wrong parameter count for 'data'\n", line_number);
                    return -1;
                }
                v = (u16)std::stoi(tokens[1], 0, 16);
                segments.back().data.push_back(v);
            } else {
                auto maybe_v = parser->Parse(tokens);
                if (maybe_v.status == Teakra::Parser::Opcode::Invalid) {
                    printf("%d: could not parse\n", line_number);
                    return -1;
                }
                v = maybe_v.opcode;
                segments.back().data.push_back(v);

                if (maybe_v.status == Teakra::Parser::Opcode::ValidWithExpansion) {
                    if (!has_expansion) {
                        printf("%d: needs expansion\n", line_number);
                        return -1;
                    }
                    segments.back().data.push_back(expansion_data);
                } else {
                    if (has_expansion) {
                        printf("%d: unexpected expansion\n", line_number);
                        return -1;
                    }
                }
            }
        }
    }
    in.close();

    FILE* out = fopen(argv[2], "wb");
    if (!out) {
        printf("Failed to open output file\n");
        return -1;
    }

    u32 data_ptr = 0x300;

    for (unsigned i = 0; i < segments.size(); ++i) {
        fseek(out, 0x120 + i * 0x30, SEEK_SET);
        fwrite(&data_ptr, 4, 1, out);
        fwrite(&segments[i].target, 4, 1, out);
        u32 size = (u32)segments[i].data.size() * 2;
        fwrite(&size, 4, 1, out);
        u32 memory_type = segments[i].memory_type << 24;
        fwrite(&memory_type, 4, 1, out);
        auto sha = Sha256(segments[i].data);
        fwrite(sha.data(), 0x20, 1, out);

        fseek(out, data_ptr, SEEK_SET);
        fwrite(segments[i].data.data(), size, 1, out);
        data_ptr += size;
    }

    fseek(out, 0x100, SEEK_SET);
    fwrite("DSP1", 4, 1, out);
    fwrite(&data_ptr, 4, 1, out);
    u32 memory_layout = 0x0000FFFF;
    fwrite(&memory_layout, 4, 1, out);
    u32 misc = (u32)segments.size() << 16;
    fwrite(&misc, 4, 1, out);
    u32 zero = 0;
    fwrite(&zero, 4, 1, out);
    fwrite(&zero, 4, 1, out);
    fwrite(&zero, 4, 1, out);
    fwrite(&zero, 4, 1, out);

    fclose(out);
}
