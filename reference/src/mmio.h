#pragma once
#include <array>
#include <memory>
#include "common_types.h"
#include "icu.h"

namespace Teakra {

class MemoryInterfaceUnit;
class Apbp;
class Timer;
class Dma;
class Ahbm;
class Btdmp;

class MMIORegion {
public:
    MMIORegion(MemoryInterfaceUnit& miu, ICU& icu, Apbp& apbp_from_cpu, Apbp& apbp_from_dsp,
               std::array<Timer, 2>& timer, Dma& dma, Ahbm& ahbm, std::array<Btdmp, 2>& btdmp);
    ~MMIORegion();
    u16 Read(u16 addr); // not const because it can be a FIFO register
    void Write(u16 addr, u16 value);

private:
    class Impl;
    std::unique_ptr<Impl> impl;
};

} // namespace Teakra
