#pragma once
#include <array>
#include <functional>
#include <memory>
#include "common_types.h"

namespace Teakra {
class Apbp {
public:
    Apbp();
    ~Apbp();

    void Reset();

    void SendData(unsigned channel, u16 data);
    u16 RecvData(unsigned channel);
    u16 PeekData(unsigned channel) const;
    bool IsDataReady(unsigned channel) const;
    u16 GetDisableInterrupt(unsigned channel) const;
    void SetDisableInterrupt(unsigned channel, u16 v);
    void SetDataHandler(unsigned channel, std::function<void()> handler);

    void SetSemaphore(u16 bits);
    void ClearSemaphore(u16 bits);
    u16 GetSemaphore() const;
    void MaskSemaphore(u16 bits);
    u16 GetSemaphoreMask() const;
    void SetSemaphoreHandler(std::function<void()> handler);

    bool IsSemaphoreSignaled() const;

private:
    class Impl;
    std::unique_ptr<Impl> impl;
};
} // namespace Teakra
