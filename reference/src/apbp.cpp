#include <array>
#include <atomic>
#include <mutex>
#include <utility>
#include "apbp.h"

namespace Teakra {
class DataChannel {
public:
    void Reset() {
        ready = false;
        data = 0;
    }

    void Send(u16 data) {
        {
            std::lock_guard lock(mutex);
            ready = true;
            this->data = data;
            if (disable_interrupt)
                return;
        }
        if (handler)
            handler();
    }
    u16 Recv() {
        std::lock_guard lock(mutex);
        ready = false;
        return data;
    }
    u16 Peek() const {
        std::lock_guard lock(mutex);
        return data;
    }
    bool IsReady() const {
        std::lock_guard lock(mutex);
        return ready;
    }
    u16 GetDisableInterrupt() const {
        std::lock_guard lock(mutex);
        return disable_interrupt;
    }
    void SetDisableInterrupt(u16 v) {
        disable_interrupt = v;
    }

    std::function<void()> handler;

private:
    bool ready = false;
    u16 data = 0;
    u16 disable_interrupt = 0;
    mutable std::mutex mutex;
};

class Apbp::Impl {
public:
    std::array<DataChannel, 3> data_channels;
    u16 semaphore = 0;
    u16 semaphore_mask = 0;
    bool semaphore_master_signal = false;
    mutable std::recursive_mutex semaphore_mutex;
    std::function<void()> semaphore_handler;

    void Reset() {
        for (auto& c : data_channels)
            c.Reset();
        semaphore = 0;
        semaphore_mask = 0;
        semaphore_master_signal = false;
    }
};

Apbp::Apbp() : impl(new Impl) {}
Apbp::~Apbp() = default;

void Apbp::Reset() {
    impl->Reset();
}

void Apbp::SendData(unsigned channel, u16 data) {
    impl->data_channels[channel].Send(data);
}

u16 Apbp::RecvData(unsigned channel) {
    return impl->data_channels[channel].Recv();
}

u16 Apbp::PeekData(unsigned channel) const {
    return impl->data_channels[channel].Peek();
}

bool Apbp::IsDataReady(unsigned channel) const {
    return impl->data_channels[channel].IsReady();
}

u16 Apbp::GetDisableInterrupt(unsigned channel) const {
    return impl->data_channels[channel].GetDisableInterrupt();
}

void Apbp::SetDisableInterrupt(unsigned channel, u16 v) {
    impl->data_channels[channel].SetDisableInterrupt(v);
}

void Apbp::SetDataHandler(unsigned channel, std::function<void()> handler) {
    impl->data_channels[channel].handler = std::move(handler);
}

void Apbp::SetSemaphore(u16 bits) {
    std::lock_guard lock(impl->semaphore_mutex);
    impl->semaphore |= bits;
    bool new_signal = (impl->semaphore & ~impl->semaphore_mask) != 0;
    if (new_signal && impl->semaphore_handler) {
        impl->semaphore_handler();
    }
    impl->semaphore_master_signal = impl->semaphore_master_signal || new_signal;
}

void Apbp::ClearSemaphore(u16 bits) {
    std::lock_guard lock(impl->semaphore_mutex);
    impl->semaphore &= ~bits;
    impl->semaphore_master_signal = (impl->semaphore & ~impl->semaphore_mask) != 0;
}

u16 Apbp::GetSemaphore() const {
    std::lock_guard lock(impl->semaphore_mutex);
    return impl->semaphore;
}

void Apbp::MaskSemaphore(u16 bits) {
    std::lock_guard lock(impl->semaphore_mutex);
    impl->semaphore_mask = bits;
}

u16 Apbp::GetSemaphoreMask() const {
    std::lock_guard lock(impl->semaphore_mutex);
    return impl->semaphore_mask;
}

void Apbp::SetSemaphoreHandler(std::function<void()> handler) {
    std::lock_guard lock(impl->semaphore_mutex);
    impl->semaphore_handler = std::move(handler);
}

bool Apbp::IsSemaphoreSignaled() const {
    std::lock_guard lock(impl->semaphore_mutex);
    return impl->semaphore_master_signal;
}
} // namespace Teakra
