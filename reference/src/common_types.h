#pragma once

#include <cstdint>

using u8 = std::uint8_t;
using u16 = std::uint16_t;
using u32 = std::uint32_t;
using u64 = std::uint64_t;

using s8 = std::int8_t;
using s16 = std::int16_t;
using s32 = std::int32_t;
using s64 = std::int64_t;

template <typename T>
constexpr unsigned BitSize() {
    return sizeof(T) * 8; // yeah I know I shouldn't use 8 here.
}

template <typename T>
constexpr T SignExtend(const T value, unsigned bit_count) {
    const T mask = static_cast<T>(1ULL << bit_count) - 1;
    const bool sign_bit = ((value >> (bit_count - 1)) & 1) != 0;
    if (sign_bit) {
        return value | ~mask;
    }
    return value & mask;
}

template <unsigned bit_count, typename T>
constexpr T SignExtend(const T value) {
    static_assert(bit_count <= BitSize<T>(), "bit_count larger than bitsize of T");
    return SignExtend(value, bit_count);
}

inline constexpr u16 BitReverse(u16 value) {
    u16 result = 0;
    for (u32 i = 0; i < 16; ++i) {
        result |= ((value >> i) & 1) << (15 - i);
    }
    return result;
}
