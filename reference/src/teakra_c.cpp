#include "teakra/teakra.h"
#include "teakra/teakra_c.h"

extern "C" {

struct TeakraObject {
    Teakra::UserConfig config;
    Teakra::Teakra teakra{config};
};

TeakraContext* Teakra_Create() {
    return new TeakraContext;
}

void Teakra_Destroy(TeakraContext* context) {
    delete context;
}

void Teakra_Reset(TeakraContext* context) {
    context->teakra.Reset();
}

uint8_t* Teakra_GetDspMemory(TeakraContext* context) {
    return context->teakra.GetDspMemory();
}

int Teakra_SendDataIsEmpty(const TeakraContext* context, uint8_t index) {
    return context->teakra.SendDataIsEmpty(index);
}

void Teakra_SendData(TeakraContext* context, uint8_t index, uint16_t value) {
    context->teakra.SendData(index, value);
}

int Teakra_RecvDataIsReady(const TeakraContext* context, uint8_t index) {
    return context->teakra.RecvDataIsReady(index);
}

uint16_t Teakra_RecvData(TeakraContext* context, uint8_t index) {
    return context->teakra.RecvData(index);
}
uint16_t Teakra_PeekRecvData(TeakraContext* context, uint8_t index) {
    return context->teakra.PeekRecvData(index);
}

void Teakra_SetRecvDataHandler(TeakraContext* context, uint8_t index,
                               Teakra_InterruptCallback handler, void* userdata) {
    context->teakra.SetRecvDataHandler(index, [=]() { handler(userdata); });
}

void Teakra_SetSemaphore(TeakraContext* context, uint16_t value) {
    context->teakra.SetSemaphore(value);
}
void Teakra_ClearSemaphore(TeakraContext* context, uint16_t value) {
    context->teakra.ClearSemaphore(value);
}
void Teakra_MaskSemaphore(TeakraContext* context, uint16_t value) {
    context->teakra.MaskSemaphore(value);
}

void Teakra_SetSemaphoreHandler(TeakraContext* context, Teakra_InterruptCallback handler,
                                void* userdata) {
    context->teakra.SetSemaphoreHandler([=]() { handler(userdata); });
}

uint16_t Teakra_GetSemaphore(const TeakraContext* context) {
    return context->teakra.GetSemaphore();
}

uint16_t Teakra_ProgramRead(TeakraContext* context, uint32_t address) {
    return context->teakra.ProgramRead(address);
}
void Teakra_ProgramWrite(TeakraContext* context, uint32_t address, uint16_t value) {
    context->teakra.ProgramWrite(address, value);
}
uint16_t Teakra_DataRead(TeakraContext* context, uint16_t address, bool bypass_mmio) {
    return context->teakra.DataRead(address, bypass_mmio);
}
void Teakra_DataWrite(TeakraContext* context, uint16_t address, uint16_t value, bool bypass_mmio) {
    context->teakra.DataWrite(address, value, bypass_mmio);
}
uint16_t Teakra_DataReadA32(TeakraContext* context, uint32_t address) {
    return context->teakra.DataReadA32(address);
}
void Teakra_DataWriteA32(TeakraContext* context, uint32_t address, uint16_t value) {
    context->teakra.DataWriteA32(address, value);
}
uint16_t Teakra_MMIORead(TeakraContext* context, uint16_t address) {
    return context->teakra.MMIORead(address);
}
void Teakra_MMIOWrite(TeakraContext* context, uint16_t address, uint16_t value) {
    context->teakra.MMIOWrite(address, value);
}

uint16_t Teakra_DMAChan0GetSrcHigh(TeakraContext* context) {
    return context->teakra.DMAChan0GetSrcHigh();
}
uint16_t Teakra_DMAChan0GetDstHigh(TeakraContext* context) {
    return context->teakra.DMAChan0GetDstHigh();
}

uint16_t Teakra_AHBMGetUnitSize(TeakraContext* context, uint16_t i) {
    return context->teakra.AHBMGetUnitSize(i);
}
uint16_t Teakra_AHBMGetDirection(TeakraContext* context, uint16_t i) {
    return context->teakra.AHBMGetDirection(i);
}
uint16_t Teakra_AHBMGetDmaChannel(TeakraContext* context, uint16_t i) {
    return context->teakra.AHBMGetDmaChannel(i);
}

uint16_t Teakra_AHBMRead16(TeakraContext* context, uint32_t addr) {
    return context->teakra.AHBMRead16(addr);
}
void Teakra_AHBMWrite16(TeakraContext* context, uint32_t addr, uint16_t value) {
    context->teakra.AHBMWrite16(addr, value);
}
uint16_t Teakra_AHBMRead32(TeakraContext* context, uint32_t addr) {
    return context->teakra.AHBMRead32(addr);
}
void Teakra_AHBMWrite32(TeakraContext* context, uint32_t addr, uint32_t value) {
    context->teakra.AHBMWrite32(addr, value);
}

void Teakra_Run(TeakraContext* context, unsigned cycle) {
    context->teakra.Run(cycle);
}

void Teakra_SetAHBMCallback(TeakraContext* context, Teakra_AHBMReadCallback8 read8,
                            Teakra_AHBMWriteCallback8 write8, Teakra_AHBMReadCallback16 read16,
                            Teakra_AHBMWriteCallback16 write16, Teakra_AHBMReadCallback32 read32,
                            Teakra_AHBMWriteCallback32 write32, void* userdata) {
    Teakra::AHBMCallback callback;
    callback.read8 = [=](uint32_t address) { return read8(userdata, address); };
    callback.write8 = [=](uint32_t address, uint8_t value) { write8(userdata, address, value); };
    callback.read16 = [=](uint32_t address) { return read16(userdata, address); };
    callback.write16 = [=](uint32_t address, uint16_t value) { write16(userdata, address, value); };
    callback.read32 = [=](uint32_t address) { return read32(userdata, address); };
    callback.write32 = [=](uint32_t address, uint32_t value) { write32(userdata, address, value); };
    context->teakra.SetAHBMCallback(callback);
}

void Teakra_SetAudioCallback(TeakraContext* context, Teakra_AudioCallback callback,
                             void* userdata) {
    context->teakra.SetAudioCallback(
        [=](std::array<std::int16_t, 2> samples) { callback(userdata, samples.data()); });
}
}
