#include <array>
#include <cstring>
#include "ahbm.h"
#include "apbp.h"
#include "btdmp.h"
#include "core_timing.h"
#include "dma.h"
#include "icu.h"
#include "memory_interface.h"
#include "mmio.h"
#include "processor.h"
#include "register.h"
#include "shared_memory.h"
#include "teakra/teakra.h"
#include "timer.h"

namespace Teakra {

struct Teakra::Impl {
    CoreTiming core_timing;
    SharedMemory shared_memory;
    MemoryInterfaceUnit miu;
    ICU icu;
    Apbp apbp_from_cpu, apbp_from_dsp;
    std::array<Timer, 2> timer{{{core_timing}, {core_timing}}};
    Ahbm ahbm;
    Dma dma{shared_memory, ahbm};
    std::array<Btdmp, 2> btdmp{{{core_timing}, {core_timing}}};
    MMIORegion mmio{miu, icu, apbp_from_cpu, apbp_from_dsp, timer, dma, ahbm, btdmp};
    MemoryInterface memory_interface{shared_memory, miu};
    Processor processor{core_timing, memory_interface};

    Impl(u8* dsp_memory) : shared_memory{dsp_memory} {
        memory_interface.SetMMIO(mmio);
        using namespace std::placeholders;
        icu.SetInterruptHandler(std::bind(&Processor::SignalInterrupt, &processor, _1),
                                std::bind(&Processor::SignalVectoredInterrupt, &processor, _1, _2));

        timer[0].SetInterruptHandler([this]() { icu.TriggerSingle(0xA); });
        timer[1].SetInterruptHandler([this]() { icu.TriggerSingle(0x9); });

        apbp_from_cpu.SetDataHandler(0, [this]() { icu.TriggerSingle(0xE); });
        apbp_from_cpu.SetDataHandler(1, [this]() { icu.TriggerSingle(0xE); });
        apbp_from_cpu.SetDataHandler(2, [this]() { icu.TriggerSingle(0xE); });
        apbp_from_cpu.SetSemaphoreHandler([this]() { icu.TriggerSingle(0xE); });

        btdmp[0].SetInterruptHandler([this]() { icu.TriggerSingle(0xB); });
        btdmp[1].SetInterruptHandler([this]() { icu.TriggerSingle(0xB); });

        dma.SetInterruptHandler([this]() { icu.TriggerSingle(0xF); });
    }

    void Reset() {
        std::memset(shared_memory.raw, 0, DspMemorySize);
        miu.Reset();
        apbp_from_cpu.Reset();
        apbp_from_dsp.Reset();
        timer[0].Reset();
        timer[1].Reset();
        ahbm.Reset();
        dma.Reset();
        btdmp[0].Reset();
        btdmp[1].Reset();
        processor.Reset();
    }
};

Teakra::Teakra(const UserConfig& config) : impl(std::make_unique<Impl>(config.dsp_memory)) {}
Teakra::~Teakra() = default;

void Teakra::Reset() {
    impl->Reset();
}

uint8_t* Teakra::GetDspMemory() {
    return impl->shared_memory.raw;
}

const uint8_t* Teakra::GetDspMemory() const {
    return impl->shared_memory.raw;
}

RegisterState& Teakra::GetRegisterState() {
    return impl->processor.GetRegisterState();
}

const RegisterState& Teakra::GetRegisterState() const {
    return impl->processor.GetRegisterState();
}

void Teakra::Run(unsigned cycle) {
    impl->processor.Run(cycle);
}

bool Teakra::SendDataIsEmpty(std::uint8_t index) const {
    return !impl->apbp_from_cpu.IsDataReady(index);
}
void Teakra::SendData(std::uint8_t index, std::uint16_t value) {
    impl->apbp_from_cpu.SendData(index, value);
}
bool Teakra::RecvDataIsReady(std::uint8_t index) const {
    return impl->apbp_from_dsp.IsDataReady(index);
}
std::uint16_t Teakra::RecvData(std::uint8_t index) {
    return impl->apbp_from_dsp.RecvData(index);
}
std::uint16_t Teakra::PeekRecvData(std::uint8_t index) {
    return impl->apbp_from_dsp.PeekData(index);
}
void Teakra::SetRecvDataHandler(std::uint8_t index, std::function<void()> handler) {
    impl->apbp_from_dsp.SetDataHandler(index, std::move(handler));
}

void Teakra::SetSemaphore(std::uint16_t value) {
    impl->apbp_from_cpu.SetSemaphore(value);
}
void Teakra::SetSemaphoreHandler(std::function<void()> handler) {
    impl->apbp_from_dsp.SetSemaphoreHandler(std::move(handler));
}
std::uint16_t Teakra::GetSemaphore() const {
    return impl->apbp_from_dsp.GetSemaphore();
}
void Teakra::ClearSemaphore(std::uint16_t value) {
    impl->apbp_from_dsp.ClearSemaphore(value);
}
void Teakra::MaskSemaphore(std::uint16_t value) {
    impl->apbp_from_dsp.MaskSemaphore(value);
}
void Teakra::SetAHBMCallback(const AHBMCallback& callback) {
    impl->ahbm.SetExternalMemoryCallback(callback.read8, callback.write8, callback.read16,
                                         callback.write16, callback.read32, callback.write32);
}

std::uint16_t Teakra::AHBMGetUnitSize(std::uint16_t i) const {
    return impl->ahbm.GetUnitSize(i);
}
std::uint16_t Teakra::AHBMGetDirection(std::uint16_t i) const {
    return impl->ahbm.GetDirection(i);
}
std::uint16_t Teakra::AHBMGetDmaChannel(std::uint16_t i) const {
    return impl->ahbm.GetDmaChannel(i);
}

std::uint16_t Teakra::AHBMRead16(std::uint32_t addr) {
    return impl->ahbm.Read16(0, addr);
}
void Teakra::AHBMWrite16(std::uint32_t addr, std::uint16_t value) {
    impl->ahbm.Write16(0, addr, value);
}
std::uint16_t Teakra::AHBMRead32(std::uint32_t addr) {
    return impl->ahbm.Read32(0, addr);
}
void Teakra::AHBMWrite32(std::uint32_t addr, std::uint32_t value) {
    impl->ahbm.Write32(0, addr, value);
}

void Teakra::SetAudioCallback(std::function<void(std::array<s16, 2>)> callback) {
    impl->btdmp[0].SetAudioCallback(std::move(callback));
}

std::uint16_t Teakra::ProgramRead(std::uint32_t address) const {
    return impl->memory_interface.ProgramRead(address);
}
void Teakra::ProgramWrite(std::uint32_t address, std::uint16_t value) {
    impl->memory_interface.ProgramWrite(address, value);
}
std::uint16_t Teakra::DataRead(std::uint16_t address, bool bypass_mmio) {
    return impl->memory_interface.DataRead(address, bypass_mmio);
}
void Teakra::DataWrite(std::uint16_t address, std::uint16_t value, bool bypass_mmio) {
    impl->memory_interface.DataWrite(address, value, bypass_mmio);
}
std::uint16_t Teakra::DataReadA32(std::uint32_t address) const {
    return impl->memory_interface.DataReadA32(address);
}
void Teakra::DataWriteA32(std::uint32_t address, std::uint16_t value) {
    impl->memory_interface.DataWriteA32(address, value);
}
std::uint16_t Teakra::MMIORead(std::uint16_t address) {
    return impl->memory_interface.MMIORead(address);
}
void Teakra::MMIOWrite(std::uint16_t address, std::uint16_t value) {
    impl->memory_interface.MMIOWrite(address, value);
}

std::uint16_t Teakra::DMAChan0GetSrcHigh() {
    u16 active_bak = impl->dma.GetActiveChannel();
    impl->dma.ActivateChannel(0);
    u16 ret = impl->dma.GetAddrSrcHigh();
    impl->dma.ActivateChannel(active_bak);
    return ret;
}
std::uint16_t Teakra::DMAChan0GetDstHigh() {
    u16 active_bak = impl->dma.GetActiveChannel();
    impl->dma.ActivateChannel(0);
    u16 ret = impl->dma.GetAddrDstHigh();
    impl->dma.ActivateChannel(active_bak);
    return ret;
}

} // namespace Teakra
