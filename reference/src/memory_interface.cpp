#include "memory_interface.h"
#include "mmio.h"
#include "shared_memory.h"

namespace Teakra {
MemoryInterface::MemoryInterface(SharedMemory& shared_memory,
                                 MemoryInterfaceUnit& memory_interface_unit)
    : shared_memory(shared_memory), memory_interface_unit(memory_interface_unit) {}

void MemoryInterface::SetMMIO(MMIORegion& mmio) {
    this->mmio = &mmio;
}

u16 MemoryInterface::ProgramRead(u32 address) const {
    return shared_memory.ReadWord(address);
}
void MemoryInterface::ProgramWrite(u32 address, u16 value) {
    shared_memory.WriteWord(address, value);
}
u16 MemoryInterface::DataRead(u16 address, bool bypass_mmio) {
    if (memory_interface_unit.InMMIO(address) && !bypass_mmio) {
        ASSERT(mmio != nullptr);
        return mmio->Read(memory_interface_unit.ToMMIO(address));
    }
    u32 converted = memory_interface_unit.ConvertDataAddress(address);
    u16 value = shared_memory.ReadWord(converted);
    return value;
}
void MemoryInterface::DataWrite(u16 address, u16 value, bool bypass_mmio) {
    if (memory_interface_unit.InMMIO(address) && !bypass_mmio) {
        ASSERT(mmio != nullptr);
        return mmio->Write(memory_interface_unit.ToMMIO(address), value);
    }
    u32 converted = memory_interface_unit.ConvertDataAddress(address);
    shared_memory.WriteWord(converted, value);
}
u16 MemoryInterface::DataReadA32(u32 address) const {
    u32 converted = (address & ((MemoryInterfaceUnit::DataMemoryBankSize*2)-1))
        + MemoryInterfaceUnit::DataMemoryOffset;
    return shared_memory.ReadWord(converted);
}
void MemoryInterface::DataWriteA32(u32 address, u16 value) {
    u32 converted = (address & ((MemoryInterfaceUnit::DataMemoryBankSize*2)-1))
        + MemoryInterfaceUnit::DataMemoryOffset;
    shared_memory.WriteWord(converted, value);
}
u16 MemoryInterface::MMIORead(u16 address) {
    ASSERT(mmio != nullptr);
    // according to GBATek ("DSi Teak I/O Ports (on ARM9 Side)"), these are mirrored
    return mmio->Read(address & (MemoryInterfaceUnit::MMIOSize - 1));
}
void MemoryInterface::MMIOWrite(u16 address, u16 value) {
    ASSERT(mmio != nullptr);
    mmio->Write(address & (MemoryInterfaceUnit::MMIOSize - 1), value);
}

} // namespace Teakra
