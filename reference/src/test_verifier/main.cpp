#include <cinttypes>
#include <cstdio>
#include <iomanip>
#include <memory>
#include <teakra/disassembler.h>
#include "../core_timing.h"
#include "../interpreter.h"
#include "../memory_interface.h"
#include "../shared_memory.h"
#include "../test.h"

std::string Flag16ToString(u16 value, const char* symbols) {
    std::string result = symbols;
    for (int i = 0; i < 16; ++i) {
        if ((value >> i & 1) == 0)
            result[15 - i] = '-';
    }
    return result;
}

int main(int argc, char** argv) {
    if (argc < 2) {
        std::fprintf(stderr, "A filename argument must be provided. Exiting...\n");
        return -1;
    }

    std::unique_ptr<std::FILE, fclose_deleter> file{std::fopen(argv[1], "rb")};
    if (!file) {
        std::fprintf(stderr, "Unable to open file %s. Exiting...\n", argv[1]);
        return -2;
    }

    Teakra::CoreTiming core_timing;
    Teakra::SharedMemory shared_memory;
    Teakra::MemoryInterfaceUnit miu;
    Teakra::MemoryInterface memory_interface{shared_memory, miu};
    Teakra::RegisterState regs;
    Teakra::Interpreter interpreter(core_timing, regs, memory_interface);

    int i = 0;
    int passed = 0;
    int total = 0;
    int skipped = 0;
    while (true) {
        TestCase test_case;
        if (std::fread(&test_case, sizeof(test_case), 1, file.get()) == 0) {
            break;
        }
        regs.Reset();
        regs.a = test_case.before.a;
        regs.b = test_case.before.b;
        regs.p = test_case.before.p;
        regs.r = test_case.before.r;
        regs.x = test_case.before.x;
        regs.y = test_case.before.y;
        regs.stepi0 = test_case.before.stepi0;
        regs.stepj0 = test_case.before.stepj0;
        regs.mixp = test_case.before.mixp;
        regs.sv = test_case.before.sv;
        regs.repc = test_case.before.repc;
        regs.Lc() = test_case.before.lc;
        regs.Set<Teakra::cfgi>(test_case.before.cfgi);
        regs.Set<Teakra::cfgj>(test_case.before.cfgj);
        regs.Set<Teakra::stt0>(test_case.before.stt0);
        regs.Set<Teakra::stt1>(test_case.before.stt1);
        regs.Set<Teakra::stt2>(test_case.before.stt2);
        regs.Set<Teakra::mod0>(test_case.before.mod0);
        regs.Set<Teakra::mod1>(test_case.before.mod1);
        regs.Set<Teakra::mod2>(test_case.before.mod2);
        regs.Set<Teakra::ar0>(test_case.before.ar[0]);
        regs.Set<Teakra::ar1>(test_case.before.ar[1]);
        regs.Set<Teakra::arp0>(test_case.before.arp[0]);
        regs.Set<Teakra::arp1>(test_case.before.arp[1]);
        regs.Set<Teakra::arp2>(test_case.before.arp[2]);
        regs.Set<Teakra::arp3>(test_case.before.arp[3]);

        for (u16 offset = 0; offset < TestSpaceSize; ++offset) {
            memory_interface.DataWrite(TestSpaceX + offset, test_case.before.test_space_x[offset]);
            memory_interface.DataWrite(TestSpaceY + offset, test_case.before.test_space_y[offset]);
        }

        memory_interface.ProgramWrite(0, test_case.opcode);
        memory_interface.ProgramWrite(1, test_case.expand);

        bool pass = true;
        bool skip = false;
        try {
            interpreter.Run(1);
            auto Check40 = [&](const char* name, u64 expected, u64 actual) {
                if (expected != actual) {
                    std::printf("Mismatch: %s: %010" PRIx64 " != %010" PRIx64 "\n", name,
                                expected & 0xFF'FFFF'FFFF, actual & 0xFF'FFFF'FFFF);
                    pass = false;
                }
            };

            auto Check32 = [&](const char* name, u32 expected, u32 actual) {
                if (expected != actual) {
                    std::printf("Mismatch: %s: %08X != %08X\n", name, expected, actual);
                    pass = false;
                }
            };

            auto Check = [&](const char* name, u16 expected, u16 actual) {
                if (expected != actual) {
                    std::printf("Mismatch: %s: %04X != %04X\n", name, expected, actual);
                    pass = false;
                }
            };

            auto CheckAddress = [&](const char* name, u16 address, u16 expected, u16 actual) {
                if (expected != actual) {
                    std::printf("Mismatch: %s%04X: %04X != %04X\n", name, address, expected,
                                actual);
                    pass = false;
                }
            };

            auto CheckFlag = [&](const char* name, u16 expected, u16 actual, const char* symbols) {
                if (expected != actual) {
                    std::printf("Mismatch: %s: %s != %s\n", name,
                                Flag16ToString(expected, symbols).c_str(),
                                Flag16ToString(actual, symbols).c_str());
                    pass = false;
                }
            };

            Check40("a0", SignExtend<40>(test_case.after.a[0]), regs.a[0]);
            Check40("a1", SignExtend<40>(test_case.after.a[1]), regs.a[1]);
            Check40("b0", SignExtend<40>(test_case.after.b[0]), regs.b[0]);
            Check40("b1", SignExtend<40>(test_case.after.b[1]), regs.b[1]);
            Check32("p0", test_case.after.p[0], regs.p[0]);
            Check32("p1", test_case.after.p[1], regs.p[1]);
            Check("r0", test_case.after.r[0], regs.r[0]);
            Check("r1", test_case.after.r[1], regs.r[1]);
            Check("r2", test_case.after.r[2], regs.r[2]);
            Check("r3", test_case.after.r[3], regs.r[3]);
            Check("r4", test_case.after.r[4], regs.r[4]);
            Check("r5", test_case.after.r[5], regs.r[5]);
            Check("r6", test_case.after.r[6], regs.r[6]);
            Check("r7", test_case.after.r[7], regs.r[7]);
            Check("x0", test_case.after.x[0], regs.x[0]);
            Check("x1", test_case.after.x[1], regs.x[1]);
            Check("y0", test_case.after.y[0], regs.y[0]);
            Check("y1", test_case.after.y[1], regs.y[1]);
            Check("stepi0", test_case.after.stepi0, regs.stepi0);
            Check("stepj0", test_case.after.stepj0, regs.stepj0);
            Check("mixp", test_case.after.mixp, regs.mixp);
            Check("sv", test_case.after.sv, regs.sv);
            Check("repc", test_case.after.repc, regs.repc);
            Check("lc", test_case.after.lc, regs.Lc());
            CheckFlag("cfgi", test_case.after.cfgi, regs.Get<Teakra::cfgi>(), "mmmmmmmmmsssssss");
            CheckFlag("cfgj", test_case.after.cfgj, regs.Get<Teakra::cfgj>(), "mmmmmmmmmsssssss");
            CheckFlag("stt0", test_case.after.stt0, regs.Get<Teakra::stt0>(), "####C###ZMNVCELL");
            CheckFlag("stt1", test_case.after.stt1, regs.Get<Teakra::stt1>(), "QP#########R####");
            CheckFlag("stt2", test_case.after.stt2, regs.Get<Teakra::stt2>(), "LBBB####mm##V21I");
            CheckFlag("mod0", test_case.after.mod0, regs.Get<Teakra::mod0>(), "#QQ#PPooSYY###SS");
            CheckFlag("mod1", test_case.after.mod1, regs.Get<Teakra::mod1>(), "???B####pppppppp");
            CheckFlag("mod2", test_case.after.mod2, regs.Get<Teakra::mod2>(), "7654321m7654321M");
            CheckFlag("ar0", test_case.after.ar[0], regs.Get<Teakra::ar0>(), "RRRRRRoosssoosss");
            CheckFlag("ar1", test_case.after.ar[1], regs.Get<Teakra::ar1>(), "RRRRRRoosssoosss");
            CheckFlag("arp0", test_case.after.arp[0], regs.Get<Teakra::arp0>(), "#RR#RRjjjjjiiiii");
            CheckFlag("arp1", test_case.after.arp[1], regs.Get<Teakra::arp1>(), "#RR#RRjjjjjiiiii");
            CheckFlag("arp2", test_case.after.arp[2], regs.Get<Teakra::arp2>(), "#RR#RRjjjjjiiiii");
            CheckFlag("arp3", test_case.after.arp[3], regs.Get<Teakra::arp3>(), "#RR#RRjjjjjiiiii");

            for (u16 offset = 0; offset < TestSpaceSize; ++offset) {
                CheckAddress("memory_", (TestSpaceX + offset), test_case.after.test_space_x[offset],
                             memory_interface.DataRead(TestSpaceX + offset));
                CheckAddress("memory_", (TestSpaceY + offset), test_case.after.test_space_y[offset],
                             memory_interface.DataRead(TestSpaceY + offset));
            }
            ++total;
        } catch (const Teakra::UnimplementedException&) {
            std::printf("Skipped one unimplemented case\n");
            pass = false;
            skip = true;
            ++skipped;
        }

        if (pass) {
            ++passed;
        } else {
            Teakra::Disassembler::ArArpSettings ar_arp;
            ar_arp.ar = test_case.before.ar;
            ar_arp.arp = test_case.before.arp;
            std::printf(
                "Test case %d: %04X %04X %s\n", i, test_case.opcode, test_case.expand,
                Teakra::Disassembler::Do(test_case.opcode, test_case.expand, ar_arp).c_str());
            if (!skip) {
                std::printf("before:\n");
                std::printf("a0 = %010" PRIx64 "; a1 = %010" PRIx64 "\n",
                            test_case.before.a[0] & 0xFF'FFFF'FFFF,
                            test_case.before.a[1] & 0xFF'FFFF'FFFF);
                std::printf("b0 = %010" PRIx64 "; b1 = %010" PRIx64 "\n",
                            test_case.before.b[0] & 0xFF'FFFF'FFFF,
                            test_case.before.b[1] & 0xFF'FFFF'FFFF);
                std::printf("p0 = %08X; p1 = %08X\n", test_case.before.p[0], test_case.before.p[1]);
                std::printf("x0 = %04X; x1 = %04X\n", test_case.before.x[0], test_case.before.x[1]);
                std::printf("y0 = %04X; y1 = %04X\n", test_case.before.y[0], test_case.before.y[1]);
                std::printf("r0 = %04X; r1 = %04X; r2 = %04X; r3 = %04X\n", test_case.before.r[0],
                            test_case.before.r[1], test_case.before.r[2], test_case.before.r[3]);
                std::printf("r4 = %04X; r5 = %04X; r6 = %04X; r7 = %04X\n", test_case.before.r[4],
                            test_case.before.r[5], test_case.before.r[6], test_case.before.r[7]);
                std::printf("stepi0 = %04X\n", test_case.before.stepi0);
                std::printf("stepj0 = %04X\n", test_case.before.stepj0);
                std::printf("mixp = %04X\n", test_case.before.mixp);
                std::printf("sv = %04X\n", test_case.before.sv);
                std::printf("repc = %04X\n", test_case.before.repc);
                std::printf("lc = %04X\n", test_case.before.lc);
                std::printf("cfgi = %s\n",
                            Flag16ToString(test_case.before.cfgi, "mmmmmmmmmsssssss").c_str());
                std::printf("cfgj = %s\n",
                            Flag16ToString(test_case.before.cfgj, "mmmmmmmmmsssssss").c_str());
                std::printf("stt0 = %s\n",
                            Flag16ToString(test_case.before.stt0, "####C###ZMNVCELL").c_str());
                std::printf("stt1 = %s\n",
                            Flag16ToString(test_case.before.stt1, "QP#########R####").c_str());
                std::printf("stt2 = %s\n",
                            Flag16ToString(test_case.before.stt2, "LBBB####mm##V21I").c_str());
                std::printf("mod0 = %s\n",
                            Flag16ToString(test_case.before.mod0, "#QQ#PPooSYY###SS").c_str());
                std::printf("mod1 = %s\n",
                            Flag16ToString(test_case.before.mod1, "jicB####pppppppp").c_str());
                std::printf("mod2 = %s\n",
                            Flag16ToString(test_case.before.mod2, "7654321m7654321M").c_str());
                std::printf("ar0 = %s\n",
                            Flag16ToString(test_case.before.ar[0], "RRRRRRoosssoosss").c_str());
                std::printf("ar1 = %s\n",
                            Flag16ToString(test_case.before.ar[1], "RRRRRRoosssoosss").c_str());
                std::printf("arp0 = %s\n",
                            Flag16ToString(test_case.before.arp[0], "#RR#RRiiiiijjjjj").c_str());
                std::printf("arp1 = %s\n",
                            Flag16ToString(test_case.before.arp[1], "#RR#RRiiiiijjjjj").c_str());
                std::printf("arp2 = %s\n",
                            Flag16ToString(test_case.before.arp[2], "#RR#RRiiiiijjjjj").c_str());
                std::printf("arp3 = %s\n",
                            Flag16ToString(test_case.before.arp[3], "#RR#RRiiiiijjjjj").c_str());
                std::printf("FAILED\n~~~~~~~~~~~~~~~~~~~~~~~~~~~~~~~~~~\n\n");
            }
        }

        ++i;
    }

    std::printf("%d / %d passed, %d skipped\n", passed, total, skipped);

    if (passed < total) {
        return 1;
    }

    return 0;
}
