#include <algorithm>
#include <functional>
#include <optional>
#include <unordered_map>
#include <variant>
#include "../include/teakra/disassembler.h"
#include "common_types.h"
#include "crash.h"
#include "parser.h"

using NodeAsConst = std::string;
struct NodeAsExpansion {};

bool operator==(NodeAsExpansion, NodeAsExpansion) {
    return true;
}

namespace std {
template <>
struct hash<NodeAsExpansion> {
    typedef NodeAsExpansion argument_type;
    typedef std::size_t result_type;
    result_type operator()(argument_type const& s) const {
        return 0x12345678;
    }
};
} // namespace std

namespace Teakra {
class ParserImpl : public Parser {
public:
    using NodeKey = std::variant<NodeAsConst, NodeAsExpansion>;

    struct Node {
        bool end = false;
        u16 opcode = 0;
        bool expansion = false;
        std::unordered_map<NodeKey, std::unique_ptr<Node>> children;
    };

    Node root;

    Opcode Parse(const std::vector<std::string>& tokens) override {
        Node* current = &root;
        for (auto& token : tokens) {
            auto const_find = current->children.find(token);
            if (const_find != current->children.end()) {
                current = const_find->second.get();
            } else {
                return Opcode{Opcode::Invalid};
            }
        }
        if (!current->end) {
            return Opcode{Opcode::Invalid};
        }
        return Opcode{current->expansion ? Opcode::ValidWithExpansion : Opcode::Valid,
                      current->opcode};
    }
};

std::unique_ptr<Parser> GenerateParser() {
    std::unique_ptr<ParserImpl> parser = std::make_unique<ParserImpl>();
    for (u32 opcode = 0; opcode < 0x10000; ++opcode) {
        u16 o = (u16)opcode;
        bool expansion = Disassembler::NeedExpansion(o);
        auto tokens = Disassembler::GetTokenList(o);

        if (std::any_of(tokens.begin(), tokens.end(), [](const auto& token) {
                return token.find("[ERROR]") != std::string::npos;
            }))
            continue;

        ParserImpl::Node* current = &parser->root;
        for (const auto& token : tokens) {
            auto& next = current->children[token];
            if (!next)
                next = std::make_unique<ParserImpl::Node>();
            current = next.get();
        }

        if (current->end) {
            ASSERT((current->opcode & (u16)(~o)) == 0);
            continue;
        }
        current->end = true;
        current->opcode = o;
        current->expansion = expansion;
    }
    return parser;
}

} // namespace Teakra
