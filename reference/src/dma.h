#pragma once
#include <array>
#include <functional>
#include <utility>
#include "common_types.h"

namespace Teakra {

struct SharedMemory;
class Ahbm;

class Dma {
public:
    Dma(SharedMemory& shared_memory, Ahbm& ahbm) : shared_memory(shared_memory), ahbm(ahbm) {}

    void Reset();

    void EnableChannel(u16 value) {
        enable_channel = value;
    }
    u16 GetChannelEnabled() const {
        return enable_channel;
    }

    void ActivateChannel(u16 value) {
        active_channel = value;
    }
    u16 GetActiveChannel() const {
        return active_channel;
    }

    void SetAddrSrcLow(u16 value) {
        channels[active_channel].addr_src_low = value;
    }
    u16 GetAddrSrcLow() const {
        return channels[active_channel].addr_src_low;
    }

    void SetAddrSrcHigh(u16 value) {
        channels[active_channel].addr_src_high = value;
    }
    u16 GetAddrSrcHigh() const {
        return channels[active_channel].addr_src_high;
    }

    void SetAddrDstLow(u16 value) {
        channels[active_channel].addr_dst_low = value;
    }
    u16 GetAddrDstLow() const {
        return channels[active_channel].addr_dst_low;
    }

    void SetAddrDstHigh(u16 value) {
        channels[active_channel].addr_dst_high = value;
    }
    u16 GetAddrDstHigh() const {
        return channels[active_channel].addr_dst_high;
    }

    void SetSize0(u16 value) {
        channels[active_channel].size0 = value;
    }
    u16 GetSize0() const {
        return channels[active_channel].size0;
    }

    void SetSize1(u16 value) {
        channels[active_channel].size1 = value;
    }
    u16 GetSize1() const {
        return channels[active_channel].size1;
    }

    void SetSize2(u16 value) {
        channels[active_channel].size2 = value;
    }
    u16 GetSize2() const {
        return channels[active_channel].size2;
    }

    void SetSrcStep0(u16 value) {
        channels[active_channel].src_step0 = value;
    }
    u16 GetSrcStep0() const {
        return channels[active_channel].src_step0;
    }

    void SetDstStep0(u16 value) {
        channels[active_channel].dst_step0 = value;
    }
    u16 GetDstStep0() const {
        return channels[active_channel].dst_step0;
    }

    void SetSrcStep1(u16 value) {
        channels[active_channel].src_step1 = value;
    }
    u16 GetSrcStep1() const {
        return channels[active_channel].src_step1;
    }

    void SetDstStep1(u16 value) {
        channels[active_channel].dst_step1 = value;
    }
    u16 GetDstStep1() const {
        return channels[active_channel].dst_step1;
    }

    void SetSrcStep2(u16 value) {
        channels[active_channel].src_step2 = value;
    }
    u16 GetSrcStep2() const {
        return channels[active_channel].src_step2;
    }

    void SetDstStep2(u16 value) {
        channels[active_channel].dst_step2 = value;
    }
    u16 GetDstStep2() const {
        return channels[active_channel].dst_step2;
    }

    void SetSrcSpace(u16 value) {
        channels[active_channel].src_space = value;
    }
    u16 GetSrcSpace() const {
        return channels[active_channel].src_space;
    }

    void SetDstSpace(u16 value) {
        channels[active_channel].dst_space = value;
    }
    u16 GetDstSpace() const {
        return channels[active_channel].dst_space;
    }

    void SetDwordMode(u16 value) {
        channels[active_channel].dword_mode = value;
    }
    u16 GetDwordMode() const {
        return channels[active_channel].dword_mode;
    }

    void SetY(u16 value) {
        channels[active_channel].y = value;
    }
    u16 GetY() const {
        return channels[active_channel].y;
    }

    void SetZ(u16 value) {
        channels[active_channel].z = value;

        if (value == 0x40C0) {
            DoDma(active_channel);
        }
    }
    u16 GetZ() const {
        return channels[active_channel].z;
    }

    void DoDma(u16 channel);

    void SetInterruptHandler(std::function<void()> handler) {
        interrupt_handler = std::move(handler);
    }

private:
    std::function<void()> interrupt_handler;

    u16 enable_channel = 0;
    u16 active_channel = 0;

    struct Channel {
        u16 addr_src_low = 0, addr_src_high = 0;
        u16 addr_dst_low = 0, addr_dst_high = 0;
        u16 size0 = 0, size1 = 0, size2 = 0;
        u16 src_step0 = 0, dst_step0 = 0;
        u16 src_step1 = 0, dst_step1 = 0;
        u16 src_step2 = 0, dst_step2 = 0;
        u16 src_space = 0, dst_space = 0;
        u16 dword_mode = 0;
        u16 y = 0;
        u16 z = 0;

        u32 current_src = 0, current_dst = 0;
        u16 counter0 = 0, counter1 = 0, counter2 = 0;
        u16 running = 0;
        u16 ahbm_channel = 0;

        void Start();
        void Tick(Dma& parent);
    };

    std::array<Channel, 8> channels;

    SharedMemory& shared_memory;
    Ahbm& ahbm;
};

} // namespace Teakra
