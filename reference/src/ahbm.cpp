#include <cstdio>
#include "ahbm.h"

namespace Teakra {

void Ahbm::Reset() {
    busy_flag = 0;
    channels = {};
}

unsigned Ahbm::Channel::GetBurstSize() {
    switch (burst_size) {
    case Ahbm::BurstSize::X1:
        return 1;
    case Ahbm::BurstSize::X4:
        return 4;
    case Ahbm::BurstSize::X8:
        return 8;
    default:
        std::printf("Unknown burst size %04X\n", static_cast<u16>(burst_size));
        return 1;
    }
}

u16 Ahbm::Read16(u16 channel, u32 address) {
    u32 value32 = Read32(channel, address);
    if ((address & 1) == 0) {
        return (u16)(value32 & 0xFFFF);
    } else {
        return (u16)(value32 >> 16);
    }
}
u32 Ahbm::Read32(u16 channel, u32 address) {
    if (channels[channel].direction != Direction::Read) {
        std::printf("Wrong direction!\n");
    }

    if (channels[channel].burst_queue.empty()) {
        u32 current = address;
        unsigned size = channels[channel].GetBurstSize();
        for (unsigned i = 0; i < size; ++i) {
            u32 value = 0;
            switch (channels[channel].unit_size) {
            case UnitSize::U8:
                value = read_external8(current);
                if ((current & 1) == 1) {
                    value <<= 8; // this weird bahiviour is hwtested
                }
                current += 1;
                break;
            case UnitSize::U16: {
                u32 current_masked = current & 0xFFFFFFFE;
                value = read_external16(current_masked);
                current += 2;
                break;
            }
            case UnitSize::U32: {
                u32 current_masked = current & 0xFFFFFFFC;
                value = read_external32(current_masked);
                current += 4;
                break;
            }
            default:
                std::printf("Unknown unit size %04X\n",
                            static_cast<u16>(channels[channel].unit_size));
                break;
            }
            channels[channel].burst_queue.push(value);
        }
    }

    u32 value = channels[channel].burst_queue.front();
    channels[channel].burst_queue.pop();
    return value;
}
void Ahbm::Write16(u16 channel, u32 address, u16 value) {
    WriteInternal(channel, address, value);
}
void Ahbm::Write32(u16 channel, u32 address, u32 value) {
    if ((address & 1) == 1) {
        value >>= 16; // this weird behaviour is hwtested
    }
    WriteInternal(channel, address, value);
}

void Ahbm::WriteInternal(u16 channel, u32 address, u32 value) {
    if (channels[channel].direction != Direction::Write) {
        std::printf("Wrong direction!\n");
    }

    if (channels[channel].burst_queue.empty()) {
        channels[channel].write_burst_start = address;
    }

    channels[channel].burst_queue.push(value);
    if (channels[channel].burst_queue.size() >= channels[channel].GetBurstSize()) {
        u32 current = channels[channel].write_burst_start;
        while (!channels[channel].burst_queue.empty()) {
            u32 value32 = channels[channel].burst_queue.front();
            channels[channel].burst_queue.pop();
            switch (channels[channel].unit_size) {
            case UnitSize::U8: {
                // this weird behaviour is hwtested
                u8 value8 = ((current & 1) == 1) ? (u8)(value32 >> 8) : (u8)value32;
                write_external8(current, value8);
                current += 1;
                break;
            }
            case UnitSize::U16: {
                u32 c0 = current & 0xFFFFFFFE;
                u32 c1 = c0 + 1;
                if (c0 >= current) {
                    write_external16(c0, (u16)value32);
                } else {
                    write_external8(c1, (u8)(value32 >> 8));
                }
                current += 2;
                break;
            }
            case UnitSize::U32: {
                u32 c0 = current & 0xFFFFFFFC;
                u32 c1 = c0 + 1;
                u32 c2 = c0 + 2;
                u32 c3 = c0 + 3;

                if (c0 >= current && c1 >= current && c2 >= current) {
                    write_external32(c0, value32);
                } else if (c2 >= current) {
                    if (c1 >= current) {
                        write_external8(c1, (u8)(value32 >> 8));
                    }
                    write_external16(c2, (u16)(value32 >> 16));
                } else {
                    write_external8(c3, (u8)(value32 >> 24));
                }

                current += 4;
                break;
            }
            default:
                std::printf("Unknown unit size %04X\n",
                            static_cast<u16>(channels[channel].unit_size));
                break;
            }
        }
    }
}

u16 Ahbm::GetChannelForDma(u16 dma_channel) const {
    for (u16 channel = 0; channel < channels.size(); ++channel) {
        if ((channels[channel].dma_channel >> dma_channel) & 1) {
            return channel;
        }
    }
    std::printf("Could not find AHBM channel for DMA channel %04X\n", dma_channel);
    return 0;
}

} // namespace Teakra
