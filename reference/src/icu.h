#pragma once

#include <array>
#include <bitset>
#include <functional>
#include <mutex>
#include <utility>
#include "common_types.h"

namespace Teakra {

class ICU {
public:
    using IrqBits = std::bitset<16>;
    u16 GetRequest() const {
        std::lock_guard lock(mutex);
        return (u16)request.to_ulong();
    }
    void Acknowledge(u16 irq_bits) {
        std::lock_guard lock(mutex);
        request &= ~IrqBits(irq_bits);
    }
    u16 GetAcknowledge() {
        return 0;
    }
    void Trigger(u16 irq_bits) {
        std::lock_guard lock(mutex);
        IrqBits bits(irq_bits);
        request |= bits;
        for (u32 irq = 0; irq < 16; ++irq) {
            if (bits[irq]) {
                for (u32 interrupt = 0; interrupt < enabled.size(); ++interrupt) {
                    if (enabled[interrupt][irq]) {
                        on_interrupt(interrupt);
                    }
                }
                if (vectored_enabled[irq]) {
                    on_vectored_interrupt(GetVector(irq), vector_context_switch[irq] != 0);
                }
            }
        }
    }
    u16 GetTrigger() {
        return 0;
    }
    void TriggerSingle(u32 irq) {
        Trigger(1 << irq);
    }
    void SetEnable(u32 interrupt_index, u16 irq_bits) {
        std::lock_guard lock(mutex);
        enabled[interrupt_index] = IrqBits(irq_bits);
    }
    void SetEnableVectored(u16 irq_bits) {
        std::lock_guard lock(mutex);
        vectored_enabled = IrqBits(irq_bits);
    }
    u16 GetEnable(u32 interrupt_index) const {
        std::lock_guard lock(mutex);
        return (u16)enabled[interrupt_index].to_ulong();
    }
    u16 GetEnableVectored() const {
        std::lock_guard lock(mutex);
        return (u16)vectored_enabled.to_ulong();
    }

    u32 GetVector(u32 irq) const {
        return vector_low[irq] | ((u32)vector_high[irq] << 16);
    }

    void SetInterruptHandler(std::function<void(u32)> interrupt,
                             std::function<void(u32, bool)> vectored_interrupt) {
        on_interrupt = std::move(interrupt);
        on_vectored_interrupt = std::move(vectored_interrupt);
    }

    std::array<u16, 16> vector_low, vector_high;
    std::array<u16, 16> vector_context_switch;

private:
    std::function<void(u32)> on_interrupt;
    std::function<void(u32, bool)> on_vectored_interrupt;

    IrqBits request;
    std::array<IrqBits, 3> enabled;
    IrqBits vectored_enabled;
    mutable std::mutex mutex;
};

} // namespace Teakra
