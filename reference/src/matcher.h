#pragma once

#include <algorithm>
#include <functional>
#include <vector>
#include "common_types.h"
#include "crash.h"

struct Rejector {
    u16 mask;
    u16 unexpected;
    bool Rejects(u16 instruction) const {
        return (instruction & mask) == unexpected;
    }
};

template <typename Visitor>
class Matcher {
public:
    using visitor_type = Visitor;
    using handler_return_type = typename Visitor::instruction_return_type;
    using handler_function = std::function<handler_return_type(Visitor&, u16, u16)>;

    Matcher(const char* const name, u16 mask, u16 expected, bool expanded, handler_function func)
        : name{name}, mask{mask}, expected{expected}, expanded{expanded}, fn{std::move(func)} {}

    static Matcher AllMatcher(handler_function func) {
        return Matcher("*", 0, 0, false, std::move(func));
    }

    const char* GetName() const {
        return name;
    }

    bool NeedExpansion() const {
        return expanded;
    }

    bool Matches(u16 instruction) const {
        return (instruction & mask) == expected &&
               std::none_of(rejectors.begin(), rejectors.end(),
                            [instruction](const Rejector& rejector) {
                                return rejector.Rejects(instruction);
                            });
    }

    Matcher Except(Rejector rejector) const {
        Matcher new_matcher(*this);
        new_matcher.rejectors.push_back(rejector);
        return new_matcher;
    }

    handler_return_type call(Visitor& v, u16 instruction, u16 instruction_expansion = 0) const {
        ASSERT(Matches(instruction));
        return fn(v, instruction, instruction_expansion);
    }

private:
    const char* name;
    u16 mask;
    u16 expected;
    bool expanded;
    handler_function fn;
    std::vector<Rejector> rejectors;
};
