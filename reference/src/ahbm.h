#pragma once
#include <array>
#include <functional>
#include <utility>
#include <queue>
#include "common_types.h"

namespace Teakra {

class Ahbm {
public:
    enum class UnitSize : u16 {
        U8 = 0,
        U16 = 1,
        U32 = 2,
    };

    enum class BurstSize : u16 {
        X1 = 0,
        X4 = 1,
        X8 = 2,
    };

    enum class Direction : u16 {
        Read = 0,
        Write = 1,
    };

    void Reset();

    u16 GetBusyFlag() const {
        return busy_flag;
    }
    void SetUnitSize(u16 i, u16 value) {
        channels[i].unit_size = static_cast<UnitSize>(value);
    }
    u16 GetUnitSize(u16 i) const {
        return static_cast<u16>(channels[i].unit_size);
    }
    void SetBurstSize(u16 i, u16 value) {
        channels[i].burst_size = static_cast<BurstSize>(value);
    }
    u16 GetBurstSize(u16 i) const {
        return static_cast<u16>(channels[i].burst_size);
    }
    void SetDirection(u16 i, u16 value) {
        channels[i].direction = static_cast<Direction>(value);
    }
    u16 GetDirection(u16 i) const {
        return static_cast<u16>(channels[i].direction);
    }
    void SetDmaChannel(u16 i, u16 value) {
        channels[i].dma_channel = value;
    }
    u16 GetDmaChannel(u16 i) const {
        return channels[i].dma_channel;
    }

    u16 Read16(u16 channel, u32 address);
    u32 Read32(u16 channel, u32 address);
    void Write16(u16 channel, u32 address, u16 value);
    void Write32(u16 channel, u32 address, u32 value);

    u16 GetChannelForDma(u16 dma_channel) const;

    void SetExternalMemoryCallback(
           std::function<u8 (u32)> read8 , std::function<void(u32, u8 )> write8 ,
           std::function<u16(u32)> read16, std::function<void(u32, u16)> write16,
           std::function<u32(u32)> read32, std::function<void(u32, u32)> write32) {

        read_external8 = std::move(read8);
        write_external8 = std::move(write8);
        read_external16 = std::move(read16);
        write_external16 = std::move(write16);
        read_external32 = std::move(read32);
        write_external32 = std::move(write32);
    }

private:
    u16 busy_flag = 0;
    struct Channel {
        UnitSize unit_size = UnitSize::U8;
        BurstSize burst_size = BurstSize::X1;
        Direction direction = Direction::Read;
        u16 dma_channel = 0;

        std::queue<u32> burst_queue;
        u32 write_burst_start = 0;
        unsigned GetBurstSize();
    };
    std::array<Channel, 3> channels;

    std::function<u8(u32)> read_external8;
    std::function<void(u32, u8)> write_external8;
    std::function<u16(u32)> read_external16;
    std::function<void(u32, u16)> write_external16;
    std::function<u32(u32)> read_external32;
    std::function<void(u32, u32)> write_external32;

    void WriteInternal(u16 channel, u32 address, u32 value);
};

} // namespace Teakra
