#pragma once

#include <algorithm>
#include <functional>
#include <limits>
#include <vector>
#include "common_types.h"

namespace Teakra {

class CoreTiming {
public:
    class Callbacks {
    public:
        virtual ~Callbacks() = default;
        virtual void Tick() = 0;
        virtual u64 GetMaxSkip() const = 0;
        virtual void Skip(u64) = 0;
        static constexpr u64 Infinity = std::numeric_limits<u64>::max();
    };

    void Tick() {
        for (const auto& callbacks : registered_callbacks) {
            callbacks->Tick();
        }
    }

    u64 Skip(u64 maximum) {
        u64 ticks = maximum;
        for (const auto& callbacks : registered_callbacks) {
            ticks = std::min(ticks, callbacks->GetMaxSkip());
        }
        for (const auto& callbacks : registered_callbacks) {
            callbacks->Skip(ticks);
        }
        return ticks;
    }

    void RegisterCallbacks(Callbacks* callbacks) {
        registered_callbacks.push_back(std::move(callbacks));
    }

private:
    std::vector<Callbacks*> registered_callbacks;
};
} // namespace Teakra
