#pragma once
#include <array>
#include <memory>
#include <optional>
#include "common_types.h"

namespace Teakra {
struct SharedMemory {
    // We allocate our own memory if the user doesn't supply their own
    std::unique_ptr<std::array<u8, 0x80000>> own_memory;
    // Points to either own own memory or user-supplied memory
    u8* raw;

    SharedMemory(u8* mem = nullptr) : raw{mem} {
        if (mem == nullptr) {
            own_memory = std::make_unique<std::array<u8, 0x80000>>();
            raw = own_memory->data();
        }
    }

    u16 ReadWord(u32 word_address) const {
        u32 byte_address = word_address * 2;
        u8 low = raw[byte_address];
        u8 high = raw[byte_address + 1];
        return low | ((u16)high << 8);
    }
    void WriteWord(u32 word_address, u16 value) {
        u8 low = value & 0xFF;
        u8 high = value >> 8;
        u32 byte_address = word_address * 2;
        raw[byte_address] = low;
        raw[byte_address + 1] = high;
    }
};
} // namespace Teakra
