#pragma once

#include <memory>
#include "common_types.h"
#include "core_timing.h"

namespace Teakra {

class MemoryInterface;
struct RegisterState;

class Processor {
public:
    Processor(CoreTiming& core_timing, MemoryInterface& memory_interface);
    ~Processor();
    void Reset();
    void Run(unsigned cycles);
    void SignalInterrupt(u32 i);
    void SignalVectoredInterrupt(u32 address, bool context_switch);

    RegisterState& GetRegisterState();
    const RegisterState& GetRegisterState() const;

private:
    struct Impl;
    std::unique_ptr<Impl> impl;
};

} // namespace Teakra
