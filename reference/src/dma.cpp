#include <cstdio>
#include <cstring>
#include "ahbm.h"
#include "dma.h"
#include "shared_memory.h"

namespace Teakra {

void Dma::Reset() {
    enable_channel = 0;
    active_channel = 0;
    channels = {};
}

void Dma::DoDma(u16 channel) {
    channels[channel].Start();

    channels[channel].ahbm_channel = ahbm.GetChannelForDma(channel);

    // TODO: actually Tick this according to global Tick;
    while (channels[channel].running)
        channels[channel].Tick(*this);

    interrupt_handler();
}

void Dma::Channel::Start() {
    running = 1;
    current_src = addr_src_low | ((u32)addr_src_high << 16);
    current_dst = addr_dst_low | ((u32)addr_dst_high << 16);
    counter0 = 0;
    counter1 = 0;
    counter2 = 0;
}

void Dma::Channel::Tick(Dma& parent) {
    static constexpr u32 DataMemoryOffset = 0x20000;
    if (dword_mode) {
        u32 value = 0;
        switch (src_space) {
        case 0: {
            u32 l = current_src & 0xFFFFFFFE;
            u32 h = current_src | 1;
            value = parent.shared_memory.ReadWord(DataMemoryOffset + l) |
                    ((u32)parent.shared_memory.ReadWord(DataMemoryOffset + h) << 16);
            break;
        }
        case 1:
            std::printf("Unimplemented MMIO space");
            value = 0;
            break;
        case 7:
            value = parent.ahbm.Read32(ahbm_channel, current_src);
            break;
        default:
            std::printf("Unknown SrcSpace %04X\n", src_space);
        }

        switch (dst_space) {
        case 0: {
            u32 l = current_dst & 0xFFFFFFFE;
            u32 h = current_dst | 1;
            parent.shared_memory.WriteWord(DataMemoryOffset + l, (u16)value);
            parent.shared_memory.WriteWord(DataMemoryOffset + h, (u16)(value >> 16));
            break;
        }
        case 1:
            std::printf("Unimplemented MMIO space");
            value = 0;
            break;
        case 7:
            parent.ahbm.Write32(ahbm_channel, current_dst, value);
            break;
        default:
            std::printf("Unknown DstSpace %04X\n", dst_space);
        }

        counter0 += 2;
    } else {
        u16 value = 0;
        switch (src_space) {
        case 0:
            value = parent.shared_memory.ReadWord(DataMemoryOffset + current_src);
            break;
        case 1:
            std::printf("Unimplemented MMIO space");
            value = 0;
            break;
        case 7:
            value = parent.ahbm.Read16(ahbm_channel, current_src);
            break;
        default:
            std::printf("Unknown SrcSpace %04X\n", src_space);
        }

        switch (dst_space) {
        case 0:
            parent.shared_memory.WriteWord(DataMemoryOffset + current_dst, value);
            break;
        case 1:
            std::printf("Unimplemented MMIO space");
            value = 0;
            break;
        case 7:
            parent.ahbm.Write16(ahbm_channel, current_dst, value);
            break;
        default:
            std::printf("Unknown DstSpace %04X\n", dst_space);
        }

        counter0 += 1;
    }

    if (counter0 >= size0) {
        counter0 = 0;
        counter1 += 1;
        if (counter1 >= size1) {
            counter1 = 0;
            counter2 += 1;
            if (counter2 >= size2) {
                running = 0;
                return;
            } else {
                current_src += src_step2;
                current_dst += dst_step2;
            }
        } else {
            current_src += src_step1;
            current_dst += dst_step1;
        }
    } else {
        current_src += src_step0;
        current_dst += dst_step0;
    }
}

} // namespace Teakra
