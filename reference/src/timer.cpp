#include "crash.h"
#include "timer.h"

namespace Teakra {

void Timer::Reset() {
    update_mmio = 0;
    pause = 0;
    count_mode = CountMode::Single;
    scale = 0;

    start_high = 0;
    start_low = 0;
    counter = 0;
    counter_high = 0;
    counter_low = 0;
}

void Timer::Restart() {
    ASSERT(static_cast<u16>(count_mode) < 4);
    if (count_mode != CountMode::FreeRunning) {
        counter = ((u32)start_high << 16) | start_low;
        UpdateMMIO();
    }
}

void Timer::Tick() {
    ASSERT(static_cast<u16>(count_mode) < 4);
    ASSERT(scale == 0);
    if (pause)
        return;
    if (count_mode == CountMode::EventCount)
        return;
    if (counter == 0) {
        if (count_mode == CountMode::AutoRestart) {
            Restart();
        } else if (count_mode == CountMode::FreeRunning) {
            counter = 0xFFFFFFFF;
            UpdateMMIO();
        }
    } else {
        --counter;
        UpdateMMIO();
        if (counter == 0)
            interrupt_handler();
    }
}

void Timer::TickEvent() {
    if (pause)
        return;
    if (count_mode != CountMode::EventCount)
        return;
    if (counter == 0)
        return;
    --counter;
    UpdateMMIO();
    if (counter == 0)
        interrupt_handler();
}

void Timer::UpdateMMIO() {
    if (!update_mmio)
        return;
    counter_high = counter >> 16;
    counter_low = counter & 0xFFFF;
}

u64 Timer::GetMaxSkip() const {
    if (pause || count_mode == CountMode::EventCount)
        return Infinity;

    if (counter == 0) {
        if (count_mode == CountMode::AutoRestart) {
            return ((u32)start_high << 16) | start_low;
        } else if (count_mode == CountMode::FreeRunning) {
            return 0xFFFFFFFF;
        } else /*Single*/ {
            return Infinity;
        }
    }

    return counter - 1;
}

void Timer::Skip(u64 ticks) {
    if (pause || count_mode == CountMode::EventCount)
        return;

    if (counter == 0) {
        u32 reset;
        if (count_mode == CountMode::AutoRestart) {
            reset = ((u32)start_high << 16) | start_low;
        } else if (count_mode == CountMode::FreeRunning) {
            reset = 0xFFFFFFFF;
        } else {
            return;
        }
        ASSERT(reset >= ticks);
        counter = reset - ((u32)ticks - 1);
    } else {
        ASSERT(counter > ticks);
        counter -= (u32)ticks;
    }

    UpdateMMIO();
}

Timer::Timer(CoreTiming& core_timing) {
    core_timing.RegisterCallbacks(this);
}

} // namespace Teakra
