#pragma once
#include <array>
#include <cstdio>
#include <functional>
#include <utility>
#include <queue>
#include "common_types.h"
#include "core_timing.h"

namespace Teakra {

class Btdmp : public CoreTiming::Callbacks {
public:
    Btdmp(CoreTiming& core_timing);
    ~Btdmp();

    void Reset();

    void SetTransmitClockConfig(u16 value) {
        transmit_clock_config = value;
    }

    u16 GetTransmitClockConfig() const {
        return transmit_clock_config;
    }

    void SetTransmitPeriod(u16 value) {
        transmit_period = value;
    }

    u16 GetTransmitPeriod() const {
        return transmit_period;
    }

    void SetTransmitEnable(u16 value) {
        transmit_enable = value;
    }

    u16 GetTransmitEnable() const {
        return transmit_enable;
    }

    u16 GetTransmitEmpty() const {
        return transmit_empty;
    }

    u16 GetTransmitFull() const {
        return transmit_full;
    }

    void Send(u16 value) {
        if (transmit_queue.size() == 16) {
            std::printf("BTDMP: transmit buffer overrun\n");
        } else {
            transmit_queue.push(value);
            transmit_empty = false;
            transmit_full = transmit_queue.size() == 16;
        }
    }

    void SetTransmitFlush(u16 value) {
        transmit_queue = {};
        transmit_empty = true;
        transmit_full = false;
    }

    u16 GetTransmitFlush() const {
        return 0;
    }

    void Tick() override;
    u64 GetMaxSkip() const override;
    void Skip(u64 ticks) override;

    void SetAudioCallback(std::function<void(std::array<std::int16_t, 2>)> callback) {
        audio_callback = std::move(callback);
    }

    void SetInterruptHandler(std::function<void()> handler) {
        interrupt_handler = std::move(handler);
    }

private:
    // TODO: figure out the relation between clock_config and period.
    // Default to period = 4096 for now which every game uses
    u16 transmit_clock_config = 0;
    u16 transmit_period = 4096;
    u16 transmit_timer = 0;
    u16 transmit_enable = 0;
    bool transmit_empty = true;
    bool transmit_full = false;
    std::queue<u16> transmit_queue;
    std::function<void(std::array<std::int16_t, 2>)> audio_callback;
    std::function<void()> interrupt_handler;

    class BtdmpTimingCallbacks;
};

} // namespace Teakra
