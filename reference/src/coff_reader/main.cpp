#include <cstdio>
#include <string>
#include <teakra/disassembler.h>
#include "coff.h"

int main(int argc, char** argv) {
    if (argc < 2) {
        printf("Please input a file\n");
        return -1;
    }
    std::FILE* in;
    std::FILE* out;
    in = std::fopen(argv[1], "rb");
    if (!in) {
        printf("Failed to open input file\n");
        return -1;
    }
    out = std::fopen((argv[1] + std::string(".out")).c_str(), "wt");
    if (!out) {
        printf("Failed to open output file\n");
        return -1;
    }

    Coff coff(in);

    u32 prog_grow = 0, data_grow = 0;
    for (const auto& section : coff.sections) {
        u32 addr;
        bool is_prog;
        if ((section.flags & SFlag::RegionMask) == SFlag::Prog) {
            if (section.prog_addr < prog_grow) {
                throw "overlap";
            }
            is_prog = true;
            addr = section.prog_addr;
            prog_grow = section.prog_addr + (u32)section.data.size() / 2;
        } else {
            if (section.data_addr < data_grow) {
                throw "overlap";
            }
            is_prog = false;
            addr = section.data_addr;
            data_grow = section.data_addr + (u32)section.data.size() / 2;
        }

        fprintf(out, "\n===Section===\n");
        fprintf(out, "name: %s\n", section.name.c_str());
        fprintf(out, "addr: %s.%08X\n", is_prog ? "Prog" : "Data", addr);
        fprintf(out, "flag: %08X\n\n", section.flags);

        std::vector<u16> data(section.data.size() / 2);
        std::memcpy(data.data(), section.data.data(), section.data.size());

        for (auto iter = data.begin(); iter != data.end(); ++iter) {
            u32 current_rel_addr = (u32)(iter - data.begin());
            u32 current_addr = current_rel_addr + addr;

            if (coff.symbols_lut.count(current_addr)) {
                const auto& symbol_list = coff.symbols_lut.at(current_addr);
                auto begin = symbol_list.begin();
                while (true) {
                    auto symbol_index =
                        std::find_if(begin, symbol_list.end(),
                                     [is_prog, current_addr, &coff](const auto symbol_index) {
                                         const auto& symbol = coff.symbols[symbol_index];
                                         if (symbol.region == Coff::SymbolEx::Absolute ||
                                             symbol.region == Coff::SymbolEx::Aux)
                                             throw "what";
                                         if (symbol.region == Coff::SymbolEx::Prog && !is_prog)
                                             return false;
                                         if (symbol.region == Coff::SymbolEx::Data && is_prog)
                                             return false;
                                         if (symbol.value != current_addr)
                                             throw "what";
                                         return true;
                                     });
                    if (symbol_index != symbol_list.end()) {
                        const auto& symbol = coff.symbols[*symbol_index];
                        fprintf(out, "$[%s]%s\n", storage_names.at(symbol.storage),
                                symbol.name.c_str());
                    } else {
                        break;
                    }
                    begin = symbol_index + 1;
                }
            }

            if (section.line_numbers.count(current_addr)) {
                for (const auto& line_number : section.line_numbers.at(current_addr)) {
                    const auto& symbol = coff.symbols[line_number.symbol];
                    fprintf(out, "#%d + $[%s]%s\n", line_number.line,
                            storage_names.at(symbol.storage), symbol.name.c_str());
                }
            }

            fprintf(out, ".%08X    ", current_addr);
            fprintf(out, "%04X", *iter);

            if (section.flags & SFlag::Exec) {
                u16 opcode = *iter;
                std::string dsm;
                if (Teakra::Disassembler::NeedExpansion(opcode)) {
                    ++iter;
                    if (iter == data.end()) {
                        fprintf(out, "[broken expansion]\n");
                        break;
                    }
                    u16 exp = *iter;
                    dsm = Teakra::Disassembler::Do(opcode, exp);
                    fprintf(out, " %04X ", exp);
                } else {
                    dsm = Teakra::Disassembler::Do(opcode);
                    fprintf(out, "      ");
                }
                fprintf(out, "%s  ;", dsm.c_str());
            }

            if (section.relocations.count(current_rel_addr)) {
                for (const auto& relocation : section.relocations.at(current_rel_addr)) {
                    const auto& symbol = coff.symbols[relocation.symbol];
                    fprintf(out, "{@%08X + $[%s]%s}", relocation.type,
                            storage_names.at(symbol.storage), symbol.name.c_str());
                }
            }

            fprintf(out, "\n");
        }
    }

    std::fclose(in);
    std::fclose(out);
}
