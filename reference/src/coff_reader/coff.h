#include <algorithm>
#include <cstdint>
#include <cstdio>
#include <cstring>
#include <string>
#include <unordered_map>
#include <variant>
#include <vector>

using u8 = std::uint8_t;
using u16 = std::uint16_t;
using u32 = std::uint32_t;
using u64 = std::uint64_t;

struct NameOrIndex {
    u8 value[8];
    std::variant<std::string, u32> Get() {
        u32 temp;
        std::memcpy(&temp, value, 4);
        if (temp == 0) {
            std::memcpy(&temp, value + 4, 4);
            return temp;
        }
        std::string ret(value, value + 8);
        size_t pos = ret.find('\0');
        if (pos != std::string::npos)
            ret.erase(pos);
        return ret;
    }
    std::string GetString(std::FILE* file, u32 offset) {
        auto v = Get();
        if (v.index() == 1) {
            std::fseek(file, offset + std::get<1>(v), SEEK_SET);
            char c;
            std::string ret;
            while (true) {
                if (std::fread(&c, 1, 1, file) != 1)
                    throw "unexpected end";
                if (c == '\0')
                    break;
                ret += c;
            }
            return ret;
        } else {
            return std::get<0>(v);
        }
    }
};

struct Header {
    u16 magic;
    u16 num_section;
    u32 time;
    u32 offset_symbol;
    u32 num_symbol;
    u16 optheader_size;
    u16 flags;
};
static_assert(sizeof(Header) == 20);

struct SectionHeader {
    NameOrIndex name;
    u32 prog_addr;
    u32 data_addr;
    u32 size;
    u32 offset_data;
    u32 offset_rel;
    u32 offset_line;
    u16 num_rel;
    u16 num_line;
    u32 flags;
};
static_assert(sizeof(SectionHeader) == 40);

namespace SFlag {
constexpr u32 Exec = 0x0001;
constexpr u32 Unk2 = 0x0002;
constexpr u32 Prog = 0x0008;
constexpr u32 Data = 0x0010;
constexpr u32 RegionMask = Prog | Data;
constexpr u32 Moni = 0x0020;
constexpr u32 Un40 = 0x0040;
constexpr u32 Dupl = 0x0080;
constexpr u32 U200 = 0x0200;
} // namespace SFlag

#pragma pack(push, 1)
struct Symbol {
    NameOrIndex name;
    u32 value;
    u16 section_index;
    u16 type;
    u8 storage;
    u8 num_aux;
};
static_assert(sizeof(Symbol) == 18);

inline const std::unordered_map<u32, const char*> storage_names{
    {0, "label"},    {1, "auto"},       {2, "external"},  {3, "static"},
    {4, "register"}, {8, "struct"},     {9, "arg"},       {10, "struct-tag"},
    {11, "union"},   {12, "union-tag"}, {13, "typedef"},  {15, "enum-tag"},
    {16, "enum"},    {18, "bitfield"},  {19, "auto-arg"}, {98, "start"},
    {99, "end"},     {100, "block"},    {101, "func"},    {102, "struct-size"},
    {103, "file"},   {107, "ar"},       {108, "ar"},      {109, "ar"},
    {110, "ar"},     {111, "ar"},       {112, "ar"},      {255, "physical-function-end"},
};

/*
Storage:
0 labels? | section+address | type = 0 | no aux
1 auto variable | address, rel to sp? | variable type | variable aux
2 externals | section+address | variable type | variable aux
3 statics | section+address | variable type | variable aux
4 register variable | address, abs? | variable type | variable aux
8 structure member | address | variable type | variable aux
9 function argument | address, ? | variable type | variable aux
10 structure tag | debug/no address | type = 8 (structure) | aux = 1
11 union member | address = 0? | type = 5 (long) or 8 (structure) | aux = 0 (long) or 1 (structure)
12 union tag | debug/no address | type = 9 (union) | aux = 1
13 typedef | debug/no address | type = 5 (long) or 8 (structure) | aux = 0 (long) or 1 (structure)
15 enum tag | debug/no address | type = 10 (enum) | aux = 1
16 enum member | abs value  | type = 11 (enum member) | aux = 0
18 bitfield | address | type = 5 (long) or 15 ulong | aux = 1
19 auto arg | section+address | type = 17 | aux = 0
98 function start | section + address | type = 0 | aux = 0
99 function end | section + address | type = 0 | aux = 0
100 .eb/.bb | section + address | type = 0 | aux = 1
101 .ef/.bf | section + address | type = 0 | aux = 1
102 struct end | address | type = 0 | aux = 1
103 .file | debug value | type = 1 or 2 | aux = 1
107 .ar | section + address | type = => ar0 value | aux = 0
108 .ar | section + address | type = => ar1 value | aux = 0
109 .ar | section + address | type = => arp0 value | aux = 0
110 .ar | section + address | type = => arp1 value | aux = 0
111 .ar | section + address | type = => arp2 value | aux = 0
112 .ar | section + address | type = => arp3 value | aux = 0
255 physical function end | section + address | type = 0 | aux = 0
*/

struct Line {
    u32 symbol_index_or_addr;
    u16 line_number;
};
static_assert(sizeof(Line) == 6);

struct Relocation {
    u32 addr;
    u32 symbol;
    u32 type;
};
static_assert(sizeof(Relocation) == 12); // not 10 bytes!
#pragma pack(pop)

class Coff {

public:
    Coff(std::FILE* in) {
        fseek(in, 0, SEEK_SET);
        Header header;
        if (fread(&header, sizeof(header), 1, in) != 1)
            throw "failed to read header";
        u32 string_offset = header.offset_symbol + header.num_symbol * sizeof(Symbol);

        sections.resize(header.num_section);
        u32 expected = 0;
        for (u32 i = 0; i < header.num_section; ++i) {
            fseek(in, sizeof(header) + header.optheader_size + i * sizeof(SectionHeader), SEEK_SET);
            SectionHeader sheader;
            if (fread(&sheader, sizeof(sheader), 1, in) != 1)
                throw "failed to read sheader";
            sections[i].name = sheader.name.GetString(in, string_offset);
            sections[i].prog_addr = sheader.prog_addr;
            sections[i].data_addr = sheader.data_addr;
            if (expected == 0)
                expected = sheader.offset_data;
            if (expected != sheader.offset_data) {
                throw "";
            }
            sections[i].data.resize(sheader.size);
            if ((sheader.flags & SFlag::Dupl) == 0) {
                fseek(in, sheader.offset_data, SEEK_SET);
                if (sheader.size != 0)
                    if (fread(sections[i].data.data(), sheader.size, 1, in) != 1)
                        throw "failed to read section";
                expected += sheader.size;
            }
            sections[i].num_rel = sheader.num_rel;
            sections[i].flags = sheader.flags;
            if ((sections[i].flags & SFlag::RegionMask) == 0)
                throw "no region type";
            if ((sections[i].flags & SFlag::RegionMask) == SFlag::Prog) {
                if (sections[i].data_addr != 0)
                    throw "prog section has data addr";
            } else if ((sections[i].flags & SFlag::RegionMask) == SFlag::Data) {
                if (sections[i].prog_addr != 0)
                    throw "data section has prog addr";
            }

            fseek(in, sheader.offset_line, SEEK_SET);
            u32 current_symbol = 0;
            for (u16 j = 0; j < sheader.num_line; ++j) {
                Line line;
                if (fread(&line, sizeof(line), 1, in) != 1)
                    throw "failed to read line";
                if (line.line_number == 0) {
                    current_symbol = line.symbol_index_or_addr;
                } else {
                    u32 addr = line.symbol_index_or_addr;
                    if (addr < sections[i].prog_addr ||
                        addr >= sections[i].prog_addr + sections[i].data.size() / 2) {
                        if (addr != 0xFFFFFFFF && addr != 0xFFFFFFFE &&
                            addr != 0xFFFFFFFD) // unknown magic
                            throw "line out of range";
                    }
                    sections[i].line_numbers[addr].emplace_back(
                        Section::LineNumber{current_symbol, line.line_number});
                }
            }

            fseek(in, sheader.offset_rel, SEEK_SET);
            // printf("\n");
            for (u16 j = 0; j < sheader.num_rel; ++j) {
                Relocation relocation;
                if (fread(&relocation, sizeof(relocation), 1, in) != 1)
                    throw "failed to read relocation";
                // printf("%08X, %08X, %08X\n", relocation.addr, relocation.symbol,
                // relocation.type);
                sections[i].relocations[relocation.addr].push_back(relocation);
            }
        }

        for (u32 i = 0; i < header.num_symbol; ++i) {
            Symbol symbol;
            fseek(in, header.offset_symbol + i * sizeof(symbol), SEEK_SET);
            if (fread(&symbol, sizeof(symbol), 1, in) != 1)
                throw "failed to read symbol";
            i += symbol.num_aux;
            printf("%s\n", symbol.name.GetString(in, string_offset).c_str());
            printf("value = %08X, section = %04X, type = %04X, storage = %02X, aux = %02X\n",
                   symbol.value, symbol.section_index, symbol.type, symbol.storage, symbol.num_aux);
            SymbolEx symbol_ex;
            symbol_ex.name = symbol.name.GetString(in, string_offset);
            if (symbol.section_index > 0 && symbol.section_index < 0x7FFF) {
                u16 section_index = symbol.section_index - 1;
                symbol_ex.region =
                    sections[section_index].flags & SFlag::Prog ? SymbolEx::Prog : SymbolEx::Data;
                symbol_ex.value = symbol.value + (sections[section_index].flags & SFlag::Prog
                                                      ? sections[section_index].prog_addr
                                                      : sections[section_index].data_addr);

            } else {
                symbol_ex.region = SymbolEx::Absolute;
                symbol_ex.value = symbol.value;
            }

            symbol_ex.storage = symbol.storage;
            symbol_ex.type = symbol.type;

            symbols.push_back(symbol_ex);

            if (symbols.back().region == SymbolEx::Prog ||
                symbols.back().region == SymbolEx::Data) {
                symbols_lut[symbols.back().value].push_back(symbols.size() - 1);
            }

            symbol_ex.region = SymbolEx::Aux;
            for (u16 aux = 0; aux < symbol.num_aux; ++aux) {
                symbols.push_back(symbol_ex);
            }
        }

        // Merge duplicated sections
        std::sort(sections.begin(), sections.end(), [](const Section& left, const Section& right) {
            u32 lm = left.flags & SFlag::Dupl;
            u32 rm = right.flags & SFlag::Dupl;
            if (lm == rm) {
                return left.name < right.name;
            } else {
                return lm < rm;
            }
        });
        auto mid = sections.begin() + sections.size() / 2;
        for (auto a = sections.begin(), b = mid; a != mid; ++a, ++b) {
            if (a->name != b->name || a->prog_addr != b->prog_addr ||
                a->data_addr != b->data_addr || a->data.size() != b->data.size() ||
                (a->flags + SFlag::Dupl) != b->flags)
                throw "mismatch";
            if (!b->line_numbers.empty())
                throw "dup has line numbers";
            if (b->num_rel != 0)
                throw "dup has relocations";
        }
        sections.resize(sections.size() / 2);

        // Break up multi-region section
        auto both_begin =
            std::partition(sections.begin(), sections.end(), [](const Section& section) {
                return (section.flags & SFlag::RegionMask) != SFlag::RegionMask;
            });
        std::vector<Section> copy(both_begin, sections.end());
        for (auto i = both_begin; i != sections.end(); ++i) {
            i->flags &= ~SFlag::Prog;
            i->prog_addr = 0;
        }
        for (auto& section : copy) {
            section.flags &= ~SFlag::Data;
            section.data_addr = 0;
        }
        sections.insert(sections.end(), std::make_move_iterator(copy.begin()),
                        std::make_move_iterator(copy.end()));

        // Sort according to address
        std::sort(sections.begin(), sections.end(), [](const Section& left, const Section& right) {
            if ((left.flags & SFlag::RegionMask) == SFlag::Prog) {
                if ((right.flags & SFlag::RegionMask) == SFlag::Prog) {
                    if (left.prog_addr == right.prog_addr) {
                        return left.data.size() < right.data.size();
                    }
                    return left.prog_addr < right.prog_addr;
                } else {
                    return true;
                }
            } else {
                if ((right.flags & SFlag::RegionMask) == SFlag::Prog) {
                    return false;
                } else {
                    if (left.data_addr == right.data_addr) {
                        return left.data.size() < right.data.size();
                    }
                    return left.data_addr < right.data_addr;
                }
            }
        });
    }

    struct Section {
        std::string name;
        u32 prog_addr;
        u32 data_addr;
        std::vector<u8> data;
        u16 num_rel;
        u32 flags;

        struct LineNumber {
            u32 symbol;
            u16 line;
        };
        std::unordered_map<u32 /*abs addr*/, std::vector<LineNumber>> line_numbers;
        std::unordered_map<u32 /*rel addr*/, std::vector<Relocation>> relocations;
    };
    std::vector<Section> sections;

    struct SymbolEx {
        std::string name;
        enum Region {
            Aux,
            Absolute,
            Prog,
            Data,
        } region;
        u32 value;
        u16 type;
        u8 storage;
    };
    std::vector<SymbolEx> symbols;
    std::unordered_map<u32 /*abs addr*/, std::vector<std::size_t /*index in symbols*/>> symbols_lut;
};
