#pragma once

namespace Teakra::Test {
bool GenerateTestCasesToFile(const char* path);
}
