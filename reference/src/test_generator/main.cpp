#include <cstdio>
#include "../test_generator.h"

int main(int argc, char** argv) {
    if (argc < 2) {
        return -1;
    }

    if (!Teakra::Test::GenerateTestCasesToFile(argv[1])) {
        std::fprintf(stderr, "Unable to successfully generate all tests.\n");
        return -2;
    }

    return 0;
}
