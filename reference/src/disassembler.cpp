#include <iomanip>
#include <sstream>
#include <type_traits>
#include <vector>
#include "common_types.h"
#include "crash.h"
#include "decoder.h"
#include "operand.h"
#include "teakra/disassembler.h"

namespace Teakra::Disassembler {

template <typename T>
std::string ToHex(T i) {
    u64 v = i;
    std::stringstream stream;
    stream << "0x" << std::setfill('0') << std::setw(sizeof(T) * 2) << std::hex << v;
    return stream.str();
}

template <unsigned bits>
std::string Dsm(Imm<bits> a) {
    std::string eight_mark = bits == 8 ? "u8" : "";
    return ToHex(a.Unsigned16()) + eight_mark;
}

template <unsigned bits>
std::string Dsm(Imms<bits> a) {
    u16 value = a.Signed16();
    bool negative = (value >> 15) != 0;
    if (negative) {
        value = (~value) + 1;
    }
    return (negative ? "-" : "+") + ToHex(value);
}

std::string Dsm(MemImm8 a) {
    return "[page:" + Dsm((Imm8)a) + "]";
}

std::string Dsm(MemImm16 a) {
    return "[" + Dsm((Imm16)a) + "]";
}

std::string Dsm(MemR7Imm16 a) {
    return "[r7+" + Dsm((Imm16)a) + "]";
}
std::string Dsm(MemR7Imm7s a) {
    return "[r7" + Dsm((Imm7s)a) + "s7]";
}

std::string DsmReg(RegName a) {
    switch (a) {
    case RegName::a0:
        return "a0";
    case RegName::a0l:
        return "a0l";
    case RegName::a0h:
        return "a0h";
    case RegName::a0e:
        return "a0e";
    case RegName::a1:
        return "a1";
    case RegName::a1l:
        return "a1l";
    case RegName::a1h:
        return "a1h";
    case RegName::a1e:
        return "a1e";
    case RegName::b0:
        return "b0";
    case RegName::b0l:
        return "b0l";
    case RegName::b0h:
        return "b0h";
    case RegName::b0e:
        return "b0e";
    case RegName::b1:
        return "b1";
    case RegName::b1l:
        return "b1l";
    case RegName::b1h:
        return "b1h";
    case RegName::b1e:
        return "b1e";

    case RegName::r0:
        return "r0";
    case RegName::r1:
        return "r1";
    case RegName::r2:
        return "r2";
    case RegName::r3:
        return "r3";
    case RegName::r4:
        return "r4";
    case RegName::r5:
        return "r5";
    case RegName::r6:
        return "r6";
    case RegName::r7:
        return "r7";

    case RegName::ar0:
        return "ar0";
    case RegName::ar1:
        return "ar1";
    case RegName::arp0:
        return "arp0";
    case RegName::arp1:
        return "arp1";
    case RegName::arp2:
        return "arp2";
    case RegName::arp3:
        return "arp3";
    case RegName::stt0:
        return "stt0";
    case RegName::stt1:
        return "stt1";
    case RegName::stt2:
        return "stt2";
    case RegName::mod0:
        return "mod0";
    case RegName::mod1:
        return "mod1";
    case RegName::mod2:
        return "mod2";
    case RegName::mod3:
        return "mod3";
    case RegName::cfgi:
        return "cfgi";
    case RegName::cfgj:
        return "cfgj";

    case RegName::y0:
        return "y0";
    case RegName::p:
        return "p*";
    case RegName::pc:
        return "pc";
    case RegName::sp:
        return "sp";
    case RegName::sv:
        return "sv";
    case RegName::lc:
        return "lc";

    case RegName::st0:
        return "st0";
    case RegName::st1:
        return "st1";
    case RegName::st2:
        return "st2";
    default:
        return "[ERROR]" + std::to_string((int)a);
    }
}

template <typename RegT>
std::string R(RegT a) {
    return DsmReg(a.GetName());
}

template <>
std::string R(Px a) {
    return "p" + std::to_string(a.Index());
}

std::string Dsm(Alm alm) {
    switch (alm.GetName()) {
    case AlmOp::Or:
        return "or";
    case AlmOp::And:
        return "and";
    case AlmOp::Xor:
        return "xor";
    case AlmOp::Add:
        return "add";
    case AlmOp::Tst0:
        return "tst0";
    case AlmOp::Tst1:
        return "tst1";
    case AlmOp::Cmp:
        return "cmp";
    case AlmOp::Sub:
        return "sub";
    case AlmOp::Msu:
        return "msu";
    case AlmOp::Addh:
        return "addh";
    case AlmOp::Addl:
        return "addl";
    case AlmOp::Subh:
        return "subh";
    case AlmOp::Subl:
        return "subl";
    case AlmOp::Sqr:
        return "sqr";
    case AlmOp::Sqra:
        return "sqra";
    case AlmOp::Cmpu:
        return "cmpu";
    default:
        return "[ERROR]";
    }
}

std::string Dsm(Alu alu) {
    switch (alu.GetName()) {
    case AlmOp::Or:
        return "or";
    case AlmOp::And:
        return "and";
    case AlmOp::Xor:
        return "xor";
    case AlmOp::Add:
        return "add";
    case AlmOp::Cmp:
        return "cmp";
    case AlmOp::Sub:
        return "sub";
    default:
        return "[ERROR]";
    }
}

std::string Dsm(Alb alb) {
    switch (alb.GetName()) {
    case AlbOp::Set:
        return "set";
    case AlbOp::Rst:
        return "rst";
    case AlbOp::Chng:
        return "chng";
    case AlbOp::Addv:
        return "addv";
    case AlbOp::Tst0:
        return "tst0";
    case AlbOp::Tst1:
        return "tst1";
    case AlbOp::Cmpv:
        return "cmpv";
    case AlbOp::Subv:
        return "subv";
    default:
        return "[ERROR]";
    }
}

std::string Dsm(Moda4 moda4) {
    switch (moda4.GetName()) {
    case ModaOp::Shr:
        return "shr";
    case ModaOp::Shr4:
        return "shr4";
    case ModaOp::Shl:
        return "shl";
    case ModaOp::Shl4:
        return "shl4";
    case ModaOp::Ror:
        return "ror";
    case ModaOp::Rol:
        return "rol";
    case ModaOp::Clr:
        return "clr";
    case ModaOp::Not:
        return "not";
    case ModaOp::Neg:
        return "neg";
    case ModaOp::Rnd:
        return "rnd";
    case ModaOp::Pacr:
        return "pacr";
    case ModaOp::Clrr:
        return "clrr";
    case ModaOp::Inc:
        return "inc";
    case ModaOp::Dec:
        return "dec";
    case ModaOp::Copy:
        return "copy";
    default:
        return "[ERROR]";
    }
}

std::string Dsm(Moda3 moda3) {
    switch (moda3.GetName()) {
    case ModaOp::Shr:
        return "shr";
    case ModaOp::Shr4:
        return "shr4";
    case ModaOp::Shl:
        return "shl";
    case ModaOp::Shl4:
        return "shl4";
    case ModaOp::Ror:
        return "ror";
    case ModaOp::Rol:
        return "rol";
    case ModaOp::Clr:
        return "clr";
    case ModaOp::Clrr:
        return "clrr";
    default:
        return "[ERROR]";
    }
}

std::string Dsm(Mul3 mul) {
    switch (mul.GetName()) {
    case MulOp::Mpy:
        return "mpy";
    case MulOp::Mpysu:
        return "mpysu";
    case MulOp::Mac:
        return "mac";
    case MulOp::Macus:
        return "macus";
    case MulOp::Maa:
        return "maa";
    case MulOp::Macuu:
        return "macuu";
    case MulOp::Macsu:
        return "macsu";
    case MulOp::Maasu:
        return "maasu";
    default:
        return "[ERROR]";
    }
}

std::string Dsm(Mul2 mul) {
    switch (mul.GetName()) {
    case MulOp::Mpy:
        return "mpy";
    case MulOp::Mac:
        return "mac";
    case MulOp::Maa:
        return "maa";
    case MulOp::Macsu:
        return "macsu";
    default:
        return "[ERROR]";
    }
}

std::string Dsm(Cond cond) {
    switch (cond.GetName()) {
    case CondValue::True:
        return "always";
    case CondValue::Eq:
        return "eq";
    case CondValue::Neq:
        return "neq";
    case CondValue::Gt:
        return "gt";
    case CondValue::Ge:
        return "ge";
    case CondValue::Lt:
        return "lt";
    case CondValue::Le:
        return "le";
    case CondValue::Nn:
        return "mn";
    case CondValue::C:
        return "c";
    case CondValue::V:
        return "v";
    case CondValue::E:
        return "e";
    case CondValue::L:
        return "l";
    case CondValue::Nr:
        return "nr";
    case CondValue::Niu0:
        return "niu0";
    case CondValue::Iu0:
        return "iu0";
    case CondValue::Iu1:
        return "iu1";
    default:
        return "[ERROR]";
    }
}

std::string Dsm(Address16 addr) {
    return ToHex(addr.Address32());
}

std::string A18(Address18_16 addr_low, Address18_2 addr_high) {
    return ToHex(Address32(addr_low, addr_high));
}

std::string Dsm(StepZIDS step) {
    switch (step.GetName()) {
    case StepValue::Zero:
        return "";
    case StepValue::Increase:
        return "++";
    case StepValue::Decrease:
        return "--";
    case StepValue::PlusStep:
        return "++s";
    default:
        return "[ERROR]";
    }
}

std::string Dsm(std::string t) {
    return t;
}

template <typename RegT>
std::string MemR(RegT reg, StepZIDS step) {
    return "[" + R(reg) + Dsm(step) + "]";
}

template <typename Reg>
std::string MemG(Reg reg) {
    return "[" + R(reg) + "]";
}

std::string Dsm(CbsCond c) {
    switch (c.GetName()) {
    case CbsCondValue::Ge:
        return "ge";
    case CbsCondValue::Gt:
        return "gt";
    default:
        return "[ERROR]";
    }
}

template <typename... T>
std::vector<std::string> D(T... t) {
    return std::vector<std::string>{Dsm(t)...};
}

std::string Mul(bool x_sign, bool y_sign) {
    return std::string("mpy") + (x_sign ? "sx" : "ux") + (y_sign ? "sy" : "uy");
}

std::string PA(SumBase base, bool sub_p0, bool p0_align, bool sub_p1, bool p1_align) {
    std::string result;
    switch (base) {
    case SumBase::Zero:
        result = "0";
        break;
    case SumBase::Acc:
        result = "acc";
        break;
    case SumBase::Sv:
        result = "sv";
        break;
    case SumBase::SvRnd:
        result = "svr";
        break;
    }
    result += sub_p0 ? "-" : "+";
    result += "p0";
    result += p0_align ? "a" : "";
    result += sub_p1 ? "-" : "+";
    result += "p1";
    result += p1_align ? "a" : "";
    return result;
}

class Disassembler {
public:
    using instruction_return_type = std::vector<std::string>;

    std::vector<std::string> undefined(u16 opcode) {
        return D("[ERROR]");
    }

    std::vector<std::string> nop() {
        return D("nop");
    }

    std::vector<std::string> norm(Ax a, Rn b, StepZIDS bs) {
        return D("norm", R(a), MemR(b, bs));
    }
    std::vector<std::string> swap(SwapType swap) {
        std::string desc;
        switch (swap.GetName()) {
        case SwapTypeValue::a0b0:
            desc = "a0<->b0";
            break;
        case SwapTypeValue::a0b1:
            desc = "a0<->b1";
            break;
        case SwapTypeValue::a1b0:
            desc = "a1<->b0";
            break;
        case SwapTypeValue::a1b1:
            desc = "a1<->b1";
            break;
        case SwapTypeValue::a0b0a1b1:
            desc = "a<->b";
            break;
        case SwapTypeValue::a0b1a1b0:
            desc = "a-x-b";
            break;
        case SwapTypeValue::a0b0a1:
            desc = "a0->b0->a1";
            break;
        case SwapTypeValue::a0b1a1:
            desc = "a0->b1->a1";
            break;
        case SwapTypeValue::a1b0a0:
            desc = "a1->b0->a0";
            break;
        case SwapTypeValue::a1b1a0:
            desc = "a1->b1->a0";
            break;
        case SwapTypeValue::b0a0b1:
            desc = "b0->a0->b1";
            break;
        case SwapTypeValue::b0a1b1:
            desc = "b0->a1->b1";
            break;
        case SwapTypeValue::b1a0b0:
            desc = "b1->a0->b0";
            break;
        case SwapTypeValue::b1a1b0:
            desc = "b1->a1->b0";
            break;
        default:
            desc = "[ERROR]";
        }
        return D("swap", desc);
    }
    std::vector<std::string> trap() {
        return D("trap");
    }

    std::vector<std::string> alm(Alm op, MemImm8 a, Ax b) {
        return D(op, a, R(b));
    }
    std::vector<std::string> alm(Alm op, Rn a, StepZIDS as, Ax b) {
        return D(op, MemR(a, as), R(b));
    }
    std::vector<std::string> alm(Alm op, Register a, Ax b) {
        return D(op, R(a), R(b));
    }
    std::vector<std::string> alm_r6(Alm op, Ax b) {
        return D(op, "r6", R(b));
    }

    std::vector<std::string> alu(Alu op, MemImm16 a, Ax b) {
        return D(op, a, R(b));
    }
    std::vector<std::string> alu(Alu op, MemR7Imm16 a, Ax b) {
        return D(op, a, R(b));
    }
    std::vector<std::string> alu(Alu op, Imm16 a, Ax b) {
        return D(op, a, R(b));
    }
    std::vector<std::string> alu(Alu op, Imm8 a, Ax b) {
        return D(op, a, R(b));
    }
    std::vector<std::string> alu(Alu op, MemR7Imm7s a, Ax b) {
        return D(op, a, R(b));
    }

    std::vector<std::string> or_(Ab a, Ax b, Ax c) {
        return D("or", R(a), R(b), R(c));
    }
    std::vector<std::string> or_(Ax a, Bx b, Ax c) {
        return D("or", R(a), R(b), R(c));
    }
    std::vector<std::string> or_(Bx a, Bx b, Ax c) {
        return D("or", R(a), R(b), R(c));
    }

    std::vector<std::string> alb(Alb op, Imm16 a, MemImm8 b) {
        return D(op, a, b);
    }
    std::vector<std::string> alb(Alb op, Imm16 a, Rn b, StepZIDS bs) {
        return D(op, a, MemR(b, bs));
    }
    std::vector<std::string> alb(Alb op, Imm16 a, Register b) {
        return D(op, a, R(b));
    }
    std::vector<std::string> alb_r6(Alb op, Imm16 a) {
        return D(op, a, "r6");
    }
    std::vector<std::string> alb(Alb op, Imm16 a, SttMod b) {
        return D(op, a, R(b));
    }

    std::vector<std::string> add(Ab a, Bx b) {
        return D("add", R(a), R(b));
    }
    std::vector<std::string> add(Bx a, Ax b) {
        return D("add", R(a), R(b));
    }
    std::vector<std::string> add_p1(Ax b) {
        return D("add", "p1", R(b));
    }
    std::vector<std::string> add(Px a, Bx b) {
        return D("add", R(a), R(b));
    }

    std::vector<std::string> sub(Ab a, Bx b) {
        return D("sub", R(a), R(b));
    }
    std::vector<std::string> sub(Bx a, Ax b) {
        return D("sub", R(a), R(b));
    }
    std::vector<std::string> sub_p1(Ax b) {
        return D("sub", "p1", R(b));
    }
    std::vector<std::string> sub(Px a, Bx b) {
        return D("sub", R(a), R(b));
    }

    std::vector<std::string> app(Ab c, SumBase base, bool sub_p0, bool p0_align, bool sub_p1,
                                 bool p1_align) {
        return D(PA(base, sub_p0, p0_align, sub_p1, p1_align), R(c));
    }

    std::vector<std::string> add_add(ArpRn1 a, ArpStep1 asi, ArpStep1 asj, Ab b) {
        return D("add||add", MemARPSJ(a, asj), MemARPSI(a, asi), R(b));
    }
    std::vector<std::string> add_sub(ArpRn1 a, ArpStep1 asi, ArpStep1 asj, Ab b) {
        return D("add||sub", MemARPSJ(a, asj), MemARPSI(a, asi), R(b));
    }
    std::vector<std::string> sub_add(ArpRn1 a, ArpStep1 asi, ArpStep1 asj, Ab b) {
        return D("sub||add", MemARPSJ(a, asj), MemARPSI(a, asi), R(b));
    }
    std::vector<std::string> sub_sub(ArpRn1 a, ArpStep1 asi, ArpStep1 asj, Ab b) {
        return D("sub||sub", MemARPSJ(a, asj), MemARPSI(a, asi), R(b));
    }

    std::vector<std::string> add_sub_sv(ArRn1 a, ArStep1 as, Ab b) {
        return D("add||sub", MemARS(a, as), "sv", R(b));
    }
    std::vector<std::string> sub_add_sv(ArRn1 a, ArStep1 as, Ab b) {
        return D("sub||add", MemARS(a, as), "sv", R(b));
    }

    std::vector<std::string> sub_add_i_mov_j_sv(ArpRn1 a, ArpStep1 asi, ArpStep1 asj, Ab b) {
        return D("sub||add", MemARPSI(a, asi), R(b), "||mov", MemARPSJ(a, asj), "sv");
    }
    std::vector<std::string> sub_add_j_mov_i_sv(ArpRn1 a, ArpStep1 asi, ArpStep1 asj, Ab b) {
        return D("sub||add", MemARPSJ(a, asj), R(b), "||mov", MemARPSI(a, asi), "sv");
    }
    std::vector<std::string> add_sub_i_mov_j(ArpRn1 a, ArpStep1 asi, ArpStep1 asj, Ab b) {
        return D("add_sub", MemARPSI(a, asi), R(b), "||mov", R(b), MemARPSJ(a, asj));
    }
    std::vector<std::string> add_sub_j_mov_i(ArpRn1 a, ArpStep1 asi, ArpStep1 asj, Ab b) {
        return D("add_sub", MemARPSJ(a, asj), R(b), "||mov", R(b), MemARPSI(a, asi));
    }

    std::vector<std::string> moda4(Moda4 op, Ax a, Cond cond) {
        return D(op, R(a), cond);
    }

    std::vector<std::string> moda3(Moda3 op, Bx a, Cond cond) {
        return D(op, R(a), cond);
    }

    std::vector<std::string> pacr1(Ax a) {
        return D("pacr p1", R(a));
    }
    std::vector<std::string> clr(Ab a, Ab b) {
        return D("clr", R(a), R(b));
    }
    std::vector<std::string> clrr(Ab a, Ab b) {
        return D("clrr", R(a), R(b));
    }

    std::vector<std::string> bkrep(Imm8 a, Address16 addr) {
        return D("bkrep", a, addr);
    }
    std::vector<std::string> bkrep(Register a, Address18_16 addr_low, Address18_2 addr_high) {
        return D("bkrep", R(a), A18(addr_low, addr_high));
    }
    std::vector<std::string> bkrep_r6(Address18_16 addr_low, Address18_2 addr_high) {
        return D("bkrep", "r6", A18(addr_low, addr_high));
    }
    std::vector<std::string> bkreprst(ArRn2 a) {
        return D("bkreprst", MemAR(a));
    }
    std::vector<std::string> bkreprst_memsp() {
        return D("bkreprst", "[sp]");
    }
    std::vector<std::string> bkrepsto(ArRn2 a) {
        return D("bkrepsto", MemAR(a));
    }
    std::vector<std::string> bkrepsto_memsp() {
        return D("bkrepsto", "[sp]");
    }

    std::vector<std::string> banke(BankFlags flags) {
        std::vector<std::string> s{"banke"};
        if (flags.R0())
            s.push_back("r0");
        if (flags.R1())
            s.push_back("r1");
        if (flags.R4())
            s.push_back("r4");
        if (flags.Cfgi())
            s.push_back("cfgi");
        if (flags.R7())
            s.push_back("r7");
        if (flags.Cfgj())
            s.push_back("cfgj");
        return s;
    }
    std::vector<std::string> bankr() {
        return D("bankr");
    }
    std::vector<std::string> bankr(Ar a) {
        return D("bankr", R(a));
    }
    std::vector<std::string> bankr(Ar a, Arp b) {
        return D("bankr", R(a), R(b));
    }
    std::vector<std::string> bankr(Arp a) {
        return D("bankr", R(a));
    }

    std::vector<std::string> bitrev(Rn a) {
        return D("bitrev", R(a));
    }
    std::vector<std::string> bitrev_dbrv(Rn a) {
        return D("bitrev", R(a), "dbrv");
    }
    std::vector<std::string> bitrev_ebrv(Rn a) {
        return D("bitrev", R(a), "ebrv");
    }

    std::vector<std::string> br(Address18_16 addr_low, Address18_2 addr_high, Cond cond) {
        return D("br", A18(addr_low, addr_high), cond);
    }

    std::vector<std::string> brr(RelAddr7 addr, Cond cond) {
        return D("brr", ToHex((u16)addr.Relative32()), cond);
    }

    std::vector<std::string> break_() {
        return D("break");
    }

    std::vector<std::string> call(Address18_16 addr_low, Address18_2 addr_high, Cond cond) {
        return D("call", A18(addr_low, addr_high), cond);
    }
    std::vector<std::string> calla(Axl a) {
        return D("calla", R(a));
    }
    std::vector<std::string> calla(Ax a) {
        return D("calla", R(a));
    }
    std::vector<std::string> callr(RelAddr7 addr, Cond cond) {
        return D("callr", ToHex((u16)addr.Relative32()), cond);
    }

    std::vector<std::string> cntx_s() {
        return D("cntx", "s");
    }
    std::vector<std::string> cntx_r() {
        return D("cntx", "r");
    }

    std::vector<std::string> ret(Cond c) {
        return D("ret", c);
    }
    std::vector<std::string> retd() {
        return D("retd");
    }
    std::vector<std::string> reti(Cond c) {
        return D("reti", c);
    }
    std::vector<std::string> retic(Cond c) {
        return D("retic", c);
    }
    std::vector<std::string> retid() {
        return D("retid");
    }
    std::vector<std::string> retidc() {
        return D("retidc");
    }
    std::vector<std::string> rets(Imm8 a) {
        return D("rets", a);
    }

    std::vector<std::string> load_ps(Imm2 a) {
        return D("load", a, "ps");
    }
    std::vector<std::string> load_stepi(Imm7s a) {
        return D("load", a, "stepi");
    }
    std::vector<std::string> load_stepj(Imm7s a) {
        return D("load", a, "stepj");
    }
    std::vector<std::string> load_page(Imm8 a) {
        return D("load", a, "page");
    }
    std::vector<std::string> load_modi(Imm9 a) {
        return D("load", a, "modi");
    }
    std::vector<std::string> load_modj(Imm9 a) {
        return D("load", a, "modj");
    }
    std::vector<std::string> load_movpd(Imm2 a) {
        return D("load", a, "movpd");
    }
    std::vector<std::string> load_ps01(Imm4 a) {
        return D("load", a, "ps01");
    }

    std::vector<std::string> push(Imm16 a) {
        return D("push", a);
    }
    std::vector<std::string> push(Register a) {
        return D("push", R(a));
    }
    std::vector<std::string> push(Abe a) {
        return D("push", R(a));
    }
    std::vector<std::string> push(ArArpSttMod a) {
        return D("push", R(a));
    }
    std::vector<std::string> push_prpage() {
        return D("push", "prpage");
    }
    std::vector<std::string> push(Px a) {
        return D("push", R(a));
    }
    std::vector<std::string> push_r6() {
        return D("push", "r6");
    }
    std::vector<std::string> push_repc() {
        return D("push", "repc");
    }
    std::vector<std::string> push_x0() {
        return D("push", "x0");
    }
    std::vector<std::string> push_x1() {
        return D("push", "x1");
    }
    std::vector<std::string> push_y1() {
        return D("push", "y1");
    }
    std::vector<std::string> pusha(Ax a) {
        return D("pusha", R(a));
    }
    std::vector<std::string> pusha(Bx a) {
        return D("pusha", R(a));
    }

    std::vector<std::string> pop(Register a) {
        return D("pop", R(a));
    }
    std::vector<std::string> pop(Abe a) {
        return D("pop", R(a));
    }
    std::vector<std::string> pop(ArArpSttMod a) {
        return D("pop", R(a));
    }
    std::vector<std::string> pop(Bx a) {
        return D("pop", R(a));
    }
    std::vector<std::string> pop_prpage() {
        return D("pop", "prpage");
    }
    std::vector<std::string> pop(Px a) {
        return D("pop", R(a));
    }
    std::vector<std::string> pop_r6() {
        return D("pop", "r6");
    }
    std::vector<std::string> pop_repc() {
        return D("pop", "repc");
    }
    std::vector<std::string> pop_x0() {
        return D("pop", "x0");
    }
    std::vector<std::string> pop_x1() {
        return D("pop", "x1");
    }
    std::vector<std::string> pop_y1() {
        return D("pop", "y1");
    }
    std::vector<std::string> popa(Ab a) {
        return D("popa", R(a));
    }

    std::vector<std::string> rep(Imm8 a) {
        return D("rep", a);
    }
    std::vector<std::string> rep(Register a) {
        return D("rep", R(a));
    }
    std::vector<std::string> rep_r6() {
        return D("rep", "r6");
    }

    std::vector<std::string> shfc(Ab a, Ab b, Cond cond) {
        return D("shfc", R(a), R(b), cond);
    }
    std::vector<std::string> shfi(Ab a, Ab b, Imm6s s) {
        return D("shfi", R(a), R(b), s);
    }

    std::vector<std::string> tst4b(ArRn2 b, ArStep2 bs) {
        return D("tst4b", "a0l", MemARS(b, bs));
    }
    std::vector<std::string> tst4b(ArRn2 b, ArStep2 bs, Ax c) {
        return D("tst4b", "a0l", MemARS(b, bs), R(c));
    }
    std::vector<std::string> tstb(MemImm8 a, Imm4 b) {
        return D("tstb", a, b);
    }
    std::vector<std::string> tstb(Rn a, StepZIDS as, Imm4 b) {
        return D("tstb", MemR(a, as), b);
    }
    std::vector<std::string> tstb(Register a, Imm4 b) {
        return D("tstb", R(a), b);
    }
    std::vector<std::string> tstb_r6(Imm4 b) {
        return D("tstb", "r6", b);
    }
    std::vector<std::string> tstb(SttMod a, Imm16 b) {
        return D("tstb", R(a), b);
    }

    std::vector<std::string> and_(Ab a, Ab b, Ax c) {
        return D("and", R(a), R(b), R(c));
    }

    std::vector<std::string> dint() {
        return D("dint");
    }
    std::vector<std::string> eint() {
        return D("eint");
    }

    std::vector<std::string> mul(Mul3 op, Rn y, StepZIDS ys, Imm16 x, Ax a) {
        return D(op, MemR(y, ys), x, R(a));
    }
    std::vector<std::string> mul_y0(Mul3 op, Rn x, StepZIDS xs, Ax a) {
        return D(op, "y0", MemR(x, xs), R(a));
    }
    std::vector<std::string> mul_y0(Mul3 op, Register x, Ax a) {
        return D(op, "y0", R(x), R(a));
    }
    std::vector<std::string> mul(Mul3 op, R45 y, StepZIDS ys, R0123 x, StepZIDS xs, Ax a) {
        return D(op, MemR(y, ys), MemR(x, xs), R(a));
    }
    std::vector<std::string> mul_y0_r6(Mul3 op, Ax a) {
        return D(op, "y0", "r6", R(a));
    }
    std::vector<std::string> mul_y0(Mul2 op, MemImm8 x, Ax a) {
        return D(op, "y0", x, R(a));
    }

    std::vector<std::string> mpyi(Imm8s x) {
        return D("mpyi", "y0", x);
    }

    std::vector<std::string> msu(R45 y, StepZIDS ys, R0123 x, StepZIDS xs, Ax a) {
        return D("msu", MemR(y, ys), MemR(x, xs), R(a));
    }
    std::vector<std::string> msu(Rn y, StepZIDS ys, Imm16 x, Ax a) {
        return D("msu", MemR(y, ys), x, R(a));
    }
    std::vector<std::string> msusu(ArRn2 x, ArStep2 xs, Ax a) {
        return D("msusu", "y0", MemARS(x, xs), R(a));
    }
    std::vector<std::string> mac_x1to0(Ax a) {
        return D("mac", "y0", "x1->x0", R(a));
    }
    std::vector<std::string> mac1(ArpRn1 xy, ArpStep1 xis, ArpStep1 yjs, Ax a) {
        return D("mac1", MemARPSJ(xy, yjs), MemARPSI(xy, xis), R(a));
    }

    std::vector<std::string> modr(Rn a, StepZIDS as) {
        return D("modr", MemR(a, as));
    }
    std::vector<std::string> modr_dmod(Rn a, StepZIDS as) {
        return D("modr", MemR(a, as), "dmod");
    }
    std::vector<std::string> modr_i2(Rn a) {
        return D("modr", R(a), "+2");
    }
    std::vector<std::string> modr_i2_dmod(Rn a) {
        return D("modr", R(a), "+2", "dmod");
    }
    std::vector<std::string> modr_d2(Rn a) {
        return D("modr", R(a), "-2");
    }
    std::vector<std::string> modr_d2_dmod(Rn a) {
        return D("modr", R(a), "-2", "dmod");
    }
    std::vector<std::string> modr_eemod(ArpRn2 a, ArpStep2 asi, ArpStep2 asj) {
        return D("modr", MemARPSI(a, asi), MemARPSJ(a, asj), "eemod");
    }
    std::vector<std::string> modr_edmod(ArpRn2 a, ArpStep2 asi, ArpStep2 asj) {
        return D("modr", MemARPSI(a, asi), MemARPSJ(a, asj), "edmod");
    }
    std::vector<std::string> modr_demod(ArpRn2 a, ArpStep2 asi, ArpStep2 asj) {
        return D("modr", MemARPSI(a, asi), MemARPSJ(a, asj), "demod");
    }
    std::vector<std::string> modr_ddmod(ArpRn2 a, ArpStep2 asi, ArpStep2 asj) {
        return D("modr", MemARPSI(a, asi), MemARPSJ(a, asj), "ddmod");
    }

    std::vector<std::string> movd(R0123 a, StepZIDS as, R45 b, StepZIDS bs) {
        return D("mov d->p", MemR(a, as), MemR(b, bs));
    }
    std::vector<std::string> movp(Axl a, Register b) {
        return D("mov p->r", MemG(a), R(b));
    }
    std::vector<std::string> movp(Ax a, Register b) {
        return D("mov p->r", MemG(a), R(b));
    }
    std::vector<std::string> movp(Rn a, StepZIDS as, R0123 b, StepZIDS bs) {
        return D("mov p->d", MemR(a, as), MemR(b, bs));
    }
    std::vector<std::string> movpdw(Ax a) {
        return D("mov p->pc", MemG(a));
    }

    std::vector<std::string> mov(Ab a, Ab b) {
        return D("mov", R(a), R(b));
    }
    std::vector<std::string> mov_dvm(Abl a) {
        return D("mov", R(a), "dvm");
    }
    std::vector<std::string> mov_x0(Abl a) {
        return D("mov", R(a), "x0");
    }
    std::vector<std::string> mov_x1(Abl a) {
        return D("mov", R(a), "x1");
    }
    std::vector<std::string> mov_y1(Abl a) {
        return D("mov", R(a), "y1");
    }
    std::vector<std::string> mov(Ablh a, MemImm8 b) {
        return D("mov", R(a), b);
    }
    std::vector<std::string> mov(Axl a, MemImm16 b) {
        return D("mov", R(a), b);
    }
    std::vector<std::string> mov(Axl a, MemR7Imm16 b) {
        return D("mov", R(a), b);
    }
    std::vector<std::string> mov(Axl a, MemR7Imm7s b) {
        return D("mov", R(a), b);
    }
    std::vector<std::string> mov(MemImm16 a, Ax b) {
        return D("mov", a, R(b));
    }
    std::vector<std::string> mov(MemImm8 a, Ab b) {
        return D("mov", a, R(b));
    }
    std::vector<std::string> mov(MemImm8 a, Ablh b) {
        return D("mov", a, R(b));
    }
    std::vector<std::string> mov_eu(MemImm8 a, Axh b) {
        return D("mov", a, R(b), "eu");
    }
    std::vector<std::string> mov(MemImm8 a, RnOld b) {
        return D("mov", a, R(b));
    }
    std::vector<std::string> mov_sv(MemImm8 a) {
        return D("mov", a, "sv");
    }
    std::vector<std::string> mov_dvm_to(Ab b) {
        return D("mov", "dvm", R(b));
    }
    std::vector<std::string> mov_icr_to(Ab b) {
        return D("mov", "icr", R(b));
    }
    std::vector<std::string> mov(Imm16 a, Bx b) {
        return D("mov", a, R(b));
    }
    std::vector<std::string> mov(Imm16 a, Register b) {
        return D("mov", a, R(b));
    }
    std::vector<std::string> mov_icr(Imm5 a) {
        return D("mov", a, "icr");
    }
    std::vector<std::string> mov(Imm8s a, Axh b) {
        return D("mov", a, R(b));
    }
    std::vector<std::string> mov(Imm8s a, RnOld b) {
        return D("mov", a, R(b));
    }
    std::vector<std::string> mov_sv(Imm8s a) {
        return D("mov", a, "sv");
    }
    std::vector<std::string> mov(Imm8 a, Axl b) {
        return D("mov", a, R(b));
    }
    std::vector<std::string> mov(MemR7Imm16 a, Ax b) {
        return D("mov", a, R(b));
    }
    std::vector<std::string> mov(MemR7Imm7s a, Ax b) {
        return D("mov", a, R(b));
    }
    std::vector<std::string> mov(Rn a, StepZIDS as, Bx b) {
        return D("mov", MemR(a, as), R(b));
    }
    std::vector<std::string> mov(Rn a, StepZIDS as, Register b) {
        return D("mov", MemR(a, as), R(b));
    }
    std::vector<std::string> mov_memsp_to(Register b) {
        return D("mov", "[sp]", R(b));
    }
    std::vector<std::string> mov_mixp_to(Register b) {
        return D("mov", "mixp", R(b));
    }
    std::vector<std::string> mov(RnOld a, MemImm8 b) {
        return D("mov", R(a), b);
    }
    std::vector<std::string> mov_icr(Register a) {
        return D("mov", R(a), "icr");
    }
    std::vector<std::string> mov_mixp(Register a) {
        return D("mov", R(a), "mixp");
    }
    std::vector<std::string> mov(Register a, Rn b, StepZIDS bs) {
        return D("mov", R(a), MemR(b, bs));
    }
    std::vector<std::string> mov(Register a, Bx b) {
        std::string a_mark;
        if (a.GetName() == RegName::a0 || a.GetName() == RegName::a1) {
            a_mark = "?";
        }
        return D("mov" + a_mark, R(a), R(b));
    }
    std::vector<std::string> mov(Register a, Register b) {
        return D("mov", R(a), R(b));
    }
    std::vector<std::string> mov_repc_to(Ab b) {
        return D("mov", "repc", R(b));
    }
    std::vector<std::string> mov_sv_to(MemImm8 b) {
        return D("mov", "sv", b);
    }
    std::vector<std::string> mov_x0_to(Ab b) {
        return D("mov", "x0", R(b));
    }
    std::vector<std::string> mov_x1_to(Ab b) {
        return D("mov", "x1", R(b));
    }
    std::vector<std::string> mov_y1_to(Ab b) {
        return D("mov", "y1", R(b));
    }
    std::vector<std::string> mov(Imm16 a, ArArp b) {
        return D("mov", a, R(b));
    }
    std::vector<std::string> mov_r6(Imm16 a) {
        return D("mov", a, "r6");
    }
    std::vector<std::string> mov_repc(Imm16 a) {
        return D("mov", a, "repc");
    }
    std::vector<std::string> mov_stepi0(Imm16 a) {
        return D("mov", a, "stepi0");
    }
    std::vector<std::string> mov_stepj0(Imm16 a) {
        return D("mov", a, "stepj0");
    }
    std::vector<std::string> mov(Imm16 a, SttMod b) {
        return D("mov", a, R(b));
    }
    std::vector<std::string> mov_prpage(Imm4 a) {
        return D("mov", a, "prpage");
    }

    std::vector<std::string> mov_a0h_stepi0() {
        return D("mov", "a0h", "stepi0");
    }
    std::vector<std::string> mov_a0h_stepj0() {
        return D("mov", "a0h", "stepj0");
    }
    std::vector<std::string> mov_stepi0_a0h() {
        return D("mov", "stepi0", "a0h");
    }
    std::vector<std::string> mov_stepj0_a0h() {
        return D("mov", "stepj0", "a0h");
    }

    std::vector<std::string> mov_prpage(Abl a) {
        return D("mov", R(a), "prpage");
    }
    std::vector<std::string> mov_repc(Abl a) {
        return D("mov", R(a), "repc");
    }
    std::vector<std::string> mov(Abl a, ArArp b) {
        return D("mov", R(a), R(b));
    }
    std::vector<std::string> mov(Abl a, SttMod b) {
        return D("mov", R(a), R(b));
    }

    std::vector<std::string> mov_prpage_to(Abl b) {
        return D("mov", "prpage", R(b));
    }
    std::vector<std::string> mov_repc_to(Abl b) {
        return D("mov", "repc", R(b));
    }
    std::vector<std::string> mov(ArArp a, Abl b) {
        return D("mov", R(a), R(b));
    }
    std::vector<std::string> mov(SttMod a, Abl b) {
        return D("mov", R(a), R(b));
    }

    std::vector<std::string> mov_repc_to(ArRn1 b, ArStep1 bs) {
        return D("mov", "repc", MemARS(b, bs));
    }
    std::vector<std::string> mov(ArArp a, ArRn1 b, ArStep1 bs) {
        return D("mov", R(a), MemARS(b, bs));
    }
    std::vector<std::string> mov(SttMod a, ArRn1 b, ArStep1 bs) {
        return D("mov", R(a), MemARS(b, bs));
    }

    std::vector<std::string> mov_repc(ArRn1 a, ArStep1 as) {
        return D("mov", MemARS(a, as), "repc");
    }
    std::vector<std::string> mov(ArRn1 a, ArStep1 as, ArArp b) {
        return D("mov", MemARS(a, as), R(b));
    }
    std::vector<std::string> mov(ArRn1 a, ArStep1 as, SttMod b) {
        return D("mov", MemARS(a, as), R(b));
    }

    std::vector<std::string> mov_repc_to(MemR7Imm16 b) {
        return D("mov", "repc", b);
    }
    std::vector<std::string> mov(ArArpSttMod a, MemR7Imm16 b) {
        return D("mov", R(a), b);
    }

    std::vector<std::string> mov_repc(MemR7Imm16 a) {
        return D("mov", a, "repc");
    }
    std::vector<std::string> mov(MemR7Imm16 a, ArArpSttMod b) {
        return D("mov", a, R(b));
    }

    std::vector<std::string> mov_pc(Ax a) {
        return D("mov", R(a), "pc");
    }
    std::vector<std::string> mov_pc(Bx a) {
        return D("mov", R(a), "pc");
    }

    std::vector<std::string> mov_mixp_to(Bx b) {
        return D("mov", "mixp", R(b));
    }
    std::vector<std::string> mov_mixp_r6() {
        return D("mov", "mixp", "r6");
    }
    std::vector<std::string> mov_p0h_to(Bx b) {
        return D("mov", "p0h", R(b));
    }
    std::vector<std::string> mov_p0h_r6() {
        return D("mov", "p0h", "r6");
    }
    std::vector<std::string> mov_p0h_to(Register b) {
        return D("mov", "p0h", R(b));
    }
    std::vector<std::string> mov_p0(Ab a) {
        return D("mov", R(a), "p0");
    }
    std::vector<std::string> mov_p1_to(Ab b) {
        return D("mov", "p1", R(b));
    }

    std::vector<std::string> mov2(Px a, ArRn2 b, ArStep2 bs) {
        return D("mov", R(a), MemARS(b, bs));
    }
    std::vector<std::string> mov2s(Px a, ArRn2 b, ArStep2 bs) {
        return D("mov s", R(a), MemARS(b, bs));
    }
    std::vector<std::string> mov2(ArRn2 a, ArStep2 as, Px b) {
        return D("mov", MemARS(a, as), R(b));
    }
    std::vector<std::string> mova(Ab a, ArRn2 b, ArStep2 bs) {
        return D("mov", R(a), MemARS(b, bs));
    }
    std::vector<std::string> mova(ArRn2 a, ArStep2 as, Ab b) {
        return D("mov", MemARS(a, as), R(b));
    }

    std::vector<std::string> mov_r6_to(Bx b) {
        return D("mov", "r6", R(b));
    }
    std::vector<std::string> mov_r6_mixp() {
        return D("mov", "r6", "mixp");
    }
    std::vector<std::string> mov_r6_to(Register b) {
        return D("mov", "r6", R(b));
    }
    std::vector<std::string> mov_r6(Register a) {
        return D("mov", R(a), "r6");
    }
    std::vector<std::string> mov_memsp_r6() {
        return D("mov", "[sp]", "r6");
    }
    std::vector<std::string> mov_r6_to(Rn b, StepZIDS bs) {
        return D("mov", "r6", MemR(b, bs));
    }
    std::vector<std::string> mov_r6(Rn a, StepZIDS as) {
        return D("mov", MemR(a, as), "r6");
    }

    std::vector<std::string> movs(MemImm8 a, Ab b) {
        return D("movs", a, R(b));
    }
    std::vector<std::string> movs(Rn a, StepZIDS as, Ab b) {
        return D("movs", MemR(a, as), R(b));
    }
    std::vector<std::string> movs(Register a, Ab b) {
        return D("movs", R(a), R(b));
    }
    std::vector<std::string> movs_r6_to(Ax b) {
        return D("movs", "r6", R(b));
    }
    std::vector<std::string> movsi(RnOld a, Ab b, Imm5s s) {
        return D("movsi", R(a), R(b), s);
    }

    std::vector<std::string> mov2_axh_m_y0_m(Axh a, ArRn2 b, ArStep2 bs) {
        return D("mov||mov", R(a), "y0", MemARS(b, bs));
    }
    std::vector<std::string> mov2_ax_mij(Ab a, ArpRn1 b, ArpStep1 bsi, ArpStep1 bsj) {
        return D("mov hilj", R(a), MemARPSI(b, bsi), MemARPSJ(b, bsj));
    }
    std::vector<std::string> mov2_ax_mji(Ab a, ArpRn1 b, ArpStep1 bsi, ArpStep1 bsj) {
        return D("mov lihj", R(a), MemARPSI(b, bsi), MemARPSJ(b, bsj));
    }
    std::vector<std::string> mov2_mij_ax(ArpRn1 a, ArpStep1 asi, ArpStep1 asj, Ab b) {
        return D("mov hilj", MemARPSI(a, asi), MemARPSJ(a, asj), R(b));
    }
    std::vector<std::string> mov2_mji_ax(ArpRn1 a, ArpStep1 asi, ArpStep1 asj, Ab b) {
        return D("mov lihj", MemARPSI(a, asi), MemARPSJ(a, asj), R(b));
    }
    std::vector<std::string> mov2_abh_m(Abh ax, Abh ay, ArRn1 b, ArStep1 bs) {
        return D("mov||mov", R(ax), R(ay), MemARS(b, bs));
    }
    std::vector<std::string> exchange_iaj(Axh a, ArpRn2 b, ArpStep2 bsi, ArpStep2 bsj) {
        return D("exchange i->a->j", R(a), MemARPSI(b, bsi), MemARPSJ(b, bsj));
    }
    std::vector<std::string> exchange_riaj(Axh a, ArpRn2 b, ArpStep2 bsi, ArpStep2 bsj) {
        return D("exchange ri->a->j", R(a), MemARPSI(b, bsi), MemARPSJ(b, bsj));
    }
    std::vector<std::string> exchange_jai(Axh a, ArpRn2 b, ArpStep2 bsi, ArpStep2 bsj) {
        return D("exchange j->a->i", R(a), MemARPSI(b, bsi), MemARPSJ(b, bsj));
    }
    std::vector<std::string> exchange_rjai(Axh a, ArpRn2 b, ArpStep2 bsi, ArpStep2 bsj) {
        return D("exchange rj->a->i", R(a), MemARPSI(b, bsi), MemARPSJ(b, bsj));
    }

    std::vector<std::string> movr(ArRn2 a, ArStep2 as, Abh b) {
        return D("movr", MemARS(a, as), R(b));
    }
    std::vector<std::string> movr(Rn a, StepZIDS as, Ax b) {
        return D("movr", MemR(a, as), R(b));
    }
    std::vector<std::string> movr(Register a, Ax b) {
        return D("movr", R(a), R(b));
    }
    std::vector<std::string> movr(Bx a, Ax b) {
        return D("movr", R(a), R(b));
    }
    std::vector<std::string> movr_r6_to(Ax b) {
        return D("movr", "r6", R(b));
    }

    std::vector<std::string> exp(Bx a) {
        return D("exp", R(a));
    }
    std::vector<std::string> exp(Bx a, Ax b) {
        return D("exp", R(a), R(b));
    }
    std::vector<std::string> exp(Rn a, StepZIDS as) {
        return D("exp", MemR(a, as));
    }
    std::vector<std::string> exp(Rn a, StepZIDS as, Ax b) {
        return D("exp", MemR(a, as), R(b));
    }
    std::vector<std::string> exp(Register a) {
        return D("exp", R(a));
    }
    std::vector<std::string> exp(Register a, Ax b) {
        return D("exp", R(a), R(b));
    }
    std::vector<std::string> exp_r6() {
        return D("exp", "r6");
    }
    std::vector<std::string> exp_r6(Ax b) {
        return D("exp", "r6", R(b));
    }

    std::vector<std::string> lim(Ax a, Ax b) {
        return D("lim", R(a), R(b));
    }

    std::vector<std::string> vtrclr0() {
        return D("vtrclr0");
    }
    std::vector<std::string> vtrclr1() {
        return D("vtrclr1");
    }
    std::vector<std::string> vtrclr() {
        return D("vtrclr");
    }
    std::vector<std::string> vtrmov0(Axl a) {
        return D("vtrmov0", R(a));
    }
    std::vector<std::string> vtrmov1(Axl a) {
        return D("vtrmov1", R(a));
    }
    std::vector<std::string> vtrmov(Axl a) {
        return D("vtrmov", R(a));
    }
    std::vector<std::string> vtrshr() {
        return D("vtrshr");
    }

    std::vector<std::string> clrp0() {
        return D("clr0");
    }
    std::vector<std::string> clrp1() {
        return D("clr1");
    }
    std::vector<std::string> clrp() {
        return D("clr");
    }

    std::vector<std::string> max_ge(Ax a, StepZIDS bs) {
        return D("max_ge", R(a), "^", "r0", bs);
    }
    std::vector<std::string> max_gt(Ax a, StepZIDS bs) {
        return D("max_gt", R(a), "^", "r0", bs);
    }
    std::vector<std::string> min_le(Ax a, StepZIDS bs) {
        return D("min_le", R(a), "^", "r0", bs);
    }
    std::vector<std::string> min_lt(Ax a, StepZIDS bs) {
        return D("min_lt", R(a), "^", "r0", bs);
    }

    std::vector<std::string> max_ge_r0(Ax a, StepZIDS bs) {
        return D("max_ge", R(a), "[r0]", bs);
    }
    std::vector<std::string> max_gt_r0(Ax a, StepZIDS bs) {
        return D("max_gt", R(a), "[r0]", bs);
    }
    std::vector<std::string> min_le_r0(Ax a, StepZIDS bs) {
        return D("min_le", R(a), "[r0]", bs);
    }
    std::vector<std::string> min_lt_r0(Ax a, StepZIDS bs) {
        return D("min_lt", R(a), "[r0]", bs);
    }
    std::vector<std::string> divs(MemImm8 a, Ax b) {
        return D("divs", a, R(b));
    }

    std::vector<std::string> sqr_sqr_add3(Ab a, Ab b) {
        return D("sqr h||l", R(a), "||add3", R(b));
    }
    std::vector<std::string> sqr_sqr_add3(ArRn2 a, ArStep2 as, Ab b) {
        return D("sqr h||l", MemARS(a, as), "||add3", R(b));
    }
    std::vector<std::string> sqr_mpysu_add3a(Ab a, Ab b) {
        return D("sqr h||mpysu hl", R(a), "||add3a", R(b));
    }

    std::vector<std::string> cmp(Ax a, Bx b) {
        return D("cmp", R(a), R(b));
    }
    std::vector<std::string> cmp_b0_b1() {
        return D("cmp", "b0", "b1");
    }
    std::vector<std::string> cmp_b1_b0() {
        return D("cmp", "b1", "b0");
    }
    std::vector<std::string> cmp(Bx a, Ax b) {
        return D("cmp", R(a), R(b));
    }
    std::vector<std::string> cmp_p1_to(Ax b) {
        return D("cmp", "p1", R(b));
    }

    std::vector<std::string> max2_vtr(Ax a) {
        return D("max h||l", R(a), "||vtrshr");
    }
    std::vector<std::string> min2_vtr(Ax a) {
        return D("min h||l", R(a), "||vtrshr");
    }
    std::vector<std::string> max2_vtr(Ax a, Bx b) {
        return D("max h||l", R(a), R(b), "||vtrshr");
    }
    std::vector<std::string> min2_vtr(Ax a, Bx b) {
        return D("min h||l", R(a), R(b), "||vtrshr");
    }
    std::vector<std::string> max2_vtr_movl(Ax a, Bx b, ArRn1 c, ArStep1 cs) {
        return D("max h||l", R(a), R(b), "||vtrshr", "||mov^l", R(a), MemARS(c, cs));
    }
    std::vector<std::string> max2_vtr_movh(Ax a, Bx b, ArRn1 c, ArStep1 cs) {
        return D("max h||l", R(a), R(b), "||vtrshr", "||mov^h", R(a), MemARS(c, cs));
    }
    std::vector<std::string> max2_vtr_movl(Bx a, Ax b, ArRn1 c, ArStep1 cs) {
        return D("max h||l", R(a), R(b), "||vtrshr", "||mov^l", R(a), MemARS(c, cs));
    }
    std::vector<std::string> max2_vtr_movh(Bx a, Ax b, ArRn1 c, ArStep1 cs) {
        return D("max h||l", R(a), R(b), "||vtrshr", "||mov^h", R(a), MemARS(c, cs));
    }
    std::vector<std::string> min2_vtr_movl(Ax a, Bx b, ArRn1 c, ArStep1 cs) {
        return D("min h||l", R(a), R(b), "||vtrshr", "||mov^l", R(a), MemARS(c, cs));
    }
    std::vector<std::string> min2_vtr_movh(Ax a, Bx b, ArRn1 c, ArStep1 cs) {
        return D("min h||l", R(a), R(b), "||vtrshr", "||mov^h", R(a), MemARS(c, cs));
    }
    std::vector<std::string> min2_vtr_movl(Bx a, Ax b, ArRn1 c, ArStep1 cs) {
        return D("min h||l", R(a), R(b), "||vtrshr", "||mov^l", R(a), MemARS(c, cs));
    }
    std::vector<std::string> min2_vtr_movh(Bx a, Ax b, ArRn1 c, ArStep1 cs) {
        return D("min h||l", R(a), R(b), "||vtrshr", "||mov^h", R(a), MemARS(c, cs));
    }
    std::vector<std::string> max2_vtr_movij(Ax a, Bx b, ArpRn1 c, ArpStep1 csi, ArpStep1 csj) {
        return D("max h||l", R(a), R(b), "||vtrshr", "||mov^hilj", R(a), MemARPSI(c, csi),
                 MemARPSJ(c, csj));
    }
    std::vector<std::string> max2_vtr_movji(Ax a, Bx b, ArpRn1 c, ArpStep1 csi, ArpStep1 csj) {
        return D("max h||l", R(a), R(b), "||vtrshr", "||mov^hjli", R(a), MemARPSI(c, csi),
                 MemARPSJ(c, csj));
    }
    std::vector<std::string> min2_vtr_movij(Ax a, Bx b, ArpRn1 c, ArpStep1 csi, ArpStep1 csj) {
        return D("min h||l", R(a), R(b), "||vtrshr", "||mov^hilj", R(a), MemARPSI(c, csi),
                 MemARPSJ(c, csj));
    }
    std::vector<std::string> min2_vtr_movji(Ax a, Bx b, ArpRn1 c, ArpStep1 csi, ArpStep1 csj) {
        return D("min h||l", R(a), R(b), "||vtrshr", "||mov^hjli", R(a), MemARPSI(c, csi),
                 MemARPSJ(c, csj));
    }

    template <typename ArpStepX>
    std::vector<std::string> mov_sv_app(ArRn1 a, ArpStepX as, Bx b, SumBase base, bool sub_p0,
                                        bool p0_align, bool sub_p1, bool p1_align) {
        return D("mov", MemARS(a, as), "sv", PA(base, sub_p0, p0_align, sub_p1, p1_align), R(b));
    }

    std::vector<std::string> cbs(Axh a, CbsCond c) {
        return D("cbs", R(a), "r0", c);
    }
    std::vector<std::string> cbs(Axh a, Bxh b, CbsCond c) {
        return D("cbs", R(a), R(b), "r0", c);
    }
    std::vector<std::string> cbs(ArpRn1 a, ArpStep1 asi, ArpStep1 asj, CbsCond c) {
        return D("cbs", MemARPSI(a, asi), MemARPSJ(a, asj), c);
    }

    std::vector<std::string> mma(RegName a, bool x0_sign, bool y0_sign, bool x1_sign, bool y1_sign,
                                 SumBase base, bool sub_p0, bool p0_align, bool sub_p1,
                                 bool p1_align) {
        return D("x0<->x1", PA(base, sub_p0, p0_align, sub_p1, p1_align), DsmReg(a),
                 Mul(x0_sign, y0_sign), Mul(x1_sign, y1_sign));
    }

    template <typename ArpRnX, typename ArpStepX>
    std::vector<std::string> mma(ArpRnX xy, ArpStepX i, ArpStepX j, bool dmodi, bool dmodj,
                                 RegName a, bool x0_sign, bool y0_sign, bool x1_sign, bool y1_sign,
                                 SumBase base, bool sub_p0, bool p0_align, bool sub_p1,
                                 bool p1_align) {
        return D("xy<-", MemARPSI(xy, i), MemARPSJ(xy, j),
                 PA(base, sub_p0, p0_align, sub_p1, p1_align), DsmReg(a), Mul(x0_sign, y0_sign),
                 Mul(x1_sign, y1_sign), dmodi ? "dmodi" : "", dmodj ? "dmodj" : "");
    }

    std::vector<std::string> mma_mx_xy(ArRn1 y, ArStep1 ys, RegName a, bool x0_sign, bool y0_sign,
                                       bool x1_sign, bool y1_sign, SumBase base, bool sub_p0,
                                       bool p0_align, bool sub_p1, bool p1_align) {
        return D("x0<->x1, y0<-", MemARS(y, ys), PA(base, sub_p0, p0_align, sub_p1, p1_align),
                 DsmReg(a), Mul(x0_sign, y0_sign), Mul(x1_sign, y1_sign));
    }

    std::vector<std::string> mma_xy_mx(ArRn1 y, ArStep1 ys, RegName a, bool x0_sign, bool y0_sign,
                                       bool x1_sign, bool y1_sign, SumBase base, bool sub_p0,
                                       bool p0_align, bool sub_p1, bool p1_align) {
        return D("x0<->x1, y1<-", MemARS(y, ys), PA(base, sub_p0, p0_align, sub_p1, p1_align),
                 DsmReg(a), Mul(x0_sign, y0_sign), Mul(x1_sign, y1_sign));
    }

    std::vector<std::string> mma_my_my(ArRn1 x, ArStep1 xs, RegName a, bool x0_sign, bool y0_sign,
                                       bool x1_sign, bool y1_sign, SumBase base, bool sub_p0,
                                       bool p0_align, bool sub_p1, bool p1_align) {
        return D("x<-", MemARS(x, xs), PA(base, sub_p0, p0_align, sub_p1, p1_align), DsmReg(a),
                 Mul(x0_sign, y0_sign), Mul(x1_sign, y1_sign));
    }

    std::vector<std::string> mma_mov(Axh u, Bxh v, ArRn1 w, ArStep1 ws, RegName a, bool x0_sign,
                                     bool y0_sign, bool x1_sign, bool y1_sign, SumBase base,
                                     bool sub_p0, bool p0_align, bool sub_p1, bool p1_align) {
        return D("mov", R(u), R(v), MemARS(w, ws), "x0<->x1",
                 PA(base, sub_p0, p0_align, sub_p1, p1_align), DsmReg(a), Mul(x0_sign, y0_sign),
                 Mul(x1_sign, y1_sign));
    }

    std::vector<std::string> mma_mov(ArRn2 w, ArStep1 ws, RegName a, bool x0_sign, bool y0_sign,
                                     bool x1_sign, bool y1_sign, SumBase base, bool sub_p0,
                                     bool p0_align, bool sub_p1, bool p1_align) {
        return D("mov,^", DsmReg(a), MemARS(w, ws), "x0<->x1",
                 PA(base, sub_p0, p0_align, sub_p1, p1_align), DsmReg(a), Mul(x0_sign, y0_sign),
                 Mul(x1_sign, y1_sign));
    }

    std::vector<std::string> addhp(ArRn2 a, ArStep2 as, Px b, Ax c) {
        return D("addhp", MemARS(a, as), R(b), R(c));
    }

    std::vector<std::string> mov_ext0(Imm8s a) {
        return D("mov", a, "ext0");
    }
    std::vector<std::string> mov_ext1(Imm8s a) {
        return D("mov", a, "ext1");
    }
    std::vector<std::string> mov_ext2(Imm8s a) {
        return D("mov", a, "ext2");
    }
    std::vector<std::string> mov_ext3(Imm8s a) {
        return D("mov", a, "ext3");
    }

    void SetArArp(std::optional<ArArpSettings> ar_arp) {
        this->ar_arp = ar_arp;
    }

private:
    template <typename ArRn>
    std::string DsmArRn(ArRn a) {
        if (ar_arp) {
            return "%r" +
                   std::to_string((ar_arp->ar[a.Index() / 2] >> (13 - 3 * (a.Index() % 2))) & 7);
        }
        return "arrn" + std::to_string(a.Index());
    }

    std::string ConvertArStepAndOffset(u16 v) {
        static const std::array<std::string, 8> step_names{{
            "++0",
            "++1",
            "--1",
            "++s",
            "++2",
            "--2",
            "++2*",
            "--2*",
        }};

        static const std::array<std::string, 4> offset_names{{
            "+0",
            "+1",
            "-1",
            "-1*",
        }};

        return offset_names[v >> 3] + step_names[v & 7];
    }

    template <typename ArStep>
    std::string DsmArStep(ArStep a) {
        if (ar_arp) {
            u16 s = (ar_arp->ar[a.Index() / 2] >> (5 - 5 * (a.Index() % 2))) & 31;
            return ConvertArStepAndOffset(s);
        }
        return "+ars" + std::to_string(a.Index());
    }

    template <typename ArpRn>
    std::string DsmArpRni(ArpRn a) {
        if (ar_arp) {
            return "%r" + std::to_string((ar_arp->arp[a.Index()] >> 10) & 3);
        }
        return "arprni" + std::to_string(a.Index());
    }

    template <typename ArpStep>
    std::string DsmArpStepi(ArpStep a) {
        if (ar_arp) {
            u16 s = ar_arp->arp[a.Index()] & 31;
            return ConvertArStepAndOffset(s);
        }
        return "+arpsi" + std::to_string(a.Index());
    }

    template <typename ArpRn>
    std::string DsmArpRnj(ArpRn a) {
        if (ar_arp) {
            return "%r" + std::to_string(((ar_arp->arp[a.Index()] >> 13) & 3) + 4);
        }
        return "arprnj" + std::to_string(a.Index());
    }

    template <typename ArpStep>
    std::string DsmArpStepj(ArpStep a) {
        if (ar_arp) {
            u16 s = (ar_arp->arp[a.Index()] >> 5) & 31;
            return ConvertArStepAndOffset(s);
        }
        return "+arpsj" + std::to_string(a.Index());
    }

    template <typename ArRn, typename ArStep>
    std::string MemARS(ArRn reg, ArStep step) {
        return "[" + DsmArRn(reg) + DsmArStep(step) + "]";
    }

    template <typename ArpRn, typename ArpStep>
    std::string MemARPSI(ArpRn reg, ArpStep step) {
        return "[" + DsmArpRni(reg) + DsmArpStepi(step) + "]";
    }

    template <typename ArpRn, typename ArpStep>
    std::string MemARPSJ(ArpRn reg, ArpStep step) {
        return "[" + DsmArpRnj(reg) + DsmArpStepj(step) + "]";
    }

    template <typename ArRn>
    std::string MemAR(ArRn reg) {
        return "[" + DsmArRn(reg) + "]";
    }

    std::optional<ArArpSettings> ar_arp;
};

bool NeedExpansion(std::uint16_t opcode) {
    auto decoder = Decode<Disassembler>(opcode);
    return decoder.NeedExpansion();
}

std::vector<std::string> GetTokenList(std::uint16_t opcode, std::uint16_t expansion,
                                      std::optional<ArArpSettings> ar_arp) {
    Disassembler dsm;
    dsm.SetArArp(ar_arp);
    auto decoder = Decode<Disassembler>(opcode);
    auto v = decoder.call(dsm, opcode, expansion);
    return v;
}

std::string Do(std::uint16_t opcode, std::uint16_t expansion, std::optional<ArArpSettings> ar_arp) {
    auto v = GetTokenList(opcode, expansion, ar_arp);
    std::string last = v.back();
    std::string result;
    v.pop_back();
    for (const auto& s : v) {
        result += s + "    ";
    }
    return result + last;
}

} // namespace Teakra::Disassembler
