#pragma once

#include <functional>
#include <utility>
#include "common_types.h"
#include "core_timing.h"

namespace Teakra {

class Timer : public CoreTiming::Callbacks {
public:
    Timer(CoreTiming& core_timing);

    enum class CountMode : u16 {
        Single = 0,
        AutoRestart = 1,
        FreeRunning = 2,
        EventCount = 3,
    };

    void Reset();

    void Restart();
    void Tick() override;
    void TickEvent();
    u64 GetMaxSkip() const override;
    void Skip(u64 ticks) override;

    u16 update_mmio = 0;
    u16 pause = 0;
    CountMode count_mode = CountMode::Single;
    u16 scale = 0;

    u16 start_high = 0;
    u16 start_low = 0;
    u32 counter = 0;
    u16 counter_high = 0;
    u16 counter_low = 0;

    void SetInterruptHandler(std::function<void()> handler) {
        interrupt_handler = std::move(handler);
    }

private:
    std::function<void()> interrupt_handler;

    void UpdateMMIO();

    class TimerTimingCallbacks;
};

} // namespace Teakra
