#pragma once
#include <cstdio>
#include <cstdlib>

[[noreturn]] inline void Assert(const char* expression, const char* file, int line) {
    std::fprintf(stderr, "Assertion '%s' failed, file '%s' line '%d'.", expression, file, line);
    std::abort();
}

#define ASSERT(EXPRESSION) ((EXPRESSION) ? (void)0 : Assert(#EXPRESSION, __FILE__, __LINE__))
#define UNREACHABLE() Assert("UNREACHABLE", __FILE__, __LINE__)
