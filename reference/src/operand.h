#pragma once
#include "common_types.h"

template <typename T, T... values>
inline constexpr bool NoOverlap = (values + ...) == (values | ...);

template <unsigned bits>
struct Operand {
    static_assert(bits > 0 && bits <= 16);
    static constexpr unsigned Bits = bits;

protected:
    u16 storage{};

    template <typename OperandT, unsigned pos>
    friend struct At;

    template <typename OperandT, u16 value>
    friend struct Const;
};

template <typename OperandT, unsigned pos>
struct At {
    static constexpr unsigned Bits = OperandT::Bits;
    static_assert((Bits < 16 && pos < 16 && Bits + pos <= 16) || (Bits == 16 && pos == 16));
    static constexpr u16 Mask = (((1 << Bits) - 1) << pos) & 0xFFFF;
    static constexpr bool NeedExpansion = pos == 16;
    static constexpr bool PassAsParameter = true;
    using FilterResult = OperandT;
    static constexpr OperandT Extract(u16 opcode, u16 expansion) {
        OperandT operand{};
        if (NeedExpansion)
            operand.storage = expansion;
        else
            operand.storage = (u16)((opcode & Mask) >> pos);
        return operand;
    }
};

template <typename OperandT, unsigned pos>
struct AtNamed {
    using BaseType = At<OperandT, pos>;
    static constexpr unsigned Bits = BaseType::Bits;
    static constexpr u16 Mask = BaseType::Mask;
    static constexpr bool NeedExpansion = BaseType::NeedExpansion;
    static constexpr bool PassAsParameter = BaseType::PassAsParameter;
    using FilterResult = typename BaseType::FilterResult::NameType;
    static constexpr auto Extract(u16 opcode, u16 expansion) {
        return BaseType::Extract(opcode, expansion).GetName();
    }
};

template <unsigned pos>
struct Unused {
    static_assert(pos < 16);
    static constexpr u16 Mask = 1 << pos;
    static constexpr bool NeedExpansion = false;
    static constexpr bool PassAsParameter = false;
};

template <typename OperandT, u16 value>
struct Const {
    static constexpr u16 Mask = 0;
    static constexpr bool NeedExpansion = false;
    static constexpr bool PassAsParameter = true;
    using FilterResult = OperandT;
    static constexpr OperandT Extract(u16, u16) {
        OperandT operand{};
        operand.storage = value;
        return operand;
    }
};

enum class SumBase {
    Zero,
    Acc,
    Sv,
    SvRnd,
};

template <typename T, T value>
struct Cn {
    static constexpr u16 Mask = 0;
    static constexpr bool NeedExpansion = false;
    static constexpr bool PassAsParameter = true;
    using FilterResult = T;
    static constexpr T Extract(u16, u16) {
        return value;
    }
};

using SX = Cn<bool, true>;
using UX = Cn<bool, false>;
using SY = Cn<bool, true>;
using UY = Cn<bool, false>;
using BZr = Cn<SumBase, SumBase::Zero>;
using BAc = Cn<SumBase, SumBase::Acc>;
using BSv = Cn<SumBase, SumBase::Sv>;
using BSr = Cn<SumBase, SumBase::SvRnd>;
using PA = Cn<bool, true>;
using PP = Cn<bool, false>;
using Sub = Cn<bool, true>;
using Add = Cn<bool, false>;
using EMod = Cn<bool, false>;
using DMod = Cn<bool, true>;

template <typename OperandT, unsigned pos, u16 value>
struct AtConst {
    using Base = At<OperandT, pos>;
    static_assert(Base::NeedExpansion == false, "");
    static constexpr u16 Mask = Base::Mask;
    static constexpr u16 Pad = value << pos;
};

//////////////////////////////////////////////////////////////////////////////

constexpr unsigned intlog2(unsigned n) {
    if (n % 2 != 0)
        throw "wtf";
    return (n == 2) ? 1 : 1 + intlog2(n / 2);
}

template <typename EnumT, EnumT... names>
struct EnumOperand : Operand<intlog2(sizeof...(names))> {
    using NameType = EnumT;
    static constexpr EnumT values[] = {names...};
    constexpr EnumT GetName() const {
        return values[this->storage];
    }
};

template <typename EnumT>
struct EnumAllOperand : Operand<intlog2((unsigned)EnumT::EnumEnd)> {
    using NameType = EnumT;
    constexpr EnumT GetName() const {
        return (EnumT)this->storage;
    }
};

// clang-format off

enum class RegName {
    a0, a0l, a0h, a0e,
    a1, a1l, a1h, a1e,
    b0, b0l, b0h, b0e,
    b1, b1l, b1h, b1e,

    r0, r1, r2, r3, r4, r5, r6, r7,

    y0, p,

    pc, sp, sv, lc,

    ar0, ar1,
    arp0, arp1, arp2, arp3,

    ext0, ext1, ext2, ext3,

    stt0, stt1, stt2,
    st0, st1, st2,
    cfgi, cfgj,
    mod0, mod1, mod2, mod3,

    undefine,
};

template <RegName ... reg_names>
using RegOperand = EnumOperand <RegName, reg_names...>;

struct Register : RegOperand<
    RegName::r0,
    RegName::r1,
    RegName::r2,
    RegName::r3,
    RegName::r4,
    RegName::r5,
    RegName::r7,
    RegName::y0,
    RegName::st0,
    RegName::st1,
    RegName::st2,
    RegName::p, // take special care of this as src operand
    RegName::pc,
    RegName::sp,
    RegName::cfgi,
    RegName::cfgj,
    RegName::b0h,
    RegName::b1h,
    RegName::b0l,
    RegName::b1l,
    RegName::ext0,
    RegName::ext1,
    RegName::ext2,
    RegName::ext3,
    RegName::a0, // take special care of this as src operand
    RegName::a1, // take special care of this as src operand
    RegName::a0l,
    RegName::a1l,
    RegName::a0h,
    RegName::a1h,
    RegName::lc,
    RegName::sv
> {
    // only used in mov(Register, Register)
    constexpr RegName GetNameForMovFromP() {
        return (this->storage & 1) ? RegName::a1 : RegName::a0;
    }
};
struct Ax : RegOperand<
    RegName::a0,
    RegName::a1
> {};
struct Axl : RegOperand<
    RegName::a0l,
    RegName::a1l
> {};
struct Axh : RegOperand<
    RegName::a0h,
    RegName::a1h
> {};
struct Bx : RegOperand<
    RegName::b0,
    RegName::b1
> {};
struct Bxl : RegOperand<
    RegName::b0l,
    RegName::b1l
> {};
struct Bxh : RegOperand<
    RegName::b0h,
    RegName::b1h
> {};
struct Px : Operand<1> {
    constexpr Px() = default;
    constexpr Px(u16 index) {
        this->storage = index;
    }
    constexpr u16 Index() const {
        return this->storage;
    }
};
struct Ab : RegOperand<
    RegName::b0,
    RegName::b1,
    RegName::a0,
    RegName::a1
> {};
struct Abl : RegOperand<
    RegName::b0l,
    RegName::b1l,
    RegName::a0l,
    RegName::a1l
> {};
struct Abh : RegOperand<
    RegName::b0h,
    RegName::b1h,
    RegName::a0h,
    RegName::a1h
> {};
struct Abe : RegOperand<
    RegName::b0e,
    RegName::b1e,
    RegName::a0e,
    RegName::a1e
> {};
struct Ablh : RegOperand<
    RegName::b0l,
    RegName::b0h,
    RegName::b1l,
    RegName::b1h,
    RegName::a0l,
    RegName::a0h,
    RegName::a1l,
    RegName::a1h
> {};
struct RnOld : RegOperand<
    RegName::r0,
    RegName::r1,
    RegName::r2,
    RegName::r3,
    RegName::r4,
    RegName::r5,
    RegName::r7,
    RegName::y0
> {};
struct Rn : RegOperand<
    RegName::r0,
    RegName::r1,
    RegName::r2,
    RegName::r3,
    RegName::r4,
    RegName::r5,
    RegName::r6,
    RegName::r7
> {
    constexpr Rn() = default;
    constexpr Rn(u16 index) {
        this->storage = index;
    }
    constexpr u16 Index() const {
        return this->storage;
    }
};

struct R45 : RegOperand<
    RegName::r4,
    RegName::r5
> {
    constexpr u16 Index() const {
        return this->storage + 4;
    }
};

struct R0123 : RegOperand<
    RegName::r0,
    RegName::r1,
    RegName::r2,
    RegName::r3
> {
    constexpr u16 Index() const {
        return this->storage;
    }
};

struct ArArpSttMod : RegOperand<
    RegName::ar0,
    RegName::ar1,
    RegName::arp0,
    RegName::arp1,
    RegName::arp2,
    RegName::arp3,
    RegName::undefine,
    RegName::undefine,
    RegName::stt0,
    RegName::stt1,
    RegName::stt2,
    RegName::undefine,
    RegName::mod0,
    RegName::mod1,
    RegName::mod2,
    RegName::mod3
> {};
struct ArArp : RegOperand<
    RegName::ar0,
    RegName::ar1,
    RegName::arp0,
    RegName::arp1,
    RegName::arp2,
    RegName::arp3,
    RegName::undefine,
    RegName::undefine
> {};
struct SttMod : RegOperand<
    RegName::stt0,
    RegName::stt1,
    RegName::stt2,
    RegName::undefine,
    RegName::mod0,
    RegName::mod1,
    RegName::mod2,
    RegName::mod3
> {};

struct Ar : RegOperand<
    RegName::ar0,
    RegName::ar1
> {
    constexpr u16 Index() const {
        return this->storage;
    }
};

struct Arp : RegOperand<
    RegName::arp0,
    RegName::arp1,
    RegName::arp2,
    RegName::arp3
> {
    constexpr u16 Index() const {
        return this->storage;
    }
};

enum SwapTypeValue {
    a0b0,
    a0b1,
    a1b0,
    a1b1,
    a0b0a1b1,
    a0b1a1b0,
    a0b0a1,
    a0b1a1,
    a1b0a0,
    a1b1a0,
    b0a0b1,
    b0a1b1,
    b1a0b0,
    b1a1b0,
    reserved0,
    reserved1,

    EnumEnd,
};

using SwapType = EnumAllOperand<SwapTypeValue>;

enum class StepValue {
    Zero,
    Increase,
    Decrease,
    PlusStep,
    Increase2Mode1,
    Decrease2Mode1,
    Increase2Mode2,
    Decrease2Mode2,
};

using StepZIDS = EnumOperand<StepValue,
    StepValue::Zero,
    StepValue::Increase,
    StepValue::Decrease,
    StepValue::PlusStep
>;

template<unsigned bits, u16 offset = 0>
struct ArIndex : Operand<bits>{
    constexpr u16 Index() const {
        return this->storage + offset;
    }
};

struct ArRn1 : ArIndex<1> {};
struct ArRn2 : ArIndex<2> {};
struct ArStep1 : ArIndex<1> {};
struct ArStep1Alt : ArIndex<1, 2> {};
struct ArStep2 : ArIndex<2> {};
struct ArpRn1 : ArIndex<1> {};
struct ArpRn2 : ArIndex<2> {};
struct ArpStep1 : ArIndex<1> {};
struct ArpStep2 : ArIndex<2> {};

struct Address18_2 : Operand<2> {
    constexpr u32 Address32() const {
        return (u32)(this->storage) << 16;
    }
};
struct Address18_16 : Operand<16> {
    constexpr u32 Address32() const {
        return this->storage;
    }
};

constexpr u32 Address32(Address18_16 low, Address18_2 high) {
    return low.Address32() | high.Address32();
}

struct Address16 : Operand<16> {
    constexpr u32 Address32() {
        return this->storage;
    }
};

struct RelAddr7 : Operand<7> {
    constexpr u32 Relative32() {
        return SignExtend<7, u32>(this->storage);
    }
};

template <unsigned bits>
struct Imm : Operand<bits> {
    constexpr u16 Unsigned16() const {
        return this->storage;
    }
};

template <unsigned bits>
struct Imms : Operand<bits> {
    constexpr u16 Signed16() const {
        return SignExtend<bits, u16>(this->storage);
    }
};

struct Imm2 : Imm<2> {};
struct Imm4 : Imm<4> {};
struct Imm5 : Imm<5> {};
struct Imm5s : Imms<5> {};
struct Imm6s : Imms<6> {};
struct Imm7s : Imms<7> {};
struct Imm8 : Imm<8> {};
struct Imm8s : Imms<8> {};
struct Imm9 : Imm<9> {};
struct Imm16 : Imm<16> {};

struct MemImm8 : Imm8 {};
struct MemImm16 : Imm16 {};
struct MemR7Imm7s : Imm7s {};
struct MemR7Imm16 : Imm16 {};


enum class AlmOp {
    Or,
    And,
    Xor,
    Add,
    Tst0,
    Tst1,
    Cmp,
    Sub,
    Msu,
    Addh,
    Addl,
    Subh,
    Subl,
    Sqr,
    Sqra,
    Cmpu,

    Reserved
};

using Alm = EnumOperand<AlmOp,
    AlmOp::Or,
    AlmOp::And,
    AlmOp::Xor,
    AlmOp::Add,
    AlmOp::Tst0,
    AlmOp::Tst1,
    AlmOp::Cmp,
    AlmOp::Sub,
    AlmOp::Msu,
    AlmOp::Addh,
    AlmOp::Addl,
    AlmOp::Subh,
    AlmOp::Subl,
    AlmOp::Sqr,
    AlmOp::Sqra,
    AlmOp::Cmpu
>;

using Alu = EnumOperand<AlmOp,
    AlmOp::Or,
    AlmOp::And,
    AlmOp::Xor,
    AlmOp::Add,
    AlmOp::Reserved,
    AlmOp::Reserved,
    AlmOp::Cmp,
    AlmOp::Sub
>;

enum class AlbOp {
    Set,
    Rst,
    Chng,
    Addv,
    Tst0,
    Tst1,
    Cmpv,
    Subv,

    EnumEnd
};

using Alb = EnumAllOperand<AlbOp>;

enum class MulOp {
    Mpy,
    Mpysu,
    Mac,
    Macus,
    Maa,
    Macuu,
    Macsu,
    Maasu,
};

using Mul3 = EnumOperand<MulOp,
    MulOp::Mpy,
    MulOp::Mpysu,
    MulOp::Mac,
    MulOp::Macus,
    MulOp::Maa,
    MulOp::Macuu,
    MulOp::Macsu,
    MulOp::Maasu
>;

using Mul2 = EnumOperand<MulOp,
    MulOp::Mpy,
    MulOp::Mac,
    MulOp::Maa,
    MulOp::Macsu
>;

enum class ModaOp {
    Shr,
    Shr4,
    Shl,
    Shl4,
    Ror,
    Rol,
    Clr,
    Reserved,
    Not,
    Neg,
    Rnd,
    Pacr,
    Clrr,
    Inc,
    Dec,
    Copy,

};

using Moda4 = EnumOperand<ModaOp,
    ModaOp::Shr,
    ModaOp::Shr4,
    ModaOp::Shl,
    ModaOp::Shl4,
    ModaOp::Ror,
    ModaOp::Rol,
    ModaOp::Clr,
    ModaOp::Reserved,
    ModaOp::Not,
    ModaOp::Neg,
    ModaOp::Rnd,
    ModaOp::Pacr,
    ModaOp::Clrr,
    ModaOp::Inc,
    ModaOp::Dec,
    ModaOp::Copy
>;

using Moda3 = EnumOperand<ModaOp,
    ModaOp::Shr,
    ModaOp::Shr4,
    ModaOp::Shl,
    ModaOp::Shl4,
    ModaOp::Ror,
    ModaOp::Rol,
    ModaOp::Clr,
    ModaOp::Clrr
>;

enum class CondValue {
    True,
    Eq,
    Neq,
    Gt,
    Ge,
    Lt,
    Le,
    Nn,
    C,
    V,
    E,
    L,
    Nr,
    Niu0,
    Iu0,
    Iu1,

    EnumEnd
};

using Cond = EnumAllOperand<CondValue>;

struct BankFlags : Operand<6>{
    constexpr bool Cfgi() const {
        return (this->storage & 1) != 0;
    }
    constexpr bool R4() const {
        return (this->storage & 2) != 0;
    }
    constexpr bool R1() const {
        return (this->storage & 4) != 0;
    }
    constexpr bool R0() const {
        return (this->storage & 8) != 0;
    }
    constexpr bool R7() const {
        return (this->storage & 16) != 0;
    }
    constexpr bool Cfgj() const {
        return (this->storage & 32) != 0;
    }
};

enum class CbsCondValue {
    Ge,
    Gt,

    EnumEnd
};

using CbsCond = EnumAllOperand<CbsCondValue>;

// clang-format on
