#include <string>
#include "btdmp.h"
#include "crash.h"

namespace Teakra {

Btdmp::Btdmp(CoreTiming& core_timing) {
    core_timing.RegisterCallbacks(this);
}

Btdmp::~Btdmp() = default;

void Btdmp::Reset() {
    transmit_clock_config = 0;
    transmit_period = 4096;
    transmit_timer = 0;
    transmit_enable = 0;
    transmit_empty = true;
    transmit_full = false;
    transmit_queue = {};
}

void Btdmp::Tick() {
    if (transmit_enable) {
        ++transmit_timer;
        if (transmit_timer >= transmit_period) {
            transmit_timer = 0;
            std::array<std::int16_t, 2> sample;
            for (int i = 0; i < 2; ++i) {
                if (transmit_queue.empty()) {
                    std::printf("BTDMP: transmit buffer underrun\n");
                    sample[i] = 0;
                } else {
                    sample[i] = static_cast<s16>(transmit_queue.front());
                    transmit_queue.pop();
                    transmit_empty = transmit_queue.empty();
                    transmit_full = false;
                    if (transmit_empty) {
                        interrupt_handler();
                    }
                }
            }
            if (audio_callback) {
                audio_callback(sample);
            }
        }
    }
}

u64 Btdmp::GetMaxSkip() const {
    if (!transmit_enable || transmit_queue.empty()) {
        return Infinity;
    }

    u64 ticks = 0;
    if (transmit_timer < transmit_period) {
        // number of ticks before the tick of the next transmit
        ticks += transmit_period - transmit_timer - 1;
    }

    // number of ticks from the next transmit to the one just before the transmit that empties
    // the buffer
    ticks += ((transmit_queue.size() + 1) / 2 - 1) * transmit_period;

    return ticks;
}

void Btdmp::Skip(u64 ticks) {
    if (!transmit_enable)
        return;

    if (transmit_timer >= transmit_period)
        transmit_timer = 0;

    u64 future_timer = transmit_timer + ticks;
    u64 cycles = future_timer / transmit_period;
    transmit_timer = (u16)(future_timer % transmit_period);

    for (u64 c = 0; c < cycles; ++c) {
        std::array<std::int16_t, 2> sample;
        for (int i = 0; i < 2; ++i) {
            if (transmit_queue.empty()) {
                sample[i] = 0;
            } else {
                sample[i] = static_cast<s16>(transmit_queue.front());
                transmit_queue.pop();
                ASSERT(!transmit_queue.empty());
                transmit_full = false;
            }
        }
        if (audio_callback) {
            audio_callback(sample);
        }
    }
}

} // namespace Teakra
