#pragma once
#include <type_traits>
#include <vector>
#include "crash.h"
#include "matcher.h"
#include "operand.h"

template <typename... OperandAtT>
struct OperandList {
    template <typename OperandAtT0>
    using prefix = OperandList<OperandAtT0, OperandAtT...>;
};

template <typename... OperandAtT>
struct FilterOperand;

template <>
struct FilterOperand<> {
    using result = OperandList<>;
};

template <bool keep, typename OperandAtT0, typename... OperandAtT>
struct FilterOperandHelper;

template <typename OperandAtT0, typename... OperandAtT>
struct FilterOperandHelper<false, OperandAtT0, OperandAtT...> {
    using result = typename FilterOperand<OperandAtT...>::result;
};

template <typename OperandAtT0, typename... OperandAtT>
struct FilterOperandHelper<true, OperandAtT0, OperandAtT...> {
    using result = typename FilterOperand<OperandAtT...>::result ::template prefix<OperandAtT0>;
};

template <typename OperandAtT0, typename... OperandAtT>
struct FilterOperand<OperandAtT0, OperandAtT...> {
    using result =
        typename FilterOperandHelper<OperandAtT0::PassAsParameter, OperandAtT0, OperandAtT...>::result;
};

template <typename V, typename OperandListT>
struct VisitorFunctionWithoutFilter;

template <typename V, typename... OperandAtT>
struct VisitorFunctionWithoutFilter<V, OperandList<OperandAtT...>> {
    using type = typename V::instruction_return_type (V::*)(typename OperandAtT::FilterResult...);
};

template <typename V, typename... OperandAtT>
struct VisitorFunction {
    using type =
        typename VisitorFunctionWithoutFilter<V, typename FilterOperand<OperandAtT...>::result>::type;
};

template <typename V, u16 expected, typename... OperandAtT>
struct MatcherCreator {
    template <typename OperandListT>
    struct Proxy;

    using F = typename VisitorFunction<V, OperandAtT...>::type;

    template <typename... OperandAtTs>
    struct Proxy<OperandList<OperandAtTs...>> {
        F func;
        auto operator()(V& visitor, [[maybe_unused]] u16 opcode,
                        [[maybe_unused]] u16 expansion) const {
            return (visitor.*func)(OperandAtTs::Extract(opcode, expansion)...);
        }
    };

    static Matcher<V> Create(const char* name, F func) {
        // Operands shouldn't overlap each other, nor overlap with the expected ones
        static_assert(NoOverlap<u16, expected, OperandAtT::Mask...>, "Error");

        Proxy<typename FilterOperand<OperandAtT...>::result> proxy{func};

        constexpr u16 mask = (~OperandAtT::Mask & ... & 0xFFFF);
        constexpr bool expanded = (OperandAtT::NeedExpansion || ...);
        return Matcher<V>(name, mask, expected, expanded, proxy);
    }
};

template <typename... OperandAtConstT>
struct RejectorCreator {
    static constexpr Rejector rejector{(OperandAtConstT::Mask | ...), (OperandAtConstT::Pad | ...)};
};

// clang-format off

template <typename V>
std::vector<Matcher<V>> GetDecodeTable() {
    return {

#define INST(name, ...) MatcherCreator<V, __VA_ARGS__>::Create(#name, &V::name)
#define EXCEPT(...) Except(RejectorCreator<__VA_ARGS__>::rejector)

    // <<< Misc >>>
    INST(nop, 0x0000),
    INST(norm, 0x94C0, At<Ax, 8>, At<Rn, 0>, At<StepZIDS, 3>),
    INST(swap, 0x4980, At<SwapType, 0>),
    INST(trap, 0x0020),

    // <<< ALM normal >>>
    INST(alm, 0xA000, At<Alm, 9>, At<MemImm8, 0>, At<Ax, 8>),
    INST(alm, 0x8080, At<Alm, 9>, At<Rn, 0>, At<StepZIDS, 3>, At<Ax, 8>),
    INST(alm, 0x80A0, At<Alm, 9>, At<Register, 0>, At<Ax, 8>),

    // <<< ALM r6 >>>
    INST(alm_r6, 0xD388, Const<Alm, 0>, At<Ax, 4>),
    INST(alm_r6, 0xD389, Const<Alm, 1>, At<Ax, 4>),
    INST(alm_r6, 0xD38A, Const<Alm, 2>, At<Ax, 4>),
    INST(alm_r6, 0xD38B, Const<Alm, 3>, At<Ax, 4>),
    INST(alm_r6, 0xD38C, Const<Alm, 4>, At<Ax, 4>),
    INST(alm_r6, 0xD38D, Const<Alm, 5>, At<Ax, 4>),
    INST(alm_r6, 0xD38E, Const<Alm, 6>, At<Ax, 4>),
    INST(alm_r6, 0xD38F, Const<Alm, 7>, At<Ax, 4>),
    INST(alm_r6, 0x9462, Const<Alm, 8>, At<Ax, 0>),
    INST(alm_r6, 0x9464, Const<Alm, 9>, At<Ax, 0>),
    INST(alm_r6, 0x9466, Const<Alm, 10>, At<Ax, 0>),
    INST(alm_r6, 0x5E23, Const<Alm, 11>, At<Ax, 8>),
    INST(alm_r6, 0x5E22, Const<Alm, 12>, At<Ax, 8>),
    INST(alm_r6, 0x5F41, Const<Alm, 13>, Const<Ax, 0>),
    INST(alm_r6, 0x9062, Const<Alm, 14>, At<Ax, 8>, Unused<0>),
    INST(alm_r6, 0x8A63, Const<Alm, 15>, At<Ax, 3>),

    // <<< ALU normal >>>
    INST(alu, 0xD4F8, At<Alu, 0>, At<MemImm16, 16>, At<Ax, 8>)
        .EXCEPT(AtConst<Alu, 0, 4>).EXCEPT(AtConst<Alu, 0, 5>),
    INST(alu, 0xD4D8, At<Alu, 0>, At<MemR7Imm16, 16>, At<Ax, 8>)
        .EXCEPT(AtConst<Alu, 0, 4>).EXCEPT(AtConst<Alu, 0, 5>),
    INST(alu, 0x80C0, At<Alu, 9>, At<Imm16, 16>, At<Ax, 8>)
        .EXCEPT(AtConst<Alu, 9, 4>).EXCEPT(AtConst<Alu, 9, 5>),
    INST(alu, 0xC000, At<Alu, 9>, At<Imm8, 0>, At<Ax, 8>)
        .EXCEPT(AtConst<Alu, 9, 4>).EXCEPT(AtConst<Alu, 9, 5>),
    INST(alu, 0x4000, At<Alu, 9>, At<MemR7Imm7s, 0>, At<Ax, 8>)
        .EXCEPT(AtConst<Alu, 9, 4>).EXCEPT(AtConst<Alu, 9, 5>),

    // <<< OR Extra >>>
    INST(or_, 0xD291, At<Ab, 10>, At<Ax, 6>, At<Ax, 5>),
    INST(or_, 0xD4A4, At<Ax, 8>, At<Bx, 1>, At<Ax, 0>),
    INST(or_, 0xD3C4, At<Bx, 10>, At<Bx, 1>, At<Ax, 0>),

    // <<< ALB normal >>>
    INST(alb, 0xE100, At<Alb, 9>, At<Imm16, 16>, At<MemImm8, 0>),
    INST(alb, 0x80E0, At<Alb, 9>, At<Imm16, 16>, At<Rn, 0>, At<StepZIDS, 3>),
    INST(alb, 0x81E0, At<Alb, 9>, At<Imm16, 16>, At<Register, 0>),
    INST(alb_r6, 0x47B8, At<Alb, 0>, At<Imm16, 16>),

    // <<< ALB SttMod >>>
    INST(alb, 0x43C8, Const<Alb, 0>, At<Imm16, 16>, At<SttMod, 0>),
    INST(alb, 0x4388, Const<Alb, 1>, At<Imm16, 16>, At<SttMod, 0>),
    INST(alb, 0x0038, Const<Alb, 2>, At<Imm16, 16>, At<SttMod, 0>),
    //INST(alb, 0x????, Const<Alb, 3>, At<Imm,16, 16>, At<SttMod, 0>),
    INST(alb, 0x9470, Const<Alb, 4>, At<Imm16, 16>, At<SttMod, 0>),
    INST(alb, 0x9478, Const<Alb, 5>, At<Imm16, 16>, At<SttMod, 0>),
    //INST(alb, 0x????, Const<Alb, 6>, At<Imm,16, 16>, At<SttMod, 0>),
    //INST(alb, 0x????, Const<Alb, 7>, At<Imm,16, 16>, At<SttMod, 0>),

    // <<< Add extra >>>
    INST(add, 0xD2DA, At<Ab, 10>, At<Bx, 0>),
    INST(add, 0x5DF0, At<Bx, 1>, At<Ax, 0>),
    INST(add_p1, 0xD782, At<Ax, 0>),
    INST(add, 0x5DF8, At<Px, 1>, At<Bx, 0>),

    // <<< Sub extra >>>
    INST(sub, 0x8A61, At<Ab, 3>, At<Bx, 8>),
    INST(sub, 0x8861, At<Bx, 4>, At<Ax, 3>),
    INST(sub_p1, 0xD4B9, At<Ax, 8>),
    INST(sub, 0x8FD0, At<Px, 1>, At<Bx, 0>),

    /// <<< addsub p0 p1 >>>
    INST(app, 0x5DC0, At<Ab, 2>, BZr, Add, PP, Add, PP),
    INST(app, 0x5DC1, At<Ab, 2>, BZr, Add, PP, Add, PA),
    INST(app, 0x4590, At<Ab, 2>, BAc, Add, PP, Add, PP),
    INST(app, 0x4592, At<Ab, 2>, BAc, Add, PP, Add, PA),
    INST(app, 0x4593, At<Ab, 2>, BAc, Add, PA, Add, PA),
    INST(app, 0x5DC2, At<Ab, 2>, BZr, Add, PP, Sub, PP),
    INST(app, 0x5DC3, At<Ab, 2>, BZr, Add, PP, Sub, PA),
    INST(app, 0x80C6, At<Ab, 10>, BAc, Sub, PP, Sub, PP),
    INST(app, 0x82C6, At<Ab, 10>, BAc, Sub, PP, Sub, PA),
    INST(app, 0x83C6, At<Ab, 10>, BAc, Sub, PA, Sub, PA),
    INST(app, 0x906C, At<Ab, 0>, BAc, Add, PP, Sub, PP),
    INST(app, 0x49C2, At<Ab, 4>, BAc, Sub, PP, Add, PP),
    INST(app, 0x916C, At<Ab, 0>, BAc, Add, PP, Sub, PA),
    INST(app, 0x49C3, At<Ab, 4>, BAc, Sub, PP, Add, PA),

    /// <<< add||sub >>>
    INST(add_add, 0x6F80, At<ArpRn1, 2>, At<ArpStep1, 0>, At<ArpStep1, 1>, At<Ab, 3>),
    INST(add_sub, 0x6FA0, At<ArpRn1, 2>, At<ArpStep1, 0>, At<ArpStep1, 1>, At<Ab, 3>),
    INST(sub_add, 0x6FC0, At<ArpRn1, 2>, At<ArpStep1, 0>, At<ArpStep1, 1>, At<Ab, 3>),
    INST(sub_sub, 0x6FE0, At<ArpRn1, 2>, At<ArpStep1, 0>, At<ArpStep1, 1>, At<Ab, 3>),

    /// <<< add||sub sv >>>
    INST(add_sub_sv, 0x5DB0, At<ArRn1, 1>, At<ArStep1, 0>, At<Ab, 2>),
    INST(sub_add_sv, 0x5DE0, At<ArRn1, 1>, At<ArStep1, 0>, At<Ab, 2>),

    /// <<< add||sub||mov sv >>>
    INST(sub_add_i_mov_j_sv, 0x8064, At<ArpRn1, 8>, At<ArpStep1, 0>, At<ArpStep1, 1>, At<Ab, 3>),
    INST(sub_add_j_mov_i_sv, 0x5D80, At<ArpRn1, 2>, At<ArpStep1, 0>, At<ArpStep1, 1>, At<Ab, 3>),
    INST(add_sub_i_mov_j, 0x9070, At<ArpRn1, 8>, At<ArpStep1, 0>, At<ArpStep1, 1>, At<Ab, 2>),
    INST(add_sub_j_mov_i, 0x5E30, At<ArpRn1, 8>, At<ArpStep1, 0>, At<ArpStep1, 1>, At<Ab, 2>),

    // <<< Mul >>>
    INST(mul, 0x8000, At<Mul3, 8>, At<Rn, 0>, At<StepZIDS, 3>, At<Imm16, 16>, At<Ax, 11>),
    INST(mul_y0, 0x8020, At<Mul3, 8>, At<Rn, 0>, At<StepZIDS, 3>, At<Ax, 11>),
    INST(mul_y0, 0x8040, At<Mul3, 8>, At<Register, 0>, At<Ax, 11>),
    INST(mul, 0xD000, At<Mul3, 8>, At<R45, 2>, At<StepZIDS, 5>, At<R0123, 0>, At<StepZIDS, 3>, At<Ax, 11>),
    INST(mul_y0_r6, 0x5EA0, At<Mul3, 1>, At<Ax, 0>),
    INST(mul_y0, 0xE000, At<Mul2, 9>, At<MemImm8, 0>, At<Ax, 11>),

    // <<< Mul Extra >>>
    INST(mpyi, 0x0800, At<Imm8s, 0>),
    INST(msu, 0xD080, At<R45, 2>, At<StepZIDS, 5>, At<R0123, 0>, At<StepZIDS, 3>, At<Ax, 8>),
    INST(msu, 0x90C0, At<Rn, 0>, At<StepZIDS, 3>, At<Imm16, 16>, At<Ax, 8>),
    INST(msusu, 0x8264, At<ArRn2, 3>, At<ArStep2, 0>, At<Ax, 8>),
    INST(mac_x1to0, 0x4D84, At<Ax, 1>, Unused<0>),
    INST(mac1, 0x5E28, At<ArpRn1, 2>, At<ArpStep1, 0>, At<ArpStep1, 1>, At<Ax, 8>),

    // <<< MODA >>>
    INST(moda4, 0x6700, At<Moda4, 4>, At<Ax, 12>, At<Cond, 0>)
        .EXCEPT(AtConst<Moda4, 4, 7>),
    INST(moda3, 0x6F00, At<Moda3, 4>, At<Bx, 12>, At<Cond, 0>),
    INST(pacr1, 0xD7C2, At<Ax, 0>),
    INST(clr, 0x8ED0, At<Ab, 2>, At<Ab, 0>),
    INST(clrr, 0x8DD0, At<Ab, 2>, At<Ab, 0>),

    // <<< Block repeat >>>
    INST(bkrep, 0x5C00, At<Imm8, 0>, At<Address16, 16>),
    INST(bkrep, 0x5D00, At<Register, 0>, At<Address18_16, 16>, At<Address18_2, 5>),
    INST(bkrep_r6, 0x8FDC, At<Address18_16, 16>, At<Address18_2, 0>),
    INST(bkreprst, 0xDA9C, At<ArRn2, 0>),
    INST(bkreprst_memsp, 0x5F48, Unused<0>, Unused<1>),
    INST(bkrepsto, 0xDADC, At<ArRn2, 0>, Unused<10>),
    INST(bkrepsto_memsp, 0x9468, Unused<0>, Unused<1>, Unused<2>),

    // <<< Bank >>>
    INST(banke, 0x4B80, At<BankFlags, 0>),
    INST(bankr, 0x8CDF),
    INST(bankr, 0x8CDC, At<Ar, 0>),
    INST(bankr, 0x8CD0, At<Ar, 2>, At<Arp, 0>),
    INST(bankr, 0x8CD8, At<Arp, 0>),

    // <<< Bitrev >>>
    INST(bitrev, 0x5EB8, At<Rn, 0>),
    INST(bitrev_dbrv, 0xD7E8, At<Rn, 0>),
    INST(bitrev_ebrv, 0xD7E0, At<Rn, 0>),

    // <<< Branching >>>
    INST(br, 0x4180, At<Address18_16, 16>, At<Address18_2, 4>, At<Cond, 0>),
    INST(brr, 0x5000, At<RelAddr7, 4>, At<Cond, 0>),

    // <<< Break >>>
    INST(break_, 0xD3C0),

    // <<< Call >>>
    INST(call, 0x41C0, At<Address18_16, 16>, At<Address18_2, 4>, At<Cond, 0>),
    INST(calla, 0xD480, At<Axl, 8>),
    INST(calla, 0xD381, At<Ax, 4>),
    INST(callr, 0x1000, At<RelAddr7, 4>, At<Cond, 0>),

    // <<< Context >>>
    INST(cntx_s, 0xD380),
    INST(cntx_r, 0xD390),

    // <<< Return >>>
    INST(ret, 0x4580, At<Cond, 0>),
    INST(retd, 0xD780),
    INST(reti, 0x45C0, At<Cond, 0>),
    INST(retic, 0x45D0, At<Cond, 0>),
    INST(retid, 0xD7C0),
    INST(retidc, 0xD3C3),
    INST(rets, 0x0900, At<Imm8, 0>),

    // <<< Load >>>
    INST(load_ps, 0x4D80, At<Imm2, 0>),
    INST(load_stepi, 0xDB80, At<Imm7s, 0>),
    INST(load_stepj, 0xDF80, At<Imm7s, 0>),
    INST(load_page, 0x0400, At<Imm8, 0>),
    INST(load_modi, 0x0200, At<Imm9, 0>),
    INST(load_modj, 0x0A00, At<Imm9, 0>),
    INST(load_movpd, 0xD7D8, At<Imm2, 1>, Unused<0>),
    INST(load_ps01, 0x0010, At<Imm4, 0>),

    // <<< Push >>>
    INST(push, 0x5F40, At<Imm16, 16>),
    INST(push, 0x5E40, At<Register, 0>),
    INST(push, 0xD7C8, At<Abe, 1>, Unused<0>),
    INST(push, 0xD3D0, At<ArArpSttMod, 0>),
    INST(push_prpage, 0xD7FC, Unused<0>, Unused<1>),
    INST(push, 0xD78C, At<Px, 1>, Unused<0>),
    INST(push_r6, 0xD4D7, Unused<5>),
    INST(push_repc, 0xD7F8, Unused<0>, Unused<1>),
    INST(push_x0, 0xD4D4, Unused<5>),
    INST(push_x1, 0xD4D5, Unused<5>),
    INST(push_y1, 0xD4D6, Unused<5>),
    INST(pusha, 0x4384, At<Ax, 6>, Unused<0>, Unused<1>),
    INST(pusha, 0xD788, At<Bx, 1>, Unused<0>),

    // <<< Pop >>>
    INST(pop, 0x5E60, At<Register, 0>),
    INST(pop, 0x47B4, At<Abe, 0>),
    INST(pop, 0x80C7, At<ArArpSttMod, 8>),
    INST(pop, 0x0006, At<Bx, 5>, Unused<0>),
    INST(pop_prpage, 0xD7F4, Unused<0>, Unused<1>),
    INST(pop, 0xD496, At<Px, 0>),
    INST(pop_r6, 0x0024, Unused<0>),
    INST(pop_repc, 0xD7F0, Unused<0>, Unused<1>),
    INST(pop_x0, 0xD494),
    INST(pop_x1, 0xD495),
    INST(pop_y1, 0x0004, Unused<0>),
    INST(popa, 0x47B0, At<Ab, 0>),

    // <<< Repeat >>>
    INST(rep, 0x0C00, At<Imm8, 0>),
    INST(rep, 0x0D00, At<Register, 0>),
    INST(rep_r6, 0x0002, Unused<0>),

    // <<< Shift >>>
    INST(shfc, 0xD280, At<Ab, 10>, At<Ab, 5>, At<Cond, 0>),
    INST(shfi, 0x9240, At<Ab, 10>, At<Ab, 7>, At<Imm6s, 0>),

    // <<< TSTB >>>
    INST(tst4b, 0x80C1, At<ArRn2, 10>, At<ArStep2, 8>),
    INST(tst4b, 0x4780, At<ArRn2, 2>, At<ArStep2, 0>, At<Ax, 4>),
    INST(tstb, 0xF000, At<MemImm8, 0>, At<Imm4, 8>),
    INST(tstb, 0x9020, At<Rn, 0>, At<StepZIDS, 3>, At<Imm4, 8>),
    INST(tstb, 0x9000, At<Register, 0>, At<Imm4, 8>)
        .EXCEPT(AtConst<Register, 0, 24>), // override by tstb_r6
    INST(tstb_r6, 0x9018, At<Imm4, 8>),
    INST(tstb, 0x0028, At<SttMod, 0>, At<Imm16, 16>), // unused12@20

    // <<< AND Extra >>>
    INST(and_, 0x6770, At<Ab, 2>, At<Ab, 0>, At<Ax, 12>),

    // <<< Interrupt >>>
    INST(dint, 0x43C0),
    INST(eint, 0x4380),

    // <<< EXP >>>
    INST(exp, 0x9460, At<Bx, 0>),
    INST(exp, 0x9060, At<Bx, 0>, At<Ax, 8>),
    INST(exp, 0x9C40, At<Rn, 0>, At<StepZIDS, 3>),
    INST(exp, 0x9840, At<Rn, 0>, At<StepZIDS, 3>, At<Ax, 8>),
    INST(exp, 0x9440, At<Register, 0>),
    INST(exp, 0x9040, At<Register, 0>, At<Ax, 8>),
    INST(exp_r6, 0xD7C1),
    INST(exp_r6, 0xD382, At<Ax, 4>),

    // <<< MODR >>>
    INST(modr, 0x0080, At<Rn, 0>, At<StepZIDS, 3>),
    INST(modr_dmod, 0x00A0, At<Rn, 0>, At<StepZIDS, 3>),
    INST(modr_i2, 0x4990, At<Rn, 0>),
    INST(modr_i2_dmod, 0x4998, At<Rn, 0>),
    INST(modr_d2, 0x5DA0, At<Rn, 0>),
    INST(modr_d2_dmod, 0x5DA8, At<Rn, 0>),
    INST(modr_eemod, 0xD294, At<ArpRn2, 10>, At<ArpStep2, 0>, At<ArpStep2, 5>),
    INST(modr_edmod, 0x0D80, At<ArpRn2, 5>, At<ArpStep2, 1>, At<ArpStep2, 3>),
    INST(modr_demod, 0x8464, At<ArpRn2, 8>, At<ArpStep2, 0>, At<ArpStep2, 3>),
    INST(modr_ddmod, 0x0D81, At<ArpRn2, 5>, At<ArpStep2, 1>, At<ArpStep2, 3>),

    // <<< MOV >>>
    INST(mov, 0xD290, At<Ab, 10>, At<Ab, 5>),
    INST(mov_dvm, 0xD298, At<Abl, 10>),
    INST(mov_x0, 0xD2D8, At<Abl, 10>),
    INST(mov_x1, 0xD394, At<Abl, 0>),
    INST(mov_y1, 0xD384, At<Abl, 0>),

    INST(mov, 0x3000, At<Ablh, 9>, At<MemImm8, 0>),
    INST(mov, 0xD4BC, At<Axl, 8>, At<MemImm16, 16>),
    INST(mov, 0xD49C, At<Axl, 8>, At<MemR7Imm16, 16>),
    INST(mov, 0xDC80, At<Axl, 8>, At<MemR7Imm7s, 0>),

    INST(mov, 0xD4B8, At<MemImm16, 16>, At<Ax, 8>),
    INST(mov, 0x6100, At<MemImm8, 0>, At<Ab, 11>),
    INST(mov, 0x6200, At<MemImm8, 0>, At<Ablh, 10>),
    INST(mov_eu, 0x6500, At<MemImm8, 0>, At<Axh, 12>),
    INST(mov, 0x6000, At<MemImm8, 0>, At<RnOld, 10>),
    INST(mov_sv, 0x6D00, At<MemImm8, 0>),

    INST(mov_dvm_to, 0xD491, At<Ab, 5>),
    INST(mov_icr_to, 0xD492, At<Ab, 5>),

    INST(mov, 0x5E20, At<Imm16, 16>, At<Bx, 8>),
    INST(mov, 0x5E00, At<Imm16, 16>, At<Register, 0>),
    INST(mov_icr, 0x4F80, At<Imm5, 0>),
    INST(mov, 0x2500, At<Imm8s, 0>, At<Axh, 12>),
    INST(mov_ext0, 0x2900, At<Imm8s, 0>),
    INST(mov_ext1, 0x2D00, At<Imm8s, 0>),
    INST(mov_ext2, 0x3900, At<Imm8s, 0>),
    INST(mov_ext3, 0x3D00, At<Imm8s, 0>),
    INST(mov, 0x2300, At<Imm8s, 0>, At<RnOld, 10>),
    INST(mov_sv, 0x0500, At<Imm8s, 0>),
    INST(mov, 0x2100, At<Imm8, 0>, At<Axl, 12>),

    INST(mov, 0xD498, At<MemR7Imm16, 16>, At<Ax, 8>),
    INST(mov, 0xD880, At<MemR7Imm7s, 0>, At<Ax, 8>),
    INST(mov, 0x98C0, At<Rn, 0>, At<StepZIDS, 3>, At<Bx, 8>),
    INST(mov, 0x1C00, At<Rn, 0>, At<StepZIDS, 3>, At<Register, 5>),

    INST(mov_memsp_to, 0x47E0, At<Register, 0>),
    INST(mov_mixp_to, 0x47C0, At<Register, 0>),
    INST(mov, 0x2000, At<RnOld, 9>, At<MemImm8, 0>),
    INST(mov_icr, 0x4FC0, At<Register, 0>),
    INST(mov_mixp, 0x5E80, At<Register, 0>),
    INST(mov, 0x1800, At<Register, 5>, At<Rn, 0>, At<StepZIDS, 3>)
        .EXCEPT(AtConst<Register, 5, 24>).EXCEPT(AtConst<Register, 5, 25>), // override by mov_r6(_to)
    INST(mov, 0x5EC0, At<Register, 0>, At<Bx, 5>),
    INST(mov, 0x5800, At<Register, 0>, At<Register, 5>)
        .EXCEPT(AtConst<Register, 0, 24>).EXCEPT(AtConst<Register, 0, 25>), // override by mma_mov
    INST(mov_repc_to, 0xD490, At<Ab, 5>),
    INST(mov_sv_to, 0x7D00, At<MemImm8, 0>),
    INST(mov_x0_to, 0xD493, At<Ab, 5>),
    INST(mov_x1_to, 0x49C1, At<Ab, 4>),
    INST(mov_y1_to, 0xD299, At<Ab, 10>),

    // <<< MOV load >>>
    INST(mov, 0x0008, At<Imm16, 16>, At<ArArp, 0>),
    INST(mov_r6, 0x0023, At<Imm16, 16>),
    INST(mov_repc, 0x0001, At<Imm16, 16>),
    INST(mov_stepi0, 0x8971, At<Imm16, 16>),
    INST(mov_stepj0, 0x8979, At<Imm16, 16>),
    INST(mov, 0x0030, At<Imm16, 16>, At<SttMod, 0>),
    INST(mov_prpage, 0x5DD0, At<Imm4, 0>),

    // <<< <<< MOV p/d >>>
    INST(movd, 0x5F80, At<R0123, 0>, At<StepZIDS, 3>, At<R45, 2>, At<StepZIDS, 5>),
    INST(movp, 0x0040, At<Axl, 5>, At<Register, 0>),
    INST(movp, 0x0D40, At<Ax, 5>, At<Register, 0>),
    INST(movp, 0x0600, At<Rn, 0>, At<StepZIDS, 3>, At<R0123, 5>, At<StepZIDS, 7>),
    INST(movpdw, 0xD499, At<Ax, 8>),

    // <<< MOV 2 >>>
    INST(mov_a0h_stepi0, 0xD49B),
    INST(mov_a0h_stepj0, 0xD59B),
    INST(mov_stepi0_a0h, 0xD482),
    INST(mov_stepj0_a0h, 0xD582),

    INST(mov_prpage, 0x9164, At<Abl, 0>),
    INST(mov_repc, 0x9064, At<Abl, 0>),
    INST(mov, 0x9540, At<Abl, 3>, At<ArArp, 0>),
    INST(mov, 0x9C60, At<Abl, 3>, At<SttMod, 0>),

    INST(mov_prpage_to, 0x5EB0, At<Abl, 0>),
    INST(mov_repc_to, 0xD2D9, At<Abl, 10>),
    INST(mov, 0x9560, At<ArArp, 0>, At<Abl, 3>),
    INST(mov, 0xD2F8, At<SttMod, 0>, At<Abl, 10>),

    INST(mov_repc_to, 0xD7D0, At<ArRn1, 1>, At<ArStep1, 0>),
    INST(mov, 0xD488, At<ArArp, 0>, At<ArRn1, 8>, At<ArStep1, 5>),
    INST(mov, 0x49A0, At<SttMod, 0>, At<ArRn1, 4>, At<ArStep1, 3>),

    INST(mov_repc, 0xD7D4, At<ArRn1, 1>, At<ArStep1, 0>),
    INST(mov, 0x8062, At<ArRn1, 4>, At<ArStep1, 3>, At<ArArp, 8>),
    INST(mov, 0x8063, At<ArRn1, 4>, At<ArStep1, 3>, At<SttMod, 8>),

    INST(mov_repc_to, 0xD3C8, At<MemR7Imm16, 16>, Unused<0>, Unused<1>, Unused<2>),
    INST(mov, 0x5F50, At<ArArpSttMod, 0>, At<MemR7Imm16, 16>),

    INST(mov_repc, 0xD2DC, At<MemR7Imm16, 16>, Unused<0>, Unused<1>, Unused<10>),
    INST(mov, 0x4D90, At<MemR7Imm16, 16>, At<ArArpSttMod, 0>),

    INST(mov_pc, 0x886B, At<Ax, 8>),
    INST(mov_pc, 0x8863, At<Bx, 8>),

    INST(mov_mixp_to, 0x8A73, At<Bx, 3>),
    INST(mov_mixp_r6, 0x4381),
    INST(mov_p0h_to, 0x4382, At<Bx, 0>),
    INST(mov_p0h_r6, 0xD3C2),
    INST(mov_p0h_to, 0x4B60, At<Register, 0>),
    INST(mov_p0, 0x8FD4, At<Ab, 0>),
    INST(mov_p1_to, 0x8FD8, At<Ab, 0>),

    INST(mov2, 0x88D0, At<Px, 1>, At<ArRn2, 8>, At<ArStep2, 2>),
    INST(mov2s, 0x88D1, At<Px, 1>, At<ArRn2, 8>, At<ArStep2, 2>),
    INST(mov2, 0xD292, At<ArRn2, 10>, At<ArStep2, 5>, At<Px, 0>),
    INST(mova, 0x4DC0, At<Ab, 4>, At<ArRn2, 2>, At<ArStep2, 0>),
    INST(mova, 0x4BC0, At<ArRn2, 2>, At<ArStep2, 0>, At<Ab, 4>),

    INST(mov_r6_to, 0xD481, At<Bx, 8>),
    INST(mov_r6_mixp, 0x43C1),
    INST(mov_r6_to, 0x5F00, At<Register, 0>),
    INST(mov_r6, 0x5F60, At<Register, 0>),
    INST(mov_memsp_r6, 0xD29C, Unused<0>, Unused<1>, Unused<10>),
    INST(mov_r6_to, 0x1B00, At<Rn, 0>, At<StepZIDS, 3>),
    INST(mov_r6, 0x1B20, At<Rn, 0>, At<StepZIDS, 3>),

    INST(movs, 0x6300, At<MemImm8, 0>, At<Ab, 11>),
    INST(movs, 0x0180, At<Rn, 0>, At<StepZIDS, 3>, At<Ab, 5>),
    INST(movs, 0x0100, At<Register, 0>, At<Ab, 5>),
    INST(movs_r6_to, 0x5F42, At<Ax, 0>),
    INST(movsi, 0x4080, At<RnOld, 9>, At<Ab, 5>, At<Imm5s, 0>),

    // <<< MOV MOV >>>
    INST(mov2_axh_m_y0_m, 0x4390, At<Axh, 6>, At<ArRn2, 2>, At<ArStep2, 0>),
    INST(mov2_ax_mij, 0x43A0, At<Ab, 3>, At<ArpRn1, 2>, At<ArpStep1, 0>, At<ArpStep1, 1>),
    INST(mov2_ax_mji, 0x43E0, At<Ab, 3>, At<ArpRn1, 2>, At<ArpStep1, 0>, At<ArpStep1, 1>),
    INST(mov2_mij_ax, 0x80C4, At<ArpRn1, 9>, At<ArpStep1, 0>, At<ArpStep1, 8>, At<Ab, 10>),
    INST(mov2_mji_ax, 0xD4C0, At<ArpRn1, 5>, At<ArpStep1, 0>, At<ArpStep1, 1>, At<Ab, 2>),
    INST(mov2_abh_m, 0x9D40, At<Abh, 4>, At<Abh, 2>, At<ArRn1, 1>, At<ArStep1, 0>),
    INST(exchange_iaj, 0x8C60, At<Axh, 4>, At<ArpRn2, 8>, At<ArpStep2, 0>, At<ArpStep2, 2>),
    INST(exchange_riaj, 0x7F80, At<Axh, 6>, At<ArpRn2, 4>, At<ArpStep2, 0>, At<ArpStep2, 2>),
    INST(exchange_jai, 0x4900, At<Axh, 6>, At<ArpRn2, 4>, At<ArpStep2, 0>, At<ArpStep2, 2>),
    INST(exchange_rjai, 0x4800, At<Axh, 6>, At<ArpRn2, 4>, At<ArpStep2, 0>, At<ArpStep2, 2>),

    // <<< MOVR >>>
    INST(movr, 0x8864, At<ArRn2, 3>, At<ArStep2, 0>, At<Abh, 8>),
    INST(movr, 0x9CE0, At<Rn, 0>, At<StepZIDS, 3>, At<Ax, 8>),
    INST(movr, 0x9CC0, At<Register, 0>, At<Ax, 8>),
    INST(movr, 0x5DF4, At<Bx, 1>, At<Ax, 0>),
    INST(movr_r6_to, 0x8961, At<Ax, 3>),

    // <<< LIM >>>
    INST(lim, 0x49C0, At<Ax, 5>, At<Ax, 4>),

    // <<< Viterbi >>>
    INST(vtrclr0, 0x5F45),
    INST(vtrclr1, 0x5F46),
    INST(vtrclr, 0x5F47),
    INST(vtrmov0, 0xD29A, At<Axl, 0>),
    INST(vtrmov1, 0xD69A, At<Axl, 0>),
    INST(vtrmov, 0xD383, At<Axl, 4>),
    INST(vtrshr, 0xD781),

    // <<< CLRP >>>
    INST(clrp0, 0x5DFE),
    INST(clrp1, 0x5DFD),
    INST(clrp, 0x5DFF),

    // <<< min/max >>>
    INST(max_ge, 0x8460, At<Ax, 8>, At<StepZIDS, 3>),
    INST(max_gt, 0x8660, At<Ax, 8>, At<StepZIDS, 3>),
    INST(min_le, 0x8860, At<Ax, 8>, At<StepZIDS, 3>),
    INST(min_lt, 0x8A60, At<Ax, 8>, At<StepZIDS, 3>),
    INST(max_ge_r0, 0x8060, At<Ax, 8>, At<StepZIDS, 3>),
    INST(max_gt_r0, 0x8260, At<Ax, 8>, At<StepZIDS, 3>),
    INST(min_le_r0, 0x47A0, At<Ax, 3>, At<StepZIDS, 0>),
    INST(min_lt_r0, 0x47A4, At<Ax, 3>, At<StepZIDS, 0>),

    // <<< Division Step >>>
    INST(divs, 0x0E00, At<MemImm8, 0>, At<Ax, 8>),

    // <<< Sqr >>>
    INST(sqr_sqr_add3, 0xD790, At<Ab, 2>, At<Ab, 0>),
    INST(sqr_sqr_add3, 0x4B00, At<ArRn2, 4>, At<ArStep2, 2>, At<Ab, 0>),
    INST(sqr_mpysu_add3a, 0x49C4, At<Ab, 4>, At<Ab, 0>),

    // <<< CMP Extra >>>
    INST(cmp, 0x4D8C, At<Ax, 1>, At<Bx, 0>),
    INST(cmp_b0_b1, 0xD483),
    INST(cmp_b1_b0, 0xD583),
    INST(cmp, 0xDA9A, At<Bx, 10>, At<Ax, 0>),
    INST(cmp_p1_to, 0x8B63, At<Ax, 4>),

    // <<< min||max||vtrshr >>>
    INST(max2_vtr, 0x5E21, At<Ax, 8>),
    INST(min2_vtr, 0x43C2, At<Ax, 0>),
    INST(max2_vtr, 0xD784, At<Ax, 1>, At<Bx, 0>),
    INST(min2_vtr, 0xD4BA, At<Ax, 8>, At<Bx, 0>),
    INST(max2_vtr_movl, 0x4A40, At<Ax, 3>, At<Bx, 4>, At<ArRn1, 1>, At<ArStep1, 0>),
    INST(max2_vtr_movh, 0x4A44, At<Ax, 3>, At<Bx, 4>, At<ArRn1, 1>, At<ArStep1, 0>),
    INST(max2_vtr_movl, 0x4A60, At<Bx, 4>, At<Ax, 3>, At<ArRn1, 1>, At<ArStep1, 0>),
    INST(max2_vtr_movh, 0x4A64, At<Bx, 4>, At<Ax, 3>, At<ArRn1, 1>, At<ArStep1, 0>),
    INST(min2_vtr_movl, 0x4A00, At<Ax, 3>, At<Bx, 4>, At<ArRn1, 1>, At<ArStep1, 0>),
    INST(min2_vtr_movh, 0x4A04, At<Ax, 3>, At<Bx, 4>, At<ArRn1, 1>, At<ArStep1, 0>),
    INST(min2_vtr_movl, 0x4A20, At<Bx, 4>, At<Ax, 3>, At<ArRn1, 1>, At<ArStep1, 0>),
    INST(min2_vtr_movh, 0x4A24, At<Bx, 4>, At<Ax, 3>, At<ArRn1, 1>, At<ArStep1, 0>),
    INST(max2_vtr_movij, 0xD590, At<Ax, 6>, At<Bx, 5>, At<ArpRn1, 2>, At<ArpStep1, 0>, At<ArpStep1, 1>),
    INST(max2_vtr_movji, 0x45A0, At<Ax, 4>, At<Bx, 3>, At<ArpRn1, 2>, At<ArpStep1, 0>, At<ArpStep1, 1>),
    INST(min2_vtr_movij, 0xD2B8, At<Ax, 11>, At<Bx, 10>, At<ArpRn1, 2>, At<ArpStep1, 0>, At<ArpStep1, 1>),
    INST(min2_vtr_movji, 0x45E0, At<Ax, 4>, At<Bx, 3>, At<ArpRn1, 2>, At<ArpStep1, 0>, At<ArpStep1, 1>),

    // <<< MOV ADDSUB >>>
    INST(mov_sv_app, 0x4B40, At<ArRn1, 3>, At<ArStep1, 2>, At<Bx, 0>, BSv, Sub, PP, Add, PP),
    INST(mov_sv_app, 0x9960, At<ArRn1, 4>, At<ArStep1Alt, 3>, At<Bx, 2>, BSv, Sub, PP, Add, PP),
    INST(mov_sv_app, 0x4B42, At<ArRn1, 3>, At<ArStep1, 2>, At<Bx, 0>, BSr, Sub, PP, Add, PP),
    INST(mov_sv_app, 0x99E0, At<ArRn1, 4>, At<ArStep1Alt, 3>, At<Bx, 2>, BSr, Sub, PP, Add, PP),
    INST(mov_sv_app, 0x5F4C, At<ArRn1, 1>, At<ArStep1, 0>, Const<Bx, 0>, BSv, Sub, PP, Sub, PP),
    INST(mov_sv_app, 0x8873, At<ArRn1, 8>, At<ArStep1, 3>, Const<Bx, 1>, BSv, Sub, PP, Sub, PP),
    INST(mov_sv_app, 0x9860, At<ArRn1, 4>, At<ArStep1Alt, 3>, At<Bx, 2>, BSv, Sub, PP, Sub, PP),
    INST(mov_sv_app, 0xDE9C, At<ArRn1, 1>, At<ArStep1, 0>, Const<Bx, 0>, BSr, Sub, PP, Sub, PP),
    INST(mov_sv_app, 0xD4B4, At<ArRn1, 1>, At<ArStep1, 0>, Const<Bx, 1>, BSr, Sub, PP, Sub, PP),
    INST(mov_sv_app, 0x98E0, At<ArRn1, 4>, At<ArStep1Alt, 3>, At<Bx, 2>, BSr, Sub, PP, Sub, PP),

    // <<< CBS >>>
    INST(cbs, 0x9068, At<Axh, 0>, At<CbsCond, 8>),
    INST(cbs, 0xD49E, At<Axh, 8>, At<Bxh, 5>, At<CbsCond, 0>),
    INST(cbs, 0xD5C0, At<ArpRn1, 2>, At<ArpStep1, 0>, At<ArpStep1, 1>, At<CbsCond, 3>),

    // [[[XXX_xy_XXX_xy_XXX]]]
    INST(mma, 0x4D88, AtNamed<Ax, 1>, SX, SY, SX, SY, BZr, Add, PP, Sub, PP),
    INST(mma, 0xD49D, AtNamed<Bx, 5>, SX, SY, SX, SY, BZr, Add, PP, Sub, PP),
    INST(mma, 0x5E24, AtNamed<Ab, 0>, SX, SY, SX, SY, BZr, Add, PP, Add, PP),
    INST(mma, 0x8061, AtNamed<Ab, 8>, SX, SY, SX, SY, BAc, Add, PP, Add, PP),
    INST(mma, 0x8071, AtNamed<Ab, 8>, SX, SY, SX, SY, BAc, Add, PP, Add, PA),
    INST(mma, 0x8461, AtNamed<Ab, 8>, SX, SY, SX, SY, BAc, Sub, PP, Sub, PP),
    INST(mma, 0x8471, AtNamed<Ab, 8>, SX, SY, SX, SY, BAc, Sub, PP, Sub, PA),
    INST(mma, 0xD484, AtNamed<Ab, 0>, SX, SY, SX, SY, BAc, Add, PA, Add, PA),
    INST(mma, 0xD4A0, AtNamed<Ab, 0>, SX, SY, SX, SY, BAc, Add, PP, Sub, PP),
    INST(mma, 0x4D89, AtNamed<Ax, 1>, SX, SY, SX, UY, BZr, Add, PP, Sub, PP),
    INST(mma, 0xD59D, AtNamed<Bx, 5>, SX, SY, SX, UY, BZr, Add, PP, Sub, PP),
    INST(mma, 0x5F24, AtNamed<Ab, 0>, SX, SY, SX, UY, BZr, Add, PP, Add, PP),
    INST(mma, 0x8069, AtNamed<Ab, 8>, SX, SY, SX, UY, BAc, Add, PP, Add, PP),
    INST(mma, 0x8079, AtNamed<Ab, 8>, SX, SY, SX, UY, BAc, Add, PP, Add, PA),
    INST(mma, 0x8469, AtNamed<Ab, 8>, SX, SY, SX, UY, BAc, Sub, PP, Sub, PP),
    INST(mma, 0x8479, AtNamed<Ab, 8>, SX, SY, SX, UY, BAc, Sub, PP, Sub, PA),
    INST(mma, 0xD584, AtNamed<Ab, 0>, SX, SY, SX, UY, BAc, Add, PA, Add, PA),
    INST(mma, 0xD5A0, AtNamed<Ab, 0>, SX, SY, SX, UY, BAc, Add, PP, Sub, PP),

    // [[[XXX_mm_XXX_mm_XXX]]]
    INST(mma, 0xCA00, At<ArpRn1, 5>, At<ArpStep1, 3>, At<ArpStep1, 4>, EMod, EMod, AtNamed<Ab, 6>, UX, SY, UX, SY, BAc, Sub, PP, Sub, PA),
    INST(mma, 0xCA01, At<ArpRn1, 5>, At<ArpStep1, 3>, At<ArpStep1, 4>, EMod, EMod, AtNamed<Ab, 6>, UX, SY, SX, UY, BAc, Sub, PP, Sub, PA),
    INST(mma, 0xCA02, At<ArpRn1, 5>, At<ArpStep1, 3>, At<ArpStep1, 4>, EMod, EMod, AtNamed<Ab, 6>, UX, SY, UX, SY, BAc, Sub, PA, Sub, PA),
    INST(mma, 0xCA03, At<ArpRn1, 5>, At<ArpStep1, 3>, At<ArpStep1, 4>, EMod, EMod, AtNamed<Ab, 6>, UX, SY, SX, UY, BAc, Sub, PA, Sub, PA),
    INST(mma, 0xCA04, At<ArpRn1, 5>, At<ArpStep1, 3>, At<ArpStep1, 4>, EMod, EMod, AtNamed<Ab, 6>, UX, SY, UX, SY, BAc, Add, PP, Add, PA),
    INST(mma, 0xCA05, At<ArpRn1, 5>, At<ArpStep1, 3>, At<ArpStep1, 4>, EMod, EMod, AtNamed<Ab, 6>, UX, SY, SX, UY, BAc, Add, PP, Add, PA),
    INST(mma, 0xCA06, At<ArpRn1, 5>, At<ArpStep1, 3>, At<ArpStep1, 4>, EMod, EMod, AtNamed<Ab, 6>, UX, SY, UX, SY, BAc, Add, PA, Add, PA),
    INST(mma, 0xCA07, At<ArpRn1, 5>, At<ArpStep1, 3>, At<ArpStep1, 4>, EMod, EMod, AtNamed<Ab, 6>, UX, SY, SX, UY, BAc, Add, PA, Add, PA),
    INST(mma, 0xCB00, At<ArpRn1, 5>, At<ArpStep1, 3>, At<ArpStep1, 4>, EMod, EMod, AtNamed<Ab, 6>, SX, SY, UX, SY, BAc, Sub, PP, Sub, PP),
    INST(mma, 0xCB01, At<ArpRn1, 5>, At<ArpStep1, 3>, At<ArpStep1, 4>, EMod, EMod, AtNamed<Ab, 6>, SX, SY, SX, UY, BAc, Sub, PP, Sub, PP),
    INST(mma, 0xCB02, At<ArpRn1, 5>, At<ArpStep1, 3>, At<ArpStep1, 4>, EMod, EMod, AtNamed<Ab, 6>, SX, SY, UX, SY, BAc, Sub, PP, Sub, PA),
    INST(mma, 0xCB03, At<ArpRn1, 5>, At<ArpStep1, 3>, At<ArpStep1, 4>, EMod, EMod, AtNamed<Ab, 6>, SX, SY, SX, UY, BAc, Sub, PP, Sub, PA),
    INST(mma, 0xCB04, At<ArpRn1, 5>, At<ArpStep1, 3>, At<ArpStep1, 4>, EMod, EMod, AtNamed<Ab, 6>, SX, SY, UX, SY, BAc, Add, PP, Add, PP),
    INST(mma, 0xCB05, At<ArpRn1, 5>, At<ArpStep1, 3>, At<ArpStep1, 4>, EMod, EMod, AtNamed<Ab, 6>, SX, SY, SX, UY, BAc, Add, PP, Add, PP),
    INST(mma, 0xCB06, At<ArpRn1, 5>, At<ArpStep1, 3>, At<ArpStep1, 4>, EMod, EMod, AtNamed<Ab, 6>, SX, SY, UX, SY, BAc, Add, PP, Add, PA),
    INST(mma, 0xCB07, At<ArpRn1, 5>, At<ArpStep1, 3>, At<ArpStep1, 4>, EMod, EMod, AtNamed<Ab, 6>, SX, SY, SX, UY, BAc, Add, PP, Add, PA),

    INST(mma, 0x0D30, At<ArpRn1, 3>, At<ArpStep1, 1>, At<ArpStep1, 2>, EMod, DMod, AtNamed<Ax, 0>, SX, SY, SX, UY, BAc, Add, PP, Add, PA),
    INST(mma, 0x0D20, At<ArpRn1, 3>, At<ArpStep1, 1>, At<ArpStep1, 2>, DMod, EMod, AtNamed<Ax, 0>, SX, SY, SX, UY, BAc, Add, PP, Add, PA),
    INST(mma, 0x4B50, At<ArpRn1, 3>, At<ArpStep1, 1>, At<ArpStep1, 2>, DMod, DMod, AtNamed<Ax, 0>, SX, SY, SX, UY, BAc, Add, PP, Add, PA),

    INST(mma, 0x9861, At<ArpRn1, 4>, At<ArpStep1, 2>, At<ArpStep1, 3>, EMod, DMod, AtNamed<Ax, 8>, SX, SY, SX, SY, BAc, Add, PP, Add, PP),
    INST(mma, 0x9862, At<ArpRn1, 4>, At<ArpStep1, 2>, At<ArpStep1, 3>, DMod, EMod, AtNamed<Ax, 8>, SX, SY, SX, SY, BAc, Add, PP, Add, PP),
    INST(mma, 0x9863, At<ArpRn1, 4>, At<ArpStep1, 2>, At<ArpStep1, 3>, DMod, DMod, AtNamed<Ax, 8>, SX, SY, SX, SY, BAc, Add, PP, Add, PP),

    INST(mma, 0x98E1, At<ArpRn1, 4>, At<ArpStep1, 2>, At<ArpStep1, 3>, EMod, DMod, AtNamed<Ax, 8>, SX, SY, SX, SY, BAc, Add, PP, Add, PA),
    INST(mma, 0x98E2, At<ArpRn1, 4>, At<ArpStep1, 2>, At<ArpStep1, 3>, DMod, EMod, AtNamed<Ax, 8>, SX, SY, SX, SY, BAc, Add, PP, Add, PA),
    INST(mma, 0x98E3, At<ArpRn1, 4>, At<ArpStep1, 2>, At<ArpStep1, 3>, DMod, DMod, AtNamed<Ax, 8>, SX, SY, SX, SY, BAc, Add, PP, Add, PA),

    INST(mma, 0x80C8, At<ArpRn1, 2>, At<ArpStep1, 0>, At<ArpStep1, 1>, EMod, EMod, AtNamed<Ab, 10>, SX, SY, SX, SY, BAc, Add, PP, Sub, PP),
    INST(mma, 0x81C8, At<ArpRn1, 2>, At<ArpStep1, 0>, At<ArpStep1, 1>, EMod, EMod, AtNamed<Ab, 10>, SX, SY, SX, SY, BAc, Add, PP, Sub, PA),
    INST(mma, 0x82C8, At<ArpRn1, 2>, At<ArpStep1, 0>, At<ArpStep1, 1>, EMod, EMod, AtNamed<Ab, 10>, SX, SY, SX, SY, BZr, Add, PP, Add, PP),
    INST(mma, 0x83C8, At<ArpRn1, 2>, At<ArpStep1, 0>, At<ArpStep1, 1>, EMod, EMod, AtNamed<Ab, 10>, SX, SY, SX, SY, BZr, Add, PP, Add, PA),

    INST(mma, 0x80C2, At<ArpRn1, 0>, At<ArpStep1, 8>, At<ArpStep1, 9>, EMod, EMod, AtNamed<Ab, 10>, SX, SY, SX, SY, BAc, Add, PP, Add, PA),
    INST(mma, 0x49C8, At<ArpRn1, 2>, At<ArpStep1, 0>, At<ArpStep1, 1>, EMod, EMod, AtNamed<Ab, 4>, SX, SY, SX, SY, BAc, Sub, PP, Sub, PA),
    INST(mma, 0x00C0, At<ArpRn1, 3>, At<ArpStep1, 1>, At<ArpStep1, 2>, EMod, EMod, AtNamed<Ab, 4>, SX, SY, SX, SY, BZr, Add, PP, Sub, PP),
    INST(mma, 0x00C1, At<ArpRn1, 3>, At<ArpStep1, 1>, At<ArpStep1, 2>, EMod, EMod, AtNamed<Ab, 4>, SX, SY, SX, SY, BZr, Add, PP, Sub, PA),
    INST(mma, 0xD7A0, At<ArpRn1, 3>, At<ArpStep1, 1>, At<ArpStep1, 2>, EMod, EMod, AtNamed<Ax, 4>, SX, SY, SX, SY, BSv, Add, PP, Add, PP),
    INST(mma, 0xD7A1, At<ArpRn1, 3>, At<ArpStep1, 1>, At<ArpStep1, 2>, EMod, EMod, AtNamed<Ax, 4>, SX, SY, SX, SY, BSr, Add, PP, Add, PP),

    INST(mma, 0xC800, At<ArpRn2, 4>, At<ArpStep2, 0>, At<ArpStep2, 2>, EMod, EMod, AtNamed<Ab, 6>, SX, SY, SX, SY, BAc, Add, PP, Add, PP),
    INST(mma, 0xC900, At<ArpRn2, 4>, At<ArpStep2, 0>, At<ArpStep2, 2>, EMod, EMod, AtNamed<Ab, 6>, SX, SY, SX, SY, BAc, Sub, PP, Sub, PP),

    // [[[XXX_mx_XXX_xy_XXX]]]
    INST(mma_mx_xy, 0xD5E0, At<ArRn1, 1>, At<ArStep1, 0>, AtNamed<Ax, 3>, SX, SY, SX, SY, BAc, Sub, PP, Sub, PP),
    INST(mma_mx_xy, 0xD5E4, At<ArRn1, 1>, At<ArStep1, 0>, AtNamed<Ax, 3>, SX, SY, SX, SY, BAc, Add, PP, Add, PP),

    // [[[XXX_xy_XXX_mx_XXX]]]
    INST(mma_xy_mx, 0x8862, At<ArRn1, 4>, At<ArStep1, 3>, AtNamed<Ax, 8>, SX, SY, SX, SY, BAc, Sub, PP, Sub, PP),
    INST(mma_xy_mx, 0x8A62, At<ArRn1, 4>, At<ArStep1, 3>, AtNamed<Ax, 8>, SX, SY, SX, SY, BAc, Add, PP, Add, PP),

    // [[[XXX_my_XXX_my_XXX]]]
    INST(mma_my_my, 0x4DA0, At<ArRn1, 3>, At<ArStep1, 2>, AtNamed<Ax, 4>, SX, SY, SX, UY, BAc, Sub, PP, Sub, PP),
    INST(mma_my_my, 0x4DA1, At<ArRn1, 3>, At<ArStep1, 2>, AtNamed<Ax, 4>, SX, SY, SX, UY, BAc, Sub, PP, Sub, PA),
    INST(mma_my_my, 0x4DA2, At<ArRn1, 3>, At<ArStep1, 2>, AtNamed<Ax, 4>, SX, SY, SX, UY, BAc, Add, PP, Add, PP),
    INST(mma_my_my, 0x4DA3, At<ArRn1, 3>, At<ArStep1, 2>, AtNamed<Ax, 4>, SX, SY, SX, UY, BAc, Add, PP, Add, PA),

    INST(mma_my_my, 0x94E0, At<ArRn1, 4>, At<ArStep1, 3>, AtNamed<Ax, 8>, SX, SY, SX, SY, BAc, Sub, PP, Sub, PP),
    INST(mma_my_my, 0x94E1, At<ArRn1, 4>, At<ArStep1, 3>, AtNamed<Ax, 8>, SX, SY, UX, SY, BAc, Sub, PP, Sub, PP),
    INST(mma_my_my, 0x94E2, At<ArRn1, 4>, At<ArStep1, 3>, AtNamed<Ax, 8>, SX, SY, SX, SY, BAc, Sub, PP, Sub, PA),
    INST(mma_my_my, 0x94E3, At<ArRn1, 4>, At<ArStep1, 3>, AtNamed<Ax, 8>, SX, SY, UX, SY, BAc, Sub, PP, Sub, PA),
    INST(mma_my_my, 0x94E4, At<ArRn1, 4>, At<ArStep1, 3>, AtNamed<Ax, 8>, SX, SY, SX, SY, BAc, Add, PP, Add, PP),
    INST(mma_my_my, 0x94E5, At<ArRn1, 4>, At<ArStep1, 3>, AtNamed<Ax, 8>, SX, SY, UX, SY, BAc, Add, PP, Add, PP),
    INST(mma_my_my, 0x94E6, At<ArRn1, 4>, At<ArStep1, 3>, AtNamed<Ax, 8>, SX, SY, SX, SY, BAc, Add, PP, Add, PA),
    INST(mma_my_my, 0x94E7, At<ArRn1, 4>, At<ArStep1, 3>, AtNamed<Ax, 8>, SX, SY, UX, SY, BAc, Add, PP, Add, PA),

    // [[[XXX_xy_XXX_xy_XXX_mov]]]
    INST(mma_mov, 0x4FA0, At<Axh, 6>, At<Bxh, 2>, At<ArRn1, 1>, At<ArStep1, 0>, AtNamed<Ab, 3>, SX, SY, SX, SY, BAc, Add, PP, Add, PP),
    INST(mma_mov, 0xD3A0, At<Axh, 6>, At<Bxh, 2>, At<ArRn1, 1>, At<ArStep1, 0>, AtNamed<Ab, 3>, SX, SY, SX, SY, BAc, Add, PP, Sub, PP),
    INST(mma_mov, 0x80D0, At<Axh, 9>, At<Bxh, 8>, At<ArRn1, 3>, At<ArStep1, 2>, AtNamed<Ax, 10>, SX, SY, SX, SY, BSv, Add, PP, Sub, PP),
    INST(mma_mov, 0x80D1, At<Axh, 9>, At<Bxh, 8>, At<ArRn1, 3>, At<ArStep1, 2>, AtNamed<Ax, 10>, SX, SY, SX, SY, BSr, Add, PP, Sub, PP),
    INST(mma_mov, 0x80D2, At<Axh, 9>, At<Bxh, 8>, At<ArRn1, 3>, At<ArStep1, 2>, AtNamed<Ax, 10>, SX, SY, SX, SY, BSv, Add, PP, Add, PP),
    INST(mma_mov, 0x80D3, At<Axh, 9>, At<Bxh, 8>, At<ArRn1, 3>, At<ArStep1, 2>, AtNamed<Ax, 10>, SX, SY, SX, SY, BSr, Add, PP, Add, PP),
    INST(mma_mov, 0x5818, At<ArRn2, 7>, At<ArStep1, 6>, AtNamed<Ax, 0>, SX, SY, SX, SY, BSv, Add, PP, Sub, PP),
    INST(mma_mov, 0x5838, At<ArRn2, 7>, At<ArStep1, 6>, AtNamed<Ax, 0>, SX, SY, SX, SY, BSr, Add, PP, Sub, PP),

    INST(addhp, 0x90E0, At<ArRn2, 2>, At<ArStep2, 0>, At<Px, 4>, At<Ax, 8>),
    };

#undef INST
#undef EXCEPT
}

// clang-format on

template <typename V>
Matcher<V> Decode(u16 instruction) {
    static const auto table = GetDecodeTable<V>();

    const auto matches_instruction = [instruction](const auto& matcher) {
        return matcher.Matches(instruction);
    };

    auto iter = std::find_if(table.begin(), table.end(), matches_instruction);
    if (iter == table.end()) {
        return Matcher<V>::AllMatcher([](V& v, u16 opcode, u16) { return v.undefined(opcode); });
    } else {
        auto other = std::find_if(iter + 1, table.end(), matches_instruction);
        ASSERT(other == table.end());
        return *iter;
    }
}

template <typename V>
std::vector<Matcher<V>> GetDecoderTable() {
    std::vector<Matcher<V>> table;
    table.reserve(0x10000);
    for (u32 i = 0; i < 0x10000; ++i) {
        table.push_back(Decode<V>((u16)i));
    }
    return table;
}
