#pragma once

#include <array>
#include "common_types.h"
#include "crash.h"

namespace Teakra {

class MemoryInterfaceUnit {
public:
    u16 x_page = 0, y_page = 0, z_page = 0;
    static constexpr u16 XYSizeResolution = 0x400;
    std::array<u16, 2> x_size{{0x20, 0x20}};
    std::array<u16, 2> y_size{{0x1E, 0x1E}};
    u16 page_mode = 0;
    u16 mmio_base = 0x8000;

    static constexpr u16 MMIOSize = 0x0800;
    static constexpr u32 DataMemoryOffset = 0x20000;
    static constexpr u32 DataMemoryBankSize = 0x10000;

    void Reset() {
        *this = MemoryInterfaceUnit();
    }

    bool InMMIO(u16 addr) const {
        return addr >= mmio_base && addr < mmio_base + MMIOSize;
    }
    u16 ToMMIO(u16 addr) const {
        ASSERT(z_page == 0);
        // according to GBATek ("DSi Teak I/O Ports (on ARM9 Side)"), these are mirrored
        return (addr - mmio_base) & (MMIOSize - 1);
    }

    u32 ConvertDataAddress(u16 addr) const {
        if (page_mode == 0) {
            ASSERT(z_page < 2);
            return DataMemoryOffset + addr + z_page * DataMemoryBankSize;
        } else {
            if (addr <= x_size[0] * XYSizeResolution) {
                ASSERT(x_page < 2);
                return DataMemoryOffset + addr + x_page * DataMemoryBankSize;
            } else {
                ASSERT(y_page < 2);
                return DataMemoryOffset + addr + y_page * DataMemoryBankSize;
            }
        }
    }
};

struct SharedMemory;
class MMIORegion;

class MemoryInterface {
public:
    MemoryInterface(SharedMemory& shared_memory, MemoryInterfaceUnit& memory_interface_unit);
    void SetMMIO(MMIORegion& mmio);
    u16 ProgramRead(u32 address) const;
    void ProgramWrite(u32 address, u16 value);
    u16 DataRead(u16 address, bool bypass_mmio = false); // not const because it can be a FIFO register
    void DataWrite(u16 address, u16 value, bool bypass_mmio = false);
    u16 DataReadA32(u32 address) const;
    void DataWriteA32(u32 address, u16 value);
    u16 MMIORead(u16 address);
    void MMIOWrite(u16 address, u16 value);

private:
    SharedMemory& shared_memory;
    MemoryInterfaceUnit& memory_interface_unit;
    MMIORegion* mmio;
};

} // namespace Teakra
