#pragma once

#include <array>
#include <cstdio>
#include <type_traits>

#ifndef COMMON_TYPE_3DS
#include "common_types.h"
#endif

constexpr u16 TestSpaceX = 0x6400;
constexpr u16 TestSpaceY = 0xCC00;
constexpr u16 TestSpaceSize = 0x0200;

struct State {
    std::array<u64, 2> a, b;
    std::array<u32, 2> p;
    std::array<u16, 8> r;
    std::array<u16, 2> x, y;
    u16 stepi0, stepj0, mixp, sv, repc, lc;
    u16 cfgi, cfgj;
    u16 stt0, stt1, stt2;
    u16 mod0, mod1, mod2;
    std::array<u16, 2> ar;
    std::array<u16, 4> arp;

    std::array<u16, TestSpaceSize> test_space_x;
    std::array<u16, TestSpaceSize> test_space_y;
};

static_assert(std::is_trivially_copyable_v<State>);

struct TestCase {
    State before, after;
    u16 opcode, expand;
};

static_assert(sizeof(TestCase) == 4312);
static_assert(std::is_trivially_copyable_v<TestCase>);

struct fclose_deleter {
    void operator()(std::FILE* f) const {
        std::fclose(f);
    }
};
