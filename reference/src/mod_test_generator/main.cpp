#include <cstdio>
#include <cstdlib>
#include <memory>
#include "../test.h"

int main(int argc, char** argv) {
    if (argc < 2) {
        std::fprintf(stderr, "A file path argument must be provided. Exiting...\n");
        return -1;
    }

    std::unique_ptr<std::FILE, fclose_deleter> f{std::fopen(argv[1], "wb")};
    if (!f) {
        std::fprintf(stderr, "Unable to open file %s. Exiting...\n", argv[1]);
        return -2;
    }

    TestCase test_case{};
    test_case.opcode = 0x4DA0; // mpy  y0, MemR04@3 || mpyus y1, MemR04@3offsZI@2 || sub3  p0, p1,
                               // Ax@4 || R04@3stepII2@2
    test_case.expand = 0;
    test_case.before.mod2 = 1; // enable mod for r0; disable brv
    for (u16 i = 0; i < TestSpaceSize; ++i) {
        test_case.before.test_space_x[i] = TestSpaceX + i;
    }
    for (u16 i = 0; i < 0x20; ++i) {
        test_case.before.r[0] = TestSpaceX + i + 0xF0;
        for (u16 legacy = 0; legacy < 2; ++legacy) {
            test_case.before.mod1 = legacy << 13;
            for (u16 offset_mode = 0; offset_mode < 4; ++offset_mode) {
                for (u16 step_mode = 0; step_mode < 8; ++step_mode) {
                    /*!!!*/ if (step_mode == 3)
                        continue;
                    test_case.before.ar[0] = (step_mode << 5) | (offset_mode << 8);
                    u16 step_min = 0, step_max = 0x20;
                    if (step_mode != 3) {
                        step_min = step_max = std::rand() % 0x20;
                        ++step_max;
                    }
                    for (u16 step = step_min; step < step_max; ++step) {
                        u16 step_true = SignExtend<5>(step) & 0x7F;
                        for (u16 mod = 0; mod < 0x10; ++mod) {
                            test_case.before.cfgi = step_true | (mod << 7);
                            if (std::fwrite(&test_case, sizeof(test_case), 1, f.get()) == 0) {
                                std::fprintf(stderr,
                                             "Unable to completely write test case. Exiting...\n");
                                return -3;
                            }
                        }
                    }
                }
            }
        }
    }

    return 0;
}
