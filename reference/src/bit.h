#pragma once

#include <limits>
#include <type_traits>
#ifdef _MSC_VER
#include <intrin.h>
#endif

namespace std20 {

// A simple (and not very correct) implementation of C++20's std::log2p1
template <class T>
constexpr T log2p1(T x) noexcept {
    static_assert(std::is_integral_v<T> && std::is_unsigned_v<T>);
    if (x == 0)
        return 0;
#ifdef _MSC_VER
    unsigned long index = 0;
    _BitScanReverse64(&index, x);
    return static_cast<T>(index) + 1;
#else
    return static_cast<T>(std::numeric_limits<unsigned long long>::digits - __builtin_clzll(x));
#endif
}

} // namespace std20
