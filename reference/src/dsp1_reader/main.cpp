#include <cstdio>
#include <cstring>
#include <string>
#include <vector>

#include <teakra/disassembler.h>
#include "../common_types.h"

class Dsp1 {
public:
    Dsp1(std::vector<u8> raw);

    struct Header {
        u8 signature[0x100];
        u8 magic[4];
        u32 binary_size;
        u16 memory_layout;
        u16 padding;
        u8 unknown;
        u8 filter_segment_type;
        u8 num_segments;
        u8 flags;
        u32 filter_segment_address;
        u32 filter_segment_size;
        u64 zero;
        struct Segment {
            u32 offset;
            u32 address;
            u32 size;
            u8 pa, pb, pc;
            u8 memory_type;
            u8 sha256[0x20];
        } segments[10];
    };

    static_assert(sizeof(Header) == 0x300);

    struct Segment {
        std::vector<u8> data;
        u8 memory_type;
        u32 target;
    };

    std::vector<Segment> segments;
    bool recv_data_on_start;
};

Dsp1::Dsp1(std::vector<u8> raw) {
    Header header;
    std::memcpy(&header, raw.data(), sizeof(header));

    recv_data_on_start = (header.flags & 1) != 0;

    printf("Memory layout = %04X\n", header.memory_layout);
    printf("Unk = %02X\n", header.unknown);
    printf("Filter segment type = %d\n", header.filter_segment_type);
    printf("Num segments = %d\n", header.num_segments);
    printf("Flags = %d\n", header.flags);
    printf("Filter address = 2 * %08X\n", header.filter_segment_address);
    printf("Filter size = %08X\n", header.filter_segment_size);

    for (u32 i = 0; i < header.num_segments; ++i) {
        Segment segment;
        segment.data =
            std::vector<u8>(raw.begin() + header.segments[i].offset,
                            raw.begin() + header.segments[i].offset + header.segments[i].size);
        segment.memory_type = header.segments[i].memory_type;
        segment.target = header.segments[i].address; /*header.segments[i].address * 2 +
             (segment.memory_type == 2 ? 0x1FF40000 : 0x1FF00000);*/
        segments.push_back(segment);

        printf("[Segment %d]\n", i);
        printf("memory_type = %d\n", segment.memory_type);
        printf("target = %08X\n", segment.target);
        printf("size = %08X\n", (u32)segment.data.size());
    }
}

int main(int argc, char** argv) {
    if (argc < 3)
        return -1;

    FILE* file = fopen(argv[1], "rb");
    std::vector<u8> raw;
    u8 ch;
    while (fread(&ch, 1, 1, file) == 1) {
        raw.push_back(ch);
    }
    fclose(file);
    Dsp1 dsp(raw);

    file = fopen(argv[2], "wt");

    for (const auto& segment : dsp.segments) {
        if (segment.memory_type == 0 || segment.memory_type == 1) {
            fprintf(file, "\n>>>>>>>> Segment <<<<<<<<\n\n");
            for (unsigned pos = 0; pos < segment.data.size(); pos += 2) {
                u16 opcode = segment.data[pos] | (segment.data[pos + 1] << 8);
                fprintf(file, "%08X  %04X         ", segment.target + pos / 2, opcode);
                bool expand = false;
                u16 expand_value = 0;
                if (Teakra::Disassembler::NeedExpansion(opcode)) {
                    expand = true;
                    pos += 2;
                    expand_value = segment.data[pos] | (segment.data[pos + 1] << 8);
                }
                std::string result = Teakra::Disassembler::Do(opcode, expand_value);
                fprintf(file, "%s\n", result.c_str());
                if (expand) {
                    fprintf(file, "%08X  %04X ^^^\n", segment.target + pos / 2, expand_value);
                }
            }
        }

        if (segment.memory_type == 2) {
            fprintf(file, "\n>>>>>>>> Data Segment <<<<<<<<\n\n");
            for (unsigned pos = 0; pos < segment.data.size(); pos += 2) {
                u16 opcode = segment.data[pos] | (segment.data[pos + 1] << 8);
                fprintf(file, "%08X  %04X\n", segment.target + pos / 2, opcode);
            }
        }
    }

    fclose(file);
}
