#include "interpreter.h"
#include "processor.h"
#include "register.h"

namespace Teakra {

struct Processor::Impl {
    Impl(CoreTiming& core_timing, MemoryInterface& memory_interface)
        : core_timing(core_timing), interpreter(core_timing, regs, memory_interface) {}
    CoreTiming& core_timing;
    RegisterState regs;
    Interpreter interpreter;
};

Processor::Processor(CoreTiming& core_timing, MemoryInterface& memory_interface)
    : impl(new Impl(core_timing, memory_interface)) {}
Processor::~Processor() = default;

void Processor::Reset() {
    impl->regs = RegisterState();
}

void Processor::Run(unsigned cycles) {
    impl->interpreter.Run(cycles);
}

void Processor::SignalInterrupt(u32 i) {
    impl->interpreter.SignalInterrupt(i);
}
void Processor::SignalVectoredInterrupt(u32 address, bool context_switch) {
    impl->interpreter.SignalVectoredInterrupt(address, context_switch);
}

Teakra::RegisterState& Processor::GetRegisterState() {
    return impl->regs;
}

const Teakra::RegisterState& Processor::GetRegisterState() const {
    return impl->regs;
}

} // namespace Teakra
