#pragma once

#include <stdint.h>
#include <stdbool.h>

#ifdef __cplusplus
extern "C" {
#endif

struct TeakraObject;
typedef struct TeakraObject TeakraContext;

typedef void (*Teakra_InterruptCallback)(void* userdata);
typedef void (*Teakra_AudioCallback)(void* userdata, int16_t samples[2]);

typedef uint8_t (*Teakra_AHBMReadCallback8)(void* userdata, uint32_t address);
typedef void (*Teakra_AHBMWriteCallback8)(void* userdata, uint32_t address, uint8_t value);

typedef uint16_t (*Teakra_AHBMReadCallback16)(void* userdata, uint32_t address);
typedef void (*Teakra_AHBMWriteCallback16)(void* userdata, uint32_t address, uint16_t value);

typedef uint32_t (*Teakra_AHBMReadCallback32)(void* userdata, uint32_t address);
typedef void (*Teakra_AHBMWriteCallback32)(void* userdata, uint32_t address, uint32_t value);

TeakraContext* Teakra_Create();
void Teakra_Destroy(TeakraContext* context);
void Teakra_Reset(TeakraContext* context);
uint8_t* Teakra_GetDspMemory(TeakraContext* context);

int Teakra_SendDataIsEmpty(const TeakraContext* context, uint8_t index);
void Teakra_SendData(TeakraContext* context, uint8_t index, uint16_t value);
int Teakra_RecvDataIsReady(const TeakraContext* context, uint8_t index);
uint16_t Teakra_RecvData(TeakraContext* context, uint8_t index);
uint16_t Teakra_PeekRecvData(TeakraContext* context, uint8_t index);
void Teakra_SetRecvDataHandler(TeakraContext* context, uint8_t index,
                               Teakra_InterruptCallback handler, void* userdata);

void Teakra_SetSemaphore(TeakraContext* context, uint16_t value);
void Teakra_ClearSemaphore(TeakraContext* context, uint16_t value);
void Teakra_MaskSemaphore(TeakraContext* context, uint16_t value);
void Teakra_SetSemaphoreHandler(TeakraContext* context, Teakra_InterruptCallback handler,
                                void* userdata);
uint16_t Teakra_GetSemaphore(const TeakraContext* context);

uint16_t Teakra_ProgramRead(TeakraContext* context, uint32_t address);
void Teakra_ProgramWrite(TeakraContext* context, uint32_t address, uint16_t value);
uint16_t Teakra_DataRead(TeakraContext* context, uint16_t address, bool bypass_mmio);
void Teakra_DataWrite(TeakraContext* context, uint16_t address, uint16_t value, bool bypass_mmio);
uint16_t Teakra_DataReadA32(TeakraContext* context, uint32_t address);
void Teakra_DataWriteA32(TeakraContext* context, uint32_t address, uint16_t value);
uint16_t Teakra_MMIORead(TeakraContext* context, uint16_t address);
void Teakra_MMIOWrite(TeakraContext* context, uint16_t address, uint16_t value);

uint16_t Teakra_DMAChan0GetSrcHigh(TeakraContext* context);
uint16_t Teakra_DMAChan0GetDstHigh(TeakraContext* context);

uint16_t Teakra_AHBMGetUnitSize(TeakraContext* context, uint16_t i);
uint16_t Teakra_AHBMGetDirection(TeakraContext* context, uint16_t i);
uint16_t Teakra_AHBMGetDmaChannel(TeakraContext* context, uint16_t i);

uint16_t Teakra_AHBMRead16(TeakraContext* context, uint32_t addr);
void Teakra_AHBMWrite16(TeakraContext* context, uint32_t addr, uint16_t value);
uint16_t Teakra_AHBMRead32(TeakraContext* context, uint32_t addr);
void Teakra_AHBMWrite32(TeakraContext* context, uint32_t addr, uint32_t value);


void Teakra_Run(TeakraContext* context, unsigned cycle);

void Teakra_SetAHBMCallback(TeakraContext* context,
                            Teakra_AHBMReadCallback8  read8 , Teakra_AHBMWriteCallback8  write8 ,
                            Teakra_AHBMReadCallback16 read16, Teakra_AHBMWriteCallback16 write16,
                            Teakra_AHBMReadCallback32 read32, Teakra_AHBMWriteCallback32 write32,
                            void* userdata);


void Teakra_SetAudioCallback(TeakraContext* context, Teakra_AudioCallback callback, void* userdata);
#ifdef __cplusplus
}
#endif
