#pragma once

#include <algorithm>
#include <array>
#include <memory>
#include <vector>
#include "../../../src/common_types.h"
#include "../../../src/crash.h"
#include "../../../src/operand.h"

namespace Teakra {

struct RegisterState {
    void Reset() {
        *this = RegisterState();
    }

    /** Program control unit **/

    u32 pc = 0;     // 18-bit, program counter
    u16 prpage = 0; // 4-bit, program page
    u16 cpc = 1;    // 1-bit, change word order when push/pop pc

    u16 repc = 0;     // 16-bit rep loop counter
    u16 repcs = 0;    // repc shadow
    bool rep = false; // true when in rep loop
    u16 crep = 1;     // 1-bit. If clear, store/restore repc to shadows on context switch

    u16 bcn = 0; // 3-bit, nest loop counter
    u16 lp = 0;  // 1-bit, set when in a loop

    struct BlockRepeatFrame {
        u32 start = 0;
        u32 end = 0;
        u16 lc = 0;
    };

    std::array<BlockRepeatFrame, 4> bkrep_stack;
    u16& Lc() {
        if (lp)
            return bkrep_stack[bcn - 1].lc;
        return bkrep_stack[0].lc;
    }

    /** Computation unit **/

    // 40-bit 2's comp accumulators.
    // Use 64-bit 2's comp here. The upper 24 bits are always sign extension
    std::array<u64, 2> a{};
    std::array<u64, 2> b{};

    u64 a1s = 0, b1s = 0; // shadows for a1 and b1
    u16 ccnta = 1;        // 1-bit. If clear, store/restore a1/b1 to shadows on context switch

    u16 sat = 0;  // 1-bit, disable saturation when moving from acc
    u16 sata = 1; // 1-bit, disable saturation when moving to acc
    u16 s = 0;    // 1-bit, shift mode. 0 - arithmetic, 1 - logic
    u16 sv = 0;   // 16-bit two's complement shift value

    // 1-bit flags
    u16 fz = 0;  // zero flag
    u16 fm = 0;  // negative flag
    u16 fn = 0;  // normalized flag
    u16 fv = 0;  // overflow flag
    u16 fe = 0;  // extension flag
    u16 fc0 = 0; // carry flag
    u16 fc1 = 0; // another carry flag
    u16 flm = 0; // set on saturation
    u16 fvl = 0; // latching fv
    u16 fr = 0;  // Rn zero flag

    // Viterbi
    u16 vtr0 = 0;
    u16 vtr1 = 0;

    /** Multiplication unit **/

    std::array<u16, 2> x{};  // factor
    std::array<u16, 2> y{};  // factor
    u16 hwm = 0;             // 2-bit, half word mode, modify y on multiplication
    std::array<u32, 2> p{};  // product
    std::array<u16, 2> pe{}; // 1-bit product extension
    std::array<u16, 2> ps{}; // 2-bit, product shift mode
    u16 p0h_cbs = 0;         // 16-bit hidden state for codebook search (CBS) opcode

    /** Address unit **/

    std::array<u16, 8> r{}; // 16-bit general and address registers
    u16 mixp = 0;           // 16-bit, stores result of min/max instructions
    u16 sp = 0;             // 16-bit stack pointer
    u16 page = 0;           // 8-bit, higher part of MemImm8 address
    u16 pcmhi = 0;          // 2-bit, higher part of program address for movp/movd

    // shadows for bank exchange;
    u16 r0b = 0, r1b = 0, r4b = 0, r7b = 0;

    /** Address step/mod unit **/

    // step/modulo
    u16 stepi = 0, stepj = 0;   // 7-bit step
    u16 modi = 0, modj = 0;     // 9-bit mod
    u16 stepi0 = 0, stepj0 = 0; // 16-bit step

    // shadows for bank exchange
    u16 stepib = 0, stepjb = 0;
    u16 modib = 0, modjb = 0;
    u16 stepi0b = 0, stepj0b = 0;

    std::array<u16, 8> m{};  // 1-bit each, enable modulo arithmetic for Rn
    std::array<u16, 8> br{}; // 1-bit each, use bit-reversed value from Rn as address
    u16 stp16 = 0; // 1 bit. If set, stepi0/j0 will be exchanged along with cfgi/j in banke, and use
                   // stepi0/j0 for steping
    u16 cmd = 1;   // 1-bit, step/mod method. 0 - Teak; 1 - TeakLite
    u16 epi = 0;   // 1-bit. If set, cause r3 = 0 when steping r3
    u16 epj = 0;   // 1-bit. If set, cause r7 = 0 when steping r7

    /** Indirect address unit **/

    // 3 bits each
    // 0: +0
    // 1: +1
    // 2: -1
    // 3: +s
    // 4: +2
    // 5: -2
    // 6: +2*
    // 7: -2*
    std::array<u16, 4> arstep{{1, 4, 5, 3}}, arpstepi{{1, 4, 5, 3}}, arpstepj{{1, 4, 5, 3}};

    // 2 bits each
    // 0: +0
    // 1: +1
    // 2: -1
    // 3: -1*
    std::array<u16, 4> aroffset{{0, 1, 2, 0}}, arpoffseti{{0, 1, 2, 0}}, arpoffsetj{{0, 1, 2, 0}};

    // 3 bits each, represent r0~r7
    std::array<u16, 4> arrn{{0, 4, 2, 6}};

    // 2 bits each. for i represent r0~r3, for j represents r4~r7
    std::array<u16, 4> arprni{{0, 1, 2, 3}}, arprnj{{0, 1, 2, 3}};

    /** Interrupt unit **/

    // interrupt pending bit
    std::array<u16, 3> ip{};
    u16 ipv = 0;

    // interrupt enable bit
    std::array<u16, 3> im{};
    u16 imv = 0;

    // interrupt context switching bit
    std::array<u16, 3> ic{};
    u16 nimc = 0;

    // interrupt enable master bit
    u16 ie = 0;

    /** Extension unit **/

    std::array<u16, 5> ou{}; // user output pins
    std::array<u16, 2> iu{}; // user input pins
    std::array<u16, 4> ext{};

    u16 mod0_unk_const = 1; // 3-bit

    /** Shadow registers **/

    template <u16 RegisterState::* origin>
    class ShadowRegister {
    public:
        void Store(RegisterState* self) {
            shadow = self->*origin;
        }
        void Restore(RegisterState* self) {
            self->*origin = shadow;
        }

    private:
        u16 shadow = 0;
    };

    template <std::size_t size, std::array<u16, size> RegisterState::* origin>
    class ShadowArrayRegister {
    public:
        void Store(RegisterState* self) {
            shadow = self->*origin;
        }
        void Restore(RegisterState* self) {
            self->*origin = shadow;
        }

    private:
        std::array<u16, size> shadow{};
    };

    template <typename... ShadowRegisters>
    class ShadowRegisterList : private ShadowRegisters... {
    public:
        void Store(RegisterState* self) {
            (ShadowRegisters::Store(self), ...);
        }
        void Restore(RegisterState* self) {
            (ShadowRegisters::Restore(self), ...);
        }
    };

    template <u16 RegisterState::* origin>
    class ShadowSwapRegister {
    public:
        void Swap(RegisterState* self) {
            std::swap(self->*origin, shadow);
        }

    private:
        u16 shadow = 0;
    };

    template <std::size_t size, std::array<u16, size> RegisterState::* origin>
    class ShadowSwapArrayRegister {
    public:
        void Swap(RegisterState* self) {
            std::swap(self->*origin, shadow);
        }

    private:
        std::array<u16, size> shadow{};
    };

    template <typename... ShadowSwapRegisters>
    class ShadowSwapRegisterList : private ShadowSwapRegisters... {
    public:
        void Swap(RegisterState* self) {
            (ShadowSwapRegisters::Swap(self), ...);
        }
    };

    // clang-format off

    ShadowRegisterList<
        ShadowRegister<&RegisterState::flm>,
        ShadowRegister<&RegisterState::fvl>,
        ShadowRegister<&RegisterState::fe>,
        ShadowRegister<&RegisterState::fc0>,
        ShadowRegister<&RegisterState::fc1>,
        ShadowRegister<&RegisterState::fv>,
        ShadowRegister<&RegisterState::fn>,
        ShadowRegister<&RegisterState::fm>,
        ShadowRegister<&RegisterState::fz>,
        ShadowRegister<&RegisterState::fr>
    > shadow_registers;

    ShadowSwapRegisterList<
        ShadowSwapRegister<&RegisterState::pcmhi>,
        ShadowSwapRegister<&RegisterState::sat>,
        ShadowSwapRegister<&RegisterState::sata>,
        ShadowSwapRegister<&RegisterState::hwm>,
        ShadowSwapRegister<&RegisterState::s>,
        ShadowSwapArrayRegister<2, &RegisterState::ps>,
        ShadowSwapRegister<&RegisterState::page>,
        ShadowSwapRegister<&RegisterState::stp16>,
        ShadowSwapRegister<&RegisterState::cmd>,
        ShadowSwapArrayRegister<8, &RegisterState::m>,
        ShadowSwapArrayRegister<8, &RegisterState::br>,
        ShadowSwapArrayRegister<3, &RegisterState::im>, // ?
        ShadowSwapRegister<&RegisterState::imv>,        // ?
        ShadowSwapRegister<&RegisterState::epi>,
        ShadowSwapRegister<&RegisterState::epj>
    > shadow_swap_registers;

    // clang-format on

    template <unsigned index>
    class ShadowSwapAr {
    public:
        void Swap(RegisterState* self) {
            std::swap(self->arrn[index * 2], rni);
            std::swap(self->arrn[index * 2 + 1], rnj);
            std::swap(self->arstep[index * 2], stepi);
            std::swap(self->arstep[index * 2 + 1], stepj);
            std::swap(self->aroffset[index * 2], offseti);
            std::swap(self->aroffset[index * 2 + 1], offsetj);
        }

    private:
        u16 rni, rnj, stepi, stepj, offseti, offsetj;
    };

    template <unsigned index>
    class ShadowSwapArp {
    public:
        void Swap(RegisterState* self) {
            std::swap(self->arprni[index], rni);
            std::swap(self->arprnj[index], rnj);
            std::swap(self->arpstepi[index], stepi);
            std::swap(self->arpstepj[index], stepj);
            std::swap(self->arpoffseti[index], offseti);
            std::swap(self->arpoffsetj[index], offsetj);
        }

    private:
        u16 rni, rnj, stepi, stepj, offseti, offsetj;
    };

    ShadowSwapAr<0> shadow_swap_ar0;
    ShadowSwapAr<1> shadow_swap_ar1;
    ShadowSwapArp<0> shadow_swap_arp0;
    ShadowSwapArp<1> shadow_swap_arp1;
    ShadowSwapArp<2> shadow_swap_arp2;
    ShadowSwapArp<3> shadow_swap_arp3;

    void ShadowStore() {
        shadow_registers.Store(this);
    }

    void ShadowRestore() {
        shadow_registers.Restore(this);
    }

    void SwapAllArArp() {
        shadow_swap_ar0.Swap(this);
        shadow_swap_ar1.Swap(this);
        shadow_swap_arp0.Swap(this);
        shadow_swap_arp1.Swap(this);
        shadow_swap_arp2.Swap(this);
        shadow_swap_arp3.Swap(this);
    }

    void ShadowSwap() {
        shadow_swap_registers.Swap(this);
        SwapAllArArp();
    }

    void SwapAr(u16 index) {
        switch (index) {
        case 0:
            shadow_swap_ar0.Swap(this);
            break;
        case 1:
            shadow_swap_ar1.Swap(this);
            break;
        }
    }

    void SwapArp(u16 index) {
        switch (index) {
        case 0:
            shadow_swap_arp0.Swap(this);
            break;
        case 1:
            shadow_swap_arp1.Swap(this);
            break;
        case 2:
            shadow_swap_arp2.Swap(this);
            break;
        case 3:
            shadow_swap_arp3.Swap(this);
            break;
        }
    }

    bool ConditionPass(Cond cond) const {
        switch (cond.GetName()) {
        case CondValue::True:
            return true;
        case CondValue::Eq:
            return fz == 1;
        case CondValue::Neq:
            return fz == 0;
        case CondValue::Gt:
            return fz == 0 && fm == 0;
        case CondValue::Ge:
            return fm == 0;
        case CondValue::Lt:
            return fm == 1;
        case CondValue::Le:
            return fm == 1 || fz == 1;
        case CondValue::Nn:
            return fn == 0;
        case CondValue::C:
            return fc0 == 1;
        case CondValue::V:
            return fv == 1;
        case CondValue::E:
            return fe == 1;
        case CondValue::L:
            return flm == 1 || fvl == 1;
        case CondValue::Nr:
            return fr == 0;
        case CondValue::Niu0:
            return iu[0] == 0;
        case CondValue::Iu0:
            return iu[0] == 1;
        case CondValue::Iu1:
            return iu[1] == 1;
        default:
            UNREACHABLE();
        }
    }

    template <typename PseudoRegisterT>
    u16 Get() const {
        return PseudoRegisterT::Get(this);
    }

    template <typename PseudoRegisterT>
    void Set(u16 value) {
        PseudoRegisterT::Set(this, value);
    }
};

template <u16 RegisterState::* target>
struct Redirector {
    static u16 Get(const RegisterState* self) {
        return self->*target;
    }
    static void Set(RegisterState* self, u16 value) {
        self->*target = value;
    }
};

template <std::size_t size, std::array<u16, size> RegisterState::* target, std::size_t index>
struct ArrayRedirector {
    static u16 Get(const RegisterState* self) {
        return (self->*target)[index];
    }
    static void Set(RegisterState* self, u16 value) {
        (self->*target)[index] = value;
    }
};

template <u16 RegisterState::* target0, u16 RegisterState::* target1>
struct DoubleRedirector {
    static u16 Get(const RegisterState* self) {
        return self->*target0 | self->*target1;
    }
    static void Set(RegisterState* self, u16 value) {
        self->*target0 = self->*target1 = value;
    }
};

template <u16 RegisterState::* target>
struct RORedirector {
    static u16 Get(const RegisterState* self) {
        return self->*target;
    }
    static void Set(RegisterState*, u16) {
        // no
    }
};

template <std::size_t size, std::array<u16, size> RegisterState::* target, std::size_t index>
struct ArrayRORedirector {
    static u16 Get(const RegisterState* self) {
        return (self->*target)[index];
    }
    static void Set(RegisterState*, u16) {
        // no
    }
};

template <unsigned index>
struct AccEProxy {
    static u16 Get(const RegisterState* self) {
        return (u16)((self->a[index] >> 32) & 0xF);
    }
    static void Set(RegisterState* self, u16 value) {
        u32 value32 = SignExtend<4>((u32)value);
        self->a[index] &= 0xFFFFFFFF;
        self->a[index] |= (u64)value32 << 32;
    }
};

struct LPRedirector {
    static u16 Get(const RegisterState* self) {
        return self->lp;
    }
    static void Set(RegisterState* self, u16 value) {
        if (value != 0) {
            self->lp = 0;
            self->bcn = 0;
        }
    }
};

template <typename Proxy, unsigned position, unsigned length>
struct ProxySlot {
    using proxy = Proxy;
    static constexpr unsigned pos = position;
    static constexpr unsigned len = length;
    static_assert(length < 16, "Error");
    static_assert(position + length <= 16, "Error");
    static constexpr u16 mask = ((1 << length) - 1) << position;
};

template <typename... ProxySlots>
struct PseudoRegister {
    static_assert(NoOverlap<u16, ProxySlots::mask...>, "Error");
    static u16 Get(const RegisterState* self) {
        return ((ProxySlots::proxy::Get(self) << ProxySlots::pos) | ...);
    }
    static void Set(RegisterState* self, u16 value) {
        (ProxySlots::proxy::Set(self, (value >> ProxySlots::pos) & ((1 << ProxySlots::len) - 1)),
         ...);
    }
};

// clang-format off

using cfgi = PseudoRegister<
    ProxySlot<Redirector<&RegisterState::stepi>, 0, 7>,
    ProxySlot<Redirector<&RegisterState::modi>, 7, 9>
>;

using cfgj = PseudoRegister<
    ProxySlot<Redirector<&RegisterState::stepj>, 0, 7>,
    ProxySlot<Redirector<&RegisterState::modj>, 7, 9>
>;

using stt0 = PseudoRegister<
    ProxySlot<Redirector<&RegisterState::flm>, 0, 1>,
    ProxySlot<Redirector<&RegisterState::fvl>, 1, 1>,
    ProxySlot<Redirector<&RegisterState::fe>, 2, 1>,
    ProxySlot<Redirector<&RegisterState::fc0>, 3, 1>,
    ProxySlot<Redirector<&RegisterState::fv>, 4, 1>,
    ProxySlot<Redirector<&RegisterState::fn>, 5, 1>,
    ProxySlot<Redirector<&RegisterState::fm>, 6, 1>,
    ProxySlot<Redirector<&RegisterState::fz>, 7, 1>,
    ProxySlot<Redirector<&RegisterState::fc1>, 11, 1>
>;
using stt1 = PseudoRegister<
    ProxySlot<Redirector<&RegisterState::fr>, 4, 1>,
    ProxySlot<ArrayRORedirector<2, &RegisterState::iu, 0>, 10, 1>,
    ProxySlot<ArrayRORedirector<2, &RegisterState::iu, 1>, 11, 1>,
    ProxySlot<ArrayRedirector<2, &RegisterState::pe, 0>, 14, 1>,
    ProxySlot<ArrayRedirector<2, &RegisterState::pe, 1>, 15, 1>
>;
using stt2 = PseudoRegister<
    ProxySlot<ArrayRORedirector<3, &RegisterState::ip, 0>, 0, 1>,
    ProxySlot<ArrayRORedirector<3, &RegisterState::ip, 1>, 1, 1>,
    ProxySlot<ArrayRORedirector<3, &RegisterState::ip, 2>, 2, 1>,
    ProxySlot<RORedirector<&RegisterState::ipv>, 3, 1>,

    ProxySlot<Redirector<&RegisterState::pcmhi>, 6, 2>,

    ProxySlot<RORedirector<&RegisterState::bcn>, 12, 3>,
    ProxySlot<LPRedirector, 15, 1>
>;
using mod0 = PseudoRegister<
    ProxySlot<Redirector<&RegisterState::sat>, 0, 1>,
    ProxySlot<Redirector<&RegisterState::sata>, 1, 1>,
    ProxySlot<RORedirector<&RegisterState::mod0_unk_const>, 2, 3>,
    ProxySlot<Redirector<&RegisterState::hwm>, 5, 2>,
    ProxySlot<Redirector<&RegisterState::s>, 7, 1>,
    ProxySlot<ArrayRedirector<5, &RegisterState::ou, 0>, 8, 1>,
    ProxySlot<ArrayRedirector<5, &RegisterState::ou, 1>, 9, 1>,
    ProxySlot<ArrayRedirector<2, &RegisterState::ps, 0>, 10, 2>,

    ProxySlot<ArrayRedirector<2, &RegisterState::ps, 1>, 13, 2>
>;
using mod1 = PseudoRegister<
    ProxySlot<Redirector<&RegisterState::page>, 0, 8>,

    ProxySlot<Redirector<&RegisterState::stp16>, 12, 1>,
    ProxySlot<Redirector<&RegisterState::cmd>, 13, 1>,
    ProxySlot<Redirector<&RegisterState::epi>, 14, 1>,
    ProxySlot<Redirector<&RegisterState::epj>, 15, 1>
>;
using mod2 = PseudoRegister<
    ProxySlot<ArrayRedirector<8, &RegisterState::m, 0>, 0, 1>,
    ProxySlot<ArrayRedirector<8, &RegisterState::m, 1>, 1, 1>,
    ProxySlot<ArrayRedirector<8, &RegisterState::m, 2>, 2, 1>,
    ProxySlot<ArrayRedirector<8, &RegisterState::m, 3>, 3, 1>,
    ProxySlot<ArrayRedirector<8, &RegisterState::m, 4>, 4, 1>,
    ProxySlot<ArrayRedirector<8, &RegisterState::m, 5>, 5, 1>,
    ProxySlot<ArrayRedirector<8, &RegisterState::m, 6>, 6, 1>,
    ProxySlot<ArrayRedirector<8, &RegisterState::m, 7>, 7, 1>,
    ProxySlot<ArrayRedirector<8, &RegisterState::br, 0>, 8, 1>,
    ProxySlot<ArrayRedirector<8, &RegisterState::br, 1>, 9, 1>,
    ProxySlot<ArrayRedirector<8, &RegisterState::br, 2>, 10, 1>,
    ProxySlot<ArrayRedirector<8, &RegisterState::br, 3>, 11, 1>,
    ProxySlot<ArrayRedirector<8, &RegisterState::br, 4>, 12, 1>,
    ProxySlot<ArrayRedirector<8, &RegisterState::br, 5>, 13, 1>,
    ProxySlot<ArrayRedirector<8, &RegisterState::br, 6>, 14, 1>,
    ProxySlot<ArrayRedirector<8, &RegisterState::br, 7>, 15, 1>
>;
using mod3 = PseudoRegister<
    ProxySlot<Redirector<&RegisterState::nimc>, 0, 1>,
    ProxySlot<ArrayRedirector<3, &RegisterState::ic, 0>, 1, 1>,
    ProxySlot<ArrayRedirector<3, &RegisterState::ic, 1>, 2, 1>,
    ProxySlot<ArrayRedirector<3, &RegisterState::ic, 2>, 3, 1>,
    ProxySlot<ArrayRedirector<5, &RegisterState::ou, 2>, 4, 1>,
    ProxySlot<ArrayRedirector<5, &RegisterState::ou, 3>, 5, 1>,
    ProxySlot<ArrayRedirector<5, &RegisterState::ou, 4>, 6, 1>,
    ProxySlot<Redirector<&RegisterState::ie>, 7, 1>,
    ProxySlot<ArrayRedirector<3, &RegisterState::im, 0>, 8, 1>,
    ProxySlot<ArrayRedirector<3, &RegisterState::im, 1>, 9, 1>,
    ProxySlot<ArrayRedirector<3, &RegisterState::im, 2>, 10, 1>,
    ProxySlot<Redirector<&RegisterState::imv>, 11, 1>,

    ProxySlot<Redirector<&RegisterState::ccnta>, 13, 1>,
    ProxySlot<Redirector<&RegisterState::cpc>, 14, 1>,
    ProxySlot<Redirector<&RegisterState::crep>, 15, 1>
>;

using st0 = PseudoRegister<
    ProxySlot<Redirector<&RegisterState::sat>, 0, 1>,
    ProxySlot<Redirector<&RegisterState::ie>, 1, 1>,
    ProxySlot<ArrayRedirector<3, &RegisterState::im, 0>, 2, 1>,
    ProxySlot<ArrayRedirector<3, &RegisterState::im, 1>, 3, 1>,
    ProxySlot<Redirector<&RegisterState::fr>, 4, 1>,
    ProxySlot<DoubleRedirector<&RegisterState::flm, &RegisterState::fvl>, 5, 1>,
    ProxySlot<Redirector<&RegisterState::fe>, 6, 1>,
    ProxySlot<Redirector<&RegisterState::fc0>, 7, 1>,
    ProxySlot<Redirector<&RegisterState::fv>, 8, 1>,
    ProxySlot<Redirector<&RegisterState::fn>, 9, 1>,
    ProxySlot<Redirector<&RegisterState::fm>, 10, 1>,
    ProxySlot<Redirector<&RegisterState::fz>, 11, 1>,
    ProxySlot<AccEProxy<0>, 12, 4>
>;
using st1 = PseudoRegister<
    ProxySlot<Redirector<&RegisterState::page>, 0, 8>,
    // 8, 9: reserved
    ProxySlot<ArrayRedirector<2, &RegisterState::ps, 0>, 10, 2>,
    ProxySlot<AccEProxy<1>, 12, 4>
>;
using st2 = PseudoRegister<
    ProxySlot<ArrayRedirector<8, &RegisterState::m, 0>, 0, 1>,
    ProxySlot<ArrayRedirector<8, &RegisterState::m, 1>, 1, 1>,
    ProxySlot<ArrayRedirector<8, &RegisterState::m, 2>, 2, 1>,
    ProxySlot<ArrayRedirector<8, &RegisterState::m, 3>, 3, 1>,
    ProxySlot<ArrayRedirector<8, &RegisterState::m, 4>, 4, 1>,
    ProxySlot<ArrayRedirector<8, &RegisterState::m, 5>, 5, 1>,
    ProxySlot<ArrayRedirector<3, &RegisterState::im, 2>, 6, 1>,
    ProxySlot<Redirector<&RegisterState::s>, 7, 1>,
    ProxySlot<ArrayRedirector<5, &RegisterState::ou, 0>, 8, 1>,
    ProxySlot<ArrayRedirector<5, &RegisterState::ou, 1>, 9, 1>,
    ProxySlot<ArrayRORedirector<2, &RegisterState::iu, 0>, 10, 1>,
    ProxySlot<ArrayRORedirector<2, &RegisterState::iu, 1>, 11, 1>,
    // 12: reserved
    ProxySlot<ArrayRORedirector<3, &RegisterState::ip, 2>, 13, 1>, // Note the index order!
    ProxySlot<ArrayRORedirector<3, &RegisterState::ip, 0>, 14, 1>,
    ProxySlot<ArrayRORedirector<3, &RegisterState::ip, 1>, 15, 1>
>;
using icr = PseudoRegister<
    ProxySlot<Redirector<&RegisterState::nimc>, 0, 1>,
    ProxySlot<ArrayRedirector<3, &RegisterState::ic, 0>, 1, 1>,
    ProxySlot<ArrayRedirector<3, &RegisterState::ic, 1>, 2, 1>,
    ProxySlot<ArrayRedirector<3, &RegisterState::ic, 2>, 3, 1>,
    ProxySlot<LPRedirector, 4, 1>,
    ProxySlot<RORedirector<&RegisterState::bcn>, 5, 3>
>;

template<unsigned index>
using ar = PseudoRegister<
    ProxySlot<ArrayRedirector<4, &RegisterState::arstep, index * 2 + 1>, 0, 3>,
    ProxySlot<ArrayRedirector<4, &RegisterState::aroffset, index * 2 + 1>, 3, 2>,
    ProxySlot<ArrayRedirector<4, &RegisterState::arstep, index * 2>, 5, 3>,
    ProxySlot<ArrayRedirector<4, &RegisterState::aroffset, index * 2>, 8, 2>,
    ProxySlot<ArrayRedirector<4, &RegisterState::arrn, index * 2 + 1>, 10, 3>,
    ProxySlot<ArrayRedirector<4, &RegisterState::arrn, index * 2>, 13, 3>
>;

using ar0 = ar<0>;
using ar1 = ar<1>;

template<unsigned index>
using arp = PseudoRegister<
    ProxySlot<ArrayRedirector<4, &RegisterState::arpstepi, index>, 0, 3>,
    ProxySlot<ArrayRedirector<4, &RegisterState::arpoffseti, index>, 3, 2>,
    ProxySlot<ArrayRedirector<4, &RegisterState::arpstepj, index>, 5, 3>,
    ProxySlot<ArrayRedirector<4, &RegisterState::arpoffsetj, index>, 8, 2>,
    ProxySlot<ArrayRedirector<4, &RegisterState::arprni, index>, 10, 2>,
    // bit 12 reserved
    ProxySlot<ArrayRedirector<4, &RegisterState::arprnj, index>, 13, 2>
    // bit 15 reserved
>;

using arp0 = arp<0>;
using arp1 = arp<1>;
using arp2 = arp<2>;
using arp3 = arp<3>;

// clang-format on

} // namespace Teakra
