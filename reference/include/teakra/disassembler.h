#pragma once

#include <array>
#include <cstdint>
#include <optional>
#include <string>
#include <vector>

namespace Teakra::Disassembler {

struct ArArpSettings {
    std::array<std::uint16_t, 2> ar;
    std::array<std::uint16_t, 4> arp;
};

bool NeedExpansion(std::uint16_t opcode);
bool NeedExpansion(std::uint16_t opcode);
std::vector<std::string> GetTokenList(std::uint16_t opcode, std::uint16_t expansion = 0,
                                      std::optional<ArArpSettings> ar_arp = std::nullopt);
std::string Do(std::uint16_t opcode, std::uint16_t expansion = 0,
               std::optional<ArArpSettings> ar_arp = std::nullopt);

} // namespace Teakra::Disassembler
