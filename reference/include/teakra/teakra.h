#pragma once

#include <array>
#include <cstdint>
#include <functional>
#include <memory>

namespace Teakra {
struct RegisterState;

struct AHBMCallback {
    std::function<std::uint8_t(std::uint32_t address)> read8;
    std::function<void(std::uint32_t address, std::uint8_t value)> write8;

    std::function<std::uint16_t(std::uint32_t address)> read16;
    std::function<void(std::uint32_t address, std::uint16_t value)> write16;

    std::function<std::uint32_t(std::uint32_t address)> read32;
    std::function<void(std::uint32_t address, std::uint32_t value)> write32;
};

struct UserConfig {
    // DSP memory. By default set to nullptr. If it stays nullptr then Teakra will create its own
    // DSP memory and retain ownership of it. Otherwise, the user will own it.
    std::uint8_t* dsp_memory = nullptr;
};

static constexpr std::uint32_t DspMemorySize = 0x80000;

class Teakra {
public:
    Teakra(const UserConfig& config);
    ~Teakra();

    void Reset();

    uint8_t* GetDspMemory();
    const uint8_t* GetDspMemory() const;

    RegisterState& GetRegisterState();
    const RegisterState& GetRegisterState() const;

    // APBP Data
    bool SendDataIsEmpty(std::uint8_t index) const;
    void SendData(std::uint8_t index, std::uint16_t value);
    bool RecvDataIsReady(std::uint8_t index) const;
    std::uint16_t RecvData(std::uint8_t index);
    std::uint16_t PeekRecvData(std::uint8_t index);
    void SetRecvDataHandler(std::uint8_t index, std::function<void()> handler);

    // APBP Semaphore
    void SetSemaphore(std::uint16_t value);
    void ClearSemaphore(std::uint16_t value);
    void MaskSemaphore(std::uint16_t value);
    void SetSemaphoreHandler(std::function<void()> handler);
    std::uint16_t GetSemaphore() const;

    // for implementing DSP_PDATA/PADR DMA transfers
    std::uint16_t ProgramRead(std::uint32_t address) const;
    void ProgramWrite(std::uint32_t address, std::uint16_t value);
    std::uint16_t DataRead(std::uint16_t address, bool bypass_mmio = false);
    void DataWrite(std::uint16_t address, std::uint16_t value, bool bypass_mmio = false);
    std::uint16_t DataReadA32(std::uint32_t address) const;
    void DataWriteA32(std::uint32_t address, std::uint16_t value);
    std::uint16_t MMIORead(std::uint16_t address);
    void MMIOWrite(std::uint16_t address, std::uint16_t value);

    // DSP_PADR is only 16-bit, so this is where the DMA interface gets the
    // upper 16-bits from
    std::uint16_t DMAChan0GetSrcHigh();
    std::uint16_t DMAChan0GetDstHigh();

    std::uint16_t AHBMGetUnitSize(std::uint16_t i) const;
    std::uint16_t AHBMGetDirection(std::uint16_t i) const;
    std::uint16_t AHBMGetDmaChannel(std::uint16_t i) const;
    // we need these as AHBM does some weird stuff on unaligned accesses internally
    std::uint16_t AHBMRead16(std::uint32_t addr);
    void AHBMWrite16(std::uint32_t addr, std::uint16_t value);
    std::uint16_t AHBMRead32(std::uint32_t addr);
    void AHBMWrite32(std::uint32_t addr, std::uint32_t value);

    // core
    void Run(unsigned cycle);

    void SetAHBMCallback(const AHBMCallback& callback);

    void SetAudioCallback(std::function<void(std::array<std::int16_t, 2>)> callback);

private:
    struct Impl;
    std::unique_ptr<Impl> impl;
};
} // namespace Teakra
