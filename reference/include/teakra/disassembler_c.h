#pragma once

#include <stdbool.h>
#include <stddef.h>
#include <stdint.h>

#ifdef __cplusplus
extern "C" {
#endif

bool Teakra_Disasm_NeedExpansion(uint16_t opcode);

size_t Teakra_Disasm_Do(char* dst, size_t dstlen,
	uint16_t opcode, uint16_t expansion /*= 0*/);

#ifdef __cplusplus
}
#endif
