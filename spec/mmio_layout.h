/* Layout oracle of C12, transcribed once from the register diagrams in /repo/src/{timer,apbp,ahbm,miu,dma,icu,btdmp}.md (not from mmio.cpp):
 * for every MMIO offset, the mask of DOCUMENTED READ/WRITE FIELD bits (0 = no such field at that offset: reserved, read-only status, write-only
 * trigger, FIFO/mailbox port), and the documented coupling relation between registers.  Plain C: compiled by CBMC and by gcc. */
#ifndef VERIF_MMIO_LAYOUT_H
#define VERIF_MMIO_LAYOUT_H
static inline u16 mmio_rw_mask(u16 a)
{
    for (unsigned i = 0; i < 2; i++) {                              /* timer.md */
        u16 b = (u16)(0x20 + 0x10 * i);
        if (a == b) return 0xFBDF;                                  /* TS CM TP CT PC MU BP CS GP TM; RES (bit 10) is a trigger and reads 0 */
        if (a == b + 4 || a == b + 6) return 0xFFFF;                /* START_COUNT_L/H */
        if (a == b + 0xC || a == b + 0xE) return 0xFFFF;            /* PWM_COUNTER_L/H */
    }
    if (a == 0x0CE) return 0xFFFF;                                  /* apbp.md MASK_SEMAPHORE */
    if (a == 0x0D4) return 0x3104;                                  /* CI2 CI1 CI0 END */
    for (unsigned n = 0; n < 3; n++) {                              /* ahbm.md */
        if (a == 0x0E2 + 6 * n) return 0x0036;                      /* TYPE, BURST */
        if (a == 0x0E4 + 6 * n) return 0x0100;                      /* W */
        if (a == 0x0E6 + 6 * n) return 0x00FF;                      /* D7..D0 */
    }
    if (a == 0x10E || a == 0x112) return 0xFFFF;                    /* miu.md XPAGE, ZPAGE */
    if (a == 0x110) return 0x00FF;                                  /* YPAGE */
    if (a == 0x114 || a == 0x116) return 0x3F3F;                    /* X/YPAGEnCFG */
    if (a == 0x11A) return 0x0057;                                  /* PGM ZSP INP TSP PP */
    if (a == 0x11E) return 0xFC00;                                  /* MMIOBASE */
    if (a == 0x184) return 0x00FF;                                  /* dma.md channel enable C7..C0 */
    if (a == 0x1BE) return 0x0007;                                  /* CHANNEL */
    if (a >= 0x1C0 && a <= 0x1D8 && !(a & 1)) return 0xFFFF;        /* SRC/DST_ADDR, SIZE0-2, SRC/DST_STEP0-2 of the selected channel */
    if (a == 0x1DA) return 0x04FF;                                  /* SRC_SPACE DST_SPACE DWM */
    if (a == 0x206 || a == 0x208 || a == 0x20A || a == 0x20C) return 0xFFFF;   /* icu.md enable int0/1/2, vectored */
    for (unsigned n = 0; n < 16; n++) {
        if (a == 0x212 + 4 * n) return 0x8003;                      /* VIC, VADDR_H */
        if (a == 0x214 + 4 * n) return 0xFFFF;                      /* VADDR_L */
    }
    for (unsigned i = 0; i < 2; i++) {                              /* btdmp.md */
        if (a == 0x2A2 + 0x80 * i) return 0xFFFF;                   /* transmit clock configuration */
        if (a == 0x2BE + 0x80 * i) return 0x8000;                   /* TE */
    }
    return 0;
}
/* offsets whose READ has a side effect (mailbox receive): reading them twice is not idempotent by design */
static inline bool mmio_read_has_effect(u16 b) { return b == 0x0C2 || b == 0x0C6 || b == 0x0CA; }
/* documented couplings: may a write of v to a change what b reads?  (a != b) */
static inline bool mmio_coupled(u16 a, u16 v, u16 b)
{
    (void)v;
    for (unsigned i = 0; i < 2; i++) {                              /* timer restart / event / counter mirror */
        u16 t = (u16)(0x20 + 0x10 * i);
        if ((a == t || a == t + 2) && (b == t + 8 || b == t + 0xA)) return 1;
    }
    if (a == 0x1BE && b >= 0x1C0 && b <= 0x1DE) return 1;           /* DMA channel-window select */
    if (a == 0x202 && b == 0x200) return 1;                         /* interrupt acknowledge -> pending */
    if (a == 0x204 && b == 0x200) return 1;                         /* interrupt trigger -> pending */
    if ((a == 0x0C0 || a == 0x0C4 || a == 0x0C8) && (b == 0x0D6 || b == 0x0D8)) return 1;   /* mailbox send -> status */
    if (a == 0x0CC && (b == 0x0D6 || b == 0x0D8)) return 0;         /* DSP->CPU semaphore has no DSP-side status bit */
    if ((a == 0x0CE || a == 0x0D0) && (b == 0x0D2 || b == 0x0D6 || b == 0x0D8)) return 1;   /* semaphore mask / acknowledge -> semaphore word, S bits */
    for (unsigned i = 0; i < 2; i++)                                /* audio FIFO: send / flush -> full/empty status */
        if ((a == 0x2C6 + 0x80 * i || a == 0x2CA + 0x80 * i) && b == 0x2C2 + 0x80 * i) return 1;
    return 0;
}
#endif
