/* C11 spec, from the property statement.  Included after the extracted types. */
#ifndef VERIF_MEM_SPEC_H
#define VERIF_MEM_SPEC_H
extern u8 ghost_g_old;
extern u64 ghost_g;                     /* ghost byte index into DSP memory (arbitrary, fixed per run) */
extern u32 ghost_mmio_reads, ghost_mmio_writes; extern u16 ghost_mmio_addr, ghost_mmio_wval, ghost_mmio_rval;

/* Program word p is bytes 2p, 2p+1 (little endian); data word a of bank z is the word at 0x20000 + 0x10000*z + a (default paging mode) */
static inline u32 spec_program_word(u32 p) { return p; }
static inline u32 spec_data_word(u16 a, u16 z) { return 0x20000u + ((u32)z << 16) + a; }   /* 0x10000 * z, written as a shift */
static inline u32 spec_data_word_a32(u32 a) { return 0x20000u + (a & 0x1FFFFu); }
static inline bool spec_in_mmio(u16 a, u16 base) { return a >= base && (u32)a < (u32)base + 0x800u; }
static inline u16 spec_mmio_offset(u16 a, u16 base) { return (u16)((a - base) & 0x7FF); }
#endif
