/* C20 spec: the status/config words as bit-field views of RegisterState.
 * Layout oracle: (word, bit position, length, field, kind) transcribed from the pinned commit's include/teakra/impl/register.h and
 * cross-checked against the independent symbol strings of src/test_verifier/main.cpp (harness h_layout_strings).  From the layout the
 * spec derives a reader and a writer per word; the PROPERTIES (read-back on writable bits, read-only bits, views agree, ...) are lemmas
 * over the contracts, see harness/c20.c.  Kinds: F read/write field, RO read-only field, DBL one bit backed by two fields (reads OR,
 * writes both), ACCE accumulator extension nibble (sign-extends on write), LP write-one-to-clear of lp (clears bcn too). */
#ifndef VERIF_PSEUDO_SPEC_H
#define VERIF_PSEUDO_SPEC_H
#include "regs_spec.h"
#define PW_WORDS(W) \
  W(cfgi, F(stepi,0,7) F(modi,7,9)) \
  W(cfgj, F(stepj,0,7) F(modj,7,9)) \
  W(stt0, F(flm,0,1) F(fvl,1,1) F(fe,2,1) F(fc0,3,1) F(fv,4,1) F(fn,5,1) F(fm,6,1) F(fz,7,1) F(fc1,11,1)) \
  W(stt1, F(fr,4,1) RO(iu.e[0],10,1) RO(iu.e[1],11,1) F(pe.e[0],14,1) F(pe.e[1],15,1)) \
  W(stt2, RO(ip.e[0],0,1) RO(ip.e[1],1,1) RO(ip.e[2],2,1) RO(ipv,3,1) F(pcmhi,6,2) RO(bcn,12,3) LP(15)) \
  W(mod0, F(sat,0,1) F(sata,1,1) RO(mod0_unk_const,2,3) F(hwm,5,2) F(s,7,1) F(ou.e[0],8,1) F(ou.e[1],9,1) F(ps.e[0],10,2) F(ps.e[1],13,2)) \
  W(mod1, F(page,0,8) F(stp16,12,1) F(cmd,13,1) F(epi,14,1) F(epj,15,1)) \
  W(mod2, F(m.e[0],0,1) F(m.e[1],1,1) F(m.e[2],2,1) F(m.e[3],3,1) F(m.e[4],4,1) F(m.e[5],5,1) F(m.e[6],6,1) F(m.e[7],7,1) \
          F(br.e[0],8,1) F(br.e[1],9,1) F(br.e[2],10,1) F(br.e[3],11,1) F(br.e[4],12,1) F(br.e[5],13,1) F(br.e[6],14,1) F(br.e[7],15,1)) \
  W(mod3, F(nimc,0,1) F(ic.e[0],1,1) F(ic.e[1],2,1) F(ic.e[2],3,1) F(ou.e[2],4,1) F(ou.e[3],5,1) F(ou.e[4],6,1) F(ie,7,1) F(im.e[0],8,1) F(im.e[1],9,1) F(im.e[2],10,1) \
          F(imv,11,1) F(ccnta,13,1) F(cpc,14,1) F(crep,15,1)) \
  W(st0, F(sat,0,1) F(ie,1,1) F(im.e[0],2,1) F(im.e[1],3,1) F(fr,4,1) DBL(flm,fvl,5) F(fe,6,1) F(fc0,7,1) F(fv,8,1) F(fn,9,1) F(fm,10,1) F(fz,11,1) ACCE(0,12)) \
  W(st1, F(page,0,8) F(ps.e[0],10,2) ACCE(1,12)) \
  W(st2, F(m.e[0],0,1) F(m.e[1],1,1) F(m.e[2],2,1) F(m.e[3],3,1) F(m.e[4],4,1) F(m.e[5],5,1) F(im.e[2],6,1) F(s,7,1) F(ou.e[0],8,1) F(ou.e[1],9,1) \
         RO(iu.e[0],10,1) RO(iu.e[1],11,1) RO(ip.e[2],13,1) RO(ip.e[0],14,1) RO(ip.e[1],15,1)) \
  W(ar0, F(arstep.e[1],0,3) F(aroffset.e[1],3,2) F(arstep.e[0],5,3) F(aroffset.e[0],8,2) F(arrn.e[1],10,3) F(arrn.e[0],13,3)) \
  W(ar1, F(arstep.e[3],0,3) F(aroffset.e[3],3,2) F(arstep.e[2],5,3) F(aroffset.e[2],8,2) F(arrn.e[3],10,3) F(arrn.e[2],13,3)) \
  W(arp0, F(arpstepi.e[0],0,3) F(arpoffseti.e[0],3,2) F(arpstepj.e[0],5,3) F(arpoffsetj.e[0],8,2) F(arprni.e[0],10,2) F(arprnj.e[0],13,2)) \
  W(arp1, F(arpstepi.e[1],0,3) F(arpoffseti.e[1],3,2) F(arpstepj.e[1],5,3) F(arpoffsetj.e[1],8,2) F(arprni.e[1],10,2) F(arprnj.e[1],13,2)) \
  W(arp2, F(arpstepi.e[2],0,3) F(arpoffseti.e[2],3,2) F(arpstepj.e[2],5,3) F(arpoffsetj.e[2],8,2) F(arprni.e[2],10,2) F(arprnj.e[2],13,2)) \
  W(arp3, F(arpstepi.e[3],0,3) F(arpoffseti.e[3],3,2) F(arpstepj.e[3],5,3) F(arpoffsetj.e[3],8,2) F(arprni.e[3],10,2) F(arprnj.e[3],13,2))

#define PMASK(len) ((u16)((1u << (len)) - 1))
/* readers */
#define F(f, pos, len) | (u16)((s->f & PMASK(len)) << (pos))
#define RO(f, pos, len) | (u16)((s->f & PMASK(len)) << (pos))
#define DBL(f1, f2, pos) | (u16)(((s->f1 | s->f2) & 1) << (pos))
#define ACCE(i, pos) | (u16)(((s->a.e[i] >> 32) & 0xF) << (pos))
#define LP(pos) | (u16)((s->lp & 1) << (pos))
#define W(name, slots) static inline u16 spec_get_##name(const RegisterState *s) { return (u16)(0 slots); }
PW_WORDS(W)
#undef W
#undef F
#undef RO
#undef DBL
#undef ACCE
#undef LP
/* writers */
#define F(f, pos, len) s.f = (u16)((v >> (pos)) & PMASK(len));
#define RO(f, pos, len)
#define DBL(f1, f2, pos) s.f1 = s.f2 = (u16)((v >> (pos)) & 1);
#define ACCE(i, pos) s.a.e[i] = (s.a.e[i] & 0xFFFFFFFFull) | ((u64)(u32)((((v >> (pos)) & 8) ? 0xFFFFFFF0u : 0u) | ((v >> (pos)) & 0xF)) << 32);
#define LP(pos) if ((v >> (pos)) & 1) { s.lp = 0; s.bcn = 0; }
#define W(name, slots) static inline RegisterState spec_set_##name(RegisterState s, u16 v) { slots return s; }
PW_WORDS(W)
#undef W
#undef F
#undef RO
#undef DBL
#undef ACCE
#undef LP
/* masks: writable bits (read back what was written), read-only bits, all defined bits */
#define F(f, pos, len) | (PMASK(len) << (pos))
#define RO(f, pos, len)
#define DBL(f1, f2, pos) | (1u << (pos))
#define ACCE(i, pos) | (0xFu << (pos))
#define LP(pos)
#define W(name, slots) static inline u16 spec_wmask_##name(void) { return (u16)(0 slots); }
PW_WORDS(W)
#undef W
#undef F
#undef RO
#undef DBL
#undef ACCE
#undef LP
#define F(f, pos, len)
#define RO(f, pos, len) | (PMASK(len) << (pos))
#define DBL(f1, f2, pos)
#define ACCE(i, pos)
#define LP(pos)
#define W(name, slots) static inline u16 spec_romask_##name(void) { return (u16)(0 slots); }
PW_WORDS(W)
#undef W
#undef F
#undef RO
#undef DBL
#undef ACCE
#undef LP
static inline bool eqv_regs3(RegisterState a, RegisterState b) { return eq_RegisterState(&a, &b); }
/* mask of a test_verifier symbol string: every position that is not '#' is a defined bit (string is MSB first) */
static inline u16 spec_string_mask(const char *sym) { u16 m = 0; for (int i = 0; i < 16; i++) if (sym[i] != '#') m |= (u16)(1u << (15 - i)); return m; }
#endif
