/* C16 spec, written from the property statement.  Included after btdmp_types.h. */
#ifndef VERIF_BTDMP_SPEC_H
#define VERIF_BTDMP_SPEC_H
extern int ghost_btdmp_irq;            /* empty-interrupt deliveries */
extern u64 ghost_audio_count;          /* frames delivered to the audio callback */
extern u64 ghost_audio_watch;          /* ghost index: the frame with this ordinal is recorded ...   */
extern s16 ghost_audio_frame[2];       /* ... here (quantifier-free "for every frame n")             */
extern u32 ghost_j;                    /* ghost queue index: an arbitrary position, fixed per run    */

#define BQ(b) (&(b)->transmit_queue)
static inline u16 bq_at(const Btdmp *b, u32 i) { return verif_queue_u16_at(BQ(b), i); }

/* representation invariant of the port: at most 16 words queued, flags exact, a period of at least one cycle */
static inline bool wf_btdmp(const Btdmp *b)
{
    return b->transmit_queue.len <= 16 && b->transmit_queue.head < VERIF_QCAP &&
           b->transmit_full == (b->transmit_queue.len == 16) && b->transmit_empty == (b->transmit_queue.len == 0) &&
           b->transmit_period >= 1 &&
           b->transmit_timer != 0xFFFF;   /* the frame clock never reaches 0xFFFF: Tick and Skip leave it below the period (<= 0xFFFF) */
}
static inline bool btdmp_config_eq(const Btdmp *a, const Btdmp *b)
{
    return a->transmit_clock_config == b->transmit_clock_config && a->transmit_period == b->transmit_period && a->transmit_enable == b->transmit_enable &&
           a->audio_callback.set == b->audio_callback.set && a->interrupt_handler.set == b->interrupt_handler.set && a->base_0.verif_tag == b->base_0.verif_tag;
}
/* abstract equality (the ring's head position is representation, not state): same length and, at the ghost index, the same word */
static inline bool btdmp_queue_eq_at(const Btdmp *a, const Btdmp *b, u32 j)
{
    return a->transmit_queue.len == b->transmit_queue.len && (j >= a->transmit_queue.len || bq_at(a, j) == bq_at(b, j));
}
static inline bool btdmp_eq_at(const Btdmp *a, const Btdmp *b, u32 j)
{
    return btdmp_config_eq(a, b) && a->transmit_timer == b->transmit_timer && a->transmit_empty == b->transmit_empty && a->transmit_full == b->transmit_full &&
           btdmp_queue_eq_at(a, b, j);
}

/* one cycle.  A frame is due when the frame clock reaches the period. */
static inline bool spec_btdmp_fires(const Btdmp *b) { return b->transmit_enable != 0 && (u16)(b->transmit_timer + 1) >= b->transmit_period; }
static inline u32 spec_btdmp_popped(const Btdmp *b) { return b->transmit_queue.len >= 2 ? 2 : b->transmit_queue.len; }

static inline bool post_Btdmp_Tick(Btdmp old, Btdmp now, int irq_old, int irq_now, u64 cnt_old, u64 cnt_now, u32 j, s16 f0_old, s16 f1_old)
{
    bool frame_same = ghost_audio_frame[0] == f0_old && ghost_audio_frame[1] == f1_old;
    if (!btdmp_config_eq(&old, &now)) return false;
    if (old.transmit_enable == 0)
        return btdmp_eq_at(&old, &now, j) && irq_now == irq_old && cnt_now == cnt_old && frame_same;
    if (!spec_btdmp_fires(&old))
        return now.transmit_timer == (u16)(old.transmit_timer + 1) && btdmp_queue_eq_at(&old, &now, j) && now.transmit_empty == old.transmit_empty &&
               now.transmit_full == old.transmit_full && irq_now == irq_old && cnt_now == cnt_old && frame_same;
    u32 n = spec_btdmp_popped(&old);
    /* exactly one frame: the two oldest words in order, zeros for missing words */
    bool frame_ok = old.audio_callback.set == 0 ? (cnt_now == cnt_old && frame_same) :
        (cnt_now == cnt_old + 1 && (ghost_audio_watch != cnt_old ? frame_same :
            (ghost_audio_frame[0] == (n >= 1 ? (s16)bq_at(&old, 0) : 0) && ghost_audio_frame[1] == (n >= 2 ? (s16)bq_at(&old, 1) : 0))));
    /* no word lost, duplicated or reordered: the rest of the queue moves up by n */
    bool queue_ok = now.transmit_queue.len == old.transmit_queue.len - n && now.transmit_queue.head < VERIF_QCAP &&
                    (j >= now.transmit_queue.len || bq_at(&now, j) == bq_at(&old, j + n));
    bool flags_ok = now.transmit_empty == (now.transmit_queue.len == 0) && now.transmit_full == (now.transmit_queue.len == 16);
    /* the empty interrupt fires exactly when a pop empties the queue */
    bool irq_ok = irq_now == irq_old + ((n >= 1 && now.transmit_queue.len == 0) ? 1 : 0);
    return now.transmit_timer == 0 && frame_ok && queue_ok && flags_ok && irq_ok;
}
/* writes to a full 16-word queue are dropped; otherwise the word goes to the back */
static inline bool post_Btdmp_Send(Btdmp old, Btdmp now, u16 v, u32 j)
{
    if (!btdmp_config_eq(&old, &now) || now.transmit_timer != old.transmit_timer) return false;
    if (old.transmit_queue.len == 16) return btdmp_eq_at(&old, &now, j);
    return now.transmit_queue.len == old.transmit_queue.len + 1 && now.transmit_queue.head < VERIF_QCAP &&
           bq_at(&now, old.transmit_queue.len) == v && (j >= old.transmit_queue.len || bq_at(&now, j) == bq_at(&old, j)) &&
           now.transmit_empty == false && now.transmit_full == (now.transmit_queue.len == 16);
}
/* flushing empties the queue silently */
static inline bool post_Btdmp_Flush(Btdmp old, Btdmp now, int irq_old, int irq_now, u64 cnt_old, u64 cnt_now)
{
    return btdmp_config_eq(&old, &now) && now.transmit_timer == old.transmit_timer && now.transmit_queue.len == 0 && now.transmit_queue.head < VERIF_QCAP &&
           now.transmit_empty == true && now.transmit_full == false && irq_now == irq_old && cnt_now == cnt_old;
}
static inline bool post_Btdmp_Reset(Btdmp now)
{
    return now.transmit_clock_config == 0 && now.transmit_period == 4096 && now.transmit_timer == 0 && now.transmit_enable == 0 &&
           now.transmit_empty == true && now.transmit_full == false && now.transmit_queue.len == 0 && now.transmit_queue.head < VERIF_QCAP;
}
/* horizon: cycles that can elapse before the cycle whose frame empties the queue (which raises the interrupt) */
static inline u64 spec_btdmp_horizon(const Btdmp *b)
{
    if (b->transmit_enable == 0 || b->transmit_queue.len == 0) return ~0ull;
    u64 first = b->transmit_timer < b->transmit_period ? (u64)b->transmit_period - b->transmit_timer : 1;   /* cycle of the next frame */
    u64 m = (b->transmit_queue.len + 1) / 2;                                                                  /* the m-th frame empties */
    return first - 1 + (m - 1) * (u64)b->transmit_period;
}
#endif
