/* C14 spec, from the property statement and src/apbp.md.  Included after apbp_types.h. */
#ifndef VERIF_APBP_SPEC_H
#define VERIF_APBP_SPEC_H
extern int ghost_data_irq[3];    /* data-ready interrupts delivered to the peer, per channel */
extern int ghost_sem_irq;        /* semaphore interrupts delivered to the peer */

static inline bool spec_sem_signal(u16 semaphore, u16 mask) { return (semaphore & (u16)~mask) != 0; }
/* unit invariant: the signal flag always equals ((semaphore AND NOT mask) != 0) */
static inline bool wf_apbp(const Apbp_Impl *p) { return p->semaphore_master_signal == spec_sem_signal(p->semaphore, p->semaphore_mask); }

static inline bool chan_eq(const DataChannel *a, const DataChannel *b)
{ return a->ready == b->ready && a->data == b->data && a->disable_interrupt == b->disable_interrupt && a->handler.set == b->handler.set; }
static inline bool chans_eq_except(const Apbp_Impl *a, const Apbp_Impl *b, unsigned ch)
{
    for (unsigned i = 0; i < 3; i++) if (i != ch && !chan_eq(&a->data_channels.e[i], &b->data_channels.e[i])) return false;
    return true;
}
static inline bool sem_eq(const Apbp_Impl *a, const Apbp_Impl *b)
{ return a->semaphore == b->semaphore && a->semaphore_mask == b->semaphore_mask && a->semaphore_master_signal == b->semaphore_master_signal && a->semaphore_handler.set == b->semaphore_handler.set; }
static inline bool irqs_eq(const int *a, const int *b) { return a[0] == b[0] && a[1] == b[1] && a[2] == b[2]; }

/* writing a data channel sets its data-ready flag and raises the peer's interrupt unless that channel's interrupt is disabled */
static inline bool post_SendData(Apbp_Impl old, Apbp_Impl now, unsigned ch, u16 v, int o0, int o1, int o2, int n0, int n1, int n2, int sirq_old, int sirq_now)
{
    int irq_old[3] = {o0, o1, o2}, irq_now[3] = {n0, n1, n2};
    const DataChannel *o = &old.data_channels.e[ch], *n = &now.data_channels.e[ch];
    bool fire = o->disable_interrupt == 0 && o->handler.set;
    for (unsigned i = 0; i < 3; i++) if (irq_now[i] != irq_old[i] + ((i == ch && fire) ? 1 : 0)) return false;
    return n->ready == true && n->data == v && n->disable_interrupt == o->disable_interrupt && n->handler.set == o->handler.set &&
           chans_eq_except(&old, &now, ch) && sem_eq(&old, &now) && sirq_now == sirq_old;
}
/* reading returns the most recently written value and clears the flag */
static inline bool post_RecvData(Apbp_Impl old, Apbp_Impl now, unsigned ch, u16 ret)
{
    const DataChannel *o = &old.data_channels.e[ch], *n = &now.data_channels.e[ch];
    return ret == o->data && n->ready == false && n->data == o->data && n->disable_interrupt == o->disable_interrupt && n->handler.set == o->handler.set &&
           chans_eq_except(&old, &now, ch) && sem_eq(&old, &now);
}
/* semaphore bits accumulate on set; the peer is interrupted whenever the flag rises and never while it stays zero */
static inline bool post_SetSemaphore(Apbp_Impl old, Apbp_Impl now, u16 bits, int sirq_old, int sirq_now)
{
    bool was = spec_sem_signal(old.semaphore, old.semaphore_mask), is = spec_sem_signal(old.semaphore | bits, old.semaphore_mask);
    bool irq_ok = (!was && is && old.semaphore_handler.set) ? sirq_now >= sirq_old + 1 : (!is ? sirq_now == sirq_old : sirq_now >= sirq_old);
    return now.semaphore == (u16)(old.semaphore | bits) && now.semaphore_mask == old.semaphore_mask && now.semaphore_master_signal == is && irq_ok &&
           chans_eq_except(&old, &now, 3) && now.semaphore_handler.set == old.semaphore_handler.set;
}
/* ... and clear on acknowledge */
static inline bool post_ClearSemaphore(Apbp_Impl old, Apbp_Impl now, u16 bits, int sirq_old, int sirq_now)
{
    u16 s = old.semaphore & (u16)~bits;
    return now.semaphore == s && now.semaphore_mask == old.semaphore_mask && now.semaphore_master_signal == spec_sem_signal(s, old.semaphore_mask) &&
           sirq_now == sirq_old && chans_eq_except(&old, &now, 3) && now.semaphore_handler.set == old.semaphore_handler.set;
}
/* a mask change is reflected in the flag immediately; a 0 -> 1 transition interrupts the peer (apbp.md) */
static inline bool post_MaskSemaphore(Apbp_Impl old, Apbp_Impl now, u16 bits, int sirq_old, int sirq_now)
{
    bool was = spec_sem_signal(old.semaphore, old.semaphore_mask), is = spec_sem_signal(old.semaphore, bits);
    bool irq_ok = (!was && is && old.semaphore_handler.set) ? sirq_now >= sirq_old + 1 : (!is ? sirq_now == sirq_old : sirq_now >= sirq_old);
    return now.semaphore == old.semaphore && now.semaphore_mask == bits && now.semaphore_master_signal == is && irq_ok &&
           chans_eq_except(&old, &now, 3) && now.semaphore_handler.set == old.semaphore_handler.set;
}
static inline bool apbp_eq(const Apbp_Impl *a, const Apbp_Impl *b) { return chans_eq_except(a, b, 3) && sem_eq(a, b); }
static inline bool post_Apbp_Reset(Apbp_Impl old, Apbp_Impl now)
{
    for (unsigned i = 0; i < 3; i++) {
        const DataChannel *n = &now.data_channels.e[i], *o = &old.data_channels.e[i];
        /* disable_interrupt and the handler survive Reset in the code (DataChannel::Reset does not touch them); only the documented state is pinned here */
        if (n->ready != false || n->data != 0 || n->handler.set != o->handler.set) return false;
    }
    return now.semaphore == 0 && now.semaphore_mask == 0 && now.semaphore_master_signal == false && now.semaphore_handler.set == old.semaphore_handler.set;
}
#endif
