/* C15 spec, written from the property statement (plain C: compiled by CBMC and by gcc).
 * Included after timer_types.h (extracted types). */
#ifndef VERIF_TIMER_SPEC_H
#define VERIF_TIMER_SPEC_H

extern int ghost_timer_irq;      /* bumped by the interrupt-handler stub */

/* type invariant of a Timer the peripheral can be in: count_mode is a 2-bit MMIO field, scale is asserted 0 by the code */
static inline bool wf_timer(const Timer *t) { return t->count_mode < 4; }

static inline u32 spec_timer_start(const Timer *t) { return ((u32)t->start_high << 16) | t->start_low; }

/* one DSP cycle, from the statement:
 *  - a running timer decrements once per cycle; interrupt exactly on 1 -> 0
 *  - at 0: single stops, auto-restart reloads the start value (on the following cycle), free-running wraps to 0xFFFFFFFF
 *  - paused holds; event-count mode does not count cycles */
typedef struct { u32 counter; bool irq; bool changed; } spec_timer_step_t;

static inline spec_timer_step_t spec_timer_cycle(const Timer *t)
{
    spec_timer_step_t r = { t->counter, false, false };
    if (t->pause != 0 || t->count_mode == Timer_CountMode_EventCount) return r;
    if (t->counter != 0) {
        r.counter = t->counter - 1; r.changed = true; r.irq = (r.counter == 0);
    } else if (t->count_mode == Timer_CountMode_AutoRestart) {
        r.counter = spec_timer_start(t); r.changed = true;
    } else if (t->count_mode == Timer_CountMode_FreeRunning) {
        r.counter = 0xFFFFFFFFu; r.changed = true;
    }
    return r;
}

/* one event write in event-count mode */
static inline spec_timer_step_t spec_timer_event(const Timer *t)
{
    spec_timer_step_t r = { t->counter, false, false };
    if (t->pause != 0 || t->count_mode != Timer_CountMode_EventCount || t->counter == 0) return r;
    r.counter = t->counter - 1; r.changed = true; r.irq = (r.counter == 0);
    return r;
}

/* everything except counter and its mirror */
static inline bool timer_config_eq(const Timer *a, const Timer *b)
{
    return a->update_mmio == b->update_mmio && a->pause == b->pause && a->count_mode == b->count_mode && a->scale == b->scale &&
           a->start_high == b->start_high && a->start_low == b->start_low && a->interrupt_handler.set == b->interrupt_handler.set &&
           a->base_0.verif_tag == b->base_0.verif_tag;
}
static inline bool timer_eq(const Timer *a, const Timer *b)
{
    return timer_config_eq(a, b) && a->counter == b->counter && a->counter_high == b->counter_high && a->counter_low == b->counter_low;
}
/* the mirror follows the counter when enabled and the counter moved; otherwise it holds */
static inline bool timer_mirror_ok(const Timer *old, const Timer *now, bool changed)
{
    if (changed && old->update_mmio != 0)
        return now->counter_high == (u16)(now->counter >> 16) && now->counter_low == (u16)(now->counter & 0xFFFF);
    return now->counter_high == old->counter_high && now->counter_low == old->counter_low;
}

static inline bool post_step(Timer old, Timer now, int irq_old, int irq_now, spec_timer_step_t s)
{
    return now.counter == s.counter && irq_now == irq_old + (s.irq ? 1 : 0) && timer_mirror_ok(&old, &now, s.changed) && timer_config_eq(&old, &now);
}
static inline bool post_Timer_Tick(Timer old, Timer now, int irq_old, int irq_now)
{
    return post_step(old, now, irq_old, irq_now, spec_timer_cycle(&old));
}
static inline bool post_Timer_TickEvent(Timer old, Timer now, int irq_old, int irq_now)
{
    return post_step(old, now, irq_old, irq_now, spec_timer_event(&old));
}
/* restart through the CFG cell: reload the start value (free-running keeps counting) */
static inline bool post_Timer_Restart(Timer old, Timer now, int irq_old, int irq_now)
{
    spec_timer_step_t s = { old.counter, false, false };
    if (old.count_mode != Timer_CountMode_FreeRunning) { s.counter = spec_timer_start(&old); s.changed = true; }
    return post_step(old, now, irq_old, irq_now, s);
}
static inline bool post_Timer_Reset(Timer now)
{
    return now.update_mmio == 0 && now.pause == 0 && now.count_mode == Timer_CountMode_Single && now.scale == 0 && now.start_high == 0 &&
           now.start_low == 0 && now.counter == 0 && now.counter_high == 0 && now.counter_low == 0;
}
/* horizon: the largest k such that k cycles raise no interrupt (all-ones when the timer cannot fire by itself) */
static inline u64 spec_timer_horizon(const Timer *t)
{
    if (t->pause != 0 || t->count_mode == Timer_CountMode_EventCount) return ~0ull;
    if (t->counter != 0) return (u64)t->counter - 1;
    if (t->count_mode == Timer_CountMode_AutoRestart) return spec_timer_start(t);   /* reload cycle + (start-1) decrements */
    if (t->count_mode == Timer_CountMode_FreeRunning) return 0xFFFFFFFFull;
    return ~0ull;
}
#endif
