/* C07 spec (interrupt controller half), from the property statement.  Included after the extracted ICU types. */
#ifndef VERIF_ICU_SPEC_H
#define VERIF_ICU_SPEC_H
extern int ghost_line_calls[3];                 /* on_interrupt(i) deliveries per core line */
extern u32 ghost_line_bad;                      /* on_interrupt called with a line index >= 3 */
extern u32 ghost_vec_n; extern u32 ghost_vec_addr[16]; extern bool ghost_vec_ctx[16];   /* vectored deliveries, in order */
extern u32 ghost_irq;                           /* ghost irq number: an arbitrary, fixed source */

static inline unsigned popcount16(u16 v) { unsigned n = 0; for (int i = 0; i < 16; i++) n += (v >> i) & 1; return n; }
static inline u32 spec_vector(const ICU *c, u32 irq) { return c->vector_low.e[irq] | ((u32)c->vector_high.e[irq] << 16); }
static inline bool icu_config_eq(const ICU *a, const ICU *b)
{
    for (int i = 0; i < 16; i++) if (a->vector_low.e[i] != b->vector_low.e[i] || a->vector_high.e[i] != b->vector_high.e[i] || a->vector_context_switch.e[i] != b->vector_context_switch.e[i]) return false;
    return a->enabled.e[0] == b->enabled.e[0] && a->enabled.e[1] == b->enabled.e[1] && a->enabled.e[2] == b->enabled.e[2] && a->vectored_enabled == b->vectored_enabled &&
           a->on_interrupt.set == b->on_interrupt.set && a->on_vectored_interrupt.set == b->on_vectored_interrupt.set;
}
/* An IRQ reaches a core line only if it is routed to that line (once per routed source); unrouted requests cause no delivery;
 * the pending bits are set for every triggered source */
static inline bool post_ICU_Trigger(ICU old, ICU now, u16 bits, int l0, int l1, int l2, u32 g)
{
    if (!icu_config_eq(&old, &now) || now.request != (u16)(old.request | bits)) return false;
    if (l0 != (int)popcount16(bits & old.enabled.e[0]) || l1 != (int)popcount16(bits & old.enabled.e[1]) || l2 != (int)popcount16(bits & old.enabled.e[2]) || ghost_line_bad != 0) return false;
    u16 v = bits & old.vectored_enabled;
    if (ghost_vec_n != popcount16(v)) return false;
    if (g < 16 && ((v >> g) & 1)) {        /* source g is vectored: its delivery carries its own vector and context-switch bit, in ascending source order */
        unsigned pos = popcount16(v & (u16)((1u << g) - 1));
        if (ghost_vec_addr[pos] != spec_vector(&old, g) || ghost_vec_ctx[pos] != (old.vector_context_switch.e[g] != 0)) return false;
    }
    return true;
}
/* the controller's pending bits stay set until software acknowledges exactly those bits */
static inline bool post_ICU_Acknowledge(ICU old, ICU now, u16 bits) { return icu_config_eq(&old, &now) && now.request == (u16)(old.request & ~bits); }
#endif
