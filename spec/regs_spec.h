/* Shared by the processor properties: well-formedness of the architectural state and accumulator access by register name.
 * Plain C, included after proc_types.h. */
#ifndef VERIF_REGS_SPEC_H
#define VERIF_REGS_SPEC_H
static inline s64 sx40(u64 v) { v &= 0xFFFFFFFFFFull; return (v & 0x8000000000ull) ? (s64)(v | 0xFFFFFF0000000000ull) : (s64)v; }
static inline bool is_sx40(u64 v) { return (u64)sx40(v) == v; }
static inline u64 sx32_64(u64 v) { return (u64)(s64)(s32)(u32)v; }
static inline u64 sx16_64(u16 v) { return (u64)(s64)(s16)v; }

/* accumulator family of a register name: 0 a0, 1 a1, 2 b0, 3 b1 (whole, low, high, extension alias the same accumulator); -1 otherwise */
static inline int acc_family(RegName n) { return (unsigned)n < 16 ? (int)((unsigned)n / 4) : -1; }
static inline bool is_whole_acc(RegName n) { return (unsigned)n < 16 && (unsigned)n % 4 == 0; }
static inline u64 *acc_slot(RegisterState *r, int fam) { return fam == 0 ? &r->a.e[0] : fam == 1 ? &r->a.e[1] : fam == 2 ? &r->b.e[0] : &r->b.e[1]; }
static inline u64 acc_get(const RegisterState *r, int fam) { return fam == 0 ? r->a.e[0] : fam == 1 ? r->a.e[1] : fam == 2 ? r->b.e[0] : r->b.e[1]; }

/* type invariant of the architectural state: accumulators are 40-bit values sign-extended to 64 bits, flags and mode bits have
 * their hardware widths (register.h comments), the program counter is 18 bits, loop state is consistent */
static inline bool wf_flags(const RegisterState *r)
{
    return r->fz <= 1 && r->fm <= 1 && r->fn <= 1 && r->fv <= 1 && r->fe <= 1 && r->fc0 <= 1 && r->fc1 <= 1 && r->flm <= 1 && r->fvl <= 1 && r->fr <= 1;
}
/* the two-way banks hold values that bankr / cntx exchange into the live registers: they are within the same widths
 * (order of the swap list: register.h shadow_swap_registers) */
#define WF_SHADOW_ARX(f, rn_max) (r->f.rni <= (rn_max) && r->f.rnj <= (rn_max) && r->f.stepi <= 7 && r->f.stepj <= 7 && r->f.offseti <= 3 && r->f.offsetj <= 3)
static inline bool wf_shadows(const RegisterState *r)
{
    if (!WF_SHADOW_ARX(shadow_swap_ar0, 7) || !WF_SHADOW_ARX(shadow_swap_ar1, 7)) return false;
    if (!WF_SHADOW_ARX(shadow_swap_arp0, 3) || !WF_SHADOW_ARX(shadow_swap_arp1, 3) || !WF_SHADOW_ARX(shadow_swap_arp2, 3) || !WF_SHADOW_ARX(shadow_swap_arp3, 3)) return false;
    if (r->shadow_swap_registers.base_0.shadow > 3 || r->shadow_swap_registers.base_1.shadow > 1 || r->shadow_swap_registers.base_2.shadow > 1 || r->shadow_swap_registers.base_3.shadow > 3 ||
        r->shadow_swap_registers.base_4.shadow > 1 || r->shadow_swap_registers.base_5.shadow.e[0] > 3 || r->shadow_swap_registers.base_5.shadow.e[1] > 3 || r->shadow_swap_registers.base_6.shadow > 0xFF ||
        r->shadow_swap_registers.base_7.shadow > 1 || r->shadow_swap_registers.base_8.shadow > 1 || r->shadow_swap_registers.base_12.shadow > 1 || r->shadow_swap_registers.base_13.shadow > 1 ||
        r->shadow_swap_registers.base_14.shadow > 1) return false;
    for (int i = 0; i < 8; i++) if (r->shadow_swap_registers.base_9.shadow.e[i] > 1 || r->shadow_swap_registers.base_10.shadow.e[i] > 1) return false;
    for (int i = 0; i < 3; i++) if (r->shadow_swap_registers.base_11.shadow.e[i] > 1) return false;
    return r->shadow_registers.base_0.shadow <= 1 && r->shadow_registers.base_1.shadow <= 1 && r->shadow_registers.base_2.shadow <= 1 && r->shadow_registers.base_3.shadow <= 1 && r->shadow_registers.base_4.shadow <= 1 &&
           r->shadow_registers.base_5.shadow <= 1 && r->shadow_registers.base_6.shadow <= 1 && r->shadow_registers.base_7.shadow <= 1 && r->shadow_registers.base_8.shadow <= 1 && r->shadow_registers.base_9.shadow <= 1;
}
/* prpage is NOT part of the invariant: the code stores all 16 bits (pop_prpage, mov to prpage) and never masks them -- see the C18 finding
 * fetch-prpage; obligations that depend on the program page state their own condition */
static inline bool wf_regs(const RegisterState *r)
{
    if (!is_sx40(r->a.e[0]) || !is_sx40(r->a.e[1]) || !is_sx40(r->b.e[0]) || !is_sx40(r->b.e[1]) || !is_sx40(r->a1s) || !is_sx40(r->b1s)) return false;
    if (!wf_flags(r)) return false;
    if (r->sat > 1 || r->sata > 1 || r->s > 1 || r->hwm > 3 || r->ps.e[0] > 3 || r->ps.e[1] > 3 || r->pe.e[0] > 1 || r->pe.e[1] > 1) return false;
    if (r->pc >= 0x40000 || r->cpc > 1 || r->crep > 1 || r->ccnta > 1 || r->pcmhi > 3 || r->page > 0xFF) return false;
    if (r->bcn > 4 || r->lp > 1 || r->lp != (r->bcn != 0)) return false;
    for (int i = 0; i < 4; i++) if (r->bkrep_stack.e[i].start >= 0x40000 || r->bkrep_stack.e[i].end >= 0x40000) return false;
    if (r->stepi > 0x7F || r->stepj > 0x7F || r->modi > 0x1FF || r->modj > 0x1FF || r->stepib > 0x7F || r->stepjb > 0x7F || r->modib > 0x1FF || r->modjb > 0x1FF) return false;
    if (r->stp16 > 1 || r->cmd > 1 || r->epi > 1 || r->epj > 1) return false;
    for (int i = 0; i < 8; i++) if (r->m.e[i] > 1 || r->br.e[i] > 1) return false;
    for (int i = 0; i < 4; i++)
        if (r->arstep.e[i] > 7 || r->arpstepi.e[i] > 7 || r->arpstepj.e[i] > 7 || r->aroffset.e[i] > 3 || r->arpoffseti.e[i] > 3 || r->arpoffsetj.e[i] > 3 ||
            r->arrn.e[i] > 7 || r->arprni.e[i] > 3 || r->arprnj.e[i] > 3) return false;
    for (int i = 0; i < 3; i++) if (r->ip.e[i] > 1 || r->im.e[i] > 1 || r->ic.e[i] > 1) return false;
    if (r->ipv > 1 || r->imv > 1 || r->nimc > 1 || r->ie > 1 || r->mod0_unk_const > 7) return false;
    for (int i = 0; i < 5; i++) if (r->ou.e[i] > 1) return false;
    if (r->iu.e[0] > 1 || r->iu.e[1] > 1) return false;
    return wf_shadows(r);
}
#endif
