/* C13 spec, from the property statement and src/dma.md / src/ahbm.md.  Included after dma_types.h. */
#ifndef VERIF_DMA_SPEC_H
#define VERIF_DMA_SPEC_H
#define DMA_DATA_OFFSET 0x20000u

/* ---- external memory as the AHBM callbacks see it: a log of accesses (unit in bytes, address, value) */
#define EXT_LOG 9
typedef struct { u8 write; u8 unit; u32 addr; u32 value; } ext_access;
extern ext_access ghost_ext_log[EXT_LOG];
extern u32 ghost_ext_n;
extern const u32 *ghost_ext_in;         /* value the n-th external READ returns (arbitrary, fixed per run) */
extern int ghost_dma_irq;
extern u64 ghost_g;                     /* ghost byte index into DSP memory: an arbitrary, fixed position */

/* ---- the documented 3-D recurrence (dma.md "Data Transfer Engine"): one element per step; SIZEx == 0 counts as 1; in double-word
 *      mode one element counts 2 in dimension 0.  Written over exact integers (no wrap-around). */
typedef struct { u32 src, dst; u32 c0, c1, c2; bool running; } dma_cursor;
static inline dma_cursor spec_dma_next(const Dma_Channel *ch)
{
    dma_cursor r = { ch->current_src, ch->current_dst, ch->counter0, ch->counter1, ch->counter2, true };
    r.c0 += ch->dword_mode ? 2u : 1u;
    if (r.c0 >= ch->size0) {
        r.c0 = 0; r.c1 += 1;
        if (r.c1 >= ch->size1) {
            r.c1 = 0; r.c2 += 1;
            if (r.c2 >= ch->size2) { r.running = false; r.c2 = ch->counter2 + 1u; }
            else { r.src += ch->src_step2; r.dst += ch->dst_step2; }
        } else { r.src += ch->src_step1; r.dst += ch->dst_step1; }
    } else { r.src += ch->src_step0; r.dst += ch->dst_step0; }
    return r;
}
static inline bool wf_dma_running(const Dma_Channel *ch);
static inline bool dma_config_eq(const Dma_Channel *a, const Dma_Channel *b)
{
    return a->addr_src_low == b->addr_src_low && a->addr_src_high == b->addr_src_high && a->addr_dst_low == b->addr_dst_low && a->addr_dst_high == b->addr_dst_high &&
           a->size0 == b->size0 && a->size1 == b->size1 && a->size2 == b->size2 && a->src_step0 == b->src_step0 && a->dst_step0 == b->dst_step0 &&
           a->src_step1 == b->src_step1 && a->dst_step1 == b->dst_step1 && a->src_step2 == b->src_step2 && a->dst_step2 == b->dst_step2 &&
           a->src_space == b->src_space && a->dst_space == b->dst_space && a->dword_mode == b->dword_mode && a->y == b->y && a->z == b->z &&
           a->ahbm_channel == b->ahbm_channel;
}
static inline bool dma_config_eq_v(Dma_Channel a, Dma_Channel b) { return dma_config_eq(&a, &b); }
/* counters of a channel that is mid-transfer */
static inline bool wf_dma_running(const Dma_Channel *ch)
{
    return ch->running == 1 && ch->counter0 < (ch->size0 ? ch->size0 : 1) && ch->counter1 < (ch->size1 ? ch->size1 : 1) && ch->counter2 < (ch->size2 ? ch->size2 : 1) &&
           (!ch->dword_mode || (ch->counter0 & 1) == 0);
}
static inline bool post_Tick_cursor(Dma_Channel old, Dma_Channel now)
{
    dma_cursor s = spec_dma_next(&old);
    if (!dma_config_eq(&old, &now)) return false;
    if (!s.running) return now.running == 0;                      /* all three counters wrapped: the transfer is complete */
    return now.running == 1 && now.current_src == s.src && now.current_dst == s.dst && now.counter0 == s.c0 && now.counter1 == s.c1 && now.counter2 == s.c2 &&
           wf_dma_running(&now);
}
static inline u16 mem_word(const u8 *raw, u32 word) { return (u16)(raw[(u64)word * 2] | (raw[(u64)word * 2 + 1] << 8)); }

static inline bool post_Start(Dma_Channel old, Dma_Channel now)
{
    Dma_Channel o = old; o.ahbm_channel = now.ahbm_channel;
    return dma_config_eq(&o, &now) && now.ahbm_channel == old.ahbm_channel && now.running == 1 && now.counter0 == 0 && now.counter1 == 0 && now.counter2 == 0 &&
           now.current_src == (old.addr_src_low | ((u32)old.addr_src_high << 16)) && now.current_dst == (old.addr_dst_low | ((u32)old.addr_dst_high << 16));
}
/* AHBM channel lookup: the lowest AHBM channel whose DMA mask contains the DMA channel, else 0 */
static inline u16 spec_ahbm_channel_for(const Ahbm *a, u16 dma_channel)
{
    return ((a->channels.e[0].dma_channel >> dma_channel) & 1) ? 0 : ((a->channels.e[1].dma_channel >> dma_channel) & 1) ? 1 : ((a->channels.e[2].dma_channel >> dma_channel) & 1) ? 2 : 0;
}
static inline u16 spec_ahbm_channel_for_v(Ahbm a, u16 dma_channel) { return spec_ahbm_channel_for(&a, dma_channel); }
static inline u32 spec_burst(Ahbm_BurstSize b) { return b == Ahbm_BurstSize_X4 ? 4 : b == Ahbm_BurstSize_X8 ? 8 : 1; }
#endif
