/* C10 spec: address registers step linearly, modulo or bit-reversed exactly as configured.  From the property statement. */
#ifndef VERIF_ADDR_SPEC_H
#define VERIF_ADDR_SPEC_H
#include "regs_spec.h"

/* 16-bit bit reversal as a swap network (not a loop) */
static inline u16 spec_bitrev16(u16 v)
{
    v = (u16)(((v & 0x5555) << 1) | ((v >> 1) & 0x5555));
    v = (u16)(((v & 0x3333) << 2) | ((v >> 2) & 0x3333));
    v = (u16)(((v & 0x0F0F) << 4) | ((v >> 4) & 0x0F0F));
    return (u16)((v << 8) | (v >> 8));
}
/* smallest all-ones mask covering mod: 2^ceil(log2(mod+1)) - 1 */
static inline u16 spec_cover_mask(u16 mod) { u16 m = mod; m |= m >> 1; m |= m >> 2; m |= m >> 4; m |= m >> 8; return m; }
static inline bool spec_mod_active(const RegisterState *s, unsigned unit, bool dmod) { return !dmod && s->br.e[unit] == 0 && s->m.e[unit] != 0; }
static inline u16 spec_modv(const RegisterState *s, unsigned unit) { return unit < 4 ? s->modi : s->modj; }
/* the configured step of "+s" (register.md / register.h): 7-bit signed stepi/stepj; stepi0/stepj0 when bit reversal (without modulo)
 * is on or when stp16 selects them in Teak mode (sign-extended from 9 bits under modulo) */
static inline u16 spec_cfg_step(const RegisterState *s, unsigned unit)
{
    u16 v;
    if (s->br.e[unit] && !s->m.e[unit]) v = unit < 4 ? s->stepi0 : s->stepj0;
    else { v = unit < 4 ? s->stepi : s->stepj; v = (u16)((v & 0x40) ? (v | 0xFF80) : (v & 0x7F)); }
    if (s->stp16 == 1 && s->cmd == 0) { v = unit < 4 ? s->stepi0 : s->stepj0; if (s->m.e[unit]) v = (u16)((v & 0x100) ? (v | 0xFE00) : (v & 0x1FF)); }
    return v;
}
static inline u16 spec_step_amount(const RegisterState *s, unsigned unit, StepValue step)
{
    switch (step) {
    case StepValue_Zero: return 0; case StepValue_Increase: return 1; case StepValue_Decrease: return 0xFFFF;
    case StepValue_Increase2Mode1: case StepValue_Increase2Mode2: return 2;
    case StepValue_Decrease2Mode1: case StepValue_Decrease2Mode2: return 0xFFFE;
    default: return spec_cfg_step(s, unit);
    }
}
/* the part of the statement about modulo addressing covers steps of +1 and -1 (and 0) */
static inline bool spec_step_in_statement(const RegisterState *s, unsigned unit, StepValue step, bool dmod)
{
    return !spec_mod_active(s, unit, dmod) || step == StepValue_Zero || step == StepValue_Increase || step == StepValue_Decrease;
}
/* new register value */
static inline u16 spec_step(const RegisterState *s, unsigned unit, u16 r, StepValue step, bool dmod)
{
    u16 amt = spec_step_amount(s, unit, step);
    if (amt == 0) return r;                                               /* a zero step never changes the register */
    if (!spec_mod_active(s, unit, dmod)) return (u16)(r + amt);          /* linear: exactly that step modulo 2^16 */
    u16 mod = spec_modv(s, unit);
    if (mod == 0) return r;
    u16 mask = spec_cover_mask(mod), low = r & mask, hi = r & (u16)~mask;   /* bits above the alignment never change */
    if (step == StepValue_Increase) return hi | (low == mod ? 0 : (u16)((low + 1) & mask));
    return hi | (low == 0 ? mod : (u16)((low - 1) & mask));
}
/* post-modification of register `unit`: the access uses the pre-modified value; r3/r7 in end-pointer mode are zeroed by the non-(+-2) steps */
typedef struct { RegisterState s; u16 ret; } spec_rn_t;
static inline bool spec_is_step2(StepValue st) { return st == StepValue_Increase2Mode1 || st == StepValue_Decrease2Mode1 || st == StepValue_Increase2Mode2 || st == StepValue_Decrease2Mode2; }
static inline spec_rn_t spec_rn_and_modify(RegisterState s, unsigned unit, StepValue step, bool dmod)
{
    spec_rn_t o; o.ret = s.r.e[unit];
    if (((unit == 3 && s.epi) || (unit == 7 && s.epj)) && !spec_is_step2(step)) s.r.e[unit] = 0;
    else s.r.e[unit] = spec_step(&s, unit, s.r.e[unit], step, dmod);
    o.s = s; return o;
}
/* memory address of a register value: the 16-bit bit reversal when bit reversal is on and modulo is off */
static inline u16 spec_rn_address(const RegisterState *s, unsigned unit, u16 value) { return (s->br.e[unit] && !s->m.e[unit]) ? spec_bitrev16(value) : value; }
/* second address of a two-word access: +0, +1 (cyclic inside the modulo buffer), -1 */
static inline u16 spec_offset(const RegisterState *s, unsigned unit, u16 address, u16 offset, bool dmod)
{
    if (offset == 0) return address;
    if (offset == 3) return (u16)(address - 1);
    bool emod = s->m.e[unit] && !s->br.e[unit] && !dmod;
    if (offset == 1) {
        if (!emod) return (u16)(address + 1);
        u16 mod = spec_modv(s, unit), mask = spec_cover_mask(mod) | 1;
        return (address & mask) == mod ? (u16)(address & ~mask) : (u16)(address + 1);
    }
    return (u16)(address - 1);          /* offset 2 without modulo; with modulo the code raises "unimplemented" */
}
#ifndef OPV
#define OPV(x) ((x).base_0.base_0.storage)
#define OPV1(x) ((x).base_0.storage)
#endif
/* StepZIDS field: zero, +1, -1, +s */
static inline RegisterState spec_modr(RegisterState s, unsigned unit, StepValue step, bool dmod) { spec_rn_t o = spec_rn_and_modify(s, unit, step, dmod); o.s.fr = o.s.r.e[unit] == 0; return o.s; }
static inline bool eqv_regs2(RegisterState a, RegisterState b) { return eq_RegisterState(&a, &b); }
#endif
