/* C03 spec: accumulator add/subtract/compare/logic -- exact 40-bit results, flags, saturation.  Written from the property
 * statement as an executable reference over the extracted RegisterState (plain C; compiled by CBMC and by gcc). */
#ifndef VERIF_ALU_SPEC_H
#define VERIF_ALU_SPEC_H
#include "regs_spec.h"

/* exact 40-bit two's-complement add/subtract: result mod 2^40 (sign-extended), carry out of bit 39 (borrow for subtract), overflow */
typedef struct { u64 r; u16 c, v; } spec_as_t;
static inline spec_as_t spec_addsub40(u64 a, u64 b, bool sub)
{
    spec_as_t o;
    s64 A = sx40(a), B = sx40(b);
    s64 R = sub ? A - B : A + B;                      /* exact: |A|, |B| < 2^39 */
    u64 ua = a & 0xFFFFFFFFFFull, ub = b & 0xFFFFFFFFFFull;
    o.v = (R < -(1LL << 39) || R > (1LL << 39) - 1) ? 1 : 0;
    o.c = sub ? (ua < ub ? 1 : 0) : (u16)(((ua + ub) >> 40) & 1);
    o.r = (u64)sx40((u64)R);
    return o;
}
/* flags of a 40-bit result: zero, minus, extension (does not fit 32 bits), normalized */
typedef struct { u16 z, m, e, n; } spec_flags_t;
static inline bool fits32(u64 r) { s64 R = sx40(r); return R >= -0x80000000LL && R <= 0x7FFFFFFFLL; }
static inline spec_flags_t spec_flags40(u64 r)
{
    spec_flags_t f;
    f.z = r == 0; f.m = sx40(r) < 0; f.e = !fits32(r);
    f.n = f.z || (!f.e && (((r >> 31) ^ (r >> 30)) & 1) != 0);
    return f;
}
/* saturation on write: nearest 32-bit bound */
static inline u64 spec_sat32(u64 r) { return fits32(r) ? r : (sx40(r) < 0 ? 0xFFFFFFFF80000000ull : 0x000000007FFFFFFFull); }

static inline void spec_set_flags(RegisterState *s, u64 r) { spec_flags_t f = spec_flags40(r); s->fz = f.z; s->fm = f.m; s->fe = f.e; s->fn = f.n; }
static inline void spec_set_cv(RegisterState *s, spec_as_t o) { s->fc0 = o.c; s->fv = o.v; if (o.v) s->fvl = 1; }
/* write a result to an accumulator with flags; saturation-on-write when enabled (sata == 0) sets the limit flag */
static inline void spec_write_acc_sat(RegisterState *s, int fam, u64 r)
{
    spec_set_flags(s, r);
    if (s->sata == 0 && !fits32(r)) { s->flm = 1; r = spec_sat32(r); }
    *acc_slot(s, fam) = r;
}
static inline void spec_write_acc_nosat(RegisterState *s, int fam, u64 r) { spec_set_flags(s, r); *acc_slot(s, fam) = r; }

/* operand extension by mnemonic: add/sub/cmp signed 16; addh/subh in the high half; addl/subl/cmpu/or/and/xor unsigned */
static inline u64 spec_extend(AlmOp op, u16 v)
{
    if (op == AlmOp_Cmp || op == AlmOp_Sub || op == AlmOp_Add) return sx16_64(v);
    if (op == AlmOp_Addh || op == AlmOp_Subh) return sx32_64((u64)v << 16);
    return v;
}
static inline bool alm_is_addsub(AlmOp op) { return op == AlmOp_Add || op == AlmOp_Addl || op == AlmOp_Addh || op == AlmOp_Sub || op == AlmOp_Subl || op == AlmOp_Subh || op == AlmOp_Cmp || op == AlmOp_Cmpu; }
static inline bool alm_is_logic(AlmOp op) { return op == AlmOp_Or || op == AlmOp_And || op == AlmOp_Xor; }
static inline bool alm_in_c03(AlmOp op) { return alm_is_addsub(op) || alm_is_logic(op); }

/* one ALM operation on accumulator family fam with already-extended operand a (40-bit, any upper bits) */
static inline RegisterState spec_alm(RegisterState s, AlmOp op, u64 a, int fam)
{
    u64 acc = acc_get(&s, fam);
    if (alm_is_logic(op)) {
        u64 r = op == AlmOp_Or ? (acc | a) : op == AlmOp_And ? (acc & a) : (acc ^ a);
        spec_write_acc_nosat(&s, fam, (u64)sx40(r));      /* bitwise result, flags of the 40-bit result; no carry/overflow/saturation */
        return s;
    }
    bool sub = !(op == AlmOp_Add || op == AlmOp_Addl || op == AlmOp_Addh);
    spec_as_t o = spec_addsub40(acc, a, sub);
    spec_set_cv(&s, o);
    if (op == AlmOp_Cmp || op == AlmOp_Cmpu) spec_set_flags(&s, o.r);       /* compare forms change flags only */
    else spec_write_acc_sat(&s, fam, o.r);
    return s;
}
/* acc(dst) := acc(dst) +/- v   (add/sub register forms) ; compare: flags of acc(dst) - v */
static inline RegisterState spec_addsub_to(RegisterState s, int dst, u64 v, bool sub, bool compare)
{
    spec_as_t o = spec_addsub40(acc_get(&s, dst), v, sub);
    spec_set_cv(&s, o);
    if (compare) spec_set_flags(&s, o.r); else spec_write_acc_sat(&s, dst, o.r);
    return s;
}
/* the modify-accumulator family that belongs to C03: inc, dec, neg, rnd, copy, not, clr, clrr (shifts/rotates/pacr are C04) */
static inline bool moda_in_c03(ModaOp op) { return op == ModaOp_Inc || op == ModaOp_Dec || op == ModaOp_Neg || op == ModaOp_Rnd || op == ModaOp_Copy || op == ModaOp_Not || op == ModaOp_Clr || op == ModaOp_Clrr; }
static inline RegisterState spec_moda(RegisterState s, ModaOp op, int fam)
{
    u64 acc = acc_get(&s, fam);
    switch (op) {
    case ModaOp_Inc: return spec_addsub_to(s, fam, 1, false, false);
    case ModaOp_Dec: return spec_addsub_to(s, fam, 1, true, false);
    case ModaOp_Rnd: return spec_addsub_to(s, fam, 0x8000, false, false);
    case ModaOp_Neg: { spec_as_t o = spec_addsub40(0, acc, true); spec_set_cv(&s, o); spec_write_acc_sat(&s, fam, o.r); return s; }   /* 0 - acc */
    case ModaOp_Not: spec_write_acc_nosat(&s, fam, ~acc); return s;
    case ModaOp_Clr: spec_write_acc_sat(&s, fam, 0); return s;
    case ModaOp_Clrr: spec_write_acc_sat(&s, fam, 0x8000); return s;
    case ModaOp_Copy: spec_write_acc_sat(&s, fam, acc_get(&s, fam == 0 ? 1 : 0)); return s;     /* aX := the other a accumulator */
    default: return s;
    }
}
/* operand fields (operand.h): Ax selects a0/a1, Bx selects b0/b1, Ab selects b0,b1,a0,a1; raw field value = .storage */
#define OPV(x) ((x).base_0.base_0.storage)      /* named operand structs: Ax : RegOperand<...> : Operand<n> */
#define IMMV(a) ((a).base_0.base_0.storage)      /* Imm8 / Imm16 : Imm<n> : Operand<n> */
#define OPV1(x) ((x).base_0.storage)            /* EnumOperand<...> / EnumAllOperand<...> used directly (Alm, Alu, Moda4, Cond, ...) */
static inline int ax_fam(Ax x) { return OPV(x) & 1; }
static inline int bx_fam(Bx x) { return 2 + (OPV(x) & 1); }
static inline int ab_fam(Ab x) { return (OPV(x) & 2) ? (OPV(x) & 1) : 2 + (OPV(x) & 1); }
/* 4-bit ALM operation field: the AlmOp enumerators in order; 3-bit ALU field: or, and, xor, add, -, -, cmp, sub */
static inline AlmOp alu_op_name(u16 v) { return v == 0 ? AlmOp_Or : v == 1 ? AlmOp_And : v == 2 ? AlmOp_Xor : v == 3 ? AlmOp_Add : v == 6 ? AlmOp_Cmp : v == 7 ? AlmOp_Sub : AlmOp_Reserved; }
static inline RegisterState spec_sat_write(RegisterState s, int fam, u64 r) { spec_write_acc_sat(&s, fam, r); return s; }
static inline RegisterState spec_nosat_write(RegisterState s, int fam, u64 r) { spec_write_acc_nosat(&s, fam, r); return s; }
static inline bool eqv_regs(RegisterState a, RegisterState b) { return eq_RegisterState(&a, &b); }
/* condition codes (register.h ConditionPass) */
static inline bool spec_cond_p(const RegisterState *s, CondValue c);
static inline bool spec_cond(RegisterState s, CondValue c) { return spec_cond_p(&s, c); }
static inline bool spec_cond_p(const RegisterState *s, CondValue c)
{
    switch (c) {
    case CondValue_True: return true; case CondValue_Eq: return s->fz == 1; case CondValue_Neq: return s->fz == 0;
    case CondValue_Gt: return s->fz == 0 && s->fm == 0; case CondValue_Ge: return s->fm == 0; case CondValue_Lt: return s->fm == 1;
    case CondValue_Le: return s->fm == 1 || s->fz == 1; case CondValue_Nn: return s->fn == 0; case CondValue_C: return s->fc0 == 1;
    case CondValue_V: return s->fv == 1; case CondValue_E: return s->fe == 1; case CondValue_L: return s->flm == 1 || s->fvl == 1;
    case CondValue_Nr: return s->fr == 0; case CondValue_Niu0: return s->iu.e[0] == 0; case CondValue_Iu0: return s->iu.e[0] == 1;
    default: return s->iu.e[1] == 1;
    }
}
/* alu #imm8: the 8-bit immediate is zero-extended; for AND, bits 8..15 of the accumulator are kept while the flags are those of
 * the full AND result (interpreter.h comment, hardware-tested behaviour) */
static inline RegisterState spec_alu_imm8(RegisterState s, AlmOp op, u16 imm8, int fam)
{
    u64 keep = acc_get(&s, fam) & 0xFF00;
    s = spec_alm(s, op, spec_extend(op, imm8), fam);
    if (op == AlmOp_And) *acc_slot(&s, fam) = (acc_get(&s, fam) & 0xFFFFFFFFFFFF00FFull) | keep;
    return s;
}
/* register forms: acc(dst) := acc(dst) +/- acc(src); compare: flags only */
static inline RegisterState spec_addsub_regs(RegisterState s, int src, int dst, bool sub, bool compare) { return spec_addsub_to(s, dst, acc_get(&s, src), sub, compare); }
/* clr / clrr with two accumulators: both get the constant (0 or 0x8000) through the saturating write; the second operand is
 * redirected so that the two writes hit different accumulators (operand.h / interpreter.h FilterDoubleClr) */
static inline void spec_filter_double(int *fa, int *fb) { if (*fa == 2) *fb = 3; else if (*fa == 3) *fb = 2; else if (*fa == 0) { if (*fb == 0) *fb = 1; } else *fb = (*fb == 3) ? 3 : 2; }
static inline RegisterState spec_clr2(RegisterState s, int fa, int fb, u64 k) { spec_filter_double(&fa, &fb); spec_write_acc_sat(&s, fa, k); spec_write_acc_sat(&s, fb, k); return s; }
/* three-operand logic forms: c := a OP b, flags of the result, no saturation */
static inline RegisterState spec_logic3(RegisterState s, int fa, int fb, int fc, bool is_or) { u64 r = is_or ? (acc_get(&s, fa) | acc_get(&s, fb)) : (acc_get(&s, fa) & acc_get(&s, fb)); spec_write_acc_nosat(&s, fc, r); return s; }
#endif
