/* C04 spec: multiplier and barrel shifter, written from the property statement as an executable reference (plain C). */
#ifndef VERIF_MUL_SPEC_H
#define VERIF_MUL_SPEC_H
#include "alu_spec.h"

/* the y factor as the half-word mode selects it (register.h: "hwm, modify y on multiplication"): 0 whole word, 1 high byte,
 * 2 low byte, 3 high byte for multiplier 0 and low byte for multiplier 1 */
static inline u16 spec_hwm_y(u16 y, u16 hwm, u32 unit)
{
    if (hwm == 1 || (hwm == 3 && unit == 0)) return y >> 8;
    if (hwm == 2 || (hwm == 3 && unit == 1)) return y & 0xFF;
    return y;
}
/* The 32x32 machine multiplication is an UNINTERPRETED function on the CBMC side: callers of DoMultiplication are proved for every
 * interpretation of it (in particular the real one), which keeps a bit-blasted multiplier out of every query; the native builds and
 * the enumeration stand-in use the real product. */
#ifdef VERIF_CBMC
u32 __CPROVER_uninterpreted_mul32(u32 a, u32 b);
#define SPEC_MUL32(a, b) __CPROVER_uninterpreted_mul32((a), (b))
#else
#define SPEC_MUL32(a, b) ((u32)(a) * (u32)(b))
#endif
/* exact 33-bit product of the two 16-bit factors under the signed/unsigned selection: low 32 bits and bit 32 */
typedef struct { u32 p; u16 pe; } spec_prod_t;
static inline spec_prod_t spec_product33(u16 x, u16 y, bool x_sign, bool y_sign, u16 hwm, u32 unit)
{
    s32 xf = x_sign ? (s32)(s16)x : (s32)x;
    u16 yh = spec_hwm_y(y, hwm, unit);
    s32 yf = y_sign ? (s32)(s16)yh : (s32)yh;
    /* the exact product of two factors in [-2^15, 2^16) lies in (-2^32, 2^32): 33 bits.  Its low 32 bits are the machine product
     * modulo 2^32; bit 32 is its sign.  (Stated without a 64-bit multiplication, which no installed back end decides under dfcc.) */
    spec_prod_t r; r.p = SPEC_MUL32((u32)xf, (u32)yf);
    r.pe = (u16)((((xf < 0) != (yf < 0)) && xf != 0 && yf != 0) ? 1 : 0);
    return r;
}
/* every read of a product applies the selected product shift (none, >>1, <<1, <<2) with sign extension */
static inline u64 spec_product_bus40(u32 p, u16 pe, u16 ps)
{
    s64 v = (s64)(((u64)pe << 32) | p);
    if (pe & 1) v |= (s64)0xFFFFFFFE00000000ull;           /* 33-bit two's complement */
    v = ps == 0 ? v : ps == 1 ? (v >> 1) : ps == 2 ? v * 2 : v * 4;   /* exact in 64 bits; arithmetic right shift */
    return (u64)v;
}
static inline RegisterState spec_do_mul(RegisterState s, u32 unit, bool xs, bool ys)
{
    spec_prod_t r = spec_product33(s.x.e[unit], s.y.e[unit], xs, ys, s.hwm, unit);
    s.p.e[unit] = r.p; s.pe.e[unit] = r.pe;
    return s;
}
/* multiply / multiply-accumulate: add the PREVIOUS product to the accumulator (aligned >>16 for maa forms), then launch the new
 * multiplication with the signedness the mnemonic names (mpysu/macsu/maasu: x unsigned; macus: y unsigned; macuu: both) */
static inline RegisterState spec_mul_generic(RegisterState s, MulOp op, int fam)
{
    if (op != MulOp_Mpy && op != MulOp_Mpysu) {
        u64 prod = spec_product_bus40(s.p.e[0], s.pe.e[0], s.ps.e[0]);
        if (op == MulOp_Maa || op == MulOp_Maasu) prod = (u64)(sx40(prod) >> 16);
        s = spec_addsub_to(s, fam, prod, false, false);
    }
    bool xs = !(op == MulOp_Mpysu || op == MulOp_Macsu || op == MulOp_Maasu || op == MulOp_Macuu);
    bool ys = !(op == MulOp_Macus || op == MulOp_Macuu);
    return spec_do_mul(s, 0, xs, ys);
}

/* barrel shifter: move a 40-bit value by a signed amount; arithmetic (s == 0) or logical (s == 1); carry = last bit shifted out;
 * overflow when an arithmetic left shift loses significant bits; afterwards 32-bit saturation that keeps the ORIGINAL sign.
 * For |amount| >= 40 the carry of left and logical-right shifts is 0 (as in the pinned reference; DESIGN.md C04 note). */
static inline RegisterState spec_shift40(RegisterState s, u64 value, u16 sv, int dst)
{
    u64 v = value & 0xFFFFFFFFFFull;
    bool neg = (v >> 39) & 1;
    bool arith = s.s == 0;
    u64 r;
    if ((sv >> 15) == 0) {                                   /* left by n = sv */
        unsigned n = sv;
        if (arith) {
            bool lost = n >= 40 ? (v != 0) : (sx40(v) != ((sx40(v) << (24 + n)) >> (24 + n)));   /* does not fit 40 - n bits */
            s.fv = lost; if (lost) s.fvl = 1;
        }
        s.fc0 = (n == 0 || n >= 40) ? 0 : (u16)((v >> (40 - n)) & 1);
        r = n >= 40 ? 0 : (v << n) & 0xFFFFFFFFFFull;
    } else {                                                  /* right by n = -sv */
        unsigned n = (u16)(~sv + 1);
        if (arith) {
            s.fc0 = n >= 40 ? (u16)neg : (u16)((v >> (n - 1)) & 1);
            r = (u64)(n >= 40 ? (neg ? -1LL : 0LL) : (sx40(v) >> n)) & 0xFFFFFFFFFFull;
            s.fv = 0;
        } else {
            s.fc0 = n >= 40 ? 0 : (u16)((v >> (n - 1)) & 1);
            r = n >= 40 ? 0 : (v >> n);
        }
    }
    r = (u64)sx40(r);
    spec_set_flags(&s, r);
    if (arith && s.sata == 0 && (s.fv || !fits32(r))) { s.flm = 1; r = neg ? 0xFFFFFFFF80000000ull : 0x7FFFFFFFull; }
    *acc_slot(&s, dst) = r;
    return s;
}
/* exponent: the left-shift count that would normalise the value = redundant sign bits - 8 */
static inline u16 spec_exp(u64 value)
{
    u64 v = value & 0xFFFFFFFFFFull;
    unsigned sign = (v >> 39) & 1, count = 0;
    for (int bit = 38; bit >= 0; bit--) { if (((v >> bit) & 1) != sign) break; count++; }
    return (u16)(count - 8);
}
static inline s16 spec_imms(u16 field, unsigned bits) { return (s16)((s16)(field << (16 - bits)) >> (16 - bits)); }
/* the shift/rotate members of the modify-accumulator family */
static inline bool moda_in_c04(ModaOp op) { return op == ModaOp_Shr || op == ModaOp_Shr4 || op == ModaOp_Shl || op == ModaOp_Shl4 || op == ModaOp_Ror || op == ModaOp_Rol; }
static inline RegisterState spec_moda_shift(RegisterState s, ModaOp op, int fam)
{
    u64 acc = acc_get(&s, fam);
    switch (op) {
    case ModaOp_Shr: return spec_shift40(s, acc, 0xFFFF, fam);
    case ModaOp_Shr4: return spec_shift40(s, acc, 0xFFFC, fam);
    case ModaOp_Shl: return spec_shift40(s, acc, 1, fam);
    case ModaOp_Shl4: return spec_shift40(s, acc, 4, fam);
    case ModaOp_Ror: { u64 v = acc & 0xFFFFFFFFFFull; u16 c = s.fc0; s.fc0 = v & 1; v = (v >> 1) | ((u64)c << 39); spec_write_acc_nosat(&s, fam, (u64)sx40(v)); return s; }   /* rotate through carry */
    case ModaOp_Rol: { u64 v = acc & 0xFFFFFFFFFFull; u16 c = s.fc0; s.fc0 = (v >> 39) & 1; v = ((v << 1) | c) & 0xFFFFFFFFFFull; spec_write_acc_nosat(&s, fam, (u64)sx40(v)); return s; }
    default: return s;
    }
}
/* small state helpers for the instruction forms */
static inline RegisterState spec_set_x0(RegisterState s, u16 v) { s.x.e[0] = v; return s; }
static inline RegisterState spec_mac_x1to0(RegisterState s, int fam) { s = spec_addsub_to(s, fam, spec_product_bus40(s.p.e[0], s.pe.e[0], s.ps.e[0]), false, false); s.x.e[0] = s.x.e[1]; return spec_do_mul(s, 0, true, true); }
static inline RegisterState spec_shfc_do(RegisterState s, int src, int dst) { return spec_shift40(s, acc_get(&s, src), s.sv, dst); }
static inline RegisterState spec_shfi(RegisterState s, int src, int dst, u16 amount) { return spec_shift40(s, acc_get(&s, src), amount, dst); }
static inline RegisterState spec_exp_to_sv(RegisterState s, int fam) { s.sv = spec_exp(acc_get(&s, fam)); return s; }
static inline RegisterState spec_exp_store(RegisterState s, int fam) { *acc_slot(&s, fam) = sx16_64(s.sv); return s; }
/* pacr: accumulator := product0 (shifted read) + 0x8000 */
static inline RegisterState spec_pacr(RegisterState s, int fam, u32 unit)
{
    spec_as_t o = spec_addsub40(spec_product_bus40(s.p.e[unit], s.pe.e[unit], s.ps.e[unit]), 0x8000, false);
    spec_set_cv(&s, o); spec_write_acc_sat(&s, fam, o.r);
    return s;
}
#endif
