#!/usr/bin/env python3
"""tools/manifest_add.py <Cxx> <level text> <level note> <technique> [design_ref]  -- (re)registers a check in MANIFEST.json"""
import json, sys
pid, text, note, tech = sys.argv[1:5]
design = sys.argv[5] if len(sys.argv) > 5 else '4/' + pid
m = json.load(open('/verif/MANIFEST.json'))
m['checks'] = [c for c in m['checks'] if c['property_id'] != pid]
m['checks'].append({'property_id': pid, 'quick_cmd': 'bin/vcheck %s --tier quick' % pid, 'thorough_cmd': 'bin/vcheck %s --tier thorough' % pid,
                    'evidence_file': 'evidence/%s.json' % pid, 'replay_cmd_template': 'bin/vcheck %s --replay {path}' % pid, 'engine': 'vcheck',
                    'level_claimed': {'category': 'proof', 'text': text, 'design_ref': design}, 'level_note': note, 'technique': tech})
m['checks'].sort(key=lambda c: c['property_id'])
m['not_applicable'] = [n for n in m['not_applicable'] if n['property_id'] != pid]
m['engines'][0]['serves_properties'] = sorted(c['property_id'] for c in m['checks'])
json.dump(m, open('/verif/MANIFEST.json', 'w'), indent=1)
