#!/bin/bash
# tools/seed_eval.sh <Cxx> <worktree> [checks...]: adopt a seeded change from a sub-agent's scratch worktree.
#  1. confirm in the worktree: with the change the project builds, the 17 tests pass and the demonstration fails; without it the demonstration passes;
#  2. apply the change to /repo, run the given checks (default: the property's own), restore /repo.
set -u
P=$1; WT=$2; shift 2; PROP=${P%[a-z]}; CHECKS=${@:-$PROP}
D=/verif/seeded/$P; mkdir -p $D
cp $WT/SEEDED/patch.diff $WT/SEEDED/demo.cpp $WT/SEEDED/build_demo.sh $D/ 2>/dev/null
cp $WT/SEEDED/meta.json $D/agent_meta.json 2>/dev/null
cd $WT && git checkout -q -- src include 2>/dev/null; git apply --check $D/patch.diff || { echo "PATCH DOES NOT APPLY"; exit 2; }
[ -d _build ] || cmake -G Ninja -B _build -S . -DTEAKRA_BUILD_UNIT_TESTS=ON >/dev/null 2>&1
DEMO=$(grep -o '\-o *[^ ]*' SEEDED/build_demo.sh | tail -1 | sed 's/-o *//')
cmake --build _build >/dev/null 2>&1; bash SEEDED/build_demo.sh >/tmp/seed_b1.log 2>&1; $DEMO >/tmp/seed_demo_clean.log 2>&1; RC_CLEAN=$?
git apply $D/patch.diff
cmake --build _build >/tmp/seed_cmake.log 2>&1; BUILD=$?
ctest --test-dir _build >/tmp/seed_ctest.log 2>&1; CTEST=$?
bash SEEDED/build_demo.sh >/tmp/seed_b2.log 2>&1; $DEMO >/tmp/seed_demo_mut.log 2>&1; RC_MUT=$?
echo "CONFIRM build=$BUILD ctest=$CTEST demo_unchanged=$RC_CLEAN demo_changed=$RC_MUT  ($(tail -1 /tmp/seed_demo_mut.log | cut -c1-120))"
cd /repo && git checkout -q -- . && git apply $D/patch.diff || { echo "PATCH DOES NOT APPLY TO /repo"; exit 2; }
RESULTS=""
for c in $CHECKS; do
  (cd /verif && bin/vcheck $c --no-fidelity > /tmp/seed_vcheck_$c.log 2>&1); rc=$?
  nv=$(grep -c '^VIOLATION' /tmp/seed_vcheck_$c.log); nu=$(grep -c '^UNDECIDED' /tmp/seed_vcheck_$c.log)
  echo "CHECK $c exit=$rc violations=$nv undecided=$nu"; grep '^VIOLATION' /tmp/seed_vcheck_$c.log | head -3 | cut -c1-240
  RESULTS="$RESULTS {\"check\": \"$c\", \"exit\": $rc, \"violations\": $nv, \"undecided\": $nu},"
done
cd /repo && git checkout -q -- .
git -C /repo status --short | grep -v _build | head -3
python3 - <<PY
import json
am = {}
try: am = json.load(open('$D/agent_meta.json'))
except Exception: pass
m = {'property': '$PROP', 'what_changed': am.get('what_changed'), 'needs_to_manifest': am.get('needs_to_manifest'),
     'confirmed_in_scratch_worktree': {'builds': $BUILD == 0, 'tests_pass': $CTEST == 0, 'demo_exit_unchanged': $RC_CLEAN, 'demo_exit_changed': $RC_MUT},
     'ran': 'tools/seed_eval.sh $P <worktree> $CHECKS  (git apply in /repo; bin/vcheck <check> --no-fidelity; git checkout -- .)',
     'checks': json.loads('[' + '''$RESULTS'''.rstrip(',') + ']')}
json.dump(m, open('$D/meta.json', 'w'), indent=1)
PY
