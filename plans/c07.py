ICU_ROOTS = ['Teakra::ICU::' + f for f in ('Trigger', 'Acknowledge', 'SetEnable', 'SetEnableVectored', 'GetRequest', 'GetEnable', 'GetEnableVectored', 'GetVector', 'TriggerSingle')]
U = {'unwind': 17}
ICU_PLAN = {
    'property': 'C07', 'part': 'icu',
    'units': [{'name': 'icu', 'tu': 'src/teakra.cpp', 'roots': ICU_ROOTS, 'must_fire': ['std::bitset<16> -> u16', 'std::function invocation -> CB_<Class>_<field> stub']}],
    'harness_files': ['harness/c07_icu.c'], 'contract_files': ['contracts/icu_contracts.h'], 'spec_files': ['spec/icu_spec.h'],
    'native': {'bridges': ['replay/bridge_icu.cpp']},
    'obligations': [
        dict({'id': 'ICU_Trigger', 'entry': 'h_ICU_Trigger', 'enforce': ['ICU_Trigger'], 'expect_classes': {'postcondition': 1, 'assigns': 3}, 'min_obligations': 10, 'timeout': 300}, **U),
        dict({'id': 'ICU_TriggerSingle', 'entry': 'h_ICU_TriggerSingle', 'enforce': ['ICU_TriggerSingle'], 'expect_classes': {'postcondition': 1}, 'min_obligations': 10, 'timeout': 300}, **U),
        dict({'id': 'ICU_Acknowledge', 'entry': 'h_ICU_Acknowledge', 'enforce': ['ICU_Acknowledge'], 'expect_classes': {'postcondition': 1, 'assigns': 1}, 'min_obligations': 3}, **U),
        dict({'id': 'ICU_SetEnable', 'entry': 'h_ICU_SetEnable', 'enforce': ['ICU_SetEnable'], 'expect_classes': {'postcondition': 1, 'assertion': 1}, 'min_obligations': 3}, **U),
        dict({'id': 'ICU_SetEnableVectored', 'entry': 'h_ICU_SetEnableVectored', 'enforce': ['ICU_SetEnableVectored'], 'expect_classes': {'postcondition': 1, 'assertion': 1}, 'min_obligations': 3}, **U),
        dict({'id': 'lemma_pending', 'entry': 'h_lemma_pending', 'replace': ['ICU_Trigger', 'ICU_Acknowledge', 'ICU_GetRequest'], 'expect_classes': {'assertion': 1, 'precondition': 4}, 'min_obligations': 5}, **U),
    ],
    'trusted_base': ['the core-side entry points (Processor::SignalInterrupt / SignalVectoredInterrupt) behind std::function are delivery recorders in the ICU half',
                     'std::bitset<16> modelled as u16; locks dropped (sequential)'],
    'assumptions': ['interrupt_index < 3, irq < 16 (constants at every call site in teakra.cpp / mmio.cpp; bounds are C18 obligations)'],
    'not_covered': [],
}

# ---- processor-core half: the latch / priority scan / entry sequence of Interpreter::Run, stated over Run(1) on the extracted interpreter
import os, sys, copy
sys.path.insert(0, os.path.dirname(os.path.abspath(__file__)))
from core_unit import CORE_UNIT
CU = copy.deepcopy(CORE_UNIT)
CU['roots'] = CU['roots'] + ['Teakra::Interpreter::SignalInterrupt', 'Teakra::Interpreter::SignalVectoredInterrupt']
CW = ['Interpreter_' + n for n in ('Run', 'ContextStore', 'SignalInterrupt', 'SignalVectoredInterrupt')]
CU['wrappers'] = CW; CU['require_functions'] = CU['require_functions'] + CW
def cob(e, n, x=None):
    d = {'id': 'core_' + e[2:], 'entry': e, 'enforce': [], 'replace': [], 'unwind': 9, 'timeout': 600, 'expect_classes': {'assertion': n}, 'min_obligations': n, 'checks': [], 'standard_checks': False, 'object_bits': 12,
         'defines': ['-DAM_CELLS=2', '-DAM_PCELLS=2']}
    d.update(x or {}); return d
CORE_PLAN = {
    'property': 'C07', 'part': 'core',
    'units': [CU],
    'harness_files': ['harness/c07_core.c'], 'contract_files': [], 'spec_files': ['spec/regs_spec.h'],
    'native': {'bridges': ['replay/bridge_proc.cpp']},
    'fidelity_samples': {'quick': 3000, 'thorough': 100000},
    'obligations': [cob('h_irq_dispatch', 5), cob('h_irq_once', 4), cob('h_signal', 3)],
    'trusted_base': ['interrupt entry is stated over Interpreter::Run(1) with the interrupted instruction fixed to nop (word 0x0000): under CBMC the dispatch of that word is a no-op stub, natively the real decode table runs; that an arbitrary instruction leaves the latches alone is C01/C18 (no handler names them)',
                     'stack memory is the footprint abstraction of harness/absmem.h; ContextStore itself is pinned by C08 (context round trip) and used here as the expected effect of a configured context switch'],
    'assumptions': ['no block repeat active at the boundary (lp = 0; loop bookkeeping is C09), prpage = 0, pc + 1 and the vector inside program space (C18 owns the other cases)'],
    'not_covered': ['the wiring of peripherals to IRQ numbers in Teakra::Impl::Impl (std::function closures in teakra.cpp)', 'interleavings across threads (C19)'],
}
PLAN = {'property': 'C07', 'parts': [ICU_PLAN, CORE_PLAN]}
