ICU_ROOTS = ['Teakra::ICU::' + f for f in ('Trigger', 'Acknowledge', 'SetEnable', 'SetEnableVectored', 'GetRequest', 'GetEnable', 'GetEnableVectored', 'GetVector', 'TriggerSingle')]
U = {'unwind': 17}
PLAN = {
    'property': 'C07',
    'units': [{'name': 'icu', 'tu': 'src/teakra.cpp', 'roots': ICU_ROOTS, 'must_fire': ['std::bitset<16> -> u16', 'std::function invocation -> CB_<Class>_<field> stub']}],
    'harness_files': ['harness/c07_icu.c'], 'contract_files': ['contracts/icu_contracts.h'], 'spec_files': ['spec/icu_spec.h'],
    'native': {'bridges': ['replay/bridge_icu.cpp']},
    'obligations': [
        dict({'id': 'ICU_Trigger', 'entry': 'h_ICU_Trigger', 'enforce': ['ICU_Trigger'], 'expect_classes': {'postcondition': 1, 'assigns': 3}, 'min_obligations': 10, 'timeout': 300}, **U),
        dict({'id': 'ICU_TriggerSingle', 'entry': 'h_ICU_TriggerSingle', 'enforce': ['ICU_TriggerSingle'], 'expect_classes': {'postcondition': 1}, 'min_obligations': 10, 'timeout': 300}, **U),
        dict({'id': 'ICU_Acknowledge', 'entry': 'h_ICU_Acknowledge', 'enforce': ['ICU_Acknowledge'], 'expect_classes': {'postcondition': 1, 'assigns': 1}, 'min_obligations': 3}, **U),
        dict({'id': 'ICU_SetEnable', 'entry': 'h_ICU_SetEnable', 'enforce': ['ICU_SetEnable'], 'expect_classes': {'postcondition': 1, 'assertion': 1}, 'min_obligations': 3}, **U),
        dict({'id': 'ICU_SetEnableVectored', 'entry': 'h_ICU_SetEnableVectored', 'enforce': ['ICU_SetEnableVectored'], 'expect_classes': {'postcondition': 1, 'assertion': 1}, 'min_obligations': 3}, **U),
        dict({'id': 'lemma_pending', 'entry': 'h_lemma_pending', 'replace': ['ICU_Trigger', 'ICU_Acknowledge', 'ICU_GetRequest'], 'expect_classes': {'assertion': 1, 'precondition': 4}, 'min_obligations': 5}, **U),
    ],
    'trusted_base': ['the core-side entry points (Processor::SignalInterrupt / SignalVectoredInterrupt) behind std::function are delivery recorders in the ICU half',
                     'std::bitset<16> modelled as u16; locks dropped (sequential)'],
    'assumptions': ['interrupt_index < 3, irq < 16 (constants at every call site in teakra.cpp / mmio.cpp; bounds are C18 obligations)'],
    'not_covered': ['core half of the property (Interpreter::Run latch/dispatch block, PushPC, ContextStore, reti): processor unit not yet part of this plan'],
}
