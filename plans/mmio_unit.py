# the MMIO unit: MMIORegion's binding table (src/mmio.cpp) partially evaluated over the peripheral sources it binds (one umbrella translation unit)
MMIO_UNIT = {'name': 'mmio', 'tu': ['src/mmio.cpp', 'src/timer.cpp', 'src/apbp.cpp', 'src/dma.cpp', 'src/ahbm.cpp', 'src/btdmp.cpp'], 'roots': ['MMIO_TABLE:Teakra::MMIORegion'],
             'require_functions': ['vmmio', 'Dma_ActivateChannel', 'Timer_Restart', 'Apbp_SendData', 'ICU_Trigger', 'Btdmp_Send', 'Ahbm_SetBurstSize'],
             'must_fire': ['mmio table: cell binding statement evaluated', 'mmio table: constant-bound for loop unrolled', 'range-for over the BitFieldSlot list of a cell -> unrolled over the evaluated slots',
                           "BitFieldSlot closure invocation -> the slot's own closure function", '*shared_ptr<u16> (cell backing word) -> *pointer']}
