TK = ['Teakra::Teakra::' + f for f in ('ProgramRead', 'ProgramWrite', 'DataRead', 'DataWrite', 'DataReadA32', 'DataWriteA32', 'MMIORead', 'MMIOWrite', 'GetDspMemory')]
MI = ['MemoryInterface_' + f for f in ('ProgramRead', 'ProgramWrite', 'DataRead', 'DataWrite', 'DataReadA32', 'DataWriteA32', 'MMIORead', 'MMIOWrite')]
U = lambda e: {'unwind': 24}
def fn(f, entry, npost=1):
    d = {'id': f, 'entry': entry, 'enforce': [f], 'expect_classes': {'postcondition': npost}, 'min_obligations': 3, 'timeout': 600, 'solver': 'cadical'}
    d.update(U(entry)); return d
PLAN = {
    'property': 'C11',
    'standard_checks': False,      # functional obligations; out-of-array accesses are explicit outcomes (VERIF_RAW_*), the rest is C18
    'units': [{'name': 'mem', 'tu': ['src/teakra.cpp', 'src/memory_interface.cpp'], 'roots': TK,
               'must_fire': ['SharedMemory::raw[i] -> VERIF_RAW_READ(raw, i) (bounds = outcome/obligation)', 'SharedMemory::raw[i] = v -> VERIF_RAW_WRITE(raw, i, v)'],
               'require_functions': MI + ['SharedMemory_ReadWord', 'SharedMemory_WriteWord']}],
    'harness_files': ['harness/c11.c'], 'contract_files': ['contracts/mem_contracts.h'], 'spec_files': ['spec/mem_spec.h'],
    'native': {'bridges': ['replay/bridge_mem.cpp']},
    'obligations': [
        fn('SharedMemory_ReadWord', 'h_ReadWord'), fn('SharedMemory_WriteWord', 'h_WriteWord', 2),
        fn('MemoryInterface_ProgramRead', 'h_ProgramRead'), fn('MemoryInterface_ProgramWrite', 'h_ProgramWrite', 2),
        fn('MemoryInterface_DataRead', 'h_DataRead'), fn('MemoryInterface_DataWrite', 'h_DataWrite'),
        fn('MemoryInterface_DataReadA32', 'h_DataReadA32'), fn('MemoryInterface_DataWriteA32', 'h_DataWriteA32', 2),
        fn('MemoryInterface_MMIORead', 'h_MMIORead'), fn('MemoryInterface_MMIOWrite', 'h_MMIOWrite'),
        dict({'id': 'lemma_views_agree', 'entry': 'h_views_agree', 'replace': ['MemoryInterface_DataWrite', 'MemoryInterface_DataRead', 'MemoryInterface_DataReadA32', 'MemoryInterface_ProgramRead'],
              'expect_classes': {'assertion': 1, 'precondition': 4}, 'min_obligations': 5, 'timeout': 300}, **U('h_views_agree')),
        dict({'id': 'host_accessors', 'entry': 'h_host_accessors', 'replace': MI, 'native': False, 'expect_classes': {'assertion': 4, 'precondition': 3}, 'min_obligations': 7, 'timeout': 300}, **U('h_host_accessors')),
        dict({'id': 'host_writers', 'entry': 'h_host_writers', 'replace': MI, 'native': False, 'expect_classes': {'assertion': 5, 'precondition': 5}, 'min_obligations': 10, 'timeout': 300}, **U('h_host_writers')),
    ],
    'trusted_base': ['DSP memory is a footprint abstraction in CBMC (cells at arbitrary addresses with arbitrary contents; one access touches 2 bytes)',
                     'user-supplied vs owned memory: both are a pointer to 0x80000 bytes; the constructor SharedMemory::SharedMemory is outside the contracts',
                     'the MMIO region behind the window is an observer here (C12 checks its registers)'],
    'assumptions': ['default paging mode (page_mode == 0), as the property states', 'accesses outside the 0x80000-byte array end the path here (CRASH outcome); they are C18 obligations'],
    'not_covered': ['instruction fetch / load / store use these same functions; their call sites are checked in C02 (fetch) and C01/C18 (handlers)'],
}
