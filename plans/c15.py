TIMER_ROOTS = ['Teakra::Timer::Reset', 'Teakra::Timer::Restart', 'Teakra::Timer::Tick', 'Teakra::Timer::TickEvent',
               'Teakra::Timer::GetMaxSkip', 'Teakra::Timer::Skip', 'Teakra::Timer::UpdateMMIO']
CB = ['CB_Timer_interrupt_handler']
PLAN = {
    'property': 'C15',
    'units': [{'name': 'timer', 'tu': 'src/timer.cpp', 'roots': TIMER_ROOTS,
               'must_fire': ['ASSERT(c) -> VERIF_ASSERT', 'std::function invocation -> CB_<Class>_<field> stub']}],
    'harness_files': ['harness/c15.c'],
    'contract_files': ['contracts/timer_contracts.h'],
    'spec_files': ['spec/timer_spec.h'],
    'native': {'bridges': ['replay/bridge_timer.cpp']},
    'obligations': [
        {'id': 'Timer_Tick', 'entry': 'h_Timer_Tick', 'enforce': ['Timer_Tick'], 'replace': CB, 'expect_classes': {'postcondition': 1, 'assigns': 3}, 'min_obligations': 20},
        {'id': 'Timer_TickEvent', 'entry': 'h_Timer_TickEvent', 'enforce': ['Timer_TickEvent'], 'replace': CB, 'expect_classes': {'postcondition': 1, 'assigns': 3}, 'min_obligations': 20},
        {'id': 'Timer_Restart', 'entry': 'h_Timer_Restart', 'enforce': ['Timer_Restart'], 'replace': CB, 'expect_classes': {'postcondition': 1, 'assigns': 2}, 'min_obligations': 10},
        {'id': 'Timer_Reset', 'entry': 'h_Timer_Reset', 'enforce': ['Timer_Reset'], 'replace': CB, 'expect_classes': {'postcondition': 1, 'assigns': 9}, 'min_obligations': 10},
        {'id': 'Timer_GetMaxSkip', 'entry': 'h_Timer_GetMaxSkip', 'enforce': ['Timer_GetMaxSkip'], 'replace': CB, 'expect_classes': {'postcondition': 1}, 'min_obligations': 3},
        {'id': 'Timer_UpdateMMIO', 'entry': 'h_Timer_UpdateMMIO', 'enforce': ['Timer_UpdateMMIO'], 'replace': CB, 'expect_classes': {'postcondition': 1}, 'min_obligations': 3},
        # lemmas: Skip inlined (it is what the lemma is about); Tick / GetMaxSkip through their proved contracts
        {'id': 'lemma_skip_base', 'entry': 'h_lemma_skip_base', 'replace': CB, 'expect_classes': {'assertion': 2}, 'min_obligations': 2},
        {'id': 'lemma_skip_step', 'entry': 'h_lemma_skip_step', 'replace': CB + ['Timer_Tick'], 'expect_classes': {'assertion': 2, 'precondition': 1}, 'min_obligations': 3},
        {'id': 'lemma_horizon_sound', 'entry': 'h_lemma_horizon_sound', 'replace': CB, 'expect_classes': {'assertion': 1}, 'min_obligations': 1},
    ],
    'trusted_base': [
        'induction over k (base lemma + step lemma => Skip(k) == Tick^k for all k <= GetMaxSkip()) is a meta-argument, not a CBMC obligation',
        'CB_Timer_interrupt_handler: the installed interrupt handler only bumps ghost_timer_irq (user code behind std::function)',
        'CBMC 6.11 / goto-instrument --dfcc / MiniSat are trusted',
    ],
    'assumptions': ['Timer::scale == 0 in the fast-forward lemmas (Tick ASSERTs it; MMIO can set it, then Tick aborts deliberately)',
                    'count_mode < 4 (2-bit MMIO field; Tick/Restart ASSERT it)'],
    'not_covered': ['restart through the MMIO CFG cell is checked in C12', 'CoreTiming::Skip / Tick dispatch over several callbacks is checked in C06'],
}
