import os, sys
sys.path.insert(0, os.path.dirname(os.path.abspath(__file__)))
from core_unit import CORE_UNIT
import copy
U = copy.deepcopy(CORE_UNIT)
GN = ['EnumOperand_RegName_16_17_18_19_20_21_23_24_43_44_45_25_26_27_46_47_10_14_9_13_36_37_38_39_0_4_1_5_2_6_29_28_GetName', 'EnumOperand_RegName_30_31_32_33_34_35_52_52_40_41_42_52_48_49_50_51_GetName',
      'EnumOperand_RegName_11_15_3_7_GetName', 'EnumOperand_RegName_8_12_0_4_GetName', 'EnumOperand_RegName_0_4_GetName', 'EnumOperand_RegName_8_12_GetName']
W = ['Interpreter_' + n for n in ('Run', 'call', 'callr', 'calla__Ax', 'calla__Axl', 'ret', 'reti', 'retic', 'push__Register', 'pop__Register', 'push__ArArpSttMod', 'pop__ArArpSttMod', 'push__Abe', 'pop__Abe',
     'pusha__Ax', 'pusha__Bx', 'popa', 'push__Px', 'pop__Px', 'push_r6', 'pop_r6', 'push_repc', 'pop_repc', 'push_x0', 'pop_x0', 'push_x1', 'pop_x1', 'push_y1', 'pop_y1', 'push_prpage', 'pop_prpage',
     'cntx_s', 'cntx_r', 'ContextStore', 'ContextRestore', 'banke', 'bankr__', 'bankr__Ar', 'bankr__Ar_Arp', 'bankr__Arp', 'RegToBus16', 'RegFromBus16', 'GetAcc', 'SetAcc')] + ['RegisterState_ConditionPass'] + GN
U['wrappers'] = W; U['require_functions'] = U['require_functions'] + W
def ob(e, n, x=None):
    d = {'id': e[2:], 'entry': e, 'enforce': [], 'replace': [], 'unwind': 9, 'timeout': 600, 'expect_classes': {'assertion': n}, 'min_obligations': n, 'checks': [], 'standard_checks': False, 'object_bits': 12}
    d.update(x or {}); return d
PLAN = {
    'property': 'C08',
    'units': [U],
    'harness_files': ['harness/c08.c'], 'contract_files': [], 'spec_files': ['spec/regs_spec.h'],
    'native': {'bridges': ['replay/bridge_proc.cpp']},
    'fidelity_samples': {'quick': 3000, 'thorough': 100000},
    'obligations': [ob('h_call_ret', 4), ob('h_callr_ret', 3), ob('h_calla_ret', 2), ob('h_ret_cond', 2), ob('h_push_pop_Register', 3), ob('h_push_pop_ArArpSttMod', 3), ob('h_push_pop_sp', 2),
                    ob('h_push_pop_Abe', 2), ob('h_pusha_popa', 3), ob('h_push_pop_acc40', 1), ob('h_push_pop_Px', 3),
                    ob('h_push_pop_r6', 2), ob('h_push_pop_repc', 2), ob('h_push_pop_x0', 2), ob('h_push_pop_x1', 2), ob('h_push_pop_y1', 2), ob('h_push_pop_prpage', 2),
                    ob('h_context_roundtrip', 3), ob('h_banke_twice', 2), ob('h_bankr_twice', 1), ] + [ob('h_interrupt_roundtrip', 4, {'id': 'interrupt_roundtrip_v%d_c%d' % (v, c), 'defines': ['-DIRQ_VECTORED=%d' % v, '-DIRQ_CTX=%d' % c, '-DAM_CELLS=2', '-DAM_PCELLS=1'], 'timeout': 300}) for v in (0, 1) for c in (0, 1)],
    'trusted_base': ['data memory behind the stack pointer is the footprint abstraction of harness/absmem.h (the memory interface itself is C11)',
                     'interrupt entry is exercised through Interpreter::Run(1) with the interrupted instruction fixed to nop (word 0x0000); under CBMC the dispatch of that word is a no-op stub, natively the real decode table runs'],
    'assumptions': ['"saturation disabled and no hardware loop active": sat = sata = 1, lp = 0, rep = false',
                    'the product register p read as a 16-bit register and the p0/p1 two-word pairs assume a neutral output shifter (ps = 0): push reads the product through the shifter while pop writes it raw, as on the hardware the interpreter was validated against',
                    'pusha/popa move 32 bits; an accumulator is restored exactly when it holds a sign-extended 32-bit value, all 40 bits together with the extension pair (h_push_pop_acc40)',
                    'callr: return lemma assumes the relative target stays inside program space (C18 covers the other case)'],
    'not_covered': ['program pairs "with call vs inlined": whole-program equivalence is outside per-function contracts; retd/retid/retidc are unimplemented in the code (UnimplementedException / UNREACHABLE)',
                    'push of an immediate (no pop pair), pc as a pushed 16-bit register'],
}
