import os, sys, copy
sys.path.insert(0, os.path.dirname(os.path.abspath(__file__)))
from core_unit import CORE_UNIT
U = copy.deepcopy(CORE_UNIT)
R = copy.deepcopy(CORE_UNIT); R.update({'name': 'ref', 'repo': 'reference', 'symbol_prefix': 'ref_', 'wrappers': None}); R['require_functions'] = ['Interpreter_Run', 'vdec_Interpreter']
SAMPLE = [0, 1, 4, 23, 57, 96, 200, 300, 383]     # fixed sample of table entries checked by CBMC on every run

def entry_ob(k, name, why):
    return {'id': 'entry_%03d_%s' % (k, name), 'entry': 'h_entry_equiv', 'enforce': [], 'replace': [], 'unwind': 41 if name.startswith('exp') else 17, 'timeout': 600, 'defines': ['-DENTRY=%d' % k, '-DVERIF_ABORT_PROVE=1', '-DC01_UF_MUL=1'],
            'expect_classes': {'assertion': 2}, 'min_obligations': 2, 'abstraction_defines': ['-DC01_UF_MUL=1'],
            'canary': name not in ('trap', 'retd', 'retid', 'retidc', 'mov_dvm', 'mov_dvm_to'),     # the reference never completes on these (Unimplemented / UNREACHABLE): nothing to compare
            'checks': [], 'standard_checks': False, 'object_bits': 12, 'why': why}

def dynamic_obligations(metas, tier, wd):
    import cxx2c
    cur, ref = metas['proc'], metas['ref']
    # shared record/enum types must be identical (the reference copy uses the current unit's types)
    if cxx2c.types_without_constants(os.path.join(wd, 'proc_types.h')).split('\n', 1)[1] != cxx2c.types_without_constants(os.path.join(wd, 'ref_types.h')).split('\n', 1)[1]:
        raise SystemExit('UNDECIDED property=C01: record/enum layout differs from the reference; the equivalence harness shares the types and cannot be built')
    changed = {f for f in set(cur['text_sha']) | set(ref['text_sha']) if cur['text_sha'].get(f) != ref['text_sha'].get(f) and not f.startswith('vdec_')}
    gchanged = {g for g in set(cur['global_text']) | set(ref['global_text']) if cur['global_text'].get(g) != ref['global_text'].get(g)}
    calls = cur['calls']; rcalls = ref['calls']
    def closure(f, cm):
        seen = set(); st = [f]
        while st:
            x = st.pop()
            if x in seen: continue
            seen.add(x); st += list(cm.get(x, ()))
        return seen
    run_changed = bool((closure('Interpreter_Run', calls) | closure('Interpreter_Run', rcalls)) & changed)
    ce = {e['k']: e for e in cur['decode_entries'].get('Interpreter', [])}; re_ = {e['k']: e for e in ref['decode_entries'].get('Interpreter', [])}
    obs = []; affected = []
    for k, e in sorted(ce.items()):
        r = re_.get(k)
        why = None
        if r is None or r['sha'] != e['sha'] or r['name'] != e['name']: why = 'decode-table entry differs from the reference'
        elif gchanged: why = 'a class-scope constant differs from the reference: %s' % sorted(gchanged)[:3]
        elif (closure(e['handler'], calls) | closure(r['handler'], rcalls)) & changed: why = 'handler closure differs from the reference: %s' % sorted((closure(e['handler'], calls) | closure(r['handler'], rcalls)) & changed)[:4]
        elif run_changed: why = 'Interpreter::Run or a function it calls directly differs from the reference'
        if why: affected.append(k)
        if why == 'Interpreter::Run or a function it calls directly differs from the reference' and k not in SAMPLE and tier != 'thorough':
            continue          # a change confined to Run's own closure is decided by the skeleton obligation; the handlers are called directly
        if why or k in SAMPLE or tier == 'thorough':
            obs.append(entry_ob(k, e['name'], why or ('sample' if k in SAMPLE else 'thorough tier: every entry')))
    dynamic_obligations.summary = {'entries': len(ce), 'entries_textually_identical_to_reference': len(ce) - len(affected), 'entries_affected': affected,
                                   'changed_functions': sorted(changed)[:40], 'changed_constants': sorted(gchanged)[:20]}
    obs.append({'id': 'run_skeleton', 'entry': 'h_run_skeleton_equiv', 'enforce': [], 'replace': [], 'unwind': 17, 'timeout': 600, 'defines': ['-DENTRY=0', '-DVERIF_ABORT_PROVE=1'],
                'expect_classes': {'assertion': 3}, 'min_obligations': 3, 'checks': [], 'standard_checks': False, 'object_bits': 12})
    if len(re_) != len(ce): dynamic_obligations.summary['table_size'] = 'reference %d entries, current %d' % (len(re_), len(ce))
    return obs

PLAN = {
    'property': 'C01',
    'units': [U, R],
    'harness_files': ['harness/c01.c'], 'contract_files': [], 'spec_files': ['spec/regs_spec.h'],
    'native': {'bridges': ['replay/bridge_proc.cpp']},
    'fidelity_samples': {'quick': 8000, 'thorough': 500000},
    'obligations': [], 'dynamic_obligations': dynamic_obligations,
    'trusted_base': ['the reference semantics is the pinned commit f94d47f (sources under /verif/reference), which the project validated against hardware with its test_verifier; it is extracted by the same extractor as the code under test, so a translation defect common to both is not detected here (the fidelity run compares the extraction of the current tree with the real C++ on random instructions and states)',
                     'entries whose extracted closure (handler, everything it calls, the decode entry, Interpreter::Run) is textually identical to the reference\'s are equivalent by identity; the quick tier runs the CBMC equivalence for every entry whose closure differs plus a fixed sample of 9 entries, the thorough tier for all 443 entries'],
    'assumptions': ['well-formed register state (hardware widths); pc + 2 inside program space; at most AM_CELLS distinct data words and AM_PCELLS program words touched by one cycle (footprint abstraction, addresses universally quantified)'],
    'not_covered': ['the 70 words that match no entry (undefined(): UNREACHABLE in reference and current alike)',
                    'the test-generator clause (every vector the hardware test generator can emit executes without aborting, inside the compared windows): rand()-driven std:: code outside the extractor'],
}
