import os, sys
sys.path.insert(0, os.path.dirname(os.path.abspath(__file__)))
from core_unit import CORE_UNIT
def ob(i, e, x=None):
    d = {'id': i, 'entry': e, 'enforce': [], 'replace': [], 'unwind': 12, 'timeout': 300, 'expect_classes': {'assertion': 2}, 'min_obligations': 2, 'checks': [], 'standard_checks': False, 'object_bits': 12}
    d.update(x or {}); return d
PLAN = {
    'property': 'C02',
    'units': [CORE_UNIT,
              {'name': 'dis', 'tu': 'src/disassembler.cpp', 'roots': ['DECODE_MATCH:Teakra::Disassembler::Disassembler'], 'require_functions': ['vdec_Disassembler'],
               'must_fire': ['decode table entry -> match/expanded/call functions']}],
    'harness_files': ['harness/c02.c'], 'contract_files': [], 'spec_files': ['spec/regs_spec.h'],
    'native': {'bridges': ['replay/bridge_proc.cpp']},
    'fidelity_samples': {'quick': 3000, 'thorough': 100000},
    'obligations': [
        ob('decode_unique', 'h_decode_unique', {'expect_classes': {'assertion': 3}, 'native': False}),
        ob('decode_agree', 'h_decode_agree', {'expect_classes': {'assertion': 3}, 'native': False}),
        ob('unused_bits', 'h_unused_bits', {'expect_classes': {'assertion': 3}, 'native': False}),
        ob('run_fetch', 'h_run_fetch', {'expect_classes': {'assertion': 4}, 'unwind': 9}),
        ob('run_fetch_concrete', 'h_run_fetch_concrete', {'expect_classes': {'assertion': 2}, 'unwind': 9}),
        {'id': 'table_fidelity_enumeration', 'entry': 'h_decode_unique', 'native_exhaustive': 'verif_exh_decode_tables', 'exhaustive_bridges': ['replay/enum_decode.cpp', '/repo/src/disassembler.cpp'],
         'exhaustive_c': ['replay/enum_decode_ext.c'], 'canary': False, 'range': 65536, 'timeout': 3000,
         'bounded': 'complete native enumeration of all 65536 first words (finite domain): generated decode functions vs the real tables built by GetDecoderTable<Interpreter>() and Decode<Disassembler>; printing under unused bits with 3 second words',
         'what': 'generated table == real table (name, expanded) for interpreter and disassembler; disassembly text invariant under unused bits'},
    ],
    'trusted_base': ['Decode<V> (std::find_if over the table, first match, undefined() when none) is re-expressed by the generated first-match chain vdec_<V>_first; every mask, expected value, rejector, expanded flag and operand extraction is translated from the instantiated AST; the chain is compared with the real 65536-entry tables word by word (table_fidelity_enumeration)',
                     'Matcher::call ASSERT(Matches(instruction)) is dropped (holds by construction of the table)'],
    'assumptions': ['run_fetch: no hardware loop active, interrupts disabled (those paths are C09 / C08 / C06)'],
    'not_covered': ['assembler and test generator: they build their own tables from the disassembler token lists (parser.cpp) resp. rand()-driven code (test_generator.cpp); the assembler side is covered only by C05\'s bounded text round trip',
                    '"how it is printed" under unused bits: checked on the real disassembler by complete enumeration of first words with 3 second words (bounded in the second word), not by contract'],
}
