HELP = ['Interpreter_AddSub', 'Interpreter_SetAccFlag', 'Interpreter_SaturateAcc', 'Interpreter_GetAcc', 'Interpreter_SetAcc']
WR = ['Interpreter_SatAndSetAccAndFlag', 'Interpreter_SetAccAndFlag']
OBS = [  # id, entry, enforce, replace, extra
    ('Interpreter_ProductToBus40', 'h_ProductToBus40', [], {}),
    ('Interpreter_ProductFromBus32', 'h_ProductFromBus32', [], {}),
    ('Interpreter_MulGeneric', 'h_MulGeneric', ['Interpreter_DoMultiplication', 'Interpreter_ProductToBus40', 'Interpreter_AddSub', 'Interpreter_GetAcc'] + WR[:1], {'timeout': 600}),
    ('Interpreter_ShiftBus40', 'h_ShiftBus40', ['Interpreter_SetAccFlag', 'Interpreter_SetAcc'], {'timeout': 900}),
    ('Interpreter_Exp', 'h_Exp', [], {'unwind': 41, 'timeout': 600}),
    ('Interpreter_mul_y0_r6', 'h_mul_y0_r6', ['Interpreter_MulGeneric'], {}),
    ('Interpreter_mpyi', 'h_mpyi', ['Interpreter_DoMultiplication'], {}),
    ('Interpreter_mac_x1to0', 'h_mac_x1to0', ['Interpreter_DoMultiplication', 'Interpreter_ProductToBus40', 'Interpreter_AddSub', 'Interpreter_GetAcc'] + WR[:1], {}),
    ('Interpreter_shfc', 'h_shfc', ['Interpreter_ShiftBus40', 'Interpreter_GetAcc'], {}),
    ('Interpreter_shfi', 'h_shfi', ['Interpreter_ShiftBus40', 'Interpreter_GetAcc'], {}),
    ('Interpreter_movs_r6_to', 'h_movs_r6_to', ['Interpreter_ShiftBus40'], {}),
    ('Interpreter_exp__Bx', 'h_exp_bx', ['Interpreter_Exp', 'Interpreter_GetAcc'], {'unwind': 41}),
    ('Interpreter_exp__Bx_Ax', 'h_exp_bx_ax', ['Interpreter_Exp', 'Interpreter_GetAcc', 'Interpreter_SetAcc'], {'unwind': 41}),
]
FUC = [o[0] for o in OBS] + ['Interpreter_Moda', 'Interpreter_DoMultiplication']
def ob(i, e, r, x):
    d = {'id': i, 'entry': e, 'enforce': [i], 'replace': r, 'unwind': 9, 'timeout': 1200, 'expect_classes': {'postcondition': 1}, 'min_obligations': 5, 'checks': [], 'standard_checks': False, 'object_bits': 12}
    d.update(x); return d
PLAN = {
    'property': 'C04',
    'units': [{'name': 'proc', 'tu': 'src/processor.cpp',
               'roots': ['Teakra::Interpreter::' + n for n in ('DoMultiplication', 'ProductToBus40', 'ProductToBus32_NoShift', 'ProductFromBus32', 'MulGeneric', 'ShiftBus40', 'Exp', 'ExpStore', 'Moda',
                                                              'mul_y0_r6', 'mpyi', 'mac_x1to0', 'shfc', 'shfi', 'movs_r6_to', 'exp', 'AddSub', 'SetAccFlag', 'SaturateAcc', 'SatAndSetAccAndFlag', 'SetAccAndFlag', 'GetAcc', 'SetAcc')],
               'require_functions': FUC, 'wrappers': FUC, 'wrapper_owners': ['Teakra::Interpreter', 'Teakra::RegisterState'],
               'force_types': ['AlmOp', 'ModaOp', 'CondValue', 'MulOp', 'RegName', 'Ax', 'Bx', 'Ab', 'Px', 'Imm8', 'Imm16', 'Imm6s', 'Imm8s'],
               'must_fire': ['UNREACHABLE() -> VERIF_ASSERT(0)']}],
    'harness_files': ['harness/c04.c'], 'contract_files': ['contracts/mul_contracts.h', 'contracts/alu_contracts.h'], 'spec_files': ['spec/mul_spec.h', 'spec/alu_spec.h', 'spec/regs_spec.h'],
    'native': {'bridges': ['replay/bridge_proc.cpp']},
    'fidelity_samples': {'quick': 3000, 'thorough': 100000},
    'obligations': [ob(*o) for o in OBS] + [
        {'id': 'DoMultiplication_enumeration', 'entry': 'h_DoMultiplication', 'native_exhaustive': 'verif_exh_DoMultiplication', 'canary': False,
         'bounded': 'native enumeration of the extracted function against the exact 64-bit product: 2^28 cases (quick), all 2^37 (thorough, exhaustive)',
         'range': {'quick': 1 << 28, 'thorough': 1 << 37}, 'what': 'p, pe == exact 33-bit product of the selected factors', 'timeout': 6000},
        {'id': 'Interpreter_Moda_shift', 'entry': 'h_Moda_shift', 'enforce': ['Interpreter_Moda'], 'replace': ['Interpreter_ShiftBus40', 'Interpreter_GetAcc', 'Interpreter_SetAccAndFlag'], 'defines': ['-DMODA_C04'],
         'unwind': 9, 'timeout': 600, 'expect_classes': {'postcondition': 1}, 'min_obligations': 5, 'checks': [], 'standard_checks': False, 'object_bits': 12}],
    'trusted_base': ['Interpreter::DoMultiplication carries an ASSUMED contract at its call sites: minisat, z3 4.8, z3 5.1 and cvc5 all time out on the 16x16->33-bit product equivalence; the function is covered by the bounded stand-in DoMultiplication_enumeration (exhaustive over all 2^37 cases in the thorough tier) and by the differential fidelity run against the real C++',
                     'half-word-mode selection of the y factor follows register.h (no other documentation exists in the repository)',
                     'carry for shift amounts |sv| >= 40 on left and logical-right shifts is pinned to the reference (0); the statement is silent there'],
    'assumptions': ['wf_regs'],
    'not_covered': ['memory-operand multiply forms, msu/msusu, mac1 and the mma templates: same helpers behind loads through the address unit (C10)', 'sqr_sqr_add3, sqr_mpysu_add3a, app, norm'],
}
