ROOTS = ['Teakra::Dma::DoDma', 'Teakra::Dma::Channel::Start', 'Teakra::Dma::Channel::Tick', 'Teakra::Ahbm::Read16', 'Teakra::Ahbm::Read32',
         'Teakra::Ahbm::Write16', 'Teakra::Ahbm::Write32', 'Teakra::Ahbm::GetChannelForDma']
CB = ['CB_Dma_interrupt_handler']
BURST_UNWIND = ['h_ahbm_read_burst.0:9', 'h_ahbm_read_burst.1:9', 'h_ahbm_write_burst.0:9', 'h_ahbm_write_burst.1:9', 'Ahbm_Read32.0:9', 'Ahbm_WriteInternal.0:9']
RIG_UNWIND = 14
PLAN = {
    'force_dfcc': True,     # the Tick lemmas were tuned under the dfcc pipeline (its instrumentation happens to make them 3x faster than the plain run)
    'property': 'C13',
    'standard_checks': False,      # functional obligations; memory-safety of these functions is C18's subject (default checks also cover spec code and are slow)
    'units': [{'name': 'dma', 'tu': ['src/dma.cpp', 'src/ahbm.cpp'], 'roots': ROOTS,
               'must_fire': ['SharedMemory::raw[i] -> VERIF_RAW_READ(raw, i) (bounds = outcome/obligation)', 'SharedMemory::raw[i] = v -> VERIF_RAW_WRITE(raw, i, v)', 'std::queue<T> -> verif_queue_T']}],
    'harness_files': ['harness/c13.c'], 'contract_files': ['contracts/dma_contracts.h'], 'spec_files': ['spec/dma_spec.h'],
    'native': {'bridges': ['replay/bridge_dma.cpp']},
    'fidelity_samples': {'quick': 2000, 'thorough': 20000},
    'obligations': [
        {'id': 'Dma_Channel_Start', 'entry': 'h_Start', 'enforce': ['Dma_Channel_Start'], 'expect_classes': {'postcondition': 1, 'assigns': 6}, 'min_obligations': 7},
        {'id': 'Dma_Channel_Tick', 'entry': 'h_Tick_cursor', 'enforce': ['Dma_Channel_Tick'], 'unwind': 3, 'unwindset': ['h_Tick_cursor.0:14', 'h_Tick_cursor.1:4'], 'timeout': 600,
         'expect_classes': {'postcondition': 1, 'assigns': 6}, 'min_obligations': 20},
        {'id': 'Tick_word_mem', 'entry': 'h_Tick_word_mem', 'unwind': 3, 'unwindset': ['h_Tick_word_mem.0:14', 'h_Tick_word_mem.1:4'], 'timeout': 600, 'expect_classes': {'assertion': 3}, 'min_obligations': 3},
        {'id': 'Tick_dword_mem', 'entry': 'h_Tick_dword_mem', 'unwind': 3, 'unwindset': ['h_Tick_dword_mem.0:14', 'h_Tick_dword_mem.1:4'], 'timeout': 600, 'expect_classes': {'assertion': 2}, 'min_obligations': 2},
        {'id': 'Tick_ext_to_mem_dw0', 'entry': 'h_Tick_ext_to_mem', 'unwind': 3, 'unwindset': ['h_Tick_ext_to_mem.0:14', 'h_Tick_ext_to_mem.1:4'], 'timeout': 600, 'defines': ['-DEXT_DW=0'], 'native': True, 'expect_classes': {'assertion': 2}, 'min_obligations': 2},
        {'id': 'Tick_ext_to_mem_dw1', 'entry': 'h_Tick_ext_to_mem', 'unwind': 3, 'unwindset': ['h_Tick_ext_to_mem.0:14', 'h_Tick_ext_to_mem.1:4'], 'timeout': 600, 'defines': ['-DEXT_DW=1'], 'native': False, 'expect_classes': {'assertion': 2}, 'min_obligations': 2},
        {'id': 'Tick_mem_to_ext_dw0', 'entry': 'h_Tick_mem_to_ext', 'unwind': 3, 'unwindset': ['h_Tick_mem_to_ext.0:14', 'h_Tick_mem_to_ext.1:4'], 'timeout': 600, 'defines': ['-DEXT_DW=0'], 'native': True, 'expect_classes': {'assertion': 2}, 'min_obligations': 2},
        {'id': 'Tick_mem_to_ext_dw1', 'entry': 'h_Tick_mem_to_ext', 'unwind': 3, 'unwindset': ['h_Tick_mem_to_ext.0:14', 'h_Tick_mem_to_ext.1:4'], 'timeout': 600, 'defines': ['-DEXT_DW=1'], 'native': False, 'expect_classes': {'assertion': 2}, 'min_obligations': 2},
        {'id': 'Ahbm_GetChannelForDma', 'entry': 'h_GetChannelForDma', 'enforce': ['Ahbm_GetChannelForDma'], 'unwind': 4, 'expect_classes': {'postcondition': 1}, 'min_obligations': 2},
        {'id': 'Dma_DoDma', 'entry': 'h_DoDma', 'enforce': ['Dma_DoDma'], 'replace': CB + ['Dma_Channel_Tick', 'Dma_Channel_Start', 'Ahbm_GetChannelForDma'],
         'loop_contracts': True, 'unwindset_pre': ['h_DoDma.0:14', 'h_DoDma.1:4'], 'timeout': 600,
         'expect_classes': {'postcondition': 3, 'loop_invariant_step': 1, 'loop_decreases': 1, 'precondition': 1}, 'min_obligations': 10},
    ] + [
        {'id': 'ahbm_%s_burst_b%d_w%d' % (rw, b, w), 'entry': 'h_ahbm_%s_burst' % rw, 'unwind': 10, 'timeout': 900, 'defines': ['-DAHBM_BURST=%d' % b, '-DAHBM_WIDE=%d' % w],
         'expect_classes': {'assertion': 3}, 'min_obligations': 3, 'native': (b == 2 and w == 1), 'tier': ('thorough' if b == 2 else 'quick')}
        for rw in ('read', 'write') for b in (0, 1, 2) for w in (0, 1)
    ],
    'trusted_base': ['single-element harnesses range over a zero-background DSP memory plus 10 bytes at arbitrary addresses with arbitrary values; one Tick touches at most 8 bytes (locality argument)',
                     'external-memory callbacks are user code behind std::function, modelled as an access log returning arbitrary values',
                     'the element SEQUENCE of a whole transfer is Tick iterated by the loop of DoDma (loop contract: invariant, lexicographic decreases); "n-th element = documented n-th address" is by induction over Tick\'s recurrence contract, not a separate CBMC obligation'],
    'assumptions': ['element addresses of DSP-memory spaces lie inside data memory (current_src/dst < 0x20000) in the memory-effect lemmas; outside that the real code leaves the 0x80000-byte array (C18 finding/obligation)',
                    'AHBM channel at burst x1 with unit size matching the element size in the DMA<->external lemmas; bursts are covered by the AHBM burst lemmas with step == unit size'],
    'not_covered': ['src/dst space 1 (MMIO) and 5 (program memory): unimplemented in the code (prints a diagnostic)'],
}
