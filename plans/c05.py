PLAN = {
    'property': 'C05',
    'units': [{'name': 'dc', 'tu': 'src/disassembler_c.cpp', 'roots': ['Teakra_Disasm_Do', 'Teakra_Disasm_NeedExpansion'],
               'must_fire': ['std::string -> verif_string (pointer + length)']}],
    'harness_files': ['harness/c05.c'], 'contract_files': ['contracts/disasm_c_contracts.h'], 'spec_files': [],
    'native': {'bridges': ['replay/bridge_disasm_c.cpp']},
    'obligations': [
        {'id': 'Teakra_Disasm_Do', 'entry': 'h_Disasm_Do', 'enforce': ['Teakra_Disasm_Do'], 'loop_contracts': True, 'timeout': 300,
         'expect_classes': {'postcondition': 3, 'assigns': 2, 'loop_invariant_step': 1, 'loop_decreases': 1}, 'min_obligations': 10},
        {'id': 'asm_text_roundtrip_enumeration', 'entry': 'h_Disasm_Do', 'native_exhaustive': 'verif_exh_asm_roundtrip', 'exhaustive_bridges': ['replay/enum_asm_roundtrip.cpp'], 'canary': False,
         'bounded': 'exhaustive native run of the real disassembler + parser over all 65536 first words x 4 second words (0x0000, 0xFFFF, 0x1234, 0x8001)',
         'range': 65536, 'what': 'token list assembles back to an equivalent opcode with identical disassembly and joined text', 'timeout': 3000},
    ],
    'trusted_base': ['Teakra::Disassembler::Do returns an arbitrary string (its 330 string-building visitor methods are outside any contract here)',
                     'std::string modelled as (pointer, length)'],
    'assumptions': ['buffer and text lengths below 2^20'],
    'not_covered': ['text <-> opcode round trip and joined-text form: NOT proved -- std::string / stringstream / unordered_map code is out of reach of CBMC contracts; covered only by the bounded stand-in asm_text_roundtrip_enumeration (4 second words per opcode); execution equality of the re-assembled opcode and injectivity up to unused bits are not checked',
                    'firmware sources vs shipped DSP binaries: the cdc.bin files are git-lfs pointers in this sandbox'],
}
