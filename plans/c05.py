PLAN = {
    'property': 'C05',
    'units': [{'name': 'dc', 'tu': 'src/disassembler_c.cpp', 'roots': ['Teakra_Disasm_Do', 'Teakra_Disasm_NeedExpansion'],
               'must_fire': ['std::string -> verif_string (pointer + length)']}],
    'harness_files': ['harness/c05.c'], 'contract_files': ['contracts/disasm_c_contracts.h'], 'spec_files': [],
    'native': {'bridges': ['replay/bridge_disasm_c.cpp']},
    'obligations': [
        {'id': 'Teakra_Disasm_Do', 'entry': 'h_Disasm_Do', 'enforce': ['Teakra_Disasm_Do'], 'loop_contracts': True, 'timeout': 300,
         'expect_classes': {'postcondition': 3, 'assigns': 2, 'loop_invariant_step': 1, 'loop_decreases': 1}, 'min_obligations': 10},
    ],
    'trusted_base': ['Teakra::Disassembler::Do returns an arbitrary string (its 330 string-building visitor methods are outside any contract here)',
                     'std::string modelled as (pointer, length)'],
    'assumptions': ['buffer and text lengths below 2^20'],
    'not_covered': ['text <-> opcode injectivity, assembler round trip (parser.cpp), joined-text form vs token API: std::string / stringstream / unordered_map code is out of reach of CBMC contracts (DESIGN.md C05)',
                    'firmware sources vs shipped DSP binaries: the cdc.bin files are git-lfs pointers in this sandbox'],
}
