OBS = [
    ('BitReverse', 'h_BitReverse', [], {'unwind': 17}),
    ('Interpreter_StepAddress', 'h_StepAddress', [], {'timeout': 900}),
    ('Interpreter_RnAndModify', 'h_RnAndModify', ['Interpreter_StepAddress'], {}),
    ('Interpreter_RnAddress', 'h_RnAddress', ['BitReverse'], {}),
    ('Interpreter_RnAddressAndModify', 'h_RnAddressAndModify', ['Interpreter_RnAndModify', 'Interpreter_RnAddress'], {}),
    ('Interpreter_OffsetAddress', 'h_OffsetAddress', [], {'unwind': 10}),
    ('Interpreter_modr', 'h_modr', ['Interpreter_RnAndModify'], {}),
    ('Interpreter_modr_dmod', 'h_modr_dmod', ['Interpreter_RnAndModify'], {}),
]
FUC = [o[0] for o in OBS]
def ob(i, e, r, x):
    d = {'id': i, 'entry': e, 'enforce': [i], 'replace': r, 'unwind': 9, 'timeout': 300, 'expect_classes': {'postcondition': 1}, 'min_obligations': 3, 'checks': [], 'standard_checks': False, 'object_bits': 12}
    d.update(x); return d
PLAN = {
    'property': 'C10',
    'units': [{'name': 'proc', 'tu': 'src/processor.cpp',
               'roots': ['Teakra::Interpreter::' + n for n in ('StepAddress', 'RnAndModify', 'RnAddress', 'RnAddressAndModify', 'OffsetAddress', 'ConvertArStep', 'modr', 'modr_dmod')] + ['BitReverse'],
               'require_functions': FUC, 'wrappers': FUC, 'wrapper_owners': ['Teakra::Interpreter', 'Teakra::RegisterState'],
               'force_types': ['StepValue', 'RegName', 'Rn'], 'must_fire': ['UNREACHABLE() -> VERIF_ASSERT(0)']}],
    'harness_files': ['harness/c10.c'], 'contract_files': ['contracts/addr_contracts.h'], 'spec_files': ['spec/addr_spec.h', 'spec/regs_spec.h'],
    'native': {'bridges': ['replay/bridge_proc.cpp']},
    'fidelity_samples': {'quick': 3000, 'thorough': 100000},
    'obligations': [ob(*o) for o in OBS] + [
        {'id': 'lemma_cyclic', 'entry': 'h_lemma_cyclic', 'replace': ['Interpreter_StepAddress'], 'unwind': 9, 'timeout': 300, 'expect_classes': {'assertion': 3, 'precondition': 2}, 'min_obligations': 5,
         'checks': [], 'standard_checks': False, 'object_bits': 12}],
    'trusted_base': ['the configured "+s" step (stepi/stepj 7-bit signed, stepi0/stepj0 under stp16 or bit reversal) follows register.h; the statement only says "that step"'],
    'assumptions': ['modulo addressing is covered for steps 0, +1, -1 (the statement\'s scope); +-2 and +s under modulo are excluded by requires',
                    'r3/r7 in end-pointer mode are zeroed also by a zero step (the code\'s behaviour; the statement lists zeroing and "zero step never changes" side by side)',
                    'OffsetAddress with offset -1 under modulo raises UnimplementedException in the code and is excluded'],
    'not_covered': ['all 8 registers, all 512 modulo values, both cmd modes are symbolic at once; Get*RnUnit/Get*Step index helpers are exercised through C20'],
}
