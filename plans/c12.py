import os, sys, copy
sys.path.insert(0, os.path.dirname(os.path.abspath(__file__)))
from mmio_unit import MMIO_UNIT
U = copy.deepcopy(MMIO_UNIT)
def ob(i, e, n, x=None):
    d = {'id': i, 'entry': e, 'enforce': [], 'replace': [], 'unwind': 18, 'unwindset': ['Dma_DoDma.0:1', 'Ahbm_Read32.0:1', 'Ahbm_WriteInternal.0:1'], 'timeout': 900, 'expect_classes': {'assertion': n}, 'min_obligations': n, 'checks': [], 'standard_checks': False, 'object_bits': 12, 'native': False}
    d.update(x or {}); return d
def dynamic_obligations(metas, tier, wd):
    cells = metas['mmio'].get('mmio_cells') or {}
    if not cells.get('bound'): raise SystemExit('UNDECIDED property=C12: the extraction bound no MMIO cell')
    obs = [ob('cell_%s' % k[2:], 'h_mmio_cell', 4, {'defines': ['-DCELL_A=%s' % k], 'timeout': 900}) for k in cells['bound']]
    bound = {int(k, 16) for k in cells['bound']}
    for lo in (0x000, 0x0C0, 0x0E0, 0x100, 0x180, 0x200, 0x280):      # offsets the constructor leaves alone share ONE closure pair (Cell::Cell(), index as parameter): one representative per peripheral region
        a = next(x for x in range(lo, 0x800, 2) if x not in bound)
        obs.append(ob('cell_default_%03X' % a, 'h_mmio_cell', 4, {'defines': ['-DCELL_A=0x%03X' % a], 'timeout': 300}))
    return obs
PLAN = {
    'property': 'C12',
    'units': [U],
    'harness_files': ['harness/c12.c'], 'contract_files': [], 'spec_files': ['spec/mmio_layout.h', 'spec/timer_spec.h', 'spec/btdmp_spec.h'],
    'obligations': [ob('dma_window_%03X' % r, 'h_mmio_dma_window', 2, {'defines': ['-DWIN_REG=0x%03X' % r], 'timeout': 300}) for r in range(0x1C0, 0x1DE, 2)] + [ob('read_dep_g%d' % g, 'h_mmio_read_dep', 1, {'defines': ['-DDEP_GROUP=%d' % g]}) for g in range(7)],
    'dynamic_obligations': dynamic_obligations,
    'trusted_base': ['the verified text is generated on every run from the AST of MMIORegion::MMIORegion and of the Cell / BitFieldSlot factories by extract/mmio_table.py: closure bodies, bit positions, lengths, offsets and loop bounds are translated; the indexing cells[addr].set/get, the call made by a std::bind object and std::function assignment/emptiness are re-expressed by the generator',
                     'layout oracle spec/mmio_layout.h: documented read/write field masks and the coupling relation, transcribed from src/*.md',
                     'user code behind std::function (interrupt lines, host handlers, external memory) is a call recorder'],
    'assumptions': ['the offset is below 0x800: both access paths reduce it first (MMIORead/MMIOWrite & 0x7FF, ToMMIO: C11)', 'peripheral state well-formed (wf_mmio: DMA channel select < 8, timer mode < 4, FIFO flags exact); its preservation by every register access is the obligation mmio_safe of C18',
                    'a write of 0x40C0 to 0x1DE starts a DMA transfer (documented side effect; the transfer is C13)'],
    'not_covered': ['histories longer than the write/read pairs stated (write a, read b; select/write/select/write/select/read): longer histories follow by induction over the well-formed state, not mechanised',
                    'the DSP access path at the window base and the host mirrors reduce to these two functions by C11 (MemoryInterface::DataRead/DataWrite -> MMIORegion::Read/Write with ToMMIO)'],
}
