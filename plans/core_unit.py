# the shared "core" unit: Interpreter::Run with the decode table generated from GetDecodeTable<Interpreter>() and every handler it reaches
CORE_UNIT = {'name': 'proc', 'tu': 'src/processor.cpp', 'roots': ['DECODE_TABLE:Teakra::Interpreter', 'Teakra::Interpreter::Run'],
             'require_functions': ['Interpreter_Run', 'vdec_Interpreter'], 'wrappers': ['Interpreter_Run'], 'wrapper_owners': ['Teakra::Interpreter', 'Teakra::RegisterState'],
             'force_types': ['RegName', 'StepValue'],
             'must_fire': ['decode table entry -> match/expanded/call functions', 'decoder table lookup decoders[opcode] -> VERIF_DECODER_LOOKUP(opcode)',
                           'Matcher::NeedExpansion -> VERIF_DECODER_NEED_EXPANSION', 'Matcher::call -> VERIF_DECODER_CALL', 'decoder table member -> dropped (VERIF_DECODER_* hooks at its uses)']}
