ROOTS = ['Teakra::Apbp::' + f for f in ('Reset', 'SendData', 'RecvData', 'PeekData', 'IsDataReady', 'GetDisableInterrupt', 'SetDisableInterrupt',
                                         'SetSemaphore', 'ClearSemaphore', 'GetSemaphore', 'MaskSemaphore', 'GetSemaphoreMask', 'IsSemaphoreSignaled')]
def fn(name, entry, n_post=2, extra=None):
    d = {'id': name, 'entry': entry, 'enforce': [name], 'expect_classes': {'postcondition': n_post}, 'min_obligations': 5}
    if extra: d.update(extra)
    return d
PLAN = {
    'property': 'C14',
    'units': [{'name': 'apbp', 'tu': 'src/apbp.cpp', 'roots': ROOTS,
               'must_fire': ['std::unique_ptr<T> -> T*', 'std::function invocation -> CB_<Class>_<field> stub']}],
    'harness_files': ['harness/c14.c'], 'contract_files': ['contracts/apbp_contracts.h'], 'spec_files': ['spec/apbp_spec.h'],
    'native': {'bridges': ['replay/bridge_apbp.cpp']},
    'obligations': [
        fn('Apbp_SendData', 'h_SendData'),
        fn('Apbp_RecvData', 'h_RecvData'),
        {'id': 'Apbp_Peek_IsReady', 'entry': 'h_PeekData', 'expect_classes': {'assertion': 2}, 'min_obligations': 3},
        {'id': 'lemma_send_recv', 'entry': 'h_send_recv_roundtrip', 'replace': ['Apbp_SendData', 'Apbp_RecvData', 'Apbp_PeekData', 'Apbp_IsDataReady'],
         'expect_classes': {'assertion': 1, 'precondition': 6}, 'min_obligations': 7},
        fn('Apbp_SetSemaphore', 'h_SetSemaphore'),
        fn('Apbp_ClearSemaphore', 'h_ClearSemaphore'),
        fn('Apbp_MaskSemaphore', 'h_MaskSemaphore'),
        {'id': 'Apbp_semaphore_getters', 'entry': 'h_semaphore_getters', 'expect_classes': {'assertion': 1}, 'min_obligations': 1},
        fn('Apbp_Reset', 'h_Apbp_Reset', 1, {'unwind': 4}),
    ],
    'trusted_base': ['locks (std::lock_guard / mutex) are dropped: sequential semantics only; thread interleavings are C19 (not applicable)',
                     'peer interrupt entry points are user code behind std::function, modelled as ghost counters',
                     'status bits of MMIO cells 0x0D6/0x0D8 are wired in mmio.cpp and are checked under C12'],
    'assumptions': ['channel < 3 (callers pass a std::uint8_t index from the host API or a constant from mmio.cpp; out-of-range indices are a C18 obligation)'],
    'not_covered': ['host API forwarders in teakra.cpp (one-line calls) are extracted and checked under C11/C12'],
}
