import os, sys, copy
sys.path.insert(0, os.path.dirname(os.path.abspath(__file__)))
from core_unit import CORE_UNIT
U = copy.deepcopy(CORE_UNIT)
R = copy.deepcopy(CORE_UNIT); R.update({'name': 'ref', 'repo': 'reference', 'symbol_prefix': 'ref_', 'wrappers': None}); R['require_functions'] = ['Interpreter_Run', 'vdec_Interpreter']
SAMPLE = [0, 1, 4, 23, 57, 96, 144, 164, 200, 242, 300, 383]      # 164 (tstb) and 242 (movpdw) carry listed findings
ALWAYS_ABORT = ('trap', 'retd', 'retid', 'retidc', 'mov_dvm', 'mov_dvm_to')
CHECKS = ['bounds', 'pointer', 'overflow', 'shift', 'div']
def entry_ob(k, name, why):
    return {'id': 'safe_%03d_%s' % (k, name), 'entry': 'h_entry_safe', 'enforce': [], 'replace': [], 'timeout': 600, 'defines': ['-DENTRY=%d' % k],
            'expect_classes': {'assertion': 1}, 'min_obligations': 10, 'checks': CHECKS, 'standard_checks': False, 'object_bits': 12, 'why': why,
            'unwind': 41 if name.startswith('exp') else 17,          # Exp scans up to 39 bit positions
            'canary': name not in ALWAYS_ABORT}                       # these handlers never return (UnimplementedException / UNREACHABLE): a legal exit, the harness end is unreachable by design
def dynamic_obligations(metas, tier, wd):
    cur, ref = metas['proc'], metas['ref']
    changed = {f for f in set(cur['text_sha']) | set(ref['text_sha']) if cur['text_sha'].get(f) != ref['text_sha'].get(f) and not f.startswith('vdec_')}
    gchanged = {g for g in set(cur['global_text']) | set(ref['global_text']) if cur['global_text'].get(g) != ref['global_text'].get(g)}
    calls = cur['calls']
    def closure(f):
        seen = set(); st = [f]
        while st:
            x = st.pop()
            if x in seen: continue
            seen.add(x); st += list(calls.get(x, ()))
        return seen
    re_ = {e['k']: e for e in ref['decode_entries'].get('Interpreter', [])}
    obs = []
    for e in cur['decode_entries'].get('Interpreter', []):
        k = e['k']; r = re_.get(k)
        why = None
        if r is None or r['sha'] != e['sha']: why = 'decode-table entry differs from the pinned tree'
        elif gchanged: why = 'a class-scope constant differs from the pinned tree'
        elif closure(e['handler']) & changed: why = 'handler closure differs from the pinned tree (safety was established there by the thorough tier)'
        if why or k in SAMPLE or tier == 'thorough':
            obs.append(entry_ob(k, e['name'], why or 'sample / thorough'))
    return obs
CORE_PLAN = {
    'property': 'C18', 'part': 'core',
    'units': [U, R],
    'harness_files': ['harness/c18.c'], 'contract_files': [], 'spec_files': ['spec/regs_spec.h'],
    'native': {'bridges': ['replay/bridge_proc.cpp']},
    'fidelity_samples': {'quick': 3000, 'thorough': 100000},
    'obligations': [{'id': 'run_cycle', 'entry': 'h_run_safe', 'enforce': [], 'replace': [], 'unwind': 17, 'timeout': 600, 'defines': ['-DENTRY=0', '-DC18_SKELETON=1'],
                     'expect_classes': {'assertion': 2}, 'min_obligations': 10, 'checks': CHECKS, 'standard_checks': False, 'object_bits': 12}],
    'dynamic_obligations': dynamic_obligations,
    'trusted_base': ['instruction handlers: the quick tier re-establishes safety for every entry whose extracted closure differs from the pinned tree plus a fixed sample; the thorough tier for all 443 entries',
                     'data memory is abstract behind MemoryInterface::DataRead/DataWrite(u16) (in bounds by C11\'s contracts and the mem obligations of this check)'],
    'assumptions': ['register state within hardware widths (wf_regs)'],
    'not_covered': ['DMA / AHBM address arithmetic (dma.cpp DoDma: unmasked 32-bit addresses into DataReadA32 are masked there; AHBM is host memory behind callbacks), MMIO write sequences (C12), use of uninitialised or freed memory (no heap in the extracted code; uninitialised members are C17\'s subject)'],
}

# ---- MMIO part: every 16-bit value written to (or a read of) every MMIO offset, over arbitrary well-formed peripheral state
from mmio_unit import MMIO_UNIT
MU = copy.deepcopy(MMIO_UNIT)
def mmio_obligations(metas, tier, wd):
    cells = metas['mmio'].get('mmio_cells') or {}
    if not cells.get('bound'): raise SystemExit('UNDECIDED property=C18: the extraction bound no MMIO cell')
    bound = {int(k, 16) for k in cells['bound']}
    reps = [next(x for x in range(lo, 0x800, 2) if x not in bound) for lo in (0x000, 0x280)] + [0x7FF]
    def mob(a, tag):
        return {'id': 'mmio_safe_%s' % tag, 'entry': 'h_mmio_safe', 'enforce': [], 'replace': [], 'unwind': 18, 'unwindset': ['Dma_DoDma.0:1', 'Ahbm_Read32.0:1', 'Ahbm_WriteInternal.0:1'], 'timeout': 900,
                'defines': ['-DCELL_A=0x%03X' % a], 'expect_classes': {'assertion': 1}, 'min_obligations': 3, 'checks': CHECKS, 'standard_checks': False, 'object_bits': 12, 'native': False}
    return [mob(a, '%03X' % a) for a in sorted(bound)] + [mob(a, 'default_%03X' % a) for a in reps]
MMIO_PLAN = {
    'property': 'C18', 'part': 'mmio',
    'units': [MU],
    'harness_files': ['harness/c12.c'], 'contract_files': [], 'spec_files': ['spec/mmio_layout.h', 'spec/timer_spec.h', 'spec/btdmp_spec.h'],
    'obligations': [], 'dynamic_obligations': mmio_obligations,
    'trusted_base': ['MMIO binding table generated from the AST of MMIORegion::MMIORegion on every run (extract/mmio_table.py; what is translated and what is re-expressed is stated in C12\'s evidence)',
                     'offsets the constructor leaves alone share one closure pair (Cell::Cell()); three representatives are checked'],
    'assumptions': ['offset < 0x800 (reduced by both callers: C11)', 'peripheral state well-formed on entry (wf_mmio); the obligation proves every register access re-establishes it, so it is an invariant from construction/Reset (C17) on',
                    'a write of 0x40C0 to 0x1DE starts a DMA transfer, which is not followed here'],
    'not_covered': ['DMA transfers with guest-chosen 32-bit addresses and AHBM bursts (dma.cpp / ahbm.cpp DoDma, Tick, Read/Write): not yet under a safety obligation; use of freed memory inside the default cells\' closures (they capture `this` of a temporary Cell and read `index` through it for a diagnostic printf, which the extraction drops)'],
}
# ---- AHBM part: bus-master accesses under every register value the MMIO fields can hold (unit: the C13 unit, dma.cpp + ahbm.cpp)
import importlib.util as _ilu
_sp = _ilu.spec_from_file_location('plan_c13_for_c18', os.path.join(os.path.dirname(os.path.abspath(__file__)), 'c13.py')); _c13 = _ilu.module_from_spec(_sp); _sp.loader.exec_module(_c13)
AHBM_PLAN = {
    'property': 'C18', 'part': 'ahbm', 'standard_checks': False,
    'units': copy.deepcopy(_c13.PLAN['units']),
    'harness_files': ['harness/c13.c'], 'contract_files': ['contracts/dma_contracts.h'], 'spec_files': ['spec/dma_spec.h'],
    'native': {'bridges': ['replay/bridge_dma.cpp']}, 'fidelity_samples': {'quick': 2000, 'thorough': 20000},
    'obligations': [{'id': 'ahbm_access_safe', 'entry': 'h_ahbm_access_safe', 'enforce': [], 'replace': [], 'unwind': 10, 'timeout': 900, 'expect_classes': {'assertion': 1}, 'min_obligations': 5,
                     'checks': CHECKS, 'standard_checks': False, 'object_bits': 12}],
    'trusted_base': ['external memory behind std::function callbacks: an access log returning arbitrary values'],
    'assumptions': ['channel index < 3 (constants at the MMIO bindings; Ahbm::GetChannelForDma returns < 3: C13)', 'TYPE / BURST / direction within the width of their MMIO fields (2, 2, 1 bits: the bindings mask them, C12)'],
    'not_covered': ['DMA transfers with guest-chosen 32-bit DSP addresses (Dma::Channel::Tick: space 0 addresses are used unmasked) -- not under a safety obligation yet'],
}
PLAN = {'property': 'C18', 'parts': [CORE_PLAN, MMIO_PLAN, AHBM_PLAN]}
