WORDS = ['cfgi', 'cfgj', 'stt0', 'stt1', 'stt2', 'mod0', 'mod1', 'mod2', 'mod3', 'st0', 'st1', 'st2', 'ar0', 'ar1', 'arp0', 'arp1', 'arp2', 'arp3']
def ob(i, e, enforce, repl, x=None):
    d = {'id': i, 'entry': e, 'enforce': enforce, 'replace': repl, 'unwind': 17, 'timeout': 300, 'expect_classes': ({'postcondition': 1} if enforce else {'assertion': 1}), 'min_obligations': 2,
         'checks': [], 'standard_checks': False, 'object_bits': 12}
    d.update(x or {}); return d
GET = ['RegisterState_Get__' + w for w in WORDS]; SET = ['RegisterState_Set__' + w for w in WORDS]
PLAN = {
    'property': 'C20',
    'units': [{'name': 'proc', 'tu': 'src/processor.cpp', 'roots': ['Teakra::Interpreter::RegToBus16', 'Teakra::Interpreter::RegFromBus16'],
               'require_functions': GET + SET, 'wrappers': GET + SET, 'wrapper_owners': ['Teakra::Interpreter', 'Teakra::RegisterState'],
               'force_types': ['RegName'], 'must_fire': ['pointer-to-member application -> field access']}],
    'harness_files': ['harness/c20.c'], 'contract_files': ['contracts/pseudo_contracts.h'], 'spec_files': ['spec/pseudo_spec.h', 'spec/regs_spec.h'],
    'native': {'bridges': ['replay/bridge_proc.cpp']},
    'fidelity_samples': {'quick': 2000, 'thorough': 50000},
    'obligations': [ob('RegisterState_Get__' + w, 'h_Get_' + w, ['RegisterState_Get__' + w], []) for w in WORDS] +
                   [ob('RegisterState_Set__' + w, 'h_Set_' + w, ['RegisterState_Set__' + w], []) for w in WORDS] +
                   [ob('lemma_rw_' + w, 'h_rw_' + w, [], ['RegisterState_Get__' + w, 'RegisterState_Set__' + w], {'expect_classes': {'assertion': 3, 'precondition': 3}}) for w in WORDS] +
                   [ob('lemma_views_agree', 'h_views_agree', [], GET, {'expect_classes': {'assertion': 6, 'precondition': 10}}),
                    ob('lemma_views_write_through', 'h_views_write_through', [], GET + ['RegisterState_Set__st0'], {'expect_classes': {'assertion': 2}}),
                    ob('lemma_special_slots', 'h_special_slots', [], ['RegisterState_Set__stt2', 'RegisterState_Set__st0'], {'expect_classes': {'assertion': 2}}),
                    ob('layout_strings', 'h_layout_strings', [], [], {'expect_classes': {'assertion': 12}, 'native': False}),
                    {'id': 'ar_arp_disassembler_agreement_enumeration', 'entry': 'h_Get_ar0', 'native_exhaustive': 'verif_exh_ar_arp_agreement', 'exhaustive_bridges': ['replay/enum_ararp.cpp', '/repo/src/disassembler.cpp'],
                     'canary': False, 'range': 65536, 'timeout': 3000,
                     'bounded': 'complete native enumeration of all 65536 values of the ar/arp words on the real code: RegisterState::Set<ar0..arp3> fields vs the annotated disassembly, through the first opcode found for every (register selector, step selector) operand slot',
                     'what': 'ar/arp words decode to the same register, offset and step in register.h and in the annotated disassembler'}],
    'trusted_base': ['the layout oracle spec/pseudo_spec.h is a transcription of register.h at the pinned commit (the repository documents no bit layout elsewhere); it is cross-checked only at the level of "which bits are defined" against test_verifier strings for 12 of the 18 words'],
    'assumptions': ['wf_regs: every backing field is within its hardware width, so the unmasked shifts of PseudoRegister::Get equal the masked view'],
    'not_covered': ['icr (mov_icr handlers) is not reachable from RegToBus16/RegFromBus16 and is not under contract',
                    'ar/arp agreement with the annotated disassembler: std::string code, outside the extractor -- covered only by the bounded stand-in ar_arp_disassembler_agreement_enumeration; agreement with the rand()-driven test generator (test_generator.cpp) is not checked'],
}
