import os, sys, copy
sys.path.insert(0, os.path.dirname(os.path.abspath(__file__)))
from core_unit import CORE_UNIT
U = copy.deepcopy(CORE_UNIT); U['wrappers'] = None; U['roots'] = U['roots'] + ['Teakra::Interpreter::SignalInterrupt', 'Teakra::Interpreter::SignalVectoredInterrupt']
TMO = 900
def dynamic_obligations(metas, tier, wd):
    ents = [e for e in metas['proc']['decode_entries'].get('Interpreter', []) if e['name'] == 'brr']
    if len(ents) != 1: raise SystemExit('UNDECIDED property=C06: the decode table has %d brr entries' % len(ents))
    k = ents[0]['k']
    obs = []
    for n in ((2, 3) if tier == 'quick' else (2, 3, 4)):
        for a in range(0, n + 1):
            if tier == 'quick' and n == 3 and a in (0, 3): continue      # the unsliced-vs-unsliced corners add nothing beyond n = 2 in the quick tier
            obs.append({'id': 'slicing_n%d_a%d' % (n, a), 'entry': 'h_slicing', 'enforce': [], 'replace': [], 'unwind': 9, 'timeout': TMO, 'defines': ['-DC06_N=%d' % n, '-DC06_A=%d' % a, '-DC06_BRR_ENTRY=%d' % k, '-DAM_CELLS=4', '-DAM_PCELLS=%d' % (n + 1)],
                        'expect_classes': {'assertion': 5}, 'min_obligations': 5, 'checks': [], 'standard_checks': False, 'object_bits': 12, 'native': False,
                        'bounded': 'cycle budget n = %d split at %d (Run\'s cycle loop unwound with unwinding assertions); program = nops and idle self-branches; two abstract peripherals' % (n, a)})
    return obs
PLAN = {
    'property': 'C06', 'bounded_level': 'model_checking',
    'units': [U],
    'harness_files': ['harness/c06.c'], 'contract_files': [], 'spec_files': ['spec/regs_spec.h'],
    'obligations': [], 'dynamic_obligations': dynamic_obligations,
    'trusted_base': ['peripherals are abstract: the countdown state machine whose Tick / GetMaxSkip / Skip agreement (Skip(k) == Tick^k for every k up to GetMaxSkip, no event inside) is proved for the real Timer in C15 and the real Btdmp in C16, unbounded in k; this check assumes that contract for the callbacks and checks its precondition (k <= GetMaxSkip) at every Skip call',
                     'instructions other than the idle self-branch are abstracted to nop (their effect does not depend on how Run is sliced: C01)'],
    'assumptions': ['no hardware loop active, prpage = 0, pc away from the end of program space', 'registers the instruction stream does not read (accumulators, address registers, banks, ...) are zero in both machines; pc, sp, ie, im, ip, ic, imv, ipv, cpc are symbolic', 'host events at slice boundaries are the initial interrupt latches'],
    'not_covered': ['BOUNDED: cycle budgets above the stated n; the unbounded statement needs an invariant on Run\'s local loop index, which cannot be attached without editing interpreter.h',
                    'real timers / audio port attached to the interpreter in one proof (covered compositionally: C15/C16 per peripheral + this check for Run); DMA, APBP traffic'],
}
