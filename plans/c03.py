H = ['AddSub', 'SetAccFlag', 'SaturateAcc', 'SatAndSetAccAndFlag', 'SetAccAndFlag', 'ExtendOperandForAlm', 'AlmGeneric', 'Moda']
HELP = ['Interpreter_AddSub', 'Interpreter_SetAccFlag', 'Interpreter_SaturateAcc', 'Interpreter_GetAcc', 'Interpreter_SetAcc']
WR = ['Interpreter_SatAndSetAccAndFlag', 'Interpreter_SetAccAndFlag']
FORMS = {  # harness -> (function under contract, callees replaced by their proved contracts)
    'h_alm_r6': ('Interpreter_alm_r6', ['Interpreter_AlmGeneric', 'Interpreter_ExtendOperandForAlm']),
    'h_alu_imm16': ('Interpreter_alu__Alu_Imm16_Ax', ['Interpreter_AlmGeneric', 'Interpreter_ExtendOperandForAlm']),
    'h_alu_imm8': ('Interpreter_alu__Alu_Imm8_Ax', ['Interpreter_AlmGeneric', 'Interpreter_ExtendOperandForAlm', 'Interpreter_GetAcc', 'Interpreter_SetAcc']),
    'h_add_ab_bx': ('Interpreter_add__Ab_Bx', HELP[:1] + HELP[3:4] + WR[:1]), 'h_add_bx_ax': ('Interpreter_add__Bx_Ax', HELP[:1] + HELP[3:4] + WR[:1]),
    'h_sub_ab_bx': ('Interpreter_sub__Ab_Bx', HELP[:1] + HELP[3:4] + WR[:1]), 'h_sub_bx_ax': ('Interpreter_sub__Bx_Ax', HELP[:1] + HELP[3:4] + WR[:1]),
    'h_cmp_ax_bx': ('Interpreter_cmp__Ax_Bx', ['Interpreter_AddSub', 'Interpreter_GetAcc', 'Interpreter_SetAccFlag']), 'h_cmp_bx_ax': ('Interpreter_cmp__Bx_Ax', ['Interpreter_AddSub', 'Interpreter_GetAcc', 'Interpreter_SetAccFlag']),
    'h_cmp_b0_b1': ('Interpreter_cmp_b0_b1', ['Interpreter_AddSub', 'Interpreter_GetAcc', 'Interpreter_SetAccFlag']), 'h_cmp_b1_b0': ('Interpreter_cmp_b1_b0', ['Interpreter_AddSub', 'Interpreter_GetAcc', 'Interpreter_SetAccFlag']),
    'h_or_ab_ax_ax': ('Interpreter_or__Ab_Ax_Ax', ['Interpreter_GetAcc', 'Interpreter_SetAccAndFlag']), 'h_or_ax_bx_ax': ('Interpreter_or__Ax_Bx_Ax', ['Interpreter_GetAcc', 'Interpreter_SetAccAndFlag']),
    'h_or_bx_bx_ax': ('Interpreter_or__Bx_Bx_Ax', ['Interpreter_GetAcc', 'Interpreter_SetAccAndFlag']), 'h_and': ('Interpreter_and', ['Interpreter_GetAcc', 'Interpreter_SetAccAndFlag']),
    'h_clr': ('Interpreter_clr', ['Interpreter_SatAndSetAccAndFlag']), 'h_clrr': ('Interpreter_clrr', ['Interpreter_SatAndSetAccAndFlag']),
    'h_moda4': ('Interpreter_moda4', ['Interpreter_Moda']),
}
REPL = {'AlmGeneric': HELP + WR, 'Moda': ['Interpreter_AddSub', 'Interpreter_GetAcc'] + WR, 'SatAndSetAccAndFlag': ['Interpreter_SetAccFlag', 'Interpreter_SaturateAcc', 'Interpreter_SetAcc'],
        'SetAccAndFlag': ['Interpreter_SetAccFlag', 'Interpreter_SetAcc']}
FUC = ['Interpreter_' + h for h in H] + [v[0] for v in FORMS.values()] + ['Interpreter_GetAcc', 'Interpreter_SetAcc']
def ob(entry, fn, repl, to=900):
    return {'id': fn, 'entry': entry, 'enforce': [fn], 'replace': repl, 'unwind': 9, 'timeout': to, 'expect_classes': {'postcondition': 1}, 'min_obligations': 5,
            'checks': [], 'standard_checks': False, 'object_bits': 12}
PLAN = {
    'property': 'C03',
    'units': [{'name': 'proc', 'tu': 'src/processor.cpp', 'roots': ['Teakra::Interpreter::' + n for n in ('AddSub', 'SetAccFlag', 'SaturateAcc', 'SaturateAccNoFlag', 'SatAndSetAccAndFlag', 'SetAccAndFlag', 'ExtendOperandForAlm', 'AlmGeneric', 'Moda', 'GetAcc', 'SetAcc',
                                                              'alm_r6', 'alu', 'add', 'sub', 'cmp', 'cmp_b0_b1', 'cmp_b1_b0', 'or_', 'and_', 'clr', 'clrr', 'moda4', 'moda3')], 'require_functions': FUC,
               'wrappers': FUC, 'wrapper_owners': ['Teakra::Interpreter', 'Teakra::RegisterState'],
               'force_types': ['AlmOp', 'ModaOp', 'CondValue', 'MulOp', 'RegName', 'Ax', 'Bx', 'Ab', 'Px', 'Imm8', 'Imm16', 'Imm6s', 'Imm8s'],
               'must_fire': ['UNREACHABLE() -> VERIF_ASSERT(0)', 'derived-to-base conversion -> base_k member']}],
    'harness_files': ['harness/c03.c'], 'contract_files': ['contracts/alu_contracts.h'], 'spec_files': ['spec/alu_spec.h', 'spec/regs_spec.h'],
    'native': {'bridges': ['replay/bridge_proc.cpp']},
    'fidelity_samples': {'quick': 3000, 'thorough': 100000},
    'obligations': [ob('h_' + h, 'Interpreter_' + h, REPL.get(h, []), 900 if h == 'Moda' else 120) for h in H] + [ob(e, f, r) for e, (f, r) in FORMS.items()],
    'trusted_base': ['memory-operand forms (alm [page:imm8], alm (Rn), alu [imm16] ...) are the same AlmGeneric call behind a load; the load path is C10/C11',
                     'operand-field decoding helpers ax_fam/bx_fam/ab_fam transcribe operand.h'],
    'assumptions': ['wf_regs: accumulators are sign-extended 40-bit values and flags are 0/1 (proved to be preserved by every function under contract here)'],
    'not_covered': ['msu/sqr/sqra (multiplier) and tst0/tst1 ALM operations: C04 / not part of the statement', 'forms whose operand comes from memory or from RegToBus16'],
}
