import os, sys, copy
sys.path.insert(0, os.path.dirname(os.path.abspath(__file__)))
from core_unit import CORE_UNIT
U = copy.deepcopy(CORE_UNIT)
W = ['Interpreter_' + n for n in ('Run', 'rep__Imm8', 'rep__Register', 'rep_r6', 'bkrep__Imm8_Address16', 'bkrep__Register_Address18_16_Address18_2', 'bkrep_r6', 'BlockRepeat', 'break',
     'bkrepsto', 'bkrepsto_memsp', 'bkreprst', 'bkreprst_memsp', 'RegToBus16')] + ['EnumOperand_RegName_16_17_18_19_20_21_23_24_43_44_45_25_26_27_46_47_10_14_9_13_36_37_38_39_0_4_1_5_2_6_29_28_GetName']
U['wrappers'] = W; U['require_functions'] = U['require_functions'] + W
def ob(e, n, x=None):
    d = {'id': e[2:], 'entry': e, 'enforce': [], 'replace': [], 'unwind': 9, 'timeout': 300, 'expect_classes': {'assertion': n}, 'min_obligations': n, 'checks': [], 'standard_checks': False, 'object_bits': 12}
    d.update(x or {}); return d
PLAN = {
    'property': 'C09',
    'units': [U],
    'harness_files': ['harness/c09.c'], 'contract_files': [], 'spec_files': ['spec/regs_spec.h'],
    'native': {'bridges': ['replay/bridge_proc.cpp']},
    'fidelity_samples': {'quick': 3000, 'thorough': 100000},
    'obligations': [ob('h_rep_base', 2), ob('h_rep_step', 3, {'defines': ['-DAM_CELLS=1', '-DAM_PCELLS=2']}), ob('h_bkrep_base', 2),
                    ob('h_bkrep_depth', 1, {'canary': False, 'expect_classes': {'assertion': 1}}), ob('h_bkrep_step', 5, {'defines': ['-DAM_CELLS=1', '-DAM_PCELLS=2']}), ob('h_break', 1), ] + [ob('h_frame_roundtrip', 3, {'id': 'frame_roundtrip_sp%d_depth%d' % (v, dp), 'defines': ['-DFRAME_VIA_SP=%d' % v, '-DFRAME_DEPTH=%d' % dp, '-DAM_CELLS=4', '-DAM_PCELLS=1'], 'timeout': 600, 'tier': 'quick' if v == 1 else 'thorough'}) for v in (0, 1) for dp in range(5)],
    'trusted_base': ['the induction over cycles (base: the loop instruction; step/exit: one cycle of Run from an arbitrary state satisfying the loop invariant) is the standard loop rule, written out in DESIGN.md 4/C09; CBMC discharges base, step and exit',
                     'the body instruction is abstract under CBMC: it executes (is dispatched) exactly once per cycle and is assumed not to write loop-control state or pc (a straight-line instruction); natively it is a nop through the real decode table'],
    'assumptions': ['interrupts quiet during the loop (interrupt entry is C08/C06); pc + 2 inside program space', 'a repeated instruction is one word (the statement\'s scope); rep with no block active is h_rep_step, rep inside a block (including on the block\'s last instruction) is h_bkrep_step'],
    'not_covered': ['equality with the unrolled program for concrete bodies: follows from the execution count for straight-line bodies, not checked on whole programs'],
}
