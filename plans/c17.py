def ob(e, x=None):
    d = {'id': e[2:], 'entry': e, 'enforce': [], 'replace': [], 'unwind': 20, 'timeout': 300, 'expect_classes': {'assertion': 1}, 'min_obligations': 1, 'checks': [], 'standard_checks': False, 'object_bits': 12, 'native': False}
    d.update(x or {}); return d
RESETS = ['Timer', 'Btdmp', 'Apbp', 'Dma', 'Ahbm', 'MemoryInterfaceUnit', 'Processor']
PLAN = {
    'property': 'C17',
    'units': [{'name': 'res', 'tu': ['src/timer.cpp', 'src/btdmp.cpp', 'src/apbp.cpp', 'src/dma.cpp', 'src/ahbm.cpp', 'src/processor.cpp'],
               'roots': ['Teakra::%s::Reset' % c for c in RESETS], 'require_functions': ['%s_Reset' % c for c in RESETS],
               'must_fire': ['T() / default member initialisers -> fresh_T()']}],
    'harness_files': ['harness/c17.c'], 'contract_files': [], 'spec_files': [],
    'obligations': [ob('h_reset_Timer'), ob('h_reset_Btdmp'), ob('h_reset_Dma'), ob('h_reset_Ahbm'), ob('h_reset_Miu'), ob('h_reset_Apbp'), ob('h_reset_Processor', {'expect_classes': {'assertion': 2}})],
    'trusted_base': ['Teakra::Impl::Reset (src/teakra.cpp) calls these Reset functions plus a memset of the DSP memory; the facade itself (unique_ptr members, std::function wiring) is outside the extractor',
                     'callbacks installed (std::function targets) and object wiring (references) are configuration, equal in both instances by assumption'],
    'assumptions': [],
    'not_covered': ['"two instances driven by the same call sequence produce identical observations": determinism of the sequential code follows from C semantics of the extracted code except for reads of uninitialised members, which the extractor models as VERIF_INDETERMINATE; reached only through the findings listed for this property',
                    'ICU: has no Reset and no initialisers (see the finding); MMIO region: std::function cell closures are outside the extractor (C12)'],
}
