/* CBMC contracts for src/disassembler_c.cpp (the C binding of the disassembler) */
#ifdef VERIF_CBMC
#define DLIM (dstlen - 1 < ghost_text_len ? dstlen - 1 : ghost_text_len)
/* never writes more than the caller's buffer size, always NUL-terminates, returns the full length, copies the prefix of the token-API text */
#define CONTRACT_Teakra_Disasm_Do \
  __CPROVER_requires(dst == 0 || __CPROVER_w_ok(dst, dstlen)) \
  __CPROVER_requires(ghost_text_len < (1ull << 16) && __CPROVER_r_ok(ghost_text, ghost_text_len + 1)) \
  __CPROVER_assigns(dst != 0 : __CPROVER_object_upto(dst, dstlen)) \
  __CPROVER_ensures(__CPROVER_return_value == ghost_text_len) \
  __CPROVER_ensures((dst != 0 && dstlen > 0) ==> dst[DLIM] == 0) \
  __CPROVER_ensures((dst != 0 && dstlen > 0 && ghost_j < DLIM) ==> dst[ghost_j] == ghost_text[ghost_j])
#define LOOP_Teakra_Disasm_Do_1 \
  __CPROVER_assigns(i, __CPROVER_object_upto(dst, dstlen)) \
  __CPROVER_loop_invariant(i <= r.len && (dstlen == 0 || i <= dstlen - 1)) \
  __CPROVER_loop_invariant(ghost_j < i ==> dst[ghost_j] == r.p[ghost_j]) \
  __CPROVER_decreases(r.len - i)
#endif
