/* CBMC contracts for shared_memory.h, memory_interface.h/.cpp and the host accessors of teakra.cpp */
#ifdef VERIF_CBMC
#define MEMW(raw, w) ((u16)(VERIF_RAW_PEEK(raw, (u64)(w) * 2) | (VERIF_RAW_PEEK(raw, (u64)(w) * 2 + 1) << 8)))
#define CONTRACT_SharedMemory_ReadWord \
  __CPROVER_requires(self != 0) \
  __CPROVER_assigns(verif_outcome) \
  __CPROVER_ensures(__CPROVER_return_value == MEMW(self->raw, word_address))
#define CONTRACT_SharedMemory_WriteWord \
  __CPROVER_requires(self != 0 && ghost_g < VERIF_RAW_SIZE && ghost_g_old == VERIF_RAW_PEEK(self->raw, ghost_g)) \
  __CPROVER_assigns(VERIF_MEM_FRAME(self->raw), verif_outcome) \
  __CPROVER_ensures(VERIF_RAW_PEEK(self->raw, (u64)word_address * 2) == (u8)(value & 0xFF) && VERIF_RAW_PEEK(self->raw, (u64)word_address * 2 + 1) == (u8)(value >> 8)) \
  __CPROVER_ensures(ghost_g == (u64)word_address * 2 || ghost_g == (u64)word_address * 2 + 1 || VERIF_RAW_PEEK(self->raw, ghost_g) == ghost_g_old)

/* ghost_g_old: the harness records the byte at the ghost index before the call (old() of a call expression is not supported by dfcc) */
#define MI_PRE (ghost_g_old == VERIF_RAW_PEEK(self->shared_memory->raw, ghost_g) && self != 0 && self->shared_memory != 0 && self->memory_interface_unit != 0 && self->mmio != 0 && ghost_g < VERIF_RAW_SIZE && ghost_mmio_reads < 1000 && ghost_mmio_writes < 1000)
#define MIU (self->memory_interface_unit)
#define CONTRACT_MemoryInterface_ProgramRead \
  __CPROVER_requires(MI_PRE) __CPROVER_assigns(verif_outcome) \
  __CPROVER_ensures(__CPROVER_return_value == MEMW(self->shared_memory->raw, spec_program_word(address)))
#define CONTRACT_MemoryInterface_ProgramWrite \
  __CPROVER_requires(MI_PRE) __CPROVER_assigns(VERIF_MEM_FRAME(self->shared_memory->raw), verif_outcome) \
  __CPROVER_ensures(MEMW(self->shared_memory->raw, spec_program_word(address)) == value) \
  __CPROVER_ensures(ghost_g == (u64)address * 2 || ghost_g == (u64)address * 2 + 1 || VERIF_RAW_PEEK(self->shared_memory->raw, ghost_g) == ghost_g_old)
/* a data address inside the MMIO window reaches the peripheral registers unless the host bypasses MMIO, and never the memory underneath */
#define CONTRACT_MemoryInterface_DataRead \
  __CPROVER_requires(MI_PRE && MIU->page_mode == 0) \
  __CPROVER_assigns(ghost_mmio_reads, ghost_mmio_addr, verif_outcome) \
  __CPROVER_ensures((spec_in_mmio(address, MIU->mmio_base) && !bypass_mmio) \
        ? (ghost_mmio_reads == __CPROVER_old(ghost_mmio_reads) + 1 && ghost_mmio_addr == spec_mmio_offset(address, MIU->mmio_base) && __CPROVER_return_value == ghost_mmio_rval) \
        : (ghost_mmio_reads == __CPROVER_old(ghost_mmio_reads) && __CPROVER_return_value == MEMW(self->shared_memory->raw, spec_data_word(address, MIU->z_page))))
#define CONTRACT_MemoryInterface_DataWrite \
  __CPROVER_requires(MI_PRE && MIU->page_mode == 0) \
  __CPROVER_assigns(VERIF_MEM_FRAME(self->shared_memory->raw), ghost_mmio_writes, ghost_mmio_addr, ghost_mmio_wval, verif_outcome) \
  __CPROVER_ensures((spec_in_mmio(address, MIU->mmio_base) && !bypass_mmio) \
        ? (ghost_mmio_writes == __CPROVER_old(ghost_mmio_writes) + 1 && ghost_mmio_addr == spec_mmio_offset(address, MIU->mmio_base) && ghost_mmio_wval == value && \
           VERIF_RAW_PEEK(self->shared_memory->raw, ghost_g) == ghost_g_old) \
        : (ghost_mmio_writes == __CPROVER_old(ghost_mmio_writes) && MEMW(self->shared_memory->raw, spec_data_word(address, MIU->z_page)) == value && \
           (ghost_g == (u64)spec_data_word(address, MIU->z_page) * 2 || ghost_g == (u64)spec_data_word(address, MIU->z_page) * 2 + 1 || \
            VERIF_RAW_PEEK(self->shared_memory->raw, ghost_g) == ghost_g_old)))
#define CONTRACT_MemoryInterface_DataReadA32 \
  __CPROVER_requires(MI_PRE) __CPROVER_assigns(verif_outcome) \
  __CPROVER_ensures(__CPROVER_return_value == MEMW(self->shared_memory->raw, spec_data_word_a32(address)))
#define CONTRACT_MemoryInterface_DataWriteA32 \
  __CPROVER_requires(MI_PRE) __CPROVER_assigns(VERIF_MEM_FRAME(self->shared_memory->raw), verif_outcome) \
  __CPROVER_ensures(MEMW(self->shared_memory->raw, spec_data_word_a32(address)) == value) \
  __CPROVER_ensures(ghost_g == (u64)spec_data_word_a32(address) * 2 || ghost_g == (u64)spec_data_word_a32(address) * 2 + 1 || VERIF_RAW_PEEK(self->shared_memory->raw, ghost_g) == ghost_g_old)
/* host MMIO accessors mirror every 0x800 */
#define CONTRACT_MemoryInterface_MMIORead \
  __CPROVER_requires(MI_PRE) __CPROVER_assigns(ghost_mmio_reads, ghost_mmio_addr, verif_outcome) \
  __CPROVER_ensures(ghost_mmio_reads == __CPROVER_old(ghost_mmio_reads) + 1 && ghost_mmio_addr == (address & 0x7FF) && __CPROVER_return_value == ghost_mmio_rval)
#define CONTRACT_MemoryInterface_MMIOWrite \
  __CPROVER_requires(MI_PRE) __CPROVER_assigns(ghost_mmio_writes, ghost_mmio_addr, ghost_mmio_wval, verif_outcome) \
  __CPROVER_ensures(ghost_mmio_writes == __CPROVER_old(ghost_mmio_writes) + 1 && ghost_mmio_addr == (address & 0x7FF) && ghost_mmio_wval == value)
#endif
