/* CBMC contracts for the accumulator arithmetic of src/interpreter.h (C03).
 * Helper contracts are field-level; AlmGeneric, Moda and the instruction forms are state transformers: the whole register state
 * after the call equals the executable spec (spec/alu_spec.h, written from the property statement) applied to the state before --
 * which is also the frame ("compare forms change flags only" is the spec leaving every accumulator untouched). */
#ifdef VERIF_CBMC
#define R (self->regs)
#define IPRE (self != 0 && self->regs != 0 && wf_regs(self->regs))
#define ST_POST(expr) __CPROVER_assigns(*R, verif_outcome) __CPROVER_ensures(eqv_regs(*R, (expr))) __CPROVER_ensures(wf_regs(R))
#define OLD __CPROVER_old(*R)

#define CONTRACT_Interpreter_AddSub \
  __CPROVER_requires(self != 0 && self->regs != 0 && R->fvl <= 1) \
  __CPROVER_assigns(R->fc0, R->fv, R->fvl) \
  __CPROVER_ensures(__CPROVER_return_value == spec_addsub40(a, b, sub).r) \
  __CPROVER_ensures(R->fc0 == spec_addsub40(a, b, sub).c && R->fv == spec_addsub40(a, b, sub).v) \
  __CPROVER_ensures(R->fvl == (__CPROVER_old(R->fvl) | spec_addsub40(a, b, sub).v))
#define CONTRACT_Interpreter_SetAccFlag \
  __CPROVER_requires(self != 0 && self->regs != 0 && is_sx40(value)) \
  __CPROVER_assigns(R->fz, R->fm, R->fe, R->fn) \
  __CPROVER_ensures(R->fz == spec_flags40(value).z && R->fm == spec_flags40(value).m && R->fe == spec_flags40(value).e && R->fn == spec_flags40(value).n)
#define CONTRACT_Interpreter_SaturateAcc \
  __CPROVER_requires(self != 0 && self->regs != 0 && is_sx40(value) && R->flm <= 1) \
  __CPROVER_assigns(R->flm) \
  __CPROVER_ensures(__CPROVER_return_value == spec_sat32(value) && R->flm == (__CPROVER_old(R->flm) | (fits32(value) ? 0 : 1)))
#define CONTRACT_Interpreter_SaturateAccNoFlag \
  __CPROVER_requires(self != 0 && is_sx40(value)) __CPROVER_assigns() \
  __CPROVER_ensures(__CPROVER_return_value == spec_sat32(value))
#define CONTRACT_Interpreter_GetAcc \
  __CPROVER_requires(self != 0 && self->regs != 0 && acc_family(name) >= 0) __CPROVER_assigns(verif_outcome) \
  __CPROVER_ensures(__CPROVER_return_value == acc_get(R, acc_family(name)))
#define CONTRACT_Interpreter_SetAcc \
  __CPROVER_requires(self != 0 && self->regs != 0 && acc_family(name) >= 0) __CPROVER_assigns(R->a, R->b, verif_outcome) \
  __CPROVER_ensures(acc_get(R, acc_family(name)) == value) \
  __CPROVER_ensures(acc_family(name) == 0 || R->a.e[0] == __CPROVER_old(R->a.e[0])) __CPROVER_ensures(acc_family(name) == 1 || R->a.e[1] == __CPROVER_old(R->a.e[1])) \
  __CPROVER_ensures(acc_family(name) == 2 || R->b.e[0] == __CPROVER_old(R->b.e[0])) __CPROVER_ensures(acc_family(name) == 3 || R->b.e[1] == __CPROVER_old(R->b.e[1]))
#define CONTRACT_Interpreter_ExtendOperandForAlm \
  __CPROVER_requires(self != 0) __CPROVER_assigns(verif_outcome) __CPROVER_ensures(__CPROVER_return_value == spec_extend(op, a))
#define CONTRACT_Interpreter_SatAndSetAccAndFlag \
  __CPROVER_requires(IPRE && acc_family(name) >= 0 && is_sx40(value)) ST_POST(spec_sat_write(OLD, acc_family(name), value))
#define CONTRACT_Interpreter_SetAccAndFlag \
  __CPROVER_requires(IPRE && acc_family(name) >= 0 && is_sx40(value)) ST_POST(spec_nosat_write(OLD, acc_family(name), value))
#define CONTRACT_Interpreter_AlmGeneric \
  __CPROVER_requires(IPRE && alm_in_c03(op) && OPV(b) < 2) ST_POST(spec_alm(OLD, op, a, ax_fam(b)))
#ifdef MODA_C04      /* the shift/rotate members of the family (C04 instance of the same function) */
#define CONTRACT_Interpreter_Moda \
  __CPROVER_requires(IPRE && moda_in_c04(op) && is_whole_acc(a) && cond.base_0.storage < 16) \
  ST_POST(spec_cond(OLD, (CondValue)cond.base_0.storage) ? spec_moda_shift(OLD, op, acc_family(a)) : OLD)
#else
#define CONTRACT_Interpreter_Moda \
  __CPROVER_requires(IPRE && moda_in_c03(op) && is_whole_acc(a) && (op != ModaOp_Copy || acc_family(a) < 2) && cond.base_0.storage < 16) \
  ST_POST(spec_cond(OLD, (CondValue)cond.base_0.storage) ? spec_moda(OLD, op, acc_family(a)) : OLD)
#endif

/* ---- instruction forms with register / immediate operands (memory-operand forms go through the address unit: C10) */
#define ALMOP(op) ((AlmOp)OPV1(op))
#define CONTRACT_Interpreter_alm_r6 \
  __CPROVER_requires(IPRE && OPV1(op) < 16 && alm_in_c03(ALMOP(op)) && OPV(b) < 2) \
  ST_POST(spec_alm(OLD, ALMOP(op), spec_extend(ALMOP(op), __CPROVER_old(R->r.e[6])), ax_fam(b)))
#define CONTRACT_Interpreter_alu__Alu_Imm16_Ax \
  __CPROVER_requires(IPRE && OPV1(op) < 8 && alm_in_c03(alu_op_name(OPV1(op))) && OPV(b) < 2) \
  ST_POST(spec_alm(OLD, alu_op_name(OPV1(op)), spec_extend(alu_op_name(OPV1(op)), IMMV(a)), ax_fam(b)))
#define CONTRACT_Interpreter_alu__Alu_Imm8_Ax \
  __CPROVER_requires(IPRE && OPV1(op) < 8 && alm_in_c03(alu_op_name(OPV1(op))) && OPV(b) < 2 && IMMV(a) < 256) \
  ST_POST(spec_alu_imm8(OLD, alu_op_name(OPV1(op)), IMMV(a), ax_fam(b)))
#define CONTRACT_Interpreter_add__Ab_Bx __CPROVER_requires(IPRE && OPV(a) < 4 && OPV(b) < 2) ST_POST(spec_addsub_regs(OLD, ab_fam(a), bx_fam(b), false, false))
#define CONTRACT_Interpreter_add__Bx_Ax __CPROVER_requires(IPRE && OPV(a) < 2 && OPV(b) < 2) ST_POST(spec_addsub_regs(OLD, bx_fam(a), ax_fam(b), false, false))
#define CONTRACT_Interpreter_sub__Ab_Bx __CPROVER_requires(IPRE && OPV(a) < 4 && OPV(b) < 2) ST_POST(spec_addsub_regs(OLD, ab_fam(a), bx_fam(b), true, false))
#define CONTRACT_Interpreter_sub__Bx_Ax __CPROVER_requires(IPRE && OPV(a) < 2 && OPV(b) < 2) ST_POST(spec_addsub_regs(OLD, bx_fam(a), ax_fam(b), true, false))
#define CONTRACT_Interpreter_cmp__Ax_Bx __CPROVER_requires(IPRE && OPV(a) < 2 && OPV(b) < 2) ST_POST(spec_addsub_regs(OLD, ax_fam(a), bx_fam(b), true, true))
#define CONTRACT_Interpreter_cmp__Bx_Ax __CPROVER_requires(IPRE && OPV(a) < 2 && OPV(b) < 2) ST_POST(spec_addsub_regs(OLD, bx_fam(a), ax_fam(b), true, true))
#define CONTRACT_Interpreter_cmp_b0_b1 __CPROVER_requires(IPRE) ST_POST(spec_addsub_regs(OLD, 2, 3, true, true))
#define CONTRACT_Interpreter_cmp_b1_b0 __CPROVER_requires(IPRE) ST_POST(spec_addsub_regs(OLD, 3, 2, true, true))
#define CONTRACT_Interpreter_or__Ab_Ax_Ax __CPROVER_requires(IPRE && OPV(a) < 4 && OPV(b) < 2 && OPV(c) < 2) ST_POST(spec_logic3(OLD, ab_fam(a), ax_fam(b), ax_fam(c), true))
#define CONTRACT_Interpreter_or__Ax_Bx_Ax __CPROVER_requires(IPRE && OPV(a) < 2 && OPV(b) < 2 && OPV(c) < 2) ST_POST(spec_logic3(OLD, ax_fam(a), bx_fam(b), ax_fam(c), true))
#define CONTRACT_Interpreter_or__Bx_Bx_Ax __CPROVER_requires(IPRE && OPV(a) < 2 && OPV(b) < 2 && OPV(c) < 2) ST_POST(spec_logic3(OLD, bx_fam(a), bx_fam(b), ax_fam(c), true))
#define CONTRACT_Interpreter_and __CPROVER_requires(IPRE && OPV(a) < 4 && OPV(b) < 4 && OPV(c) < 2) ST_POST(spec_logic3(OLD, ab_fam(a), ab_fam(b), ax_fam(c), false))
#define CONTRACT_Interpreter_clr __CPROVER_requires(IPRE && OPV(a) < 4 && OPV(b) < 4) ST_POST(spec_clr2(OLD, ab_fam(a), ab_fam(b), 0))
#define CONTRACT_Interpreter_clrr __CPROVER_requires(IPRE && OPV(a) < 4 && OPV(b) < 4) ST_POST(spec_clr2(OLD, ab_fam(a), ab_fam(b), 0x8000))
/* moda4 / moda3: 4-bit (3-bit) operation field; the C03 part is inc, dec, neg, rnd, copy, not, clr, clrr */
#define CONTRACT_Interpreter_moda4 \
  __CPROVER_requires(IPRE && OPV1(op) < 16 && moda_in_c03((ModaOp)OPV1(op)) && OPV(a) < 2 && cond.base_0.storage < 16) \
  ST_POST(spec_cond(OLD, (CondValue)cond.base_0.storage) ? spec_moda(OLD, (ModaOp)OPV1(op), ax_fam(a)) : OLD)
#endif
