/* CBMC contracts for src/icu.h */
#ifdef VERIF_CBMC
#define ICU_GHOST ghost_line_calls[0], ghost_line_calls[1], ghost_line_calls[2], ghost_line_bad, ghost_vec_n, __CPROVER_object_whole(ghost_vec_addr), __CPROVER_object_whole(ghost_vec_ctx), verif_outcome
#define CONTRACT_ICU_Trigger \
  __CPROVER_requires(self != 0 && self->on_interrupt.set && self->on_vectored_interrupt.set && ghost_line_calls[0] == 0 && ghost_line_calls[1] == 0 && ghost_line_calls[2] == 0 && ghost_vec_n == 0 && ghost_line_bad == 0) \
  __CPROVER_assigns(self->request, ICU_GHOST) \
  __CPROVER_ensures(post_ICU_Trigger(__CPROVER_old(*self), *self, irq_bits, ghost_line_calls[0], ghost_line_calls[1], ghost_line_calls[2], ghost_irq))
#define CONTRACT_ICU_Acknowledge \
  __CPROVER_requires(self != 0) __CPROVER_assigns(self->request, verif_outcome) \
  __CPROVER_ensures(post_ICU_Acknowledge(__CPROVER_old(*self), *self, irq_bits))
#define CONTRACT_ICU_SetEnable \
  __CPROVER_requires(self != 0 && interrupt_index < 3) __CPROVER_assigns(self->enabled.e[interrupt_index], verif_outcome) \
  __CPROVER_ensures(self->enabled.e[interrupt_index] == irq_bits)
#define CONTRACT_ICU_SetEnableVectored \
  __CPROVER_requires(self != 0) __CPROVER_assigns(self->vectored_enabled, verif_outcome) __CPROVER_ensures(self->vectored_enabled == irq_bits)
#define CONTRACT_ICU_GetRequest __CPROVER_requires(self != 0) __CPROVER_assigns() __CPROVER_ensures(__CPROVER_return_value == self->request)
#define CONTRACT_ICU_GetEnable __CPROVER_requires(self != 0 && interrupt_index < 3) __CPROVER_assigns() __CPROVER_ensures(__CPROVER_return_value == self->enabled.e[interrupt_index])
#define CONTRACT_ICU_GetEnableVectored __CPROVER_requires(self != 0) __CPROVER_assigns() __CPROVER_ensures(__CPROVER_return_value == self->vectored_enabled)
#define CONTRACT_ICU_TriggerSingle \
  __CPROVER_requires(self != 0 && irq < 16 && self->on_interrupt.set && self->on_vectored_interrupt.set && ghost_line_calls[0] == 0 && ghost_line_calls[1] == 0 && ghost_line_calls[2] == 0 && ghost_vec_n == 0 && ghost_line_bad == 0) \
  __CPROVER_assigns(self->request, ICU_GHOST) \
  __CPROVER_ensures(post_ICU_Trigger(__CPROVER_old(*self), *self, (u16)(1u << irq), ghost_line_calls[0], ghost_line_calls[1], ghost_line_calls[2], ghost_irq))
#endif
