/* CBMC contracts for src/timer.cpp (spliced by name into the extracted C; see DESIGN.md 2.2) */
#ifdef VERIF_CBMC
#define TIMER_FRESH (self != 0 && self->interrupt_handler.set)
#define TIMER_FRAME self->counter, self->counter_high, self->counter_low, ghost_timer_irq, verif_outcome

#define CONTRACT_CB_Timer_interrupt_handler \
  __CPROVER_requires(self != 0) \
  __CPROVER_assigns(ghost_timer_irq) \
  __CPROVER_ensures(ghost_timer_irq == __CPROVER_old(ghost_timer_irq) + 1)

#define CONTRACT_Timer_UpdateMMIO \
  __CPROVER_requires(TIMER_FRESH) \
  __CPROVER_assigns(self->counter_high, self->counter_low) \
  __CPROVER_ensures(self->update_mmio != 0 ? (self->counter_high == (u16)(self->counter >> 16) && self->counter_low == (u16)(self->counter & 0xFFFF)) \
                                           : (self->counter_high == __CPROVER_old(self->counter_high) && self->counter_low == __CPROVER_old(self->counter_low)))

#define CONTRACT_Timer_Restart \
  __CPROVER_requires(TIMER_FRESH && ghost_timer_irq < 1000000) \
  __CPROVER_assigns(TIMER_FRAME) \
  __CPROVER_ensures(post_Timer_Restart(__CPROVER_old(*self), *self, __CPROVER_old(ghost_timer_irq), ghost_timer_irq))

#define CONTRACT_Timer_Tick \
  __CPROVER_requires(TIMER_FRESH && ghost_timer_irq < 1000000) \
  __CPROVER_assigns(TIMER_FRAME) \
  __CPROVER_ensures(post_Timer_Tick(__CPROVER_old(*self), *self, __CPROVER_old(ghost_timer_irq), ghost_timer_irq))

#define CONTRACT_Timer_TickEvent \
  __CPROVER_requires(TIMER_FRESH && ghost_timer_irq < 1000000) \
  __CPROVER_assigns(TIMER_FRAME) \
  __CPROVER_ensures(post_Timer_TickEvent(__CPROVER_old(*self), *self, __CPROVER_old(ghost_timer_irq), ghost_timer_irq))

#define CONTRACT_Timer_Reset \
  __CPROVER_requires(TIMER_FRESH) \
  __CPROVER_assigns(self->update_mmio, self->pause, self->count_mode, self->scale, self->start_high, self->start_low, self->counter, self->counter_high, self->counter_low) \
  __CPROVER_ensures(post_Timer_Reset(*self))

#define CONTRACT_Timer_GetMaxSkip \
  __CPROVER_requires(TIMER_FRESH) \
  __CPROVER_assigns() \
  __CPROVER_ensures(__CPROVER_return_value <= spec_timer_horizon(self))
#endif
