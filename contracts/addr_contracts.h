/* CBMC contracts for the address unit of src/interpreter.h (C10) */
#ifdef VERIF_CBMC
#define R (self->regs)
#define IPRE (self != 0 && self->regs != 0 && wf_regs(self->regs))
#define OLD __CPROVER_old(*R)
#define CONTRACT_BitReverse \
  __CPROVER_assigns() __CPROVER_ensures(__CPROVER_return_value == spec_bitrev16(value))
#define CONTRACT_Interpreter_StepAddress \
  __CPROVER_requires(IPRE && unit < 8 && (unsigned)step < 8 && spec_step_in_statement(R, unit, step, dmod)) \
  __CPROVER_assigns(verif_outcome) \
  __CPROVER_ensures(__CPROVER_return_value == spec_step(R, unit, address, step, dmod))
#define CONTRACT_Interpreter_RnAndModify \
  __CPROVER_requires(IPRE && unit < 8 && (unsigned)step < 8 && spec_step_in_statement(R, unit, step, dmod)) \
  __CPROVER_assigns(R->r.e[unit], verif_outcome) \
  __CPROVER_ensures(__CPROVER_return_value == spec_rn_and_modify(OLD, unit, step, dmod).ret) \
  __CPROVER_ensures(R->r.e[unit] == spec_rn_and_modify(OLD, unit, step, dmod).s.r.e[unit])
#define CONTRACT_Interpreter_RnAddress \
  __CPROVER_requires(IPRE && unit < 8) __CPROVER_assigns(verif_outcome) \
  __CPROVER_ensures(__CPROVER_return_value == spec_rn_address(R, unit, (u16)value))
#define CONTRACT_Interpreter_RnAddressAndModify \
  __CPROVER_requires(IPRE && unit < 8 && (unsigned)step < 8 && spec_step_in_statement(R, unit, step, dmod)) \
  __CPROVER_assigns(R->r.e[unit], verif_outcome) \
  __CPROVER_ensures(__CPROVER_return_value == spec_rn_address(R, unit, spec_rn_and_modify(OLD, unit, step, dmod).ret)) \
  __CPROVER_ensures(R->r.e[unit] == spec_rn_and_modify(OLD, unit, step, dmod).s.r.e[unit])
#define CONTRACT_Interpreter_OffsetAddress \
  __CPROVER_requires(IPRE && unit < 8 && (unsigned)offset < 4 && !(offset == 2 && R->m.e[unit] && !R->br.e[unit] && !dmod)) \
  __CPROVER_assigns(verif_outcome) \
  __CPROVER_ensures(__CPROVER_return_value == spec_offset(R, unit, address, (u16)offset, dmod))
#define CONTRACT_Interpreter_ConvertArStep \
  __CPROVER_requires(arvalue < 8) __CPROVER_assigns(verif_outcome) \
  __CPROVER_ensures((unsigned)__CPROVER_return_value == (arvalue == 0 ? 0u : arvalue == 1 ? 1u : arvalue == 2 ? 2u : arvalue == 3 ? 3u : arvalue))
/* modr: post-modify Rn by the step and report "Rn is zero" in fr */
#define CONTRACT_Interpreter_modr \
  __CPROVER_requires(IPRE && OPV(a) < 8 && OPV1(as) < 4 && spec_step_in_statement(R, OPV(a), (StepValue)OPV1(as), false)) \
  __CPROVER_assigns(*R, verif_outcome) \
  __CPROVER_ensures(eqv_regs2(*R, spec_modr(OLD, OPV(a), (StepValue)OPV1(as), false))) __CPROVER_ensures(wf_regs(R))
#define CONTRACT_Interpreter_modr_dmod \
  __CPROVER_requires(IPRE && OPV(a) < 8 && OPV1(as) < 4) \
  __CPROVER_assigns(*R, verif_outcome) \
  __CPROVER_ensures(eqv_regs2(*R, spec_modr(OLD, OPV(a), (StepValue)OPV1(as), true))) __CPROVER_ensures(wf_regs(R))
#endif
