/* CBMC contracts for the multiplier and the barrel shifter of src/interpreter.h (C04); helpers of C03 are reused through alu_contracts.h */
#ifdef VERIF_CBMC
#define CONTRACT_Interpreter_DoMultiplication \
  __CPROVER_requires(IPRE && unit < 2) __CPROVER_assigns(R->p.e[unit], R->pe.e[unit], verif_outcome) \
  __CPROVER_ensures(R->p.e[unit] == spec_product33(R->x.e[unit], R->y.e[unit], x_sign, y_sign, R->hwm, unit).p) \
  __CPROVER_ensures(R->pe.e[unit] == spec_product33(R->x.e[unit], R->y.e[unit], x_sign, y_sign, R->hwm, unit).pe)
#define CONTRACT_Interpreter_ProductToBus40 \
  __CPROVER_requires(IPRE && reg.base_0.storage < 2) __CPROVER_assigns(verif_outcome) \
  __CPROVER_ensures(__CPROVER_return_value == spec_product_bus40(R->p.e[reg.base_0.storage], R->pe.e[reg.base_0.storage], R->ps.e[reg.base_0.storage])) \
  __CPROVER_ensures(is_sx40(__CPROVER_return_value))
#define CONTRACT_Interpreter_ProductToBus32_NoShift \
  __CPROVER_requires(IPRE && reg.base_0.storage < 2) __CPROVER_assigns(verif_outcome) __CPROVER_ensures(__CPROVER_return_value == R->p.e[reg.base_0.storage])
#define CONTRACT_Interpreter_ProductFromBus32 \
  __CPROVER_requires(IPRE && reg.base_0.storage < 2) __CPROVER_assigns(R->p.e[reg.base_0.storage], R->pe.e[reg.base_0.storage], verif_outcome) \
  __CPROVER_ensures(R->p.e[reg.base_0.storage] == value && R->pe.e[reg.base_0.storage] == (value >> 31))
#define CONTRACT_Interpreter_MulGeneric \
  __CPROVER_requires(IPRE && (unsigned)op < 8 && OPV(a) < 2) ST_POST(spec_mul_generic(OLD, op, ax_fam(a)))
#define CONTRACT_Interpreter_ShiftBus40 \
  __CPROVER_requires(IPRE && is_whole_acc(dest)) ST_POST(spec_shift40(OLD, value, sv, acc_family(dest)))
#define CONTRACT_Interpreter_Exp \
  __CPROVER_requires(self != 0) __CPROVER_assigns(verif_outcome) __CPROVER_ensures(__CPROVER_return_value == spec_exp(value))
/* forms */
#define CONTRACT_Interpreter_mul_y0_r6 \
  __CPROVER_requires(IPRE && OPV1(op) < 8 && OPV(a) < 2) ST_POST(spec_mul_generic(spec_set_x0(OLD, __CPROVER_old(R->r.e[6])), (MulOp)OPV1(op), ax_fam(a)))
#define CONTRACT_Interpreter_mpyi \
  __CPROVER_requires(IPRE && IMMV(x) < 256) ST_POST(spec_do_mul(spec_set_x0(OLD, (u16)spec_imms(IMMV(x), 8)), 0, true, true))
#define CONTRACT_Interpreter_mac_x1to0 \
  __CPROVER_requires(IPRE && OPV(a) < 2) ST_POST(spec_mac_x1to0(OLD, ax_fam(a)))
#define CONTRACT_Interpreter_shfc \
  __CPROVER_requires(IPRE && OPV(a) < 4 && OPV(b) < 4 && cond.base_0.storage < 16) \
  ST_POST(spec_cond(OLD, (CondValue)cond.base_0.storage) ? spec_shfc_do(OLD, ab_fam(a), ab_fam(b)) : OLD)
#define CONTRACT_Interpreter_shfi \
  __CPROVER_requires(IPRE && OPV(a) < 4 && OPV(b) < 4 && IMMV(s) < 64) ST_POST(spec_shfi(OLD, ab_fam(a), ab_fam(b), (u16)spec_imms(IMMV(s), 6)))
#define CONTRACT_Interpreter_movs_r6_to \
  __CPROVER_requires(IPRE && OPV(b) < 2) ST_POST(spec_shift40(OLD, sx16_64(__CPROVER_old(R->r.e[6])), __CPROVER_old(R->sv), ax_fam(b)))
#define CONTRACT_Interpreter_exp__Bx \
  __CPROVER_requires(IPRE && OPV(a) < 2) ST_POST(spec_exp_to_sv(OLD, bx_fam(a)))
#define CONTRACT_Interpreter_exp__Bx_Ax \
  __CPROVER_requires(IPRE && OPV(a) < 2 && OPV(b) < 2) ST_POST(spec_exp_store(spec_exp_to_sv(OLD, bx_fam(a)), ax_fam(b)))
#endif
