/* CBMC contracts for src/apbp.cpp */
#ifdef VERIF_CBMC
#define APBP_PRE (self != 0 && self->impl != 0 && wf_apbp(self->impl) && ghost_sem_irq < 1000000 && ghost_data_irq[0] < 1000000 && ghost_data_irq[1] < 1000000 && ghost_data_irq[2] < 1000000)
#define CH self->impl->data_channels.e[channel]
#define CONTRACT_Apbp_SendData \
  __CPROVER_requires(APBP_PRE && channel < 3) \
  __CPROVER_assigns(CH.ready, CH.data, ghost_data_irq[0], ghost_data_irq[1], ghost_data_irq[2], verif_outcome) \
  __CPROVER_ensures(wf_apbp(self->impl)) \
  __CPROVER_ensures(post_SendData(__CPROVER_old(*self->impl), *self->impl, channel, data, __CPROVER_old(ghost_data_irq[0]), __CPROVER_old(ghost_data_irq[1]), __CPROVER_old(ghost_data_irq[2]), ghost_data_irq[0], ghost_data_irq[1], ghost_data_irq[2], __CPROVER_old(ghost_sem_irq), ghost_sem_irq))
#define CONTRACT_Apbp_RecvData \
  __CPROVER_requires(APBP_PRE && channel < 3) \
  __CPROVER_assigns(CH.ready, verif_outcome) \
  __CPROVER_ensures(wf_apbp(self->impl)) \
  __CPROVER_ensures(post_RecvData(__CPROVER_old(*self->impl), *self->impl, channel, __CPROVER_return_value))
#define CONTRACT_Apbp_PeekData \
  __CPROVER_requires(APBP_PRE && channel < 3) \
  __CPROVER_assigns() \
  __CPROVER_ensures(__CPROVER_return_value == CH.data)
#define CONTRACT_Apbp_IsDataReady \
  __CPROVER_requires(APBP_PRE && channel < 3) \
  __CPROVER_assigns() \
  __CPROVER_ensures(__CPROVER_return_value == CH.ready)
#define CONTRACT_Apbp_SetSemaphore \
  __CPROVER_requires(APBP_PRE) \
  __CPROVER_assigns(self->impl->semaphore, self->impl->semaphore_master_signal, ghost_sem_irq, verif_outcome) \
  __CPROVER_ensures(wf_apbp(self->impl)) \
  __CPROVER_ensures(post_SetSemaphore(__CPROVER_old(*self->impl), *self->impl, bits, __CPROVER_old(ghost_sem_irq), ghost_sem_irq))
#define CONTRACT_Apbp_ClearSemaphore \
  __CPROVER_requires(APBP_PRE) \
  __CPROVER_assigns(self->impl->semaphore, self->impl->semaphore_master_signal, verif_outcome) \
  __CPROVER_ensures(wf_apbp(self->impl)) \
  __CPROVER_ensures(post_ClearSemaphore(__CPROVER_old(*self->impl), *self->impl, bits, __CPROVER_old(ghost_sem_irq), ghost_sem_irq))
#define CONTRACT_Apbp_MaskSemaphore \
  __CPROVER_requires(APBP_PRE) \
  __CPROVER_assigns(self->impl->semaphore_mask, self->impl->semaphore_master_signal, ghost_sem_irq, verif_outcome) \
  __CPROVER_ensures(wf_apbp(self->impl)) \
  __CPROVER_ensures(post_MaskSemaphore(__CPROVER_old(*self->impl), *self->impl, bits, __CPROVER_old(ghost_sem_irq), ghost_sem_irq))
#define CONTRACT_Apbp_IsSemaphoreSignaled \
  __CPROVER_requires(APBP_PRE) \
  __CPROVER_assigns() \
  __CPROVER_ensures(__CPROVER_return_value == spec_sem_signal(self->impl->semaphore, self->impl->semaphore_mask))
#define CONTRACT_Apbp_GetSemaphore __CPROVER_requires(APBP_PRE) __CPROVER_assigns() __CPROVER_ensures(__CPROVER_return_value == self->impl->semaphore)
#define CONTRACT_Apbp_GetSemaphoreMask __CPROVER_requires(APBP_PRE) __CPROVER_assigns() __CPROVER_ensures(__CPROVER_return_value == self->impl->semaphore_mask)
#define CONTRACT_Apbp_Reset \
  __CPROVER_requires(self != 0 && self->impl != 0) \
  __CPROVER_assigns(self->impl->data_channels, self->impl->semaphore, self->impl->semaphore_mask, self->impl->semaphore_master_signal) \
  __CPROVER_ensures(wf_apbp(self->impl) && post_Apbp_Reset(__CPROVER_old(*self->impl), *self->impl))
#endif
