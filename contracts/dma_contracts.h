/* CBMC contracts for src/dma.cpp, src/dma.h, src/ahbm.cpp */
#ifdef VERIF_CBMC
#define CONTRACT_Dma_Channel_Start \
  __CPROVER_requires(self != 0) \
  __CPROVER_assigns(self->running, self->current_src, self->current_dst, self->counter0, self->counter1, self->counter2) \
  __CPROVER_ensures(post_Start(__CPROVER_old(*self), *self))

/* one element: the cursor follows the documented recurrence; nothing but the cursor, the destination (DSP memory or the external port)
 * and the AHBM burst state may change */
#define CONTRACT_Dma_Channel_Tick \
  __CPROVER_requires(self != 0 && parent != 0 && parent->shared_memory != 0 && parent->ahbm != 0 && parent->shared_memory->raw != 0) \
  __CPROVER_requires(wf_dma_running(self)) \
  __CPROVER_assigns(self->current_src, self->current_dst, self->counter0, self->counter1, self->counter2, self->running, verif_outcome, \
                    VERIF_MEM_FRAME(parent->shared_memory->raw), parent->ahbm->channels, \
                    ghost_ext_n, __CPROVER_object_whole(ghost_ext_log)) \
  __CPROVER_ensures(post_Tick_cursor(__CPROVER_old(*self), *self))

#define CONTRACT_Ahbm_GetChannelForDma \
  __CPROVER_requires(self != 0 && dma_channel < 16) \
  __CPROVER_assigns() \
  __CPROVER_ensures(__CPROVER_return_value == spec_ahbm_channel_for(self, dma_channel) && __CPROVER_return_value < 3)

#define CONTRACT_CB_Dma_interrupt_handler \
  __CPROVER_requires(self != 0) __CPROVER_assigns(ghost_dma_irq) __CPROVER_ensures(ghost_dma_irq == __CPROVER_old(ghost_dma_irq) + 1)

/* the transfer loop of Dma::DoDma: runs Tick until all three counters have wrapped.  Lexicographic measure over the remaining
 * element counts of the three dimensions. */
#define DMA_CH (self->channels.e[channel])
#define DMA_N(sz) ((u32)((sz) ? (sz) : 1))
#define LOOP_Dma_DoDma_1 \
  __CPROVER_assigns(DMA_CH.current_src, DMA_CH.current_dst, DMA_CH.counter0, DMA_CH.counter1, DMA_CH.counter2, DMA_CH.running, verif_outcome, \
                    VERIF_MEM_FRAME(self->shared_memory->raw), self->ahbm->channels, ghost_ext_n, __CPROVER_object_whole(ghost_ext_log)) \
  __CPROVER_loop_invariant(DMA_CH.running == 0 || (DMA_CH.running == 1 && DMA_CH.counter0 < DMA_N(DMA_CH.size0) && DMA_CH.counter1 < DMA_N(DMA_CH.size1) && \
                           DMA_CH.counter2 < DMA_N(DMA_CH.size2) && (!DMA_CH.dword_mode || (DMA_CH.counter0 & 1) == 0))) \
  __CPROVER_decreases(DMA_CH.running, DMA_N(DMA_CH.size2) - DMA_CH.counter2, DMA_N(DMA_CH.size1) - DMA_CH.counter1, DMA_N(DMA_CH.size0) - DMA_CH.counter0)

#define CONTRACT_Dma_DoDma \
  __CPROVER_requires(self != 0 && channel < 8 && self->shared_memory != 0 && self->ahbm != 0 && self->shared_memory->raw != 0 && self->interrupt_handler.set && ghost_dma_irq < 1000) \
  __CPROVER_assigns(DMA_CH.current_src, DMA_CH.current_dst, DMA_CH.counter0, DMA_CH.counter1, DMA_CH.counter2, DMA_CH.running, DMA_CH.ahbm_channel, verif_outcome, \
                    VERIF_MEM_FRAME(self->shared_memory->raw), self->ahbm->channels, ghost_ext_n, __CPROVER_object_whole(ghost_ext_log), ghost_dma_irq) \
  __CPROVER_ensures(DMA_CH.running == 0) \
  __CPROVER_ensures(ghost_dma_irq == __CPROVER_old(ghost_dma_irq) + 1) \
  __CPROVER_ensures(DMA_CH.ahbm_channel == spec_ahbm_channel_for_v(__CPROVER_old(*self->ahbm), channel))
#endif
