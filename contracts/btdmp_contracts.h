/* CBMC contracts for src/btdmp.cpp / btdmp.h */
#ifdef VERIF_CBMC
#define BTDMP_PRE (self != 0 && wf_btdmp(self) && self->interrupt_handler.set && ghost_btdmp_irq < 1000000 && ghost_audio_count < (1ull << 62))
#define BTDMP_GHOST ghost_btdmp_irq, ghost_audio_count, ghost_audio_frame[0], ghost_audio_frame[1], verif_outcome

#define CONTRACT_Btdmp_Tick \
  __CPROVER_requires(BTDMP_PRE) \
  __CPROVER_assigns(self->transmit_timer, self->transmit_empty, self->transmit_full, self->transmit_queue, BTDMP_GHOST) \
  __CPROVER_ensures(wf_btdmp(self)) \
  __CPROVER_ensures(post_Btdmp_Tick(__CPROVER_old(*self), *self, __CPROVER_old(ghost_btdmp_irq), ghost_btdmp_irq, __CPROVER_old(ghost_audio_count), ghost_audio_count, ghost_j, __CPROVER_old(ghost_audio_frame[0]), __CPROVER_old(ghost_audio_frame[1])))

#define CONTRACT_Btdmp_Send \
  __CPROVER_requires(BTDMP_PRE) \
  __CPROVER_assigns(self->transmit_empty, self->transmit_full, self->transmit_queue, verif_outcome) \
  __CPROVER_ensures(wf_btdmp(self)) \
  __CPROVER_ensures(post_Btdmp_Send(__CPROVER_old(*self), *self, value, ghost_j))

#define CONTRACT_Btdmp_SetTransmitFlush \
  __CPROVER_requires(BTDMP_PRE) \
  __CPROVER_assigns(self->transmit_empty, self->transmit_full, self->transmit_queue, verif_outcome) \
  __CPROVER_ensures(wf_btdmp(self)) \
  __CPROVER_ensures(post_Btdmp_Flush(__CPROVER_old(*self), *self, __CPROVER_old(ghost_btdmp_irq), ghost_btdmp_irq, __CPROVER_old(ghost_audio_count), ghost_audio_count))

#define CONTRACT_Btdmp_Reset \
  __CPROVER_requires(self != 0) \
  __CPROVER_assigns(self->transmit_clock_config, self->transmit_period, self->transmit_timer, self->transmit_enable, self->transmit_empty, self->transmit_full, self->transmit_queue) \
  __CPROVER_ensures(wf_btdmp(self) && post_Btdmp_Reset(*self))

#define CONTRACT_Btdmp_GetMaxSkip \
  __CPROVER_requires(BTDMP_PRE) \
  __CPROVER_assigns() \
  __CPROVER_ensures(__CPROVER_return_value <= spec_btdmp_horizon(self))

#define CONTRACT_Btdmp_GetTransmitEmpty __CPROVER_requires(self != 0) __CPROVER_assigns() __CPROVER_ensures(__CPROVER_return_value == (u16)self->transmit_empty)
#define CONTRACT_Btdmp_GetTransmitFull __CPROVER_requires(self != 0) __CPROVER_assigns() __CPROVER_ensures(__CPROVER_return_value == (u16)self->transmit_full)

/* frame loop of Btdmp::Skip, used only by the empty-queue fast-forward lemma (applied with --apply-loop-contracts there; the
 * queued case closes the loop by unwinding instead).  With nothing queued every iteration delivers one all-zero frame. */
#ifdef VERIF_SKIP_LOOP_CONTRACT
#define LOOP_Btdmp_Skip_1 \
  __CPROVER_assigns(c, self->transmit_queue, self->transmit_full, ghost_audio_count, ghost_audio_frame[0], ghost_audio_frame[1], verif_outcome) \
  __CPROVER_loop_invariant(c <= cycles && self->transmit_queue.len == 0 && self->transmit_queue.head < VERIF_QCAP) \
  __CPROVER_loop_invariant(self->transmit_full == __CPROVER_loop_entry(self->transmit_full)) \
  __CPROVER_loop_invariant(ghost_audio_count == __CPROVER_loop_entry(ghost_audio_count) + (self->audio_callback.set ? c : 0)) \
  __CPROVER_loop_invariant((self->audio_callback.set && ghost_audio_watch >= __CPROVER_loop_entry(ghost_audio_count) && ghost_audio_watch < ghost_audio_count) \
        ? (ghost_audio_frame[0] == 0 && ghost_audio_frame[1] == 0) \
        : (ghost_audio_frame[0] == __CPROVER_loop_entry(ghost_audio_frame[0]) && ghost_audio_frame[1] == __CPROVER_loop_entry(ghost_audio_frame[1]))) \
  __CPROVER_decreases(cycles - c)
#endif
#endif
