// Bridge for src/disassembler_c.cpp: the real C binding, with Teakra::Disassembler::Do routed to the harness's text
#include "bridge_common.h"
#include "disassembler_c.cpp"
extern "C" {
extern const char *ghost_text; extern unsigned long ghost_text_len;
}
namespace Teakra::Disassembler {
std::string Do(std::uint16_t, std::uint16_t, std::optional<ArArpSettings>) { return std::string(ghost_text, ghost_text_len); }
bool NeedExpansion(std::uint16_t opcode) { return (opcode & 1) != 0; }
}
