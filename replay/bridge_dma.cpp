// Bridge for src/dma.cpp + src/ahbm.cpp
#include "bridge_common.h"
#include "dma.cpp"
#include "ahbm.cpp"
extern "C" {
#include "dma_types.h"
#include "dma_protos.h"
}
#define BRIDGE_WANT_Dma
#define BRIDGE_WANT_Dma_Channel
#define BRIDGE_WANT_Ahbm
#define BRIDGE_WANT_Ahbm_Channel
#include "dma_bridge.inc"
namespace {
struct Rig {
    Teakra::SharedMemory shm{reinterpret_cast<u8 *>(1)};   // raw is re-pointed at the harness memory on every load
    Teakra::Ahbm ahbm;
    Teakra::Dma dma{shm, ahbm};
    ::Ahbm *cahbm = nullptr; ::Dma *cdma = nullptr;
    void install() {
        ahbm.SetExternalMemoryCallback(
            [this](u32 a) { return CB_Ahbm_read_external8(cahbm, a); }, [this](u32 a, u8 v) { CB_Ahbm_write_external8(cahbm, a, v); },
            [this](u32 a) { return CB_Ahbm_read_external16(cahbm, a); }, [this](u32 a, u16 v) { CB_Ahbm_write_external16(cahbm, a, v); },
            [this](u32 a) { return CB_Ahbm_read_external32(cahbm, a); }, [this](u32 a, u32 v) { CB_Ahbm_write_external32(cahbm, a, v); });
        dma.SetInterruptHandler([this]() { CB_Dma_interrupt_handler(cdma); });
    }
    void load_ahbm(::Ahbm *c) { cahbm = c; from_c(c, ahbm); install(); }
    void load_dma(::Dma *c) { cdma = c; from_c(c, dma); shm.raw = c->shared_memory->raw; load_ahbm(c->ahbm); }
    void store_dma(::Dma *c) { ::SharedMemory *s = c->shared_memory; ::Ahbm *a = c->ahbm; to_c(dma, c); c->shared_memory = s; c->ahbm = a; c->interrupt_handler.set = 1; store_ahbm(a); }
    void store_ahbm(::Ahbm *c) { bool s[6] = {c->read_external8.set, c->write_external8.set, c->read_external16.set, c->write_external16.set, c->read_external32.set, c->write_external32.set};
        to_c(ahbm, c); c->read_external8.set = s[0]; c->write_external8.set = s[1]; c->read_external16.set = s[2]; c->write_external16.set = s[3]; c->read_external32.set = s[4]; c->write_external32.set = s[5]; }
};
Rig &rig() { static Rig r; return r; }
}
extern "C" {
void Dma_Channel_Start(::Dma_Channel *self) { Teakra::Dma::Channel ch; from_c(self, ch); BRIDGE_RUN(ch.Start()); to_c(ch, self); }
void Dma_Channel_Tick(::Dma_Channel *self, ::Dma *parent) { Rig &r = rig(); r.load_dma(parent); Teakra::Dma::Channel ch; from_c(self, ch); BRIDGE_RUN(ch.Tick(r.dma)); to_c(ch, self); r.store_dma(parent); }
void Dma_DoDma(::Dma *self, u16 channel) { Rig &r = rig(); r.load_dma(self); BRIDGE_RUN(r.dma.DoDma(channel)); r.store_dma(self); }
u16 Ahbm_GetChannelForDma(const ::Ahbm *self, u16 dc) { Rig &r = rig(); r.load_ahbm(const_cast<::Ahbm *>(self)); u16 v = 0; BRIDGE_RUN(v = r.ahbm.GetChannelForDma(dc)); return v; }
u16 Ahbm_Read16(::Ahbm *self, u16 c, u32 a) { Rig &r = rig(); r.load_ahbm(self); u16 v = 0; BRIDGE_RUN(v = r.ahbm.Read16(c, a)); r.store_ahbm(self); return v; }
u32 Ahbm_Read32(::Ahbm *self, u16 c, u32 a) { Rig &r = rig(); r.load_ahbm(self); u32 v = 0; BRIDGE_RUN(v = r.ahbm.Read32(c, a)); r.store_ahbm(self); return v; }
void Ahbm_Write16(::Ahbm *self, u16 c, u32 a, u16 v) { Rig &r = rig(); r.load_ahbm(self); BRIDGE_RUN(r.ahbm.Write16(c, a, v)); r.store_ahbm(self); }
void Ahbm_Write32(::Ahbm *self, u16 c, u32 a, u32 v) { Rig &r = rig(); r.load_ahbm(self); BRIDGE_RUN(r.ahbm.Write32(c, a, v)); r.store_ahbm(self); }
}
