// Bridge for src/memory_interface.cpp + shared_memory.h (the MMIO region behind the window is the harness's observer)
#include "bridge_common.h"
#include "memory_interface.cpp"
extern "C" {
#include "mem_types.h"
u16 MMIORegion_Read(::MMIORegion *self, u16 addr);
void MMIORegion_Write(::MMIORegion *self, u16 addr, u16 value);
}
#define BRIDGE_WANT_MemoryInterfaceUnit
#include "mem_bridge.inc"
static ::MMIORegion *g_region;
// mmio.cpp is not linked: the two entry points the memory interface calls are routed to the harness observer
namespace Teakra {
u16 MMIORegion::Read(u16 addr) { return ::MMIORegion_Read(g_region, addr); }
void MMIORegion::Write(u16 addr, u16 value) { ::MMIORegion_Write(g_region, addr, value); }
}
namespace {
struct Rig {
    Teakra::SharedMemory shm{reinterpret_cast<u8 *>(1)};
    Teakra::MemoryInterfaceUnit miu;
    Teakra::MemoryInterface mi{shm, miu};
    alignas(16) char region_storage[64];
    Rig() { mi.SetMMIO(*reinterpret_cast<Teakra::MMIORegion *>(region_storage)); }
    void load(const ::MemoryInterface *c) { shm.raw = c->shared_memory->raw; from_c(c->memory_interface_unit, miu); g_region = c->mmio; }
    void load_shm(const ::SharedMemory *c) { shm.raw = c->raw; }
};
Rig &rig() { static Rig r; return r; }
}
extern "C" {
u16 SharedMemory_ReadWord(const ::SharedMemory *self, u32 w) { Rig &r = rig(); r.load_shm(self); u16 v = 0; BRIDGE_RUN(v = r.shm.ReadWord(w)); return v; }
void SharedMemory_WriteWord(::SharedMemory *self, u32 w, u16 x) { Rig &r = rig(); r.load_shm(self); BRIDGE_RUN(r.shm.WriteWord(w, x)); }
u16 MemoryInterface_ProgramRead(const ::MemoryInterface *self, u32 a) { Rig &r = rig(); r.load(self); u16 v = 0; BRIDGE_RUN(v = r.mi.ProgramRead(a)); return v; }
void MemoryInterface_ProgramWrite(::MemoryInterface *self, u32 a, u16 x) { Rig &r = rig(); r.load(self); BRIDGE_RUN(r.mi.ProgramWrite(a, x)); }
u16 MemoryInterface_DataRead(::MemoryInterface *self, u16 a, bool b) { Rig &r = rig(); r.load(self); u16 v = 0; BRIDGE_RUN(v = r.mi.DataRead(a, b)); return v; }
void MemoryInterface_DataWrite(::MemoryInterface *self, u16 a, u16 x, bool b) { Rig &r = rig(); r.load(self); BRIDGE_RUN(r.mi.DataWrite(a, x, b)); }
u16 MemoryInterface_DataReadA32(const ::MemoryInterface *self, u32 a) { Rig &r = rig(); r.load(self); u16 v = 0; BRIDGE_RUN(v = r.mi.DataReadA32(a)); return v; }
void MemoryInterface_DataWriteA32(::MemoryInterface *self, u32 a, u16 x) { Rig &r = rig(); r.load(self); BRIDGE_RUN(r.mi.DataWriteA32(a, x)); }
u16 MemoryInterface_MMIORead(::MemoryInterface *self, u16 a) { Rig &r = rig(); r.load(self); u16 v = 0; BRIDGE_RUN(v = r.mi.MMIORead(a)); return v; }
void MemoryInterface_MMIOWrite(::MemoryInterface *self, u16 a, u16 x) { Rig &r = rig(); r.load(self); BRIDGE_RUN(r.mi.MMIOWrite(a, x)); }
}
