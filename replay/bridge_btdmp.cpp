// Bridge for src/btdmp.cpp
#include "bridge_common.h"
#include "btdmp.cpp"
extern "C" {
#include "btdmp_types.h"
void CB_Btdmp_interrupt_handler(::Btdmp *self);
void CB_Btdmp_audio_callback(::Btdmp *self, arr_s16_2 a0);
}
#define BRIDGE_WANT_Btdmp
#define BRIDGE_WANT_CoreTiming_Callbacks
#include "btdmp_bridge.inc"
namespace {
struct Rig {
    Teakra::CoreTiming ct;
    Teakra::Btdmp dev{ct};
    ::Btdmp *cur = nullptr;
    void load(::Btdmp *c) {
        cur = c;
        from_c(c, dev);
        if (c->interrupt_handler.set) dev.SetInterruptHandler([this]() { CB_Btdmp_interrupt_handler(cur); }); else dev.SetInterruptHandler(nullptr);
        if (c->audio_callback.set) dev.SetAudioCallback([this](std::array<std::int16_t, 2> s) { arr_s16_2 a; a.e[0] = s[0]; a.e[1] = s[1]; CB_Btdmp_audio_callback(cur, a); });
        else dev.SetAudioCallback(nullptr);
    }
    void store(::Btdmp *c) { int tag = c->base_0.verif_tag; to_c(dev, c); c->base_0.verif_tag = tag; }
};
Rig &rig() { static Rig r; return r; }
}
#define CALL(self, stmt) do { Rig &r = rig(); r.load(const_cast<::Btdmp *>(self)); BRIDGE_RUN(stmt); r.store(const_cast<::Btdmp *>(self)); } while (0)
extern "C" {
void Btdmp_Reset(::Btdmp *self) { CALL(self, r.dev.Reset()); }
void Btdmp_Tick(::Btdmp *self) { CALL(self, r.dev.Tick()); }
u64 Btdmp_GetMaxSkip(const ::Btdmp *self) { u64 v = 0; CALL(self, v = r.dev.GetMaxSkip()); return v; }
void Btdmp_Skip(::Btdmp *self, u64 ticks) { CALL(self, r.dev.Skip(ticks)); }
void Btdmp_Send(::Btdmp *self, u16 value) { CALL(self, r.dev.Send(value)); }
void Btdmp_SetTransmitFlush(::Btdmp *self, u16 value) { CALL(self, r.dev.SetTransmitFlush(value)); }
u16 Btdmp_GetTransmitEmpty(const ::Btdmp *self) { u16 v = 0; CALL(self, v = r.dev.GetTransmitEmpty()); return v; }
u16 Btdmp_GetTransmitFull(const ::Btdmp *self) { u16 v = 0; CALL(self, v = r.dev.GetTransmitFull()); return v; }
void Btdmp_SetTransmitPeriod(::Btdmp *self, u16 value) { CALL(self, r.dev.SetTransmitPeriod(value)); }
void Btdmp_SetTransmitEnable(::Btdmp *self, u16 value) { CALL(self, r.dev.SetTransmitEnable(value)); }
}
