/* extracted side of the decode-table enumeration (C02): the generated table functions of the core unit behind a C API */
#include "proc_types.h"
int verif_outcome_ext;
#define verif_outcome verif_outcome_ext
#include "common.h"
#include "absmem.h"
#include "proc_funcs.c"
int c02_ext_first(u16 op) { return vdec_Interpreter_first(op); }
int c02_ext_count(u16 op) { return vdec_Interpreter_count(op); }
int c02_ext_expanded(u16 op) { return vdec_Interpreter_need_expansion(op); }
const char *c02_ext_name(u16 op) { int k = vdec_Interpreter_first(op); return k < 0 ? "*" : vdec_Interpreter_names[k]; }
unsigned c02_ext_unused(u16 op) { return vdec_Interpreter_unused(vdec_Interpreter_first(op)); }
void verif_native_exit(int outcome, const char *msg);
/* the disassembler's instantiation of the table (same TU: the class-scope constants are guarded and identical) */
#include "dis_types.h"
#include "dis_funcs.c"
int c02_dis_first(u16 instruction) { return vdec_Disassembler_first(instruction); }
bool c02_dis_need_expansion(u16 instruction) { return vdec_Disassembler_need_expansion(instruction); }
