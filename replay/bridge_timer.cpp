// Bridge for src/timer.cpp: implements the extracted-C API of the timer unit on the real Teakra::Timer.
#include "bridge_common.h"
#include "timer.cpp"                 // the real source, from /repo's working tree (-I/repo/src)
extern "C" {
#include "timer_types.h"
void CB_Timer_interrupt_handler(::Timer *self);
}
#define BRIDGE_WANT_Timer
#define BRIDGE_WANT_CoreTiming_Callbacks
#include "timer_bridge.inc"

namespace {
struct Rig {
    Teakra::CoreTiming ct;
    Teakra::Timer timer{ct};
    ::Timer *cur = nullptr;
    void load(::Timer *c) {
        cur = c;
        from_c(c, timer);
        if (c->interrupt_handler.set) timer.SetInterruptHandler([this]() { CB_Timer_interrupt_handler(cur); });
        else timer.SetInterruptHandler(nullptr);
    }
    void store(::Timer *c) { int tag = c->base_0.verif_tag; to_c(timer, c); c->base_0.verif_tag = tag; }
};
Rig &rig() { static Rig r; return r; }
}

#define TIMER_CALL(self, stmt) do { Rig &r = rig(); r.load(const_cast<::Timer *>(self)); BRIDGE_RUN(stmt); r.store(const_cast<::Timer *>(self)); } while (0)

extern "C" {
void Timer_Reset(::Timer *self) { TIMER_CALL(self, r.timer.Reset()); }
void Timer_Restart(::Timer *self) { TIMER_CALL(self, r.timer.Restart()); }
void Timer_Tick(::Timer *self) { TIMER_CALL(self, r.timer.Tick()); }
void Timer_TickEvent(::Timer *self) { TIMER_CALL(self, r.timer.TickEvent()); }
void Timer_UpdateMMIO(::Timer *self) { TIMER_CALL(self, r.timer.UpdateMMIO()); }
u64 Timer_GetMaxSkip(const ::Timer *self) { u64 v = 0; TIMER_CALL(self, v = r.timer.GetMaxSkip()); return v; }
void Timer_Skip(::Timer *self, u64 ticks) { TIMER_CALL(self, r.timer.Skip(ticks)); }
}
