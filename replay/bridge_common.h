// Common part of the native bridges: a bridge TU #includes the REAL sources of /repo's working tree (with private
// made public and std::abort turned into a C++ exception so a deliberate ASSERT abort is an observable outcome),
// and implements the extracted-C API (same names, same C structs) on top of the real C++ objects.  The fidelity check
// and the counterexample replay link harnesses against it instead of the extracted C.
#pragma once
#include <setjmp.h>
#include <stdbool.h>
#include <stddef.h>
#include <stdint.h>
#include <string.h>
#include <algorithm>
#include <array>
#include <atomic>
#include <bitset>
#include <cstdio>
#include <cstdlib>
#include <cstring>
#include <functional>
#include <limits>
#include <memory>
#include <mutex>
#include <optional>
#include <queue>
#include <stdexcept>
#include <string>
#include <tuple>
#include <type_traits>
#include <unordered_map>
#include <unordered_set>
#include <utility>
#include <vector>
#include <sstream>
#include <iomanip>
#include <variant>
#include <map>
#include <set>

struct VerifAbort {};
namespace std { [[noreturn]] inline void verif_abort_throw() { throw VerifAbort(); } }
#define abort verif_abort_throw
#define private public
#define protected public

extern "C" {
extern int verif_outcome;
void verif_native_exit(int outcome, const char *msg);
}

// scalar / enum / atomic accessors used by the generated to_c / from_c
template <class T> struct br_is_atomic : std::false_type {};
template <class T> struct br_is_atomic<std::atomic<T>> : std::true_type {};
template <class C, class X> inline void br_get(C &c, const X &x) {
    if constexpr (br_is_atomic<X>::value) c = static_cast<C>(x.load());
    else c = static_cast<C>(x);
}
template <class C, class X> inline void br_set(X &x, const C &c) {
    if constexpr (br_is_atomic<X>::value) x.store(static_cast<typename std::remove_reference<decltype(x.load())>::type>(c));
    else x = static_cast<X>(c);
}
template <class CQ, class T> inline void br_queue_get(CQ &c, const std::queue<T> &q) {
    std::queue<T> t = q;
    c.head = 0; c.len = 0;
    while (!t.empty() && c.len < sizeof(c.buf) / sizeof(c.buf[0])) { c.buf[c.len++] = t.front(); t.pop(); }
}
template <class CQ, class T> inline void br_queue_set(std::queue<T> &q, const CQ &c) {
    q = {};
    const unsigned cap = sizeof(c.buf) / sizeof(c.buf[0]);
    for (unsigned i = 0; i < c.len && i < cap; i++) q.push(c.buf[(c.head + i) % cap]);
}
template <class C, size_t N> inline void br_get(C &c, const std::bitset<N> &x) { c = static_cast<C>(x.to_ulong()); }
template <class C, size_t N> inline void br_set(std::bitset<N> &x, const C &c) { x = std::bitset<N>(c); }

// run a piece of real code; map its three legal exits to the harness outcome classes
#define BRIDGE_RUN(...)                                                                   \
    do {                                                                                  \
        int br_outcome = 0;                                                               \
        try { __VA_ARGS__; }                                                                  \
        catch (const VerifAbort &) { br_outcome = 1; }                                    \
        catch (const std::runtime_error &) { br_outcome = 2; }                            \
        catch (const std::bad_function_call &) { br_outcome = 3; }                        \
        if (br_outcome) { BRIDGE_ON_EXIT; verif_native_exit(br_outcome, "real code"); }  \
    } while (0)
#ifndef BRIDGE_ON_EXIT
#define BRIDGE_ON_EXIT
#endif
