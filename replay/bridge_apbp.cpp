// Bridge for src/apbp.cpp
#include "bridge_common.h"
#include "apbp.cpp"
extern "C" {
#include "apbp_types.h"
void CB_DataChannel_handler(::DataChannel *self);
void CB_Apbp_Impl_semaphore_handler(::Apbp_Impl *self);
}
#define BRIDGE_WANT_Apbp_Impl
#define BRIDGE_WANT_DataChannel
#include "apbp_bridge.inc"
namespace {
struct Rig {
    Teakra::Apbp dev;
    ::Apbp_Impl *cur = nullptr;
    void load(const ::Apbp *c) {
        cur = c->impl;
        from_c(cur, *dev.impl);
        for (unsigned i = 0; i < 3; i++) {
            if (cur->data_channels.e[i].handler.set) dev.impl->data_channels[i].handler = [this, i]() { CB_DataChannel_handler(&cur->data_channels.e[i]); };
            else dev.impl->data_channels[i].handler = nullptr;
        }
        if (cur->semaphore_handler.set) dev.impl->semaphore_handler = [this]() { CB_Apbp_Impl_semaphore_handler(cur); }; else dev.impl->semaphore_handler = nullptr;
    }
    void store() { to_c(*dev.impl, cur); }
};
Rig &rig() { static Rig r; return r; }
}
#define CALL(self, stmt) do { Rig &r = rig(); r.load(self); BRIDGE_RUN(stmt); r.store(); } while (0)
extern "C" {
void Apbp_Reset(::Apbp *self) { CALL(self, r.dev.Reset()); }
void Apbp_SendData(::Apbp *self, unsigned channel, u16 data) { CALL(self, r.dev.SendData(channel, data)); }
u16 Apbp_RecvData(::Apbp *self, unsigned channel) { u16 v = 0; CALL(self, v = r.dev.RecvData(channel)); return v; }
u16 Apbp_PeekData(const ::Apbp *self, unsigned channel) { u16 v = 0; CALL(self, v = r.dev.PeekData(channel)); return v; }
bool Apbp_IsDataReady(const ::Apbp *self, unsigned channel) { bool v = 0; CALL(self, v = r.dev.IsDataReady(channel)); return v; }
u16 Apbp_GetDisableInterrupt(const ::Apbp *self, unsigned channel) { u16 v = 0; CALL(self, v = r.dev.GetDisableInterrupt(channel)); return v; }
void Apbp_SetDisableInterrupt(::Apbp *self, unsigned channel, u16 x) { CALL(self, r.dev.SetDisableInterrupt(channel, x)); }
void Apbp_SetSemaphore(::Apbp *self, u16 bits) { CALL(self, r.dev.SetSemaphore(bits)); }
void Apbp_ClearSemaphore(::Apbp *self, u16 bits) { CALL(self, r.dev.ClearSemaphore(bits)); }
u16 Apbp_GetSemaphore(const ::Apbp *self) { u16 v = 0; CALL(self, v = r.dev.GetSemaphore()); return v; }
void Apbp_MaskSemaphore(::Apbp *self, u16 bits) { CALL(self, r.dev.MaskSemaphore(bits)); }
u16 Apbp_GetSemaphoreMask(const ::Apbp *self) { u16 v = 0; CALL(self, v = r.dev.GetSemaphoreMask()); return v; }
bool Apbp_IsSemaphoreSignaled(const ::Apbp *self) { bool v = 0; CALL(self, v = r.dev.IsSemaphoreSignaled()); return v; }
}
