// C20 enumeration (bounded stand-in): the ar/arp configuration words mean the same register, offset and step to the register file
// (RegisterState::Set<ar0..arp3>, include/teakra/impl/register.h) and to the annotated disassembler (Disassembler::GetTokenList with
// ArArpSettings, src/disassembler.cpp).  Real code on both sides; all 65536 values of every word, through one opcode per operand slot.
#include <cstdio>
#include <string>
#include <vector>
#include "teakra/disassembler.h"
#include "teakra/impl/register.h"
using namespace Teakra;
static const char *step_names[8] = {"++0", "++1", "--1", "++s", "++2", "--2", "++2*", "--2*"};
static const char *offset_names[4] = {"+0", "+1", "-1", "-1*"};
struct Slot { int opcode = -1, pos = -1; unsigned rn = 0, st = 0; };
static Slot slot_ar[4][4], slot_i[4][4], slot_j[4][4];      // [register selector index][step selector index]
static bool scanned = false;
static unsigned digit_after(const std::string &t, const char *key) { auto p = t.find(key); return p == std::string::npos ? 99 : (unsigned)(t[p + std::string(key).size()] - '0'); }
static void scan()
{
    for (unsigned op = 0; op < 0x10000; ++op) {
        auto t = Disassembler::GetTokenList((u16)op, 0);
        for (std::size_t n = 0; n < t.size(); ++n) {
            unsigned a;
            if (t[n].rfind("[arrn", 0) == 0 && (a = digit_after(t[n], "+ars")) < 4) { Slot &s = slot_ar[digit_after(t[n], "[arrn")][a]; if (s.opcode < 0) { s.opcode = op; s.pos = (int)n; } }
            if (t[n].rfind("[arprni", 0) == 0 && (a = digit_after(t[n], "+arpsi")) < 4) { Slot &s = slot_i[digit_after(t[n], "[arprni")][a]; if (s.opcode < 0) { s.opcode = op; s.pos = (int)n; } }
            if (t[n].rfind("[arprnj", 0) == 0 && (a = digit_after(t[n], "+arpsj")) < 4) { Slot &s = slot_j[digit_after(t[n], "[arprnj")][a]; if (s.opcode < 0) { s.opcode = op; s.pos = (int)n; } }
        }
    }
    scanned = true;
}
extern "C" unsigned long verif_exh_ar_arp_agreement(unsigned long start, unsigned long count, unsigned long *first_fail)
{
    if (!scanned) scan();
    unsigned long failed = 0; unsigned covered = 0;
    for (unsigned long v = start; v < start + count && v < 0x10000; v++) {
        Disassembler::ArArpSettings s{};
        RegisterState regs;
        regs.Set<ar0>((u16)v); regs.Set<ar1>((u16)v); regs.Set<arp0>((u16)v); regs.Set<arp1>((u16)v); regs.Set<arp2>((u16)v); regs.Set<arp3>((u16)v);
        s.ar[0] = s.ar[1] = (u16)v; s.arp[0] = s.arp[1] = s.arp[2] = s.arp[3] = (u16)v;
        bool ok = true; covered = 0;
        for (unsigned r = 0; r < 4; r++) for (unsigned m = 0; m < 4; m++) {
            if (slot_ar[r][m].opcode >= 0) { covered++;
                auto t = Disassembler::GetTokenList((u16)slot_ar[r][m].opcode, 0, s);
                std::string want = "[%r" + std::to_string(regs.arrn[r]) + offset_names[regs.aroffset[m]] + step_names[regs.arstep[m]] + "]";
                ok = ok && t[slot_ar[r][m].pos] == want; }
            if (slot_i[r][m].opcode >= 0) { covered++;
                auto t = Disassembler::GetTokenList((u16)slot_i[r][m].opcode, 0, s);
                std::string want = "[%r" + std::to_string(regs.arprni[r]) + offset_names[regs.arpoffseti[m]] + step_names[regs.arpstepi[m]] + "]";
                ok = ok && t[slot_i[r][m].pos] == want; }
            if (slot_j[r][m].opcode >= 0) { covered++;
                auto t = Disassembler::GetTokenList((u16)slot_j[r][m].opcode, 0, s);
                std::string want = "[%r" + std::to_string(regs.arprnj[r] + 4) + offset_names[regs.arpoffsetj[m]] + step_names[regs.arpstepj[m]] + "]";
                ok = ok && t[slot_j[r][m].pos] == want; }
        }
        if (covered < 12) ok = false;                       // vacuity guard: the opcodes with ar/arp operands must have been found
        if (!ok) { if (!failed) *first_fail = v; failed++; }
    }
    return failed;
}
