// Bridge for src/icu.h (header-only)
#include "bridge_common.h"
#include "icu.h"
extern "C" {
#include "icu_types.h"
void CB_ICU_on_interrupt(::ICU *self, u32 a0);
void CB_ICU_on_vectored_interrupt(::ICU *self, u32 a0, bool a1);
}
#define BRIDGE_WANT_ICU
#include "icu_bridge.inc"
namespace {
struct Rig {
    Teakra::ICU dev; ::ICU *cur = nullptr;
    void load(const ::ICU *c) { cur = const_cast<::ICU *>(c); from_c(c, dev);
        dev.SetInterruptHandler([this](u32 i) { CB_ICU_on_interrupt(cur, i); }, [this](u32 a, bool cs) { CB_ICU_on_vectored_interrupt(cur, a, cs); }); }
    void store() { to_c(dev, cur); cur->on_interrupt.set = 1; cur->on_vectored_interrupt.set = 1; }
};
Rig &rig() { static Rig r; return r; }
}
#define CALL(self, stmt) do { Rig &r = rig(); r.load(self); BRIDGE_RUN(stmt); r.store(); } while (0)
extern "C" {
void ICU_Trigger(::ICU *self, u16 b) { CALL(self, r.dev.Trigger(b)); }
void ICU_TriggerSingle(::ICU *self, u32 i) { CALL(self, r.dev.TriggerSingle(i)); }
void ICU_Acknowledge(::ICU *self, u16 b) { CALL(self, r.dev.Acknowledge(b)); }
void ICU_SetEnable(::ICU *self, u32 i, u16 b) { CALL(self, r.dev.SetEnable(i, b)); }
void ICU_SetEnableVectored(::ICU *self, u16 b) { CALL(self, r.dev.SetEnableVectored(b)); }
u16 ICU_GetRequest(const ::ICU *self) { u16 v = 0; CALL(self, v = r.dev.GetRequest()); return v; }
u16 ICU_GetEnable(const ::ICU *self, u32 i) { u16 v = 0; CALL(self, v = r.dev.GetEnable(i)); return v; }
u16 ICU_GetEnableVectored(const ::ICU *self) { u16 v = 0; CALL(self, v = r.dev.GetEnableVectored()); return v; }
u32 ICU_GetVector(const ::ICU *self, u32 i) { u32 v = 0; CALL(self, v = r.dev.GetVector(i)); return v; }
}
