// Bounded stand-in for the text <-> machine-code clauses of C05 (string/trie code is outside any contract verifier installed here):
// exhaustive native enumeration of the REAL disassembler and parser over all 65536 first words x 4 second words.
//   - every renderable opcode's token list assembles (Parse) to a valid opcode with the same need for a second word,
//   - the assembled opcode disassembles to the same token list and the same joined text for every second word tried,
//   - the assembled opcode sets no bit the original did not (it may only drop unused bits),
//   - the joined-text form is the token list joined by four spaces.
#include "bridge_common.h"
#include "disassembler.cpp"
#include "parser.cpp"
static bool renderable(const std::vector<std::string> &t) { for (auto &x : t) if (x.find("[ERROR]") != std::string::npos) return false; return true; }
extern "C" unsigned long verif_exh_asm_roundtrip(unsigned long start, unsigned long count, unsigned long *first_fail)
{
    static std::unique_ptr<Teakra::Parser> parser = Teakra::GenerateParser();
    static const u16 second[4] = {0x0000, 0xFFFF, 0x1234, 0x8001};
    unsigned long fails = 0;
    for (unsigned long i = start; i < start + count && i < 0x10000; i++) {
        u16 op = (u16)i; bool ok = true;
        auto tokens = Teakra::Disassembler::GetTokenList(op);
        if (!renderable(tokens)) continue;
        auto r = parser->Parse(tokens);
        bool need = Teakra::Disassembler::NeedExpansion(op);
        if (r.status == Teakra::Parser::Opcode::Invalid) ok = false;
        else if ((r.status == Teakra::Parser::Opcode::ValidWithExpansion) != need || Teakra::Disassembler::NeedExpansion(r.opcode) != need) ok = false;
        else if ((r.opcode & (u16)~op) != 0) ok = false;
        else for (u16 e : second) {
            auto a = Teakra::Disassembler::GetTokenList(op, e), b = Teakra::Disassembler::GetTokenList(r.opcode, e);
            std::string joined; for (size_t k = 0; k < a.size(); k++) { if (k) joined += "    "; joined += a[k]; }
            if (a != b || Teakra::Disassembler::Do(op, e) != Teakra::Disassembler::Do(r.opcode, e) || Teakra::Disassembler::Do(op, e) != joined) { ok = false; break; }
        }
        if (!ok) { if (!fails) *first_fail = i; fails++; }
    }
    return fails;
}
