/* Native run-time for harnesses compiled without VERIF_CBMC (fidelity check and counterexample replay).
 * usage:  <bin> fidelity <seed> <samples>      -> one line per harness: name accepted=<n> checks_failed=<n> hash=<h>
 *         <bin> replay <harness>                -> CHECK lines; exit 0 all checks hold, 1 some check failed, 3 input rejected by an ASSUME
 */
#include <stdio.h>
#include <stdlib.h>
#include <string.h>
#include <stdint.h>
#include <setjmp.h>
#include <signal.h>

sigjmp_buf verif_jb;
extern int verif_outcome;

typedef struct { const char *name; void (*fn)(void); } verif_harness_t;
extern verif_harness_t verif_harness_table[];
extern int verif_harness_count;
/* exhaustive / bounded native enumerations (stand-ins for obligations no installed back end decides): fn(start, count, &first_fail) -> failures */
typedef struct { const char *name; uint64_t (*fn)(uint64_t, uint64_t, uint64_t *); } verif_exh_t;
extern verif_exh_t verif_exh_table[];
extern int verif_exh_count;

#include <unistd.h>
static FILE *vout;   /* our own channel: the real code's printf diagnostics go to /dev/null */
static uint64_t rng_s;
static uint64_t rng(void) { rng_s ^= rng_s << 13; rng_s ^= rng_s >> 7; rng_s ^= rng_s << 17; return rng_s; }
static uint64_t hash_acc;
static void hash_bytes(const void *p, size_t n) { const unsigned char *b = p; for (size_t i = 0; i < n; i++) { hash_acc ^= b[i]; hash_acc *= 1099511628211ull; } }
static int mode_replay, rejected, checks_failed_this, verbose;
static int sample_mode;

void verif_input(const char *name, void *p, size_t n)
{
    unsigned char *b = p;
    (void)name;
    /* biased generators: small values are what preconditions and mode fields accept */
    switch (sample_mode % 5) {
    case 0: for (size_t i = 0; i < n; i++) b[i] = (rng() % 4 == 0) ? (unsigned char)(rng() % 3) : 0; break;
    case 1: for (size_t i = 0; i < n; i++) b[i] = (unsigned char)rng(); break;
    case 2: memset(b, 0, n); for (int k = 0; k < 6 && n; k++) b[rng() % n] = (unsigned char)rng(); break;
    case 3: for (size_t i = 0; i < n; i++) b[i] = (i % 2) ? 0 : (unsigned char)(rng() % 5); break;
    default: for (size_t i = 0; i < n; i++) b[i] = (rng() % 3 == 0) ? (unsigned char)rng() : (unsigned char)(rng() % 2); break;
    }
}
void verif_output(const char *name, const void *p, size_t n)
{
    hash_bytes(name, strlen(name)); hash_bytes(p, n);
    if (verbose) { fprintf(vout, "OUT %s =", name); for (size_t i = 0; i < n && i < 256; i++) fprintf(vout, " %02x", ((const unsigned char *)p)[i]); fprintf(vout, "\n"); }
}
void verif_check(int ok, const char *msg)
{
    hash_bytes(&ok, sizeof ok);
    if (!ok) checks_failed_this++;
    if (mode_replay || (verbose && !ok)) fprintf(vout, "CHECK %s %s\n", ok ? "ok" : "FAILED", msg);
}
void verif_reject(void) { rejected = 1; siglongjmp(verif_jb, 2); }
int verif_expect_no_abort;   /* set by a harness after its reference run: a deliberate abort of the code under test is then a failed check (C01) */
void verif_native_exit(int outcome, const char *msg)
{
    if (!verif_outcome) verif_outcome = outcome;
    if (verif_expect_no_abort) { verif_expect_no_abort = 0; verif_check(0, "the code under test aborts or reports unimplemented where the reference completes"); }
    if (mode_replay || verbose) fprintf(vout, "EXIT outcome=%d (%s)\n", outcome, msg);
    if (outcome == 99) { fprintf(vout, "MODEL-LIMIT %s\n", msg); }
    siglongjmp(verif_jb, 1);
}

/* a crash of the code under test (SIGFPE, SIGSEGV, ...) is an outcome (4 = illegal exit), not a failure of the run */
static void on_signal(int sig) { (void)sig; if (!verif_outcome) verif_outcome = 4; siglongjmp(verif_jb, 1); }

int main(int argc, char **argv)
{
    signal(SIGFPE, on_signal); signal(SIGSEGV, on_signal); signal(SIGBUS, on_signal); signal(SIGILL, on_signal);
    vout = fdopen(dup(1), "w");
    if (!freopen("/dev/null", "w", stdout)) return 2;
    if (!freopen("/dev/null", "w", stderr)) return 2;
    if (argc >= 3 && !strcmp(argv[1], "replay")) {
        mode_replay = 1; verbose = 1;
        for (int h = 0; h < verif_harness_count; h++) {
            if (strcmp(verif_harness_table[h].name, argv[2])) continue;
            verif_outcome = 0;
            int j = sigsetjmp(verif_jb, 1);
            if (j == 0) verif_harness_table[h].fn();
            fprintf(vout, "OUTCOME %d\n", verif_outcome);
            if (rejected) { fprintf(vout, "REJECTED input violates an ASSUME of the harness\n"); fflush(vout); return 3; }
            fflush(vout); return (checks_failed_this || verif_outcome >= 3) ? 1 : 0;   /* outcomes >= 3 are illegal exits */
        }
        fprintf(vout, "no such harness %s\n", argv[2]);
        return 2;
    }
    if (argc >= 5 && !strcmp(argv[1], "exhaustive")) {
        for (int h = 0; h < verif_exh_count; h++) {
            if (strcmp(verif_exh_table[h].name, argv[2])) continue;
            uint64_t start = strtoull(argv[3], 0, 10), count = strtoull(argv[4], 0, 10), first = ~0ull;
            uint64_t f = verif_exh_table[h].fn(start, count, &first);
            fprintf(vout, "%s start=%llu count=%llu failed=%llu first=%llu\n", argv[2], (unsigned long long)start, (unsigned long long)count, (unsigned long long)f, (unsigned long long)first);
            fflush(vout);
            return f ? 1 : 0;
        }
        fprintf(vout, "no such enumeration %s\n", argv[2]); fflush(vout);
        return 2;
    }
    if (argc >= 4 && !strcmp(argv[1], "fidelity")) {
        uint64_t seed = strtoull(argv[2], 0, 10); long n = atol(argv[3]);
        verbose = argc > 4;
        for (int h = 0; h < verif_harness_count; h++) {
            long acc = 0, cf = 0, first_fail = -1; uint64_t hh = 1469598103934665603ull; long aborted = 0;
            for (long i = 0; i < n; i++) {
                rng_s = (seed + 1) * 0x9E3779B97F4A7C15ull + (uint64_t)h * 1000003ull + (uint64_t)i * 7919ull + 1; rng(); rng();
                sample_mode = (int)i;
                hash_acc = 1469598103934665603ull; rejected = 0; checks_failed_this = 0; verif_outcome = 0; verif_expect_no_abort = 0;
                int j = sigsetjmp(verif_jb, 1);
                if (j == 0) verif_harness_table[h].fn();
                if (rejected) continue;
                acc++;
                if (verif_outcome) aborted++;
                hash_bytes(&verif_outcome, sizeof verif_outcome);
                if (checks_failed_this) { cf++; if (first_fail < 0) first_fail = i; }
                hh = (hh ^ hash_acc) * 1099511628211ull;
            }
            fprintf(vout, "%s accepted=%ld aborted=%ld checks_failed=%ld first_fail=%ld hash=%016llx\n", verif_harness_table[h].name, acc, aborted, cf, first_fail, (unsigned long long)hh);
        }
        fflush(vout); return 0;
    }
    fprintf(vout, "usage: %s fidelity <seed> <n> | replay <harness>\n", argv[0]);
    return 2;
}
