// Bridge for src/processor.cpp (Interpreter, RegisterState): the extracted-C API on the real C++ objects.
// The memory interface is NOT linked: its entry points are routed to the harness's abstract memory, so the extracted C and the
// real interpreter run against the same memory model.
#include "bridge_common.h"
#include "shared_memory.h"
#include "processor.cpp"
namespace cx { extern "C" {
#include "proc_types.h"
#include "proc_protos.h"
/* the harness's abstract memory (harness/absmem.h); declared here because a unit's closure need not call all four */
u16 MemoryInterface_DataRead(MemoryInterface *self, u16 address, bool bypass_mmio);
void MemoryInterface_DataWrite(MemoryInterface *self, u16 address, u16 value, bool bypass_mmio);
u16 MemoryInterface_ProgramRead(const MemoryInterface *self, u32 address);
void MemoryInterface_ProgramWrite(MemoryInterface *self, u32 address, u16 value);
} }
#define CX(n) cx::n
#define BRIDGE_WANT_ALL
namespace Teakra {
#include "proc_bridge.inc"
}
using Teakra::to_c; using Teakra::from_c;

static cx::MemoryInterface *g_cmem;
namespace Teakra {
MemoryInterface::MemoryInterface(SharedMemory& s, MemoryInterfaceUnit& m) : shared_memory(s), memory_interface_unit(m) {}
u16 MemoryInterface::ProgramRead(u32 address) const { return cx::MemoryInterface_ProgramRead(g_cmem, address); }
void MemoryInterface::ProgramWrite(u32 address, u16 value) { cx::MemoryInterface_ProgramWrite(g_cmem, address, value); }
u16 MemoryInterface::DataRead(u16 address, bool bypass_mmio) { return cx::MemoryInterface_DataRead(g_cmem, address, bypass_mmio); }
void MemoryInterface::DataWrite(u16 address, u16 value, bool bypass_mmio) { cx::MemoryInterface_DataWrite(g_cmem, address, value, bypass_mmio); }
}
namespace {
struct Rig {
    Teakra::CoreTiming ct;
    Teakra::RegisterState regs;
    Teakra::SharedMemory shm{reinterpret_cast<u8 *>(16)};
    Teakra::MemoryInterfaceUnit miu;
    Teakra::MemoryInterface mi{shm, miu};
    Teakra::Interpreter interp{ct, regs, mi};
    void load(const cx::Interpreter *c) { g_cmem = c->mem; from_c(c->regs, regs); from_c(c, interp); }
    void store(const cx::Interpreter *cc) { cx::Interpreter *c = const_cast<cx::Interpreter *>(cc); to_c(regs, c->regs); to_c(interp, c); }
    void load(const cx::RegisterState *c) { from_c(c, regs); }
    void store(const cx::RegisterState *c) { to_c(regs, const_cast<cx::RegisterState *>(c)); }
};
Rig &rig() { static Rig r; return r; }
template <class C> C &br_obj();
template <> Teakra::Interpreter &br_obj<Teakra::Interpreter>() { return rig().interp; }
template <> Teakra::RegisterState &br_obj<Teakra::RegisterState>() { return rig().regs; }
}
#define BR_LOAD(self) rig().load(self)
#define BR_STORE(self) rig().store(self)
#define BR_OBJ(C) br_obj<C>()
#include "proc_wrappers.inc"

// free functions of common_types.h that the extracted closure calls by name
#ifdef BRIDGE_FN_BitReverse
extern "C" u16 cx::BitReverse(u16 value) { return ::BitReverse(value); }
#endif
