// C02 enumeration: the generated decode functions against the REAL tables, for every first word (a finite domain, enumerated completely).
//   interpreter:   GetDecoderTable<Teakra::Interpreter>()  (name, NeedExpansion) per word
//   disassembler:  Teakra::Disassembler::NeedExpansion(word); text of Do(word, second) invariant under bits the encoding marks unused
#include <cstdio>
#include <cstring>
#include <string>
#include <vector>
#include "teakra/disassembler.h"
#include "shared_memory.h"
#include "memory_interface.h"
#include "interpreter.h"
extern "C" {
int c02_ext_first(u16 op); int c02_ext_count(u16 op); int c02_ext_expanded(u16 op); const char *c02_ext_name(u16 op); unsigned c02_ext_unused(u16 op);
int c02_dis_first(u16 instruction); bool c02_dis_need_expansion(u16 instruction);
void verif_native_exit(int, const char *);
}
namespace Teakra {   // the table only takes the handlers' addresses; memory is never touched here
MemoryInterface::MemoryInterface(SharedMemory& s, MemoryInterfaceUnit& m) : shared_memory(s), memory_interface_unit(m) {}
u16 MemoryInterface::ProgramRead(u32) const { return 0; }
void MemoryInterface::ProgramWrite(u32, u16) {}
u16 MemoryInterface::DataRead(u16, bool) { return 0; }
void MemoryInterface::DataWrite(u16, u16, bool) {}
u16 MemoryInterface::DataReadA32(u32) const { return 0; }
void MemoryInterface::DataWriteA32(u32, u16) {}
u16 MemoryInterface::MMIORead(u16) { return 0; }
void MemoryInterface::MMIOWrite(u16, u16) {}
}
extern "C" unsigned long verif_exh_decode_tables(unsigned long start, unsigned long count, unsigned long *first_fail)
{
    static const std::vector<Matcher<Teakra::Interpreter>> table = GetDecoderTable<Teakra::Interpreter>();
    unsigned long failed = 0;
    static const u16 seconds[3] = {0x0000, 0x1234, 0xFFFF};
    for (unsigned long i = start; i < start + count && i < 0x10000; i++) {
        u16 op = (u16)i; bool ok = true;
        ok = ok && c02_ext_count(op) <= 1;
        ok = ok && !strcmp(table[op].GetName(), c02_ext_name(op)) && table[op].NeedExpansion() == (c02_ext_expanded(op) != 0);
        ok = ok && Teakra::Disassembler::NeedExpansion(op) == c02_dis_need_expansion(op) && c02_dis_first(op) == c02_ext_first(op);
        unsigned um = c02_ext_unused(op);
        for (unsigned bit = 0; bit < 16 && ok; bit++) if ((um >> bit) & 1)
            for (u16 ex : seconds) ok = ok && Teakra::Disassembler::Do(op, ex) == Teakra::Disassembler::Do((u16)(op ^ (1u << bit)), ex);
        if (!ok) { if (!failed) *first_fail = i; failed++; }
    }
    return failed;
}
