#!/usr/bin/env python3
"""debug helper: show.py <tu_rel> <function name> [index] -- compact view of a function's AST"""
import sys, os
sys.path.insert(0, os.path.dirname(os.path.abspath(__file__)))
import astload
def show(n, d=0, maxd=99):
    if d > maxd or not isinstance(n, dict) or not n: 
        if isinstance(n, dict) and not n: print('  '*d + '{}')
        return
    keys = ['kind', 'name', 'opcode', 'value', 'castKind', 'isPostfix', 'isArrow', 'id']
    t = n.get('type', {}).get('qualType')
    dt = n.get('type', {}).get('desugaredQualType')
    rd = n.get('referencedDecl', {})
    rm = n.get('referencedMemberDecl')
    print('  '*d + ' '.join(f"{k}={n[k]}" for k in keys if k in n), 'type=', t, ('(%s)' % dt) if dt else '',
          ('ref=' + rd.get('kind', '') + ':' + rd.get('name', '') + ':' + rd.get('id', '')) if rd else '', ('mem=' + rm) if rm else '',
          ('ctor=' + n['ctorType']['qualType']) if 'ctorType' in n else '', ' '.join(k for k in ('list','elidable','zeroing','isImplicit','isUsed') if n.get(k)))
    for c in n.get('inner', []): show(c, d+1, maxd)
    for k in ('array_filler',):
        for c in n.get(k, []): show(c, d+1, maxd)
if __name__ == '__main__':
    chunks = astload.load(sys.argv[1])
    name = sys.argv[2]; idx = int(sys.argv[3]) if len(sys.argv) > 3 else None
    acc = []
    def find(n):
        if isinstance(n, dict):
            if n.get('name') == name and n.get('kind') in ('CXXMethodDecl', 'FunctionDecl', 'CXXConstructorDecl', 'CXXRecordDecl', 'VarDecl', 'FieldDecl', 'ClassTemplateSpecializationDecl', 'TypeAliasDecl'): acc.append(n)
            for c in n.get('inner', []): find(c)
    for o in chunks: find(o)
    print(len(acc), 'matches')
    for i, a in enumerate(acc):
        if idx is None or i == idx: show(a)
