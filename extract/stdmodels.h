/* C models for the few std:: types that survive extraction (DESIGN.md 2.1).
 * Compiled three ways:
 *   - by goto-cc for CBMC             (-DVERIF_CBMC)
 *   - by gcc for the fidelity/replay natives (neither define)
 * Abort handling (VERIF_ABORT_MODE):
 *   CUT   : an ASSERT failure / throw records the outcome and ends the path (__CPROVER_assume(0));
 *           every functional contract is then a statement about runs that return normally, and
 *           safety checks cover exactly the code the real program executes.
 *   PROVE : an ASSERT failure / throw is a proof obligation (used where the property demands that
 *           no abort happens).
 *   native: record the outcome and longjmp back to the harness.
 */
#ifndef VERIF_STDMODELS_H
#define VERIF_STDMODELS_H
#include <stdint.h>
#include <stdbool.h>
#include <stddef.h>
typedef uint8_t u8; typedef uint16_t u16; typedef uint32_t u32; typedef uint64_t u64;
typedef int8_t s8; typedef int16_t s16; typedef int32_t s32; typedef int64_t s64;

typedef struct verif_opaque { char c; } verif_opaque;
typedef struct verif_fn { bool set; } verif_fn;          /* std::function<...>: only "is a target installed" */
typedef struct verif_string { const char *p; u64 len; } verif_string;   /* std::string: contents + length */
typedef struct verif_optional { bool has; } verif_optional;
typedef u16 verif_bitset16;                                /* std::bitset<16> */

/* outcome classes */
#define VERIF_OK 0
#define VERIF_ABORT 1     /* deliberate ASSERT / UNREACHABLE abort */
#define VERIF_UNIMPL 2    /* UnimplementedException */
#define VERIF_OUTOFRANGE 5 /* std::out_of_range from a constant table lookup: not a legal exit */
#define VERIF_CRASH 4     /* division by zero, wild access: not a legal exit */
#define VERIF_BADCALL 3   /* std::bad_function_call: invoking an empty std::function (not a legal exit) */
extern int verif_outcome;

#ifdef VERIF_CBMC
#  define VERIF_MODEL_ASSERT(c, msg) __CPROVER_assert((c), "MODEL-LIMIT: " msg)
#  if defined(VERIF_ABORT_PROVE)
#    define VERIF_ASSERT(c, msg, line) (__CPROVER_assert((c), "REPO-ASSERT " msg), __CPROVER_assume(c))
#    define VERIF_THROW() (__CPROVER_assert(0, "REPO-THROW UnimplementedException"), __CPROVER_assume(0))
#  else
#    define VERIF_ASSERT(c, msg, line) ((c) ? (void)0 : (verif_outcome = VERIF_ABORT, __CPROVER_assume(0)))
#    define VERIF_THROW() (verif_outcome = VERIF_UNIMPL, __CPROVER_assume(0))
#  endif
#  define VERIF_INDETERMINATE(T) ((T)nondet_u64())
#  define VERIF_FN_CHECK(f) __CPROVER_assert((f).set, "REPO-CALLBACK std::function invoked has a target")
#  define VERIF_OUT_OF_RANGE(T) (__CPROVER_assert(0, "REPO-TABLE constant table lookup finds its key"), __CPROVER_assume(0), (T)0)
u64 nondet_u64(void);
#else
#  include <setjmp.h>
#  include <string.h>
void verif_native_exit(int outcome, const char *msg);
#  define VERIF_MODEL_ASSERT(c, msg) ((c) ? (void)0 : verif_native_exit(99, "MODEL-LIMIT: " msg))
#  define VERIF_ASSERT(c, msg, line) ((c) ? (void)0 : verif_native_exit(VERIF_ABORT, msg))
#  define VERIF_THROW() verif_native_exit(VERIF_UNIMPL, "unimplemented")
#  define VERIF_INDETERMINATE(T) ((T)0xA5A5A5A5A5A5A5A5ull)
#  define VERIF_FN_CHECK(f) ((f).set ? (void)0 : verif_native_exit(VERIF_BADCALL, "bad_function_call"))
#  define VERIF_OUT_OF_RANGE(T) (verif_native_exit(VERIF_OUTOFRANGE, "out_of_range"), (T)0)
#endif

/* a product of two non-constant operands: plain multiplication unless the harness abstracts it (C01's equivalence obligations use an
 * uninterpreted function for both copies: equal operands give equal products, which is all an equivalence of two copies needs) */
#ifndef VERIF_MUL
#define VERIF_MUL(T, a, b) ((a) * (b))
#endif
#define VERIF_SWAP(a, b) do { __typeof__(a) verif_t = (a); (a) = (b); (b) = verif_t; } while (0)
#define VERIF_MIN(a, b) ((b) < (a) ? (b) : (a))
#define VERIF_MAX(a, b) ((a) < (b) ? (b) : (a))
static inline bool verif_exchange_bool(bool *p, bool v) { bool o = *p; *p = v; return o; }
#define VERIF_EXCHANGE(obj, v) verif_exchange_bool(&(obj), (v))        /* std::atomic<bool>::exchange */
static inline u8 verif_exchange_u8(u8 *p, u8 v) { u8 o = *p; *p = v; return o; }
static inline u16 verif_exchange_u16(u16 *p, u16 v) { u16 o = *p; *p = v; return o; }
static inline u32 verif_exchange_u32(u32 *p, u32 v) { u32 o = *p; *p = v; return o; }
static inline u64 verif_exchange_u64(u64 *p, u64 v) { u64 o = *p; *p = v; return o; }

/* std::memset(p, 0, n): byte loop (only Teakra::Impl::Reset uses it; the loop is given a contract there) */
#ifdef VERIF_CBMC
#  define VERIF_MEMSET(p, v, n) __builtin_memset((p), (v), (n))
#else
#  define VERIF_MEMSET(p, v, n) memset((p), (v), (n))
#endif

/* std::queue<T>: ring of VERIF_QCAP slots.  Capacity is a proof obligation (MODEL-LIMIT), not an assumption. */
#define VERIF_QCAP 17
#define VERIF_DEFINE_QUEUE(T) \
  typedef struct verif_queue_##T { T buf[VERIF_QCAP]; u32 head; u32 len; } verif_queue_##T; \
  static inline bool verif_queue_##T##_empty(const verif_queue_##T *q) { return q->len == 0; } \
  static inline u64 verif_queue_##T##_size(const verif_queue_##T *q) { return q->len; } \
  static inline T verif_queue_##T##_front(const verif_queue_##T *q) { VERIF_MODEL_ASSERT(q->len > 0 && q->head < VERIF_QCAP, "queue front on empty"); return q->buf[q->head % VERIF_QCAP]; } \
  static inline void verif_queue_##T##_pop(verif_queue_##T *q) { VERIF_MODEL_ASSERT(q->len > 0 && q->head < VERIF_QCAP, "queue pop on empty"); q->head = (q->head + 1) % VERIF_QCAP; q->len--; } \
  static inline void verif_queue_##T##_push(verif_queue_##T *q, T v) { VERIF_MODEL_ASSERT(q->len < VERIF_QCAP && q->head < VERIF_QCAP, "queue capacity"); q->buf[(q->head + q->len) % VERIF_QCAP] = v; q->len++; } \
  static inline T verif_queue_##T##_at(const verif_queue_##T *q, u32 i) { return q->buf[(q->head + i) % VERIF_QCAP]; }
VERIF_DEFINE_QUEUE(u16)
VERIF_DEFINE_QUEUE(u32)
#define VERIF_QUEUE_EMPTY(q) _Generic((q), verif_queue_u16 *: verif_queue_u16_empty, const verif_queue_u16 *: verif_queue_u16_empty, verif_queue_u32 *: verif_queue_u32_empty, const verif_queue_u32 *: verif_queue_u32_empty)(q)
#define VERIF_QUEUE_SIZE(q) _Generic((q), verif_queue_u16 *: verif_queue_u16_size, const verif_queue_u16 *: verif_queue_u16_size, verif_queue_u32 *: verif_queue_u32_size, const verif_queue_u32 *: verif_queue_u32_size)(q)
#define VERIF_QUEUE_FRONT(q) _Generic((q), verif_queue_u16 *: verif_queue_u16_front, const verif_queue_u16 *: verif_queue_u16_front, verif_queue_u32 *: verif_queue_u32_front, const verif_queue_u32 *: verif_queue_u32_front)(q)
#define VERIF_QUEUE_POP(q) _Generic((q), verif_queue_u16 *: verif_queue_u16_pop, verif_queue_u32 *: verif_queue_u32_pop)(q)
#define VERIF_QUEUE_PUSH(q, v) _Generic((q), verif_queue_u16 *: verif_queue_u16_push, verif_queue_u32 *: verif_queue_u32_push)((q), (v))

/* std::vector<T*> (CoreTiming's callback list): at most 4 entries (2 timers + 2 BTDMPs, as Teakra::Impl registers) */
#define VERIF_VCAP 4
typedef struct verif_vec_ptr { void *e[VERIF_VCAP]; u64 len; } verif_vec_ptr;
#define VERIF_VEC_PUSH(v, p) (VERIF_MODEL_ASSERT((v)->len < VERIF_VCAP, "callback vector capacity"), (v)->e[(v)->len] = (void *)(p), (v)->len++)

/* a / b and a % b with a non-constant divisor (only Btdmp::Skip): no installed back end decides division or multiplication by
 * a symbolic operand (DESIGN.md probe P11), so machine division is AXIOMATISED: the quotient/remainder pair is a nondeterministic
 * pair constrained by the division theorem, memoised so that n / d and n % d of the same operands agree, and related to the pair
 * of the previous query by the successor rule  (n+1) divmod d = (q, r+1) if r+1 < d else (q+1, 0).  Both facts are elementary
 * arithmetic (listed under trusted_base; the successor rule is checked exhaustively for 8-bit operands by harness h_udivmod_model).
 * Division by zero is a proof obligation, not an assumption. */
#ifdef VERIF_CBMC
extern u64 verif_dm_n, verif_dm_d, verif_dm_q, verif_dm_r;
extern bool verif_dm_valid;
u64 nondet_u64(void);
static inline void verif_udivmod(u64 n, u64 d)
{
    __CPROVER_assert(d != 0, "REPO-DIV division by zero");
    __CPROVER_assume(d != 0);
    if (verif_dm_valid && verif_dm_n == n && verif_dm_d == d) return;
    if (verif_dm_valid && verif_dm_d == d && verif_dm_n + 1 == n && n != 0) {
        if (verif_dm_r + 1 < d) { verif_dm_r = verif_dm_r + 1; } else { verif_dm_q = verif_dm_q + 1; verif_dm_r = 0; }
    } else {
        u64 q = nondet_u64(), r = nondet_u64();
        __CPROVER_assume(r < d && q <= n && q * d + r == n);
        verif_dm_q = q; verif_dm_r = r;
    }
    verif_dm_n = n; verif_dm_d = d; verif_dm_valid = 1;
}
#  define VERIF_UDIV(n, d) (verif_udivmod((n), (d)), verif_dm_q)
#  define VERIF_UMOD(n, d) (verif_udivmod((n), (d)), verif_dm_r)
#else
#  define VERIF_UDIV(n, d) ((d) ? (n) / (d) : (verif_native_exit(4, "division by zero"), 0ull))
#  define VERIF_UMOD(n, d) ((d) ? (n) % (d) : (verif_native_exit(4, "division by zero"), 0ull))
#endif

/* SharedMemory::raw[i]: the DSP memory is 0x80000 bytes.  An access outside it is not a legal exit of the program.
 * CUT build (functional contracts): the path ends with outcome CRASH; PROVE-OOB build (C18): it is a proof obligation.
 *
 * CBMC build: a 512 KiB symbolic array exhausts the SAT back end, so the memory is a FOOTPRINT abstraction: VERIF_MEM_CELLS
 * byte cells at arbitrary (nondeterministic, hence universally quantified) addresses with arbitrary contents.  An access to an
 * address outside the chosen footprint ends the path (not explored).  Every execution that touches at most VERIF_MEM_CELLS
 * distinct bytes is covered by some choice of footprint, so an obligation over a function with a bounded footprint (one DMA
 * element: 8 bytes; one load/store: 2 bytes) ranges over ALL memory contents and ALL addresses.  Listed under trusted_base. */
#define VERIF_RAW_SIZE 0x80000ull
#ifdef VERIF_CBMC
#  ifndef VERIF_MEM_CELLS
#    define VERIF_MEM_CELLS 12
#  endif
extern u32 verif_mem_addr[VERIF_MEM_CELLS];
extern u8 verif_mem_val[VERIF_MEM_CELLS];
#  define VERIF_MEM_FRAME(raw) __CPROVER_object_whole(verif_mem_val)   /* assigns-clause target standing for "the DSP memory" */
static inline unsigned verif_mem_cell(u64 i)
{
#  ifdef VERIF_OOB_PROVE
    __CPROVER_assert(i < VERIF_RAW_SIZE, "REPO-OOB access outside the 0x80000-byte DSP memory");
    __CPROVER_assume(i < VERIF_RAW_SIZE);
#  else
    if (i >= VERIF_RAW_SIZE) { verif_outcome = VERIF_CRASH; __CPROVER_assume(0); }
#  endif
    unsigned k = VERIF_MEM_CELLS;
#  define VERIF_CELL(n) if ((n) < VERIF_MEM_CELLS && k == VERIF_MEM_CELLS && verif_mem_addr[(n) < VERIF_MEM_CELLS ? (n) : 0] == (u32)i) k = (n);
    VERIF_CELL(0) VERIF_CELL(1) VERIF_CELL(2) VERIF_CELL(3) VERIF_CELL(4) VERIF_CELL(5) VERIF_CELL(6) VERIF_CELL(7)
    VERIF_CELL(8) VERIF_CELL(9) VERIF_CELL(10) VERIF_CELL(11) VERIF_CELL(12) VERIF_CELL(13) VERIF_CELL(14) VERIF_CELL(15)
    __CPROVER_assume(k < VERIF_MEM_CELLS);        /* outside the chosen footprint: this choice of cells does not cover the execution */
    return k;
}
static inline u8 VERIF_RAW_READ(const u8 *p, u64 i) { (void)p; return verif_mem_val[verif_mem_cell(i)]; }
/* side-effect-free reader for specifications and contract clauses (no outcome is recorded; an index outside memory or outside the
 * footprint makes the clause's path vanish, like any other footprint miss) */
static inline u8 VERIF_RAW_PEEK(const u8 *p, u64 i)
{
    (void)p;
    unsigned k = VERIF_MEM_CELLS;
    VERIF_CELL(0) VERIF_CELL(1) VERIF_CELL(2) VERIF_CELL(3) VERIF_CELL(4) VERIF_CELL(5) VERIF_CELL(6) VERIF_CELL(7)
    VERIF_CELL(8) VERIF_CELL(9) VERIF_CELL(10) VERIF_CELL(11) VERIF_CELL(12) VERIF_CELL(13) VERIF_CELL(14) VERIF_CELL(15)
    __CPROVER_assume(k < VERIF_MEM_CELLS && i < VERIF_RAW_SIZE);
    return verif_mem_val[k];
}
static inline void VERIF_RAW_WRITE(u8 *p, u64 i, u8 v) { (void)p; verif_mem_val[verif_mem_cell(i)] = v; }
#else
static inline u8 VERIF_RAW_READ(const u8 *p, u64 i) { if (i >= VERIF_RAW_SIZE) verif_native_exit(VERIF_CRASH, "access outside DSP memory"); return p[i]; }
static inline u8 VERIF_RAW_PEEK(const u8 *p, u64 i) { return i < VERIF_RAW_SIZE ? p[i] : 0; }
static inline void VERIF_RAW_WRITE(u8 *p, u64 i, u8 v) { if (i >= VERIF_RAW_SIZE) verif_native_exit(VERIF_CRASH, "access outside DSP memory"); p[i] = v; }
#endif

#define VERIF_ARR_EQ(a, b) (__builtin_memcmp(&(a), &(b), sizeof(a)) == 0)
#endif

#ifndef VERIF_STDMODELS_DECODER_H
#define VERIF_STDMODELS_DECODER_H
/* ---- decoder table hooks (Interpreter::Run, src/interpreter.h) ----
 * `decoders[opcode]` (a 65536-entry std::vector<Matcher> built by GetDecoderTable at construction) is abstracted to a handle, the opcode
 * itself; NeedExpansion()/call() go to the functions generated from GetDecodeTable<Interpreter>() by extract/cxx2c.py
 * (emit_decode_table), unless the harness substitutes its own (an instruction stub) by defining the macros first.
 * Dropped: Matcher::call's ASSERT(Matches(instruction)) -- it holds by construction of the table (Decode returns a matching entry or
 * the match-all entry). */
typedef u16 verif_decoder;
#define VERIF_DECODER_LOOKUP(op) ((verif_decoder)(op))
#ifndef VERIF_DECODER_NEED_EXPANSION
#define VERIF_DECODER_NEED_EXPANSION(d) vdec_Interpreter_need_expansion(d)
#endif
#ifndef VERIF_DECODER_CALL
#define VERIF_DECODER_CALL(d, self, op, ex) vdec_Interpreter_call(self, op, ex)
#endif
/* raw bytes of a small operand value packed into one word (decode table, operand signatures) */
static inline void verif_pack8(u64 *out, const void *p, unsigned long n) { const unsigned char *b = (const unsigned char *)p; u64 v = 0; for (unsigned long i = 0; i < 8; i++) if (i < n) v |= (u64)b[i] << (8 * i); *out = v; }
#define VERIF_PACK8(out, p, n) verif_pack8(out, p, n)
#endif
