#!/usr/bin/env python3
"""Load clang's JSON AST of one translation unit of /repo, streaming, skipping the
top-level `namespace std`-like chunks unparsed.  Results are cached under
/verif/.cache keyed by the sha256 of every source file of the repository that the
TU could include (all of /repo/src and /repo/include) plus this loader's version,
so the cache can never be stale with respect to the working tree."""
import hashlib, json, os, pickle, subprocess, sys, time

VERSION = 'astload-3'
REPO = os.environ.get('VERIF_REPO', '/repo')
CACHE = os.environ.get('VERIF_CACHE', os.path.join(os.path.dirname(os.path.dirname(os.path.abspath(__file__))), '.cache'))
SKIP_NS = {'std', '__gnu_cxx', '__cxxabiv1', '__gnu_debug', '__detail', 'abi', '__pstl'}
INCLUDES = ['include', 'src', 'include/teakra/impl']


def tree_hash(repo=None):
    repo = repo or REPO
    h = hashlib.sha256()
    h.update(VERSION.encode())
    for top in ('src', 'include'):
        for root, dirs, files in sorted(os.walk(os.path.join(repo, top))):
            dirs.sort()
            for f in sorted(files):
                if f.endswith(('.h', '.cpp', '.hpp', '.c')):
                    p = os.path.join(root, f)
                    h.update(os.path.relpath(p, repo).encode())
                    with open(p, 'rb') as fh:
                        h.update(hashlib.sha256(fh.read()).digest())
    return h.hexdigest()


def clang_cmd(tu, repo=None, extra=()):
    repo = repo or REPO
    return ['clang++', '-std=c++17'] + ['-I' + os.path.join(repo, i) for i in INCLUDES] + list(extra) + \
           ['-fsyntax-only', '-Xclang', '-ast-dump=json', tu]


def stream_chunks(cmd):
    p = subprocess.Popen(cmd, stdout=subprocess.PIPE, stderr=subprocess.PIPE, text=True, bufsize=1 << 20)
    chunks = []
    cur = None
    skipping = False
    head = []
    for line in p.stdout:
        if cur is None and not skipping:
            if line == '    {\n':
                cur = [line]
                head = []
            continue
        if skipping:
            if line == '    }\n' or line == '    },\n':
                skipping = False
            continue
        cur.append(line)
        if 1 < len(cur) < 120:
            if line.startswith('      "kind": '):
                head.append(line)
            if line.startswith('      "name": '):
                nm = line.split('"')[3]
                kind = head[0].split('"')[3] if head else ''
                if kind == 'NamespaceDecl' and nm in SKIP_NS:
                    skipping = True
                    cur = None
                    continue
        if line == '    }\n' or line == '    },\n':
            txt = ''.join(cur).rstrip().rstrip(',')
            chunks.append(json.loads(txt))
            cur = None
    err = p.stderr.read()
    rc = p.wait()
    if rc != 0:
        raise SystemExit('EXTRACT-ABORT: clang failed on %s:\n%s' % (cmd[-1], err[-2000:]))
    return chunks


def load(tu_rel, repo=None, extra=()):
    """tu_rel: path relative to the repo root, e.g. src/timer.cpp -- or a list of such paths, which are parsed as ONE translation
    unit through an umbrella file of #include lines (the real files, unmodified; used when a unit spans several .cpp files)"""
    repo = repo or REPO
    if isinstance(tu_rel, (list, tuple)):
        os.makedirs(CACHE, exist_ok=True)
        name = 'umbrella_' + '_'.join(os.path.basename(t).replace('.cpp', '') for t in tu_rel) + '.cpp'
        upath = os.path.join(CACHE, name)
        txt = ''.join('#include "%s"\n' % os.path.join(repo, t) for t in tu_rel)
        if not os.path.exists(upath) or open(upath).read() != txt:
            with open(upath, 'w') as f: f.write(txt)
        return _load(upath, name, repo, extra, absolute=True)
    return _load(tu_rel, tu_rel, repo, extra, absolute=False)


def _load(tu_rel, label, repo, extra, absolute):
    key = hashlib.sha256((tree_hash(repo) + '|' + label + '|' + ' '.join(extra)).encode()).hexdigest()[:24]
    os.makedirs(CACHE, exist_ok=True)
    path = os.path.join(CACHE, 'ast_%s_%s.pkl' % (os.path.basename(tu_rel), key))
    if os.path.exists(path):
        try:
            with open(path, 'rb') as f:
                r = pickle.load(f)
            os.utime(path, None)
            return r
        except Exception:
            pass
    t0 = time.time()
    chunks = stream_chunks(clang_cmd(tu_rel if absolute else os.path.join(repo, tu_rel), repo, extra))
    tmp = path + '.%d.tmp' % os.getpid()
    with open(tmp, 'wb') as f:
        pickle.dump(chunks, f, protocol=pickle.HIGHEST_PROTOCOL)
    os.replace(tmp, path)
    # drop older caches of the same TU (disk is limited)
    pre = 'ast_%s_' % os.path.basename(tu_rel)
    old = sorted((fn for fn in os.listdir(CACHE) if fn.startswith(pre) and fn.endswith('.pkl') and os.path.join(CACHE, fn) != path),
                 key=lambda fn: os.path.getmtime(os.path.join(CACHE, fn)), reverse=True)
    for fn in old[3:]:          # keep the newest other ones: the unchanged tree's cache survives a run on a modified tree
        try: os.remove(os.path.join(CACHE, fn))
        except OSError: pass
    sys.stderr.write('[astload] %s: %d chunks in %.1fs\n' % (label, len(chunks), time.time() - t0))
    return chunks


if __name__ == '__main__':
    c = load(sys.argv[1])
    print(len(c))
