#!/usr/bin/env python3
"""clang JSON AST -> C translator for the C++ subset teakra is written in.

This is the only translator of the framework.  It is run on /repo's working tree by every
check; its output is what CBMC verifies.  DESIGN.md section 2.1 lists every rewrite rule; each rule
counts its firings in `rules`, and an AST node kind without a rule raises Unsupported, which makes
the function it occurs in FAILED -- if that function is in the closure of a required root, the
run aborts (exit 2), it never turns into a verdict.
"""
import collections, json, os, re, sys

sys.path.insert(0, os.path.dirname(os.path.abspath(__file__)))
import astload

NAMESPACES = ('Teakra::', 'std20::', '(anonymous namespace)::')


class Unsupported(Exception):
    pass


def inner(n):
    return [c for c in n.get('inner', []) if isinstance(c, dict) and c.get('kind')]


def has_body(n):
    return any(c.get('kind') == 'CompoundStmt' for c in n.get('inner', []))


def strip_casts(n, kinds=('ImplicitCastExpr', 'ParenExpr', 'MaterializeTemporaryExpr', 'ExprWithCleanups', 'CXXBindTemporaryExpr')):
    while n.get('kind') in kinds:
        n = inner(n)[0]
    return n


def qt(t):
    return (t.get('desugaredQualType') or t.get('qualType') or '').strip()


class Translator:
    SCOPES = ('NamespaceDecl', 'CXXRecordDecl', 'ClassTemplateSpecializationDecl', 'EnumDecl', 'ClassTemplatePartialSpecializationDecl')
    FUNC_KINDS = ('FunctionDecl', 'CXXMethodDecl', 'CXXConstructorDecl', 'CXXConversionDecl')

    def __init__(self, chunks, opts=None):
        self.opts = opts or {}
        self.byid = {}
        self.qual = {}      # id -> qualified name list (namespaces included)
        self.isns = {}      # id -> list of bools: component is a namespace
        self.parent = {}
        self.funcs_by_qual = collections.defaultdict(list)
        self.rules = collections.Counter()
        self.dropped = collections.Counter()
        self.external_ids = set()
        for c in chunks:
            self.index(c, [], [], None)
            if c.get('kind') == 'LinkageSpecDecl':
                self.mark_external(c)
        for i, n in list(self.byid.items()):
            pid = n.get('parentDeclContextId')
            if pid and pid in self.qual and n.get('kind') in self.FUNC_KINDS + ('VarDecl',):
                self.qual[i] = list(self.qual[pid]) + [n.get('name', '')]
                self.isns[i] = list(self.isns[pid]) + [False]
                if has_body(n):
                    self.funcs_by_qual[self.qname(i)].append(n)
        self.defn = {}
        for i, n in self.byid.items():
            if n.get('previousDecl') and has_body(n):
                p = n['previousDecl']
                self.defn[p] = i
        # enum constant values
        self.enumvals = {}
        for i, n in self.byid.items():
            if n.get('kind') == 'EnumDecl' and n.get('name'):
                val = -1
                en = self.tname(i)
                for c in n.get('inner', []):
                    if c.get('kind') == 'EnumConstantDecl':
                        val = self.enum_value(c, val)
                        self.enumvals[en + '::' + c['name']] = str(val)
                        self.enumvals[n['name'] + '::' + c['name']] = str(val)
        # records by normalised printed name
        self.rec_by_norm = {}
        for i, n in self.byid.items():
            if n.get('kind') in ('CXXRecordDecl', 'ClassTemplateSpecializationDecl') and n.get('completeDefinition') and n.get('name'):
                self.rec_by_norm.setdefault(self.norm(self.tname(i), decl=True), n)
        self.enum_by_norm = {}
        for i, n in self.byid.items():
            if n.get('kind') == 'EnumDecl' and n.get('name') and inner(n):
                self.enum_by_norm.setdefault(self.norm(self.tname(i), decl=True), n)
        # alias names of long template types (using stt0 = PseudoRegister<...>): used to keep generated function names readable
        self.alias_by_norm = {}
        for i, n in self.byid.items():
            if n.get('kind') == 'TypeAliasDecl' and n.get('name') and 'type' in n:
                full = n['type'].get('desugaredQualType') or n['type'].get('qualType') or ''
                if '<' in full and len(full) > 40:
                    self.alias_by_norm.setdefault(self.norm(full), n['name'])
        self.out_funcs = collections.OrderedDict()
        self.protos = collections.OrderedDict()
        self.records = collections.OrderedDict()   # cname -> text (emission order = dependency order)
        self.rec_fields = {}                       # cname -> [(ctype, name, cxx_access or None, kind)]
        self.rec_cxx = {}                          # cname -> C++ qualified name
        self.enums = collections.OrderedDict()
        self.todo = []
        self.fname = {}
        self.stubs = collections.OrderedDict()
        self.tmp = 0
        self.rec_inprogress = set()
        self.rec_bases = {}
        self.fwd = []
        self.globals = collections.OrderedDict()
        self.failed = {}
        self.calls = collections.defaultdict(set)   # cname -> set of callee cnames
        self.func_src = {}                          # cname -> (qualified C++ name, file, line)
        self.fresh_done = {}
        self.func_decl = {}
        self.virtual_dispatch = {}
        self.curfn = None
        self.loopno = 0
        self.pre_stmts = None

    # ------------------------------------------------------------------ indexing
    def index(self, n, scope, nsflags, parent):
        i = n.get('id')
        k = n.get('kind')
        if i:
            prev = self.byid.get(i)
            if prev is None or ('inner' in n and 'inner' not in prev):
                self.byid[i] = n
            self.qual[i] = scope + [n.get('name', '')]
            self.isns[i] = nsflags + [k == 'NamespaceDecl' and (not scope) and n.get('name') in ('Teakra', 'std20')]
            self.parent[i] = parent
        sc, nf = scope, nsflags
        pid = n.get('parentDeclContextId')
        if pid and k in ('CXXRecordDecl', 'EnumDecl') and pid in self.qual and self.byid.get(pid, {}).get('kind') in ('CXXRecordDecl', 'ClassTemplateSpecializationDecl'):
            # out-of-line definition of a nested class (class Apbp::Impl { ... }): qualify by the semantic parent
            scope = list(self.qual[pid]); nsflags = list(self.isns[pid])
            self.qual[i] = scope + [n.get('name', '')]
            self.isns[i] = nsflags + [False]
            sc, nf = scope, nsflags
        if k in self.SCOPES and n.get('name'):
            nm = n['name']
            if k == 'ClassTemplateSpecializationDecl':
                nm = nm + '<' + ', '.join(self.targ_str(a) for a in n.get('inner', []) if a.get('kind') == 'TemplateArgument') + '>'
                self.qual[i] = scope + [nm]
            if not (k == 'NamespaceDecl' and n.get('isInline')):
                sc = scope + [nm]
                nf = nsflags + [k == 'NamespaceDecl' and (not scope) and nm in ('Teakra', 'std20')]
        if k in self.FUNC_KINDS and has_body(n):
            self.funcs_by_qual['::'.join(x for x in scope + [n.get('name', '')] if x)].append(n)
        for c in n.get('inner', []):
            if isinstance(c, dict):
                self.index(c, sc, nf, n)

    def mark_external(self, n):
        if n.get('id'): self.external_ids.add(n['id'])
        for c in n.get('inner', []):
            if isinstance(c, dict): self.mark_external(c)

    def qname(self, i):
        return '::'.join(x for x in self.qual[i] if x)

    def tname(self, i):
        """qualified name without namespace components"""
        return '::'.join(x for x, ns in zip(self.qual[i], self.isns[i]) if x and not ns)

    def targ_str(self, a):
        if a.get('isPack'):
            return ', '.join(self.targ_str(x) for x in a.get('inner', []) if x.get('kind') == 'TemplateArgument')
        if 'value' in a: return str(a['value'])
        if 'type' in a: return qt(a['type'])
        for c in a.get('inner', []):
            if c.get('kind') == 'DeclRefExpr' or 'referencedDecl' in c:
                rd = c.get('referencedDecl', {})
                if rd.get('kind') in ('FieldDecl',) and rd.get('id') in getattr(self, 'qual', {}):
                    return '&' + self.qname(rd['id'])
                return rd.get('name', '?')
            r = self.targ_str(c)
            if r != '?': return r
        if 'decl' in a:
            d = a['decl']
            if d.get('id') in getattr(self, 'qual', {}) and d.get('kind') == 'FieldDecl':
                return '&' + self.qname(d['id'])
            return d.get('name', '?')
        return '?'

    def enum_value(self, c, prev):
        ins = inner(c)
        if ins:
            v = ins[0]
            while 'value' not in v:
                v = inner(v)[0]
            return int(v['value'])
        return prev + 1

    # ------------------------------------------------------------------ names and types
    def norm(self, q, decl=False):
        """normal form of a type name.  decl=False: q is a type as clang prints it (namespace-qualified); decl=True: q is a declaration
        path without its namespace components already (tname)"""
        def strip_ns(x):
            x = re.sub(r'\bTeakra::Teakra\b', '@TKCLASS@', x)      # class Teakra inside namespace Teakra
            for ns in NAMESPACES:
                x = x.replace(ns, '')
            return x.replace('@TKCLASS@', 'Teakra')
        if not decl:
            q = strip_ns(q)
        elif '<' in q:
            k = q.index('<')
            q = q[:k] + strip_ns(q[k:])          # template arguments are printed types even inside a declaration path
        q = re.sub(r'\((\w+(?:::\w+)*)\)(-?\d+)', r'\2', q)          # (RegName)5 -> 5
        q = re.sub(r'\b(\w+(?:::\w+)+)\b', lambda m: self.enumvals.get(m.group(1), m.group(1)), q)
        q = re.sub(r'\b(struct|class|enum) ', '', q)
        q = re.sub(r'\bunsigned short\b', 'u16', q)
        q = re.sub(r'\bunsigned int\b', 'u32', q)
        q = re.sub(r'\bunsigned long\b', 'u64', q)
        q = re.sub(r'(\d)(UL|ULL|U|L|LL)\b', r'\1', q)
        q = q.replace('&', '')
        return re.sub(r'\s', '', q)

    def cident(self, q, decl=False):
        r = re.sub(r'\W+', '_', self.norm(q, decl)).strip('_')
        return 'TeakraObj' if r == 'Teakra' else r      # class Teakra::Teakra: a C struct named like the C++ namespace would clash in the bridges

    def declident(self, i):
        """C identifier for a declaration, from its path (no enum-constant substitution)"""
        return re.sub(r'\W+', '_', self.tname(i).replace('&', '')).strip('_')

    PRIM = {'u8': 'u8', 'u16': 'u16', 'u32': 'u32', 'u64': 'u64', 's8': 's8', 's16': 's16', 's32': 's32', 's64': 's64',
            'unsigned char': 'u8', 'unsigned short': 'u16', 'unsigned int': 'u32', 'unsigned long': 'u64', 'unsigned long long': 'u64',
            'signed char': 's8', 'short': 's16', 'int': 'int', 'long': 's64', 'long long': 's64', 'bool': 'bool', 'void': 'void', 'char': 'char',
            'std::size_t': 'u64', 'size_t': 'u64', 'unsigned': 'u32', 'std::uint16_t': 'u16', 'std::uint32_t': 'u32', 'std::uint8_t': 'u8',
            'std::uint64_t': 'u64', 'uint16_t': 'u16', 'uint32_t': 'u32', 'uint8_t': 'u8', 'uint64_t': 'u64', 'std::int16_t': 's16',
            'std::array::size_type': 'u64'}

    def ctype(self, t):
        return self.ctype_s(qt(t))

    def split_targs(self, s):
        out, depth, cur = [], 0, ''
        for ch in s:
            if ch in '<([': depth += 1
            if ch in '>)]': depth -= 1
            if ch == ',' and depth == 0:
                out.append(cur.strip()); cur = ''
            else:
                cur += ch
        if cur.strip(): out.append(cur.strip())
        return out

    def ctype_s(self, q):
        q = q.strip()
        const = ''
        if q.startswith('const '):
            q = q[6:].strip(); const = 'const '
        if q.endswith(' const'):
            q = q[:-6].strip(); const = 'const '
        if q.endswith('*const'):
            q = q[:-5].strip()
        if q.endswith('&&'):
            return self.ctype_s(q[:-2])
        if q.endswith('&'):
            return const + self.ctype_s(q[:-1]) + ' *'
        if q.endswith('*'):
            return const + self.ctype_s(q[:-1]) + ' *'
        m = re.match(r'(.*)\[(\d+)\]$', q)
        if m:
            raise Unsupported('array type in expression position: ' + q)
        if q in self.PRIM: return const + self.PRIM[q]
        m = re.match(r'std::array<(.*), (\d+)>::(value_type|reference|const_reference)$', q)
        if m:
            return const + self.ctype_s(m.group(1))
        m = re.match(r'std::atomic<(.*)>$', q)
        if m:
            self.rules['std::atomic<T> -> T'] += 1
            return const + self.ctype_s(m.group(1))
        m = re.match(r'std::unique_ptr<(.*)>$', q)
        if m:
            self.rules['std::unique_ptr<T> -> T*'] += 1
            return self.ctype_s(self.split_targs(m.group(1))[0]) + ' *'
        if q.startswith('std::function<'):
            self.rules['std::function member -> verif_fn flag + CB_ stub'] += 1
            return 'verif_fn'
        m = re.match(r'std::queue<(.*)>$', q)
        if m:
            et = self.ctype_s(self.split_targs(m.group(1))[0])
            self.rules['std::queue<T> -> verif_queue_T'] += 1
            return 'verif_queue_' + et
        if re.match(r'std::bitset<16>$', q):
            self.rules['std::bitset<16> -> u16'] += 1
            return 'verif_bitset16'
        m = re.match(r'std::vector<(.*)>$', q)
        if m:
            et = self.split_targs(m.group(1))[0]
            if et.endswith('*'):
                self.rules['std::vector<T*> -> verif_vec_ptr'] += 1
                return 'verif_vec_ptr'
            return 'verif_opaque'
        if q in ('std::string', 'std::basic_string<char>', 'std::__cxx11::basic_string<char>') or q.startswith('std::basic_string<char,') or q.startswith('std::__cxx11::basic_string<char,'):
            self.rules['std::string -> verif_string (pointer + length)'] += 1
            return const + 'verif_string'
        m = re.match(r'std::tuple<(.*)>$', q)
        if m:
            ets = [self.ctype_s(x) for x in self.split_targs(m.group(1))]
            nm = 'tuple_' + '_'.join(re.sub(r'\W+', '_', e).strip('_') for e in ets)
            if nm not in self.records:
                self.rules['std::tuple<A,B> -> struct { A e0; B e1; }'] += 1
                self.records[nm] = 'typedef struct %s { %s } %s;' % (nm, ' '.join('%s e%d;' % (e, k) for k, e in enumerate(ets)), nm)
                self.rec_fields[nm] = ('tuple', ets, len(ets))
            return const + nm
        if q.startswith('std::optional<'):
            self.rules['std::optional<T> -> verif_optional (engaged flag only)'] += 1
            return const + 'verif_optional'
        if q.startswith('std::lock_guard<') or q in ('std::mutex', 'std::recursive_mutex'):
            return 'verif_dropped'
        m = re.match(r'std::array<(.*), (\d+)>$', q)
        if m:
            et = self.ctype_s(m.group(1)); n = int(m.group(2))
            nm = 'arr_%s_%d' % (re.sub(r'\W+', '_', et).strip('_'), n)
            if nm not in self.records:
                self.rules['std::array<T,N> -> struct { T e[N]; }'] += 1
                self.records[nm] = 'typedef struct %s { %s e[%d]; } %s;' % (nm, et, n, nm)
                self.rec_fields[nm] = ('array', et, n)
            return const + nm
        if q.startswith('std::') or q.startswith('__gnu_cxx::'):
            raise Unsupported('library type ' + q)
        nq = self.norm(q)
        if nq in self.enum_by_norm:
            return const + self.emit_enum(self.enum_by_norm[nq])
        if nq in self.rec_by_norm:
            return const + self.emit_record(self.rec_by_norm[nq])
        # a name printed without its enclosing class (clang prints function types as written): unique suffix match
        cands = [k for k in self.enum_by_norm if k.endswith('::' + nq)]
        if len(cands) == 1: return const + self.emit_enum(self.enum_by_norm[cands[0]])
        cands = [k for k in self.rec_by_norm if k.endswith('::' + nq)]
        if len(cands) == 1: return const + self.emit_record(self.rec_by_norm[cands[0]])
        if q in ('auto', 'decltype(auto)'): raise Unsupported('deduced type')
        # forward-declared only (e.g. class MMIORegion; in this TU)
        nm = self.cident(q)
        if not nm or not re.match(r'^[A-Za-z_]\w*$', nm):
            raise Unsupported('type ' + q)
        if nm not in self.fwd and nm not in self.records:
            self.fwd.append(nm)
        return const + nm

    def cfunc_name(self, d):
        i = d['id']
        if i in self.fname: return self.fname[i]
        base = self.cident(self.tname(i), decl=True)
        if d.get('kind') == 'CXXConstructorDecl': base += '__ctor'
        targs = [self.targ_str(a) for a in d.get('inner', []) if a.get('kind') == 'TemplateArgument']
        if targs:
            base += '__' + '_'.join(self.alias_by_norm.get(self.norm(a)) or self.cident(self.PRIM.get(a, a)) for a in targs)
        sibs = self.funcs_by_qual.get(self.qname(i), [])
        if len(sibs) > 1 and not targs:
            # overloads are told apart by their parameter types AS WRITTEN (alias names such as Alm, Rn, StepZIDS), which keeps names short and stable
            ps = [re.sub(r'\W+', '_', self.norm(p['type'].get('qualType', '')).replace('const', '')).strip('_') or re.sub(r'\W+', '_', self.ctype(p['type'])).strip('_')
                  for p in d.get('inner', []) if p.get('kind') == 'ParmVarDecl']
            base += '__' + '_'.join(ps)
            if re.search(r'\)\s*const\b', d.get('type', {}).get('qualType', '')): base += '_const'
        if len(base) > 200:
            import hashlib
            base = base[:150] + '_h' + hashlib.sha1(base.encode()).hexdigest()[:10]
        self.fname[i] = base
        return base

    def enum_const(self, rd):
        return self.declident(rd['id']) if rd['id'] in self.qual else rd['name']

    # ------------------------------------------------------------------ expressions
    def fresh(self, p='vt'):
        self.tmp += 1
        return '%s_%d' % (p, self.tmp)

    def is_ref(self, t):
        return qt(t).endswith('&')

    def e(self, n):
        k = n['kind']
        f = getattr(self, 'e_' + k, None)
        if f is None:
            raise Unsupported('expr kind ' + k)
        return f(n)

    def e_ParenExpr(self, n): return '(' + self.e(inner(n)[0]) + ')'
    def e_ExprWithCleanups(self, n): return self.e(inner(n)[0])
    def e_MaterializeTemporaryExpr(self, n): return self.e(inner(n)[0])
    def e_CXXBindTemporaryExpr(self, n): return self.e(inner(n)[0])
    def e_SubstNonTypeTemplateParmExpr(self, n):
        ins = [c for c in inner(n) if c['kind'] not in ('NonTypeTemplateParmDecl',)]
        return self.e(ins[-1])
    def e_ConstantExpr(self, n):
        if 'value' in n: return self.lit(n['value'], n['type'])
        return self.e(inner(n)[0])
    def lit(self, v, t):
        ct = self.ctype(t).replace('const ', '')
        suf = {'u32': 'u', 'u64': 'ull', 's64': 'll'}.get(ct, '')
        if ct in ('u16', 'u8', 's16', 's8', 'char'): return '((%s)%s)' % (ct, v)
        if ct == 'bool': return '1' if str(v) in ('1', 'true', 'True') else '0'
        if ct not in ('int', 'u32', 'u64', 's64'):
            return '((%s)%s)' % (ct, v)      # enum-typed constant
        return str(v) + suf
    def e_IntegerLiteral(self, n): return self.lit(n['value'], n['type'])
    def e_CharacterLiteral(self, n): return str(n['value'])
    def e_CXXBoolLiteralExpr(self, n): return '1' if n['value'] else '0'
    def e_StringLiteral(self, n): return n['value']
    def e_CXXThisExpr(self, n): return 'self'
    def e_CXXNullPtrLiteralExpr(self, n): return '0'
    def e_GNUNullExpr(self, n): return '0'

    def base_path(self, n, x, subtype_c):
        isptr = subtype_c.rstrip().endswith('*')
        cur = subtype_c.replace('const ', '').rstrip('* ').strip()
        acc = ''
        steps = n.get('path', [])
        for si, step in enumerate(steps):
            want = self.norm(step['name'])
            if si == len(steps) - 1:
                full = qt(n['type']).replace('const ', '').strip().rstrip('*&').strip()
                if full: want = self.norm(full)
            hit = None
            for (bq, bn, k) in self.rec_bases.get(cur, []):
                if bq == want: hit = (bn, k)
            if hit is None:
                cands = self.rec_bases.get(cur, [])
                same = [(bq, bn, k) for (bq, bn, k) in cands if bq.split('<')[0] == want.split('<')[0]]
                if len(same) != 1:
                    same = [(bq, bn, k) for (bq, bn, k) in cands if bq == want or bq.endswith('::' + want)]
                if len(same) == 1: hit = (same[0][1], same[0][2])
            if hit is None:
                raise Unsupported('base path %s in %s' % (want, cur))
            acc += ('->base_%d' if (isptr and not acc) else '.base_%d') % hit[1]
            cur = hit[0]
        self.rules['derived-to-base conversion -> base_k member'] += 1
        if isptr: return '(&%s%s)' % (x, acc)
        return '(%s%s)' % (x, acc)

    def e_ImplicitCastExpr(self, n):
        ck = n['castKind']
        sub = inner(n)[0]
        if ck == 'UserDefinedConversion':
            return self.e(sub)
        x = self.e(sub)
        if ck in ('LValueToRValue', 'NoOp', 'FunctionToPointerDecay', 'ConstructorConversion', 'BuiltinFnToFnPtr'):
            return x
        if ck == 'ArrayToPointerDecay': return x
        if ck in ('IntegralCast',): return '((%s)%s)' % (self.ctype(n['type']), x)
        if ck == 'IntegralToBoolean': return '(%s != 0)' % x
        if ck in ('UncheckedDerivedToBase', 'DerivedToBase'):
            if qt(sub['type']).replace('const ', '').startswith('std::atomic<'):
                return x          # std::atomic<T> -> T: the __atomic_base sub-object is the value itself
            return self.base_path(n, x, self.ctype(sub['type']))
        if ck == 'ToVoid': return '((void)%s)' % x
        if ck == 'NullToPointer': return '0'
        if ck == 'PointerToBoolean': return '(%s != 0)' % x
        if ck == 'BitCast': return '((%s)%s)' % (self.ctype(n['type']), x)
        raise Unsupported('cast ' + ck)
    def e_CStyleCastExpr(self, n):
        if n.get('castKind') == 'ToVoid': return '((void)0)'
        if n.get('castKind') in ('DerivedToBase', 'UncheckedDerivedToBase'):
            sub = inner(n)[0]
            return self.base_path(n, self.e(sub), self.ctype(sub['type']))
        if n.get('castKind') == 'ConstructorConversion': return self.e(inner(n)[0])
        return '((%s)%s)' % (self.ctype(n['type']), self.e(inner(n)[0]))
    e_CXXStaticCastExpr = e_CStyleCastExpr
    e_CXXFunctionalCastExpr = e_CStyleCastExpr
    def e_CXXConstCastExpr(self, n): return self.e(inner(n)[0])

    def e_BinaryOperator(self, n):
        a, b = inner(n)
        op = n['opcode']
        if op in ('->*', '.*'):
            fld = self.member_ptr_name(b)
            self.rules['pointer-to-member application -> field access'] += 1
            return '(%s%s%s)' % (self.e(a), '->' if op == '->*' else '.', fld)
        if op == ',': return '(%s, %s)' % (self.e(a), self.e(b))
        if op == '=' and self.is_raw_subscript(a):
            base, idx = inner(strip_casts(a))
            self.rules['SharedMemory::raw[i] = v -> VERIF_RAW_WRITE(raw, i, v)'] += 1
            return 'VERIF_RAW_WRITE(%s, %s, %s)' % (self.e(base), self.e(idx), self.e(b))
        if op in ('/', '%') and strip_casts(b, ('ImplicitCastExpr', 'ParenExpr', 'CStyleCastExpr', 'CXXStaticCastExpr', 'ConstantExpr')).get('kind') != 'IntegerLiteral' \
           and 'value' not in b and self.ctype(n['type']) == 'u64':
            self.rules['a / b, a % b with non-constant b -> VERIF_UDIV / VERIF_UMOD'] += 1
            return '%s(%s, %s)' % ('VERIF_UDIV' if op == '/' else 'VERIF_UMOD', self.e(a), self.e(b))
        if op == '*' and self.curfn and self.in_global_init_zero() and \
           strip_casts(b, ('ImplicitCastExpr', 'ParenExpr', 'CStyleCastExpr', 'CXXStaticCastExpr', 'ConstantExpr')).get('kind') != 'IntegerLiteral' and \
           strip_casts(a, ('ImplicitCastExpr', 'ParenExpr', 'CStyleCastExpr', 'CXXStaticCastExpr', 'ConstantExpr')).get('kind') != 'IntegerLiteral':
            ct = self.ctype(n['type']).replace('const ', '').strip()
            if ct in ('int', 'u32', 'u64', 's32', 's64', 'unsigned int', 'long', 'unsigned long'):
                self.rules['a * b (both non-constant) -> VERIF_MUL(T, a, b)'] += 1
                return 'VERIF_MUL(%s, %s, %s)' % (ct, self.e(a), self.e(b))
        return '(%s %s %s)' % (self.e(a), op, self.e(b))
    def in_global_init_zero(self):
        return not getattr(self, 'in_global_init', 0)
    def member_ptr_name(self, n):
        if n['kind'] == 'DeclRefExpr': return n['referencedDecl']['name']
        for c in inner(n):
            r = self.member_ptr_name(c)
            if r: return r
        return None
    e_CompoundAssignOperator = e_BinaryOperator
    def e_UnaryOperator(self, n):
        sub = inner(n)[0]
        op = n['opcode']
        if op == '&' and strip_casts(sub).get('kind') == 'DeclRefExpr' and strip_casts(sub)['referencedDecl'].get('kind') in ('CXXMethodDecl', 'FieldDecl'):
            raise Unsupported('address of member')
        x = self.e(sub)
        if n.get('isPostfix'): return '(%s%s)' % (x, op)
        if op == '*' and x.startswith('(&'):
            return '(' + x[2:]
        return '(%s%s)' % (op, x)
    def e_ConditionalOperator(self, n):
        c, a, b = inner(n)
        if b['kind'] == 'CallExpr' and self.callee_name(b) == 'Assert':
            args = inner(b)[1:]
            self.rules['ASSERT(c) -> VERIF_ASSERT'] += 1
            return 'VERIF_ASSERT(%s, %s, %s)' % (self.e(c), self.e(args[0]), self.e(args[2]))
        return '(%s ? %s : %s)' % (self.e(c), self.e(a), self.e(b))
    def callee_decl(self, n):
        c = inner(n)[0]
        while c['kind'] in ('ImplicitCastExpr', 'ParenExpr'):
            c = inner(c)[0]
        if c['kind'] == 'DeclRefExpr': return c['referencedDecl']
        if c['kind'] == 'MemberExpr': return {'id': c['referencedMemberDecl'], 'name': c['name']}
        return None
    def callee_name(self, n):
        d = self.callee_decl(n)
        return d and d.get('name')

    def e_DeclRefExpr(self, n):
        rd = n['referencedDecl']; k = rd['kind']
        if k == 'EnumConstantDecl': return self.enum_const(rd)
        if k == 'VarDecl' and rd['id'] not in self.byid and rd['name'] == 'digits':
            self.rules['std::numeric_limits<unsigned long long>::digits -> 64'] += 1
            return '64'
        if k == 'VarDecl' and self.is_global_var(rd['id']):
            return self.use_global(rd['id'])
        if k in ('VarDecl', 'ParmVarDecl', 'BindingDecl'):
            d = self.byid.get(rd['id'], rd)
            nm = self.local_name(rd)
            if rd['id'] in self.decoder_vars: return nm
            if k != 'BindingDecl' and self.is_ref(d.get('type', rd.get('type', {'qualType': ''}))):
                return '(*%s)' % nm
            if k == 'BindingDecl':
                return self.binding(rd)
            return nm
        if k in ('FunctionDecl', 'CXXMethodDecl'):
            return self.use_func(rd['id'])
        if k == 'NonTypeTemplateParmDecl':
            raise Unsupported('uninstantiated template parameter')
        raise Unsupported('declref ' + k)
    def local_name(self, rd):
        nm = rd.get('name') or ('_anon_' + rd['id'][-5:])
        return self.renames.get(rd['id'], nm) if hasattr(self, 'renames') else nm
    def binding(self, rd):
        b = self.bindings.get(rd['id']) if hasattr(self, 'bindings') else None
        if b is None: raise Unsupported('binding decl ' + rd.get('name', ''))
        return b
    def is_global_var(self, i):
        d = self.byid.get(i)
        if d is None: return False
        p = self.parent.get(i)
        while p is not None:
            if p.get('kind') in self.FUNC_KINDS + ('LambdaExpr',): return d.get('storageClass') == 'static' and False
            p = self.parent.get(p.get('id')) if p.get('id') else None
        return True
    def use_global(self, i):
        d = self.byid[i]
        nm = self.cident(self.tname(i), decl=True)
        if nm not in self.globals:
            self.globals[nm] = None
            t = qt(d['type'])
            ins = [c for c in inner(d) if not c['kind'].endswith('Attr')]
            m = re.match(r'(.*)\[(\d*)\]$', t)
            save = (self.curfn, self.loopno)
            if m:
                et = self.ctype_s(m.group(1))
                self.globals[nm] = 'static %s %s[%s] = %s;' % (et, nm, m.group(2), self.const_init(ins[0]) if ins else '{0}')
            else:
                self.in_global_init = getattr(self, 'in_global_init', 0) + 1
                try:
                    init = self.const_init(ins[0]) if ins else '0'
                finally:
                    self.in_global_init -= 1
                self.globals[nm] = 'static %s %s = %s;' % (self.ctype_s(t), nm, init)
                if not hasattr(self, 'global_scalar_init'): self.global_scalar_init = {}
                self.global_scalar_init[nm] = '((%s)%s)' % (self.ctype_s(t).replace('const ', ''), init)
            self.globals[nm] = self.globals.pop(nm)      # after the constants its initialiser uses
            self.curfn, self.loopno = save
            self.rules['namespace/class-scope constant -> static const global'] += 1
        if getattr(self, 'in_global_init', 0) and nm in getattr(self, 'global_scalar_init', {}):
            # inside another constant's initialiser: substitute the value expression, so that every initialiser is a constant
            # expression (CBMC runs non-constant static initialisers in symbol order, not dependency order)
            return self.global_scalar_init[nm]
        return nm
    def const_init(self, n):
        s = strip_casts(n)
        if s.get('kind') == 'CallExpr' and self.callee_name(s) in ('max', 'min') and not inner(s)[1:]:
            t = self.ctype(n['type']).replace('const ', '')
            mx = {'u64': '18446744073709551615ull', 'u32': '4294967295u', 'u16': '65535', 's64': '9223372036854775807ll'}
            self.rules['std::numeric_limits<T>::max() -> constant'] += 1
            return mx[t]
        return self.e(n)

    def e_MemberExpr(self, n):
        b = inner(n)[0]
        md = self.byid.get(n['referencedMemberDecl'])
        if md is not None and md.get('kind') == 'VarDecl':
            return self.use_global(md['id'])
        if md is not None and md.get('kind') == 'EnumConstantDecl':
            return self.enum_const(md)
        base = self.e(b)
        arrow = n.get('isArrow')
        if arrow and base.startswith('(&') and base.endswith(')') and self.balanced(base[2:-1]):
            base, arrow = base[2:-1], False
        s = '%s%s%s' % (base, '->' if arrow else '.', n['name'])
        if md is not None and md.get('kind') == 'FieldDecl' and self.is_ref(md['type']):
            self.rules['reference member -> pointer member'] += 1
            return '(*%s)' % s
        return s
    def balanced(self, s):
        d = 0
        for ch in s:
            if ch == '(': d += 1
            if ch == ')':
                d -= 1
                if d < 0: return False
        return d == 0
    def is_raw_subscript(self, n):
        n = strip_casts(n)
        if n.get('kind') != 'ArraySubscriptExpr': return False
        sa = strip_casts(inner(n)[0])
        return sa.get('kind') == 'MemberExpr' and sa.get('name') == 'raw' and '*' in qt(sa['type'])
    def e_ArraySubscriptExpr(self, n):
        a, b = inner(n)
        if self.is_raw_subscript(n):
            # SharedMemory::raw points at the 0x80000-byte DSP memory: every access goes through a checked accessor
            self.rules['SharedMemory::raw[i] -> VERIF_RAW_READ(raw, i) (bounds = outcome/obligation)'] += 1
            return 'VERIF_RAW_READ(%s, %s)' % (self.e(a), self.e(b))
        return '%s[%s]' % (self.e(a), self.e(b))
    def e_CXXDefaultArgExpr(self, n):
        raise Unsupported('default arg outside call')
    def e_CXXDefaultInitExpr(self, n):
        raise Unsupported('default member init outside record init')

    def record_of_type(self, t):
        return self.rec_by_norm.get(self.norm(qt(t).replace('const ', '')))

    def e_CXXConstructExpr(self, n):
        ins = inner(n)
        q = qt(n['type']).replace('const ', '')
        ct = self.ctype(n['type']).replace('const ', '')
        if len(ins) == 1 and self.ctype(ins[0]['type']).replace('const ', '').rstrip(' *') == ct and \
           ('&' in n.get('ctorType', {}).get('qualType', '&')):
            return self.e(ins[0])          # copy / move of a value type
        if ct.startswith('tuple_'):
            src = strip_casts(ins[0]) if ins else None
            while src is not None and src.get('kind') in ('CXXConstructExpr', 'CXXFunctionalCastExpr') and len(inner(src)) == 1:
                src = strip_casts(inner(src)[0])
            if src is not None and src.get('kind') == 'CallExpr' and self.callee_name(src) == 'make_tuple':
                ets = self.rec_fields[ct][1]
                args = inner(src)[1:]
                self.rules['std::make_tuple(a, b) -> compound literal'] += 1
                return '((%s){%s})' % (ct, ', '.join('((%s)%s)' % (t, self.e(a)) for t, a in zip(ets, args)))
            if src is not None and self.ctype(src['type']).replace('const ', '') == ct:
                return self.e(src)
            raise Unsupported('tuple construction')
        if ct == 'verif_bitset16':
            self.rules['std::bitset<16>(v) -> (u16)v'] += 1
            return '((verif_bitset16)%s)' % (self.e(ins[0]) if ins else '0')
        if q.startswith('std::atomic<'):
            return self.e(ins[0]) if ins else 'VERIF_INDETERMINATE(%s)' % ct
        if (ct.startswith('verif_queue_') or ct in ('verif_fn', 'verif_vec_ptr')) and not ins:
            return '((%s){0})' % ct
        if ct == 'verif_fn' and ins:
            self.rules['std::function construction from a callable -> .set = 1'] += 1
            return '((verif_fn){1})'
        if ct.startswith('arr_'):
            if not ins: return self.fresh_value(q, value_init=bool(n.get('zeroing') or n.get('list')))
        rd = self.record_of_type(n['type'])
        if rd is None:
            raise Unsupported('construct ' + q)
        if not ins:
            ctor = self.find_ctor(rd, n)
            if ctor is None or ctor.get('isImplicit') or not has_body(ctor) or ctor.get('explicitlyDefaulted'):
                # implicit / defaulted default constructor: value- or default-initialisation
                vi = bool(n.get('zeroing')) or n.get('kind') in ('CXXTemporaryObjectExpr',) or n.get('list')
                return self.fresh_value(q, value_init=vi)
        ctor = self.find_ctor(rd, n)
        if ctor is None: raise Unsupported('ctor ' + q)
        return '%s(%s)' % (self.use_func(ctor['id']), ', '.join(self.call_args(ins, ctor)))
    e_CXXTemporaryObjectExpr = e_CXXConstructExpr

    def find_ctor(self, rd, n):
        want = n.get('ctorType', {}).get('qualType')
        nargs = len(inner(n))
        best = None
        for c in rd.get('inner', []):
            cands = [c]
            if c.get('kind') == 'FunctionTemplateDecl':
                cands = [x for x in c.get('inner', []) if x.get('kind') == 'CXXConstructorDecl']
            for cand in cands:
                if cand.get('kind') != 'CXXConstructorDecl': continue
                cand = self.byid.get(self.defn.get(cand['id'], cand['id']), cand)
                if want is not None and cand['type']['qualType'] == want:
                    return cand
                ps = [p for p in cand.get('inner', []) if p.get('kind') == 'ParmVarDecl']
                if want is None and len(ps) == nargs: best = cand
        return best

    def e_InitListExpr(self, n):
        ins = inner(n)
        q = qt(n['type']).replace('const ', '')
        ct = None
        try: ct = self.ctype_s(q)
        except Unsupported: pass
        if ct and ct.startswith('arr_'):
            # std::array<T,N>{{...}}: one nested list (the e member), missing elements value-initialised
            et, cnt = self.rec_fields[ct][1], self.rec_fields[ct][2]
            elems = ins
            if len(ins) == 1 and ins[0]['kind'] == 'InitListExpr': elems = inner(ins[0])
            filler = None
            src = ins[0] if (len(ins) == 1 and ins[0]['kind'] == 'InitListExpr') else n
            fl = [c for c in src.get('array_filler', []) if isinstance(c, dict) and c.get('kind')]
            vals = [self.e(x) for x in elems if x['kind'] != 'ImplicitValueInitExpr']
            m = re.match(r'std::array<(.*), (\d+)>$', q)
            while len(vals) < cnt:
                vals.append(self.fresh_value(m.group(1), value_init=True) if m else '0')
            return '((%s){{%s}})' % (ct, ', '.join(vals))
        if not ins and ct and (ct.replace('const ', '') in self.PRIM.values() or ct.replace('const ', '') in self.enums or ct.endswith('*')):
            return '0'
        rd = self.record_of_type(n['type']) if ct else None
        if rd is not None:
            cn = self.emit_record(rd)
            vals = [self.e(x) for x in ins]
            flds = [f for f in self.rec_fields.get(cn, []) if f[3] != 'dropped']
            parts = ['.%s = %s' % (f[1], v) for f, v in zip(flds, vals)]
            return '((%s){%s})' % (cn, ', '.join(parts) or '0')
        return '{' + ', '.join(self.e(x) for x in ins) + '}'
    def e_ImplicitValueInitExpr(self, n):
        q = qt(n['type'])
        try:
            ct = self.ctype_s(q)
        except Unsupported:
            return '0'
        if ct in self.PRIM.values() or ct in self.enums: return '0'
        return self.fresh_value(q, value_init=True)
    def e_CXXScalarValueInitExpr(self, n): return '0'
    def e_CXXThrowExpr(self, n):
        self.rules['throw UnimplementedException() -> VERIF_THROW()'] += 1
        return 'VERIF_THROW()'
    def e_UnaryExprOrTypeTraitExpr(self, n):
        return 'sizeof(%s)' % (self.ctype(n['argType']) if 'argType' in n else self.e(inner(n)[0]))

    # value of a freshly constructed object: from the in-class default member initialisers
    def fresh_value(self, q, value_init):
        ct = self.ctype_s(q)
        if ct in self.PRIM.values() or ct in self.enums or ct.endswith('*'):
            return '0' if value_init else 'VERIF_INDETERMINATE(%s)' % ct
        key = (ct, value_init)
        fn = 'fresh_%s%s' % (ct, '' if value_init else '__defaultinit')
        if key not in self.fresh_done:
            self.fresh_done[key] = fn
            self.rules['T() / default member initialisers -> fresh_T()'] += 1
            body = ['    %s v;' % ct]
            info = self.rec_fields.get(ct)
            if info and info[0] == 'array':
                m = re.match(r'std::array<(.*), (\d+)>$', q.strip())
                et, cnt = info[1], info[2]
                ev = self.fresh_value(m.group(1), value_init)
                body.append('    for (int verif_i = 0; verif_i < %d; ++verif_i) v.e[verif_i] = %s;' % (cnt, ev))
            elif ct.startswith('verif_queue_') or ct in ('verif_bitset16', 'verif_vec_ptr'):
                body = ['    %s v = {0};' % ct]
            elif ct == 'verif_fn':
                body = ['    %s v = {0};' % ct]
            else:
                rd = self.rec_by_norm.get(self.norm(q))
                if rd is None: raise Unsupported('fresh value of ' + q)
                userctor = [c for c in rd.get('inner', []) if c.get('kind') == 'CXXConstructorDecl' and not c.get('isImplicit')
                            and not [p for p in c.get('inner', []) if p.get('kind') == 'ParmVarDecl'] and not c.get('explicitlyDefaulted')]
                vi = value_init and not userctor
                for k, b in enumerate(rd.get('bases', [])):
                    if (ct, k) in [(ct, kk) for (_, _, kk) in self.rec_bases.get(ct, [])]:
                        body.append('    v.base_%d = %s;' % (k, self.fresh_value(qt(b['type']), vi)))
                save = (self.curfn,)
                for c in rd.get('inner', []):
                    if c.get('kind') != 'FieldDecl': continue
                    fq = qt(c['type'])
                    if self.field_dropped(fq): continue
                    if fq.endswith('&'):
                        body.append('    v.%s = 0; /* reference member: bound by the constructor */' % c['name'])
                        continue
                    init = [x for x in inner(c) if not x['kind'].endswith('Attr')]
                    if init:
                        body.append('    v.%s = %s;' % (c['name'], self.init_expr(init[0], fq)))
                    else:
                        body.append('    v.%s = %s;' % (c['name'], self.fresh_value(fq, vi)))
            body.append('    return v;')
            self.protos[fn] = 'static inline %s %s(void);' % (ct, fn)
            self.out_funcs[fn] = '/* value of a %s-initialised %s, from its default member initialisers */\nstatic inline %s %s(void)\n{\n%s\n}\n' % (
                'value' if value_init else 'default', q, ct, fn, '\n'.join(body))
            self.func_src[fn] = ('fresh ' + q, '', 0)
        return fn + '()'

    def init_expr(self, n, fq):
        """initialiser of a field or variable of type fq"""
        return self.e(n)

    def call_args(self, args, cd, skip_first=0):
        out = []
        params = [p for p in (cd or {}).get('inner', []) if p.get('kind') == 'ParmVarDecl']
        for idx, a in enumerate(args):
            if a['kind'] == 'CXXDefaultArgExpr':
                p = params[idx]
                init = inner(p)
                self.rules['default argument -> explicit argument'] += 1
                if qt(p['type']).replace('const ', '').startswith('std::optional<'):
                    out.append('((verif_optional){0})')       # = std::nullopt
                else:
                    out.append(self.e(init[0]))
            else:
                if idx < len(params) and self.is_ref(params[idx]['type']):
                    out.append(self.addr(a))
                else:
                    out.append(self.e(a))
        return out

    def addr(self, a):
        """address of the object an lvalue (or materialised temporary) denotes"""
        s = strip_casts(a, ('ImplicitCastExpr', 'ParenExpr', 'ExprWithCleanups', 'CXXBindTemporaryExpr'))
        if s.get('kind') == 'MaterializeTemporaryExpr' or (s.get('valueCategory') == 'prvalue'):
            x = self.e(a)
            if self.pre_stmts is None: raise Unsupported('temporary bound to reference outside statement context')
            t = self.fresh()
            ty = s['type']; w = a
            while w.get('kind') in ('ImplicitCastExpr', 'ParenExpr', 'ExprWithCleanups', 'CXXBindTemporaryExpr', 'MaterializeTemporaryExpr'):
                if w['kind'] == 'ImplicitCastExpr' and w.get('castKind') in ('DerivedToBase', 'UncheckedDerivedToBase'):
                    ty = w['type']; break            # the temporary holds the base subobject the cast selects
                w = inner(w)[0]
            self.pre_stmts.append('%s %s = %s;' % (self.ctype(ty).replace('const ', ''), t, x))
            self.rules['temporary bound to reference parameter -> named local'] += 1
            return '&' + t
        x = self.e(a)
        if x.startswith('(*') and x.endswith(')') and self.balanced(x[2:-1]):
            return x[2:-1]
        return '&' + x

    STD_FUNCS = {'swap': 'VERIF_SWAP', 'exchange': 'VERIF_EXCHANGE', 'min': 'VERIF_MIN', 'max': 'VERIF_MAX'}

    def e_CallExpr(self, n):
        ins = inner(n)
        rd = self.callee_decl(n)
        args = ins[1:]
        name = rd.get('name') if rd else None
        d = self.byid.get(rd['id']) if rd else None
        if d is not None and not self.in_repo(d): d = None
        if d is None or (name or '').startswith('__builtin'):
            if name in ('printf', 'fprintf', 'puts'):
                self.dropped['printf diagnostic'] += 1
                return '((void)0)'
            if name == 'move' or name == 'forward':
                self.dropped['std::move'] += 1
                return self.e(args[0])
            if name == 'make_tuple':
                ct = self.ctype(n['type']).replace('const ', '')
                ets = self.rec_fields[ct][1]
                self.rules['std::make_tuple(a, b) -> compound literal'] += 1
                return '((%s){%s})' % (ct, ', '.join('((%s)%s)' % (t, self.e(a)) for t, a in zip(ets, args)))
            if name in ('copy', 'copy_backward'):
                et = self.ctype(args[0]['type']).replace('const ', '').rstrip(' *').strip()
                fn = 'verif_%s_%s' % (name, re.sub(r'\W+', '_', et))
                if fn not in self.out_funcs:
                    self.rules['std::%s on array iterators -> element loop' % name] += 1
                    if name == 'copy':
                        body = '    while (first != last) { *dst = *first; ++dst; ++first; }\n    return dst;'
                    else:
                        body = '    while (first != last) { --dst; --last; *dst = *last; }\n    return dst;'
                    self.protos[fn] = 'static inline %s *%s(%s *first, %s *last, %s *dst);' % (et, fn, et, et, et)
                    self.out_funcs[fn] = '/* std::%s */\nstatic inline %s *%s(%s *first, %s *last, %s *dst)\n{\n%s\n}\n' % (name, et, fn, et, et, et, body)
                    self.func_src[fn] = ('std::' + name, '', 0)
                if self.curfn: self.calls[self.curfn].add(fn)
                return '%s(%s)' % (fn, ', '.join(self.e(a) for a in args))
            if name == 'exchange':
                ct = self.ctype(n['type']).replace('const ', '').strip()
                if ct not in ('bool', 'u8', 'u16', 'u32', 'u64'): raise Unsupported('std::exchange on ' + ct)
                self.rules['std::exchange -> verif_exchange_<type>'] += 1
                return 'verif_exchange_%s(&(%s), %s)' % (ct, self.e(args[0]), self.e(args[1]))
            if name in self.STD_FUNCS:
                self.rules['std::%s -> %s' % (name, self.STD_FUNCS[name])] += 1
                return '%s(%s)' % (self.STD_FUNCS[name], ', '.join(self.e(a) for a in args))
            if name == 'memset':
                self.rules['std::memset -> VERIF_MEMSET'] += 1
                return 'VERIF_MEMSET(%s)' % ', '.join(self.e(a) for a in args)
            if name and name.startswith('__builtin'):
                return '%s(%s)' % (name, ', '.join(self.e(a) for a in args))
            if name == 'abort':
                return 'VERIF_ASSERT(0, "abort", 0)'
            if name in ('any_of', 'all_of', 'none_of') and len(args) == 3 and strip_casts(args[2]).get('kind') == 'LambdaExpr':
                return self.algo_pred(name, args)
            if name == 'size' and len(args) == 1:
                m = re.search(r'\[(\d+)\]', qt(strip_casts(args[0])['type']))
                if m:
                    self.rules['std::size(T[N]) -> N'] += 1
                    return '((u64)%sull)' % m.group(1)
            raise Unsupported('external call ' + str(name))
        if name == 'Assert':
            self.rules['UNREACHABLE() -> VERIF_ASSERT(0)'] += 1
            return 'VERIF_ASSERT(0, %s, %s)' % (self.e(args[0]), self.e(args[2]))
        return self.deref_if_ref(d, '%s(%s)' % (self.use_func(d['id']), ', '.join(self.call_args(args, self.byid[self.defn.get(d['id'], d['id'])]))))

    def deref_if_ref(self, d, callx):
        ft = d.get('type', {}).get('qualType', '')
        ret = ft[:ft.index('(')].strip() if '(' in ft else ''
        if ret.endswith('&'):
            self.rules['call of a function returning a reference -> dereferenced pointer'] += 1
            return '(*%s)' % callx
        return callx

    def in_repo(self, d):
        return d.get('id') in self.qual and d.get('id') not in self.external_ids and not (self.qual[d['id']] and self.qual[d['id']][0] in astload.SKIP_NS)

    def e_CXXMemberCallExpr(self, n):
        ins = inner(n)
        me = ins[0]
        while me['kind'] != 'MemberExpr': me = inner(me)[0]
        obj = inner(me)[0]
        mid = me['referencedMemberDecl']
        d = self.byid.get(mid)
        objtype = qt(obj['type'])
        args = ins[1:]
        if d is None or not self.in_repo(d) or objtype.replace('const ', '').startswith('Matcher<'):
            return self.std_member_call(me['name'], obj, objtype, args, n, me)
        dd = self.byid[self.defn.get(mid, mid)]
        if me.get('isArrow'):
            objx = self.e(obj)
        else:
            objx = self.addr(obj)
        if dd.get('virtual') and (dd.get('pure') or not has_body(dd) or self.has_overriders(dd)):
            return self.virtual_call(dd, objx, args)
        return self.deref_if_ref(dd, '%s(%s)' % (self.use_func(mid), ', '.join([objx] + self.call_args(args, dd))))

    def has_overriders(self, d):
        return bool(self.overriders(d))
    def overriders(self, d):
        key = d['id']
        if key in self.virtual_dispatch: return self.virtual_dispatch[key]
        res = []
        base_ids = {d['id'], self.defn.get(d['id'], d['id'])}
        for i, n in self.byid.items():
            if n.get('kind') == 'CXXMethodDecl' and n.get('name') == d.get('name') and i not in base_ids:
                # clang JSON has no overridden_methods in v14 dumps for all cases; use OverrideAttr + base check
                if any(c.get('kind') == 'OverrideAttr' for c in n.get('inner', [])) and not n.get('previousDecl'):
                    res.append(n)
        self.virtual_dispatch[key] = res
        return res
    def virtual_call(self, d, objx, args):
        ovs = self.overriders(d)
        base_rec = self.cident(self.tname(d['id']).rsplit('::', 1)[0], decl=True)
        fn = 'VDISPATCH_%s_%s' % (base_rec, d['name'])
        self.rules['virtual call -> tag switch over overriders'] += 1
        if fn not in self.out_funcs:
            self.out_funcs[fn] = None
            rt = self.ctype_s(d['type']['qualType'][:d['type']['qualType'].index('(')])
            ps = [(self.ctype(p['type']), p.get('name') or 'a%d' % k) for k, p in enumerate(x for x in d.get('inner', []) if x.get('kind') == 'ParmVarDecl')]
            const = 'const ' if d['type']['qualType'].rstrip().endswith('const') else ''
            sig = '%s %s(%s%s *self%s)' % (rt, fn, const, base_rec, ''.join(', %s %s' % p for p in ps))
            lines = ['    switch (self->verif_tag) {']
            for ov in ovs:
                ovd = self.byid[self.defn.get(ov['id'], ov['id'])]
                cls = self.cident(self.tname(ov['id']).rsplit('::', 1)[0], decl=True)
                self.ctype_s(self.qname(ov['id']).rsplit('::', 1)[0])
                call = '%s((%s%s *)self%s)' % (self.use_func(ovd['id']), const, cls, ''.join(', ' + p[1] for p in ps))
                lines.append('    case VERIF_TAG_%s: %s%s;%s' % (cls, 'return ' if rt != 'void' else '', call, '' if rt != 'void' else ' return;'))
            # a harness may supply an abstract implementation (a contract-level model of the overriders that are outside this unit)
            lines.append('#ifdef VERIF_ABSTRACT_%s_%s' % (base_rec, d['name']))
            lines.append('    default: %sVERIF_ABSTRACT_%s_%s(self%s);%s' % ('return ' if rt != 'void' else '', base_rec, d['name'], ''.join(', ' + p[1] for p in ps), '' if rt != 'void' else ' return;'))
            lines.append('#else')
            lines.append('    default: VERIF_MODEL_ASSERT(0, "virtual dispatch: unknown dynamic type");%s' % (' return 0;' if rt != 'void' else ' return;'))
            lines.append('#endif')
            lines.append('    }')
            self.protos[fn] = sig + ';'
            self.out_funcs[fn] = '/* virtual dispatch of %s */\n%s\n{\n%s\n}\n' % (self.qname(d['id']), sig, '\n'.join(lines))
            self.func_src[fn] = ('virtual dispatch ' + self.qname(d['id']), '', 0)
            self.vtags = getattr(self, 'vtags', [])
            for ov in ovs:
                cls = self.cident(self.tname(ov['id']).rsplit('::', 1)[0], decl=True)
                if cls not in self.vtags: self.vtags.append(cls)
        if self.curfn: self.calls[self.curfn].add(fn)
        return '%s(%s)' % (fn, ', '.join([objx] + [self.e(a) for a in args]))

    def fn_field(self, obj):
        fld = obj
        while fld['kind'] != 'MemberExpr': fld = inner(fld)[0]
        owner = inner(fld)[0]
        ot = self.ctype(owner['type']).replace(' *', '').replace('const ', '').strip()
        ox = self.e(owner) if fld.get('isArrow') else self.addr(owner)
        return fld, ot, ox

    def std_member_call(self, name, obj, objtype, args, n, me):
        ot = objtype.replace('const ', '')
        if ot.startswith('Matcher<'):
            ox = self.e(obj)
            if name == 'NeedExpansion':
                self.rules['Matcher::NeedExpansion -> VERIF_DECODER_NEED_EXPANSION'] += 1
                return 'VERIF_DECODER_NEED_EXPANSION(%s)' % ox
            if name == 'call':
                self.rules['Matcher::call -> VERIF_DECODER_CALL'] += 1
                return 'VERIF_DECODER_CALL(%s, %s)' % (ox, ', '.join([self.addr(args[0])] + [self.e(a) for a in args[1:]]))
            raise Unsupported('Matcher member ' + name)
        if ot.startswith('std::atomic<') or ot.startswith('std::__atomic_base<'):
            ox = self.e(obj)
            if name == 'exchange':
                self.rules['std::atomic::exchange -> VERIF_EXCHANGE (sequential)'] += 1
                return 'VERIF_EXCHANGE(%s, %s)' % (ox, self.e(args[0]))
            if name in ('load',): return ox
            if name.startswith('operator '): return ox
            if name in ('store',): return '(%s = %s)' % (ox, self.e(args[0]))
            if name.startswith('operator '): return ox
        if ot.startswith('std::array<'):
            if name == 'size':
                m = re.search(r', (\d+)>$', ot); return m.group(1) + 'ull'
            if name in ('data', 'begin'):
                return '(&%s.e[0])' % self.e(obj)
            if name == 'end':
                m = re.search(r', (\d+)>$', ot); return '(&%s.e[0] + %s)' % (self.e(obj), m.group(1))
        if ot.startswith('std::queue<'):
            ox = self.addr(obj)
            self.rules['std::queue::%s -> VERIF_QUEUE_%s' % (name, name.upper())] += 1
            if name in ('empty', 'size', 'front', 'pop'):
                return 'VERIF_QUEUE_%s(%s)' % (name.upper(), ox)
            if name == 'push':
                return 'VERIF_QUEUE_PUSH(%s, %s)' % (ox, self.e(args[0]))
        if ot.startswith('std::bitset<16>::reference') and name == 'operator bool':
            self.rules['std::bitset<16>::reference -> bit value'] += 1
            return '(%s != 0)' % self.e(obj)
        if ot.startswith('std::bitset<16>'):
            ox = self.e(obj)
            self.rules['std::bitset<16>::%s -> u16 op' % name] += 1
            if name == 'to_ulong': return '((u64)%s)' % ox
        if ot.startswith('std::basic_string<char') or ot in ('std::string',) or ot.startswith('std::__cxx11::basic_string<char'):
            if name in ('length', 'size'):
                self.rules['std::string::length -> .len'] += 1
                return '%s.len' % self.e(obj)
        if ot.startswith('std::unordered_set<') or ot.startswith('std::unordered_map<'):
            so = strip_casts(obj)
            tab = self.static_tables.get(so.get('referencedDecl', {}).get('id')) if so.get('kind') == 'DeclRefExpr' else None
            if tab is None: raise Unsupported('unordered container that is not a constant static table')
            if self.pre_stmts is None: raise Unsupported('table lookup outside statement context')
            key = self.fresh('key')
            self.pre_stmts.append('%s %s = %s;' % (self.ctype(args[0]['type']).replace('const ', ''), key, self.e(args[0])))
            if name == 'count' and tab[0] == 'set':
                self.rules['constant std::unordered_set::count -> comparison chain'] += 1
                return '((u64)(%s))' % ' || '.join('(%s == %s)' % (key, k) for k in tab[1])
            if name == 'at' and tab[0] == 'map':
                self.rules['constant std::unordered_map::at -> selection chain (missing key = std::out_of_range outcome)'] += 1
                x = 'VERIF_OUT_OF_RANGE(%s)' % self.ctype(n['type']).replace('const ', '')
                for k, v in reversed(tab[1]):
                    x = '(%s == %s ? %s : %s)' % (key, k, v, x)
                return x
            raise Unsupported('unordered container member ' + name)
        if ot.startswith('std::function<') and name == 'operator bool':
            fld, own, ox = self.fn_field(obj)
            self.rules['std::function operator bool -> .set flag'] += 1
            return '(%s.set != 0)' % self.e(obj)
        if ot.startswith('std::unique_ptr<') and name == 'get':
            return self.e(obj)
        if ot.startswith('std::vector<') and ot.rstrip('>').rstrip().endswith('*') and name == 'push_back':
            self.rules['std::vector<T*>::push_back -> VERIF_VEC_PUSH'] += 1
            return 'VERIF_VEC_PUSH(%s, %s)' % (self.addr(obj), self.e(args[0]))
        raise Unsupported('std member call %s on %s' % (name, objtype))

    def e_CXXOperatorCallExpr(self, n):
        ins = inner(n)
        rd = self.callee_decl(n)
        name = rd['name']
        args = ins[1:]
        t0 = qt(args[0]['type']).replace('const ', '')
        d = self.byid.get(rd['id'])
        if d is not None and self.in_repo(d) and d.get('kind') in self.FUNC_KINDS and not d.get('isImplicit'):
            dd = self.byid[self.defn.get(d['id'], d['id'])]
            if dd.get('kind') == 'CXXMethodDecl':
                return '%s(%s)' % (self.use_func(dd['id']), ', '.join([self.addr(args[0])] + self.call_args(args[1:], dd)))
            return '%s(%s)' % (self.use_func(dd['id']), ', '.join(self.call_args(args, dd)))
        if t0.startswith('std::atomic<') or t0.startswith('std::__atomic_base<'):
            self.rules['std::atomic operator -> plain operation (sequential)'] += 1
            if name == 'operator=': return '(%s = %s)' % (self.e(args[0]), self.e(args[1]))
            if name.startswith('operator ') : return self.e(args[0])
        if name == 'operator[]' and t0.startswith('std::array<'):
            return '%s.e[%s]' % (self.e(args[0]), self.e(args[1]))
        if name == 'operator*' and (t0.startswith('std::shared_ptr<') or t0.startswith('std::__shared_ptr_access<')) and getattr(self, 'curfn', None) == 'vmmio':
            self.rules['*shared_ptr<u16> (cell backing word) -> *pointer'] += 1
            return '(m->st[%s])' % self.e(strip_casts(args[0]))
        if name == 'operator[]' and (t0.startswith('std::basic_string<char') or t0 == 'std::string' or t0.startswith('std::__cxx11::basic_string<char')):
            self.rules['std::string::operator[] -> .p[i]'] += 1
            return '%s.p[%s]' % (self.e(args[0]), self.e(args[1]))
        if name == 'operator[]' and t0.startswith('std::bitset<16>'):
            self.rules['std::bitset<16>::operator[] -> bit test'] += 1
            return '(((%s) >> (%s)) & 1)' % (self.e(args[0]), self.e(args[1]))
        if t0.startswith('std::bitset<16>'):
            self.rules['std::bitset<16> operator -> u16 op'] += 1
            if name == 'operator~': return '((verif_bitset16)~%s)' % self.e(args[0])
            if name in ('operator&=', 'operator|=', 'operator^='):
                return '(%s %s %s)' % (self.e(args[0]), name[8:], self.e(args[1]))
            if name == 'operator=':
                return '(%s = %s)' % (self.e(args[0]), self.e(args[1]))
        if name == 'operator()' and t0.startswith('std::function<'):
            fld, ot, ox = self.fn_field(args[0])
            if getattr(self, 'mmio_cur_slot', None) is not None and ot == 'BitFieldSlot' and fld['name'] in ('set', 'get'):
                tgt = self.mmio_slots[self.mmio_cur_slot][2 if fld['name'] == 'set' else 3]
                self.rules['BitFieldSlot closure invocation -> the slot\'s own closure function'] += 1
                if tgt is None: return '(VERIF_FN_CHECK(%s), (u16)0)' % self.e(args[0])
                return '%s(%s)' % (tgt, ', '.join(['m'] + [self.e(a) for a in args[1:]]))
            sn = 'CB_%s_%s' % (ot, fld['name'])
            rt = self.ctype(n['type'])
            ats = [self.ctype(a['type']).replace('const ', '') for a in args[1:]]
            self.stubs[sn] = '%s %s(%s)' % (rt, sn, ', '.join(['%s *self' % ot] + ['%s a%d' % (t, i) for i, t in enumerate(ats)]))
            self.rules['std::function invocation -> CB_<Class>_<field> stub'] += 1
            if self.curfn: self.calls[self.curfn].add(sn)
            return '(VERIF_FN_CHECK(%s), %s(%s))' % (self.e(args[0]), sn, ', '.join([ox] + [self.e(a) for a in args[1:]]))
        if name == 'operator=' and strip_casts(args[0]).get('kind') == 'CallExpr' and self.callee_name(strip_casts(args[0])) == 'tie':
            targets = inner(strip_casts(args[0]))[1:]
            ct = self.ctype(strip_casts(args[1])['type']).replace('const ', '')
            if self.pre_stmts is None: raise Unsupported('std::tie outside statement context')
            tmp = self.fresh('tie')
            self.pre_stmts.append('%s %s = %s;' % (ct, tmp, self.e(args[1])))
            parts = []
            for k, t in enumerate(targets):
                st = strip_casts(t)
                if st.get('kind') == 'DeclRefExpr' and st['referencedDecl'].get('name') == 'ignore': continue
                parts.append('(%s = %s.e%d)' % (self.e(t), tmp, k))
            self.rules['std::tie(a, b) = f() -> temporaries'] += 1
            return '(%s)' % ', '.join(parts) if parts else '((void)0)'
        if name == 'operator=':
            lhs = self.e(args[0])
            if t0.startswith('std::function<'):
                self.rules['std::function assignment -> .set = 1'] += 1
                return '(%s.set = 1)' % lhs
            r = strip_casts(args[1])
            if r.get('kind') == 'InitListExpr' and not inner(r) or (r.get('kind') in ('CXXConstructExpr', 'CXXTemporaryObjectExpr') and not inner(r)):
                self.rules['x = {} / x = T() -> x = fresh_T()'] += 1
                return '(%s = %s)' % (lhs, self.fresh_value(t0, value_init=True))
            return '(%s = %s)' % (lhs, self.e(args[1]))
        if name in ('operator->', 'operator*') and t0.startswith('std::unique_ptr<'):
            x = self.e(args[0])
            return x if name == 'operator->' else '(*%s)' % x
        if name in ('operator==', 'operator!=') and t0.startswith('std::array<'):
            self.rules['std::array ==/!= -> VERIF_ARR_EQ'] += 1
            s = 'VERIF_ARR_EQ(%s, %s)' % (self.e(args[0]), self.e(args[1]))
            return s if name == 'operator==' else '(!%s)' % s
        raise Unsupported('operator call %s on %s' % (name, t0))

    def e_LambdaExpr(self, n):
        raise Unsupported('lambda')

    def algo_pred(self, name, args):
        """std::any_of / all_of / none_of(first, last, [](const auto& x) { ... }) over array iterators with a capture-less lambda:
        the lambda's operator() (the instantiation the call uses) becomes a static C function, the algorithm an element loop"""
        lam = strip_casts(args[2])
        rec = [c for c in inner(lam) if c.get('kind') == 'CXXRecordDecl'][0]
        if [c for c in inner(rec) if c.get('kind') == 'FieldDecl']: raise Unsupported('std::%s with a capturing lambda' % name)
        md = None
        for c in inner(rec):
            if c.get('kind') == 'CXXMethodDecl' and c.get('name') == 'operator()' and has_body(c): md = c
            if c.get('kind') == 'FunctionTemplateDecl' and c.get('name') == 'operator()':
                for x in inner(c):
                    if x.get('kind') == 'CXXMethodDecl' and has_body(x) and any(y.get('kind') == 'TemplateArgument' for y in inner(x)): md = x
        if md is None: raise Unsupported('std::%s: no instantiated operator() in the lambda' % name)
        ps = [c for c in inner(md) if c.get('kind') == 'ParmVarDecl']
        if len(ps) != 1: raise Unsupported('std::%s predicate arity' % name)
        pt = self.ctype(ps[0]['type'])
        if not pt.rstrip().endswith('*'): raise Unsupported('std::%s predicate takes its element by value' % name)
        k = self.lam_count = getattr(self, 'lam_count', 0) + 1
        ln = 'verif_lambda_%d' % k; an = 'verif_%s_%d' % (name, k)
        body = [c for c in inner(md) if c.get('kind') == 'CompoundStmt'][0]
        save = (self.curfn, self.loopno, self.renames, self.bindings, getattr(self, 'cur_ret_ref', False), self.pre_stmts)
        self.loopno = 0; self.cur_ret_ref = False; self.pre_stmts = None
        try:
            lines = self.s(body, 0)
        finally:
            (self.curfn, self.loopno, self.renames, self.bindings, self.cur_ret_ref, self.pre_stmts) = save
        first, last = self.e(args[0]), self.e(args[1])
        test = {'any_of': ('if (%s(first)) return 1;', '0'), 'all_of': ('if (!%s(first)) return 0;', '1'), 'none_of': ('if (%s(first)) return 0;', '1')}[name]
        txt = '/* lambda passed to std::%s */\nstatic inline bool %s(%s%s)\n%s\n/* std::%s */\nstatic inline bool %s(%sfirst, %slast)\n{\n    while (first != last) { %s ++first; }\n    return %s;\n}\n' % (
            name, ln, pt, self.local_name(ps[0]), '\n'.join(lines), name, an, pt, pt, test[0] % ln, test[1])
        self.protos[an] = 'static inline bool %s(%s%s);\nstatic inline bool %s(%sfirst, %slast);' % (ln, pt, self.local_name(ps[0]), an, pt, pt)
        self.out_funcs[an] = txt
        self.func_src[an] = ('std::' + name, '', 0)
        if self.curfn: self.calls[self.curfn].add(an)
        self.rules['std::%s with a capture-less lambda -> element loop + static predicate function' % name] += 1
        return '%s(%s, %s)' % (an, first, last)

    # ------------------------------------------------------------------ function demand
    def use_func(self, fid):
        fid = self.defn.get(fid, fid)
        d = self.byid[fid]
        # member of a class template instantiation declared but defined through the pattern: find body via previousDecl chain
        nm = self.cfunc_name(d)
        if nm not in self.out_funcs and fid not in self.todo:
            self.todo.append(fid)
        if self.curfn: self.calls[self.curfn].add(nm)
        return nm

    # ------------------------------------------------------------------ statements
    def s(self, n, ind):
        k = n['kind']; p = '    ' * ind
        f = getattr(self, 's_' + k, None)
        if f: return f(n, ind)
        sn = strip_casts(n)
        if sn.get('kind') == 'CXXOperatorCallExpr' and self.callee_name(sn) == 'operator()':
            a0 = strip_casts(inner(sn)[1])
            if a0.get('kind') == 'DeclRefExpr' and a0['referencedDecl']['id'] in self.lambdas:
                return self.s(self.lambdas[a0['referencedDecl']['id']], ind)
        save = self.pre_stmts
        self.pre_stmts = []
        try:
            x = self.e(n)
            pre = self.pre_stmts
        finally:
            self.pre_stmts = save
        if pre:
            return [p + '{'] + [p + '    ' + q for q in pre] + [p + '    ' + x + ';', p + '}']
        return [p + x + ';']
    def with_pre(self, ind, fn):
        save = self.pre_stmts
        self.pre_stmts = []
        try:
            r = fn()
            pre = self.pre_stmts
        finally:
            self.pre_stmts = save
        return ['    ' * ind + q for q in pre], r
    def s_CompoundStmt(self, n, ind):
        p = '    ' * ind
        out = [p + '{']
        for c in inner(n): out += self.s(c, ind + 1)
        out.append(p + '}')
        return out
    def s_NullStmt(self, n, ind): return ['    ' * ind + ';']
    def s_AttributedStmt(self, n, ind):
        ins = [c for c in inner(n) if not c['kind'].endswith('Attr')]
        return sum((self.s(c, ind) for c in ins), [])
    def s_ReturnStmt(self, n, ind):
        ins = inner(n)
        if not ins: return ['    ' * ind + 'return;']
        pre, x = self.with_pre(ind, lambda: self.ret_expr(ins[0]))
        return pre + ['    ' * ind + 'return %s;' % x]
    def ret_expr(self, n):
        if getattr(self, 'cur_ret_ref', False):
            return self.addr(n)
        return self.e(n)
    def s_BreakStmt(self, n, ind): return ['    ' * ind + 'break;']
    def s_ContinueStmt(self, n, ind): return ['    ' * ind + 'continue;']
    def s_DeclStmt(self, n, ind):
        out = []
        for v in inner(n):
            if v['kind'] in ('StaticAssertDecl', 'UsingDirectiveDecl', 'TypeAliasDecl', 'TypedefDecl', 'UsingDecl'):
                self.dropped[v['kind']] += 1
                continue
            if v['kind'] == 'DecompositionDecl':
                out += self.decomposition(v, ind); continue
            if v['kind'] != 'VarDecl': raise Unsupported('decl ' + v['kind'])
            out += self.vardecl(v, ind)
        return out
    def decomposition(self, v, ind):
        p = '    ' * ind
        ct = self.ctype(v['type']).replace('const ', '')
        if not ct.startswith('tuple_'): raise Unsupported('structured binding of ' + qt(v['type']))
        ins = inner(v)
        init = [c for c in ins if c['kind'] != 'BindingDecl'][0]
        binds = [c for c in ins if c['kind'] == 'BindingDecl']
        tmp = self.fresh('dec')
        pre, x = self.with_pre(ind, lambda: self.e(init))
        out = pre + [p + '%s %s = %s;' % (ct, tmp, x)]
        ets = self.rec_fields[ct][1]
        for k, b in enumerate(binds):
            nm = b['name']
            out.append(p + '%s %s = %s.e%d;' % (ets[k], nm, tmp, k))
            self.bindings[b['id']] = nm
            hv = inner(b)
            if hv and hv[0].get('referencedDecl'): self.bindings[hv[0]['referencedDecl']['id']] = nm
        self.rules['structured binding auto [a, b] = f() -> temporaries'] += 1
        return out
    def vardecl(self, v, ind):
        p = '    ' * ind
        q = qt(v['type'])
        qq = q.replace('const ', '')
        if qq.startswith('std::unordered_set<') or qq.startswith('std::unordered_map<'):
            lst = None
            def find_list(x):
                if x.get('kind') == 'InitListExpr': return x
                for c in inner(x):
                    r = find_list(c)
                    if r is not None: return r
                return None
            lst = find_list(v)
            if lst is None or v.get('storageClass') != 'static': raise Unsupported('unordered container that is not a static constant table')
            if qq.startswith('std::unordered_set<'):
                self.static_tables[v['id']] = ('set', [self.e(x) for x in inner(lst)])
            else:
                pairs = []
                for pr in inner(lst):
                    kv = inner(strip_casts(pr))
                    pairs.append((self.e(kv[0]), self.e(kv[1])))
                self.static_tables[v['id']] = ('map', pairs)
            self.rules['static constant std::unordered_set/map -> compile-time table'] += 1
            return [p + '/* static table %s: %d entries, expanded at its uses */' % (v['name'], len(self.static_tables[v['id']][1]))]
        ins0 = [c for c in inner(v) if not c['kind'].endswith('Attr')]
        if ins0 and strip_casts(ins0[0]).get('kind') == 'LambdaExpr':
            lam = strip_casts(ins0[0])
            body = [c for c in inner(lam) if c['kind'] == 'CompoundStmt']
            def has_return(x):
                if x.get('kind') == 'ReturnStmt': return True
                return any(has_return(c) for c in inner(x))
            meth = [c for c in inner(lam) if c['kind'] == 'CXXRecordDecl']
            params = []
            for m_ in meth:
                for c in inner(m_):
                    if c.get('kind') == 'CXXMethodDecl' and c.get('name') == 'operator()':
                        params = [x for x in inner(c) if x['kind'] == 'ParmVarDecl']
            if not body or has_return(body[0]) or params: raise Unsupported('lambda with parameters or a return value')
            self.lambdas[v['id']] = body[0]
            self.rules['parameterless by-value lambda -> inlined at its calls'] += 1
            return [p + '/* lambda %s: inlined at its calls */' % v['name']]
        if q.startswith('std::lock_guard<') or q.startswith('const std::lock_guard<'):
            self.dropped['std::lock_guard (sequential semantics)'] += 1
            return [p + '/* lock_guard dropped */']
        ins = [c for c in inner(v) if not c['kind'].endswith('Attr')]
        st = 'static ' if v.get('storageClass') == 'static' else ''
        name = self.local_name(v)
        if ins:
            x0 = strip_casts(ins[0])
            if x0.get('kind') == 'CXXOperatorCallExpr' and self.callee_decl(x0)['name'] == 'operator[]' and \
               qt(inner(x0)[1]['type']).replace('const ', '').startswith('std::vector<Matcher<'):
                pre, x = self.with_pre(ind, lambda: self.e(inner(x0)[2]))
                self.rules['decoder table lookup decoders[opcode] -> VERIF_DECODER_LOOKUP(opcode)'] += 1
                self.decoder_vars.add(v['id'])
                return pre + [p + 'verif_decoder %s = VERIF_DECODER_LOOKUP(%s);' % (name, x)]
        m = re.match(r'(.*)\[(\d+)\]$', q)
        if m:
            et = self.ctype_s(m.group(1))
            pre, x = self.with_pre(ind, lambda: self.e(ins[0]) if ins else None)
            return pre + [p + '%s%s %s[%s]%s;' % (st, et, name, m.group(2), (' = ' + x) if x else '')]
        t = self.ctype(v['type'])
        if self.is_ref(v['type']) and ins:
            pre, x = self.with_pre(ind, lambda: self.addr(ins[0]))
            return pre + [p + '%s%s%s = %s;' % (st, t, name, x)]
        if ins:
            pre, x = self.with_pre(ind, lambda: self.e(ins[0]))
            if x.startswith('{'):
                x = '((%s)%s)' % (t.replace('const ', ''), x) if not t.startswith('arr_') else x
            return pre + [p + '%s%s %s = %s;' % (st, t, name, x)]
        return [p + '%s%s %s;' % (st, t, name)]
    def cond(self, n, ind):
        return self.with_pre(ind, lambda: self.e(n))
    def s_IfStmt(self, n, ind):
        p = '    ' * ind
        raw = [c for c in n.get('inner', []) if isinstance(c, dict)]
        ins = inner(n)
        out = []
        idx = 0
        if n.get('hasInit'):
            out += self.s(ins[0], ind); idx = 1
        if n.get('hasVar'):
            raise Unsupported('if with condition variable')
        pre, c = self.cond(ins[idx], ind)
        out += pre + [p + 'if (%s)' % c]
        out += self.block(ins[idx + 1], ind)
        if len(ins) > idx + 2:
            out.append(p + 'else')
            out += self.block(ins[idx + 2], ind)
        if n.get('hasInit'):
            out = [p + '{'] + out + [p + '}']
        return out
    def block(self, n, ind):
        if n['kind'] == 'CompoundStmt': return self.s(n, ind)
        return ['    ' * ind + '{'] + self.s(n, ind + 1) + ['    ' * ind + '}']
    def loop_hook(self):
        self.loopno += 1
        return '#ifdef LOOP_%s_%d\n    LOOP_%s_%d\n#endif' % (self.curfn, self.loopno, self.curfn, self.loopno)
    def s_ForStmt(self, n, ind):
        p = '    ' * ind
        raw = n['inner']
        init, _cv, cond, inc, body = raw
        out = [p + '{']
        if init.get('kind'): out += self.s(init, ind + 1)
        hook = self.loop_hook()
        out.append(p + '    for (; %s; %s)' % (self.e(cond) if cond.get('kind') else '', self.e(inc) if inc.get('kind') else ''))
        out.append(hook)
        out += self.block(body, ind + 1)
        out.append(p + '}')
        return out
    def s_WhileStmt(self, n, ind):
        p = '    ' * ind
        c, body = inner(n)
        hook = self.loop_hook()
        out = [p + 'while (%s)' % self.e(c)]
        out.append(hook)
        return out + self.block(body, ind)
    def s_DoStmt(self, n, ind):
        raise Unsupported('do-while')
    def s_CXXForRangeStmt(self, n, ind):
        p = '    ' * ind
        raw = [c for c in n['inner']]
        rng = [c for c in raw if c.get('kind') == 'DeclStmt' and inner(c) and inner(c)[0].get('name', '').startswith('__range')][0]
        rinit = inner(inner(rng)[0])[0]
        loopvar = [c for c in raw if c.get('kind') == 'DeclStmt' and inner(c) and not inner(c)[0].get('name', '').startswith('__')][0]
        lv = inner(loopvar)[0]
        body = raw[-1]
        rq = qt(rinit['type']).replace('const ', '')
        it = self.fresh('it')
        rx = self.e(rinit)
        lt = self.ctype(lv['type'])
        m = re.match(r'std::array<(.*), (\d+)>$', rq)
        hook = self.loop_hook()
        isref = self.is_ref(lv['type'])
        if m:
            self.rules['range-for over std::array -> index loop'] += 1
            bound = m.group(2)
            elem = '%s.e[%s]' % (rx, it)
        elif getattr(self, 'mmio_slots', None) is not None and rq.startswith('std::vector<') and 'BitFieldSlot' in rq:
            # partial evaluation of MMIORegion's binding table (extract/mmio_table.py): the slot list of this cell is known, the loop is unrolled
            self.rules['range-for over the BitFieldSlot list of a cell -> unrolled over the evaluated slots'] += 1
            out = []
            bt = lt.replace('const ', '').rstrip(' *').strip()
            for k, (pos, ln, sfn, gfn) in enumerate(self.mmio_slots):
                self.mmio_cur_slot = k
                try:
                    out += [p + '{', p + '    const %s verif_slot_%d = {%s, %s, {%d}, {%d}};' % (bt, k, pos, ln, 1 if sfn else 0, 1 if gfn else 0),
                            p + '    %s%s = &verif_slot_%d;' % (lt if isref else (lt + '*'), self.local_name(lv), k)]
                    out += self.block(body, ind + 1)
                    out += [p + '}']
                finally:
                    self.mmio_cur_slot = None
            if not isref: raise Unsupported('slot loop variable by value')
            return out
        elif rq.startswith('std::vector<') and self.ctype_s(rq) == 'verif_vec_ptr':
            self.rules['range-for over std::vector<T*> -> index loop'] += 1
            bound = '%s.len' % rx
            et = lt.replace('const ', '').rstrip(' *').strip() if isref else lt
            elem = '(*(%s **)&%s.e[%s])' % (self.ctype_s(self.split_targs(rq[len('std::vector<'):-1])[0].rstrip('*').strip()), rx, it)
        else:
            raise Unsupported('range-for over ' + rq)
        out = [p + '{', p + '    for (u64 %s = 0; %s < %s; ++%s)' % (it, it, bound, it), hook, p + '    {']
        out.append(p + '        %s%s = %s%s;' % (lt, self.local_name(lv), '&' if isref else '', elem))
        out += self.block(body, ind + 2)
        out += [p + '    }', p + '}']
        return out
    def s_SwitchStmt(self, n, ind):
        p = '    ' * ind
        ins = inner(n)
        return [p + 'switch (%s)' % self.e(ins[0])] + self.s(ins[1], ind)
    def s_CaseStmt(self, n, ind):
        p = '    ' * ind
        ins = inner(n)
        out = [p + 'case %s:' % self.e(ins[0])]
        sub = self.s(ins[-1], ind + 1)
        if ins[-1]['kind'] == 'DeclStmt': sub = [p + '    ;'] + sub
        return out + sub
    def s_DefaultStmt(self, n, ind):
        return ['    ' * ind + 'default:'] + self.s(inner(n)[0], ind + 1)

    # ------------------------------------------------------------------ records / enums
    def field_dropped(self, q):
        q = q.replace('mutable ', '')
        if q.replace('const ', '').startswith('std::vector<Matcher<'):
            self.rules['decoder table member -> dropped (VERIF_DECODER_* hooks at its uses)'] += 1
            return True
        return q in ('std::mutex', 'std::recursive_mutex') or q.startswith('std::lock_guard')

    def emit_record(self, d):
        tn = self.tname(d['id'])
        nm = self.cident(tn, decl=True)
        if nm in self.records or nm in self.rec_inprogress:
            if nm in self.rec_inprogress and nm not in self.fwd: self.fwd.append(nm)
            return nm
        self.rec_inprogress.add(nm)
        fields = []
        finfo = []
        self.rec_bases[nm] = []
        has_virtual = any(c.get('kind') == 'CXXMethodDecl' and c.get('virtual') for c in d.get('inner', []))
        if has_virtual and not d.get('bases'):
            fields.append('int verif_tag;')
            finfo.append(('int', 'verif_tag', None, 'tag'))
            self.rules['polymorphic base -> verif_tag member'] += 1
        for k, b in enumerate(d.get('bases', [])):
            bt = qt(b['type'])
            bd = self.rec_by_norm.get(self.norm(bt))
            if bd is not None:
                bn = self.emit_record(bd)
                fields.append('%s base_%d;' % (bn, k))
                finfo.append((bn, 'base_%d' % k, bt, 'base'))
                self.rec_bases[nm].append((self.norm(bt), bn, k))
                self.rules['base class -> leading member base_k'] += 1
            else:
                self.dropped['base class ' + bt] += 1
        for c in d.get('inner', []):
            if c.get('kind') == 'FieldDecl':
                q = qt(c['type'])
                if self.field_dropped(q):
                    self.dropped['field of type %s (sequential semantics)' % q.replace('mutable ', '')] += 1
                    finfo.append((None, c['name'], None, 'dropped'))
                    continue
                m = re.match(r'(.*)\[(\d+)\]$', q)
                if m:
                    ct = self.ctype_s(m.group(1))
                    fields.append('%s %s[%s];' % (ct, c['name'], m.group(2)))
                    finfo.append((ct, c['name'], q, 'carray'))
                    continue
                ct = self.ctype(c['type'])
                if ct.startswith('const ') and not ct.endswith('*'): ct = ct[6:]
                fields.append('%s %s;' % (ct, c['name']))
                finfo.append((ct, c['name'], q, 'field'))
        self.records[nm] = 'typedef struct %s {\n%s\n} %s;' % (nm, '\n'.join('    ' + f for f in fields) or '    char verif_empty;', nm)
        self.rec_fields[nm] = finfo
        self.rec_cxx[nm] = self.qname(d['id'])
        self.rec_inprogress.discard(nm)
        if d.get('bases') and self.tag_path(nm) is not None:
            self.vtags = getattr(self, 'vtags', [])
            if nm not in self.vtags: self.vtags.append(nm)
        return nm

    def emit_enum(self, d):
        nm = self.cident(self.tname(d['id']), decl=True)
        if nm in self.enums: return nm
        ut = self.ctype(d['fixedUnderlyingType']) if 'fixedUnderlyingType' in d else 'int'
        lines = ['typedef %s %s;' % (ut, nm)]
        val = -1
        for c in d.get('inner', []):
            if c.get('kind') == 'EnumConstantDecl':
                val = self.enum_value(c, val)
                lines.append('#define %s ((%s)%d)' % (self.enum_const(c), nm, val))
        self.enums[nm] = '\n'.join(lines)
        self.rules['enum class E : T -> typedef T E + #define constants'] += 1
        return nm

    # ------------------------------------------------------------------ functions
    def owner_type(self, d):
        """owning class of a member function, in clang's printed (namespace-qualified) form"""
        return self.qname(d['id']).rsplit('::', 1)[0]

    def emit_func(self, d):
        nm = self.cfunc_name(d)
        if self.out_funcs.get(nm): return
        self.out_funcs[nm] = None
        self.curfn = nm; self.loopno = 0
        self.renames = {}
        self.bindings = {}
        self.static_tables = {}
        self.lambdas = {}; self.decoder_vars = set()
        ft = d['type']['qualType']
        ret = ft[:ft.index('(')].strip()
        params = []
        is_method = d['kind'] in ('CXXMethodDecl', 'CXXConversionDecl') and d.get('storageClass') != 'static'
        is_ctor = d['kind'] == 'CXXConstructorDecl'
        ot = None
        if d['kind'] in ('CXXMethodDecl', 'CXXConstructorDecl', 'CXXConversionDecl'):
            ot = self.ctype_s(self.owner_type(d))
            if is_method:
                const = 'const ' if re.search(r'\)\s*const\b', ft) else ''
                params.append('%s%s *self' % (const, ot))
        pk = 0
        for p in d.get('inner', []):
            if p.get('kind') == 'ParmVarDecl':
                pn = p.get('name') or 'verif_unused_%d' % pk
                if pn == 'self' and is_method:
                    pn = 'self_arg'; self.renames[p['id']] = pn       # a parameter called self would clash with the object pointer
                pk += 1
                params.append('%s %s' % (self.ctype(p['type']), pn))
        body = [c for c in d.get('inner', []) if c.get('kind') == 'CompoundStmt']
        self.cur_ret_ref = False
        if is_ctor:
            rett = ot
        else:
            rq = d.get('type', {}).get('desugaredQualType', ft)
            rets = rq[:rq.index('(')].strip() if '(' in rq else ret
            if rets in ('auto', 'decltype(auto)'): rets = ret
            rett = self.ctype_s(rets)
            self.cur_ret_ref = rets.endswith('&')
        sig = '%s %s(%s)' % (rett, nm, ', '.join(params) or 'void')
        loc = d.get('loc', {})
        self.func_src[nm] = (self.qname(d['id']), loc.get('file') or loc.get('includedFrom', {}).get('file') or '', loc.get('line') or 0)
        self.func_decl[nm] = d
        hook = '#ifdef CONTRACT_%s\nCONTRACT_%s\n#endif' % (nm, nm)
        if not body:
            self.protos[nm] = sig + '\n' + hook + '\n;'
            self.out_funcs[nm] = '/* no body in this TU: %s */' % nm
            return
        self.protos[nm] = sig + ';'
        lines = self.s(body[0], 0)
        if is_ctor:
            rdn = self.rec_by_norm.get(self.norm(self.owner_type(d)))
            pre = ['    %s self_obj = %s; %s *self = &self_obj;' % (ot, self.fresh_value(self.owner_type(d), value_init=False), ot)]
            for ci in d.get('inner', []):
                if ci.get('kind') == 'CXXCtorInitializer' and 'anyInit' in ci:
                    fld = ci['anyInit']
                    init = inner(ci)[0]
                    if init.get('kind') == 'CXXDefaultInitExpr': continue   # already in fresh value
                    fd = self.byid.get(fld['id'], fld)
                    if self.is_ref(fd.get('type', {})):
                        pre.append('    self->%s = %s;' % (fld['name'], self.addr(init)))
                    else:
                        s0 = self.pre_stmts; self.pre_stmts = []
                        x = self.e(init)
                        pre += ['    ' + q for q in self.pre_stmts]; self.pre_stmts = s0
                        pre.append('    self->%s = %s;' % (fld['name'], x))
                elif ci.get('kind') == 'CXXCtorInitializer' and 'baseInit' in ci:
                    init = inner(ci)[0]
                    if inner(init): raise Unsupported('base initialiser with arguments')
            tagpath = self.tag_path(ot)
            if tagpath is not None:
                pre.insert(1, '    self->%sverif_tag = VERIF_TAG_%s;' % (tagpath, ot))
                self.vtags = getattr(self, 'vtags', [])
                if ot not in self.vtags: self.vtags.append(ot)
            self.rules['constructor -> function returning the object'] += 1
            lines = [lines[0]] + pre + lines[1:-1] + ['    return self_obj;', lines[-1]]
        text = '/* from %s */\n%s\n%s\n%s\n' % (self.qname(d['id']), sig, hook, '\n'.join(lines))
        self.out_funcs[nm] = text

    def tag_path(self, cn):
        """member path to the verif_tag of a record with a polymorphic base, or None"""
        info = self.rec_fields.get(cn)
        if not info or info[0] == 'array': return None
        for f in info:
            if f[3] == 'tag': return ''
        for f in info:
            if f[3] == 'base':
                sub = self.tag_path(f[0])
                if sub is not None: return f[1] + '.' + sub
        return None

    def resolve_roots(self, roots):
        out = []
        for r in roots:
            if r.endswith('::*'):
                pre = r[:-1]
                out += [q for q in self.funcs_by_qual if q.startswith(pre) and '::' not in q[len(pre):] and not q.endswith('::operator()')]
                self.skip_patterns = True
            else:
                out.append(r)
        return out

    # ------------------------------------------------------------------ decode table (src/decoder.h)
    def emit_decode_table(self, vq, calls=True):
        """Translates the instantiation GetDecodeTable<vq>() entry by entry.  For entry k (table order) the generated C holds
             vdec_<V>_match_k(instruction)   from MatcherCreator<..>::Create's `mask`, `expected` and the Except(..) rejectors (Matcher::Matches, Rejector::Rejects)
             vdec_<V>_expanded_k             from Create's `expanded`
             vdec_<V>_call_k(v, opcode, expansion)  from Proxy<..>::operator(): (visitor.*func)(Extract(opcode, expansion)...) with func bound to the entry's handler
           and on top of them the selection of Decode<V> (first match in table order; undefined() when none; the single-match ASSERT is
           exported as vdec_<V>_count for the C02 obligation).  Every expression is taken from the instantiated AST; nothing is evaluated here."""
        tag = self.cident(vq.split('::')[-1])
        fn = None
        for c in self.funcs_by_qual.get('GetDecodeTable', []):
            ta = [x for x in inner(c) if x.get('kind') == 'TemplateArgument']
            if ta and qt(ta[0].get('type', {})) == vq and has_body(c): fn = c
        if fn is None: raise SystemExit('EXTRACT-ABORT: no instantiation GetDecodeTable<%s> in this TU' % vq)
        def find(n, kind):
            if n.get('kind') == kind: return n
            for x in inner(n):
                r = find(x, kind)
                if r is not None: return r
            return None
        il = find(fn, 'InitListExpr')
        entries = inner(il)
        name0 = 'vdec_%s' % tag
        self.curfn = name0; self.loopno = 0
        self.renames = {}; self.bindings = {}; self.static_tables = {}; self.lambdas = {}; self.decoder_vars = set(); self.pre_stmts = []
        out = ['/* GENERATED from GetDecodeTable<%s>() (src/decoder.h): %d entries in table order */' % (vq, len(entries))]
        protos = []
        info = []
        unused_entries = []
        for k, ent in enumerate(entries):
            x = strip_casts(ent)
            rejs = []
            while x.get('kind') == 'CXXMemberCallExpr':
                me = inner(x)[0]
                while me['kind'] != 'MemberExpr': me = inner(me)[0]
                if me['name'] != 'Except': raise Unsupported('decode table entry: member call ' + me['name'])
                rv = strip_casts(inner(x)[1])
                while rv.get('kind') in ('CXXConstructExpr',): rv = strip_casts(inner(rv)[0])
                if rv.get('kind') != 'DeclRefExpr': raise Unsupported('decode table entry: rejector expression ' + rv.get('kind'))
                rejs.append(rv['referencedDecl']['id'])
                x = strip_casts(inner(me)[0])
            if x.get('kind') != 'CallExpr': raise Unsupported('decode table entry kind ' + x.get('kind'))
            ci = inner(x)
            crd = strip_casts(ci[0])
            if crd.get('kind') != 'DeclRefExpr' or crd['referencedDecl'].get('name') != 'Create': raise Unsupported('decode table entry is not MatcherCreator::Create')
            iname = strip_casts(ci[1])['value'].strip('"')
            hx = strip_casts(ci[2])
            if hx.get('kind') != 'UnaryOperator' or hx.get('opcode') != '&': raise Unsupported('decode table entry: handler is not &V::name')
            hid = inner(hx)[0]['referencedDecl']['id']
            cd = self.byid[self.defn.get(crd['referencedDecl']['id'], crd['referencedDecl']['id'])]
            body = [c for c in inner(cd) if c.get('kind') == 'CompoundStmt'][0]
            vars_ = {}
            def collect(n):
                if n.get('kind') == 'VarDecl': vars_[n['name']] = n
                for c in inner(n): collect(c)
            collect(body)
            tmp = find(body, 'CXXTemporaryObjectExpr')
            targs = inner(tmp)
            mask_x = self.e([c for c in inner(vars_['mask']) if not c['kind'].endswith('Attr')][0])
            exp_x = self.e([c for c in inner(vars_['expanded']) if not c['kind'].endswith('Attr')][0])
            expected_x = self.e(targs[2])
            rej_x = []
            for rid in rejs:
                rdv = self.byid[rid]
                lst = find(rdv, 'InitListExpr')
                if lst is None: raise Unsupported('rejector without initialiser list')
                a, b = [self.e(q) for q in inner(lst)]
                rej_x.append('(((instruction) & (u16)(%s)) == (u16)(%s))' % (a, b))      # Rejector::Rejects
            out.append('static inline bool %s_match_%d(u16 instruction) { return ((instruction) & (u16)(%s)) == (u16)(%s)%s; }   /* %s */' % (
                name0, k, mask_x, expected_x, ''.join(' && !' + r for r in rej_x), iname))
            out.append('#define %s_expanded_%d ((bool)(%s))' % (name0, k, exp_x))
            if calls:
                # Proxy<OperandList<...>>::operator() of this MatcherCreator specialisation
                par = self.parent.get(cd['id'])
                ops = []
                def findop(n):
                    if n.get('kind') == 'CXXMethodDecl' and n.get('name') == 'operator()' and has_body(n): ops.append(n)
                    for c in inner(n): findop(c)
                findop(par)
                if len(ops) != 1: raise Unsupported('decode table entry %d (%s): %d instantiated Proxy::operator() bodies' % (k, iname, len(ops)))
                op = ops[0]
                prm = [c for c in inner(op) if c.get('kind') == 'ParmVarDecl']
                for pv, nm_ in zip(prm, ('visitor', 'opcode', 'expansion')): self.renames[pv['id']] = nm_
                call = find(op, 'CXXMemberCallExpr')
                cargs = inner(call)[1:]
                callee = strip_casts(inner(call)[0])
                if callee.get('kind') != 'BinaryOperator' or callee.get('opcode') != '.*': raise Unsupported('Proxy::operator() is not (visitor.*func)(...)')
                hd = self.byid[self.defn.get(hid, hid)]
                pre, cx = self.with_pre(1, lambda: '%s(%s)' % (self.use_func(hid), ', '.join(['visitor'] + self.call_args(cargs, hd))))
                out.append('static void %s_call_%d(%s *visitor, u16 opcode, u16 expansion) {\n%s    %s;\n}' % (name0, k, tag, ''.join(q + '\n' for q in pre), cx))
                # the operand values handed to the handler, as raw words (C02: bits marked Unused<> must not reach the handler)
                um = sorted(set(re.findall(r'\bUnused_\d+_Mask\b', mask_x)))
                if um:
                    sig = []
                    for j, a in enumerate(cargs):
                        pre2, ax = self.with_pre(1, lambda: self.e(a))
                        if pre2: raise Unsupported('decode table entry %d: operand expression needs statements' % k)
                        sig.append('    { %s a_ = %s; out[%d] = 0; VERIF_PACK8(&out[%d], &a_, sizeof a_); }\n' % (self.ctype(a['type']).replace('const ', ''), ax, j, j))
                    out.append('#define %s_unused_%d ((u16)(%s))' % (name0, k, ' | '.join(um)))
                    out.append('static inline unsigned %s_args_%d(u16 opcode, u16 expansion, u64 *out) {\n%s    return %d; }' % (name0, k, ''.join(sig), len(cargs)))
                    unused_entries.append((k, len(cargs)))
            info.append((k, iname))
            if not hasattr(self, 'decode_entries'): self.decode_entries = {}
            import hashlib as _h
            self.decode_entries.setdefault(tag, []).append({'k': k, 'name': iname, 'handler': (self.cfunc_name(self.byid[self.defn.get(hid, hid)]) if calls else None),
                                                            'match': '%s == %s %s' % (mask_x, expected_x, ' '.join(rej_x)), 'expanded': exp_x,
                                                            'sha': _h.sha1(('\n'.join(out[-4:])).replace('_%d' % k, '_K').encode()).hexdigest()})
        self.rules['decode table entry -> match/expanded/call functions'] += len(entries)
        n = len(entries)
        out.append('#define %s_ENTRIES %d' % (name0.upper(), n))
        out.append('/* number of entries matching the instruction (Decode asserts this is at most 1) and the first one, -1 when none */')
        out.append('static inline int %s_count(u16 instruction) { int c = 0;\n%s    return c; }' % (name0, ''.join('    c += %s_match_%d(instruction);\n' % (name0, k) for k in range(n))))
        out.append('static inline int %s_first(u16 instruction) {\n%s    return -1; }' % (name0, ''.join('    if (%s_match_%d(instruction)) return %d;\n' % (name0, k, k) for k in range(n))))
        out.append('static inline int %s_last(u16 instruction) {\n%s    return -1; }   /* the last matching entry: exactly one entry matches iff first == last >= 0 */' % (name0, ''.join('    if (%s_match_%d(instruction)) return %d;\n' % (name0, k, k) for k in reversed(range(n)))))
        out.append('static inline bool %s_need_expansion(u16 instruction) { switch (%s_first(instruction)) {\n%s    default: return 0; } }   /* AllMatcher: expanded = false */' % (
            name0, name0, ''.join('    case %d: return %s_expanded_%d;\n' % (k, name0, k) for k in range(n))))
        out.append('static const char *const %s_names[%d] = {%s};' % (name0, n, ', '.join('"%s"' % nm_ for _, nm_ in info)))
        if calls:
            out.append('#define %s_MAXARGS %d' % (name0.upper(), max([a for _, a in unused_entries] + [1])))
            out.append('/* entries with Unused<> bits: mask of those bits (0 for the other entries) and the operand words handed to the handler */')
            out.append('static inline u16 %s_unused(int k) { switch (k) {\n%s    default: return 0; } }' % (name0, ''.join('    case %d: return %s_unused_%d;\n' % (k, name0, k) for k, _ in unused_entries)))
            out.append('static inline unsigned %s_args(int k, u16 opcode, u16 expansion, u64 *out) { switch (k) {\n%s    default: return 0; } }' % (
                name0, ''.join('    case %d: return %s_args_%d(opcode, expansion, out);\n' % (k, name0, k) for k, _ in unused_entries)))
            und = [c for c in self.funcs_by_qual.get(vq + '::undefined', [])]
            undx = self.use_func(und[0]['id']) if und else None
            out.append('static void %s_call(%s *visitor, u16 opcode, u16 expansion) { switch (%s_first(opcode)) {\n%s    default: %s; break; } }' % (
                name0, tag, name0, ''.join('    case %d: %s_call_%d(visitor, opcode, expansion); break;\n' % (k, name0, k) for k in range(n)),
                ('%s(visitor, opcode)' % undx) if undx else 'VERIF_ASSERT(0)'))
        self.out_funcs[name0] = '\n'.join(out) + '\n'
        self.protos[name0] = '/* decode table %s: see _funcs.c */' % name0
        self.func_src[name0] = ('GetDecodeTable<%s>' % vq, '/repo/src/decoder.h', 0)
        self.curfn = None
        return name0

    def run(self, roots, optional=False):
        rootnames = []
        plain = []
        for r in roots:
            if r.startswith('DECODE_TABLE:') or r.startswith('DECODE_MATCH:'):
                rootnames.append(self.emit_decode_table(r.split(':', 1)[1], calls=r.startswith('DECODE_TABLE:')))
            elif r.startswith('MMIO_TABLE:'):
                import mmio_table
                rootnames.append(mmio_table.MmioEmitter(self, r.split(':', 1)[1]).run())
            else:
                plain.append(r)
        roots = plain
        for r in self.resolve_roots(list(roots)):
            cands = self.funcs_by_qual.get(r)
            if not cands:
                if optional: continue
                raise SystemExit('EXTRACT-ABORT: function under contract not found: ' + r)
            for c in cands:
                if getattr(self, 'skip_patterns', False) and self.is_template_pattern(c): continue
                rootnames.append(self.use_func(c['id']))
        while self.todo:
            fid = self.todo.pop(0)
            d = self.byid[fid]
            try:
                self.emit_func(d)
            except (Unsupported, KeyError, ValueError, IndexError, TypeError, AttributeError) as ex:
                nm = self.cfunc_name(d)
                import traceback
                self.failed[nm] = '%s: %s' % (type(ex).__name__, str(ex)[:300])
                if self.opts.get('debug'): traceback.print_exc()
                self.out_funcs[nm] = '/* FAILED: %s */' % self.failed[nm].replace('*/', '* /')
                self.curfn = None
        self.curfn = None
        return rootnames

    def is_template_pattern(self, d):
        par = self.parent.get(d['id'])
        if par is not None and par.get('kind') == 'FunctionTemplateDecl':
            return not any(c.get('kind') == 'TemplateArgument' for c in d.get('inner', []))
        # member of a class template pattern
        while par is not None:
            if par.get('kind') in ('ClassTemplateDecl',) : return True
            if par.get('kind') == 'ClassTemplateSpecializationDecl': return False
            par = self.parent.get(par.get('id')) if par.get('id') else None
        return False

    def closure(self, names):
        seen = set(); st = list(names)
        while st:
            x = st.pop()
            if x in seen: continue
            seen.add(x)
            st += list(self.calls.get(x, ()))
        return seen

    # ------------------------------------------------------------------ output
    def write_c(self, path, prelude='#include "stdmodels.h"\n'):
        """writes <path>_types.h (enums, records, constants, stub and function prototypes) and
        <path>_funcs.c (function bodies with CONTRACT_/LOOP_ hooks)"""
        with open(path + '_types.h', 'w') as f:
            f.write('/* GENERATED by extract/cxx2c.py from /repo -- do not edit */\n')
            f.write(prelude)
            for k, v in self.enums.items(): f.write(v + '\n')
            for k, cls in enumerate(getattr(self, 'vtags', [])):
                f.write('#define VERIF_TAG_%s %d\n' % (cls, k + 1))
            for nm in self.fwd:
                if nm not in self.enums: f.write('typedef struct %s %s;\n' % (nm, nm))
            for k, v in self.records.items():
                if v: f.write(v + '\n')
            # named operand classes (struct X : EnumOperand<RegName, ...>): X_GetName(p) reaches the inherited GetName without spelling the value list
            for k, v in self.records.items():
                m = re.match(r'typedef struct (\w+) \{\n    (Enum(?:All)?Operand_\w+) base_0;\n\} \1;\s*$', v or '')
                if m and (m.group(2) + '_GetName') in self.out_funcs:
                    f.write('#define %s_GetName(p) %s_GetName(&(p)->base_0)\n' % (m.group(1), m.group(2)))
            for k, v in getattr(self, 'tail_records', {}).items(): f.write(v + '\n')
            for k, v in self.globals.items():
                # guarded: two units translated from different TUs may define the same class-scope constant (identical text) in one harness
                if v: f.write('#ifndef VERIF_G_%s\n#define VERIF_G_%s\n%s\n#endif\n' % (k, k, v))
        with open(path + '_protos.h', 'w') as f:
            f.write('/* GENERATED by extract/cxx2c.py from /repo -- plain prototypes (native builds against the real code) */\n')
            for k, v in self.stubs.items(): f.write(v + ';\n')
            for k, v in self.protos.items():
                if not v.startswith('static'): f.write(v.split('\n#ifdef')[0].rstrip(';') + ';\n')
        with open(path + '_funcs.c', 'w') as f:
            f.write('/* GENERATED by extract/cxx2c.py from /repo -- do not edit */\n')
            for k, v in self.stubs.items():
                f.write('%s\n#ifdef CONTRACT_%s\nCONTRACT_%s\n#endif\n;\n' % (v, k, k))
            for k, v in self.protos.items(): f.write(v + '\n')
            for k, v in self.out_funcs.items(): f.write((v or '') + '\n')

    def write_bridge(self, path):
        """C++ field-by-field converters between the real objects and the extracted C structs (used by replay/bridge_*.cpp).
        They are templates on the C++ type, so no C++ type has to be named except base classes (clang's own spelling)."""
        out = ['// GENERATED by extract/cxx2c.py -- converters between real C++ objects and the extracted C structs', '#ifndef CX', '#define CX(n) ::n', '#endif']
        def conv(ct, cexpr, xexpr, to_c, depth):
            ind = '    ' * (depth + 1)
            if ct is None: return []
            base = ct.replace('const ', '')
            if base.endswith('*') or base in ('verif_vec_ptr', 'verif_opaque', 'verif_string', 'verif_optional'):
                return [ind + '/* %s: pointer/container member, set by the hand-written part of the bridge */' % cexpr]
            if base == 'verif_fn':
                return [ind + '%s.set = (bool)%s;' % (cexpr, xexpr)] if to_c else [ind + '/* %s: std::function installed by the bridge */' % xexpr]
            if base.startswith('verif_queue_'):
                return [ind + ('br_queue_get(%s, %s);' % (cexpr, xexpr) if to_c else 'br_queue_set(%s, %s);' % (xexpr, cexpr))]
            info = self.rec_fields.get(base)
            if info and info[0] == 'array':
                et, n = info[1], info[2]
                iv = 'i%d' % depth
                body = conv(et, '%s.e[%s]' % (cexpr, iv), '%s[%s]' % (xexpr, iv), to_c, depth + 1)
                return [ind + 'for (unsigned %s = 0; %s < %d; ++%s) {' % (iv, iv, n, iv)] + body + [ind + '}']
            if info and info[0] == 'tuple':
                return [ind + '/* %s: tuple member */' % cexpr]
            if base in self.records and base in self.rec_cxx:
                return [ind + ('to_c(%s, &%s);' % (xexpr, cexpr) if to_c else 'from_c(&%s, %s);' % (cexpr, xexpr))]
            return [ind + ('br_get(%s, %s);' % (cexpr, xexpr) if to_c else 'br_set(%s, %s);' % (xexpr, cexpr))]
        recs = [cn for cn in self.records if self.rec_cxx.get(cn) and self.rec_fields.get(cn) and self.rec_fields[cn][0] not in ('array', 'tuple')]
        for cn in recs:
            out.append('#if defined(BRIDGE_WANT_ALL) || defined(BRIDGE_WANT_%s)' % cn)
            out.append('template <class X> static void to_c(const X &x, CX(%s) *c);' % cn)
            out.append('template <class X> static void from_c(const CX(%s) *c, X &x);' % cn)
            out.append('#endif')
        for cn in recs:
            info = self.rec_fields[cn]
            for to_c in (True, False):
                lines = []
                for f in info:
                    ct, name, q, kind = f
                    if kind in ('dropped', 'tag', 'carray'): continue
                    if kind == 'base':
                        # q is clang's spelling of the base class
                        lines.append('    ' + ('to_c(static_cast<const %s &>(x), &c->%s);' % (q, name) if to_c else 'from_c(&c->%s, static_cast<%s &>(x));' % (name, q)))
                        continue
                    if q and q.endswith('&'):
                        lines.append('    /* %s: reference member, bound by the bridge */' % name); continue
                    lines += conv(ct, 'c->' + name, 'x.' + name, to_c, 0)
                out.append('#if defined(BRIDGE_WANT_ALL) || defined(BRIDGE_WANT_%s)' % cn)
                if to_c:
                    out.append('template <class X> static void to_c(const X &x, CX(%s) *c) {\n    (void)x; (void)c;\n%s\n}' % (cn, '\n'.join(lines)))
                else:
                    out.append('template <class X> static void from_c(const CX(%s) *c, X &x) {\n    (void)x; (void)c;\n%s\n}' % (cn, '\n'.join(lines)))
                out.append('#endif')
        with open(path, 'w') as f:
            f.write('\n'.join(out) + '\n')

    def write_eq(self, path):
        """deep, loop-free equality predicates eq_<Record>(const R *a, const R *b) for every extracted record (plain C)"""
        out = ['/* GENERATED by extract/cxx2c.py -- field-by-field equality of the extracted records (loop-free) */']
        def cmp(ct, a, b):
            base = (ct or '').replace('const ', '')
            if not base or base.endswith('*') or base in ('verif_opaque', 'verif_vec_ptr', 'verif_string', 'verif_optional'): return []
            if base == 'verif_fn': return ['%s.set == %s.set' % (a, b)]
            if base.startswith('verif_queue_'): return []
            info = self.rec_fields.get(base)
            if info and info[0] == 'array':
                r = []
                for i in range(info[2]): r += cmp(info[1], '%s.e[%d]' % (a, i), '%s.e[%d]' % (b, i))
                return r
            if info and info[0] == 'tuple':
                r = []
                for i, et in enumerate(info[1]): r += cmp(et, '%s.e%d' % (a, i), '%s.e%d' % (b, i))
                return r
            if base in self.records and info is not None:
                return ['eq_%s(&%s, &%s)' % (base, a, b)]
            return ['%s == %s' % (a, b)]
        for cn in self.records:
            info = self.rec_fields.get(cn)
            if not info or info[0] in ('array', 'tuple'): continue
            terms = []
            for ct, name, q, kind in info:
                if kind in ('dropped', 'carray', 'tag'): continue
                if q and q.endswith('&'): continue
                terms += cmp(ct, 'a->' + name, 'b->' + name)
            out.append('static inline bool eq_%s(const %s *a, const %s *b)\n{\n    (void)a; (void)b;\n    return %s;\n}' % (cn, cn, cn, '\n        && '.join(terms) or '1'))
        with open(path, 'w') as f:
            f.write('\n'.join(out) + '\n')

    def write_wrappers(self, path, names):
        """C++ wrappers implementing the extracted-C API of member functions on the real object (see replay/bridge_*.cpp).
        The hand-written bridge provides BR_LOAD(self), BR_STORE(self) and BR_OBJ(Class) (the real object)."""
        out = ['// GENERATED by extract/cxx2c.py -- extracted-C API implemented on the real C++ objects']
        out += ['#define BRIDGE_FN_%s 1' % k for k in self.func_decl]
        done = []
        for nm in names:
            d = self.func_decl.get(nm)
            if d is None or d.get('kind') not in ('CXXMethodDecl',) or d.get('storageClass') == 'static':
                out.append('// %s: not a non-static member function, no wrapper' % nm); continue
            ft = d['type']['qualType']
            cls = self.owner_type(d)
            ccls = self.ctype_s(cls)
            value_owner = False
            if '<' in cls or (self.opts.get('wrapper_owners') and cls not in self.opts['wrapper_owners']):
                if ccls in self.records and self.rec_cxx.get(ccls):
                    value_owner = True        # a plain value class (operand types): the wrapper converts the C struct to a real object and calls it
                else:
                    out.append('// %s: owner %s not bridged, no wrapper' % (nm, cls)); continue
            const = 'const ' if re.search(r'\)\s*const\b', ft) else ''
            rq = d['type'].get('desugaredQualType', ft)
            ret = rq[:rq.index('(')].strip()
            if ret in ('auto', 'decltype(auto)'): ret = ft[:ft.index('(')].strip()
            cret = self.ctype_s(ret)
            params = [p for p in d.get('inner', []) if p.get('kind') == 'ParmVarDecl']
            cps, pre, args = ['%sCX(%s) *self' % (const, ccls)], [], []
            ok = True
            for k, p in enumerate(params):
                pq = qt(p['type'])
                ct = self.ctype(p['type'])
                pn = 'a%d' % k
                base = ct.replace('const ', '')
                if base.endswith('*'):
                    ok = False; break
                if base in self.records and base in self.rec_cxx:
                    cps.append('CX(%s) %s' % (base, pn))
                    pre.append('    %s x%d; from_c(&%s, x%d);' % (pq.replace('const ', ''), k, pn, k))
                    args.append('x%d' % k)
                elif base in self.enums:
                    cps.append('CX(%s) %s' % (base, pn)); args.append('static_cast<%s>(%s)' % (pq.replace('const ', ''), pn))
                else:
                    cps.append('%s %s' % (base, pn)); args.append(pn)
            if not ok or cret.rstrip().endswith('*'):
                out.append('// %s: pointer/reference parameter or result, no generated wrapper' % nm); continue
            targs = [a for a in d.get('inner', []) if a.get('kind') == 'TemplateArgument']
            tsel = ''
            if targs and all('type' in a for a in targs):
                tsel = 'template %s<%s>' % (d['name'], ', '.join(qt(a['type']) for a in targs))
            call = 'BR_OBJ(%s).%s(%s)' % (cls, tsel or d['name'], ', '.join(args))
            cretb = cret.replace('const ', '')
            if value_owner:
                if cretb.startswith('tuple_') or (cretb in self.records):
                    out.append('// %s: value-class owner with a record result, no generated wrapper' % nm); continue
                call = 'vo_.%s(%s)' % (tsel or d['name'], ', '.join(args))
                rt = ('CX(%s)' % cretb) if cretb in self.enums else cretb
                cxxt = self.rec_cxx[ccls]
                mm = re.match(r'^(Enum(?:All)?Operand)<(\w+)((?:, -?\d+)+)>$', cxxt)
                if mm:   # clang prints enumerator template arguments as integers
                    cxxt = '%s<%s%s>' % (mm.group(1), mm.group(2), ''.join(', %s(%s)' % (mm.group(2), v.strip()) for v in mm.group(3).split(',')[1:]))
                lines = ['extern "C" %s %s(%s) {' % (rt, nm, ', '.join(cps)), '    %s vo_; from_c(self, vo_);' % cxxt] + pre
                if cretb == 'void': lines += ['    BRIDGE_RUN(%s);' % call]
                else: lines += ['    %s r{};' % rt, '    BRIDGE_RUN(r = static_cast<%s>(%s));' % (rt, call)]
                if not const: lines += ['    to_c(vo_, self);']
                lines += ['    return r;' if cretb != 'void' else '    return;', '}']
                out += lines; done.append(nm); continue
            lines = ['extern "C" %s %s(%s) {' % (('CX(%s)' % cretb) if (cretb in self.records or cretb in self.enums) else cretb, nm, ', '.join(cps)), '    BR_LOAD(self);'] + pre
            if cretb == 'void':
                lines += ['    BRIDGE_RUN(%s);' % call, '    BR_STORE(self);', '}']
            elif cretb.startswith('tuple_'):
                n = self.rec_fields[cretb][2]
                lines += ['    CX(%s) r{};' % cretb, '    BRIDGE_RUN(auto t = %s; %s);' % (call, ' '.join('r.e%d = static_cast<decltype(r.e%d)>(std::get<%d>(t));' % (i, i, i) for i in range(n))), '    BR_STORE(self);', '    return r;', '}']
            elif cretb in self.records and cretb in self.rec_cxx:
                lines += ['    CX(%s) r{};' % cretb, '    BRIDGE_RUN(auto t = %s; to_c(t, &r));' % call, '    BR_STORE(self);', '    return r;', '}']
            elif cretb in self.enums:
                lines += ['    CX(%s) r{};' % cretb, '    BRIDGE_RUN(r = static_cast<CX(%s)>(%s));' % (cretb, call), '    BR_STORE(self);', '    return r;', '}']
            else:
                lines += ['    %s r{};' % cretb, '    BRIDGE_RUN(r = %s);' % call, '    BR_STORE(self);', '    return r;', '}']
            out += lines
            done.append(nm)
        with open(path, 'w') as f:
            f.write('\n'.join(out) + '\n')
        return done

    def meta(self):
        return {'functions': {k: {'cxx': v[0], 'file': v[1], 'line': v[2]} for k, v in self.func_src.items()},
                'failed': self.failed, 'rules': dict(self.rules), 'dropped': dict(self.dropped),
                'stubs': list(self.stubs), 'calls': {k: sorted(v) for k, v in self.calls.items()},
                'records': {k: self.rec_cxx.get(k) for k in self.records}, 'decode_entries': getattr(self, 'decode_entries', {}), 'mmio_cells': getattr(self, 'mmio_cells', None)}


def apply_symbol_prefix(t, out_c, prefix):
    """second copy of a unit (the C01 reference): every function, stub, constant and helper is renamed <prefix><name>; record and enum
    types are shared with the primary unit (the caller checks they are identical), so only <out>_funcs.c, <out>_protos.h and the
    constants (moved to <out>_globals.h) are kept under the new names"""
    import hashlib
    names = set(t.out_funcs) | set(t.protos) | set(t.stubs) | set(t.globals) | set(getattr(t, 'fresh_done', {}).values())
    txt_f = open(out_c + '_funcs.c').read(); txt_p = open(out_c + '_protos.h').read(); txt_t = open(out_c + '_types.h').read()
    for rx in (r'\b(verif_copy(?:_backward)?_\w+)\b', r'\b(VDISPATCH_\w+)\b', r'\b(vdec_\w+)\b', r'\b(VDEC_\w+)\b', r'\b(fresh_\w+)\b', r'#define (\w+_GetName)\(p\)'):
        for tx in (txt_f, txt_p, txt_t): names |= set(re.findall(rx, tx))
    names = {n for n in names if re.match(r'^[A-Za-z_]\w*$', n)}
    rx = re.compile(r'\b(' + '|'.join(sorted(map(re.escape, names), key=len, reverse=True)) + r')\b')
    ren = lambda tx: rx.sub(lambda m: prefix + m.group(1), tx)
    blocks = re.findall(r'#ifndef VERIF_G_\w+\n#define VERIF_G_\w+\n.*?\n#endif\n', txt_t, re.S) + re.findall(r'#define \w+_GetName\(p\).*\n', txt_t)
    rest = txt_t
    for b in blocks: rest = rest.replace(b, '')
    open(out_c + '_globals.h', 'w').write('/* GENERATED: constants of the %s copy */\n' % prefix + ren(''.join(blocks)).replace('VERIF_G_', 'VERIF_G_' + prefix))
    open(out_c + '_funcs.c', 'w').write(ren(txt_f))
    open(out_c + '_protos.h', 'w').write(ren(txt_p))
    return hashlib.sha1(rest.encode()).hexdigest(), rest


def types_without_constants(path):
    txt = open(path).read()
    for b in re.findall(r'#ifndef VERIF_G_\w+\n#define VERIF_G_\w+\n.*?\n#endif\n', txt, re.S) + re.findall(r'#define \w+_GetName\(p\).*\n', txt):
        txt = txt.replace(b, '')
    return txt


def extract(tu_rel, roots, out_c, opts=None, optional_roots=()):
    chunks = astload.load(tu_rel, repo=(opts or {}).get('repo'))
    t = Translator(chunks, opts)
    for ty in (opts or {}).get('force_types', ()) or ():
        t.ctype_s(ty)          # types the spec headers mention even when no extracted function uses them
    rootnames = t.run(roots)
    if optional_roots: t.run(optional_roots, optional=True)
    need = t.closure(rootnames)
    bad = {k: v for k, v in t.failed.items() if k in need}
    t.write_c(out_c)
    t.write_bridge(out_c + '_bridge.inc')
    t.write_eq(out_c + '_eq.h')
    m = t.meta()
    if (opts or {}).get('wrappers'):
        m['wrappers'] = t.write_wrappers(out_c + '_wrappers.inc', [x for x in (opts or {}).get('wrappers') if x in t.func_decl] if (opts or {}).get('wrappers') != 'all' else list(t.func_decl))
    m['roots'] = rootnames
    m['failed_required'] = bad
    import hashlib
    # source line numbers (third argument of VERIF_ASSERT) are not part of a function's meaning
    m['text_sha'] = {k: hashlib.sha1(re.sub(r'(VERIF_ASSERT\(.*?), \d+\)', r'\1, 0)', v or '').encode()).hexdigest() for k, v in t.out_funcs.items()}
    m['global_text'] = dict(t.globals)
    if (opts or {}).get('symbol_prefix'):
        m['types_sha'], _ = apply_symbol_prefix(t, out_c, opts['symbol_prefix'])
    return t, m


if __name__ == '__main__':
    import argparse
    ap = argparse.ArgumentParser()
    ap.add_argument('tu'); ap.add_argument('out'); ap.add_argument('roots', nargs='+')   # tu may be a+b for an umbrella unit
    ap.add_argument('--debug', action='store_true')
    a = ap.parse_args()
    t, m = extract(a.tu.split('+') if '+' in a.tu else a.tu, a.roots, a.out, {'debug': a.debug})
    sys.stderr.write('functions: %d; failed %d (required %d)\n' % (len(t.out_funcs), len(t.failed), len(m['failed_required'])))
    for k, v in t.failed.items(): sys.stderr.write('  FAILED %s: %s\n' % (k, v))
    sys.stderr.write('rules: %s\ndropped: %s\n' % (dict(t.rules), dict(t.dropped)))
    if m['failed_required']:
        sys.exit(2)
