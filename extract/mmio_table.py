"""Partial evaluation of MMIORegion::MMIORegion (src/mmio.cpp) into a C dispatch table -- root `MMIO_TABLE:Teakra::MMIORegion`.

The constructor is a binding table: ~150 statements `impl->cells[K] = Cell::Factory(...)`, `impl->cells[K].set/.get = <closure>` inside constant-bound
`for` loops.  This module executes that table at extraction time (loop variables and cell indices are evaluated, nothing else) and, for every
closure it meets -- lambdas in the constructor, lambdas inside Cell::ConstCell / RefCell / BitFieldCell / Cell::Cell / BitFieldSlot::RefSlot /
NoSet / NoGet, std::bind(&C::m, &obj, args..., _1) -- emits one C function whose BODY IS TRANSLATED FROM THE CLOSURE'S AST by the ordinary
translator (cxx2c.Translator), with the captured variables declared as locals of the same name in a generated prologue:
    constructor parameter  T& p     ->  T *p = m->p;              (the translator already prints a reference as (*p))
    loop variable          i        ->  const unsigned i = <value of this unrolling>;
    factory parameter      u16& var ->  u16 *var = &(<argument, translated in the constructor's context>);      (RefCell, RefSlot<T>)
    factory parameter      u16 c    ->  const u16 c = <argument>;                                                 (ConstCell)
    shared_ptr<u16> storage = make_shared<u16>(0)  ->  const unsigned storage = K;    (one backing word per cell; *storage -> m->st[storage])
    const std::vector<BitFieldSlot>& slots  ->  the range-for over it is unrolled over the slot list of this cell, `slot.set(x)` / `slot.get()`
                                                go to the slot's own closure function (cxx2c hooks mmio_slots / mmio_cur_slot)
What is re-expressed by this generator rather than translated: the indexing `cells[addr].set(value)` / `.get()` of MMIORegion::Write/Read (a C
`switch` over the evaluated indices, default = the closure pair of Cell::Cell()), the call a std::bind object makes (`(obj->*pm)(bound..., _1)`),
and std::function's assignment / emptiness (a closure is a function name or None).  The native fidelity run (bridge_mmio.cpp: the real MMIORegion
over the real components) compares the result with the real object on random states, offsets and values on every run.
"""
import re
from cxx2c import inner, strip_casts, qt, Unsupported, has_body

CASTS = ('ImplicitCastExpr', 'ParenExpr', 'MaterializeTemporaryExpr', 'ExprWithCleanups', 'CXXBindTemporaryExpr', 'ConstantExpr')


def strip(n):
    while n.get('kind') in CASTS or (n.get('kind') in ('CXXConstructExpr', 'CXXFunctionalCastExpr') and len(inner(n)) == 1 and n.get('kind') != 'InitListExpr'):
        if n.get('kind') in ('CXXConstructExpr', 'CXXFunctionalCastExpr') and inner(n)[0].get('kind') not in CASTS + ('LambdaExpr', 'CallExpr', 'InitListExpr', 'CXXConstructExpr', 'CXXFunctionalCastExpr', 'CXXTemporaryObjectExpr'):
            break
        n = inner(n)[0]
    return n


class MmioEmitter:
    def __init__(self, t, cls_q):
        self.t = t
        self.cls_q = cls_q
        self.out = []           # C text of closure functions, in emission order
        self.cellset = {}       # K -> function name
        self.cellget = {}
        self.count = 0
        self.log = []           # (K, what) for meta
        self.ncells = None

    # ---------------------------------------------------------------- tiny constant evaluator (loop variables, cell indices)
    def ev(self, n, env):
        k = n.get('kind')
        if k in CASTS or k in ('CStyleCastExpr', 'CXXStaticCastExpr', 'CXXFunctionalCastExpr'): return self.ev(inner(n)[0], env)
        if k == 'IntegerLiteral': return int(n['value'])
        if k == 'DeclRefExpr':
            i = n['referencedDecl']['id']
            if i in env: return env[i][1]
            raise Unsupported('mmio table: index depends on a non-loop variable ' + n['referencedDecl'].get('name', '?'))
        if k == 'BinaryOperator':
            a, b = [self.ev(x, env) for x in inner(n)]
            op = n['opcode']
            if op == '+': return a + b
            if op == '-': return a - b
            if op == '*': return a * b
            if op == '<<': return a << b
            if op == '|': return a | b
            if op == '<': return int(a < b)
            if op == '<=': return int(a <= b)
            if op == '!=': return int(a != b)
        raise Unsupported('mmio table: cannot evaluate %s at extraction time' % k)

    # ---------------------------------------------------------------- emission of one closure body
    def ctx_prologue(self, env):
        t = self.t
        lines = []
        for p in self.ctor_params:
            lines.append('    %s%s = m->%s; (void)%s;' % (t.ctype(p['type']), p['name'], p['name'], p['name']))
        for i, (name, val, ctype) in env.items():
            lines.append('    const %s %s = %d; (void)%s;' % (ctype, name, val, name))
        return lines

    def lambda_method(self, lam):
        rec = [c for c in inner(lam) if c.get('kind') == 'CXXRecordDecl'][0]
        for c in inner(rec):
            if c.get('kind') == 'CXXMethodDecl' and c.get('name') == 'operator()': return c
        raise Unsupported('mmio table: generic lambda')

    def emit_lambda(self, lam, tag, prologue, slots=None):
        """one C function from a lambda: signature from operator(), body translated from its AST"""
        t = self.t
        md = self.lambda_method(lam)
        ft = md['type']['qualType']
        is_get = not [p for p in inner(md) if p.get('kind') == 'ParmVarDecl']
        name = 'vmmio_%s_%d' % (tag, self.count); self.count += 1
        params = ['VMMIO *m']
        for k, p in enumerate(c for c in inner(md) if c.get('kind') == 'ParmVarDecl'):
            params.append('%s %s' % (t.ctype(p['type']), p.get('name') or 'verif_unused_%d' % k))
        body = [c for c in inner(md) if c.get('kind') == 'CompoundStmt'][0]
        save = (t.curfn, t.loopno, getattr(t, 'renames', {}), getattr(t, 'bindings', {}), getattr(t, 'cur_ret_ref', False), getattr(t, 'mmio_slots', None), getattr(t, 'lambdas', {}), getattr(t, 'static_tables', {}), getattr(t, 'decoder_vars', set()))
        t.curfn = 'vmmio'; t.loopno = 0; t.renames = {}; t.bindings = {}; t.cur_ret_ref = False; t.mmio_slots = slots; t.lambdas = {}; t.static_tables = {}; t.decoder_vars = set()
        try:
            lines = t.s(body, 0)
        finally:
            (t.curfn, t.loopno, t.renames, t.bindings, t.cur_ret_ref, t.mmio_slots, t.lambdas, t.static_tables, t.decoder_vars) = save
        ret = 'u16' if is_get else 'void'
        loc = lam.get('range', {}).get('begin', {})
        self.out.append('/* closure at mmio.cpp:%s */\nstatic %s %s(%s)\n%s\n%s\n%s\n' % (loc.get('line', loc.get('expansionLoc', {}).get('line', '?')), ret, name, ', '.join(params), lines[0], '\n'.join(prologue), '\n'.join(lines[1:])))
        return name

    def emit_bind(self, call, kind, env):
        """std::bind(&C::m, &obj, bound..., _1): the call the bind object makes, spelled directly"""
        t = self.t
        args = inner(call)[1:]
        pm = strip_casts(args[0])
        if pm.get('kind') != 'UnaryOperator' or pm.get('opcode') != '&': raise Unsupported('mmio table: std::bind target is not &C::m')
        mref = strip_casts(inner(pm)[0])
        md = t.byid[t.defn.get(mref['referencedDecl']['id'], mref['referencedDecl']['id'])]
        save = t.curfn; t.curfn = 'vmmio'
        try:
            fn = t.use_func(md['id'])
            obj = t.e(args[1])
            mparams = [p for p in inner(md) if p.get('kind') == 'ParmVarDecl']
            cargs = []
            used_ph = False
            for a, p in zip(args[2:], mparams):
                sa = strip_casts(a)
                pt = t.ctype(p['type']).strip()
                if pt.endswith('*'): raise Unsupported('mmio table: bound method takes a reference/pointer')
                if sa.get('kind') == 'DeclRefExpr' and sa['referencedDecl'].get('name') == '_1':
                    cargs.append('(%s)value' % pt); used_ph = True
                else:
                    cargs.append('(%s)(%s)' % (pt, t.e(a)))
            if len(args) - 2 != len(mparams): raise Unsupported('mmio table: std::bind arity')
        finally:
            t.curfn = save
        name = 'vmmio_bind_%s_%d' % (kind, self.count); self.count += 1
        pro = '\n'.join(self.ctx_prologue(env))
        if kind == 'set':
            self.out.append('/* std::bind(&%s, ...) */\nstatic void %s(VMMIO *m, u16 value)\n{\n%s\n    (void)value; %s(%s);\n}\n' % (t.qname(md['id']), name, pro, fn, ', '.join([obj] + cargs)))
        else:
            if used_ph: raise Unsupported('mmio table: getter bound with a placeholder')
            self.out.append('/* std::bind(&%s, ...) */\nstatic u16 %s(VMMIO *m)\n{\n%s\n    return (u16)%s(%s);\n}\n' % (t.qname(md['id']), name, pro, fn, ', '.join([obj] + cargs)))
        return name

    def closure(self, n, kind, env, prologue, K, tag='c'):
        """n: the expression assigned to a std::function -> name of the emitted C function, or None for an empty function"""
        n = strip(n)
        k = n.get('kind')
        if k == 'LambdaExpr':
            return self.emit_lambda(n, '%s%03X_%s' % (tag, K, kind), prologue)
        if k == 'CallExpr':
            cn = self.t.callee_name(n)
            if cn == 'bind': return self.emit_bind(n, kind, env)
            cd = self.t.callee_decl(n)
            d = self.t.byid.get(self.t.defn.get(cd['id'], cd['id'])) if cd else None
            if d is not None and cn in ('NoSet', 'NoGet'):
                lam = self.find(d, 'LambdaExpr')
                return self.emit_lambda(lam, '%s%03X_%s_%s' % (tag, K, kind, cn), [])      # captures only the debug string of a dropped printf
            raise Unsupported('mmio table: closure made by call to ' + str(cn))
        if k in ('CXXConstructExpr', 'InitListExpr', 'CXXTemporaryObjectExpr') and not inner(n):
            return None
        raise Unsupported('mmio table: closure expression of kind ' + str(k))

    def find(self, n, kind):
        if n.get('kind') == kind: return n
        for x in inner(n):
            r = self.find(x, kind)
            if r is not None: return r
        return None

    def findall(self, n, kind, acc=None, stop=()):
        acc = [] if acc is None else acc
        if n.get('kind') == kind: acc.append(n)
        if n.get('kind') in stop: return acc
        for x in inner(n): self.findall(x, kind, acc, stop)
        return acc

    # ---------------------------------------------------------------- factories: Cell::ConstCell / RefCell / BitFieldCell / Cell::Cell, BitFieldSlot::RefSlot
    def factory(self, fd, args, env, K, prologue0, tag, slots=None):
        """executes a factory body: binds its parameters, finds the assignments to .set / .get -> (set closure, get closure)"""
        t = self.t
        fd = t.byid.get(t.defn.get(fd['id'], fd['id']), fd)
        if not has_body(fd): raise Unsupported('mmio table: factory %s has no body' % fd.get('name'))
        pro = list(prologue0)
        save = t.curfn; t.curfn = 'vmmio'
        try:
            for p, a in zip([c for c in inner(fd) if c.get('kind') == 'ParmVarDecl'], args):
                pq = qt(p['type'])
                if 'vector<' in pq and 'BitFieldSlot' in pq: continue          # handled by the slot list
                if t.is_ref(p['type']):
                    pro.append('    %s%s = %s; (void)%s;' % (t.ctype(p['type']), p['name'], t.addr(a), p['name']))
                else:
                    pro.append('    const %s %s = %s; (void)%s;' % (t.ctype(p['type']).replace('const ', ''), p['name'], t.e(a), p['name']))
        finally:
            t.curfn = save
        body = [c for c in inner(fd) if c.get('kind') == 'CompoundStmt'][0]
        for vd in self.findall(body, 'VarDecl', stop=('LambdaExpr',)):
            if 'shared_ptr<' in qt(vd['type']):
                pro.append('    const unsigned %s = %d; (void)%s;   /* std::shared_ptr<u16> storage = std::make_shared<u16>(0): index of the cell\'s backing word, *storage -> m->st[storage] */' % (vd['name'], K, vd['name']))
        res = {'set': 'KEEP', 'get': 'KEEP'}
        for oc in self.findall(body, 'CXXOperatorCallExpr', stop=('LambdaExpr',)):
            if t.callee_name(oc) != 'operator=': continue
            lhs = strip_casts(inner(oc)[1])
            if lhs.get('kind') == 'MemberExpr' and lhs.get('name') in ('set', 'get') and 'function<' in qt(lhs['type']):
                rhs = strip(inner(oc)[2])
                if rhs.get('kind') == 'LambdaExpr':
                    res[lhs['name']] = self.emit_lambda(rhs, '%s%03X_%s' % (tag, K, lhs['name']), pro, slots)
                else:
                    res[lhs['name']] = self.closure(rhs, lhs['name'], env, pro, K, tag)
        return res['set'], res['get']

    def slot(self, n, env, K, k):
        """one element of the BitFieldCell initializer list -> (pos C expr, length C expr, set closure, get closure)"""
        t = self.t
        n = strip(n)
        pro = self.ctx_prologue(env)
        save = t.curfn; t.curfn = 'vmmio'
        try:
            if n.get('kind') == 'CallExpr' and t.callee_name(n) == 'RefSlot':
                args = inner(n)[1:]
                pos, ln = t.e(args[0]), t.e(args[1])
                s, g = self.factory(t.callee_decl(n), args, env, K, pro, 's%d_' % k)
                if 'KEEP' in (s, g): raise Unsupported('mmio table: RefSlot shape')
                return pos, ln, s, g
            if n.get('kind') == 'InitListExpr' and len(inner(n)) == 4:
                a = inner(n)
                pos, ln = t.e(a[0]), t.e(a[1])
                return pos, ln, self.closure(a[2], 'set', env, pro, K, 's%d_' % k), self.closure(a[3], 'get', env, pro, K, 's%d_' % k)
        finally:
            t.curfn = save
        raise Unsupported('mmio table: bit-field slot of kind %s' % n.get('kind'))

    def cell_value(self, rhs, env, K):
        """rhs of `cells[K] = ...` -> (set, get)"""
        t = self.t
        n = strip(rhs)
        if n.get('kind') in ('CXXTemporaryObjectExpr', 'CXXConstructExpr') and not inner(n):
            self.log.append((K, 'Cell()'))
            return self.default_set, self.default_get
        if n.get('kind') == 'CallExpr':
            cn = t.callee_name(n)
            args = inner(n)[1:]
            if cn in ('ConstCell', 'RefCell'):
                self.log.append((K, cn))
                s, g = self.factory(t.callee_decl(n), args, env, K, self.ctx_prologue(env), 'c')
                if 'KEEP' in (s, g): raise Unsupported('mmio table: %s shape' % cn)
                return s, g
            if cn == 'BitFieldCell':
                il = self.find(args[0], 'InitListExpr')
                slots = [self.slot(x, env, K, k) for k, x in enumerate(inner(il))]
                self.log.append((K, 'BitFieldCell x%d' % len(slots)))
                s, g = self.factory(t.callee_decl(n), args, env, K, ['    (void)m;'], 'c', slots)
                if 'KEEP' in (s, g): raise Unsupported('mmio table: BitFieldCell shape')
                return s, g
        raise Unsupported('mmio table: cell initialiser %s %s' % (n.get('kind'), t.callee_name(n) if n.get('kind') == 'CallExpr' else ''))

    # ---------------------------------------------------------------- the constructor body
    def lhs_cell(self, n, env):
        """impl->cells[K] or impl->cells[K].set/.get -> (K, None|'set'|'get')"""
        n = strip_casts(n)
        which = None
        if n.get('kind') == 'MemberExpr' and n.get('name') in ('set', 'get'):
            which = n['name']; n = strip_casts(inner(n)[0])
        if n.get('kind') == 'CXXOperatorCallExpr' and self.t.callee_name(n) == 'operator[]':
            a = inner(n)[1:]
            base = strip_casts(a[0])
            if base.get('kind') == 'MemberExpr' and base.get('name') == 'cells':
                m = re.search(r'array<.*, (\d+)>', qt(base['type']))
                if m: self.ncells = int(m.group(1))
                return self.ev(a[1], env), which
        raise Unsupported('mmio table: assignment target is not impl->cells[K](.set|.get)')

    def walk(self, n, env):
        k = n.get('kind')
        if k == 'CompoundStmt':
            for c in inner(n): self.walk(c, env)
        elif k == 'DeclStmt':
            if all(c.get('kind') in ('UsingDirectiveDecl',) for c in inner(n)): return
            raise Unsupported('mmio table: declaration in the constructor body')
        elif k == 'ForStmt':
            raw = n['inner']
            init, cond, inc, body = raw[0], raw[2], raw[3], raw[4]
            vd = inner(init)[0]
            val = self.ev(inner(vd)[0], env)
            inc_s = strip_casts(inc)
            if inc_s.get('kind') != 'UnaryOperator' or inc_s.get('opcode') != '++' or strip_casts(inner(inc_s)[0])['referencedDecl']['id'] != vd['id']:
                raise Unsupported('mmio table: loop increment is not ++i')
            n_it = 0
            while True:
                e2 = dict(env); e2[vd['id']] = (vd['name'], val, self.t.ctype(vd['type']).strip())
                if not self.ev(cond, e2): break
                self.walk(body, e2)
                val += 1; n_it += 1
                if n_it > 64: raise Unsupported('mmio table: loop bound')
            self.t.rules['mmio table: constant-bound for loop unrolled'] += 1
        elif k in ('ExprWithCleanups', 'CXXOperatorCallExpr'):
            oc = strip_casts(n)
            if oc.get('kind') != 'CXXOperatorCallExpr' or self.t.callee_name(oc) != 'operator=':
                raise Unsupported('mmio table: statement is not an assignment')
            a = inner(oc)[1:]
            K, which = self.lhs_cell(a[0], env)
            if which is None:
                self.cellset[K], self.cellget[K] = self.cell_value(a[1], env, K)
            else:
                fnname = self.closure(a[1], which, env, self.ctx_prologue(env), K)
                self.log.append((K, '.%s' % which))
                (self.cellset if which == 'set' else self.cellget)[K] = fnname
            self.t.rules['mmio table: cell binding statement evaluated'] += 1
        elif k == 'NullStmt':
            return
        else:
            raise Unsupported('mmio table: statement kind %s in the constructor' % k)

    def run(self):
        t = self.t
        ctor = None
        for c in t.funcs_by_qual.get(self.cls_q + '::' + self.cls_q.split('::')[-1], []):
            if c.get('kind') == 'CXXConstructorDecl' and has_body(c): ctor = c
        if ctor is None: raise SystemExit('EXTRACT-ABORT: no constructor body for %s in this TU' % self.cls_q)
        self.ctor_params = [c for c in inner(ctor) if c.get('kind') == 'ParmVarDecl']
        for p in self.ctor_params: t.ctype(p['type'])
        # the default closure pair: Cell::Cell()
        cellrec = None
        for c in t.funcs_by_qual.get('Teakra::Cell::Cell', []):
            if c.get('kind') == 'CXXConstructorDecl' and has_body(c) and not [p for p in inner(c) if p.get('kind') == 'ParmVarDecl']: cellrec = c
        if cellrec is None: raise SystemExit('EXTRACT-ABORT: Cell::Cell() not found')
        self.default_set = self.default_get = None
        # Cell::Cell(): lambdas assigned to the members set / get (translated once, the cell index is a parameter)
        body = [c for c in inner(cellrec) if c.get('kind') == 'CompoundStmt'][0]
        pro = ['    const unsigned storage = verif_k; (void)storage;   /* std::shared_ptr<u16> storage = std::make_shared<u16>(0): *storage -> m->st[storage] */']
        for oc in self.findall(body, 'CXXOperatorCallExpr', stop=('LambdaExpr',)):
            if t.callee_name(oc) != 'operator=': continue
            lhs = strip_casts(inner(oc)[1])
            if lhs.get('kind') == 'MemberExpr' and lhs.get('name') in ('set', 'get'):
                lam = strip(inner(oc)[2])
                nm = self.emit_lambda(lam, 'default_' + lhs['name'], pro)
                # add the index parameter
                self.out[-1] = self.out[-1].replace('(VMMIO *m', '(VMMIO *m, unsigned verif_k', 1)
                if lhs['name'] == 'set': self.default_set = nm
                else: self.default_get = nm
        if not self.default_set or not self.default_get: raise SystemExit('EXTRACT-ABORT: Cell::Cell() shape')
        body = [c for c in inner(ctor) if c.get('kind') == 'CompoundStmt'][0]
        self.walk(body, {})
        N = self.ncells or 0x800
        fields = ''.join('    %s%s;\n' % (t.ctype(p['type']), p['name']) for p in self.ctor_params)
        struct = 'typedef struct VMMIO {\n%s    u16 st[%d];      /* one backing word per cell (the shared_ptr<u16> of Cell::Cell / Cell::BitFieldCell) */\n} VMMIO;\n#define VMMIO_CELLS %d\n' % (fields, N, N)
        t.tail_records = getattr(t, 'tail_records', {}); t.tail_records['VMMIO'] = struct
        def call(fn, K, kind):
            if fn in (self.default_set, self.default_get): return '%s(m, %d%s)' % (fn, K, ', value' if kind == 'set' else '')
            return '%s(m%s)' % (fn, ', value' if kind == 'set' else '')
        ks = sorted(set(self.cellset) | set(self.cellget))
        w = ['/* MMIORegion::Write: impl->cells[addr].set(value) over the evaluated binding table */', 'void vmmio_write(VMMIO *m, u16 addr, u16 value)', '{',
             '    u16 probe_ = m->st[addr]; (void)probe_;      /* cells[addr]: the index of std::array<Cell, %d> */' % N, '    switch (addr) {']
        r = ['/* MMIORegion::Read: impl->cells[addr].get() */', 'u16 vmmio_read(VMMIO *m, u16 addr)', '{', '    u16 probe_ = m->st[addr]; (void)probe_;', '    switch (addr) {']
        for K in ks:
            s = self.cellset.get(K, self.default_set); g = self.cellget.get(K, self.default_get)
            w.append('    case 0x%03X: %s; return;' % (K, call(s, K, 'set')) if s else '    case 0x%03X: VERIF_FN_CHECK(verif_fn_empty); return;' % K)
            r.append('    case 0x%03X: return %s;' % (K, call(g, K, 'get')) if g else '    case 0x%03X: VERIF_FN_CHECK(verif_fn_empty); return 0;' % K)
        w += ['    default: %s(m, addr, value); return;' % self.default_set, '    }', '}']
        r += ['    default: return %s(m, addr);' % self.default_get, '    }', '}']
        r += ['/* offsets the constructor binds (every other offset keeps the closure pair of Cell::Cell()) */', 'static inline bool vmmio_is_bound(u16 addr) { switch (addr) {'] + ['    case 0x%03X:' % K for K in ks] + ['        return 1;', '    default: return 0; } }']
        text = '\n'.join(self.out) + '\n' + '\n'.join(w) + '\n' + '\n'.join(r) + '\n'
        t.out_funcs['vmmio'] = text
        t.protos['vmmio'] = 'void vmmio_write(VMMIO *m, u16 addr, u16 value);\nu16 vmmio_read(VMMIO *m, u16 addr);'
        t.func_src['vmmio'] = (self.cls_q + '::' + self.cls_q.split('::')[-1], '/repo/src/mmio.cpp', 0)
        t.mmio_cells = {'bound': ['0x%03X' % K for K in ks], 'log': ['0x%03X %s' % (K, wh) for K, wh in self.log], 'cells': N}
        return 'vmmio'
